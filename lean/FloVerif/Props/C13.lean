/-
C13  Fat-line clipping (Sederberg–Nishita): the strips built by `FatLine::from_curve` / `from_curve_perpendicular`
     contain the curve, the distance curve is a graph over the parameter, `clip_t` never leaves a parameter whose curve
     point is inside the strip outside its answer (up to the snapping slack of `round_y_value`), and `clip` only widens
     what `clip_t` returns.

Property theorems only.  `Gen.fat_from_curve`, `fat_from_curve_perpendicular`, `from_line_and_points`, `fat_distance`,
`fat_distance_curve`, `distance_curve_convex_hull`, `round_y_value`, `solve_line_y`, `clip_t`, `fat_is_flat`, `clip`,
`line_coefficients_2d(_unnormalized)`, `is_near_to`, `de_casteljau4` are regenerated from the Rust sources on every check.

Number model: `K` is any linearly ordered field, `f64::abs` is `|·|`, `f64::sqrt` (`FSqrt K`) is an ARBITRARY function
unless a hypothesis says otherwise (so the normalisation factor may be anything, 0 included: `x / 0 = 0` makes the strip
degenerate and the statements still hold), and the sentinels `f64::MAX/MIN/±∞` (`FConsts K`) are arbitrary: only
`clip_t_range` (`hminval : f64::MIN ≤ 1`) and `clip_t_shape` (`hM : 1 ≤ f64::MAX`, `hm : f64::MIN ≤ 0`) assume anything
about them; the soundness theorems `clip_t_sound`, `clip_returns_widened_range`, `clip_none`, `clip_keeps_intersections`
assume nothing.

Findings recorded as theorems:
* `perp_strip_near_counterexample`: for coincident end points `from_curve_perpendicular` measures the substituted end
  point `w1 + (cp2 − cp1)` instead of `w4`; the strip then misses `w4` (by at most 1e-7, `perp_strip_contains_curve_near_slack`).
* `clip_t_shape`: with real sentinels the branches `Some((0.0, t2))`, `Some((t1, 1.0))`, `t1 < 0.0 …`, `t1 > 1.0` of the
  decision tree of `clip_t` are dead.
-/
import FloVerif.Lemmas.FatLine

set_option linter.unusedSectionVars false
set_option linter.unusedVariables false
namespace C13
open Prelude Gen FatLineLemmas

variable {K : Type} [Field K] [LinearOrder K] [IsStrictOrderedRing K] [Inhabited K]

/-- in exact arithmetic `f64::abs` is the absolute value -/
local instance : FAbs K := ⟨fun a => |a|⟩


/-! ## distances are affine -/

/-- the signed distance of a curve point is the Bernstein combination of the control points' distances -/
theorem distance_affine (fl : FatLineT K) (w1 w2 w3 w4 : V2 K) (t : K) :
    fat_distance fl (de_casteljau4 t w1 w2 w3 w4) =
      (1-t)^3 * fat_distance fl w1 + 3*(1-t)^2*t * fat_distance fl w2 + 3*(1-t)*t^2 * fat_distance fl w3
        + t^3 * fat_distance fl w4 := by
  simp only [fat_distance, dc4_x, dc4_y, dc4_bernstein]
  ring

/-- a Bernstein combination lies between any common bounds of the four values -/
theorem bernstein_between (t a b c d lo hi : K) (h0 : 0 ≤ t) (h1 : t ≤ 1)
    (ha : lo ≤ a ∧ a ≤ hi) (hb : lo ≤ b ∧ b ≤ hi) (hc : lo ≤ c ∧ c ≤ hi) (hd : lo ≤ d ∧ d ≤ hi) :
    lo ≤ (1-t)^3 * a + 3*(1-t)^2*t * b + 3*(1-t)*t^2 * c + t^3 * d ∧
    (1-t)^3 * a + 3*(1-t)^2*t * b + 3*(1-t)*t^2 * c + t^3 * d ≤ hi := by
  have s : 0 ≤ 1 - t := by linarith
  have b0 : 0 ≤ (1-t)^3 := by positivity
  have b1 : 0 ≤ 3*(1-t)^2*t := by positivity
  have b2 : 0 ≤ 3*(1-t)*t^2 := by positivity
  have b3 : 0 ≤ t^3 := by positivity
  have hs : (1-t)^3 + 3*(1-t)^2*t + 3*(1-t)*t^2 + t^3 = 1 := by ring
  constructor
  · nlinarith [mul_le_mul_of_nonneg_left ha.1 b0, mul_le_mul_of_nonneg_left hb.1 b1,
      mul_le_mul_of_nonneg_left hc.1 b2, mul_le_mul_of_nonneg_left hd.1 b3]
  · nlinarith [mul_le_mul_of_nonneg_left ha.2 b0, mul_le_mul_of_nonneg_left hb.2 b1,
      mul_le_mul_of_nonneg_left hc.2 b2, mul_le_mul_of_nonneg_left hd.2 b3]

/-! ## the strips contain the curve -/

section Strips
variable [FSqrt K]

/-- the unnormalised coefficients vanish at both defining points -/
theorem unnormalized_through_points (p q : V2 K) :
    let u := line_coefficients_2d_unnormalized (T2.mk p q)
    u.t0 * p.x + u.t1 * p.y + u.t2 = 0 ∧ u.t0 * q.x + u.t1 * q.y + u.t2 = 0 := by
  have h0 : (0.0 : K) = 0 := by norm_num
  have h1 : (1.0 : K) = 1 := by norm_num
  simp only [line_coefficients_2d_unnormalized, V2_sub_x, V2_sub_y, h0, h1, fabs]
  split_ifs with c1 c2 c3 c3
  · simp
  · simp only [decide_eq_true_eq] at c2
    have hx : q.x - p.x ≠ 0 := abs_pos.1 (lt_of_le_of_lt (abs_nonneg _) c2)
    constructor <;> field_simp <;> ring
  · simp only [decide_eq_true_eq] at c2
    have hx : q.x - p.x ≠ 0 := abs_pos.1 (lt_of_le_of_lt (abs_nonneg _) c2)
    constructor <;> field_simp <;> ring
  · simp only [decide_eq_true_eq, Bool.and_eq_true, beq_iff_eq, not_and, not_lt] at c1 c2
    have hy : q.y - p.y ≠ 0 := by
      intro e
      rw [e, abs_zero] at c2
      exact c1 (abs_eq_zero.1 (le_antisymm c2 (abs_nonneg _))) e
    constructor <;> field_simp <;> ring
  · simp only [decide_eq_true_eq, Bool.and_eq_true, beq_iff_eq, not_and, not_lt] at c1 c2
    have hy : q.y - p.y ≠ 0 := by
      intro e
      rw [e, abs_zero] at c2
      exact c1 (abs_eq_zero.1 (le_antisymm c2 (abs_nonneg _))) e
    constructor <;> field_simp <;> ring

/-- in the exact field model the `factor == 0.0` guard of `line_coefficients_2d` changes nothing: the guarded branch
    returns the zero coefficients, which is what `x / 0 = 0` gives for the quotients -/
theorem line_coefficients_2d_eq (l : T2 (V2 K) (V2 K)) :
    line_coefficients_2d l =
      T3.mk ((line_coefficients_2d_unnormalized l).t0 /
              fsqrt ((line_coefficients_2d_unnormalized l).t0 * (line_coefficients_2d_unnormalized l).t0 +
                (line_coefficients_2d_unnormalized l).t1 * (line_coefficients_2d_unnormalized l).t1))
            ((line_coefficients_2d_unnormalized l).t1 /
              fsqrt ((line_coefficients_2d_unnormalized l).t0 * (line_coefficients_2d_unnormalized l).t0 +
                (line_coefficients_2d_unnormalized l).t1 * (line_coefficients_2d_unnormalized l).t1))
            ((line_coefficients_2d_unnormalized l).t2 /
              fsqrt ((line_coefficients_2d_unnormalized l).t0 * (line_coefficients_2d_unnormalized l).t0 +
                (line_coefficients_2d_unnormalized l).t1 * (line_coefficients_2d_unnormalized l).t1)) := by
  simp only [line_coefficients_2d, lit0, beq_iff_eq]
  split_ifs with h
  · rw [h]; simp only [div_zero]
  · rfl

/-- … and so do the normalised ones, whatever the normalisation factor is (`x / 0 = 0` included) -/
theorem coeff_through_points (p q : V2 K) :
    let co := line_coefficients_2d (T2.mk p q)
    co.t0 * p.x + co.t1 * p.y + co.t2 = 0 ∧ co.t0 * q.x + co.t1 * q.y + co.t2 = 0 := by
  obtain ⟨hp, hq⟩ := unnormalized_through_points p q
  simp only [line_coefficients_2d_eq] at hp hq ⊢
  generalize line_coefficients_2d_unnormalized (T2.mk p q) = u at hp hq ⊢
  generalize fsqrt (u.t0 * u.t0 + u.t1 * u.t1) = f
  constructor
  · have : u.t0 / f * p.x + u.t1 / f * p.y + u.t2 / f = (u.t0 * p.x + u.t1 * p.y + u.t2) / f := by ring
    rw [this, hp, zero_div]
  · have : u.t0 / f * q.x + u.t1 / f * q.y + u.t2 / f = (u.t0 * q.x + u.t1 * q.y + u.t2) / f := by ring
    rw [this, hq, zero_div]

/-- the coefficients of `from_line_and_points` are those of its base line -/
theorem flp_coeff (l : T2 (V2 K) (V2 K)) (p1 p2 : V2 K) :
    (from_line_and_points l p1 p2).coeff = line_coefficients_2d l := by
  simp only [from_line_and_points]

/-- the base line of `from_line_and_points` passes through both points of the line -/
theorem flp_distance_zero (p q p1 p2 : V2 K) :
    fat_distance (from_line_and_points (T2.mk p q) p1 p2) p = 0 ∧
    fat_distance (from_line_and_points (T2.mk p q) p1 p2) q = 0 := by
  simp only [fat_distance, flp_coeff]
  exact coeff_through_points p q

/-- `d_min`, `d_max` of `from_line_and_points` in terms of the two distances -/
theorem flp_bounds (l : T2 (V2 K) (V2 K)) (p1 p2 : V2 K) :
    let fl := from_line_and_points l p1 p2
    let d1 := fat_distance fl p1
    let d2 := fat_distance fl p2
    fl.d_min = (if d1 * d2 > 0 then (3/4 : K) else 4/9) * min (min d1 d2) 0 ∧
    fl.d_max = (if d1 * d2 > 0 then (3/4 : K) else 4/9) * max (max d1 d2) 0 := by
  have h0 : (0.0 : K) = 0 := by norm_num
  have h34 : (3.0 : K) / (4.0 : K) = 3/4 := by norm_num
  have h49 : (4.0 : K) / (9.0 : K) = 4/9 := by norm_num
  simp only [from_line_and_points, fat_distance, fmin_eq_min, fmax_eq_max, h0, h34, h49, decide_eq_true_eq]
  split_ifs <;> exact ⟨rfl, rfl⟩

/-- strip of `from_line_and_points`, when the base line passes through the curve's end points -/
theorem flp_contains (l : T2 (V2 K) (V2 K)) (w1 w2 w3 w4 : V2 K) (t : K) (h0 : 0 ≤ t) (h1 : t ≤ 1) :
    let fl := from_line_and_points l w2 w3
    fl.d_min + ((1-t)^3 * fat_distance fl w1 + t^3 * fat_distance fl w4) ≤ fat_distance fl (de_casteljau4 t w1 w2 w3 w4) ∧
    fat_distance fl (de_casteljau4 t w1 w2 w3 w4) ≤ fl.d_max + ((1-t)^3 * fat_distance fl w1 + t^3 * fat_distance fl w4) := by
  intro fl
  obtain ⟨hmin, hmax⟩ := flp_bounds l w2 w3
  obtain ⟨hlo, hhi⟩ := inner_bounds t (fat_distance fl w2) (fat_distance fl w3) h0 h1
  rw [distance_affine]
  show (from_line_and_points l w2 w3).d_min + _ ≤ _ ∧ _ ≤ (from_line_and_points l w2 w3).d_max + _
  rw [hmin, hmax]
  simp only [inner] at hlo hhi
  constructor <;> linarith

theorem from_curve_far (w1 w2 w3 w4 : V2 K) (hfar : is_near_to w1 w4 (0.0000001 : K) = false) :
    fat_from_curve w1 w2 w3 w4 = from_line_and_points (T2.mk w1 w4) w2 w3 := by
  simp only [fat_from_curve, hfar, Bool.false_eq_true, if_false]

theorem from_curve_near (w1 w2 w3 w4 : V2 K) (hnear : is_near_to w1 w4 (0.0000001 : K) = true) :
    fat_from_curve w1 w2 w3 w4 = from_line_and_points (T2.mk w1 (w1 + (w3 - w2))) w2 w3 := by
  simp only [fat_from_curve, hnear, if_true]

/-- the base line of `from_curve` in its chord branch passes through both end points -/
theorem chord_distance_zero (w1 w2 w3 w4 : V2 K) (hfar : is_near_to w1 w4 (0.0000001 : K) = false) :
    fat_distance (fat_from_curve w1 w2 w3 w4) w1 = 0 ∧ fat_distance (fat_from_curve w1 w2 w3 w4) w4 = 0 := by
  rw [from_curve_far w1 w2 w3 w4 hfar]
  exact flp_distance_zero w1 w4 w2 w3

/-- STRIP CONTAINS CURVE (chord branch): every point of the curve lies inside the fat line built from it -/
theorem strip_contains_curve (w1 w2 w3 w4 : V2 K) (hfar : is_near_to w1 w4 (0.0000001 : K) = false)
    (t : K) (h0 : 0 ≤ t) (h1 : t ≤ 1) :
    let fl := fat_from_curve w1 w2 w3 w4
    fl.d_min ≤ fat_distance fl (de_casteljau4 t w1 w2 w3 w4) ∧ fat_distance fl (de_casteljau4 t w1 w2 w3 w4) ≤ fl.d_max := by
  intro fl
  obtain ⟨z1, z4⟩ := chord_distance_zero w1 w2 w3 w4 hfar
  have h := flp_contains (T2.mk w1 w4) w1 w2 w3 w4 t h0 h1
  rw [← from_curve_far w1 w2 w3 w4 hfar] at h
  simp only [z1, z4, mul_zero, add_zero] at h
  exact h

/-- coincident end points: the base line runs from the start point in the direction `cp2 − cp1`; the start point
    has distance 0, the end point `w4` has some distance `e` (it is not on the base line in general).
    Exact statement: the distance of the curve point, minus the end point's share `t³·e`, lies in `[d_min, d_max]`. -/
theorem strip_contains_curve_near (w1 w2 w3 w4 : V2 K) (hnear : is_near_to w1 w4 (0.0000001 : K) = true)
    (t : K) (h0 : 0 ≤ t) (h1 : t ≤ 1) :
    let fl := fat_from_curve w1 w2 w3 w4
    let e := fat_distance fl w4
    fat_distance fl w1 = 0 ∧
    fl.d_min + t^3 * e ≤ fat_distance fl (de_casteljau4 t w1 w2 w3 w4) ∧
    fat_distance fl (de_casteljau4 t w1 w2 w3 w4) ≤ fl.d_max + t^3 * e := by
  intro fl e
  have z1 : fat_distance fl w1 = 0 := by
    show fat_distance (fat_from_curve w1 w2 w3 w4) w1 = 0
    rw [from_curve_near w1 w2 w3 w4 hnear]
    exact (flp_distance_zero w1 (w1 + (w3 - w2)) w2 w3).1
  have h := flp_contains (T2.mk w1 (w1 + (w3 - w2))) w1 w2 w3 w4 t h0 h1
  rw [← from_curve_near w1 w2 w3 w4 hnear] at h
  simp only at h
  refine ⟨z1, ?_⟩
  have z1' : fat_distance (fat_from_curve w1 w2 w3 w4) w1 = 0 := z1
  rw [z1', mul_zero, zero_add] at h
  exact h

/-- corollary: containment with the slack `|e|` on both sides -/
theorem strip_contains_curve_near_abs (w1 w2 w3 w4 : V2 K) (hnear : is_near_to w1 w4 (0.0000001 : K) = true)
    (t : K) (h0 : 0 ≤ t) (h1 : t ≤ 1) :
    let fl := fat_from_curve w1 w2 w3 w4
    let e := fat_distance fl w4
    fl.d_min - |e| ≤ fat_distance fl (de_casteljau4 t w1 w2 w3 w4) ∧
    fat_distance fl (de_casteljau4 t w1 w2 w3 w4) ≤ fl.d_max + |e| := by
  intro fl e
  obtain ⟨_, hlo, hhi⟩ := strip_contains_curve_near w1 w2 w3 w4 hnear t h0 h1
  have ht3 : 0 ≤ t^3 := by positivity
  have ht3' : t^3 ≤ 1 := pow_le_one₀ h0 h1
  have hle : |t^3 * e| ≤ |e| := by
    rw [abs_mul, abs_of_nonneg ht3]
    exact mul_le_of_le_one_left (abs_nonneg _) ht3'
  have := abs_le.1 hle
  constructor
  · exact le_trans (by linarith [this.1]) hlo
  · exact le_trans hhi (by linarith [this.2])

/-- the fourth point whose distance `from_curve_perpendicular` uses: the end point, or – for coincident end points –
    the *substituted* end point `start + (cp2 − cp1)` -/
def perpEnd (w1 w2 w3 w4 : V2 K) : V2 K :=
  if is_near_to w1 w4 (0.0000001 : K) then w1 + (w3 - w2) else w4

/-- `d_min`/`d_max` of the perpendicular strip are the min/max of the distances of `w1, w2, w3` and `perpEnd` -/
theorem perp_bounds (w1 w2 w3 w4 : V2 K) :
    let fl := fat_from_curve_perpendicular w1 w2 w3 w4
    fl.d_min = min (min (min (fat_distance fl w1) (fat_distance fl w2)) (fat_distance fl w3))
                (fat_distance fl (perpEnd w1 w2 w3 w4)) ∧
    fl.d_max = max (max (max (fat_distance fl w1) (fat_distance fl w2)) (fat_distance fl w3))
                (fat_distance fl (perpEnd w1 w2 w3 w4)) := by
  simp only [fat_from_curve_perpendicular, fat_distance, fmin_eq_min, fmax_eq_max, perpEnd]
  exact ⟨trivial, trivial⟩

/-- perpendicular strip, general form: the curve point's distance, with the end point `w4` replaced by `perpEnd`,
    lies in `[d_min, d_max]` -/
theorem perp_strip_general (w1 w2 w3 w4 : V2 K) (t : K) (h0 : 0 ≤ t) (h1 : t ≤ 1) :
    let fl := fat_from_curve_perpendicular w1 w2 w3 w4
    let δ := fat_distance fl w4 - fat_distance fl (perpEnd w1 w2 w3 w4)
    fl.d_min + t^3 * δ ≤ fat_distance fl (de_casteljau4 t w1 w2 w3 w4) ∧
    fat_distance fl (de_casteljau4 t w1 w2 w3 w4) ≤ fl.d_max + t^3 * δ := by
  intro fl δ
  obtain ⟨hmin, hmax⟩ := perp_bounds w1 w2 w3 w4
  have hb := bernstein_between t (fat_distance fl w1) (fat_distance fl w2) (fat_distance fl w3)
    (fat_distance fl (perpEnd w1 w2 w3 w4)) fl.d_min fl.d_max h0 h1
    ⟨by rw [show fl.d_min = _ from hmin]; exact le_trans (min_le_left _ _) (le_trans (min_le_left _ _) (min_le_left _ _)),
     by rw [show fl.d_max = _ from hmax]; exact le_trans (le_trans (le_max_left _ _) (le_max_left _ _)) (le_max_left _ _)⟩
    ⟨by rw [show fl.d_min = _ from hmin]; exact le_trans (min_le_left _ _) (le_trans (min_le_left _ _) (min_le_right _ _)),
     by rw [show fl.d_max = _ from hmax]; exact le_trans (le_trans (le_max_right _ _) (le_max_left _ _)) (le_max_left _ _)⟩
    ⟨by rw [show fl.d_min = _ from hmin]; exact le_trans (min_le_left _ _) (min_le_right _ _),
     by rw [show fl.d_max = _ from hmax]; exact le_trans (le_max_right _ _) (le_max_left _ _)⟩
    ⟨by rw [show fl.d_min = _ from hmin]; exact min_le_right _ _,
     by rw [show fl.d_max = _ from hmax]; exact le_max_right _ _⟩
  rw [distance_affine]
  constructor
  · have := hb.1; simp only [δ]; linarith
  · have := hb.2; simp only [δ]; linarith

/-- the perpendicular strip contains the curve (distinct end points) -/
theorem perp_strip_contains_curve (w1 w2 w3 w4 : V2 K) (hfar : is_near_to w1 w4 (0.0000001 : K) = false)
    (t : K) (h0 : 0 ≤ t) (h1 : t ≤ 1) :
    let fl := fat_from_curve_perpendicular w1 w2 w3 w4
    fl.d_min ≤ fat_distance fl (de_casteljau4 t w1 w2 w3 w4) ∧ fat_distance fl (de_casteljau4 t w1 w2 w3 w4) ≤ fl.d_max := by
  intro fl
  have h := perp_strip_general w1 w2 w3 w4 t h0 h1
  have hE : perpEnd w1 w2 w3 w4 = w4 := by simp only [perpEnd, hfar, Bool.false_eq_true, if_false]
  simp only [hE, sub_self, mul_zero, add_zero] at h
  exact h

/-- coincident end points: the code measures the substituted end point `w1 + (w3 − w2)` instead of `w4`, so the strip
    contains the curve only up to the share `t³·(dist w4 − dist (w1 + (w3 − w2)))` of the real end point -/
theorem perp_strip_contains_curve_near (w1 w2 w3 w4 : V2 K) (hnear : is_near_to w1 w4 (0.0000001 : K) = true)
    (t : K) (h0 : 0 ≤ t) (h1 : t ≤ 1) :
    let fl := fat_from_curve_perpendicular w1 w2 w3 w4
    let δ := fat_distance fl w4 - fat_distance fl (w1 + (w3 - w2))
    fl.d_min + t^3 * δ ≤ fat_distance fl (de_casteljau4 t w1 w2 w3 w4) ∧
    fat_distance fl (de_casteljau4 t w1 w2 w3 w4) ≤ fl.d_max + t^3 * δ := by
  intro fl δ
  have h := perp_strip_general w1 w2 w3 w4 t h0 h1
  have hE : perpEnd w1 w2 w3 w4 = w1 + (w3 - w2) := by simp only [perpEnd, hnear, if_true]
  simp only [hE] at h
  exact h

/-- coincident end points, perpendicular strip: the curve stays within `|dist w4 − dist w1|` of the strip … -/
theorem perp_strip_contains_curve_near_abs (w1 w2 w3 w4 : V2 K) (t : K) (h0 : 0 ≤ t) (h1 : t ≤ 1) :
    let fl := fat_from_curve_perpendicular w1 w2 w3 w4
    let ε := |fat_distance fl w4 - fat_distance fl w1|
    fl.d_min - ε ≤ fat_distance fl (de_casteljau4 t w1 w2 w3 w4) ∧
    fat_distance fl (de_casteljau4 t w1 w2 w3 w4) ≤ fl.d_max + ε := by
  intro fl ε
  obtain ⟨hmin, hmax⟩ := perp_bounds w1 w2 w3 w4
  have hε : 0 ≤ ε := abs_nonneg _
  have a1 : fl.d_min ≤ fat_distance fl w1 := by
    rw [show fl.d_min = _ from hmin]; exact le_trans (min_le_left _ _) (le_trans (min_le_left _ _) (min_le_left _ _))
  have a2 : fl.d_min ≤ fat_distance fl w2 := by
    rw [show fl.d_min = _ from hmin]; exact le_trans (min_le_left _ _) (le_trans (min_le_left _ _) (min_le_right _ _))
  have a3 : fl.d_min ≤ fat_distance fl w3 := by
    rw [show fl.d_min = _ from hmin]; exact le_trans (min_le_left _ _) (min_le_right _ _)
  have b1 : fat_distance fl w1 ≤ fl.d_max := by
    rw [show fl.d_max = _ from hmax]; exact le_trans (le_trans (le_max_left _ _) (le_max_left _ _)) (le_max_left _ _)
  have b2 : fat_distance fl w2 ≤ fl.d_max := by
    rw [show fl.d_max = _ from hmax]; exact le_trans (le_trans (le_max_right _ _) (le_max_left _ _)) (le_max_left _ _)
  have b3 : fat_distance fl w3 ≤ fl.d_max := by
    rw [show fl.d_max = _ from hmax]; exact le_trans (le_max_right _ _) (le_max_left _ _)
  have he := abs_le.1 (le_refl ε)
  rw [distance_affine]
  exact bernstein_between t _ _ _ _ (fl.d_min - ε) (fl.d_max + ε) h0 h1 ⟨by linarith, by linarith⟩
    ⟨by linarith, by linarith⟩ ⟨by linarith, by linarith⟩ ⟨by linarith [he.1], by linarith [he.2]⟩

/-! ### how far outside the strips the curve can be for coincident end points

The slack in the `…_near` theorems is a difference of distances of points that are at most `10⁻⁷` apart.  If the
normalisation factor never under-estimates the square root (`s ≤ fsqrt s · fsqrt s`; the exact root satisfies it), the
coefficients have `a² + b² ≤ 1`, distances are 1-Lipschitz, and the slack is at most `10⁻⁷`. -/

/-- normalised coefficients have `a² + b² ≤ 1` when `fsqrt` does not under-estimate -/
theorem coeff_norm_le_one (hsqrt : ∀ s : K, 0 ≤ s → s ≤ fsqrt s * fsqrt s) (l : T2 (V2 K) (V2 K)) :
    let co := line_coefficients_2d l
    co.t0 * co.t0 + co.t1 * co.t1 ≤ 1 := by
  simp only [line_coefficients_2d_eq]
  generalize line_coefficients_2d_unnormalized l = u
  have hs0 : 0 ≤ u.t0 * u.t0 + u.t1 * u.t1 := add_nonneg (mul_self_nonneg _) (mul_self_nonneg _)
  have hf := hsqrt _ hs0
  generalize fsqrt (u.t0 * u.t0 + u.t1 * u.t1) = f at hf
  by_cases hz : f = 0
  · subst hz; simp
  · have hpos : 0 < f * f := mul_self_pos.2 hz
    have : u.t0 / f * (u.t0 / f) + u.t1 / f * (u.t1 / f) = (u.t0 * u.t0 + u.t1 * u.t1) / (f * f) := by
      field_simp
    rw [this, div_le_one hpos]
    exact hf

/-- with `a² + b² ≤ 1` the signed distance is 1-Lipschitz -/
theorem distance_lipschitz (fl : FatLineT K) (hn : fl.coeff.t0 * fl.coeff.t0 + fl.coeff.t1 * fl.coeff.t1 ≤ 1) (r r' : V2 K) :
    (fat_distance fl r - fat_distance fl r') ^ 2 ≤ (r.x - r'.x) ^ 2 + (r.y - r'.y) ^ 2 := by
  simp only [fat_distance]
  nlinarith [sq_nonneg (fl.coeff.t0 * (r.y - r'.y) - fl.coeff.t1 * (r.x - r'.x)),
    mul_le_mul_of_nonneg_right hn (add_nonneg (sq_nonneg (r.x - r'.x)) (sq_nonneg (r.y - r'.y)))]

/-- `is_near_to` in plain terms -/
theorem near_iff (p q : V2 K) : is_near_to p q (0.0000001 : K) = true ↔ (p.x - q.x) ^ 2 + (p.y - q.y) ^ 2 ≤ (1 / 10000000) ^ 2 := by
  have e : (0.0000001 : K) = 1 / 10000000 := by norm_num
  simp only [is_near_to, dot, V2_sub_x, V2_sub_y, lit0, e, decide_eq_true_eq, zero_add]
  constructor <;> intro h <;> nlinarith [h]

/-- coincident end points, chord strip: the curve stays within `10⁻⁷` of the strip -/
theorem strip_contains_curve_near_slack (hsqrt : ∀ s : K, 0 ≤ s → s ≤ fsqrt s * fsqrt s)
    (w1 w2 w3 w4 : V2 K) (hnear : is_near_to w1 w4 (0.0000001 : K) = true) (t : K) (h0 : 0 ≤ t) (h1 : t ≤ 1) :
    let fl := fat_from_curve w1 w2 w3 w4
    fl.d_min - 1 / 10000000 ≤ fat_distance fl (de_casteljau4 t w1 w2 w3 w4) ∧
    fat_distance fl (de_casteljau4 t w1 w2 w3 w4) ≤ fl.d_max + 1 / 10000000 := by
  intro fl
  obtain ⟨z1, _, _⟩ := strip_contains_curve_near w1 w2 w3 w4 hnear t h0 h1
  obtain ⟨hlo, hhi⟩ := strip_contains_curve_near_abs w1 w2 w3 w4 hnear t h0 h1
  have hc : fl.coeff = line_coefficients_2d (T2.mk w1 (w1 + (w3 - w2))) := by
    show (fat_from_curve w1 w2 w3 w4).coeff = _
    rw [from_curve_near w1 w2 w3 w4 hnear, flp_coeff]
  have hn : fl.coeff.t0 * fl.coeff.t0 + fl.coeff.t1 * fl.coeff.t1 ≤ 1 := by
    rw [hc]; exact coeff_norm_le_one hsqrt _
  have hl := distance_lipschitz fl hn w4 w1
  have hd := (near_iff w1 w4).1 hnear
  have z1' : fat_distance fl w1 = 0 := z1
  rw [z1', sub_zero] at hl
  have he : |fat_distance fl w4| ≤ 1 / 10000000 :=
    abs_le_of_sq_le_sq (le_trans hl (by nlinarith [hd])) (by norm_num)
  exact ⟨by linarith, by linarith⟩

/-- … which is at most `10⁻⁷` when `fsqrt` does not under-estimate -/
theorem perp_strip_contains_curve_near_slack (hsqrt : ∀ s : K, 0 ≤ s → s ≤ fsqrt s * fsqrt s)
    (w1 w2 w3 w4 : V2 K) (hnear : is_near_to w1 w4 (0.0000001 : K) = true) (t : K) (h0 : 0 ≤ t) (h1 : t ≤ 1) :
    let fl := fat_from_curve_perpendicular w1 w2 w3 w4
    fl.d_min - 1 / 10000000 ≤ fat_distance fl (de_casteljau4 t w1 w2 w3 w4) ∧
    fat_distance fl (de_casteljau4 t w1 w2 w3 w4) ≤ fl.d_max + 1 / 10000000 := by
  intro fl
  obtain ⟨hlo, hhi⟩ := perp_strip_contains_curve_near_abs w1 w2 w3 w4 t h0 h1
  have hc : ∃ l, fl.coeff = line_coefficients_2d l := by
    show ∃ l, (fat_from_curve_perpendicular w1 w2 w3 w4).coeff = _
    simp only [fat_from_curve_perpendicular]
    exact ⟨_, rfl⟩
  obtain ⟨l, hc⟩ := hc
  have hn : fl.coeff.t0 * fl.coeff.t0 + fl.coeff.t1 * fl.coeff.t1 ≤ 1 := by
    rw [hc]; exact coeff_norm_le_one hsqrt _
  have hl := distance_lipschitz fl hn w4 w1
  have hd := (near_iff w1 w4).1 hnear
  have he : |fat_distance fl w4 - fat_distance fl w1| ≤ 1 / 10000000 :=
    abs_le_of_sq_le_sq (le_trans hl (by nlinarith [hd])) (by norm_num)
  exact ⟨by linarith, by linarith⟩

end Strips

/-- the unrestricted statement is FALSE for coincident end points: with `w1 = w2 = (0,0)`, `w3 = (0,1)`,
    `w4 = (0,−10⁻⁸)` (so `|w1 − w4|² ≤ 10⁻¹⁴`) the perpendicular strip is `−1/2 ≤ y − 1/2 ≤ 1/2`, and the curve's end
    point `w4` has distance `−1/2 − 10⁻⁸ < d_min`.  (The normalisation factor is 1 here, its true value.) -/
theorem perp_strip_near_counterexample :
    letI : FSqrt ℚ := ⟨fun _ => 1⟩
    let w1 : V2 ℚ := ⟨0, 0⟩
    let w2 : V2 ℚ := ⟨0, 0⟩
    let w3 : V2 ℚ := ⟨0, 1⟩
    let w4 : V2 ℚ := ⟨0, -1/100000000⟩
    is_near_to w1 w4 (0.0000001 : ℚ) = true ∧
    ¬ ((fat_from_curve_perpendicular w1 w2 w3 w4).d_min ≤
        fat_distance (fat_from_curve_perpendicular w1 w2 w3 w4) (de_casteljau4 (1 : ℚ) w1 w2 w3 w4)) := by
  decide +kernel

/-! ## the distance curve -/

/-- the control points of the distance curve -/
theorem distance_curve_points (fl : FatLineT K) (w1 w2 w3 w4 : V2 K) :
    fat_distance_curve fl w1 w2 w3 w4 =
      T4.mk ⟨fat_distance fl w1, 0⟩ ⟨fat_distance fl w2, 1/3⟩ ⟨fat_distance fl w3, 2/3⟩ ⟨fat_distance fl w4, 1⟩ := by
  have h0 : (0.0 : K) = 0 := by norm_num
  have h1 : (1.0 : K) = 1 := by norm_num
  have h2 : (2.0 : K) = 2 := by norm_num
  have h3 : (3.0 : K) = 3 := by norm_num
  simp only [fat_distance_curve, h0, h1, h2, h3]

/-- the distance curve is the graph of the distance over the parameter: ordinates 0, 1/3, 2/3, 1 make y(t) = t -/
theorem distance_curve_param (fl : FatLineT K) (w1 w2 w3 w4 : V2 K) (t : K) :
    let dc := fat_distance_curve fl w1 w2 w3 w4
    (de_casteljau4 t dc.t0 dc.t1 dc.t2 dc.t3).y = t ∧
    (de_casteljau4 t dc.t0 dc.t1 dc.t2 dc.t3).x = fat_distance fl (de_casteljau4 t w1 w2 w3 w4) := by
  intro dc
  refine ⟨?_, ?_⟩
  · simp only [dc, distance_curve_points, dc4_y, dc4_bernstein]
    ring
  · simp only [dc, distance_curve_points, distance_affine, dc4_x, dc4_bernstein]

/-- the hull vertices are control points of the distance curve -/
theorem hull_subset (dc : T4 (V2 K) (V2 K) (V2 K) (V2 K)) :
    ∀ p ∈ distance_curve_convex_hull dc, p = dc.t0 ∨ p = dc.t1 ∨ p = dc.t2 ∨ p = dc.t3 := by
  intro p hp
  simp only [distance_curve_convex_hull] at hp
  split_ifs at hp <;> simp only [List.mem_cons, List.not_mem_nil, or_false] at hp <;> tauto

/-- … so their ordinates lie in [0,1] -/
theorem hull_ordinates (fl : FatLineT K) (w1 w2 w3 w4 : V2 K) :
    ∀ p ∈ distance_curve_convex_hull (fat_distance_curve fl w1 w2 w3 w4), 0 ≤ p.y ∧ p.y ≤ 1 := by
  intro p hp
  have h := hull_subset _ p hp
  rw [distance_curve_points] at h
  rcases h with rfl | rfl | rfl | rfl <;> norm_num

/-! ## `clip_t` and `clip` -/

section ClipT
variable [FConsts K]

/-- every range returned by `clip_t` is a sub-range of [0,1] (needs `f64::MIN ≤ 1` of the sentinel) -/
theorem clip_t_range (hminval : (fminval : K) ≤ 1) (fl : FatLineT K) (w1 w2 w3 w4 : V2 K) (q : T2 K K)
    (h : clip_t fl w1 w2 w3 w4 = some q) : 0 ≤ q.t0 ∧ q.t1 ≤ 1 := by
  rw [clip_t_eq] at h
  exact clipDecide_range fl _ _ (clipLoop_inv fl _ (hull_ordinates fl w1 w2 w3 w4)) hminval q h

/-- CLIP_T SOUNDNESS: a parameter whose curve point lies inside the strip is never left outside the returned range, up to
    the snapping slack 0.00001 of `round_y_value` at either end; in particular `clip_t` does not answer `none` then.
    No assumption on the sentinels `f64::MAX/MIN/±∞` and none on the shape of the hull (vertical hull edges included). -/
theorem clip_t_sound (fl : FatLineT K) (hfl : fl.d_min ≤ fl.d_max) (w1 w2 w3 w4 : V2 K) (t : K) (h0 : 0 ≤ t) (h1 : t ≤ 1)
    (hin : fl.d_min ≤ fat_distance fl (de_casteljau4 t w1 w2 w3 w4) ∧
           fat_distance fl (de_casteljau4 t w1 w2 w3 w4) ≤ fl.d_max) :
    ∃ r, clip_t fl w1 w2 w3 w4 = some r ∧ r.t0 - 0.00001 ≤ t ∧ t ≤ r.t1 + 0.00001 := by
  have hord := hull_ordinates fl w1 w2 w3 w4
  rw [clip_t_eq]
  rw [distance_curve_points] at hord ⊢
  obtain ⟨L, R, hb⟩ := hull_bracket (fat_distance fl w1) (fat_distance fl w2) (fat_distance fl w3) (fat_distance fl w4)
  rw [distance_affine] at hin
  obtain ⟨cU, cL, hU, hL, u0, u1, l0, l1, hu, hl⟩ :=
    bracket_candidates fl _ L R _ _ _ _ hb rfl rfl rfl rfl hord t h0 h1 hin
  exact clipDecide_sound fl _ _ t cU cL 0.00001 (by norm_num) h0 h1 hU hL u0 u1 l0 l1 hu hl

/-- `clip_t` answers `none` only if no point of the curve is inside the strip -/
theorem clip_t_none_sound (fl : FatLineT K) (w1 w2 w3 w4 : V2 K) (h : clip_t fl w1 w2 w3 w4 = none)
    (t : K) (h0 : 0 ≤ t) (h1 : t ≤ 1) :
    ¬ (fl.d_min ≤ fat_distance fl (de_casteljau4 t w1 w2 w3 w4) ∧
       fat_distance fl (de_casteljau4 t w1 w2 w3 w4) ≤ fl.d_max) := by
  intro hin
  obtain ⟨r, hr, _⟩ := clip_t_sound fl (le_trans hin.1 hin.2) w1 w2 w3 w4 t h0 h1 hin
  rw [h] at hr
  exact absurd hr (by simp)

/-- with sentinels on the proper sides of [0,1] (`f64::MIN ≤ 0`, `1 ≤ f64::MAX`) `clip_t` has three live outcomes only:
    `None`, `Some((0,1))`, or the running `(t1, t2)` with `0 ≤ t1 ≤ t2 ≤ 1`; the branches `Some((0.0, t2))`,
    `Some((t1, 1.0))`, `t1 < 0.0 …` and `t1 > 1.0` of the decision tree are dead -/
theorem clip_t_shape (hM : 1 ≤ (fmaxval : K)) (hm : (fminval : K) ≤ 0) (fl : FatLineT K) (w1 w2 w3 w4 : V2 K) :
    clip_t fl w1 w2 w3 w4 = none ∨ clip_t fl w1 w2 w3 w4 = some (T2.mk 0 1) ∨
    ∃ q, clip_t fl w1 w2 w3 w4 = some q ∧ 0 ≤ q.t0 ∧ q.t0 ≤ q.t1 ∧ q.t1 ≤ 1 := by
  rw [clip_t_eq]
  rcases clipDecide_shape hM hm fl _ _ (clipLoop_tight hM hm fl _ (hull_ordinates fl w1 w2 w3 w4)) with h | h | h
  · exact Or.inl h
  · exact Or.inr (Or.inl h)
  · exact Or.inr (Or.inr ⟨_, h⟩)

end ClipT

section Clip
variable [FSqrt K] [FConsts K]

/-- `clip` only ever returns one of the two `clip_t` ranges, possibly widened (never narrowed).
    No assumption on the sentinels: the only widening happens for a range of zero length, which the decision tree of
    `clip_t` places inside [0,1]. -/
theorem clip_returns_widened_range (c1 c2 c3 c4 a1 a2 a3 a4 : V2 K) (r : T2 K K)
    (h : clip c1 c2 c3 c4 a1 a2 a3 a4 = ClipResult.Some r) :
    ∃ q, (clip_t (fat_from_curve a1 a2 a3 a4) c1 c2 c3 c4 = some q ∨
          clip_t (fat_from_curve_perpendicular a1 a2 a3 a4) c1 c2 c3 c4 = some q) ∧
      r.t0 ≤ q.t0 ∧ q.t1 ≤ r.t1 := by
  simp only [clip] at h
  split at h
  · exact absurd h (by simp)
  · have key : ∀ q : T2 K K, (q.t0 = q.t1 → 0 ≤ q.t0 ∧ q.t1 ≤ 1) →
        (match ClipResult.Some q with
          | ClipResult.Some { t0 := t1, t1 := t2 } =>
            if (t1 == t2) = true then
              ClipResult.Some { t0 := fmax (t1 - (0.005 : K)) (0.0 : K), t1 := fmin (t2 + (0.005 : K)) (1.0 : K) }
            else ClipResult.Some { t0 := t1, t1 := t2 }
          | other => other) = ClipResult.Some r → r.t0 ≤ q.t0 ∧ q.t1 ≤ r.t1 := by
      intro q hq hr
      obtain ⟨qa, qb⟩ := q
      simp only [fmin_eq_min, fmax_eq_max, lit0, lit1, beq_iff_eq] at hr
      split_ifs at hr with he
      · simp only [ClipResult.Some.injEq] at hr
        subst hr
        obtain ⟨hq0, hq1⟩ := hq he
        simp only at hq0 hq1 ⊢
        have h5 : (0 : K) ≤ 0.005 := by norm_num
        exact ⟨max_le (by linarith) hq0, le_min (by linarith) hq1⟩
      · simp only [ClipResult.Some.injEq] at hr
        subst hr
        exact ⟨le_rfl, le_rfl⟩
    cases hA : clip_t (fat_from_curve a1 a2 a3 a4) c1 c2 c3 c4 with
    | none => rw [hA] at h; exact absurd h (by simp)
    | some qa =>
      cases hB : clip_t (fat_from_curve_perpendicular a1 a2 a3 a4) c1 c2 c3 c4 with
      | none => rw [hA, hB] at h; exact absurd h (by simp)
      | some qb =>
        rw [hA, hB] at h
        simp only at h
        have da : qa.t0 = qa.t1 → 0 ≤ qa.t0 ∧ qa.t1 ≤ 1 := by
          rw [clip_t_eq] at hA; exact clipDecide_degenerate _ _ _ qa hA
        have db : qb.t0 = qb.t1 → 0 ≤ qb.t0 ∧ qb.t1 ≤ 1 := by
          rw [clip_t_eq] at hB; exact clipDecide_degenerate _ _ _ qb hB
        by_cases hc : qa.t1 - qa.t0 < qb.t1 - qb.t0
        · simp only [hc, decide_true, if_true] at h
          exact ⟨qa, Or.inl rfl, key qa da h⟩
        · simp only [hc, decide_false, Bool.false_eq_true, if_false] at h
          exact ⟨qb, Or.inr rfl, key qb db h⟩

/-- … and returns `None` only if one of the two `clip_t` calls did -/
theorem clip_none (c1 c2 c3 c4 a1 a2 a3 a4 : V2 K) (h : clip c1 c2 c3 c4 a1 a2 a3 a4 = ClipResult.None) :
    clip_t (fat_from_curve a1 a2 a3 a4) c1 c2 c3 c4 = none ∨
    clip_t (fat_from_curve_perpendicular a1 a2 a3 a4) c1 c2 c3 c4 = none := by
  simp only [clip] at h
  split at h
  · exact absurd h (by simp)
  · cases hA : clip_t (fat_from_curve a1 a2 a3 a4) c1 c2 c3 c4 with
    | none => exact Or.inl rfl
    | some qa =>
      cases hB : clip_t (fat_from_curve_perpendicular a1 a2 a3 a4) c1 c2 c3 c4 with
      | none => exact Or.inr rfl
      | some qb =>
        exfalso
        rw [hA, hB] at h
        simp only at h
        obtain ⟨qa0, qa1⟩ := qa
        obtain ⟨qb0, qb1⟩ := qb
        split_ifs at h <;> simp at h <;> split_ifs at h

/-- `clip` answers `SecondCurveIsLinear` exactly when the chord fat line is flat -/
theorem clip_linear_iff (c1 c2 c3 c4 a1 a2 a3 a4 : V2 K) :
    clip c1 c2 c3 c4 a1 a2 a3 a4 = ClipResult.SecondCurveIsLinear ↔ fat_is_flat (fat_from_curve a1 a2 a3 a4) = true := by
  simp only [clip]
  constructor
  · intro h
    split at h
    · assumption
    · exfalso
      cases hA : clip_t (fat_from_curve a1 a2 a3 a4) c1 c2 c3 c4 with
      | none => rw [hA] at h; simp at h
      | some qa =>
        cases hB : clip_t (fat_from_curve_perpendicular a1 a2 a3 a4) c1 c2 c3 c4 with
        | none => rw [hA, hB] at h; simp at h
        | some qb =>
          rw [hA, hB] at h
          simp only at h
          obtain ⟨qa0, qa1⟩ := qa
          obtain ⟨qb0, qb1⟩ := qb
          split_ifs at h <;> simp at h <;> split_ifs at h
  · intro h
    rw [if_pos h]

/-- END TO END: `clip` never discards a meeting point.  If the point of the first curve at parameter `t` lies on the second
    curve (whose end points are not coincident), then `clip` answers `SecondCurveIsLinear` or a range that contains `t`
    up to the snapping slack; it does not answer `None`. -/
theorem clip_keeps_intersections (c1 c2 c3 c4 a1 a2 a3 a4 : V2 K)
    (hfar : is_near_to a1 a4 (0.0000001 : K) = false) (t s : K) (ht0 : 0 ≤ t) (ht1 : t ≤ 1) (hs0 : 0 ≤ s) (hs1 : s ≤ 1)
    (hmeet : de_casteljau4 t c1 c2 c3 c4 = de_casteljau4 s a1 a2 a3 a4) :
    clip c1 c2 c3 c4 a1 a2 a3 a4 = ClipResult.SecondCurveIsLinear ∨
    ∃ r, clip c1 c2 c3 c4 a1 a2 a3 a4 = ClipResult.Some r ∧ r.t0 - 0.00001 ≤ t ∧ t ≤ r.t1 + 0.00001 := by
  have hA := strip_contains_curve a1 a2 a3 a4 hfar s hs0 hs1
  have hB := perp_strip_contains_curve a1 a2 a3 a4 hfar s hs0 hs1
  simp only at hA hB
  rw [← hmeet] at hA hB
  obtain ⟨qa, hqa, qa0, qa1⟩ := clip_t_sound _ (le_trans hA.1 hA.2) c1 c2 c3 c4 t ht0 ht1 hA
  obtain ⟨qb, hqb, qb0, qb1⟩ := clip_t_sound _ (le_trans hB.1 hB.2) c1 c2 c3 c4 t ht0 ht1 hB
  cases hres : clip c1 c2 c3 c4 a1 a2 a3 a4 with
  | SecondCurveIsLinear => exact Or.inl rfl
  | None =>
    rcases clip_none c1 c2 c3 c4 a1 a2 a3 a4 hres with h | h
    · rw [h] at hqa; exact absurd hqa (by simp)
    · rw [h] at hqb; exact absurd hqb (by simp)
  | Some r =>
    right
    obtain ⟨q, hq, hq0, hq1⟩ := clip_returns_widened_range c1 c2 c3 c4 a1 a2 a3 a4 r hres
    refine ⟨r, rfl, ?_, ?_⟩
    · rcases hq with h | h
      · rw [h] at hqa; cases hqa; linarith
      · rw [h] at hqb; cases hqb; linarith
    · rcases hq with h | h
      · rw [h] at hqa; cases hqa; linarith
      · rw [h] at hqb; cases hqb; linarith

end Clip

/-! ## the hull list spans the convex hull of the distance curve's control polygon -/

/-- `p` is a convex combination of the points of `l` (weights `ws`, in the order of the list) -/
def InConvexHull (l : List (V2 K)) (p : V2 K) : Prop :=
  ∃ ws : List K, ws.length = l.length ∧ (∀ w ∈ ws, 0 ≤ w) ∧ ws.sum = 1 ∧
    (List.zipWith (fun w v => w * v.x) ws l).sum = p.x ∧ (List.zipWith (fun w v => w * v.y) ws l).sum = p.y

/-- same side and `2|v| ≤ |u|`: the ratio `v/u` (0 if `u = 0`) lies in [0, 1/2] -/
theorem ratio_half (u v : K) (h1 : 0 ≤ u * v) (h2 : 2 * |v| ≤ |u|) : 0 ≤ v / u ∧ v / u ≤ 1/2 ∧ v / u * u = v := by
  by_cases hu : u = 0
  · subst hu
    have hv : v = 0 := by
      rw [abs_zero] at h2
      exact abs_eq_zero.1 (le_antisymm (by linarith) (abs_nonneg v))
    subst hv
    norm_num
  · refine ⟨?_, ?_, div_mul_cancel₀ v hu⟩
    · have : v / u = (u * v) / (u * u) := by field_simp
      rw [this]
      exact div_nonneg h1 (mul_self_nonneg u)
    · have hpos : 0 < |u| := abs_pos.2 hu
      have : |v / u| ≤ 1/2 := by
        rw [abs_div, div_le_iff₀ hpos]; linarith
      exact le_trans (le_abs_self _) this

/-- the vertex list returned by `distance_curve_convex_hull` spans the convex hull of the four points of a distance curve:
    every one of the four points is a convex combination of the returned vertices -/
theorem hull_covers (d0 d1 d2 d3 : K) :
    let dc : T4 (V2 K) (V2 K) (V2 K) (V2 K) := T4.mk ⟨d0, 0⟩ ⟨d1, 1/3⟩ ⟨d2, 2/3⟩ ⟨d3, 1⟩
    ∀ p ∈ [dc.t0, dc.t1, dc.t2, dc.t3], InConvexHull (distance_curve_convex_hull dc) p := by
  intro dc p hp
  have l2 : (2.0 : K) = 2 := by norm_num
  have l3 : (3.0 : K) = 3 := by norm_num
  simp only [dc, distance_curve_convex_hull, lit0, lit1, l2, l3, fabs, decide_eq_true_eq]
  simp only [dc, List.mem_cons, List.not_mem_nil, or_false] at hp
  generalize hu : d1 - ((d3 - d0) * (1/3) + d0) = u
  generalize hv : d2 - ((d3 - d0) * (2/3) + d0) = v
  split_ifs with c1 c2 c3
  · -- [P0, P1, P3]; P2 = α P0 + β P1 + γ P3 with β = v/u
    obtain ⟨b0, b1, b2⟩ := ratio_half u v c1 c2
    rcases hp with rfl | rfl | rfl | rfl
    · exact ⟨[1, 0, 0], rfl, by simp, by simp, by simp, by simp⟩
    · exact ⟨[0, 1, 0], rfl, by simp, by simp, by simp, by simp⟩
    · refine ⟨[1/3 - 2 * (v/u) / 3, v/u, 2/3 - (v/u)/3], rfl, ?_, ?_, ?_, ?_⟩
      · intro w hw
        simp only [List.mem_cons, List.not_mem_nil, or_false] at hw
        rcases hw with rfl | rfl | rfl <;> linarith
      · simp only [List.sum_cons, List.sum_nil]; ring
      · simp only [List.zipWith_cons_cons, List.zipWith_nil_left, List.sum_cons, List.sum_nil]
        linear_combination (1:K) * b2 + (v/u) * hu - hv
      · simp only [List.zipWith_cons_cons, List.zipWith_nil_left, List.sum_cons, List.sum_nil]
        ring
    · exact ⟨[0, 0, 1], rfl, by simp, by simp, by simp, by simp⟩
  · -- [P0, P2, P3]; P1 = α P0 + β P2 + γ P3 with β = u/v
    obtain ⟨b0, b1, b2⟩ := ratio_half v u (by rw [mul_comm]; exact c1) c3
    rcases hp with rfl | rfl | rfl | rfl
    · exact ⟨[1, 0, 0], rfl, by simp, by simp, by simp, by simp⟩
    · refine ⟨[2/3 - (u/v) / 3, u/v, 1/3 - 2 * (u/v)/3], rfl, ?_, ?_, ?_, ?_⟩
      · intro w hw
        simp only [List.mem_cons, List.not_mem_nil, or_false] at hw
        rcases hw with rfl | rfl | rfl <;> linarith
      · simp only [List.sum_cons, List.sum_nil]; ring
      · simp only [List.zipWith_cons_cons, List.zipWith_nil_left, List.sum_cons, List.sum_nil]
        linear_combination (1:K) * b2 + (u/v) * hv - hu
      · simp only [List.zipWith_cons_cons, List.zipWith_nil_left, List.sum_cons, List.sum_nil]
        ring
    · exact ⟨[0, 1, 0], rfl, by simp, by simp, by simp, by simp⟩
    · exact ⟨[0, 0, 1], rfl, by simp, by simp, by simp, by simp⟩
  · rcases hp with rfl | rfl | rfl | rfl
    · exact ⟨[1, 0, 0, 0], rfl, by simp, by simp, by simp, by simp⟩
    · exact ⟨[0, 1, 0, 0], rfl, by simp, by simp, by simp, by simp⟩
    · exact ⟨[0, 0, 1, 0], rfl, by simp, by simp, by simp, by simp⟩
    · exact ⟨[0, 0, 0, 1], rfl, by simp, by simp, by simp, by simp⟩
  · rcases hp with rfl | rfl | rfl | rfl
    · exact ⟨[1, 0, 0, 0], rfl, by simp, by simp, by simp, by simp⟩
    · exact ⟨[0, 1, 0, 0], rfl, by simp, by simp, by simp, by simp⟩
    · exact ⟨[0, 0, 0, 1], rfl, by simp, by simp, by simp, by simp⟩
    · exact ⟨[0, 0, 1, 0], rfl, by simp, by simp, by simp, by simp⟩

/-! ## Non-vacuity: the hypotheses are met by concrete curves over ℚ. -/

section Examples
/-- the unit normalisation factor is the true one for the axis-parallel lines used below -/
local instance : FSqrt ℚ := ⟨fun _ => 1⟩
local instance : FConsts ℚ := ⟨10 ^ 308, -10 ^ 308, 10 ^ 400, -10 ^ 400, 1 / 2 ^ 52⟩

/-- far end points -/
example : is_near_to (⟨0, 0⟩ : V2 ℚ) ⟨3, 0⟩ (0.0000001 : ℚ) = false := by decide +kernel
/-- near end points -/
example : is_near_to (⟨0, 0⟩ : V2 ℚ) ⟨0, -1/100000000⟩ (0.0000001 : ℚ) = true := by decide +kernel

/-- the S-shaped curve (0,0) (1,2/3) (2,−2/3) (3,0) and the curve (0,1) (1,−2) (2,1) (3,1) that crosses it twice -/
private def s1 : V2 ℚ := ⟨0, 0⟩
private def s2 : V2 ℚ := ⟨1, 2/3⟩
private def s3 : V2 ℚ := ⟨2, -2/3⟩
private def s4 : V2 ℚ := ⟨3, 0⟩
private def u1 : V2 ℚ := ⟨0, 1⟩
private def u2 : V2 ℚ := ⟨1, -2⟩
private def u3 : V2 ℚ := ⟨2, 1⟩
private def u4 : V2 ℚ := ⟨3, 1⟩

/-- `strip_contains_curve` applies to the S-shaped curve at `t = 1/3` (its strip is `−8/27 ≤ y ≤ 8/27`);
    the statement is the instance of the theorem, its hypotheses are discharged by evaluation -/
example := strip_contains_curve (K := ℚ) s1 s2 s3 s4 (by decide +kernel) (1/3) (by norm_num) (by norm_num)

/-- `clip_t_sound` applies: at `t = 1/8` the second curve is inside the strip of the first -/
example := clip_t_sound (K := ℚ) (fat_from_curve s1 s2 s3 s4) (by decide +kernel) u1 u2 u3 u4 (1/8) (by norm_num) (by norm_num)
  (by decide +kernel)

/-- … and the answer computed by the generated code is `[19/243, 205/243]` -/
example : clip_t (fat_from_curve s1 s2 s3 s4) u1 u2 u3 u4 = some ⟨19/243, 205/243⟩ := by decide +kernel

/-- the sentinels used here satisfy the hypotheses `hminval`, `hM`, `hm` -/
example : (fminval : ℚ) ≤ 1 ∧ (fminval : ℚ) ≤ 0 ∧ 1 ≤ (fmaxval : ℚ) := by decide +kernel

end Examples

/-- THE ROUNDING MARGIN OF THE HULL CROSSINGS (`round_y_value`): a crossing parameter computed up to 0.001 OUTSIDE [0,1] is snapped
    onto the end it overshot (and one within 0.00001 inside as well); everything else is left as it is.  The outside margin is what
    keeps a hull vertex that lies exactly on a fat-line edge - two curves sharing a bit-identical end point - when rounding puts its
    crossing at `1 + 2e-16` or `-1e-17`: without it the crossing is discarded, the clip range is cut short and a second crossing of the
    two curves is lost (seeded change C02-m7; in exact arithmetic the margin is never needed, which is why no other theorem pins it). -/
theorem round_y_value_margin (y : K) :
    ((-(0.001 : K)) < y → y < (0.00001 : K) → round_y_value y = 0) ∧
    ((0.99999 : K) < y → y < (1.001 : K) → round_y_value y = 1) ∧
    (((0.00001 : K) ≤ y ∧ y ≤ (0.99999 : K)) ∨ y ≤ (-(0.001 : K)) ∨ (1.001 : K) ≤ y → round_y_value y = y) := by
  have e0 : (0.0 : K) = 0 := by norm_num
  have e1 : (1.0 : K) = 1 := by norm_num
  unfold round_y_value
  simp only [Bool.and_eq_true, decide_eq_true_eq, e0, e1]
  refine ⟨fun h1 h2 => by rw [if_pos ⟨h2, h1⟩], fun h1 h2 => ?_, fun h => ?_⟩
  · have hn : ¬ (y < (0.00001 : K) ∧ y > (-(0.001 : K))) := by
      intro hc; have : (0.99999 : K) < (0.00001 : K) := lt_trans h1 hc.1; norm_num at this
    rw [if_neg hn, if_pos ⟨h1, h2⟩]
  · have hn1 : ¬ (y < (0.00001 : K) ∧ y > (-(0.001 : K))) := by
      rintro ⟨a, b⟩
      rcases h with ⟨c, _⟩ | c | c
      · exact absurd a (not_lt.2 c)
      · exact absurd b (not_lt.2 c)
      · have : (1.001 : K) < (0.00001 : K) := lt_of_le_of_lt c a; norm_num at this
    have hn2 : ¬ (y > (0.99999 : K) ∧ y < (1.001 : K)) := by
      rintro ⟨a, b⟩
      rcases h with ⟨_, c⟩ | c | c
      · exact absurd a (not_lt.2 c)
      · have : (0.99999 : K) < (-(0.001 : K)) := lt_of_lt_of_le a c; norm_num at this
      · exact absurd b (not_lt.2 c)
    rw [if_neg hn1, if_neg hn2]

end C13

