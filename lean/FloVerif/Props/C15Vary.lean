/-
C15 (vary_by)  Varying the distance with `vary_by` preserves the tiling.

`Gen.vary_step` is the body of `VaryingWalkIterator::next` that changes the even iterator (walk.rs: clamp of the new distance,
`ratio`, the assignments to `even_iterator.distance` and `even_iterator.last_increment`), regenerated from the Rust source on every
check; `Gen.even_walk_next` is the whole `EvenWalkIterator::next`.  The glue around them - ask the distance iterator while there is
one, drop it when it is exhausted, then call the even iterator - is `variedStep` below; the distance iterator is ANY iterator: a
state `ι` and a function `nxt : ι → Option (K × ι)` (finite lists, cycles, anything).

The tiling theorem is proved once for an abstract step function (`tiling_of_step`) and instantiated with the varied walk.
-/
import FloVerif.Props.C15
import FloVerif.Model.Total

set_option linter.unusedSectionVars false
namespace C15Vary
open Prelude Gen

variable {K : Type} [Field K] [LinearOrder K] [IsStrictOrderedRing K] [Inhabited K] [FSqrt K]

attribute [local instance] C15.instFAbs C15.instOfInt

/-- run a step function for at most `fuel` steps: the sections it yields, and whether it finished (returned `None`) -/
def runFrom {σ : Type} (step : σ → T2 (Option (T2 K K)) σ) : Nat → σ → List (T2 K K) × Bool
  | 0, _ => ([], false)
  | f + 1, s =>
    match (step s).t0 with
    | none => ([], true)
    | some sec => let rest := runFrom step f (step s).t1
      (sec :: rest.1, rest.2)

/-- ANY ITERATOR WHOSE STEPS BEHAVE LIKE `EvenWalkIterator::next` TILES: if a step returns `None` exactly when the position is `≥ 1`,
    and a returned section starts at the position, ends at or before 1 and leaves the position at its end, then from any state the
    sections of a run form a chain starting at the position, none ends after 1, and a finished run ends at exactly 1 -/
theorem tiling_of_step {σ : Type} (pos : σ → K) (step : σ → T2 (Option (T2 K K)) σ)
    (hstep : ∀ s, ((step s).t0 = none ↔ pos s ≥ 1) ∧
      (∀ sec, (step s).t0 = some sec → sec.t0 = pos s ∧ sec.t1 ≤ 1 ∧ pos (step s).t1 = sec.t1)) :
    ∀ (fuel : Nat) (s : σ),
      let run := runFrom step fuel s
      (∀ x, run.1.head? = some x → x.t0 = pos s) ∧
      run.1.IsChain (fun a b => a.t1 = b.t0) ∧
      (∀ x ∈ run.1, x.t1 ≤ 1) ∧
      (run.2 = true → (∀ x, run.1.getLast? = some x → x.t1 = 1) ∧ (run.1 = [] → pos s ≥ 1))
  | 0, s => by simp [runFrom]
  | f + 1, s => by
    obtain ⟨hnone, hsome⟩ := hstep s
    simp only [runFrom]
    cases hr : (step s).t0 with
    | none =>
      simp only [List.head?_nil, List.getLast?_nil, List.not_mem_nil]
      refine ⟨by simp, List.isChain_nil, by simp, fun _ => ⟨by simp, fun _ => hnone.1 hr⟩⟩
    | some sec =>
      obtain ⟨h0, h1, hst⟩ := hsome sec hr
      have ih := tiling_of_step pos step hstep f (step s).t1
      simp only at ih
      obtain ⟨ihead, ichain, ile, ifin⟩ := ih
      generalize hrest : runFrom step f (step s).t1 = rest at ihead ichain ile ifin ⊢
      obtain ⟨secs, fin⟩ := rest
      simp only at ihead ichain ile ifin ⊢
      cases secs with
      | nil =>
        refine ⟨by simp [h0], List.isChain_singleton _, ?_, ?_⟩
        · intro x hx
          simp only [List.mem_singleton] at hx
          rw [hx]; exact h1
        · intro hfin
          obtain ⟨_, iempty⟩ := ifin hfin
          refine ⟨fun x hx => ?_, by simp⟩
          simp only [List.getLast?_singleton, Option.some.injEq] at hx
          rw [← hx]
          have := iempty rfl
          rw [hst] at this
          exact le_antisymm h1 this
      | cons y ys =>
        refine ⟨by simp [h0], ?_, ?_, ?_⟩
        · refine List.IsChain.cons_cons ?_ ichain
          rw [ihead y (by simp), hst]
        · intro x hx
          rcases List.mem_cons.1 hx with rfl | hx
          · exact h1
          · exact ile x hx
        · intro hfin
          obtain ⟨ilast, _⟩ := ifin hfin
          refine ⟨fun x hx => ?_, by simp⟩
          rw [List.getLast?_cons_cons] at hx
          exact ilast x hx

/-- state of a varied walk: the distance iterator (while there is one), and the even iterator's distance, position, point, increment -/
structure VState (ι K : Type) where
  iter : Option ι
  distance : K
  last_t : K
  last_point : V2 K
  last_increment : K

/-- `VaryingWalkIterator::next`: ask the distance iterator (if it is still there) for the next distance; `Some`: the generated
    `vary_step` updates the even iterator's distance and increment; `None`: the distance iterator is dropped; then the generated
    `EvenWalkIterator::next` -/
def variedStep {ι : Type} (nxt : ι → Option (K × ι)) (w1 w2 w3 w4 : V2 K) (d : T3 (V2 K) (V2 K) (V2 K)) (err : K)
    (s : VState ι K) : T2 (Option (T2 K K)) (VState ι K) :=
  let upd : Option ι × K × K :=
    match s.iter with
    | none => (none, s.distance, s.last_increment)
    | some it =>
      match nxt it with
      | some (x, it') => let v := vary_step x s.distance s.last_increment; (some it', v.t1.t0, v.t1.t1)
      | none => (none, s.distance, s.last_increment)
  let r := even_walk_next w1 w2 w3 w4 d upd.2.1 err s.last_t s.last_point upd.2.2
  T2.mk r.t0 { iter := upd.1, distance := upd.2.1, last_t := r.t1.t0, last_point := r.t1.t1, last_increment := r.t1.t2 }

/-- VARYING THE DISTANCE PRESERVES THE TILING: for any curve, any tolerance, any start state and ANY distance iterator (whatever
    distances it yields - zero and negative ones included - and whenever it ends): the sections of the varied walk start where the
    walk stands, each starts exactly where the previous one ended, none ends after 1, and when the iterator finishes the last section
    ends at exactly 1 -/
theorem varied_tiling {ι : Type} (nxt : ι → Option (K × ι)) (w1 w2 w3 w4 : V2 K) (d : T3 (V2 K) (V2 K) (V2 K)) (err : K) :
    ∀ (fuel : Nat) (s : VState ι K),
      let run := runFrom (variedStep nxt w1 w2 w3 w4 d err) fuel s
      (∀ x, run.1.head? = some x → x.t0 = s.last_t) ∧
      run.1.IsChain (fun a b => a.t1 = b.t0) ∧
      (∀ x ∈ run.1, x.t1 ≤ 1) ∧
      (run.2 = true → (∀ x, run.1.getLast? = some x → x.t1 = 1) ∧ (run.1 = [] → s.last_t ≥ 1)) := by
  apply tiling_of_step (fun s : VState ι K => s.last_t)
  intro s
  simp only [variedStep]
  have ht := C15.even_next_tiles w1 w2 w3 w4 d
  simp only at ht
  constructor
  · exact (ht _ err s.last_t s.last_point _).1
  · intro sec hsec
    exact (ht _ err s.last_t s.last_point _).2.2 sec hsec

/-- what `vary_step` computes: the new distance is the requested one clamped to `≥ 1e-10`, the increment is scaled by the ratio of the
    new to the old distance -/
theorem vary_step_spec (x dist inc : K) :
    (vary_step x dist inc).t1.t0 = max x 1e-10 ∧ (vary_step x dist inc).t1.t1 = inc * (max x 1e-10 / dist) := by
  simp only [vary_step]
  by_cases h : x < 1e-10
  · simp [h, max_eq_right h.le]
  · simp [h, max_eq_left (not_lt.1 h)]

/-- the varied distance stays positive (so the ratio of the following step is finite: repair b75d9d0) -/
theorem vary_step_distance_pos (x dist inc : K) : 0 < (vary_step x dist inc).t1.t0 := by
  rw [(vary_step_spec x dist inc).1]
  exact lt_of_lt_of_le (by norm_num) (le_max_right _ _)

/-- THE HAND MODEL OF C20 IS THE GENERATED CODE: `Model.Total.varyUpdate` (hand transcription used by C20's finiteness theorems
    and its correspondence run) equals the generated `vary_step` when the distance iterator yields a value, and changes nothing
    otherwise -/
theorem varyUpdate_eq_generated (x dist inc : K) :
    Model.Total.varyUpdate (some x) dist inc = (vary_step x dist inc).t1 ∧
    Model.Total.varyUpdate (none : Option K) dist inc = T2.mk dist inc := by
  constructor
  · simp only [Model.Total.varyUpdate, vary_step]
    by_cases h : x < 1e-10 <;> simp [h]
  · rfl

/-- non-vacuity: a distance of 0 is clamped; the increment 1/4 at distance 2 becomes 1/4 * (1e-10 / 2) -/
example : (vary_step (0 : ℚ) 2 (1/4)).t1 = T2.mk 1e-10 ((1/4) * (1e-10 / 2)) := by
  simp only [vary_step]; norm_num

end C15Vary
