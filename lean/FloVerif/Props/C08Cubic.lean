/-
C08 (the recursive fitter)  `fit_curve_cubic` returns the curve whose error it measured.

`Gen.fit_curve_cubic_body` is the WHOLE body of `fit_curve_cubic` (fit.rs), regenerated on every check: the clamp of a negative
`max_error` (repair F18), the two-point line, the initial fit, the re-parameterisation loop with its `break`, the acceptance test
and the split with its two recursive calls.  The numeric helpers (`chords_for_points`, `generate_bezier`, `reparameterize`,
`max_error_for_curve`, `tangent_between`, `fit_line`) and the two self-calls are parameters, so the theorems hold for ANY
behaviour of the least-squares step.  With `max_error_for_curve` instantiated by its translated pieces
(`Gen.fit_point_error`, `Gen.max_error_pick`), `C08Error.accepted_within_error` gives the error bound for what is returned.
-/
import FloVerif.Props.C08Error

set_option linter.unusedSectionVars false
namespace C08Cubic
open Prelude Gen

variable {K P C : Type} [Field K] [LinearOrder K] [IsStrictOrderedRing K] [Inhabited K]
  [Inhabited P] [Add P] [Sub P] [HMul P K P] [Dot P K] [FSqrt K]

/-- an invariant that holds at the start and is kept by every step (whether the step goes on or leaves) holds at the end of a
    `for` loop with `break` -/
theorem foldlBrk_invariant {α β : Type} (Inv : β → Prop) (f : β → α → Sum β β)
    (hstep : ∀ s x, Inv s → (∀ s', f s x = .inl s' → Inv s') ∧ (∀ s', f s x = .inr s' → Inv s')) :
    ∀ (l : List α) (s : β), Inv s → Inv (foldlBrk l s f)
  | [], s, h => by simpa [foldlBrk] using h
  | x :: xs, s, h => by
    rw [foldlBrk]
    cases hf : f s x with
    | inl s' => exact foldlBrk_invariant Inv f hstep xs s' ((hstep s x h).1 s' hf)
    | inr s' => exact (hstep s x h).2 s' hf

/-- the tolerance the body works with: a negative `max_error` counts as 0 (repair F18) -/
def clampTol (max_error : K) : K := if max_error < 0 then 0 else max_error

theorem lit0 : (0.0 : K) = 0 := by norm_num

/-- WHAT `fit_curve_cubic` RETURNS, for any points, tangents, tolerance and any helper functions:
    (1) for at most two points the line of `fit_line` through the first two;
    (2) or ONE curve `generate_bezier points chords …` for some parameters `chords`, and the error that `max_error_for_curve`
        reports FOR THAT CURVE AND THOSE PARAMETERS is `≤` the (clamped) tolerance - the curve returned is the curve measured;
    (3) or the concatenation of the two recursive fits of `points[0..=split]` and `points[split..]`, which share the point
        `points[split]`, with the clamped tolerance, where `split` is the index `max_error_for_curve` reported. -/
theorem cubic_body_cases
    (recurse : List P → P → P → K → List C) (cfp : List P → List K) (gb : List P → List K → P → P → C)
    (rp : List P → List K → C → List K) (mefc : List P → List K → C → T2 K Nat) (tb : P → P → P → P) (neg : P → P)
    (fl : P → P → List C) (points : List P) (st et : P) (max_error : K) :
    let r := fit_curve_cubic_body recurse cfp gb rp mefc tb neg fl points st et max_error
    (points.length ≤ 2 ∧ r = fl (listGet points 0) (listGet points 1)) ∨
    (2 < points.length ∧ ∃ chords, r = [gb points chords st et] ∧ (mefc points chords (gb points chords st et)).t0 ≤ clampTol max_error) ∨
    (2 < points.length ∧ ∃ chords ct, let sp := (mefc points chords (gb points chords st et)).t1
        ¬ (mefc points chords (gb points chords st et)).t0 ≤ clampTol max_error ∧
        ct = tb (listGet points (sp - 1)) (listGet points sp) (listGet points (sp + 1)) ∧
        r = recurse (listSlice points 0 (sp + 1)) st ct (clampTol max_error) ++
            recurse (listSlice points sp points.length) (ct * (-(1.0 : K))) et (clampTol max_error)) := by
  intro r
  have hr : fit_curve_cubic_body recurse cfp gb rp mefc tb neg fl points st et max_error = r := rfl
  clear_value r
  unfold fit_curve_cubic_body at hr
  simp only [lit0] at hr
  have hclamp : (if decide (max_error < 0) = true then (0 : K) else max_error) = clampTol max_error := by
    simp [clampTol]
  rw [hclamp] at hr
  generalize clampTol max_error = me at hr ⊢
  by_cases hlen : points.length ≤ 2
  · left
    simp only [hlen, decide_true, if_true] at hr
    exact ⟨hlen, hr.symm⟩
  · right
    simp only [hlen, decide_false, Bool.false_eq_true, if_false] at hr
    -- the invariant of the re-parameterisation loop: the state is (chords, the curve generated from them, its measured error, its split)
    let Inv : T4 (List K) C K Nat → Prop := fun s =>
      s.t1 = gb points s.t0 st et ∧ s.t2 = (mefc points s.t0 s.t1).t0 ∧ s.t3 = (mefc points s.t0 s.t1).t1
    have finish : ∀ s : T4 (List K) C K Nat, Inv s →
        (if decide (s.t2 ≤ me) = true then [s.t1] else
          recurse (listSlice points 0 (s.t3 + 1)) st (tb (listGet points (s.t3 - 1)) (listGet points s.t3) (listGet points (s.t3 + 1))) me ++
          recurse (listSlice points s.t3 points.length)
            (tb (listGet points (s.t3 - 1)) (listGet points s.t3) (listGet points (s.t3 + 1)) * (-(1.0 : K))) et me) = r →
        (2 < points.length ∧ ∃ chords, r = [gb points chords st et] ∧ (mefc points chords (gb points chords st et)).t0 ≤ me) ∨
        (2 < points.length ∧ ∃ chords ct, ¬ (mefc points chords (gb points chords st et)).t0 ≤ me ∧
          ct = tb (listGet points ((mefc points chords (gb points chords st et)).t1 - 1)) (listGet points (mefc points chords (gb points chords st et)).t1)
            (listGet points ((mefc points chords (gb points chords st et)).t1 + 1)) ∧
          r = recurse (listSlice points 0 ((mefc points chords (gb points chords st et)).t1 + 1)) st ct me ++
            recurse (listSlice points (mefc points chords (gb points chords st et)).t1 points.length) (ct * (-(1.0 : K))) et me) := by
      intro s ⟨h1, h2, h3⟩ h
      by_cases hacc : s.t2 ≤ me
      · left
        simp only [hacc, decide_true, if_true] at h
        exact ⟨by omega, s.t0, by rw [← h, h1], by rw [← h1, ← h2]; exact hacc⟩
      · right
        simp only [hacc, decide_false, Bool.false_eq_true, if_false] at h
        refine ⟨by omega, s.t0, tb (listGet points (s.t3 - 1)) (listGet points s.t3) (listGet points (s.t3 + 1)), ?_, ?_, ?_⟩
        · rw [← h1, ← h2]; exact hacc
        · rw [← h1, ← h3]
        · rw [← h1, ← h3]
          exact h.symm
    -- the state before the loop
    have hinit : Inv (T4.mk (rp points (cfp points) (gb points (cfp points) st et))
        (gb points (rp points (cfp points) (gb points (cfp points) st et)) st et)
        (mefc points (rp points (cfp points) (gb points (cfp points) st et)) (gb points (rp points (cfp points) (gb points (cfp points) st et)) st et)).t0
        (mefc points (rp points (cfp points) (gb points (cfp points) st et)) (gb points (rp points (cfp points) (gb points (cfp points) st et)) st et)).t1) :=
      ⟨rfl, rfl, rfl⟩
    split at hr
    · -- the loop ran
      refine finish _ ?_ hr
      apply foldlBrk_invariant Inv _ _ _ _ hinit
      intro s x _
      constructor
      · intro s' hs'
        split at hs'
        · cases hs'
        · cases hs'; exact ⟨rfl, rfl, rfl⟩
      · intro s' hs'
        split at hs'
        · cases hs'; exact ⟨rfl, rfl, rfl⟩
        · cases hs'
    · exact finish _ hinit hr

/-- the state `(chords, curve, error, split_pos)` on which the body decides between "one curve" and "split": the initial fit and the
    re-parameterisation loop; it does not involve the self-calls -/
def bodyState (cfp : List P → List K) (gb : List P → List K → P → P → C)
    (rp : List P → List K → C → List K) (mefc : List P → List K → C → T2 K Nat) (points : List P) (st et : P) (me : K) :
    T4 (List K) C K Nat :=
  let chords0 := rp points (cfp points) (gb points (cfp points) st et)
  let curve0 := gb points chords0 st et
  let tup := mefc points chords0 curve0
  if (decide (tup.t0 > me) && decide (tup.t0 < me * (FIT_ATTEMPT_RATIO : K))) then
    foldlBrk (List.range' 1 (FIT_MAX_ITERATIONS - 1)) (T4.mk chords0 curve0 tup.t0 tup.t1) (fun st_2 _ =>
      let chords := rp points st_2.t0 st_2.t1
      let curve := gb points chords st et
      let tup_3 := mefc points chords curve
      if decide (tup_3.t0 ≤ me) then Sum.inr (T4.mk chords curve tup_3.t0 tup_3.t1)
      else Sum.inl (T4.mk chords curve tup_3.t0 tup_3.t1))
  else T4.mk chords0 curve0 tup.t0 tup.t1

/-- what the body does with that state: accept the curve, or split at `split_pos` and call itself on the two overlapping slices -/
def bodyFinish (recurse : List P → P → P → K → List C) (tb : P → P → P → P) (points : List P) (st et : P) (me : K)
    (s : T4 (List K) C K Nat) : List C :=
  if decide (s.t2 ≤ me) then [s.t1]
  else
    recurse (listSlice points 0 (s.t3 + 1)) st (tb (listGet points (s.t3 - 1)) (listGet points s.t3) (listGet points (s.t3 + 1))) me ++
    recurse (listSlice points s.t3 points.length)
      (tb (listGet points (s.t3 - 1)) (listGet points s.t3) (listGet points (s.t3 + 1)) * (-(1.0 : K))) et me

/-- THE GENERATED BODY IS: line for two points, otherwise `bodyFinish` of `bodyState` at the clamped tolerance -/
theorem body_eq (recurse : List P → P → P → K → List C) (cfp : List P → List K) (gb : List P → List K → P → P → C)
    (rp : List P → List K → C → List K) (mefc : List P → List K → C → T2 K Nat) (tb : P → P → P → P) (neg : P → P)
    (fl : P → P → List C) (points : List P) (st et : P) (max_error : K) :
    fit_curve_cubic_body recurse cfp gb rp mefc tb neg fl points st et max_error =
      if points.length ≤ 2 then fl (listGet points 0) (listGet points 1)
      else bodyFinish recurse tb points st et (clampTol max_error) (bodyState cfp gb rp mefc points st et (clampTol max_error)) := by
  unfold fit_curve_cubic_body bodyState bodyFinish
  simp only [lit0]
  have hclamp : (if decide (max_error < 0) = true then (0 : K) else max_error) = clampTol max_error := by
    simp [clampTol]
  rw [hclamp]
  generalize clampTol max_error = me
  by_cases hlen : points.length ≤ 2
  · simp only [hlen, decide_true, if_true]
  · simp only [hlen, decide_false, Bool.false_eq_true, if_false]
    split <;> rfl

/-- the state is always (parameters, the curve generated from them, the error measured for that curve, the index measured) -/
theorem bodyState_inv (cfp : List P → List K) (gb : List P → List K → P → P → C)
    (rp : List P → List K → C → List K) (mefc : List P → List K → C → T2 K Nat) (points : List P) (st et : P) (me : K) :
    let s := bodyState cfp gb rp mefc points st et me
    s.t1 = gb points s.t0 st et ∧ s.t2 = (mefc points s.t0 s.t1).t0 ∧ s.t3 = (mefc points s.t0 s.t1).t1 := by
  intro s
  let Inv : T4 (List K) C K Nat → Prop := fun s =>
    s.t1 = gb points s.t0 st et ∧ s.t2 = (mefc points s.t0 s.t1).t0 ∧ s.t3 = (mefc points s.t0 s.t1).t1
  show Inv s
  have hs : bodyState cfp gb rp mefc points st et me = s := rfl
  clear_value s
  unfold bodyState at hs
  simp only at hs
  split at hs
  · rw [← hs]
    apply foldlBrk_invariant Inv _ _ _ _ ⟨rfl, rfl, rfl⟩
    intro s x _
    constructor
    · intro s' hs'
      split at hs'
      · cases hs'
      · cases hs'; exact ⟨rfl, rfl, rfl⟩
    · intro s' hs'
      split at hs'
      · cases hs'; exact ⟨rfl, rfl, rfl⟩
      · cases hs'
  · rw [← hs]; exact ⟨rfl, rfl, rfl⟩

/-- THE ERROR BOUND OF WHAT IS RETURNED: instantiate `max_error_for_curve` by its translated pieces - for curves given as their
    four control points, `max_error_for_curve points chords c = max_error_pick (zipWith fit_point_error …)`.  If the body returns a
    single curve (case 2 above), every sample is within the clamped tolerance of that curve's point at the sample's parameter. -/
theorem returned_curve_within_error
    (hmono : ∀ a b : K, a ≤ b → (fsqrt a : K) ≤ fsqrt b)
    (recurse : List P → P → P → K → List (T4 P P P P)) (cfp : List P → List K) (gb : List P → List K → P → P → T4 P P P P)
    (rp : List P → List K → T4 P P P P → List K) (tb : P → P → P → P) (neg : P → P)
    (fl : P → P → List (T4 P P P P)) (points : List P) (st et : P) (max_error : K) (c : T4 P P P P)
    (hlen : 2 < points.length)
    (hone : fit_curve_cubic_body recurse cfp gb rp
        (fun pts chords c => max_error_pick ((pts.zip chords).map (fun s => fit_point_error c.t0 c.t1 c.t2 c.t3 s.1 s.2)))
        tb neg fl points st et max_error = [c])
    (hsplit : ∀ a b : List (T4 P P P P), a ++ b = [c] → False) :
    ∃ chords, c = gb points chords st et ∧ ∀ s ∈ points.zip chords,
      (fsqrt (dot (s.1 - curve_point_at_pos c.t0 c.t1 c.t2 c.t3 s.2) (s.1 - curve_point_at_pos c.t0 c.t1 c.t2 c.t3 s.2) : K) : K) ≤ clampTol max_error := by
  have h := cubic_body_cases recurse cfp gb rp
    (fun pts chords c => max_error_pick ((pts.zip chords).map (fun s => fit_point_error c.t0 c.t1 c.t2 c.t3 s.1 s.2)))
    tb neg fl points st et max_error
  simp only at h
  rcases h with ⟨h2, _⟩ | ⟨_, chords, hr, hacc⟩ | ⟨_, chords, ct, _, _, hr⟩
  · omega
  · rw [hone] at hr
    have hc : c = gb points chords st et := by simpa using hr
    refine ⟨chords, hc, ?_⟩
    rw [← hc] at hacc
    exact C08Error.accepted_within_error hmono c.t0 c.t1 c.t2 c.t3 (points.zip chords) (clampTol max_error) hacc
  · rw [hone] at hr
    exact (hsplit _ _ hr.symm).elim

/-- non-vacuity: a toy instance in which the first candidate is accepted - three 1-D points, a "fitter" that returns the curve
    number 7 with reported error 0 -/
example : fit_curve_cubic_body (K := ℚ) (P := ℚ) (C := Nat) (fun _ _ _ _ => []) (fun _ => []) (fun _ _ _ _ => 7) (fun _ c _ => c)
    (fun _ _ _ => T2.mk 0 1) (fun a _ _ => a) (fun a => a) (fun _ _ => []) [0, 1, 2] 0 0 (1/2) = [7] := by
  simp [fit_curve_cubic_body, FIT_ATTEMPT_RATIO]
  norm_num

end C08Cubic
