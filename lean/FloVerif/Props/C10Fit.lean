/-
C10 (offset with the generated fitter)  `offset` / `offset_lms_sampling` with NOTHING abstract in the fitting stage.

`C10.offset_lms_chain` / `offset_constant_chain` hold for any fitter that meets C08's chain contract.  Since session 4 the whole fitter is
generated (`Gen/FitKernel`, `Model.FitKernel.fitCubicGen`) and `C08Kernel.generated_fit_chain` / `generated_fit_within_error` are
theorems about it - so they can be plugged in: the curves `offset` returns form a connected chain from the first to the last sample AND
EVERY SAMPLE - a point exactly on the parallel curve `C(t) + n̂(t)·d(t)` at one of the 33 .. 129 sample parameters - IS WITHIN 0.1 OF THE
CHAIN, at a parameter in [0,1].  Hypothesis, stated and not hidden: no three consecutive samples coincide (they do for a point curve with
a zero offset; then `chords_for_points` divides 0 by 0).
-/
import FloVerif.Props.C10
import FloVerif.Props.C08Kernel

set_option linter.unusedSectionVars false
namespace C10Fit
open Prelude Gen C10 C08 C08Cubic C08Kernel

variable {K : Type} [Field K] [LinearOrder K] [IsStrictOrderedRing K] [Inhabited K]
local instance : FAbs K := ⟨fun a => |a|⟩
local instance : OfInt K := ⟨fun n => (n : K)⟩
variable [FSqrt K] [FConsts K] [FSignum K]

/-- the generated fitter as `offset_lms_sampling` calls it -/
def genFitter (ps : List (V2 K)) (st et : V2 K) (e : K) : List (Cub K) := Model.FitKernel.fitCubicGen (ps.length + 1) ps st et e

/-- **`offset_lms_sampling` WITH THE GENERATED FITTER**: for every curve, every feature class, every pair of offset functions, every
    `n ≥ 2` and every `max_error`: with `ts` the sample parameters and `samples` the points `C(t) + n̂(t)·normal_offset(t) +
    t̂(t)·tangent_offset(t)` at them, if no three consecutive samples coincide the function returns `Some` connected chain from the first
    sample to the last one and every sample is within the (clamped) `max_error` of one of its curves at a parameter in [0,1]. -/
theorem offset_lms_sampling_generated (hs : SqrtOK K) (hmono : ∀ a b : K, a ≤ b → (fsqrt a : K) ≤ fsqrt b)
    (features_for_curve : K → CurveFeatures K) (w1 w2 w3 w4 : V2 K) (nof tof : K → K) (n : Nat) (e : K) (hn : 2 ≤ n)
    (ts : List K) (hts : offset_lms_sample_ts features_for_curve n = some ts)
    (hnr : NoTripleRun (ts.map (samplePoint w1 w2 w3 w4 nof tof))) :
    ∃ cs, offset_lms_sampling features_for_curve genFitter w1 w2 w3 w4 nof tof n e = some cs ∧
      FitsChain (fun c : Cub K => c.t0) (fun c : Cub K => c.t3) (ts.map (samplePoint w1 w2 w3 w4 nof tof)) cs ∧
      ∀ p ∈ ts.map (samplePoint w1 w2 w3 w4 nof tof), Near (clampTol e) cs p := by
  obtain ⟨ts', hts', _, _, _, _, _, hlen, _⟩ := sample_ts_spec features_for_curve n hn
  rw [hts] at hts'; cases hts'
  rw [offset_lms_sampling_eq, hts]
  refine ⟨_, rfl, ?_, ?_⟩
  · exact generated_fit_chain hs _ hnr _ _ _ _ e List.infix_rfl (by rw [List.length_map]; omega) (Nat.le_succ _)
  · intro p hp
    have := generated_fit_within_error hs hmono _ hnr e ((ts.map (samplePoint w1 w2 w3 w4 nof tof)).length + 1) _
      (unitTangent w1 w2 w3 w4 (0.0 : K)) (unitTangent w1 w2 w3 w4 (1.0 : K) * (-(1.0 : K))) List.infix_rfl
      (by rw [List.length_map]; omega) (Nat.le_succ _) p hp
    unfold genFitter
    beta_reduce
    rw [fitCubicGen_clamp]
    exact this

/-- **`offset(curve, d0, d1)` WITH THE GENERATED FITTER**: 32 subdivisions per section, fit error 0.1, the linear offset
    `(d1 − d0)·t + d0` along the unit normal: the returned curves are a connected chain from the first to the last sample and every one of
    the 33 .. 129 samples of the parallel curve is within 0.1 of the chain. -/
theorem offset_generated (hs : SqrtOK K) (hmono : ∀ a b : K, a ≤ b → (fsqrt a : K) ≤ fsqrt b)
    (features_for_curve : K → CurveFeatures K) (w1 w2 w3 w4 : V2 K) (d0 d1 : K)
    (ts : List K) (hts : offset_lms_sample_ts features_for_curve 32 = some ts)
    (hnr : NoTripleRun (ts.map (samplePoint w1 w2 w3 w4 (fun t => (d1 - d0) * t + d0) (fun _ => (0.0 : K))))) :
    let samples := ts.map (samplePoint w1 w2 w3 w4 (fun t => (d1 - d0) * t + d0) (fun _ => (0.0 : K)))
    let cs := offset features_for_curve genFitter w1 w2 w3 w4 d0 d1
    FitsChain (fun c : Cub K => c.t0) (fun c : Cub K => c.t3) samples cs ∧ ∀ p ∈ samples, Near (0.1 : K) cs p := by
  intro samples cs
  obtain ⟨cs', hcs, hfc, hnear⟩ := offset_lms_sampling_generated hs hmono features_for_curve w1 w2 w3 w4
    (fun t => (d1 - d0) * t + d0) (fun _ => (0.0 : K)) 32 (0.1 : K) (by norm_num) ts hts hnr
  have e : cs' = cs := by
    have := offset_eq features_for_curve genFitter w1 w2 w3 w4 d0 d1
    rw [hcs] at this; exact (Option.some.inj this).symm
  subst e
  have hc : clampTol (0.1 : K) = 0.1 := by unfold clampTol; rw [if_neg (by norm_num)]
  rw [hc] at hnear
  exact ⟨hfc, hnear⟩

end C10Fit
