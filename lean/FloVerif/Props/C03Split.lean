/-
C03 (geometry of the dividing loops)  Dividing an edge at `t₁, …, tₖ` with the code's re-parameterisation
`t2 = (t − (1 − remaining_t)) / remaining_t` yields exactly the sections `[0,t₁], [t₁,t₂], …, [tₖ,1]` of the original
curve: in exact arithmetic the union of the new edges IS the old edge, so dividing preserves the traced point set.

`Model.GraphSplit.splitCurve` is the loop (compared bit for bit, at `Float`, with the control points of the real edges
by the driver); the subdivision inside it is `Gen.curve_subdivide`, regenerated from `BezierCurve::subdivide` on every
check and characterised by `C05.subdivide_left` / `C05.subdivide_right`.  `K` is any ordered field (ℚ contains every
finite f64); points are proved at `P = K` and hold per component in 2-D (`splitCurve` is component-wise, `splitCurve_V2`).
-/
import FloVerif.Model.GraphSplit
import FloVerif.Props.C05

set_option linter.unusedSectionVars false
set_option linter.unusedVariables false
namespace C03Split
open Prelude Gen Model.GraphSplit

variable {K : Type} [Field K] [LinearOrder K] [IsStrictOrderedRing K] [Inhabited K] [FAbs K]

/-- `pieces` are the sections `[a,t₁], [t₁,t₂], …, [tₖ,1]` of the cubic `w` (each piece `p` satisfies
`p(s) = w(lo + s·(hi − lo))` for all `s`) -/
def AreSections (w : T4 K K K K) : K → List K → List (T4 K K K K) → Prop
  | a, [], [p] => ∀ s, basis s p.t0 p.t1 p.t2 p.t3 = basis (a + s * (1 - a)) w.t0 w.t1 w.t2 w.t3
  | a, t :: ts, p :: ps => (∀ s, basis s p.t0 p.t1 p.t2 p.t3 = basis (a + s * (t - a)) w.t0 w.t1 w.t2 w.t3) ∧ AreSections w t ts ps
  | _, _, _ => False

/-- the loop "Deal with the rest of the collisions": if `rem` is the section `[a,1]` and `remaining_t = 1 − a`, the edges
it produces are the sections `[a,t₁], …, [tₖ,1]`.  Forced hypothesis: no division by `remaining_t = 0`, i.e. no
parameter that is followed by another one equals 1 (`a ≠ 1` here, `t ≠ 1` for every `t` but the last). -/
theorem splitRest_sections (w : T4 K K K K) : ∀ (ts : List K) (a : K) (rem : T4 K K K K),
    (∀ s, basis s rem.t0 rem.t1 rem.t2 rem.t3 = basis (a + s * (1 - a)) w.t0 w.t1 w.t2 w.t3) →
    (∀ x ∈ (a :: ts).dropLast, x ≠ 1) →
    AreSections w a ts (splitRest rem ((1.0 : K) - a) ts) := by
  intro ts
  induction ts with
  | nil => intro a rem h _; exact h
  | cons t ts ih =>
    intro a rem h hne
    have lit1 : (1.0 : K) = 1 := by norm_num
    have ha : a ≠ 1 := hne a (by simp)
    have ha' : (1 : K) - a ≠ 0 := sub_ne_zero.mpr (Ne.symm ha)
    simp only [splitRest, AreSections]
    refine ⟨?_, ?_⟩
    · intro s
      have := C05.subdivide_left ((t - ((1.0 : K) - ((1.0 : K) - a))) / ((1.0 : K) - a)) s rem.t0 rem.t1 rem.t2 rem.t3
      simp only at this
      rw [this, h]
      congr 1
      rw [lit1]
      field_simp
      ring
    · apply ih
      · intro s
        have := C05.subdivide_right ((t - ((1.0 : K) - ((1.0 : K) - a))) / ((1.0 : K) - a)) s rem.t0 rem.t1 rem.t2 rem.t3
        simp only at this
        rw [this, h]
        congr 1
        rw [lit1]
        field_simp
        ring
      · intro x hx
        apply hne x
        rw [List.dropLast_cons_of_ne_nil (by simp)]
        exact List.mem_cons_of_mem _ hx

/-- SEQUENTIAL SPLIT = SECTIONS.  The edges that replace an edge divided at `ts` are exactly the sections
`[0,t₁], [t₁,t₂], …, [tₖ,1]` of its curve, for every cubic and every list of parameters in which only the last one may
be 1 (nothing else is needed: not even that the list is sorted - an unsorted list gives sections traversed backwards).
The hypothesis is forced by the division by `remaining_t = 1 − t`: a parameter 1 followed by another one makes the f64 code
compute 0/0 = NaN control points.  `find_collisions` never returns `t ≥ 1` (`C03.selectHits_relocation_dead`); only the
self-intersection test of `find_self_collisions` can return one `t₂ = 1.0` per edge, which then is the last parameter. -/
theorem sequential_split_is_section (w : T4 K K K K) (ts : List K) (hne : ∀ x ∈ ts.dropLast, x ≠ 1) :
    AreSections w 0 ts (splitCurve w ts) := by
  cases ts with
  | nil =>
    simp only [splitCurve, AreSections]
    intro s; congr 1; ring
  | cons t ts =>
    simp only [splitCurve, AreSections]
    refine ⟨?_, ?_⟩
    · intro s
      have := C05.subdivide_left t s w.t0 w.t1 w.t2 w.t3
      simp only at this
      rw [this]; congr 1; ring
    · apply splitRest_sections
      · intro s
        have := C05.subdivide_right t s w.t0 w.t1 w.t2 w.t3
        simp only at this
        exact this
      · exact hne

/-! Non-vacuity: a cubic divided at 1/4 and 1/2. -/
example : AreSections (⟨0, 1, 3, 2⟩ : T4 ℚ ℚ ℚ ℚ) 0 [1/4, 1/2] (splitCurve ⟨0, 1, 3, 2⟩ [1/4, 1/2]) :=
  sequential_split_is_section _ _ (by intro x hx; simp at hx; subst hx; norm_num)

/-- in 2-D the loop works component by component -/
theorem splitCurve_V2 (a b c d : V2 K) (ts : List K) :
    (splitCurve (⟨a, b, c, d⟩ : T4 (V2 K) (V2 K) (V2 K) (V2 K)) ts).map (fun p => (⟨p.t0.x, p.t1.x, p.t2.x, p.t3.x⟩ : T4 K K K K)) =
      splitCurve ⟨a.x, b.x, c.x, d.x⟩ ts ∧
    (splitCurve (⟨a, b, c, d⟩ : T4 (V2 K) (V2 K) (V2 K) (V2 K)) ts).map (fun p => (⟨p.t0.y, p.t1.y, p.t2.y, p.t3.y⟩ : T4 K K K K)) =
      splitCurve ⟨a.y, b.y, c.y, d.y⟩ ts := by
  have rest : ∀ (ts : List K) (r : T4 (V2 K) (V2 K) (V2 K) (V2 K)) (rt : K),
      (splitRest r rt ts).map (fun p => (⟨p.t0.x, p.t1.x, p.t2.x, p.t3.x⟩ : T4 K K K K)) =
        splitRest ⟨r.t0.x, r.t1.x, r.t2.x, r.t3.x⟩ rt ts ∧
      (splitRest r rt ts).map (fun p => (⟨p.t0.y, p.t1.y, p.t2.y, p.t3.y⟩ : T4 K K K K)) =
        splitRest ⟨r.t0.y, r.t1.y, r.t2.y, r.t3.y⟩ rt ts := by
    intro ts
    induction ts with
    | nil => intro r rt; exact ⟨rfl, rfl⟩
    | cons t ts ih =>
      intro r rt
      simp only [splitRest, List.map_cons]
      have := ih (curve_subdivide r.t0 r.t1 r.t2 r.t3 ((t - ((1.0 : K) - rt)) / rt)).t1 ((1.0 : K) - t)
      exact ⟨by rw [this.1]; rfl, by rw [this.2]; rfl⟩
  cases ts with
  | nil => exact ⟨rfl, rfl⟩
  | cons t ts =>
    simp only [splitCurve, List.map_cons]
    have := rest ts (curve_subdivide a b c d t).t1 ((1.0 : K) - t)
    exact ⟨by rw [this.1]; rfl, by rw [this.2]; rfl⟩

end C03Split
