/-
C03  Colliding path graphs yields a balanced, label-preserving graph whose private bookkeeping stays consistent.

Property theorems only; the helper development is in `FloVerif/Lemmas/Graph*.lean`.  Everything is stated about the
hand model `Model.Graph` of `GraphPath` (src/bezier/path/graph_path/mod.rs, path_collision.rs): indices only, every
geometric decision of the Rust code (which sections `from_path` skips, which collisions `find_collisions` returns,
which nearby points `combine_overlapping_points` merges, which self-loops `remove_all_very_short_edges` judges very
short) is an argument of the model, and the theorems hold for EVERY value of these arguments (any number of points and
edges, any number of collisions per edge, coinciding split points, splits at t = 0, chains of merged points, merged
points connected by an edge, repeated pairs, self-loops).  The model is tied to the code by replaying traces of the real
`from_path`, `merge` and `detect_collisions` stage by stage (lean/FloVerif/Driver/C03.lean), and the checkers proved
sound and complete here (`wfCheck_iff`) are evaluated on the real graphs.

The invariant `Wf g`:
  `FolWf`  every edge ends at an existing point; every edge (p, f) is named as `following_edge_idx` by exactly one edge,
           which ends at p; no edge names a following edge that does not exist.  (This is the library's own
           `check_following_edge_consistency`, which is compiled in test builds only, in counting form.)
  `ConnOk` `connected_from` of p lists existing points, none twice, and EVERY point with an edge to p.
`ConnExact` (every listed point really has an edge to p) is established by `from_path`, `recalculate_reverse_connections`
and kept by `merge` and `combine_overlapping_points`, but NOT by `remove_edge` (`removeEdge_leaves_stale_entry`): the code
maintains `connected_from` as a duplicate-free SUPERSET of the sources.

Not theorems (numerical, searched by `fvharness search C03`): that every crossing is found, that the union of the edges
stays within 0.05 of the input, planarity.
-/
import FloVerif.Lemmas.GraphConsistent
import Mathlib.Order.Basic

set_option linter.unusedSectionVars false
set_option linter.unusedVariables false
namespace C03
open Model.Graph

/-! ### construction -/

/-- `GraphPath::from_path` yields a well-formed graph whose `connected_from` lists are exact: for every number of path
sections, whichever sections the "too close to the previous point" filter skips, whether the path closes onto its
start (the last point is dropped and its edge redirected) or not (a closing edge is added); an empty or single-point
path gives the empty graph, a single closed section gives one point with a self-loop. -/
theorem fromPath_wf (label : Nat) (skips : List Bool) (closed : Bool) :
    Wf (fromPath label skips closed) ∧ ConnExact (fromPath label skips closed) :=
  ⟨Model.Graph.fromPath_wf label skips closed, fromPath_connExact label skips closed⟩

example : fromPath 7 [false, true, false, false] true =
    [⟨[⟨1, 0, 7, 0⟩], [2]⟩, ⟨[⟨2, 0, 7, 0⟩], [0]⟩, ⟨[⟨0, 0, 7, 0⟩], [1]⟩] := by decide
example : fromPath 7 [false] true = [⟨[⟨0, 0, 7, 0⟩], [0]⟩] := by decide
example : fromPath 7 [] false = [] := by decide

/-- `GraphPath::merge` keeps the invariant (and exactness): the indices of the second graph are offset consistently in
edges and `connected_from`. -/
theorem merge_wf {g h : Graph} (hg : Wf g) (hh : Wf h) :
    Wf (merge g h) ∧ (ConnExact g → ConnExact h → ConnExact (merge g h)) :=
  ⟨Model.Graph.merge_wf hg hh, fun eg eh => merge_connExact eg eh hg.conn.valid⟩

example : Wf (merge (fromPath 0 [false, false, false] true) (fromPath 1 [false, false] false)) :=
  (merge_wf (fromPath_wf 0 _ true).1 (fromPath_wf 1 _ false).1).1

/-! ### the collision stage, operation by operation -/

/-- Dividing ONE edge (path_collision.rs:328-415: the first collision edits the edge in place, later ones append edges,
`following_edge_idx` is chained through `previous_edge`, the final edge inherits the old following index) keeps the
following-edge structure well formed, for EVERY list of end points that exist - in any order, with repetitions
(two collisions at one point give a self-loop), including the start or end point of the edge itself.  The only
hypothesis: the end points are points of the graph. -/
theorem splitEdge_wf {g : Graph} (h : FolWf g) (p e : Nat) (qs : List Nat) (hqs : ∀ q ∈ qs, q < g.length) :
    FolWf (splitEdgeS g p e qs) ∧ (splitEdgeS g p e qs).length = g.length :=
  splitEdgeS_folWf h p e qs hqs

example : splitEdgeS (fromPath 7 [false, false] true ++ [Point.empty]) 0 0 [2, 2] =
    [⟨[⟨2, 0, 7, 0⟩], [1]⟩, ⟨[⟨0, 0, 7, 0⟩], [0]⟩, ⟨[⟨2, 1, 7, 0⟩, ⟨1, 0, 7, 0⟩], []⟩] := by decide

/-- Dividing an edge at `k` points adds exactly `k` edges, all carrying the label of the divided edge, and changes the
label of no other edge (`labelCount g l` = number of edges labelled `l`). -/
theorem splitEdge_labels {g : Graph} (h : FolWf g) (p e : Nat) (qs : List Nat) (hqs : ∀ q ∈ qs, q < g.length) (l : Nat) :
    labelCount (splitEdgeS g p e qs) l = labelCount g l +
      (match edgeAt g p e with | some ed => if ed.label = l then qs.length else 0 | none => 0) :=
  labelCount_splitEdgeS h p e qs hqs l

section Stage
variable {K : Type} [LT K] [LE K] [DecidableLT K] [DecidableLE K] [OfNat K 0] [OfNat K 1]

/-- The whole dividing part of `detect_collisions` (`create_collision_points`, `organize_collisions_by_edge`, sort by `t`,
skip `t = 0`, divide every hit edge in point/edge order) keeps the following-edge structure well formed and introduces no
label, for EVERY list of collisions whose edge references name existing points (`K`: any type of `t` values with
decidable order - nothing about the order is used). -/
theorem splitStage_wf {g : Graph} (h : FolWf g) (cs : List (Collision K))
    (hcs : ∀ c ∈ cs, c.p1 < g.length ∧ c.p2 < g.length) :
    FolWf (splitStage g cs) ∧ g.length ≤ (splitStage g cs).length ∧
      ∀ l, labelCount g l = 0 → labelCount (splitStage g cs) l = 0 :=
  ⟨(splitStage_folWf h cs hcs).1, (splitStage_folWf h cs hcs).2, fun l hl => splitStage_no_new_label h cs hcs l hl⟩

end Stage

/-- `recalculate_reverse_connections` turns any graph with a well-formed following-edge structure into a well-formed graph
with exact `connected_from` lists (whatever they held before). -/
theorem recalc_wf {g : Graph} (h : FolWf g) : Wf (recalc g) ∧ ConnExact (recalc g) :=
  ⟨Model.Graph.recalc_wf h, (recalc_connOk h).2⟩

/-- `combine_overlapping_points` keeps the invariant, exactness and every label count, for EVERY list of merged pairs:
chains (a~b, b~c), repeated pairs, pairs connected by an edge (which become self-loops), pairs out of range (ignored).
The `following_edge_idx` offsets recorded while edges are moved address exactly the moved edges. -/
theorem combine_wf {g : Graph} (h : Wf g) (any : Bool) (accepted : List (Nat × Nat)) :
    Wf (combine g any accepted) ∧ (combine g any accepted).length = g.length ∧
      (ConnExact g → ConnExact (combine g any accepted)) ∧
      ∀ l, labelCount (combine g any accepted) l = labelCount g l :=
  ⟨(Model.Graph.combine_wf h any accepted).1, (Model.Graph.combine_wf h any accepted).2.1,
   (Model.Graph.combine_wf h any accepted).2.2, combine_labelCount h any accepted⟩

example : combine (fromPath 7 [false, false, false] true) true [(2, 1), (1, 0)] =
    [⟨[⟨0, 1, 7, 0⟩, ⟨0, 2, 7, 0⟩, ⟨0, 0, 7, 0⟩], [0]⟩, ⟨[], []⟩, ⟨[], []⟩] := by decide

/-- `remove_edge` applied to a SELF-LOOP of a well-formed graph always finds the preceding edge (so the `while` loop of
`remove_all_very_short_edges` advances), keeps the invariant, removes exactly that edge and relabels nothing.
Forced hypotheses: the edge is a self-loop (see `removeEdge_general_edge_breaks_connected_from`) and `connected_from` is
complete (see `removeEdge_needs_complete_connected_from`). -/
theorem removeEdge_wf {g : Graph} (h : Wf g) {s e : Nat} {ed : Edge} (he : edgeAt g s e = some ed) (hloop : ed.endIdx = s) :
    ∃ g', removeEdge g s e = some g' ∧ Wf g' ∧ g'.length = g.length ∧
      (∀ a, (edgesAt g' a).length + (if a = s then 1 else 0) = (edgesAt g a).length) ∧
      ∀ l, labelCount g' l + (if ed.label = l then 1 else 0) = labelCount g l := by
  obtain ⟨g', h1, h2, h3, h4, h5⟩ := Model.Graph.removeEdge_wf h he hloop
  refine ⟨g', h1, h2, h3, h4, ?_⟩
  intro l
  have := h5 (fun x => x.label == l) (fun _ _ _ => rfl)
  simpa [labelCount] using this

/-- `remove_all_very_short_edges` terminates normally and keeps the invariant whichever self-loops are judged very short. -/
theorem removeAllVeryShort_wf {g : Graph} (h : Wf g) (dec : List (Nat × Nat)) :
    ∃ g' dec', removeAllVeryShort g dec = some (g', dec') ∧ Wf g' ∧ g'.length = g.length :=
  Model.Graph.removeAllVeryShort_wf h dec

/-- the witness graph of several statements below: 0 → 1, 1 → 1 (a self-loop), 1 → 0 -/
def loopGraph : Graph := [⟨[⟨1, 0, 7, 0⟩], [1]⟩, ⟨[⟨1, 1, 7, 0⟩, ⟨0, 0, 7, 0⟩], [0, 1]⟩]

/-- The model counts the iterations of the `while edge_idx < len` loop of `remove_all_very_short_edges` instead of testing
the condition; the count `len - edge_idx` is exact on well-formed graphs: giving the loop more iterations changes nothing,
so the model's loop is the Rust loop. -/
theorem removeShort_loop_count_exact (p k : Nat) (g : Graph) (e : Nat) (dec : List (Nat × Nat)) (h : Wf g)
    (hk : k + e = (edgesAt g p).length) (j : Nat) :
    removeShortAt p (k + j) g e dec = removeShortAt p k g e dec :=
  removeShortAt_fuel p k g e dec h hk j

example : removeShortAt 1 2 loopGraph 0 [(1, 0)] = removeShortAt 1 7 loopGraph 0 [(1, 0)] := by decide

/-- (finding) `remove_edge` does NOT keep `connected_from` exact: removing the self-loop of `loopGraph` leaves point 1 in
its own `connected_from` although no edge 1 → 1 is left (the `still_connected` test looks at edges from ANY connected
point).  Observable effect: `set_edge_kind_connected` stops its backward walk at such a point
(`connected_from.len() != 1`).  Seen in about 11% of the collisions of the correspondence run. -/
theorem removeEdge_leaves_stale_entry :
    Wf loopGraph ∧ ConnExact loopGraph ∧
      ∃ g', removeEdge loopGraph 1 0 = some g' ∧ Wf g' ∧ ¬ ConnExact g' := by
  refine ⟨(wfCheck_iff _).mp (by decide), (connExactCheck_iff _).mp (by decide), _, rfl, (wfCheck_iff _).mp (by decide), ?_⟩
  rw [← connExactCheck_iff]
  decide

/-- (forced precondition) `remove_edge` is only correct for self-loops: on the triangle 0 → 1 → 2 → 0 removing the edge
1 → 2 redirects 0 → 1 to 0 → 2 but leaves `connected_from` of 2 at [1] (and 0 listed at 1).  The library only calls
it for self-loops (`edge_is_very_short` tests `start_idx == end_idx` first). -/
theorem removeEdge_general_edge_breaks_connected_from :
    Wf (fromPath 7 [false, false, false] true) ∧
      ∃ g', removeEdge (fromPath 7 [false, false, false] true) 1 0 = some g' ∧ FolWf g' ∧ ¬ ConnOk g' := by
  refine ⟨(fromPath_wf 7 _ true).1, _, rfl, (folWfCheck_iff _).mp (by decide), ?_⟩
  rw [← connOkCheck_iff]
  decide

/-- (forced precondition) without a complete `connected_from` list `remove_edge` finds no preceding edge and returns
without removing anything - `remove_all_very_short_edges` would then test the same edge for ever. -/
theorem removeEdge_needs_complete_connected_from :
    FolWf [⟨[⟨0, 0, 7, 0⟩], []⟩] ∧ removeEdge [⟨[⟨0, 0, 7, 0⟩], []⟩] 0 0 = none :=
  ⟨(folWfCheck_iff _).mp (by decide), by decide⟩

/-- `t` values counted in tenths, for the examples (a type with elements strictly between its 0 and its 1 on which
`decide` can evaluate the model) -/
structure Tenths where
  n : Nat
deriving DecidableEq

instance : LinearOrder Tenths := LinearOrder.lift' Tenths.n (fun a b h => by cases a; cases b; simp_all)
instance : Zero Tenths := ⟨⟨0⟩⟩
instance : One Tenths := ⟨⟨10⟩⟩

/-! ### the stage as a whole -/

section Whole
variable {K : Type} [LT K] [LE K] [DecidableLT K] [DecidableLE K] [OfNat K 0] [OfNat K 1]

/-- `detect_collisions` (self_collide, and the second half of collide) maps well-formed graphs to well-formed graphs and
never gets stuck, for every list of collisions between existing points, every set of merged point pairs and every choice
of removed self-loops.  As the result is well formed again, this holds for any number of successive collisions
(`path_add_chain`, `collide` of an already collided graph). -/
theorem detectCollisions_wf {g : Graph} (h : Wf g) (cs : List (Collision K))
    (hcs : ∀ c ∈ cs, c.p1 < g.length ∧ c.p2 < g.length) (any : Bool) (accepted dec : List (Nat × Nat)) :
    ∃ g', detectCollisions g cs any accepted dec = some g' ∧ Wf g' ∧ g.length ≤ g'.length :=
  Model.Graph.detectCollisions_wf h cs hcs any accepted dec

/-- `GraphPath::collide` of two well-formed graphs is well formed. -/
theorem collide_wf {g h : Graph} (hg : Wf g) (hh : Wf h) (cs : List (Collision K))
    (hcs : ∀ c ∈ cs, c.p1 < g.length + h.length ∧ c.p2 < g.length + h.length) (any : Bool) (accepted dec : List (Nat × Nat)) :
    ∃ g', collide g h cs any accepted dec = some g' ∧ Wf g' ∧ g.length + h.length ≤ g'.length :=
  Model.Graph.collide_wf hg hh cs hcs any accepted dec

/-- THE PROPERTY's combinatorial half for `collide`: whatever collisions are found, points merged and short edges removed,
in the resulting graph every edge runs between existing points and every point has as many incoming as outgoing edges. -/
theorem collide_balanced {g h : Graph} (hg : Wf g) (hh : Wf h) (cs : List (Collision K))
    (hcs : ∀ c ∈ cs, c.p1 < g.length + h.length ∧ c.p2 < g.length + h.length) (any : Bool) (accepted dec : List (Nat × Nat)) :
    ∃ g', collide g h cs any accepted dec = some g' ∧
      (∀ p, ∀ e ∈ edgesAt g' p, e.endIdx < g'.length) ∧ ∀ p, inDegree g' p = outDegree g' p := by
  obtain ⟨g', h1, h2, _⟩ := Model.Graph.collide_wf hg hh cs hcs any accepted dec
  exact ⟨g', h1, h2.fol.endValid, h2.fol.balanced⟩

end Whole

/-- two triangles; edge 0 → 1 of the first and edge 3 → 4 of the second cross at t = 5/10, 2/10 (the `t` values are
counted in tenths); nothing is merged or removed -/
example : collide (K := Tenths) (fromPath 0 [false, false, false] true) (fromPath 1 [false, false, false] true)
    [⟨0, 0, ⟨5⟩, 3, 0, ⟨2⟩⟩] false [] [] =
    some [⟨[⟨6, 0, 0, 0⟩], [2]⟩, ⟨[⟨2, 0, 0, 0⟩], [6]⟩, ⟨[⟨0, 0, 0, 0⟩], [1]⟩,
          ⟨[⟨6, 1, 1, 0⟩], [5]⟩, ⟨[⟨5, 0, 1, 0⟩], [6]⟩, ⟨[⟨3, 0, 1, 0⟩], [4]⟩,
          ⟨[⟨1, 0, 0, 0⟩, ⟨4, 0, 1, 0⟩], [0, 3]⟩] := by decide

/-! ### consequences of the invariant -/

/-- BALANCE: in a well-formed graph every point has as many incoming as outgoing edges (the map "edge ↦ its following
edge" is a bijection of the edge set, so the edges that end at p correspond to the edges that leave p). -/
theorem wf_balanced {g : Graph} (h : FolWf g) (p : Nat) : inDegree g p = outDegree g p := h.balanced p

/-- The library's own debugging check `check_following_edge_consistency` (valid end point, valid following index, no two
edges with the same following edge; compiled only under `cfg(test)` / `extra_checks`) holds EXACTLY for the graphs with a
well-formed following-edge structure: by the pigeonhole principle "no following edge is named twice" already forces
"every edge is named once".  So that check, where it runs, implies balance. -/
theorem consistency_check_iff (g : Graph) : Consistent g ↔ FolWf g := consistent_iff_folWf g

example : Consistent loopGraph := (consistency_check_iff _).mpr ((folWfCheck_iff _).mp (by decide))

/-- `reverse_edges_for_point(p)` of a well-formed graph lists every edge that ends at `p` exactly once and nothing else
(what F14 violated before `connected_from` was de-duplicated); entries of `connected_from` that no edge justifies are
invisible through this query. -/
theorem reverseEdges_each_once {g : Graph} (h : Wf g) (p : Nat) :
    (reverseEdges g p).Nodup ∧
      ∀ c i, (c, i) ∈ reverseEdges g p ↔ ∃ e, edgeAt g c i = some e ∧ e.endIdx = p := by
  refine ⟨nodup_reverseEdges h.conn.nodup p, ?_⟩
  intro c i
  rw [mem_reverseEdges]
  constructor
  · rintro ⟨_, he⟩; exact he
  · rintro ⟨e, he, hep⟩
    refine ⟨?_, e, he, hep⟩
    have := h.conn.complete c e (mem_edgesAt_of_edgeAt he)
    rwa [hep] at this

example : reverseEdges loopGraph 1 = [(0, 0), (1, 0)] := by decide

/-- The executable checkers decide the invariant: `wfCheck g = true` iff `Wf g`, `connExactCheck g = true` iff
`ConnExact g`.  The driver evaluates them on the graphs the REAL code produced (dumped through the hook / the public
queries after every stage). -/
theorem wfCheck_iff (g : Graph) :
    (wfCheck g = true ↔ Wf g) ∧ (folWfCheck g = true ↔ FolWf g) ∧ (connExactCheck g = true ↔ ConnExact g) :=
  ⟨Model.Graph.wfCheck_iff g, folWfCheck_iff g, connExactCheck_iff g⟩

example : wfCheck loopGraph = true := by decide
example : wfCheck [⟨[⟨0, 1, 7, 0⟩], [0]⟩] = false := by decide

/-! ### the hit-selection rule of `find_collisions` -/

section Hits
variable {K : Type} [LinearOrder K] [Zero K] [One K]

/-- A crossing at the joint of two consecutive edges with the INTERIOR of another edge has two representatives: `(1, s)`
on the edge that ends there and `(0, s)` on the edge that starts there.  The filter drops the first and keeps the
second (and symmetrically for the target side), so one of them always survives. -/
theorem joint_hit_kept (h01 : (0 : K) < 1) (s : K) (h0 : 0 < s) (h1 : s < 1) :
    keepHit (0 : K) s = true ∧ keepHit (1 : K) s = false ∧ keepHit s (0 : K) = true ∧ keepHit s (1 : K) = false := by
  have a1 : ¬ (s ≤ 0) := not_le.mpr h0
  have a2 : ¬ (1 ≤ s) := not_le.mpr h1
  have a3 : ¬ ((1 : K) ≤ 0) := not_le.mpr h01
  simp [keepHit, tIsOne, tIsZero, a1, a2, a3]

/-- ... and the surviving representative re-uses the existing vertex: no point is created for it. -/
theorem joint_hit_uses_vertex (g : Graph) (c : Collision K) (h : c.t1 ≤ 0) :
    createCollisionPoints g [c] = (g, [(c, c.p1)]) := by
  simp [createCollisionPoints, tIsZero, h]

/-- (finding) When the crossing is at a vertex of BOTH paths all four representatives are dropped: the two vertices are
only joined if `combine_overlapping_points` finds them within `accuracy` of each other. -/
theorem vertex_vertex_hits_all_dropped (h01 : (0 : K) < 1) :
    keepHit (0 : K) 0 = false ∧ keepHit (0 : K) 1 = false ∧ keepHit (1 : K) 0 = false ∧ keepHit (1 : K) 1 = false := by
  simp [keepHit, tIsOne, tIsZero, le_of_lt h01]

/-- (finding) The code after the filter that "moves a collision at the end of an edge to the start of the following edge"
never runs: every hit with `t ≥ 1` was removed by the filter before, so `find_collisions` returns the kept hits unchanged.
Hits at `t = 1` are dropped, not moved - the crossing survives only because the sweep also reports the pair with the
following edge (`joint_hit_kept`). -/
theorem selectHits_relocation_dead (g : Graph) (src tgt : Nat × Nat) (hits : List (K × K)) :
    selectHits g src tgt hits = (hits.filter fun h => keepHit h.1 h.2).map fun h =>
      ({ p1 := src.1, e1 := src.2, t1 := h.1, p2 := tgt.1, e2 := tgt.2, t2 := h.2 } : Collision K) := by
  unfold selectHits
  rw [List.map_map]
  apply List.map_congr_left
  intro h hh
  have hk := (List.mem_filter.mp hh).2
  simp only [keepHit, Bool.not_eq_true', Bool.or_eq_false_iff] at hk
  simp [Function.comp, moveToFollowing, hk.1.1, hk.1.2]

end Hits

/-- non-vacuity: a crossing at t = 5/10 -/
example := joint_hit_kept (K := Tenths) (by decide) ⟨5⟩ (by decide) (by decide)
example : keepHit (0 : Tenths) ⟨5⟩ = true ∧ keepHit (1 : Tenths) ⟨5⟩ = false := by decide

end C03
