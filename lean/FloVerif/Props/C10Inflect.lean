/-
C10 (inflection points)  `find_inflection_points` finds every inflection the canonical form has.

In the canonical form (0,0),(0,1),(1,1),(x,y) of a cubic (`to_canonical_curve`), the inflection parameters are the roots of
`a·t² + b·t − 1 = 0` with `a = −3 + x + y`, `b = 3 − x` (the expression the generated code solves: `(−b ± sqrt(4a + b²)) / 2a`).
`offset_scaling` / `offset_lms_sampling` cut the curve at what this function returns; an inflection it does not report is a
section that the scaling heuristic treats as an arch (seeded change C10-m7: the guard widened from `f64::EPSILON` to 1e-7 loses the
inflection of every nearly point-symmetric S).
-/
import FloVerif.Props.C10

set_option linter.unusedSectionVars false
namespace C10Inflect
open Prelude Gen C10

variable {K : Type} [Field K] [LinearOrder K] [IsStrictOrderedRing K] [Inhabited K]
local instance : FAbs K := ⟨fun a => |a|⟩
local instance : OfInt K := ⟨fun n => (n : K)⟩
variable [FSqrt K] [FConsts K]

/-- the parameters an answer lists -/
def listed : InflectionPoints K → List K
  | .Zero => []
  | .One t => [t]
  | .Two t1 t2 => [t1, t2]

/-- EVERY INFLECTION IN [0,1] IS REPORTED unless the leading coefficient is within `f64::EPSILON` of zero: for every canonical end
    point `(x, y)` with `|−3 + x + y| > EPSILON` and every `t ∈ [0,1]` with `a·t² + b·t − 1 = 0`, `t` is among the parameters
    `find_inflection_points` returns (for the real square root). -/
theorem find_inflection_points_complete (hs : SqrtSpec K) (heps : (0 : K) ≤ feps) (x y t : K)
    (ha : (feps : K) < |(-3 + x + y)|) (ht : 0 ≤ t ∧ t ≤ 1)
    (hroot : (-3 + x + y) * t * t + (3 - x) * t - 1 = 0) :
    t ∈ listed (find_inflection_points (T2.mk x y)) := by
  have e3 : (3.0 : K) = 3 := by norm_num
  have e2 : (2.0 : K) = 2 := by norm_num
  have e4 : (4.0 : K) = 4 := by norm_num
  have e0 : (0.0 : K) = 0 := by norm_num
  have e1 : (1.0 : K) = 1 := by norm_num
  unfold find_inflection_points
  simp only [e3, e2, e4, e0, e1]
  set a : K := -3 + x + y with hadef
  set b : K := 3 - x with hbdef
  have hane : a ≠ 0 := by
    intro h0; rw [h0, abs_zero] at ha; exact absurd (lt_of_le_of_lt heps ha) (lt_irrefl _)
  have hguard : ¬ (fabs a : K) ≤ feps := not_le.2 ha
  simp only [hguard, decide_false, Bool.false_eq_true, if_false]
  -- the discriminant is a square
  have hD : 4 * a + b * b = (2 * a * t + b) * (2 * a * t + b) := by
    have : a * t * t + b * t - 1 = 0 := hroot
    nlinarith [this]
  have hDnn : 0 ≤ 4 * a + b * b := by rw [hD]; exact mul_self_nonneg _
  obtain ⟨hsnn, hsq⟩ := hs _ hDnn
  set s : K := fsqrt (4 * a + b * b) with hsdef
  have hcase : s = 2 * a * t + b ∨ s = -(2 * a * t + b) := by
    have : s * s = (2 * a * t + b) * (2 * a * t + b) := by rw [hsq, hD]
    rcases mul_self_eq_mul_self_iff.1 this with h | h
    · exact Or.inl h
    · exact Or.inr h
  have h2a : (2 : K) * a ≠ 0 := mul_ne_zero two_ne_zero hane
  rcases hcase with hc | hc
  · -- t = lhs + rhs
    have ht2 : -b / (2 * a) + s / (2 * a) = t := by rw [hc]; field_simp; ring
    rw [ht2]
    have hin : (decide (0 ≤ t) && decide (t ≤ 1)) = true := by simp [ht.1, ht.2]
    generalize (-b / (2 * a) - s / (2 * a)) = u
    simp only [hin, Bool.not_true, Bool.false_eq_true, if_false]
    split_ifs <;> simp [listed]
  · -- t = lhs - rhs
    have ht1 : -b / (2 * a) - s / (2 * a) = t := by rw [hc]; field_simp; ring
    rw [ht1]
    have hin : (decide (0 ≤ t) && decide (t ≤ 1)) = true := by simp [ht.1, ht.2]
    generalize (-b / (2 * a) + s / (2 * a)) = u
    simp only [hin, Bool.not_true, Bool.false_eq_true, if_false]
    split_ifs <;> simp [listed]

/-- AND NOTHING ELSE: with a non-negative discriminant, every reported parameter lies in [0,1] and is a root of the quadratic -/
theorem find_inflection_points_sound (hs : SqrtSpec K) (heps : (0 : K) ≤ feps) (x y t : K)
    (hD : 0 ≤ 4 * (-3 + x + y) + (3 - x) * (3 - x))
    (hmem : t ∈ listed (find_inflection_points (T2.mk x y))) :
    0 ≤ t ∧ t ≤ 1 ∧ (-3 + x + y) * t * t + (3 - x) * t - 1 = 0 := by
  have e3 : (3.0 : K) = 3 := by norm_num
  have e2 : (2.0 : K) = 2 := by norm_num
  have e4 : (4.0 : K) = 4 := by norm_num
  have e0 : (0.0 : K) = 0 := by norm_num
  have e1 : (1.0 : K) = 1 := by norm_num
  unfold find_inflection_points at hmem
  simp only [e3, e2, e4, e0, e1] at hmem
  set a : K := -3 + x + y with hadef
  set b : K := 3 - x with hbdef
  obtain ⟨_, hsq⟩ := hs _ hD
  set s : K := fsqrt (4 * a + b * b) with hsdef
  by_cases hg : (fabs a : K) ≤ feps
  · simp [hg, listed] at hmem
  · have hane : a ≠ 0 := by
      intro h0; apply hg; rw [h0]; show |(0 : K)| ≤ feps
      rw [abs_zero]; exact heps
    have h2a : (2 : K) * a ≠ 0 := mul_ne_zero two_ne_zero hane
    simp only [hg, decide_false, Bool.false_eq_true, if_false] at hmem
    have r1 : a * (-b / (2 * a) - s / (2 * a)) * (-b / (2 * a) - s / (2 * a)) + b * (-b / (2 * a) - s / (2 * a)) - 1 = 0 := by
      field_simp
      nlinarith [hsq]
    have r2 : a * (-b / (2 * a) + s / (2 * a)) * (-b / (2 * a) + s / (2 * a)) + b * (-b / (2 * a) + s / (2 * a)) - 1 = 0 := by
      field_simp
      nlinarith [hsq]
    generalize (-b / (2 * a) - s / (2 * a)) = t1 at hmem r1
    generalize (-b / (2 * a) + s / (2 * a)) = t2 at hmem r2
    have hb : ∀ u : K, (!(decide (0 ≤ u) && decide (u ≤ 1))) = true ∨ ((!(decide (0 ≤ u) && decide (u ≤ 1))) = false ∧ 0 ≤ u ∧ u ≤ 1) := by
      intro u; by_cases h0 : 0 ≤ u <;> by_cases h1 : u ≤ 1 <;> simp [h0, h1]
    rcases hb t1 with h1 | ⟨h1, b1⟩ <;> rcases hb t2 with h2 | ⟨h2, b2⟩ <;>
      simp only [h1, h2, if_true, if_false, Bool.false_eq_true, listed, List.mem_cons, List.mem_nil_iff, or_false] at hmem
    · rw [hmem]; exact ⟨b2.1, b2.2, r2⟩
    · rw [hmem]; exact ⟨b1.1, b1.2, r1⟩
    · rcases hmem with rfl | rfl
      · exact ⟨b1.1, b1.2, r1⟩
      · exact ⟨b2.1, b2.2, r2⟩

/-- non-vacuity: the canonical end point (3, 1) has `a = 1`, `b = 0` and the root `t = 1` in [0,1]; the guard hypothesis holds for any
    `EPSILON < 1` -/
example : (-3 + 3 + 1 : ℚ) * 1 * 1 + (3 - 3) * 1 - 1 = 0 ∧ (0 : ℚ) ≤ 1 ∧ (1 / 4503599627370496 : ℚ) < |(-3 + 3 + 1 : ℚ)| := by
  norm_num

end C10Inflect
