/-
C15 (progress)  Every section of an even walk has positive parameter length.

`Gen.even_walk_next` is the whole `EvenWalkIterator::next` (inner loop included), `Gen.walk_curve_evenly` its constructor and
`Gen.vary_step` the update of `vary_by`, all regenerated from walk.rs on every check.  The tiling theorems (`C15.even_tiling`,
`C15Vary.varied_tiling`) hold whatever the step controller computes; here the controller itself is opened: whatever the curve, the
speed and the distances are, every update of the loop keeps the parameter increment POSITIVE (a correction that would make it
non-positive is replaced by a division by three), so

* `even_next_progress`: from a state with a positive increment, a returned section `(a, b)` has `a < b` and the increment the
  iterator keeps for the following step is positive again;
* `walk_start_increment_pos`: the constructor starts with a positive increment; `vary_step_increment_pos`: `vary_by` keeps it positive.

Hence the sections of any even or varied walk are strictly increasing in the parameter: the walk never stalls on a section of zero or
negative length (termination still needs a lower bound on the increments, which is not a theorem).
-/
import FloVerif.Props.C15Vary

set_option linter.unusedSectionVars false
set_option linter.unusedVariables false
namespace C15Progress
open Prelude Gen

variable {K : Type} [Field K] [LinearOrder K] [IsStrictOrderedRing K] [Inhabited K] [FSqrt K]

attribute [local instance] C15.instFAbs C15.instOfInt

/-- an invariant kept by every step of a fuel loop whose exit value is its state holds for the result -/
theorem iterFuel_same_inv {σ : Type} (Inv : σ → Prop) (step : σ → Sum σ σ)
    (h : ∀ s, Inv s → (∀ s', step s = .inl s' → Inv s') ∧ (∀ s', step s = .inr s' → Inv s')) :
    ∀ (n : Nat) (s : σ), Inv s → Inv (iterFuel n step (fun s => s) s)
  | 0, s, hs => hs
  | n + 1, s, hs => by
    simp only [iterFuel]
    cases hst : step s with
    | inl s' => exact iterFuel_same_inv Inv step h n s' ((h s hs).1 s' hst)
    | inr r => exact (h s hs).2 r hst

/-- ONE UPDATE OF THE STEP CONTROLLER KEEPS THE INCREMENT POSITIVE, whatever the distances and the speed are: in the zero-speed
    branch it is multiplied by 1/2, 3/2 or a ratio between them; otherwise the Newton correction is subtracted only when it is smaller
    than the increment, and the increment is divided by three when it is not -/
theorem inc_update_pos (t_increment distance next_distance speed : K) (h : 0 < t_increment) :
    0 < (if fabs speed < (0.00000001 : K) then
          (if distance / next_distance < (0.5 : K) then t_increment * (0.5 : K)
           else (if (1.5 : K) < distance / next_distance then t_increment * (1.5 : K)
           else t_increment * (distance / next_distance)))
        else
          (if t_increment ≤ (next_distance - distance) / speed then t_increment * (0.3333333 : K)
           else t_increment - (next_distance - distance) / speed)) := by
  split_ifs with h1 h2 h3 h4
  · exact mul_pos h (by norm_num)
  · exact mul_pos h (by norm_num)
  · exact mul_pos h (lt_of_lt_of_le (by norm_num) (not_lt.1 h2))
  · exact mul_pos h (by norm_num)
  · exact sub_pos.2 (not_le.1 h4)

/-- EVERY STEP OF AN EVEN WALK MAKES PROGRESS: for any curve, distance and tolerance, from a state whose increment is positive, a
    returned section `(a, b)` satisfies `a < b`, and the increment kept for the next step is positive -/
theorem even_next_progress (w1 w2 w3 w4 : V2 K) (d : T3 (V2 K) (V2 K) (V2 K)) (dist err lastT : K) (lastP : V2 K) (lastInc : K)
    (hinc : 0 < lastInc) :
    let r := even_walk_next w1 w2 w3 w4 d dist err lastT lastP lastInc
    (∀ sec, r.t0 = some sec → sec.t0 < sec.t1) ∧ 0 < r.t1.t2 := by
  have h1 : (1.0 : K) = 1 := by norm_num
  intro r
  have hr : even_walk_next w1 w2 w3 w4 d dist err lastT lastP lastInc = r := rfl
  clear_value r
  unfold even_walk_next at hr
  simp only [h1, decide_eq_true_eq, ge_iff_le, gt_iff_lt] at hr
  -- the invariant of the inner loop: positive increment, and the candidate parameter is the position plus the increment
  let Inv : T4 (V2 K) K K Nat → Prop := fun st => 0 < st.t1 ∧ st.t2 = lastT + st.t1
  by_cases hdone : 1 ≤ lastT
  · simp only [hdone, if_true] at hr
    subst hr
    exact ⟨by simp, hinc⟩
  · simp only [hdone, if_false] at hr
    have hlt : lastT < 1 := not_le.1 hdone
    split at hr
    · split at hr
      · subst hr
        refine ⟨?_, hinc⟩
        intro sec hsec
        simp only [Option.some.injEq] at hsec
        rw [← hsec]; exact hlt
      · -- the loop ran from (default, lastInc, lastT + lastInc, 0)
        generalize hU : iterFuel 64 _ _ _ = upd at hr
        have hI : Inv upd := by
          rw [← hU]
          apply iterFuel_same_inv Inv _ _ 64 _ ⟨hinc, rfl⟩
          intro s ⟨hs1, hs2⟩
          constructor
          · intro s' hs'
            split at hs'
            · cases hs'
            · split at hs'
              · cases hs'
              · cases hs'
                exact ⟨inc_update_pos s.t1 dist _ _ hs1, rfl⟩
          · intro s' hs'
            split at hs'
            · cases hs'; exact ⟨hs1, hs2⟩
            · split at hs'
              · cases hs'
                exact ⟨inc_update_pos s.t1 dist _ _ hs1, rfl⟩
              · cases hs'
        obtain ⟨hI1, hI2⟩ := hI
        split at hr
        · subst hr
          refine ⟨?_, hinc⟩
          intro sec hsec
          simp only [Option.some.injEq] at hsec
          rw [← hsec]; exact hlt
        · subst hr
          refine ⟨?_, hI1⟩
          intro sec hsec
          simp only [Option.some.injEq] at hsec
          rw [← hsec]
          show lastT < _
          rw [hI2]; linarith
    · generalize hU : iterFuel 64 _ _ _ = upd at hr
      have hI : Inv upd := by
        rw [← hU]
        apply iterFuel_same_inv Inv _ _ 64 _ ⟨hinc, rfl⟩
        intro s ⟨hs1, hs2⟩
        constructor
        · intro s' hs'
          split at hs'
          · cases hs'
          · split at hs'
            · cases hs'
            · cases hs'
              exact ⟨inc_update_pos s.t1 dist _ _ hs1, rfl⟩
        · intro s' hs'
          split at hs'
          · cases hs'; exact ⟨hs1, hs2⟩
          · split at hs'
            · cases hs'
              exact ⟨inc_update_pos s.t1 dist _ _ hs1, rfl⟩
            · cases hs'
      obtain ⟨hI1, hI2⟩ := hI
      split at hr
      · subst hr
        refine ⟨?_, hinc⟩
        intro sec hsec
        simp only [Option.some.injEq] at hsec
        rw [← hsec]; exact hlt
      · subst hr
        refine ⟨?_, hI1⟩
        intro sec hsec
        simp only [Option.some.injEq] at hsec
        rw [← hsec]
        show lastT < _
        rw [hI2]; linarith

/-- EVERY SECTION OF AN EVEN WALK HAS POSITIVE PARAMETER LENGTH: from any state with a positive increment, for any number of steps,
    every section `(a, b)` the generated iterator yields satisfies `a < b` (with `C15.even_tiling`: the sections are strictly
    increasing and tile the range) -/
theorem evenFrom_progress (w1 w2 w3 w4 : V2 K) (d : T3 (V2 K) (V2 K) (V2 K)) (dist err : K) :
    ∀ (fuel : Nat) (lastT : K) (lastP : V2 K) (lastInc : K), 0 < lastInc →
      ∀ s ∈ (C15.evenFrom w1 w2 w3 w4 d dist err fuel lastT lastP lastInc).1, s.t0 < s.t1
  | 0, _, _, _, _ => by simp [C15.evenFrom]
  | f + 1, lastT, lastP, lastInc, hinc => by
    have hp := even_next_progress w1 w2 w3 w4 d dist err lastT lastP lastInc hinc
    simp only at hp
    obtain ⟨hsec, hnext⟩ := hp
    simp only [C15.evenFrom]
    cases hr : (even_walk_next w1 w2 w3 w4 d dist err lastT lastP lastInc).t0 with
    | none => simp
    | some sec =>
      intro s hs
      simp only [List.mem_cons] at hs
      rcases hs with rfl | hs
      · exact hsec _ hr
      · exact evenFrom_progress w1 w2 w3 w4 d dist err f _ _ _ hnext s hs

/-- THE WALK STARTS WITH A POSITIVE INCREMENT, for every curve, distance and tolerance - given that the square root is non-negative
    (`f64::sqrt` is): the increment is `0.01`, or `distance / speed` with `distance ≥ 1e-10` and `speed ≥ 1e-8` -/
theorem walk_start_increment_pos (hsqrt : ∀ x : K, 0 ≤ (fsqrt x : K)) (w1 w2 w3 w4 : V2 K) (distance max_error : K) :
    0 < (walk_curve_evenly w1 w2 w3 w4 distance max_error).last_increment := by
  have hp : (0 : K) < 1e-10 := by norm_num
  simp only [walk_curve_evenly]
  -- the clamped distance is positive, the speed is a square root
  generalize hdist : (if decide (distance < (1e-10 : K)) = true then (1e-10 : K) else distance) = dist
  have hdpos : 0 < dist := by
    rw [← hdist]; split
    · exact hp
    · rename_i h; simp only [decide_eq_true_eq, not_lt] at h; exact lt_of_lt_of_le hp h
  have hmag : ∀ v : V2 K, 0 ≤ magnitude v := fun v => hsqrt _
  generalize hs : (if decide (dist / fabs (magnitude (de_casteljau3 (0.001 : K) (derivative4 w1 w2 w3 w4).t0 (derivative4 w1 w2 w3 w4).t1
      (derivative4 w1 w2 w3 w4).t2)) > (0.25 : K)) = true then
      magnitude (de_casteljau3 (0.01 : K) (derivative4 w1 w2 w3 w4).t0 (derivative4 w1 w2 w3 w4).t1 (derivative4 w1 w2 w3 w4).t2)
    else magnitude (de_casteljau3 (0.001 : K) (derivative4 w1 w2 w3 w4).t0 (derivative4 w1 w2 w3 w4).t1
      (derivative4 w1 w2 w3 w4).t2)) = speed at *
  have hsp : 0 ≤ speed := by
    rw [← hs]; split <;> exact hmag _
  split
  · norm_num
  · rename_i hbig
    split
    · norm_num
    · simp only [decide_eq_true_eq, not_lt, fabs] at hbig
      have hpos : 0 < speed := by
        rw [abs_of_nonneg hsp] at hbig
        exact lt_of_lt_of_le (by norm_num) hbig
      exact div_pos hdpos hpos

/-- `vary_by` keeps the increment positive (the new distance is positive, the old one is by `walk_curve_evenly` / the previous
    `vary_step`) -/
theorem vary_step_increment_pos (x dist inc : K) (hd : 0 < dist) (hi : 0 < inc) : 0 < (vary_step x dist inc).t1.t1 := by
  rw [(C15Vary.vary_step_spec x dist inc).2]
  exact mul_pos hi (div_pos (lt_of_lt_of_le (by norm_num) (le_max_right _ _)) hd)

/-- non-vacuity: a correction larger than the increment divides it by three: from 1/4 to 0.3333333/4 -/
example : (if fabs (2 : ℚ) < (0.00000001 : ℚ) then (0 : ℚ)
    else (if (1 / 4 : ℚ) ≤ ((5 : ℚ) - 1) / 2 then (1 / 4 : ℚ) * (0.3333333 : ℚ) else 1 / 4 - (5 - 1) / 2)) = 0.3333333 / 4 := by
  norm_num [fabs]

end C15Progress
