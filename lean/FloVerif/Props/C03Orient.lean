/-
C03 / C01 / C12 (orientation)  `points_are_clockwise`, generated from is_clockwise.rs.

`GraphPath::from_path` (graph_path/mod.rs:159) builds every sub-path in the clockwise direction: a path for which
`points_are_clockwise` answers `false` is reversed first.  Everything downstream (ray-cast classification, the non-zero rule of
`path_remove_overlapped_points`, C12's oracle "winding relative to the sub-path's own direction") relies on that normalisation
meaning something.  Here: the generated function is the sign test `0 ≤ Σ (x_{i+1} − x_i)(y_{i+1} + y_i)` over the closed polygon of
the points; that sum is minus twice the signed area (shoelace); it changes sign under reversal and does not depend on the start
vertex - so, unless the area is exactly zero, exactly one of a point sequence and its reversal is clockwise, whichever vertex the
path starts at.
-/
import FloVerif.Gen.Clockwise
import Mathlib.Tactic.Ring
import Mathlib.Tactic.NormNum.OfScientific
import Mathlib.Tactic.Linarith
import Mathlib.Algebra.Order.Field.Basic

set_option linter.unusedSectionVars false
namespace C03Orient
open Prelude Gen

variable {K : Type} [Field K] [LinearOrder K] [IsStrictOrderedRing K] [Inhabited K]

/-- one term of the sum -/
def term (a b : V2 K) : K := (b.x - a.x) * (b.y + a.y)

/-- the sum over consecutive pairs of a point list -/
def edgeSum : List (V2 K) → K
  | a :: b :: rest => term a b + edgeSum (b :: rest)
  | _ => 0

/-- the shoelace sum `Σ (x_{i+1} y_i − x_i y_{i+1})` over consecutive pairs -/
def crossSum : List (V2 K) → K
  | a :: b :: rest => (b.x * a.y - a.x * b.y) + crossSum (b :: rest)
  | _ => 0

theorem term_swap (a b : V2 K) : term b a = - term a b := by unfold term; ring

theorem fold_eq_edgeSum (l : List (V2 K)) (acc : K) :
    foldlT (List.zipWith (fun a_ b_ => T2.mk a_ b_) l (List.tail l)) acc
      (fun st_1 it_1 => st_1 + ((it_1.t1.x - it_1.t0.x) * (it_1.t1.y + it_1.t0.y))) = acc + edgeSum l := by
  unfold foldlT
  induction l generalizing acc with
  | nil => simp [edgeSum]
  | cons a l ih =>
    cases l with
    | nil => simp [edgeSum]
    | cons b rest =>
      simp only [List.tail_cons, List.zipWith_cons_cons, List.foldl_cons]
      have := ih (acc + (b.x - a.x) * (b.y + a.y))
      simp only [List.tail_cons] at this
      rw [this]
      simp only [edgeSum, term]; ring

/-- THE GENERATED FUNCTION IS THE SIGN TEST OF THE CLOSED EDGE SUM (an empty sequence counts as clockwise) -/
theorem points_are_clockwise_eq (p : V2 K) (ps : List (V2 K)) :
    points_are_clockwise (p :: ps) = decide (0 ≤ edgeSum (p :: ps ++ [p])) := by
  unfold points_are_clockwise
  simp only [List.head?_cons, List.tail_cons]
  have h0 : (0.0 : K) = 0 := by norm_num
  have := fold_eq_edgeSum ([p] ++ ps ++ [p]) (0.0 : K)
  simp only [List.cons_append, List.nil_append, List.tail_cons] at this ⊢
  rw [h0] at this
  simp only [h0, this, zero_add, ge_iff_le]

theorem points_are_clockwise_nil : points_are_clockwise ([] : List (V2 K)) = true := by
  unfold points_are_clockwise
  simp

/-- appending one more point adds one term -/
theorem edgeSum_snoc (l : List (V2 K)) (c d : V2 K) : edgeSum (l ++ [c, d]) = edgeSum (l ++ [c]) + term c d := by
  induction l with
  | nil => simp [edgeSum]
  | cons a l ih =>
    cases l with
    | nil => simp [edgeSum]
    | cons b rest =>
      simp only [List.cons_append, edgeSum] at ih ⊢
      rw [ih]; ring

/-- REVERSAL CHANGES THE SIGN of the edge sum of any point list -/
theorem edgeSum_reverse (l : List (V2 K)) : edgeSum l.reverse = - edgeSum l := by
  induction l with
  | nil => simp [edgeSum]
  | cons a l ih =>
    cases l with
    | nil => simp [edgeSum]
    | cons b rest =>
      have h1 : (a :: b :: rest).reverse = rest.reverse ++ [b, a] := by simp
      have h2 : (b :: rest).reverse = rest.reverse ++ [b] := by simp
      rw [h1, edgeSum_snoc, ← h2, ih, term_swap]
      simp only [edgeSum]; ring

/-- SHOELACE: the edge sum is the cross sum plus a boundary term that vanishes for a closed polygon -/
theorem edgeSum_eq_crossSum (a : V2 K) (l : List (V2 K)) :
    edgeSum (a :: l) = crossSum (a :: l) + (((a :: l).getLast (by simp)).x * ((a :: l).getLast (by simp)).y - a.x * a.y) := by
  induction l generalizing a with
  | nil => simp [edgeSum, crossSum]
  | cons b rest ih =>
    have := ih b
    simp only [edgeSum, crossSum, term, List.getLast_cons_cons] at this ⊢
    rw [this]; ring

/-- for a closed polygon `p, …, p` the sign test is a test of the shoelace sum: `0 ≤ Σ (x_{i+1} y_i − x_i y_{i+1})` = minus twice the
    signed area, i.e. clockwise with y pointing up -/
theorem closed_edgeSum_eq_crossSum (p : V2 K) (ps : List (V2 K)) :
    edgeSum (p :: ps ++ [p]) = crossSum (p :: ps ++ [p]) := by
  have h := edgeSum_eq_crossSum p (ps ++ [p])
  simp only [List.cons_append] at h ⊢
  rw [h]
  have : (p :: (ps ++ [p])).getLast (by simp) = p := by
    rw [List.getLast_cons (by simp)]; simp
  rw [this]; ring

/-- THE REVERSED SEQUENCE (same start vertex, the other way round) HAS THE OPPOSITE SUM -/
theorem closed_reverse (p : V2 K) (ps : List (V2 K)) :
    edgeSum (p :: ps.reverse ++ [p]) = - edgeSum (p :: ps ++ [p]) := by
  have h := edgeSum_reverse (p :: ps ++ [p])
  have hr : (p :: ps ++ [p]).reverse = p :: ps.reverse ++ [p] := by simp
  rw [hr] at h
  exact h

/-- THE START VERTEX DOES NOT MATTER: starting the same closed polygon one vertex later gives the same sum (hence, by induction, any
    start vertex) -/
theorem closed_rotate (a b : V2 K) (rest : List (V2 K)) :
    edgeSum (b :: (rest ++ [a]) ++ [b]) = edgeSum (a :: (b :: rest) ++ [a]) := by
  have h := edgeSum_snoc (b :: rest) a b
  have e1 : b :: (rest ++ [a]) ++ [b] = (b :: rest) ++ [a, b] := by simp
  have e2 : a :: (b :: rest) ++ [a] = a :: ((b :: rest) ++ [a]) := by simp
  rw [e1, h, e2]
  simp only [List.cons_append, edgeSum]; ring

theorem clockwise_rotate (a b : V2 K) (rest : List (V2 K)) :
    points_are_clockwise (b :: (rest ++ [a])) = points_are_clockwise (a :: b :: rest) := by
  rw [points_are_clockwise_eq, points_are_clockwise_eq, closed_rotate]

/-- EXACTLY ONE DIRECTION IS CLOCKWISE unless the area is zero: what `from_path` relies on when it reverses a path for which the
    test fails -/
theorem one_direction_clockwise (p : V2 K) (ps : List (V2 K)) (harea : edgeSum (p :: ps ++ [p]) ≠ 0) :
    points_are_clockwise (p :: ps.reverse) = !points_are_clockwise (p :: ps) := by
  rw [points_are_clockwise_eq, points_are_clockwise_eq, closed_reverse]
  generalize edgeSum (p :: ps ++ [p]) = e at harea
  rcases lt_or_gt_of_ne harea with h | h
  · have h1 : ¬ 0 ≤ e := not_le.2 h
    have h2 : 0 ≤ -e := by linarith
    rw [decide_eq_true h2, decide_eq_false h1]; rfl
  · have h1 : 0 ≤ e := h.le
    have h2 : ¬ 0 ≤ -e := by intro hc; linarith
    rw [decide_eq_true h1, decide_eq_false h2]; rfl

/-- non-vacuity: the unit square walked (0,0),(0,1),(1,1),(1,0) - up, right, down with y pointing up - is clockwise, its reversal
    is not -/
example : points_are_clockwise ([⟨0, 0⟩, ⟨0, 1⟩, ⟨1, 1⟩, ⟨1, 0⟩] : List (V2 ℚ)) = true ∧
    points_are_clockwise ([⟨0, 0⟩, ⟨1, 0⟩, ⟨1, 1⟩, ⟨0, 1⟩] : List (V2 ℚ)) = false := by
  constructor <;> (rw [points_are_clockwise_eq]; simp [edgeSum, term])

end C03Orient
