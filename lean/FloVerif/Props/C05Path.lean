/-
C05 (path level)  `BezierPath::reversed` traverses the same curves backwards and is an involution.

`Gen.path_reversed` is regenerated from src/bezier/path/path.rs on every check (the loop over
`iter::once(fake).chain(points).tuple_windows()` becomes a fold over `windows2`).  A path is its start point and
the list of `(cp1, cp2, end)` triples, exactly `SimpleBezierPath`.
-/
import FloVerif.Gen.PathRev
import FloVerif.Gen.Basis

set_option linter.unusedSectionVars false
namespace C05Path
open Prelude Gen

variable {P : Type} [Inhabited P]

/-- the curves of a path, in order (`BezierPath::to_curves`): each starts where the previous one ended -/
def curvesOf (s : P) : List (T3 P P P) → List (T4 P P P P)
  | [] => []
  | c :: r => T4.mk s c.t0 c.t1 c.t2 :: curvesOf c.t2 r

/-- the point the path ends at (its start point when it has no curves) -/
def lastPt (s : P) : List (T3 P P P) → P
  | [] => s
  | c :: r => lastPt c.t2 r

/-- the triples of the reversed path, still in forward order -/
def revPts (s : P) : List (T3 P P P) → List (T3 P P P)
  | [] => []
  | c :: r => T3.mk c.t1 c.t0 s :: revPts c.t2 r

theorem fold_eq (x y s e0 : P) (pts acc : List (T3 P P P)) :
    foldlT (windows2 (T3.mk x y s :: pts)) (T2.mk e0 acc) (fun st it =>
      T2.mk it.t1.t2 (st.t1 ++ [T3.mk it.t1.t1 it.t1.t0 it.t0.t2]))
    = T2.mk (match pts with | [] => e0 | _ => lastPt s pts) (acc ++ revPts s pts) := by
  induction pts generalizing x y s e0 acc with
  | nil => simp [windows2, foldlT, revPts]
  | cons c r ih =>
    have h := ih c.t0 c.t1 c.t2 c.t2 (acc ++ [T3.mk c.t1 c.t0 s])
    simp only [windows2, foldlT, List.foldl_cons] at h ⊢
    rw [h]
    cases r <;> simp [lastPt, revPts]

/-- CLOSED FORM of the generated function: the reversed path starts at the last point and lists the swapped control
points with the previous end points, backwards.  (`origin` only fills the ignored control points of the fake first entry.) -/
theorem path_reversed_eq (origin s : P) (pts : List (T3 P P P)) :
    path_reversed origin s pts = T2.mk (lastPt s pts) (revPts s pts).reverse := by
  have h := fold_eq origin origin s s pts []
  simp only [path_reversed]
  rw [h]
  cases pts <;> simp [lastPt]

theorem lastPt_snoc (s : P) (l : List (T3 P P P)) (c : T3 P P P) : lastPt s (l ++ [c]) = c.t2 := by
  induction l generalizing s with
  | nil => rfl
  | cons a r ih => simpa [lastPt] using ih a.t2

theorem revPts_snoc (s : P) (l : List (T3 P P P)) (c : T3 P P P) :
    revPts s (l ++ [c]) = revPts s l ++ [T3.mk c.t1 c.t0 (lastPt s l)] := by
  induction l generalizing s with
  | nil => rfl
  | cons a r ih => simp [revPts, lastPt, ih a.t2]

theorem involution_aux (s : P) (pts : List (T3 P P P)) :
    lastPt (lastPt s pts) (revPts s pts).reverse = s ∧
    (revPts (lastPt s pts) (revPts s pts).reverse).reverse = pts := by
  induction pts generalizing s with
  | nil => simp [lastPt, revPts]
  | cons c r ih =>
    obtain ⟨h1, h2⟩ := ih c.t2
    simp only [lastPt, revPts, List.reverse_cons]
    refine ⟨by rw [lastPt_snoc], ?_⟩
    rw [revPts_snoc, h1, List.reverse_append, h2]
    rfl

/-- REVERSING TWICE IS THE IDENTITY, for every path: any start point, any number of curves - including none -/
theorem path_reversed_twice (origin s : P) (pts : List (T3 P P P)) :
    path_reversed origin (path_reversed origin s pts).t0 (path_reversed origin s pts).t1 = T2.mk s pts := by
  rw [path_reversed_eq origin s pts]
  simp only
  rw [path_reversed_eq]
  obtain ⟨h1, h2⟩ := involution_aux s pts
  rw [h1, h2]

theorem curvesOf_snoc (s : P) (l : List (T3 P P P)) (c : T3 P P P) :
    curvesOf s (l ++ [c]) = curvesOf s l ++ [T4.mk (lastPt s l) c.t0 c.t1 c.t2] := by
  induction l generalizing s with
  | nil => rfl
  | cons a r ih => simp [curvesOf, lastPt, ih a.t2]

/-- THE REVERSED PATH TRAVERSES THE SAME CURVES BACKWARDS: its curves are the reversed curves (the generated
`Curve::reverse`) of the original, in reverse order; in particular there are as many -/
theorem path_reversed_curves (origin s : P) (pts : List (T3 P P P)) :
    curvesOf (path_reversed origin s pts).t0 (path_reversed origin s pts).t1
      = ((curvesOf s pts).map (fun c => curve_reverse c.t0 c.t1 c.t2 c.t3)).reverse := by
  rw [path_reversed_eq]
  simp only
  induction pts generalizing s with
  | nil => simp [curvesOf, revPts, lastPt]
  | cons c r ih =>
    have h := ih c.t2
    obtain ⟨h1, _⟩ := involution_aux c.t2 r
    simp only [lastPt, revPts, List.reverse_cons, curvesOf, List.map_cons]
    rw [curvesOf_snoc, h, h1]
    simp [curve_reverse]

/-- the reversed path starts where the original ended and ends where it started -/
theorem path_reversed_ends (origin s : P) (pts : List (T3 P P P)) :
    (path_reversed origin s pts).t0 = lastPt s pts ∧
    lastPt (path_reversed origin s pts).t0 (path_reversed origin s pts).t1 = s := by
  rw [path_reversed_eq]
  exact ⟨rfl, (involution_aux s pts).1⟩

/-- non-vacuity: a two-curve path over ℕ-labelled points, and the path with no curves -/
example : path_reversed 0 1 [T3.mk 2 3 4, T3.mk 5 6 7] = T2.mk 7 [T3.mk 6 5 4, T3.mk 3 2 1] := by decide
example : path_reversed 0 (8 : Nat) [] = T2.mk 8 [] := by decide

end C05Path
