/-
C20 / C12 (self-intersection)  `find_self_intersection_point` and its recursion `find_intersection_point_in_loop`
(src/bezier/intersection/self_intersection.rs, generated on every run).

* `in_loop_cases`: whatever the clipper is, an answer of the recursion is (a) the out-of-fuel marker or (b) the answer the last arm
  computes for a dyadic subsection whose halves are both loops or both not.  Before repair F25 (f1b829b) there was a third case, the
  `unimplemented!` of the (Loop, Loop) arm, reached exactly when some dyadic subsection splits into two loops at its middle: that statement
  showed the only route to the panic, a directed search then found inputs taking it (nearly cusped loops).
* `terminal_some_spec`: an answer of the last arm is the image under the two halves' `t_for_t` of a pair the clipper returned (or of
  (0, 1) when the clipper returned nothing and the two far ends are near each other).
* `self_intersection_ordered`: hence, when the clipper's parameters lie in 0..1, the answer `(t1, t2)` of
  `find_self_intersection_point` has `0 ≤ t1 ≤ t2 ≤ 1`, with `t1` in the first and `t2` in the second half of that subsection.
* `find_self_intersection_point_none`: a curve that is not characterised as a loop has no self-intersection reported.
-/
import Mathlib.Tactic.Linarith
import Mathlib.Tactic.NormNum
import Mathlib.Tactic.Ring
import Mathlib.Algebra.Order.Field.Basic
import FloVerif.Model.SelfIntersect

set_option linter.unusedSectionVars false
namespace C20Self
open Prelude Gen Model.SelfIntersect

variable {K : Type} [Field K] [LinearOrder K] [IsStrictOrderedRing K] [Inhabited K]
local instance : FAbs K := ⟨fun a => |a|⟩
local instance : OfInt K := ⟨fun n => (n : K)⟩
variable [FSqrt K] [FConsts K]

/-- the dyadic subsections the recursion can reach from `s` -/
inductive Desc (s : SectionT K) : SectionT K → Prop
  | refl : Desc s s
  | left {d} : Desc s d → Desc s (section_subsection d (0.0 : K) (0.5 : K))
  | right {d} : Desc s d → Desc s (section_subsection d (0.5 : K) (1.0 : K))

def catOf (w1 w2 w3 w4 : V2 K) (s : SectionT K) : CurveCategory :=
  characterize_cubic_bezier (section_start_point w1 w2 w3 w4 s) (section_control_points w1 w2 w3 w4 s).t0
    (section_control_points w1 w2 w3 w4 s).t1 (section_end_point w1 w2 w3 w4 s)

def leftOf (d : SectionT K) : SectionT K := section_subsection d (0.0 : K) (0.5 : K)
def rightOf (d : SectionT K) : SectionT K := section_subsection d (0.5 : K) (1.0 : K)

/-- the last arm of the generated body (the text of the generated code) -/
def terminal (clip_ : SectionT K → SectionT K → K → List (T2 K K)) (w1 w2 w3 w4 : V2 K) (d : SectionT K) (accuracy : K) :
    Option (T2 K K) :=
  let left := leftOf d
  let right := rightOf d
  let intersections := clip_ left right accuracy
  if (List.isEmpty intersections) && (is_near_to (section_start_point w1 w2 w3 w4 left) (section_end_point w1 w2 w3 w4 right) accuracy) then
    some (T2.mk (section_t_for_t left (0.0 : K)) (section_t_for_t right (1.0 : K)))
  else if (List.length intersections) == 1 then
    Option.map (fun p => T2.mk (section_t_for_t left p.t0) (section_t_for_t right p.t1)) (List.head? intersections)
  else
    Option.map (fun p => T2.mk (section_t_for_t left p.t0) (section_t_for_t right p.t1))
      (List.find? (fun p => (decide (p.t0 < (1.0 : K))) && (decide (p.t1 > (0.0 : K)))) intersections)

/-- one step of the generated body, by the categories of the two halves: the recursion goes into the half that is a loop when exactly
    one is; otherwise - neither is, or (since repair F25, where the code had `unimplemented!`) both are - the last arm answers -/
theorem body_eq (rec_ : SectionT K → K → Option (T2 K K)) (clip_ : SectionT K → SectionT K → K → List (T2 K K))
    (onLL : Option (T2 K K)) (w1 w2 w3 w4 : V2 K) (d : SectionT K) (acc : K) :
    find_intersection_point_in_loop rec_ clip_ onLL w1 w2 w3 w4 d acc =
      if catOf w1 w2 w3 w4 (leftOf d) = CurveCategory.Loop ∧ catOf w1 w2 w3 w4 (rightOf d) ≠ CurveCategory.Loop then rec_ (leftOf d) acc
      else if catOf w1 w2 w3 w4 (rightOf d) = CurveCategory.Loop ∧ catOf w1 w2 w3 w4 (leftOf d) ≠ CurveCategory.Loop then rec_ (rightOf d) acc
      else terminal clip_ w1 w2 w3 w4 d acc := by
  have hb : ∀ c : CurveCategory, (c != CurveCategory.Loop) = decide (c ≠ CurveCategory.Loop) := by intro c; cases c <;> rfl
  unfold find_intersection_point_in_loop terminal
  simp only [catOf, leftOf, rightOf, hb]
  split
  · rename_i rt heq
    injection heq with h0 h1
    subst h1
    by_cases hr : (characterize_cubic_bezier (section_start_point w1 w2 w3 w4 (section_subsection d (0.5 : K) (1.0 : K)))
        (section_control_points w1 w2 w3 w4 (section_subsection d (0.5 : K) (1.0 : K))).t0
        (section_control_points w1 w2 w3 w4 (section_subsection d (0.5 : K) (1.0 : K))).t1
        (section_end_point w1 w2 w3 w4 (section_subsection d (0.5 : K) (1.0 : K)))) = CurveCategory.Loop
    · simp [h0, hr]
    · simp [h0, hr]
  · rename_i hne
    have hl : (characterize_cubic_bezier (section_start_point w1 w2 w3 w4 (section_subsection d (0.0 : K) (0.5 : K)))
        (section_control_points w1 w2 w3 w4 (section_subsection d (0.0 : K) (0.5 : K))).t0
        (section_control_points w1 w2 w3 w4 (section_subsection d (0.0 : K) (0.5 : K))).t1
        (section_end_point w1 w2 w3 w4 (section_subsection d (0.0 : K) (0.5 : K)))) ≠ CurveCategory.Loop := by
      intro h; exact hne _ (by rw [h])
    split
    · rename_i lt heq
      injection heq with h0 h1
      subst h0
      simp [hl, h1]
    · rename_i hne2
      have hr : (characterize_cubic_bezier (section_start_point w1 w2 w3 w4 (section_subsection d (0.5 : K) (1.0 : K)))
          (section_control_points w1 w2 w3 w4 (section_subsection d (0.5 : K) (1.0 : K))).t0
          (section_control_points w1 w2 w3 w4 (section_subsection d (0.5 : K) (1.0 : K))).t1
          (section_end_point w1 w2 w3 w4 (section_subsection d (0.5 : K) (1.0 : K)))) ≠ CurveCategory.Loop := by
        intro h; exact hne2 _ (by rw [h])
      simp [hl, hr]

/-- THE RECURSION, CASE BY CASE (any clipper, any fuel): an answer is the out-of-fuel marker or the last arm's answer on a dyadic
    subsection whose halves are both loops or both not.  There is no third case: the function is total (no panic), which is C20's
    claim for it. -/
theorem in_loop_cases (clip_ : SectionT K → SectionT K → K → List (T2 K K)) (onLL onFuel : Option (T2 K K)) (w1 w2 w3 w4 : V2 K)
    (acc : K) (n : Nat) (s : SectionT K) :
    findInLoop clip_ onLL onFuel w1 w2 w3 w4 n s acc = onFuel ∨
    ∃ d, Desc s d ∧ findInLoop clip_ onLL onFuel w1 w2 w3 w4 n s acc = terminal clip_ w1 w2 w3 w4 d acc ∧
      (catOf w1 w2 w3 w4 (leftOf d) = CurveCategory.Loop ↔ catOf w1 w2 w3 w4 (rightOf d) = CurveCategory.Loop) := by
  induction n generalizing s with
  | zero => left; rfl
  | succ n ih =>
    rw [findInLoop, body_eq]
    by_cases hl : catOf w1 w2 w3 w4 (leftOf s) = CurveCategory.Loop
    · by_cases hr : catOf w1 w2 w3 w4 (rightOf s) = CurveCategory.Loop
      · right; exact ⟨s, Desc.refl, by simp [hl, hr], by simp [hl, hr]⟩
      · simp only [hl, hr, ne_eq, not_false_eq_true, and_self, if_true]
        rcases ih (leftOf s) with h | ⟨d, hd, h⟩
        · exact Or.inl h
        · refine Or.inr ⟨d, ?_, h⟩
          clear h
          induction hd with
          | refl => exact Desc.left Desc.refl
          | left _ ih' => exact Desc.left ih'
          | right _ ih' => exact Desc.right ih'
    · by_cases hr : catOf w1 w2 w3 w4 (rightOf s) = CurveCategory.Loop
      · simp only [hl, hr, ne_eq, not_false_eq_true, and_self, if_true, false_and, if_false, not_true_eq_false, and_false]
        rcases ih (rightOf s) with h | ⟨d, hd, h⟩
        · exact Or.inl h
        · refine Or.inr ⟨d, ?_, h⟩
          clear h
          induction hd with
          | refl => exact Desc.right Desc.refl
          | left _ ih' => exact Desc.left ih'
          | right _ ih' => exact Desc.right ih'
      · right; exact ⟨s, Desc.refl, by simp [hl, hr], by simp [hl, hr]⟩

/-- AN ANSWER OF THE LAST ARM comes from the clipper (or is the pair of far ends) -/
theorem terminal_some_spec (clip_ : SectionT K → SectionT K → K → List (T2 K K)) (w1 w2 w3 w4 : V2 K) (d : SectionT K) (acc : K)
    (r : T2 K K) (h : terminal clip_ w1 w2 w3 w4 d acc = some r) :
    (clip_ (leftOf d) (rightOf d) acc = [] ∧
      is_near_to (section_start_point w1 w2 w3 w4 (leftOf d)) (section_end_point w1 w2 w3 w4 (rightOf d)) acc = true ∧
      r = T2.mk (section_t_for_t (leftOf d) 0) (section_t_for_t (rightOf d) 1)) ∨
    ∃ p ∈ clip_ (leftOf d) (rightOf d) acc, r = T2.mk (section_t_for_t (leftOf d) p.t0) (section_t_for_t (rightOf d) p.t1) := by
  have e0 : (0.0 : K) = 0 := by norm_num
  have e1 : (1.0 : K) = 1 := by norm_num
  unfold terminal at h
  dsimp only at h
  split at h
  · rename_i hc
    simp only [Bool.and_eq_true, List.isEmpty_iff] at hc
    left; refine ⟨hc.1, hc.2, ?_⟩
    simp only [e0, e1] at h
    exact (Option.some.inj h).symm
  · split at h
    · right
      obtain ⟨p, hp, hr⟩ := Option.map_eq_some_iff.1 h
      exact ⟨p, List.mem_of_mem_head? hp, hr.symm⟩
    · right
      obtain ⟨p, hp, hr⟩ := Option.map_eq_some_iff.1 h
      exact ⟨p, List.mem_of_find?_eq_some hp, hr.symm⟩

/-- a dyadic subsection of [0,1] lies in [0,1] and is not reversed -/
theorem desc_range {d : SectionT K} (h : Desc (section_new (0.0 : K) (1.0 : K)) d) : 0 ≤ d.t_c ∧ 0 ≤ d.t_m ∧ d.t_c + d.t_m ≤ 1 := by
  have e0 : (0.0 : K) = 0 := by norm_num
  have e1 : (1.0 : K) = 1 := by norm_num
  have e5 : (0.5 : K) = 1 / 2 := by norm_num
  induction h with
  | refl => simp [section_new, e0, e1]
  | left _ ih =>
    obtain ⟨a, b, c⟩ := ih
    simp only [section_subsection, section_new, section_t_for_t, e0, e5]
    refine ⟨by linarith, by nlinarith, by nlinarith⟩
  | right _ ih =>
    obtain ⟨a, b, c⟩ := ih
    simp only [section_subsection, section_new, section_t_for_t, e1, e5]
    refine ⟨by nlinarith, by nlinarith, by nlinarith⟩

/-- the parameters of an answer of the last arm: `t1` in the first half of `d`, `t2` in the second half -/
theorem terminal_range (clip_ : SectionT K → SectionT K → K → List (T2 K K)) (w1 w2 w3 w4 : V2 K) (d : SectionT K) (acc : K)
    (hm : 0 ≤ d.t_m)
    (hclip : ∀ p ∈ clip_ (leftOf d) (rightOf d) acc, 0 ≤ p.t0 ∧ p.t0 ≤ 1 ∧ 0 ≤ p.t1 ∧ p.t1 ≤ 1)
    (r : T2 K K) (h : terminal clip_ w1 w2 w3 w4 d acc = some r) :
    d.t_c ≤ r.t0 ∧ r.t0 ≤ d.t_c + d.t_m / 2 ∧ d.t_c + d.t_m / 2 ≤ r.t1 ∧ r.t1 ≤ d.t_c + d.t_m := by
  have e0 : (0.0 : K) = 0 := by norm_num
  have e1 : (1.0 : K) = 1 := by norm_num
  have e5 : (0.5 : K) = 1 / 2 := by norm_num
  rcases terminal_some_spec clip_ w1 w2 w3 w4 d acc r h with ⟨_, _, hr⟩ | ⟨p, hp, hr⟩
  · subst hr
    simp only [leftOf, rightOf, section_subsection, section_new, section_t_for_t, e0, e1, e5]
    refine ⟨by nlinarith, by nlinarith, by nlinarith, by nlinarith⟩
  · subst hr
    obtain ⟨a, b, c, e⟩ := hclip p hp
    simp only [leftOf, rightOf, section_subsection, section_new, section_t_for_t, e0, e1, e5]
    refine ⟨by nlinarith, by nlinarith, by nlinarith, by nlinarith⟩

/-- NOT A LOOP, NO SELF-INTERSECTION -/
theorem find_self_intersection_point_none (in_loop : SectionT K → K → Option (T2 K K)) (w1 w2 w3 w4 : V2 K) (acc : K)
    (h : characterize_cubic_bezier w1 w2 w3 w4 ≠ CurveCategory.Loop) :
    find_self_intersection_point in_loop w1 w2 w3 w4 acc = none := by
  unfold find_self_intersection_point
  dsimp only
  cases hc : characterize_cubic_bezier w1 w2 w3 w4 <;> first | rfl | exact absurd hc h

/-- A REPORTED SELF-INTERSECTION IS ORDERED: with a clipper whose parameters lie in 0..1, an answer `(t1, t2)` of
    `find_self_intersection_point` that is neither the out-of-fuel nor the `unimplemented!` marker has `0 ≤ t1 ≤ t2 ≤ 1`; more
    precisely `t1` lies in the first and `t2` in the second half of a dyadic subsection of the curve neither half of which is a loop. -/
theorem self_intersection_ordered (clip_ : SectionT K → SectionT K → K → List (T2 K K)) (onLL onFuel : Option (T2 K K)) (fuel : Nat)
    (w1 w2 w3 w4 : V2 K) (acc : K)
    (hclip : ∀ l r, ∀ p ∈ clip_ l r acc, 0 ≤ p.t0 ∧ p.t0 ≤ 1 ∧ 0 ≤ p.t1 ∧ p.t1 ≤ 1)
    (r : T2 K K) (h : findSelfIntersection clip_ onLL onFuel fuel w1 w2 w3 w4 acc = some r)
    (hF : onFuel ≠ some r) :
    ∃ d, Desc (section_new (0.0 : K) (1.0 : K)) d ∧
      (catOf w1 w2 w3 w4 (leftOf d) = CurveCategory.Loop ↔ catOf w1 w2 w3 w4 (rightOf d) = CurveCategory.Loop) ∧
      d.t_c ≤ r.t0 ∧ r.t0 ≤ d.t_c + d.t_m / 2 ∧ d.t_c + d.t_m / 2 ≤ r.t1 ∧ r.t1 ≤ d.t_c + d.t_m ∧
      0 ≤ r.t0 ∧ r.t0 ≤ r.t1 ∧ r.t1 ≤ 1 := by
  unfold findSelfIntersection find_self_intersection_point at h
  dsimp only at h
  split at h
  · rcases in_loop_cases clip_ onLL onFuel w1 w2 w3 w4 acc fuel (section_new (0.0 : K) (1.0 : K)) with hf | ⟨d, hd, ht, hiff⟩
    · exact absurd (hf.symm.trans h) hF
    · obtain ⟨a, b, c⟩ := desc_range hd
      obtain ⟨r1, r2, r3, r4⟩ := terminal_range clip_ w1 w2 w3 w4 d acc b (hclip _ _) r (ht.symm.trans h)
      refine ⟨d, hd, hiff, r1, r2, r3, r4, by linarith, by linarith, by linarith⟩
  · exact absurd h (by simp)

local instance : FSqrt ℚ := ⟨fun x => x⟩
local instance : FConsts ℚ := ⟨10 ^ 308, -10 ^ 308, 10 ^ 400, -10 ^ 400, 1 / 2 ^ 52⟩

/-- THE TWO REPORTED PARAMETERS NAME NEARBY POINTS OF THE CURVE, for whatever notion `Close` of "nearby" the clipper guarantees
    for the pairs it returns (`C02Sound.returned_pairs_are_close` is such a guarantee for the generated clipper) and `is_near_to`
    guarantees for the two far ends: the points of the curve at `t1` and `t2` are `Close`. -/
theorem self_intersection_close (Close : V2 K → V2 K → Prop)
    (clip_ : SectionT K → SectionT K → K → List (T2 K K)) (onLL onFuel : Option (T2 K K)) (fuel : Nat)
    (w1 w2 w3 w4 : V2 K) (acc : K)
    (hclip : ∀ l r, ∀ p ∈ clip_ l r acc, Close (section_point_at_pos w1 w2 w3 w4 l p.t0) (section_point_at_pos w1 w2 w3 w4 r p.t1))
    (hnear : ∀ a b : V2 K, is_near_to a b acc = true → Close a b)
    (r : T2 K K) (h : findSelfIntersection clip_ onLL onFuel fuel w1 w2 w3 w4 acc = some r)
    (hF : onFuel ≠ some r) :
    Close (curve_point_at_pos w1 w2 w3 w4 r.t0) (curve_point_at_pos w1 w2 w3 w4 r.t1) := by
  have e0 : (0.0 : K) = 0 := by norm_num
  have e1 : (1.0 : K) = 1 := by norm_num
  unfold findSelfIntersection find_self_intersection_point at h
  dsimp only at h
  split at h
  · rcases in_loop_cases clip_ onLL onFuel w1 w2 w3 w4 acc fuel (section_new (0.0 : K) (1.0 : K)) with hf | ⟨d, hd, ht, _⟩
    · exact absurd (hf.symm.trans h) hF
    · rcases terminal_some_spec clip_ w1 w2 w3 w4 d acc r (ht.symm.trans h) with ⟨_, hn, hr'⟩ | ⟨p, hp, hr'⟩
      · subst hr'
        have := hnear _ _ hn
        simpa only [section_start_point, section_end_point, e0, e1] using this
      · subst hr'
        exact hclip _ _ p hp
  · exact absurd h (by simp)

/-- the hypotheses are met and the conclusion says something: a stub clipper answering (1/2, 1/2) on the whole curve -/
example : ∀ r : T2 ℚ ℚ, terminal (fun _ _ _ => [T2.mk (1/2) (1/2)]) ⟨0, 0⟩ ⟨0, 0⟩ ⟨0, 0⟩ ⟨0, 0⟩ (section_new (0.0 : ℚ) (1.0 : ℚ)) 0 = some r →
    r.t0 ≤ r.t1 := by
  intro r h
  have := terminal_range (K := ℚ) (fun _ _ _ => [T2.mk (1/2) (1/2)]) ⟨0, 0⟩ ⟨0, 0⟩ ⟨0, 0⟩ ⟨0, 0⟩ (section_new (0.0 : ℚ) (1.0 : ℚ)) 0
    (by norm_num [section_new]) (by intro p hp; simp at hp; subst hp; norm_num) r h
  linarith [this.2.1, this.2.2.1]

/-- ... and that clipper's answer is mapped to (1/4, 3/4): the hypothesis `terminal … = some r` is met -/
example : terminal (K := ℚ) (fun _ _ _ => [T2.mk (1/2) (1/2)]) ⟨0, 0⟩ ⟨0, 0⟩ ⟨0, 0⟩ ⟨0, 0⟩ (section_new (0.0 : ℚ) (1.0 : ℚ)) 0 = some ⟨1/4, 3/4⟩ := by
  simp [terminal, leftOf, rightOf, section_subsection, section_new, section_t_for_t]
  norm_num

end C20Self
