/-
C02 (end to end)  EVERY PAIR `curve_intersects_curve_clip` RETURNS IS A PAIR OF NEARBY POINTS - or the named tiny-section exit.

`C02.results_have_origin` says where a returned pair can come from (convergence exit, overlap shortcut, linear fall-back);
`C02.converged_pair_close`, `C02Overlap.overlap_answer_points_close` and `C02Overlap.linear_fallback_points_close` say that each
origin yields two nearby points.  Here the three are put together for the context whose callees are the GENERATED
`overlapping_region` (over `t_for_point` = generated `solve_curve_for_t_along_axis`) and `intersections_with_linear_section` - so the
statement is about the whole generated function, with only the two external root solvers left as (arbitrary) parameters.
-/
import FloVerif.Props.C02
import FloVerif.Props.C02Overlap
import FloVerif.Props.C05

set_option linter.unusedSectionVars false
namespace C02Sound
open Prelude Gen FatLineLemmas ClipExact CurveClipLemmas Model.CurveClip C02Overlap

variable {K : Type} [Field K] [LinearOrder K] [IsStrictOrderedRing K] [Inhabited K] [FSqrt K] [FConsts K] [FSignum K]
local instance : FAbs K := ⟨fun a => |a|⟩
local instance : OfInt K := ⟨fun n => (n : K)⟩

/-- the context of `Model.CurveClip` with the generated callees: `overlapping_region` asked about the cubics of the two sections, the
    linear fall-back in its two roles; the root solvers `sr` (cubic of `curve_intersects_ray`) and `sb` (`solve_basis_for_t`) are arbitrary -/
def genCtx (sr : T4 K K K K → List K) (sb : K → K → K → K → K → List K) (a1 a2 a3 a4 b1 b2 b3 b4 : V2 K) : Ctx K where
  ovl := fun s1 s2 => overlapping_region (tForPoint sb (secCubic a1 a2 a3 a4 s1)) (tForPoint sb (secCubic b1 b2 b3 b4 s2))
    (secCubic a1 a2 a3 a4 s1) (secCubic b1 b2 b3 b4 s2)
  lin12 := fun c1 c2 acc => intersections_with_linear_section sr sb a1 a2 a3 a4 b1 b2 b3 b4 c1 c2 acc
  lin21 := fun c2 c1 acc => intersections_with_linear_section sr sb b1 b2 b3 b4 a1 a2 a3 a4 c2 c1 acc
  a1 := a1
  a2 := a2
  a3 := a3
  a4 := a4
  b1 := b1
  b2 := b2
  b3 := b3
  b4 := b4

/-- the point of a section's cubic (evaluated in the Bernstein basis, as `point_at_pos` does) is the point of the original curve at the
    mapped parameter -/
theorem secCubic_point (w1 w2 w3 w4 : V2 K) (S : SectionT K) (hS : Sub01 S) (u : K) :
    curve_point_at_pos (secCubic w1 w2 w3 w4 S).t0 (secCubic w1 w2 w3 w4 S).t1 (secCubic w1 w2 w3 w4 S).t2 (secCubic w1 w2 w3 w4 S).t3 u
      = curve_point_at_pos w1 w2 w3 w4 (section_t_for_t S u) := by
  have h := sec_point' w1 w2 w3 w4 S hS u
  simp only [secCubic, curve_point_at_pos, C05.basis_eq_de_casteljau4_V2] at h ⊢
  exact h

theorem secCubic_dc4 (w1 w2 w3 w4 : V2 K) (S : SectionT K) (hS : Sub01 S) (u : K) :
    de_casteljau4 u (secCubic w1 w2 w3 w4 S).t0 (secCubic w1 w2 w3 w4 S).t1 (secCubic w1 w2 w3 w4 S).t2 (secCubic w1 w2 w3 w4 S).t3
      = curve_point_at_pos w1 w2 w3 w4 (section_t_for_t S u) :=
  sec_point' w1 w2 w3 w4 S hS u

/-- **SOUNDNESS OF `curve_intersects_curve_clip`, END TO END.**  For all pairs of cubics, every accuracy `≥ 0`, every recursion depth and
    ANY behaviour of the two external root solvers: each pair `(t1, t2)` the generated function returns is

    1. two points `C1(t1)`, `C2(t2)` with squared distance `≤ 12·accuracy²` (the loop's own exit on two sections that are not `is_tiny`), or
    2. the mid-parameters of two final sections one of which is `is_tiny` (parameter length below 0.001: the hull length is defined as 0
       there, so the convergence test says nothing - `C02.convergence_test_tiny_counterexample`), or
    3. two points within `max(accuracy, 0.05)` of each other (overlap shortcut, linear fall-back, short-section rescue).

    Nothing else is ever returned. -/
theorem returned_pairs_are_close (hM : 1 ≤ (fmaxval : K)) (hm : (fminval : K) ≤ 0)
    (sr : T4 K K K K → List K) (sb : K → K → K → K → K → List K) (a1 a2 a3 a4 b1 b2 b3 b4 : V2 K) (acc : K) (hacc : 0 ≤ acc) (d : Nat) :
    ∀ h ∈ clipTop (genCtx sr sb a1 a2 a3 a4 b1 b2 b3 b4) d acc,
      dist2 (curve_point_at_pos a1 a2 a3 a4 h.t0) (curve_point_at_pos b1 b2 b3 b4 h.t1) ≤ 12 * (acc * acc) ∨
      (∃ F1 F2 : SectionT K, h = T2.mk (midT F1) (midT F2) ∧ (section_is_tiny F1 = true ∨ section_is_tiny F2 = true)) ∨
      Within (max acc (0.05 : K)) (curve_point_at_pos a1 a2 a3 a4 h.t0) (curve_point_at_pos b1 b2 b3 b4 h.t1) := by
  intro h hh
  set cx := genCtx sr sb a1 a2 a3 a4 b1 b2 b3 b4 with hcx
  have hcd : (CLOSE_DISTANCE : K) = 0.01 := rfl
  have hce : (CLOSE_ENOUGH : K) = 0.05 := by unfold CLOSE_ENOUGH SMALL_DISTANCE; norm_num
  have h05 : (0 : K) ≤ 0.05 := by norm_num
  have hmax0 : (0 : K) ≤ max acc (0.05 : K) := le_max_of_le_right h05
  have ho := C02.results_have_origin cx acc hM hm d h hh
  cases ho with
  | converged F1 F2 s1 s2 l1 l2 hov =>
    by_cases t1 : section_is_tiny F1 = true
    · exact Or.inr (Or.inl ⟨F1, F2, rfl, Or.inl t1⟩)
    by_cases t2 : section_is_tiny F2 = true
    · exact Or.inr (Or.inl ⟨F1, F2, rfl, Or.inr t2⟩)
    left
    exact C02.converged_pair_close cx F1 F2 s1 s2 (by simpa using t1) (by simpa using t2) (acc * acc) l1 l2 hov
  | overlap o h ho hmem =>
    right; right
    obtain ⟨⟨a, b⟩, ⟨c, e⟩⟩ := o
    have hclose := overlap_answer_points_close sb sb (secCubic a1 a2 a3 a4 (section_new (0.0 : K) (1.0 : K)))
      (secCubic b1 b2 b3 b4 (section_new (0.0 : K) (1.0 : K))) a b c e ho
    rw [secCubic_point _ _ _ _ _ sub01_whole, secCubic_point _ _ _ _ _ sub01_whole,
        secCubic_point _ _ _ _ _ sub01_whole, secCubic_point _ _ _ _ _ sub01_whole] at hclose
    simp only [overlapHits] at hmem
    split_ifs at hmem
    · simp only [List.mem_singleton] at hmem; subst hmem
      exact Within.mono hclose.1 h05 (le_max_right _ _)
    · simp only [List.mem_cons, List.mem_nil_iff, or_false] at hmem
      rcases hmem with rfl | rfl
      · exact Within.mono hclose.1 h05 (le_max_right _ _)
      · exact Within.mono hclose.2.1 h05 (le_max_right _ _)
  | linear12 c1 c2 g s1 s2 _ hg =>
    right; right
    obtain ⟨lt, ct⟩ := g
    obtain ⟨_, _, hc⟩ := linear_fallback_points_close sr sb a1 a2 a3 a4 b1 b2 b3 b4 c1 c2 acc lt ct hacc hg
    rw [secCubic_dc4 _ _ _ _ _ s2] at hc
    rcases hc with hw | ⟨hlt, hnear⟩
    · rw [secCubic_point _ _ _ _ _ s1] at hw
      refine Within.mono hw (le_max_of_le_left hacc) (max_le (le_max_left _ _) (le_trans ?_ (le_max_right _ _)))
      rw [hcd]; norm_num
    · rw [is_near_to_iff, hce] at hnear
      simp only [section_point_at_pos] at hnear
      rw [hlt]
      exact Within.mono (Within.symm hnear) h05 (le_max_right _ _)
  | linear21 c1 c2 g s1 s2 _ hg =>
    right; right
    obtain ⟨lt, ct⟩ := g
    obtain ⟨_, _, hc⟩ := linear_fallback_points_close sr sb b1 b2 b3 b4 a1 a2 a3 a4 c2 c1 acc lt ct hacc hg
    rw [secCubic_dc4 _ _ _ _ _ s1] at hc
    rcases hc with hw | ⟨hlt, hnear⟩
    · rw [secCubic_point _ _ _ _ _ s2] at hw
      refine Within.mono (Within.symm hw) (le_max_of_le_left hacc) (max_le (le_max_left _ _) (le_trans ?_ (le_max_right _ _)))
      rw [hcd]; norm_num
    · rw [is_near_to_iff, hce] at hnear
      simp only [section_point_at_pos] at hnear
      rw [hlt]
      exact Within.mono hnear h05 (le_max_right _ _)

end C02Sound
