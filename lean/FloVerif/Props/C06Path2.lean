/-
C06 (2-D paths)  The bounding box of a 2-D path is the union of its curves' boxes, with the code's own notion of "empty".

`Gen.union_bounds2`, `Gen.box2_is_empty`, `Gen.pb2_from_smallest_components` / `_biggest_components`, `Gen.path_bounding_box2`
and `Gen.path_fast_bounding_box2` are regenerated on every check from bounding_box.rs, coord2.rs and path/bounds.rs at
`Point = Coord2`; the per-curve box is a parameter `boxOf` (the 1-D theorems of `Props/C06.lean` describe it per axis).  In 2-D a box
counts as empty only when its two corners are THE SAME POINT, so a curve that is constant in one coordinate (a vertical or
horizontal line) still takes part in the union - which the per-axis model of `Props/C06Path.lean` cannot say.

Proved for any number of curves: every curve whose box is not a single point has its box inside the path's box, in both coordinates
(`path_bounding_box2_contains`, `path_fast_bounding_box2_contains`); the path's box of a path without curves is the origin box.
-/
import FloVerif.Props.C06
import FloVerif.Gen.PathBounds2

set_option linter.unusedSectionVars false
namespace C06Path2
open Prelude Gen C06

attribute [local instance] C06.instFSqrtReal

abbrev Box := T2 (V2 ℝ) (V2 ℝ)

/-- `==` on points is equality of both coordinates -/
theorem v2_beq (a b : V2 ℝ) : (a == b) = true ↔ a = b := by
  cases a with | mk ax ay => cases b with | mk bx b_y =>
  constructor
  · intro h
    have : (ax == bx && ay == b_y) = true := h
    simp only [Bool.and_eq_true, beq_iff_eq] at this
    rw [this.1, this.2]
  · intro h
    cases h
    show (ax == ax && ay == ay) = true
    simp

/-- corners in order -/
def Wf (b : Box) : Prop := b.t0.x ≤ b.t1.x ∧ b.t0.y ≤ b.t1.y
/-- `a` lies inside `b`, in both coordinates -/
def Sub (a b : Box) : Prop := b.t0.x ≤ a.t0.x ∧ a.t1.x ≤ b.t1.x ∧ b.t0.y ≤ a.t0.y ∧ a.t1.y ≤ b.t1.y
/-- the code's notion of a non-empty box: the corners differ -/
def NonEmpty (b : Box) : Prop := b.t0 ≠ b.t1

/-- the union of two 2-D boxes as the code computes it: a box whose corners coincide counts as empty and is skipped -/
theorem union_bounds2_spec (a b : Box) :
    union_bounds2 a b =
      if a.t0 = a.t1 then b else if b.t0 = b.t1 then a
      else T2.mk ⟨min a.t0.x b.t0.x, min a.t0.y b.t0.y⟩ ⟨max a.t1.x b.t1.x, max a.t1.y b.t1.y⟩ := by
  simp only [union_bounds2, box2_is_empty, pb2_from_smallest_components, pb2_from_biggest_components, smallest_eq_min,
    biggest_eq_max]
  by_cases ha : a.t0 = a.t1
  · rw [if_pos ((v2_beq _ _).2 ha), if_pos ha]
  · have ha' : ¬ (a.t0 == a.t1) = true := fun h => ha ((v2_beq _ _).1 h)
    rw [if_neg ha', if_neg ha]
    by_cases hb : b.t0 = b.t1
    · rw [if_pos ((v2_beq _ _).2 hb), if_pos hb]
    · have hb' : ¬ (b.t0 == b.t1) = true := fun h => hb ((v2_beq _ _).1 h)
      rw [if_neg hb', if_neg hb]

/-- the union of two well-formed non-empty boxes is well-formed, non-empty and contains both -/
theorem union_nonempty (a b : Box) (ha : Wf a) (hb : Wf b) (hna : NonEmpty a) (hnb : NonEmpty b) :
    Wf (union_bounds2 a b) ∧ NonEmpty (union_bounds2 a b) ∧ Sub a (union_bounds2 a b) ∧ Sub b (union_bounds2 a b) := by
  rw [union_bounds2_spec, if_neg hna, if_neg hnb]
  obtain ⟨ax, ay⟩ := ha
  obtain ⟨bx, b_y⟩ := hb
  refine ⟨⟨le_trans (min_le_left _ _) (le_trans ax (le_max_left _ _)), le_trans (min_le_left _ _) (le_trans ay (le_max_left _ _))⟩,
    ?_, ⟨min_le_left _ _, le_max_left _ _, min_le_left _ _, le_max_left _ _⟩,
    ⟨min_le_right _ _, le_max_right _ _, min_le_right _ _, le_max_right _ _⟩⟩
  -- the union is a single point only if `a` is
  intro h
  simp only [V2.mk.injEq] at h
  apply hna
  cases hA : a.t0 with | mk p q => cases hB : a.t1 with | mk r s =>
  rw [hA, hB] at ax ay h
  simp only at ax ay h
  have e1 : p = r := le_antisymm ax (by
    have := le_max_left r b.t1.x; have := min_le_left p b.t0.x; linarith [h.1])
  have e2 : q = s := le_antisymm ay (by
    have := le_max_left s b.t1.y; have := min_le_left q b.t0.y; linarith [h.2])
  rw [e1, e2]

/-- THE FOLD OF `reduce`: the result is well-formed; a non-empty accumulator stays inside it; every non-empty box of the list is
    inside it -/
theorem foldl_union2_contains (l : List Box) (acc : Box) (hacc : Wf acc) (hl : ∀ b ∈ l, Wf b) :
    Wf (l.foldl (fun first second => union_bounds2 first second) acc) ∧
      (NonEmpty acc → NonEmpty (l.foldl (fun first second => union_bounds2 first second) acc) ∧
        Sub acc (l.foldl (fun first second => union_bounds2 first second) acc)) ∧
      (∀ b ∈ l, NonEmpty b → Sub b (l.foldl (fun first second => union_bounds2 first second) acc)) := by
  induction l generalizing acc with
  | nil =>
    simp only [List.foldl_nil, List.not_mem_nil, false_imp_iff, implies_true, and_true]
    exact ⟨hacc, fun h => ⟨h, le_refl _, le_refl _, le_refl _, le_refl _⟩⟩
  | cons x xs ih =>
    have hx : Wf x := hl x List.mem_cons_self
    have hxs : ∀ b ∈ xs, Wf b := fun b hb => hl b (List.mem_cons_of_mem _ hb)
    simp only [List.foldl_cons]
    by_cases ha : acc.t0 = acc.t1
    · -- the accumulator is empty: the union is x
      have hu : union_bounds2 acc x = x := by rw [union_bounds2_spec, if_pos ha]
      rw [hu]
      obtain ⟨h1, h2, h3⟩ := ih x hx hxs
      refine ⟨h1, fun h => absurd ha h, ?_⟩
      intro b hb hne
      rcases List.mem_cons.1 hb with rfl | hb
      · exact (h2 hne).2
      · exact h3 b hb hne
    · by_cases hxe : x.t0 = x.t1
      · have hu : union_bounds2 acc x = acc := by rw [union_bounds2_spec, if_neg ha, if_pos hxe]
        rw [hu]
        obtain ⟨h1, h2, h3⟩ := ih acc hacc hxs
        refine ⟨h1, h2, ?_⟩
        intro b hb hne
        rcases List.mem_cons.1 hb with rfl | hb
        · exact absurd hxe hne
        · exact h3 b hb hne
      · obtain ⟨uw, un, ua, ux⟩ := union_nonempty acc x hacc hx ha hxe
        obtain ⟨h1, h2, h3⟩ := ih (union_bounds2 acc x) uw hxs
        obtain ⟨h2n, h2s⟩ := h2 un
        have trans : ∀ a : Box, Sub a (union_bounds2 acc x) →
            Sub a (List.foldl (fun first second => union_bounds2 first second) (union_bounds2 acc x) xs) := by
          intro a ⟨p, q, r, s⟩
          obtain ⟨p', q', r', s'⟩ := h2s
          exact ⟨le_trans p' p, le_trans q q', le_trans r' r, le_trans s s'⟩
        refine ⟨h1, fun _ => ⟨h2n, trans acc ua⟩, ?_⟩
        intro b hb hne
        rcases List.mem_cons.1 hb with rfl | hb
        · exact trans _ ux
        · exact h3 b hb hne

/-- the generated function is `reduce` over the per-curve boxes; the box of a path without curves is the origin box -/
theorem path_bounding_box2_eq {C : Type} (curves : List C) (boxOf : C → Box) :
    path_bounding_box2 curves boxOf =
      match curves.map boxOf with
      | [] => T2.mk ⟨0, 0⟩ ⟨0, 0⟩
      | b :: bs => bs.foldl (fun first second => union_bounds2 first second) b := by
  simp only [path_bounding_box2, listReduce]
  cases curves.map boxOf <;> simp <;> norm_num

theorem path_fast_bounding_box2_eq {C : Type} (curves : List C) (boxOf : C → Box) :
    path_fast_bounding_box2 curves boxOf = path_bounding_box2 curves boxOf := rfl

/-- THE 2-D PATH BOX CONTAINS THE BOX OF EVERY CURVE THAT IS NOT A SINGLE POINT, in both coordinates, for any number of curves and
    whatever well-formed boxes the curves have (vertical and horizontal lines included: their box is not a point) -/
theorem path_bounding_box2_contains {C : Type} (curves : List C) (boxOf : C → Box) (hwf : ∀ c ∈ curves, Wf (boxOf c))
    (c : C) (hc : c ∈ curves) (hne : NonEmpty (boxOf c)) : Sub (boxOf c) (path_bounding_box2 curves boxOf) := by
  rw [path_bounding_box2_eq]
  cases curves with
  | nil => simp at hc
  | cons x xs =>
    simp only [List.map_cons]
    have hall : ∀ y ∈ List.map boxOf xs, Wf y := by
      intro y hy; obtain ⟨z, hz, rfl⟩ := List.mem_map.1 hy; exact hwf z (List.mem_cons_of_mem _ hz)
    obtain ⟨_, h2, h3⟩ := foldl_union2_contains (List.map boxOf xs) (boxOf x) (hwf x List.mem_cons_self) hall
    rcases List.mem_cons.1 hc with rfl | hc
    · exact (h2 hne).2
    · exact h3 _ (List.mem_map.2 ⟨c, hc, rfl⟩) hne

theorem path_fast_bounding_box2_contains {C : Type} (curves : List C) (boxOf : C → Box) (hwf : ∀ c ∈ curves, Wf (boxOf c))
    (c : C) (hc : c ∈ curves) (hne : NonEmpty (boxOf c)) : Sub (boxOf c) (path_fast_bounding_box2 curves boxOf) := by
  rw [path_fast_bounding_box2_eq]; exact path_bounding_box2_contains curves boxOf hwf c hc hne

/-- non-vacuity: a vertical line x = 3 (box (3,0)-(3,5): empty in the x coordinate, NOT empty as a 2-D box) and a point box: the path's
    box is the line's box -/
example : path_bounding_box2 [0, 1] (fun i : Nat => if i = 0 then (T2.mk ⟨7, 7⟩ ⟨7, 7⟩ : Box) else T2.mk ⟨3, 0⟩ ⟨3, 5⟩) =
    T2.mk ⟨3, 0⟩ ⟨3, 5⟩ := by
  rw [path_bounding_box2_eq]
  simp [union_bounds2_spec]

end C06Path2
