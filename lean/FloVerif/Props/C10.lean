/-
C10  Regular offsets follow the true parallel curve.

Everything in `Gen/Offset.lean` is regenerated from the Rust source on every check:
`offset_lms_sampling` (offset_lms.rs, whole function, with `features_for_curve`, `fit_curve_cubic` and the two offset closures as
parameters), `offset` (offset.rs), `offset_sections` / `offset_lms_sample_ts` (the first statement(s) of `offset_scaling` /
`offset_lms_sampling`: section list, sample parameters), `offset_scaling` (whole function, `subdivide_offset` as a parameter),
`subdivide_offset_body` (the whole body of the private recursive `subdivide_offset`, recursive calls through a parameter),
`offset_by_scaling`, `offset_by_moving`, `to_unit_vector` (coordinate.rs); `tangent_at_pos`, `normal_at_pos`, `to_normal` (normal.rs) are the
definitions of `Gen/PointInPath.lean` (same source, translated there).  `Model.Offset.subdivideOffset` ties the recursion knot with fuel.

Numbers: any ordered field `K`; `f64::abs` is `|·|`; `n as f64` is the cast; `f64::sqrt` is an abstract function with the
hypothesis `SqrtSpec` (`0 ≤ sqrt x` and `sqrt x * sqrt x = x` for `0 ≤ x`), instantiated with `Real.sqrt` in the examples;
`f64::EPSILON` is an abstract constant `feps` (hypotheses `0 < feps < 1` where needed).

The 1.5-unit distance to the parallel curve is numerical (least squares / scaling heuristics): no theorem; see harness/src/c10.rs.
-/
import FloVerif.Gen.Offset
import FloVerif.Model.Offset
import FloVerif.Lemmas.Offset
import FloVerif.Props.C08
import Mathlib.Tactic.Ring
import Mathlib.Tactic.NormNum.OfScientific
import Mathlib.Tactic.FieldSimp
import Mathlib.Tactic.Linarith
import Mathlib.Tactic.LinearCombination
import Mathlib.Algebra.Order.Field.Basic
import Mathlib.Analysis.Real.Sqrt

set_option linter.unusedSectionVars false
namespace C10
open Prelude Gen Model.Offset

variable {K : Type} [Field K] [LinearOrder K] [IsStrictOrderedRing K] [Inhabited K]

/-- in exact arithmetic `f64::abs` is the absolute value -/
local instance : FAbs K := ⟨fun a => |a|⟩
/-- `n as f64` -/
local instance : OfInt K := ⟨fun n => (n : K)⟩

variable [FSqrt K] [FConsts K]

/-- the literal `0.0` -/
theorem lit0 : (0.0 : K) = 0 := by norm_num
/-- the literal `1.0` -/
theorem lit1 : (1.0 : K) = 1 := by norm_num

/-! ### (1) the section list (shared, as duplicated code, by `offset_lms_sampling` and `offset_scaling`) -/

/-- the snapping `if t > 0.9999 { 1.0 } else if t < 0.0001 { 0.0 } else { t }` lands in [0,1] WHATEVER `t` is -/
theorem snap_range (t : K) :
    0 ≤ (if t > (0.9999 : K) then (1.0 : K) else if t < (0.0001 : K) then (0.0 : K) else t) ∧
    (if t > (0.9999 : K) then (1.0 : K) else if t < (0.0001 : K) then (0.0 : K) else t) ≤ 1 := by
  split_ifs with h1 h2
  · norm_num
  · norm_num
  · have a : (0.0001 : K) ≤ t := not_lt.1 h2
    have b : t ≤ (0.9999 : K) := not_lt.1 h1
    constructor
    · exact le_trans (by norm_num) a
    · exact le_trans b (by norm_num)

/-- THE SECTIONS TILE [0,1], FOR EVERY FEATURE CLASS AND EVERY FEATURE PARAMETER (inside (0,1) or not: the snapping takes care of
    it): the first section starts at 0, each starts where the previous one ends, the last ends at 1; every section runs forwards
    inside [0,1].  (`Tiles` is defined by recursion in `Lemmas/Offset.lean`; `sections_chain` restates it with `head?`,
    `getLast?`, `IsChain`.) -/
theorem sections_tile (features_for_curve : K → CurveFeatures K) :
    Tiles 0 1 (offset_sections features_for_curve) ∧
    ∀ s ∈ offset_sections features_for_curve, 0 ≤ s.t0 ∧ s.t0 ≤ s.t1 ∧ s.t1 ≤ 1 := by
  unfold offset_sections
  simp only [decide_eq_true_eq, Bool.and_eq_true]
  cases features_for_curve (0.01 : K) with
  | DoubleInflectionPoint t1 t2 =>
    simp only
    have h1 := snap_range t1
    have h2 := snap_range t2
    generalize (if t1 > (0.9999 : K) then (1.0 : K) else if t1 < (0.0001 : K) then (0.0 : K) else t1) = a at h1
    generalize (if t2 > (0.9999 : K) then (1.0 : K) else if t2 < (0.0001 : K) then (0.0 : K) else t2) = b at h2
    split_ifs with h
    · refine ⟨⟨lit0, rfl, rfl, lit1⟩, ?_⟩
      intro s hs
      simp only [List.mem_cons, List.not_mem_nil, or_false] at hs
      rcases hs with rfl | rfl | rfl <;> simp only [lit0, lit1] <;> refine ⟨?_, ?_, ?_⟩ <;> linarith [h1.1, h1.2, h2.1, h2.2, le_of_lt h]
    · have h' : b ≤ a := not_lt.1 h
      refine ⟨⟨lit0, rfl, rfl, lit1⟩, ?_⟩
      intro s hs
      simp only [List.mem_cons, List.not_mem_nil, or_false] at hs
      rcases hs with rfl | rfl | rfl <;> simp only [lit0, lit1] <;> refine ⟨?_, ?_, ?_⟩ <;> linarith [h1.1, h1.2, h2.1, h2.2]
  | Loop t1 t3 =>
    simp only
    have h1 := snap_range t1
    have h3 := snap_range t3
    generalize (if t1 > (0.9999 : K) then (1.0 : K) else if t1 < (0.0001 : K) then (0.0 : K) else t1) = a at h1
    generalize (if t3 > (0.9999 : K) then (1.0 : K) else if t3 < (0.0001 : K) then (0.0 : K) else t3) = c at h3
    have h2 : ((2.0 : K)) = 2 := by norm_num
    split_ifs with h
    · refine ⟨⟨lit0, rfl, rfl, rfl, lit1⟩, ?_⟩
      intro s hs
      simp only [List.mem_cons, List.not_mem_nil, or_false] at hs
      rcases hs with rfl | rfl | rfl | rfl <;> simp only [lit0, lit1, h2] <;> refine ⟨?_, ?_, ?_⟩ <;>
        linarith [h1.1, h1.2, h3.1, h3.2, le_of_lt h]
    · have h' : c ≤ a := not_lt.1 h
      refine ⟨⟨lit0, rfl, rfl, rfl, lit1⟩, ?_⟩
      intro s hs
      simp only [List.mem_cons, List.not_mem_nil, or_false] at hs
      rcases hs with rfl | rfl | rfl | rfl <;> simp only [lit0, lit1, h2] <;> refine ⟨?_, ?_, ?_⟩ <;>
        linarith [h1.1, h1.2, h3.1, h3.2]
  | SingleInflectionPoint t =>
    simp only
    split_ifs with h
    · refine ⟨⟨lit0, rfl, lit1⟩, ?_⟩
      intro s hs
      have ha : (0 : K) ≤ t := le_trans (by norm_num) (le_of_lt h.1)
      have hb : t ≤ 1 := le_trans (le_of_lt h.2) (by norm_num)
      simp only [List.mem_cons, List.not_mem_nil, or_false] at hs
      rcases hs with rfl | rfl <;> simp only [lit0, lit1] <;> refine ⟨?_, ?_, ?_⟩ <;> linarith
    · refine ⟨⟨lit0, lit1⟩, ?_⟩
      intro s hs
      simp only [List.mem_cons, List.not_mem_nil, or_false] at hs
      subst hs; simp only [lit0, lit1]; norm_num
  | _ =>
    refine ⟨⟨lit0, lit1⟩, ?_⟩
    intro s hs
    simp only [List.mem_cons, List.not_mem_nil, or_false] at hs
    subst hs; simp only [lit0, lit1]; norm_num

/-- the sections that survive `.filter(|(t1, t2)| t1 != t2)` -/
def keptSections (features_for_curve : K → CurveFeatures K) : List (T2 K K) :=
  (offset_sections features_for_curve).filter (fun s => s.t0 != s.t1)

/-- AFTER THE FILTER the sections still tile [0,1], there is at least one and at most four, and each has `t0 < t1`, `0 ≤ t0`, `t1 ≤ 1` -/
theorem kept_sections_tile (features_for_curve : K → CurveFeatures K) :
    Tiles 0 1 (keptSections features_for_curve) ∧ keptSections features_for_curve ≠ [] ∧
    (keptSections features_for_curve).length ≤ 4 ∧
    ∀ s ∈ keptSections features_for_curve, 0 ≤ s.t0 ∧ s.t0 < s.t1 ∧ s.t1 ≤ 1 := by
  obtain ⟨ht, hr⟩ := sections_tile features_for_curve
  have hk : Tiles 0 1 (keptSections features_for_curve) := ht.filter_ne
  refine ⟨hk, hk.ne_nil (by norm_num), ?_, ?_⟩
  · refine le_trans (List.length_filter_le _ _) ?_
    unfold offset_sections
    cases features_for_curve (0.01 : K) <;> simp only <;> (try split_ifs) <;> simp
  · intro s hs
    simp only [keptSections, List.mem_filter, bne_iff_ne, ne_eq] at hs
    obtain ⟨h0, h1, h2⟩ := hr s hs.1
    exact ⟨h0, lt_of_le_of_ne h1 hs.2, h2⟩

/-- the same with `head?` / `getLast?` / Mathlib's `IsChain`: a non-empty list whose first section starts at 0, whose last section
    ends at 1, and in which consecutive sections share their boundary -/
theorem kept_sections_chain (features_for_curve : K → CurveFeatures K) :
    C08.ChainFromTo T2.t0 T2.t1 (some 0) (some 1) (keptSections features_for_curve) :=
  (kept_sections_tile features_for_curve).1.chainFromTo (kept_sections_tile features_for_curve).2.1

/-- non-vacuity: an inflection at 1/2 gives two sections; an inflection pair snapped onto the ends gives one -/
example : keptSections (fun _ => (CurveFeatures.SingleInflectionPoint (1/2) : CurveFeatures ℚ)) = [⟨0, 1/2⟩, ⟨1/2, 1⟩] := by
  decide +kernel
example : keptSections (fun _ => (CurveFeatures.DoubleInflectionPoint 0.00005 1.7 : CurveFeatures ℚ)) = [⟨0, 1⟩] := by
  decide +kernel
example : keptSections (fun _ => (CurveFeatures.Loop (3/4) (1/4) : CurveFeatures ℚ)) = [⟨0, 1/4⟩, ⟨1/4, 1/2⟩, ⟨1/2, 3/4⟩, ⟨3/4, 1⟩] := by
  decide +kernel

/-! ### (2) the sample parameters of `offset_lms_sampling` -/

/-- WHAT `offset_lms_sampling` SAMPLES: `None` below two subdivisions; otherwise, for every kept section `(t1, t2)` the parameters
    `t1 + (t2 - t1)/n * x`, `x = 0 … n-1`, and a final `1.0` (`sampleTs`, `Lemmas/Offset.lean`) -/
theorem sample_ts_eq (features_for_curve : K → CurveFeatures K) (n : Nat) :
    offset_lms_sample_ts features_for_curve n =
      if n < 2 then none else some (sampleTs (keptSections features_for_curve) n) := by
  unfold offset_lms_sample_ts
  by_cases h : n < 2
  · rw [if_pos (by simpa using h), if_pos h]
  · rw [if_neg (by simpa using h), if_neg h]
    unfold sampleTs keptSections
    dsimp only
    congr 1
    have e1 : [(1.0 : K)] = [1] := by rw [lit1]
    refine congrArg₂ (· ++ ·) (congrArg₂ List.flatMap ?_ rfl) e1
    funext s
    simp only [sectionTs, ofInt, Nat.sub_zero, Int.cast_natCast, Int.ofNat_eq_natCast]

/-- THE SAMPLE PARAMETERS for `n ≥ 2` subdivisions: strictly increasing, the first EXACTLY 0 (the start of the first section), the last
    EXACTLY 1 (the chained `iter::once(1.0)`), all in [0,1], `n` per kept section plus one (so between `n+1` and `4n+1`) -/
theorem sample_ts_spec (features_for_curve : K → CurveFeatures K) (n : Nat) (hn : 2 ≤ n) :
    ∃ ts, offset_lms_sample_ts features_for_curve n = some ts ∧
      ts.Pairwise (· < ·) ∧ ts.head? = some 0 ∧ ts.getLast? = some 1 ∧ (∀ t ∈ ts, 0 ≤ t ∧ t ≤ 1) ∧
      ts.length = n * (keptSections features_for_curve).length + 1 ∧ n + 1 ≤ ts.length ∧ ts.length ≤ 4 * n + 1 := by
  obtain ⟨ht, hne, hlen, hr⟩ := kept_sections_tile features_for_curve
  refine ⟨_, by rw [sample_ts_eq, if_neg (by omega)], ?_⟩
  obtain ⟨h1, h2, h3, h4, h5⟩ := sampleTs_spec n (by omega) _ ht (fun s hs => (hr s hs).2.1)
  refine ⟨h1, h2, h3, h4, h5, ?_, ?_⟩
  · have : 1 ≤ (keptSections features_for_curve).length := List.length_pos_iff.2 hne
    rw [h5]; nlinarith
  · rw [h5]; nlinarith

/-- fewer than two subdivisions: no samples, `offset_lms_sampling` returns `None` -/
theorem sample_ts_none_iff (features_for_curve : K → CurveFeatures K) (n : Nat) :
    offset_lms_sample_ts features_for_curve n = none ↔ n < 2 := by
  rw [sample_ts_eq]; split <;> simp_all

/-! ### (3) normals (normal.rs) and unit vectors (coordinate.rs) -/

/-- rotation by +90° -/
def rot90 (v : V2 K) : V2 K := ⟨-v.y, v.x⟩

/-- the derivative control points `derivative4` computes -/
def dcp (w1 w2 w3 w4 : V2 K) : T3 (V2 K) (V2 K) (V2 K) := derivative4 w1 w2 w3 w4

/-- the hodograph: `de_casteljau3` on the derivative control points, i.e. `C'(t)` (see `hodograph_is_derivative`) -/
def hodograph (w1 w2 w3 w4 : V2 K) (t : K) : V2 K :=
  de_casteljau3 t (dcp w1 w2 w3 w4).t0 (dcp w1 w2 w3 w4).t1 (dcp w1 w2 w3 w4).t2

/-- the parameter at which `tangent_at_pos` / `normal_at_pos` really evaluate: `0.0` is replaced by `f64::EPSILON`, `1.0` by
    `1.0 - f64::EPSILON` (normal.rs:93-94, :113-114), everything else is kept -/
def nudged (t : K) : K :=
  let t := if t == (0.0 : K) then (feps : K) else t
  if t == (1.0 : K) then (1.0 : K) - (feps : K) else t

/-- `tangent_at_pos(t)` is the hodograph at the nudged parameter, for every `t` -/
theorem tangent_at_pos_eq (w1 w2 w3 w4 : V2 K) (t : K) :
    tangent_at_pos w1 w2 w3 w4 t = hodograph w1 w2 w3 w4 (nudged t) := rfl

/-- THE 2-D NORMAL IS THE TANGENT ROTATED BY 90°: `normal_at_pos(t) = (-tangent.y, tangent.x)` of `tangent_at_pos(t)`, for every curve
    and every `t` (including the nudged ends) -/
theorem normal_at_pos_eq (w1 w2 w3 w4 : V2 K) (t : K) :
    normal_at_pos w1 w2 w3 w4 t = rot90 (tangent_at_pos w1 w2 w3 w4 t) := rfl

/-- parameters other than the ends are kept -/
theorem nudged_interior (t : K) (h0 : t ≠ 0) (h1 : t ≠ 1) : nudged t = t := by
  simp only [nudged, lit0, lit1, beq_iff_eq, if_neg h0, if_neg h1]

/-- `0.0` becomes `f64::EPSILON` (if `ε ≠ 1`, otherwise the second test would move it again) -/
theorem nudged_zero (h : (feps : K) ≠ 1) : nudged (0 : K) = feps := by
  simp only [nudged, lit0, lit1, beq_iff_eq, if_true, if_neg h]

/-- `1.0` becomes `1.0 − f64::EPSILON` -/
theorem nudged_one : nudged (1 : K) = 1 - feps := by
  simp only [nudged, lit0, lit1, beq_iff_eq, one_ne_zero, if_false, if_true]

/-- the hodograph written out: `3[(1-t)²(w2-w1) + 2t(1-t)(w3-w2) + t²(w4-w3)]` -/
theorem hodograph_eq (w1 w2 w3 w4 : V2 K) (t : K) :
    hodograph w1 w2 w3 w4 t =
      (w2 - w1) * (3 * (1 - t) * (1 - t)) + (w3 - w2) * (6 * t * (1 - t)) + (w4 - w3) * (3 * t * t) := by
  apply V2.ext' <;>
    simp only [hodograph, dcp, derivative4, de_casteljau3, de_casteljau2, V2.add_x, V2.add_y, V2.sub_x, V2.sub_y, V2.mul_x, V2.mul_y] <;>
    norm_num <;> ring

/-- THE HODOGRAPH IS THE DERIVATIVE of `point_at_pos`, algebraically: `C(s) − C(t) = (s−t)·C'(t) + (s−t)²·R` with an explicit
    polynomial remainder (stated per coordinate on the Bernstein form `basis`) -/
theorem hodograph_is_derivative (a b c d s t : K) :
    basis s a b c d - basis t a b c d =
      (s - t) * ((b - a) * (3 * (1 - t) * (1 - t)) + (c - b) * (6 * t * (1 - t)) + (d - c) * (3 * t * t)) +
      (s - t) * (s - t) * (3 * (a - 2 * b + c) * (1 - t) + 3 * (b - 2 * c + d) * t + (d - 3 * c + 3 * b - a) * (s - t)) := by
  simp only [basis]; norm_num; ring

/-- BY HOW MUCH THE NUDGE MOVES THE TANGENT: `tangent_at_pos(0.0) − C'(0) = 2ε(d2−d1) + ε²(d1−2d2+d3)` with `d_i` the derivative
    control points `3(w_{i+1} − w_i)`; exact, for every curve -/
theorem tangent_nudge_zero (w1 w2 w3 w4 : V2 K) (h : (feps : K) ≠ 1) :
    tangent_at_pos w1 w2 w3 w4 0 - (w2 - w1) * (3 : K) =
      ((w3 - w2) * (3 : K) - (w2 - w1) * (3 : K)) * (2 * feps : K) + ((w2 - w1) * (3 : K) - (w3 - w2) * (6 : K) + (w4 - w3) * (3 : K)) * (feps * feps : K) := by
  rw [tangent_at_pos_eq, nudged_zero h, hodograph_eq]
  apply V2.ext' <;> simp only [V2.add_x, V2.add_y, V2.sub_x, V2.sub_y, V2.mul_x, V2.mul_y] <;> ring

/-- the same at the far end: `tangent_at_pos(1.0) − C'(1) = −2ε(d3−d2) + ε²(d1−2d2+d3)` -/
theorem tangent_nudge_one (w1 w2 w3 w4 : V2 K) :
    tangent_at_pos w1 w2 w3 w4 1 - (w4 - w3) * (3 : K) =
      ((w3 - w2) * (3 : K) - (w4 - w3) * (3 : K)) * (2 * feps : K) + ((w2 - w1) * (3 : K) - (w3 - w2) * (6 : K) + (w4 - w3) * (3 : K)) * (feps * feps : K) := by
  rw [tangent_at_pos_eq, nudged_one, hodograph_eq]
  apply V2.ext' <;> simp only [V2.add_x, V2.add_y, V2.sub_x, V2.sub_y, V2.mul_x, V2.mul_y] <;> ring

/-- cross product -/
def cross (a b : V2 K) : K := a.x * b.y - a.y * b.x

/-- THE ANGLE OF THE NUDGE, exactly: `C'(0) × tangent_at_pos(0.0) = ε·(2(1−ε)·d1×d2 + ε·d1×d3)`; divided by the two lengths this is the
    sine of the angle between the true end tangent and the one the code uses -/
theorem tangent_nudge_zero_cross (w1 w2 w3 w4 : V2 K) (h : (feps : K) ≠ 1) :
    cross ((w2 - w1) * (3 : K)) (tangent_at_pos w1 w2 w3 w4 0) =
      feps * (2 * (1 - feps) * cross ((w2 - w1) * (3 : K)) ((w3 - w2) * (3 : K)) + feps * cross ((w2 - w1) * (3 : K)) ((w4 - w3) * (3 : K))) := by
  rw [tangent_at_pos_eq, nudged_zero h, hodograph_eq]
  simp only [cross, V2.add_x, V2.add_y, V2.sub_x, V2.sub_y, V2.mul_x, V2.mul_y]; ring

/-- THE ZERO-TANGENT FALLBACK AT THE START: if `w1 = w2` (so `C'(0) = 0`) `tangent_at_pos(0.0)` is `ε·(6(1−ε)(w3−w2) + 3ε(w4−w3))`:
    the direction towards the next distinct control point, which is the limit direction of the curve at 0 -/
theorem tangent_at_zero_of_coincident (w1 w3 w4 : V2 K) (h : (feps : K) ≠ 1) :
    tangent_at_pos w1 w1 w3 w4 0 = ((w3 - w1) * (6 * (1 - feps) : K) + (w4 - w3) * (3 * feps : K)) * (feps : K) := by
  rw [tangent_at_pos_eq, nudged_zero h, hodograph_eq]
  apply V2.ext' <;> simp only [V2.add_x, V2.add_y, V2.sub_x, V2.sub_y, V2.mul_x, V2.mul_y] <;> ring

/-- perpendicular: the dot product of normal and tangent (as `Coordinate::dot` computes it, starting from 0.0) is 0 -/
theorem normal_perp_tangent (w1 w2 w3 w4 : V2 K) (t : K) :
    dot (normal_at_pos w1 w2 w3 w4 t) (tangent_at_pos w1 w2 w3 w4 t) = (0 : K) := by
  rw [normal_at_pos_eq]
  simp only [dot, rot90, lit0]; ring

/-- same length: `|normal|² = |tangent|²` (and hence the same `magnitude()`) -/
theorem normal_same_length (w1 w2 w3 w4 : V2 K) (t : K) :
    dot (normal_at_pos w1 w2 w3 w4 t) (normal_at_pos w1 w2 w3 w4 t) = (dot (tangent_at_pos w1 w2 w3 w4 t) (tangent_at_pos w1 w2 w3 w4 t) : K) ∧
    magnitude (normal_at_pos w1 w2 w3 w4 t) = magnitude (tangent_at_pos w1 w2 w3 w4 t) := by
  have h : dot (normal_at_pos w1 w2 w3 w4 t) (normal_at_pos w1 w2 w3 w4 t) = (dot (tangent_at_pos w1 w2 w3 w4 t) (tangent_at_pos w1 w2 w3 w4 t) : K) := by
    rw [normal_at_pos_eq]; simp only [dot, rot90, lit0]; ring
  exact ⟨h, by simp only [magnitude, h]⟩

/-- what is assumed of `f64::sqrt` in exact arithmetic: the non-negative square root of non-negative numbers -/
def SqrtSpec (K : Type) [Field K] [LinearOrder K] [FSqrt K] : Prop :=
  ∀ x : K, 0 ≤ x → 0 ≤ fsqrt x ∧ fsqrt x * fsqrt x = x

/-- `magnitude()` is the square root of `x² + y²` (the `0.0 +` of the dot-product loop is exact) -/
theorem magnitude_eq (v : V2 K) : magnitude v = fsqrt (v.x * v.x + v.y * v.y) := by
  simp only [magnitude, dot, lit0, zero_add]

/-- `x² + y² ≥ 0` -/
theorem norm_sq_nonneg (v : V2 K) : 0 ≤ v.x * v.x + v.y * v.y := add_nonneg (mul_self_nonneg _) (mul_self_nonneg _)

/-- `|v| ≥ 0` and `|v|² = x² + y²` -/
theorem magnitude_sq (hs : SqrtSpec K) (v : V2 K) : 0 ≤ magnitude v ∧ magnitude v * magnitude v = v.x * v.x + v.y * v.y := by
  rw [magnitude_eq]; exact hs _ (norm_sq_nonneg v)

/-- only the zero vector has magnitude 0 -/
theorem magnitude_eq_zero_iff (hs : SqrtSpec K) (v : V2 K) : magnitude v = 0 ↔ v = ⟨0, 0⟩ := by
  obtain ⟨_, h2⟩ := magnitude_sq hs v
  constructor
  · intro h
    rw [h, mul_zero] at h2
    have hx : v.x * v.x = 0 := by nlinarith [mul_self_nonneg v.x, mul_self_nonneg v.y]
    have hy : v.y * v.y = 0 := by nlinarith [mul_self_nonneg v.x, mul_self_nonneg v.y]
    exact V2.ext' (mul_self_eq_zero.1 hx) (mul_self_eq_zero.1 hy)
  · intro h
    rw [h] at h2
    simp only [mul_zero, add_zero] at h2
    rw [h]; exact mul_self_eq_zero.1 h2

/-- THE ZERO GUARD OF `to_unit_vector`: the zero vector is mapped to the origin (this is the `magnitude == 0.0` branch; the division
    is never `0/0`) -/
theorem to_unit_vector_zero (hs : SqrtSpec K) : to_unit_vector (⟨0, 0⟩ : V2 K) = ⟨0, 0⟩ := by
  have : magnitude (⟨0, 0⟩ : V2 K) = 0 := (magnitude_eq_zero_iff hs _).2 rfl
  simp only [to_unit_vector, this, lit0, beq_self_eq_true, if_true, coord2_origin]

/-- A NON-ZERO VECTOR IS DIVIDED BY ITS LENGTH: the result is `v·(1/|v|)` with `|v| > 0`, and has length exactly 1 -/
theorem to_unit_vector_spec (hs : SqrtSpec K) (v : V2 K) (hv : v ≠ ⟨0, 0⟩) :
    0 < magnitude v ∧ to_unit_vector v = v * (1 / magnitude v) ∧
    (to_unit_vector v).x * (to_unit_vector v).x + (to_unit_vector v).y * (to_unit_vector v).y = 1 := by
  obtain ⟨h1, h2⟩ := magnitude_sq hs v
  have hne : magnitude v ≠ 0 := fun e => hv ((magnitude_eq_zero_iff hs v).1 e)
  have hpos : 0 < magnitude v := lt_of_le_of_ne h1 (Ne.symm hne)
  have hu : to_unit_vector v = v * (1 / magnitude v) := by
    simp only [to_unit_vector, lit0, lit1, beq_iff_eq, if_neg hne]
  refine ⟨hpos, hu, ?_⟩
  rw [hu]
  simp only [V2.mul_x, V2.mul_y]
  field_simp
  linarith [h2]

/-- the unit normal used by `offset_lms_sampling` (`to_normal` of the unit tangent) and by `subdivide_offset` (`to_unit_vector` of the
    normal) are the same vector: rotation commutes with normalisation -/
theorem unit_normal_comm (v : V2 K) : to_unit_vector (rot90 v) = rot90 (to_unit_vector v) := by
  have hm : magnitude (rot90 v) = magnitude v := by
    simp only [magnitude_eq, rot90]; congr 1; ring
  simp only [to_unit_vector, hm, lit1, lit0]
  split
  · simp only [coord2_origin, rot90, lit0, neg_zero]
  · apply V2.ext' <;> simp only [rot90, V2.mul_x, V2.mul_y] <;> ring

/-- UNIT NORMAL: for a non-zero tangent the unit normal has length 1 and is perpendicular to the tangent -/
theorem unit_normal_spec (hs : SqrtSpec K) (w1 w2 w3 w4 : V2 K) (t : K) (hT : tangent_at_pos w1 w2 w3 w4 t ≠ ⟨0, 0⟩) :
    let n := to_unit_vector (normal_at_pos w1 w2 w3 w4 t)
    n.x * n.x + n.y * n.y = 1 ∧ n.x * (tangent_at_pos w1 w2 w3 w4 t).x + n.y * (tangent_at_pos w1 w2 w3 w4 t).y = 0 ∧
    n = rot90 (to_unit_vector (tangent_at_pos w1 w2 w3 w4 t)) := by
  intro n
  have hn : n = rot90 (to_unit_vector (tangent_at_pos w1 w2 w3 w4 t)) := by
    show to_unit_vector (normal_at_pos w1 w2 w3 w4 t) = _
    rw [normal_at_pos_eq, unit_normal_comm]
  obtain ⟨_, hu, h1⟩ := to_unit_vector_spec hs _ hT
  refine ⟨?_, ?_, hn⟩
  · rw [hn]; simp only [rot90]; linarith [h1]
  · rw [hn, hu]; simp only [rot90, V2.mul_x, V2.mul_y]; ring

/-! ### (4) `offset_lms_sampling` / `offset`: the chain and its end points -/

/-- the unit tangent the code takes at parameter `t` (evaluated at the nudged parameter) -/
def unitTangent (w1 w2 w3 w4 : V2 K) (t : K) : V2 K := to_unit_vector (tangent_at_pos w1 w2 w3 w4 t)

/-- THE SAMPLE at parameter `t`: `C(t) + n̂(t)·normal_offset(t) + t̂(t)·tangent_offset(t)`, `n̂ = rot90 t̂` (offset_lms.rs:80-89) -/
def samplePoint (w1 w2 w3 w4 : V2 K) (nof tof : K → K) (t : K) : V2 K :=
  curve_point_at_pos w1 w2 w3 w4 t + rot90 (unitTangent w1 w2 w3 w4 t) * nof t + unitTangent w1 w2 w3 w4 t * tof t

/-- `offset_lms_sampling` IS THE FITTER APPLIED TO THE SAMPLES at the sample parameters of (2), with the unit end tangents of the source
    curve (the end one reversed): nothing else happens in the function -/
theorem offset_lms_sampling_eq {C : Type} (features_for_curve : K → CurveFeatures K) (fcc : List (V2 K) → V2 K → V2 K → K → List C)
    (w1 w2 w3 w4 : V2 K) (nof tof : K → K) (n : Nat) (e : K) :
    offset_lms_sampling features_for_curve fcc w1 w2 w3 w4 nof tof n e =
      (offset_lms_sample_ts features_for_curve n).map (fun ts =>
        fcc (ts.map (samplePoint w1 w2 w3 w4 nof tof)) (unitTangent w1 w2 w3 w4 (0.0 : K)) (unitTangent w1 w2 w3 w4 (1.0 : K) * (-(1.0 : K))) e) := by
  unfold offset_lms_sampling offset_lms_sample_ts
  by_cases h : n < 2
  · rw [if_pos (by simpa using h), if_pos (by simpa using h)]; rfl
  · rw [if_neg (by simpa using h), if_neg (by simpa using h)]; rfl

/-- THE OFFSET CHAIN OF `offset_lms_sampling`, for every curve, every feature class, every pair of offset functions, every `n ≥ 2` and
    every fitter that meets the contract of C08 (`C08.FitsChain`: a non-empty connected chain from the first to the last point it is given,
    cf. `C08.fit_curve_chain`, `C08.fitCubic_chain`): the result is `Some` non-empty connected chain which STARTS EXACTLY AT THE SAMPLE AT
    PARAMETER 0 AND ENDS EXACTLY AT THE SAMPLE AT PARAMETER 1 -/
theorem offset_lms_chain {C : Type} (startOf endOf : C → V2 K) (features_for_curve : K → CurveFeatures K)
    (fcc : List (V2 K) → V2 K → V2 K → K → List C) (w1 w2 w3 w4 : V2 K) (nof tof : K → K) (n : Nat) (e : K) (hn : 2 ≤ n)
    (hfcc : ∀ (ps : List (V2 K)) (s t : V2 K), 2 ≤ ps.length → C08.FitsChain startOf endOf ps (fcc ps s t e)) :
    ∃ cs, offset_lms_sampling features_for_curve fcc w1 w2 w3 w4 nof tof n e = some cs ∧ cs ≠ [] ∧
      cs.head?.map startOf = some (samplePoint w1 w2 w3 w4 nof tof 0) ∧
      cs.getLast?.map endOf = some (samplePoint w1 w2 w3 w4 nof tof 1) ∧
      cs.IsChain (fun c c' => endOf c = startOf c') := by
  obtain ⟨ts, hts, _, hhead, hlast, _, _, hlen, _⟩ := sample_ts_spec features_for_curve n hn
  rw [offset_lms_sampling_eq, hts]
  refine ⟨_, rfl, ?_⟩
  obtain ⟨h1, h2, h3, h4⟩ := hfcc (ts.map (samplePoint w1 w2 w3 w4 nof tof)) (unitTangent w1 w2 w3 w4 (0.0 : K))
    (unitTangent w1 w2 w3 w4 (1.0 : K) * (-(1.0 : K))) (by rw [List.length_map]; omega)
  refine ⟨h1, ?_, ?_, h4⟩
  · rw [h2, List.head?_map, hhead]; rfl
  · rw [h3, List.getLast?_map, hlast]; rfl

/-- WHERE THE CHAIN STARTS: the sample at parameter 0 is `C(0) = w1` exactly, moved along the unit normal / unit tangent taken at the
    NUDGED parameter `f64::EPSILON` (not at 0): `w1 + rot90(û)·normal_offset(0) + û·tangent_offset(0)`, `û = to_unit_vector(C'(ε))` -/
theorem samplePoint_zero (w1 w2 w3 w4 : V2 K) (nof tof : K → K) (h : (feps : K) ≠ 1) :
    samplePoint w1 w2 w3 w4 nof tof 0 =
      w1 + rot90 (to_unit_vector (hodograph w1 w2 w3 w4 feps)) * nof 0 + to_unit_vector (hodograph w1 w2 w3 w4 feps) * tof 0 := by
  have hp : curve_point_at_pos w1 w2 w3 w4 (0 : K) = w1 := by
    apply V2.ext' <;> simp only [curve_point_at_pos, basis, V2.add_x, V2.add_y, V2.mul_x, V2.mul_y] <;> norm_num
  simp only [samplePoint, unitTangent, tangent_at_pos_eq, nudged_zero h, hp]

/-- WHERE THE CHAIN ENDS: `w4` exactly, moved along the unit normal / tangent taken at `1 − f64::EPSILON` -/
theorem samplePoint_one (w1 w2 w3 w4 : V2 K) (nof tof : K → K) :
    samplePoint w1 w2 w3 w4 nof tof 1 =
      w4 + rot90 (to_unit_vector (hodograph w1 w2 w3 w4 (1 - feps))) * nof 1 + to_unit_vector (hodograph w1 w2 w3 w4 (1 - feps)) * tof 1 := by
  have hp : curve_point_at_pos w1 w2 w3 w4 (1 : K) = w4 := by
    apply V2.ext' <;> simp only [curve_point_at_pos, basis, V2.add_x, V2.add_y, V2.mul_x, V2.mul_y] <;> norm_num
  simp only [samplePoint, unitTangent, tangent_at_pos_eq, nudged_one, hp]

/-- `offset(curve, initial_offset, final_offset)` is `offset_lms_sampling` with 32 subdivisions, fit error 0.1, no tangent offset and the
    linear offset `(final − initial)·t + initial`; it never takes the `unwrap_or_else` fallback (32 ≥ 2) -/
theorem offset_eq {C : Type} (features_for_curve : K → CurveFeatures K) (fcc : List (V2 K) → V2 K → V2 K → K → List C)
    (w1 w2 w3 w4 : V2 K) (d0 d1 : K) :
    some (offset features_for_curve fcc w1 w2 w3 w4 d0 d1) =
      offset_lms_sampling features_for_curve fcc w1 w2 w3 w4 (fun t => (d1 - d0) * t + d0) (fun _ => (0.0 : K)) 32 (0.1 : K) := by
  unfold offset
  obtain ⟨ts, hts, _⟩ := sample_ts_spec features_for_curve 32 (by norm_num)
  rw [offset_lms_sampling_eq, hts]; rfl

/-- THE CHAIN OF `offset(curve, d, d)` (constant offset `d`), for every curve, both signs of `d`, every feature class, and every fitter
    meeting C08's contract: non-empty, connected, it starts EXACTLY at `w1 + d·n̂(ε)` and ends EXACTLY at `w4 + d·n̂(1−ε)`, where
    `n̂(s) = rot90(to_unit_vector(C'(s)))` is the library's unit normal and `ε = f64::EPSILON`.  This is the statement "starts at
    C(0)+d·n(0), ends at C(1)+d·n(1)" of the property with the normal taken where the code takes it; see `tangent_nudge_zero`,
    `tangent_nudge_zero_cross`, `start_deviation_sq` for the distance from the ideal point. -/
theorem offset_constant_chain {C : Type} (startOf endOf : C → V2 K) (features_for_curve : K → CurveFeatures K)
    (fcc : List (V2 K) → V2 K → V2 K → K → List C) (w1 w2 w3 w4 : V2 K) (d : K) (h : (feps : K) ≠ 1)
    (hfcc : ∀ (ps : List (V2 K)) (s t : V2 K), 2 ≤ ps.length → C08.FitsChain startOf endOf ps (fcc ps s t (0.1 : K))) :
    let cs := offset features_for_curve fcc w1 w2 w3 w4 d d
    cs ≠ [] ∧
    cs.head?.map startOf = some (w1 + rot90 (to_unit_vector (hodograph w1 w2 w3 w4 feps)) * d) ∧
    cs.getLast?.map endOf = some (w4 + rot90 (to_unit_vector (hodograph w1 w2 w3 w4 (1 - feps))) * d) ∧
    cs.IsChain (fun c c' => endOf c = startOf c') := by
  intro cs
  obtain ⟨cs', hcs, hne, hh, hl, hc⟩ := offset_lms_chain startOf endOf features_for_curve fcc w1 w2 w3 w4
    (fun t => (d - d) * t + d) (fun _ => (0.0 : K)) 32 (0.1 : K) (by norm_num) hfcc
  have e : cs' = cs := by
    have := offset_eq features_for_curve fcc w1 w2 w3 w4 d d
    rw [hcs] at this; exact (Option.some.inj this).symm
  subst e
  refine ⟨hne, ?_, ?_, hc⟩
  · rw [hh, samplePoint_zero _ _ _ _ _ _ h]
    congr 1
    apply V2.ext' <;> simp only [V2.add_x, V2.add_y, V2.mul_x, V2.mul_y, lit0] <;> ring
  · rw [hl, samplePoint_one]
    congr 1
    apply V2.ext' <;> simp only [V2.add_x, V2.add_y, V2.mul_x, V2.mul_y, lit0] <;> ring

/-- with the recursion skeleton of `fit_curve_cubic` (`Model.Fit.fitCubicAuto`, C08) as the fitter: for every accept/split policy that
    meets the three hypotheses of `C08.fitCubic_chain` -/
theorem offset_constant_chain_fitCubic {C : Type} (startOf endOf : C → V2 K) (features_for_curve : K → CurveFeatures K)
    (fitLine : V2 K → V2 K → List C) (tryFit : List (V2 K) → V2 K → V2 K → K → (C × K × Nat))
    (tangentBetween : V2 K → V2 K → V2 K → V2 K) (negate : V2 K → V2 K) (w1 w2 w3 w4 : V2 K) (d : K) (h : (feps : K) ≠ 1)
    (hLine : ∀ p q, ∃ c, fitLine p q = [c] ∧ startOf c = p ∧ endOf c = q)
    (hTry : ∀ (ps : List (V2 K)) (s t : V2 K), 3 ≤ ps.length →
      some (startOf (tryFit ps s t (0.1 : K)).1) = ps.head? ∧ some (endOf (tryFit ps s t (0.1 : K)).1) = ps.getLast?)
    (hSplit : ∀ (ps : List (V2 K)) (s t : V2 K), 3 ≤ ps.length → ¬ (tryFit ps s t (0.1 : K)).2.1 ≤ (0.1 : K) →
      1 ≤ (tryFit ps s t (0.1 : K)).2.2 ∧ (tryFit ps s t (0.1 : K)).2.2 + 1 < ps.length) :
    let cs := offset features_for_curve (Model.Fit.fitCubicAuto fitLine tryFit tangentBetween negate) w1 w2 w3 w4 d d
    cs ≠ [] ∧
    cs.head?.map startOf = some (w1 + rot90 (to_unit_vector (hodograph w1 w2 w3 w4 feps)) * d) ∧
    cs.getLast?.map endOf = some (w4 + rot90 (to_unit_vector (hodograph w1 w2 w3 w4 (1 - feps))) * d) ∧
    cs.IsChain (fun c c' => endOf c = startOf c') :=
  offset_constant_chain startOf endOf features_for_curve _ w1 w2 w3 w4 d h
    (fun ps s t h2 => C08.fitCubicAuto_chain startOf endOf fitLine tryFit tangentBetween negate ps (0.1 : K) hLine
      (fun qs s t _ h3 => hTry qs s t h3) (fun qs s t _ h3 hr => hSplit qs s t h3 hr) ps s t List.infix_rfl h2)

/-- HOW FAR THE START IS FROM THE IDEAL POINT `w1 + d·n̂(0)`: for unit vectors `u = t̂(ε)`, `v = t̂(0)` the squared distance between
    `w1 + d·rot90 u` and `w1 + d·rot90 v` is `d²·(2 − 2 u·v)` -/
theorem start_deviation_sq (w1 u v : V2 K) (d : K) (hu : u.x * u.x + u.y * u.y = 1) (hv : v.x * v.x + v.y * v.y = 1) :
    let p := w1 + rot90 u * d
    let q := w1 + rot90 v * d
    (p.x - q.x) * (p.x - q.x) + (p.y - q.y) * (p.y - q.y) = d * d * (2 - 2 * (u.x * v.x + u.y * v.y)) := by
  simp only [rot90, V2.add_x, V2.add_y, V2.mul_x, V2.mul_y]
  linear_combination (d * d) * hu + (d * d) * hv

/-! ### (5) `offset_scaling`: sections, leaves, recursion -/

/-- `offset_scaling` CALLS `subdivide_offset` ONCE PER KEPT SECTION `(t1, t2)` of (1), on `curve.section(t1, t2)`, with the offsets
    `t·(final − initial) + initial` at `t = t1, t2` and depth 0, and concatenates the results -/
theorem offset_scaling_eq {C : Type} (features_for_curve : K → CurveFeatures K) (sub : SectionT K → K → K → Nat → List C) (d0 d1 : K) :
    offset_scaling features_for_curve sub d0 d1 =
      (keptSections features_for_curve).flatMap (fun s =>
        sub (section_new s.t0 s.t1) (s.t0 * (d1 - d0) + d0) (s.t1 * (d1 - d0) + d0) 0) := by
  unfold offset_scaling keptSections
  dsimp only
  rw [List.flatMap_map]
  refine congrArg₂ List.flatMap ?_ rfl
  funext s
  simp only [section_original_curve_t_values, section_new, sub_add_cancel]

/-- the unit normal `subdivide_offset` uses at parameter `t ∈ {0.0, 1.0}` of a section: `normal_at_pos(t).to_unit_vector()` of the
    SECTION's own control polygon (so evaluated at the section's own nudged parameter) -/
def unitNormalAt (w1 w2 w3 w4 : V2 K) (sec : SectionT K) (t : K) : V2 K :=
  to_unit_vector (normal_at_pos (section_start_point w1 w2 w3 w4 sec) (section_control_points w1 w2 w3 w4 sec).t0
    (section_control_points w1 w2 w3 w4 sec).t1 (section_end_point w1 w2 w3 w4 sec) t)

/-- where a leaf over `sec` with start offset `a` starts: the section's start point moved by `a` along its unit start normal -/
def leafStart (w1 w2 w3 w4 : V2 K) (sec : SectionT K) (a : K) : V2 K :=
  section_start_point w1 w2 w3 w4 sec + unitNormalAt w1 w2 w3 w4 sec (0.0 : K) * a

/-- where a leaf over `sec` with end offset `b` ends -/
def leafEnd (w1 w2 w3 w4 : V2 K) (sec : SectionT K) (b : K) : V2 K :=
  section_end_point w1 w2 w3 w4 sec + unitNormalAt w1 w2 w3 w4 sec (1.0 : K) * b

/-- `c` is an offset leaf over `sec` for the offset function `o` of the ORIGINAL curve parameter: it starts at `leafStart` with the offset
    `o` at the section's first parameter and ends at `leafEnd` with the offset `o` at the section's last parameter -/
def IsOffsetLeaf (w1 w2 w3 w4 : V2 K) (o : K → K) (sec : SectionT K) (c : Cubic K) : Prop :=
  c.t0 = leafStart w1 w2 w3 w4 sec (o sec.t_c) ∧ c.t3 = leafEnd w1 w2 w3 w4 sec (o (sec.t_m + sec.t_c))

/-- the section's start / end points are the curve's points at the section's first / last original parameter -/
theorem section_ends_eq (w1 w2 w3 w4 : V2 K) (sec : SectionT K) :
    section_start_point w1 w2 w3 w4 sec = curve_point_at_pos w1 w2 w3 w4 sec.t_c ∧
    section_end_point w1 w2 w3 w4 sec = curve_point_at_pos w1 w2 w3 w4 (sec.t_m + sec.t_c) := by
  simp only [section_start_point, section_end_point, section_t_for_t, lit0, lit1, zero_mul, zero_add, one_mul, and_self]

/-- BOTH LEAF CONSTRUCTORS START AND END EXACTLY ON THE OFFSET POINTS: `start + n̂₀·d₀` and `end + n̂₁·d₁`, whatever the focus is -/
theorem leaf_ends (start cp1 cp2 end_ F n0 n1 : V2 K) (d0 d1 : K) :
    (offset_by_scaling start cp1 cp2 end_ d0 d1 F n0 n1).t0 = start + n0 * d0 ∧
    (offset_by_scaling start cp1 cp2 end_ d0 d1 F n0 n1).t3 = end_ + n1 * d1 ∧
    (offset_by_moving start cp1 cp2 end_ d0 d1 n0 n1).t0 = start + n0 * d0 ∧
    (offset_by_moving start cp1 cp2 end_ d0 d1 n0 n1).t3 = end_ + n1 * d1 := ⟨rfl, rfl, rfl, rfl⟩

/-- `subsection(p, q)` of a section covers the original parameters `p·t_m + t_c … q·t_m + t_c` -/
theorem subsection_range (sec : SectionT K) (p q : K) :
    (section_subsection sec p q).t_c = p * sec.t_m + sec.t_c ∧
    (section_subsection sec p q).t_m + (section_subsection sec p q).t_c = q * sec.t_m + sec.t_c := by
  simp only [section_subsection, section_new, section_t_for_t]
  exact ⟨trivial, by ring⟩

/-- the parameters at which `subdivide_offset` splits a section along its extremities (offset_scaling.rs:166-182): `0.0`, the retained
    extremities and `1.0`, sorted, and then — THE REPAIR — `dedup_by(|a, b| (*a - *b).abs() < 0.01)` -/
def splitParams (ext : List K) : List K :=
  listDedupBy (listSortBy (fun a b => !(decide (a > b))) (([(0.0 : K)] ++ ext) ++ [(1.0 : K)])) (fun a b => decide (fabs (a - b) < (0.01 : K)))

/-- THE WINDOWS OF THE REPAIRED CODE: for retained extremities (all in (0.01, 0.99), duplicates allowed) the windows of `splitParams` tile
    [0,1] — the first starts at 0 (`dedup_by` keeps the first element), the last ends at 1 (every other element is below 0.99, so `1.0` is
    never dropped) — there is at least one, each lies in [0,1], and EVERY WINDOW IS AT LEAST 0.01 LONG: no zero-length window can occur -/
theorem split_params_spec (ext : List K) (hext : ∀ x ∈ ext, (0.01 : K) < x ∧ x < (0.99 : K)) :
    Tiles 0 1 (windows2 (splitParams ext)) ∧ windows2 (splitParams ext) ≠ [] ∧
    ∀ w ∈ windows2 (splitParams ext), 0 ≤ w.t0 ∧ w.t0 + (0.01 : K) ≤ w.t1 ∧ w.t1 ≤ 1 := by
  unfold splitParams
  obtain ⟨hperm, hsorted⟩ := sortPartialCmp_spec (([(0.0 : K)] ++ ext) ++ [(1.0 : K)])
  generalize listSortBy (fun a b => !(decide (a > b))) (([(0.0 : K)] ++ ext) ++ [(1.0 : K)]) = L at hperm hsorted
  have hmem : ∀ x, x ∈ L ↔ x = 0 ∨ x ∈ ext ∨ x = 1 := by
    intro x; rw [hperm.mem_iff]; simp [lit0, lit1]
  have hrange : ∀ x ∈ L, (0 : K) ≤ x ∧ x ≤ 1 := by
    intro x hx
    rcases (hmem x).1 hx with rfl | hx | rfl
    · exact ⟨le_refl _, zero_le_one⟩
    · obtain ⟨h1, h2⟩ := hext x hx
      exact ⟨le_trans (by norm_num) h1.le, le_trans h2.le (by norm_num)⟩
    · exact ⟨zero_le_one, le_refl _⟩
  have hends := sorted_ends (lo := 0) (hi := 1) hsorted ((hmem 0).2 (Or.inl rfl)) ((hmem 1).2 (Or.inr (Or.inr rfl))) hrange
  have hcount : L.count 1 = 1 := by
    rw [hperm.count_eq]
    have h0 : ext.count (1 : K) = 0 := by
      rw [List.count_eq_zero]
      intro h1; have := (hext 1 h1).2; norm_num at this
    simp [List.count_append, List.count_cons, lit0, lit1, h0]
  match L, hends, hcount, hsorted, hrange with
  | p :: rest, hends, hcount, hsorted, hrange =>
    have hp : p = 0 := by simpa using hends.1
    have hrne : rest ≠ [] := by
      intro e; rw [e] at hends; simp at hends; rw [hp] at hends; exact zero_ne_one hends.2
    obtain ⟨init, hinit⟩ : ∃ init, rest = init ++ [1] := by
      refine ⟨rest.dropLast, ?_⟩
      have h2 := hends.2
      rw [List.getLast?_cons_of_ne_nil hrne, List.getLast?_eq_some_getLast hrne] at h2
      have h3 : rest.getLast hrne = 1 := by simpa using h2
      rw [← h3]; exact (List.dropLast_append_getLast hrne).symm
    subst hinit
    have hnot1 : ∀ y ∈ p :: init, y ≠ 1 := by
      intro y hy e
      subst e
      have : (p :: (init ++ [1])).count (1 : K) = (p :: init).count 1 + 1 := by
        rw [← List.cons_append, List.count_append]; simp
      have hpos : 0 < (p :: init).count (1 : K) := List.count_pos_iff.2 hy
      omega
    set D := listDedupByGo (fun a b => decide (fabs (a - b) < (0.01 : K))) p (init ++ [1]) with hD
    show Tiles 0 1 (windows2 D) ∧ windows2 D ≠ [] ∧ ∀ w ∈ windows2 D, 0 ≤ w.t0 ∧ w.t0 + (0.01 : K) ≤ w.t1 ∧ w.t1 ≤ 1
    have hsub : D.Sublist (p :: (init ++ [1])) := dedupGo_sublist _ _ _
    have hDsorted : D.Pairwise (· ≤ ·) := hsorted.sublist hsub
    have hDhead : D.head? = some 0 := by rw [hD, dedupGo_head, hp]
    have hDlast : D.getLast? = some 1 := by
      apply dedupGo_getLast
      intro y hy
      have hy1 : y ≠ 1 := hnot1 y hy
      have hyL : y ∈ p :: (init ++ [1]) := by
        rw [← List.cons_append]; exact List.mem_append_left _ hy
      have hylt : y < (0.99 : K) := by
        rcases (hmem y).1 hyL with rfl | hx | rfl
        · norm_num
        · exact (hext y hx).2
        · exact absurd rfl hy1
      have : ¬ (|1 - y| < (0.01 : K)) := by
        rw [abs_of_nonneg (by linarith [(hrange y hyL).2])]
        intro h; norm_num at hylt h; linarith
      simpa [fabs] using this
    have hchain := dedupGo_chain (fun a b => decide (fabs (a - b) < (0.01 : K))) (init ++ [1]) p
    rw [← hD] at hchain
    match D, hDhead, hDlast, hDsorted, hsub, hchain with
    | [], hDhead, _, _, _, _ => simp at hDhead
    | [x], hDhead, hDlast, _, _, _ =>
      simp at hDhead hDlast; rw [hDhead] at hDlast; exact absurd hDlast zero_ne_one
    | x :: y :: drest, hDhead, hDlast, hDsorted, hsub, hchain =>
      obtain ⟨ht, hne⟩ := tiles_windows2 x (y :: drest) (by simp)
      have hx0 : x = 0 := by simpa using hDhead
      have hl : (y :: drest).getLast (by simp) = 1 := by
        rw [List.getLast?_cons_cons, List.getLast?_eq_some_getLast (by simp)] at hDlast
        simpa using hDlast
      rw [hl, hx0] at ht
      refine ⟨by rw [hx0]; exact ht, by rw [hx0] at hne; rw [hx0]; exact hne, ?_⟩
      intro w hw
      have hR := mem_windows2_of_isChain hchain w hw
      have hle := mem_windows2_of_isChain (List.Pairwise.isChain hDsorted) w hw
      obtain ⟨hm0, hm1⟩ := mem_of_mem_windows2 w hw
      have hr0 := hrange w.t0 (hsub.subset hm0)
      have hr1 := hrange w.t1 (hsub.subset hm1)
      refine ⟨hr0.1, ?_, hr1.2⟩
      have : ¬ (|w.t1 - w.t0| < (0.01 : K)) := by simpa [fabs] using hR
      rw [abs_of_nonneg (sub_nonneg.2 hle)] at this
      linarith [not_lt.1 this]

/-- THE REPAIR, as a statement about the sub-sections: every window `(t1, t2)` that `subdivide_offset` hands to `curve.subsection` has
    `t2 − t1 ≥ 0.01`, so a section of positive length `t_m` is only ever split into sub-sections of length at least `0.01·t_m > 0`
    (before the repair two equal extremities gave a window `(e, e)` and a sub-section of length zero, cf. `zero_length_section_pieces`) -/
theorem windows_have_positive_length (sec : SectionT K) (hsec : 0 < sec.t_m) (ext : List K)
    (hext : ∀ x ∈ ext, (0.01 : K) < x ∧ x < (0.99 : K)) :
    ∀ w ∈ windows2 (splitParams ext), w.t0 + (0.01 : K) ≤ w.t1 ∧ (0.01 : K) * sec.t_m ≤ (section_subsection sec w.t0 w.t1).t_m ∧
      0 < (section_subsection sec w.t0 w.t1).t_m := by
  intro w hw
  obtain ⟨_, h1, _⟩ := (split_params_spec ext hext).2.2 w hw
  have e : (section_subsection sec w.t0 w.t1).t_m = (w.t1 - w.t0) * sec.t_m := by
    simp only [section_subsection, section_new, section_t_for_t]; ring
  have h2 : (0.01 : K) ≤ w.t1 - w.t0 := by linarith
  have h3 : (0.01 : K) * sec.t_m ≤ (w.t1 - w.t0) * sec.t_m := mul_le_mul_of_nonneg_right h2 hsec.le
  refine ⟨h1, by rw [e]; exact h3, by rw [e]; exact lt_of_lt_of_le (mul_pos (by norm_num) hsec) h3⟩

example : windows2 (splitParams ([1/2, 1/4, 1/2] : List ℚ)) = [⟨0, 1/4⟩, ⟨1/4, 1/2⟩, ⟨1/2, 1⟩] := by decide +kernel

/-- ONE LEVEL OF `subdivide_offset`: if the recursive calls (only made when `depth < MAX_DEPTH = 5`) return chains of offset leaves over
    the sub-sections they are given, the body returns a chain of offset leaves over its own section.  The offsets handed down
    (`initial + (final − initial)·t`) are the values of the same affine function `o` of the original curve parameter. -/
theorem body_pieces (w1 w2 w3 w4 : V2 K) (c0 c1 : K) (Inv : SectionT K → Prop)
    (hInv : ∀ sec p q, 0 ≤ p → p < q → q ≤ 1 → Inv sec → Inv (section_subsection sec p q))
    (recurse : SectionT K → K → K → Nat → List (Cubic K)) (sec : SectionT K) (depth : Nat) (hsec : Inv sec)
    (hrec : depth < 5 → ∀ sec', Inv sec' → Pieces (fun s c => Inv s ∧ IsOffsetLeaf w1 w2 w3 w4 (fun t => c0 + c1 * t) s c) sec'.t_c (sec'.t_m + sec'.t_c)
      (recurse sec' (c0 + c1 * sec'.t_c) (c0 + c1 * (sec'.t_m + sec'.t_c)) (depth + 1))) :
    Pieces (fun s c => Inv s ∧ IsOffsetLeaf w1 w2 w3 w4 (fun t => c0 + c1 * t) s c) sec.t_c (sec.t_m + sec.t_c)
      (subdivide_offset_body recurse w1 w2 w3 w4 sec (c0 + c1 * sec.t_c) (c0 + c1 * (sec.t_m + sec.t_c)) depth) := by
  generalize ha : c0 + c1 * sec.t_c = a
  generalize hb : c0 + c1 * (sec.t_m + sec.t_c) = b
  have hrec' : depth < 5 → ∀ p q a' b', 0 ≤ p → p < q → q ≤ 1 → a' = a + (b - a) * p → b' = a + (b - a) * q →
      Pieces (fun s c => Inv s ∧ IsOffsetLeaf w1 w2 w3 w4 (fun t => c0 + c1 * t) s c) (p * sec.t_m + sec.t_c) (q * sec.t_m + sec.t_c)
      (recurse (section_subsection sec p q) a' b' (depth + 1)) := by
    intro hd p q a' b' hp0 hpq hq1 ha' hb'
    have := hrec hd (section_subsection sec p q) (hInv sec p q hp0 hpq hq1 hsec)
    rw [(subsection_range sec p q).2, (subsection_range sec p q).1] at this
    have e1 : c0 + c1 * (p * sec.t_m + sec.t_c) = a' := by rw [ha', ← ha, ← hb]; ring
    have e2 : c0 + c1 * (q * sec.t_m + sec.t_c) = b' := by rw [hb', ← ha, ← hb]; ring
    rwa [e1, e2] at this
  have e0 : (0.0 : K) * sec.t_m + sec.t_c = sec.t_c := by rw [lit0]; ring
  have e1 : (1.0 : K) * sec.t_m + sec.t_c = sec.t_m + sec.t_c := by rw [lit1]; ring
  have hsplit : depth < 5 → Pieces (fun s c => Inv s ∧ IsOffsetLeaf w1 w2 w3 w4 (fun t => c0 + c1 * t) s c) sec.t_c (sec.t_m + sec.t_c)
      (recurse (section_subsection sec 0.0 0.5) a (a + (b - a) * 0.5) (depth + 1) ++
        recurse (section_subsection sec 0.5 1.0) (a + (b - a) * 0.5) b (depth + 1)) := by
    intro hd
    have L := hrec' hd 0.0 0.5 a (a + (b - a) * 0.5) (by norm_num) (by norm_num) (by norm_num) (by rw [lit0]; ring) rfl
    have R := hrec' hd 0.5 1.0 (a + (b - a) * 0.5) b (by norm_num) (by norm_num) (by norm_num) rfl (by rw [lit1]; ring)
    rw [e0] at L; rw [e1] at R
    exact Pieces.append L R
  have hwin : depth < 5 → ∀ ext : List K, (∀ x ∈ ext, (0.01 : K) < x ∧ x < (0.99 : K)) →
      Pieces (fun s c => Inv s ∧ IsOffsetLeaf w1 w2 w3 w4 (fun t => c0 + c1 * t) s c) sec.t_c (sec.t_m + sec.t_c)
        ((windows2 (splitParams ext)).flatMap (fun arg_0 =>
          recurse (section_subsection sec arg_0.t0 arg_0.t1) (a + (b - a) * arg_0.t0) (a + (b - a) * arg_0.t1) (depth + 1))) := by
    intro hd ext hext
    obtain ⟨ht, hne, hw⟩ := split_params_spec ext hext
    have := Pieces.flatMap_tiles (IsLeaf := fun s c => Inv s ∧ IsOffsetLeaf w1 w2 w3 w4 (fun t => c0 + c1 * t) s c) (fun p => p * sec.t_m + sec.t_c)
      (fun arg_0 => recurse (section_subsection sec arg_0.t0 arg_0.t1) (a + (b - a) * arg_0.t0) (a + (b - a) * arg_0.t1) (depth + 1))
      _ 0 1 hne ht (fun s hs => by
        obtain ⟨h0, h1, h2⟩ := hw s hs
        have hpos : (0 : K) < 0.01 := by norm_num
        have hlt : s.t0 < s.t1 := by linarith
        exact hrec' hd s.t0 s.t1 _ _ h0 hlt h2 rfl rfl)
    simp only [zero_mul, zero_add, one_mul] at this
    exact this
  have hleaf_s : ∀ F, Pieces (fun s c => Inv s ∧ IsOffsetLeaf w1 w2 w3 w4 (fun t => c0 + c1 * t) s c) sec.t_c (sec.t_m + sec.t_c)
      [offset_by_scaling (section_start_point w1 w2 w3 w4 sec) (section_control_points w1 w2 w3 w4 sec).t0 (section_control_points w1 w2 w3 w4 sec).t1
        (section_end_point w1 w2 w3 w4 sec) a b F (unitNormalAt w1 w2 w3 w4 sec (0.0 : K)) (unitNormalAt w1 w2 w3 w4 sec (1.0 : K))] :=
    fun F => Pieces.leaf sec _ ⟨hsec, by show _ = leafStart w1 w2 w3 w4 sec (c0 + c1 * sec.t_c); rw [ha]; rfl, by show _ = leafEnd w1 w2 w3 w4 sec (c0 + c1 * (sec.t_m + sec.t_c)); rw [hb]; rfl⟩
  have hleaf_m : Pieces (fun s c => Inv s ∧ IsOffsetLeaf w1 w2 w3 w4 (fun t => c0 + c1 * t) s c) sec.t_c (sec.t_m + sec.t_c)
      [offset_by_moving (section_start_point w1 w2 w3 w4 sec) (section_control_points w1 w2 w3 w4 sec).t0 (section_control_points w1 w2 w3 w4 sec).t1
        (section_end_point w1 w2 w3 w4 sec) a b (unitNormalAt w1 w2 w3 w4 sec (0.0 : K)) (unitNormalAt w1 w2 w3 w4 sec (1.0 : K))] :=
    Pieces.leaf sec _ ⟨hsec, by show _ = leafStart w1 w2 w3 w4 sec (c0 + c1 * sec.t_c); rw [ha]; rfl, by show _ = leafEnd w1 w2 w3 w4 sec (c0 + c1 * (sec.t_m + sec.t_c)); rw [hb]; rfl⟩
  unfold subdivide_offset_body
  dsimp only
  split
  · split
    · rename_i h; simp only [Bool.and_eq_true, decide_eq_true_eq] at h; exact hsplit h.2
    · split
      · split
        · rename_i h; simp only [Bool.and_eq_true, decide_eq_true_eq] at h
          split
          · exact hsplit h.2
          · exact hwin h.2 _ (fun x hx => by simpa using (List.mem_filter.1 hx).2)
        · exact hleaf_s _
      · exact hleaf_m
  · split
    · split
      · rename_i h; simp only [Bool.and_eq_true, decide_eq_true_eq] at h
        split
        · exact hsplit h.2
        · exact hwin h.2 _ (fun x hx => by simpa using (List.mem_filter.1 hx).2)
      · exact hleaf_s _
    · exact hleaf_m

/-- THE TERMINATION GUARD: at `depth ≥ MAX_DEPTH = 5` the body of `subdivide_offset` makes no recursive call (its value does not depend on
    `recurse`), and below that every recursive call is made with `depth + 1`: two `recurse` that agree at `depth + 1` give the same result -/
theorem body_congr (w1 w2 w3 w4 : V2 K) (r r' : SectionT K → K → K → Nat → List (Cubic K)) (sec : SectionT K) (a b : K) (depth : Nat)
    (h : depth < 5 → ∀ s x y, r s x y (depth + 1) = r' s x y (depth + 1)) :
    subdivide_offset_body r w1 w2 w3 w4 sec a b depth = subdivide_offset_body r' w1 w2 w3 w4 sec a b depth := by
  unfold subdivide_offset_body
  dsimp only
  by_cases hd : depth < 5
  · simp only [h hd]
  · simp only [hd, decide_false, Bool.and_false, Bool.false_eq_true, if_false]

/-- THE FUEL OF THE MODEL IS NEVER EXHAUSTED: with fuel `≥ 1` and `≥ MAX_DEPTH + 1 − depth` the result of `subdivideOffset` does not depend
    on the fuel (so `Model.Offset.offsetScaling`, which hands out `MAX_DEPTH + 1` at depth 0, computes what the unbounded Rust recursion
    computes, and that recursion is at most `MAX_DEPTH` calls deep) -/
theorem subdivideOffset_fuel (w1 w2 w3 w4 : V2 K) : ∀ (fuel fuel' : Nat) (sec : SectionT K) (a b : K) (depth : Nat),
    1 ≤ fuel → 6 ≤ fuel + depth → 1 ≤ fuel' → 6 ≤ fuel' + depth →
    subdivideOffset w1 w2 w3 w4 fuel sec a b depth = subdivideOffset w1 w2 w3 w4 fuel' sec a b depth
  | fuel + 1, fuel' + 1, sec, a, b, depth, _, h1, _, h2 => by
    unfold subdivideOffset
    apply body_congr
    intro hd s x y
    exact subdivideOffset_fuel w1 w2 w3 w4 fuel fuel' s x y (depth + 1) (by omega) (by omega) (by omega) (by omega)

/-- `subdivide_offset` RETURNS A CHAIN OF OFFSET LEAVES OVER ITS SECTION, for every curve, section, depth and affine offset function `o` of
    the original parameter (called with the offsets `o` at the ends of the section), given enough fuel -/
theorem subdivideOffset_pieces (w1 w2 w3 w4 : V2 K) (c0 c1 : K) (Inv : SectionT K → Prop)
    (hInv : ∀ sec p q, 0 ≤ p → p < q → q ≤ 1 → Inv sec → Inv (section_subsection sec p q)) : ∀ (fuel : Nat) (sec : SectionT K) (depth : Nat),
    1 ≤ fuel → 6 ≤ fuel + depth → Inv sec →
    Pieces (fun s c => Inv s ∧ IsOffsetLeaf w1 w2 w3 w4 (fun t => c0 + c1 * t) s c) sec.t_c (sec.t_m + sec.t_c)
      (subdivideOffset w1 w2 w3 w4 fuel sec (c0 + c1 * sec.t_c) (c0 + c1 * (sec.t_m + sec.t_c)) depth)
  | fuel + 1, sec, depth, _, h, hsec => by
    unfold subdivideOffset
    apply body_pieces _ _ _ _ _ _ Inv hInv _ _ _ hsec
    intro hd sec' hsec'
    exact subdivideOffset_pieces w1 w2 w3 w4 c0 c1 Inv hInv fuel sec' (depth + 1) (by omega) (by omega) hsec'

/-- `offset_scaling` RETURNS A CHAIN OF OFFSET LEAVES THAT TILES THE WHOLE CURVE: for every curve, every feature class and parameters,
    all offsets `initial`, `final` (with `o(t) = initial + (final − initial)·t`) -/
theorem offset_scaling_pieces (features_for_curve : K → CurveFeatures K) (w1 w2 w3 w4 : V2 K) (d0 d1 : K) :
    Pieces (IsOffsetLeaf w1 w2 w3 w4 (fun t => d0 + (d1 - d0) * t)) 0 1 (offsetScaling features_for_curve w1 w2 w3 w4 d0 d1) := by
  unfold offsetScaling
  rw [offset_scaling_eq]
  obtain ⟨ht, hne, _, _⟩ := kept_sections_tile features_for_curve
  refine Pieces.flatMap_tiles (IsLeaf := IsOffsetLeaf w1 w2 w3 w4 (fun t => d0 + (d1 - d0) * t)) (fun t => t) _ _ 0 1 hne ht ?_
  intro s _
  have := (subdivideOffset_pieces w1 w2 w3 w4 d0 (d1 - d0) (fun _ => True) (fun _ _ _ _ _ _ _ => trivial) (maxDepth + 1 - 0) (section_new s.t0 s.t1) 0
    (by simp [maxDepth]) (by simp [maxDepth]) trivial).mono (fun _ _ h => h.2)
  simp only [section_new, sub_add_cancel] at this
  have e1 : s.t0 * (d1 - d0) + d0 = d0 + (d1 - d0) * s.t0 := by ring
  have e2 : s.t1 * (d1 - d0) + d0 = d0 + (d1 - d0) * s.t1 := by ring
  simp only [section_new, e1, e2]
  exact this

/-- `point_at_pos(0)` is the start point exactly -/
theorem point_at_zero (w1 w2 w3 w4 : V2 K) : curve_point_at_pos w1 w2 w3 w4 (0 : K) = w1 := by
  apply V2.ext' <;> simp only [curve_point_at_pos, basis, V2.add_x, V2.add_y, V2.mul_x, V2.mul_y] <;> norm_num

/-- `point_at_pos(1)` is the end point exactly -/
theorem point_at_one (w1 w2 w3 w4 : V2 K) : curve_point_at_pos w1 w2 w3 w4 (1 : K) = w4 := by
  apply V2.ext' <;> simp only [curve_point_at_pos, basis, V2.add_x, V2.add_y, V2.mul_x, V2.mul_y] <;> norm_num

/-- THE CHAIN OF `offset_scaling`, for every curve, every feature class / parameters, all offsets (`o(t) = initial + (final − initial)·t`;
    for `offset_scaling(curve, d, d)`, `o = d`):
    * it is not empty;
    * its first curve starts EXACTLY at `w1 + n̂·initial` and its last curve ends EXACTLY at `w4 + n̂'·final`, where `n̂`, `n̂'` are the unit
      normals of the first / last LEAF section at its own nudged end parameter (`unitNormalAt`);
    * at every joint there is a curve parameter `m` such that the left curve ends at `C(m) + n̂⁻·o(m)` and the right one starts at
      `C(m) + n̂⁺·o(m)`: the same curve point `C(m)`, the same offset `o(m)`, but the unit normals of two DIFFERENT sections (the left one
      at its `1 − ε`, the right one at its `ε`).  So the chain is connected up to the difference of these two unit normals — it is NOT
      connected exactly, not even in exact arithmetic; `joint_gap_sq` gives the gap. -/
theorem offset_scaling_chain (features_for_curve : K → CurveFeatures K) (w1 w2 w3 w4 : V2 K) (d0 d1 : K) :
    let o : K → K := fun t => d0 + (d1 - d0) * t
    let cs := offsetScaling features_for_curve w1 w2 w3 w4 d0 d1
    cs ≠ [] ∧
    (∃ c sec, cs.head? = some c ∧ sec.t_c = 0 ∧ c.t0 = w1 + unitNormalAt w1 w2 w3 w4 sec (0.0 : K) * d0) ∧
    (∃ c sec, cs.getLast? = some c ∧ sec.t_m + sec.t_c = 1 ∧ c.t3 = w4 + unitNormalAt w1 w2 w3 w4 sec (1.0 : K) * d1) ∧
    cs.IsChain (fun c c' => ∃ sec sec' m, sec.t_m + sec.t_c = m ∧ sec'.t_c = m ∧
      c.t3 = curve_point_at_pos w1 w2 w3 w4 m + unitNormalAt w1 w2 w3 w4 sec (1.0 : K) * o m ∧
      c'.t0 = curve_point_at_pos w1 w2 w3 w4 m + unitNormalAt w1 w2 w3 w4 sec' (0.0 : K) * o m) := by
  intro o cs
  have hp : Pieces (IsOffsetLeaf w1 w2 w3 w4 o) 0 1 cs := offset_scaling_pieces features_for_curve w1 w2 w3 w4 d0 d1
  refine ⟨hp.ne_nil, ?_, ?_, ?_⟩
  · obtain ⟨c, sec, h1, h2, h3⟩ := hp.head
    refine ⟨c, sec, h1, h2, ?_⟩
    rw [h3.1, leafStart, (section_ends_eq w1 w2 w3 w4 sec).1, h2, point_at_zero]
    show _ = w1 + _ * d0
    simp only [o, mul_zero, add_zero]
  · obtain ⟨c, sec, h1, h2, h3⟩ := hp.last
    refine ⟨c, sec, h1, h2, ?_⟩
    rw [h3.2, leafEnd, (section_ends_eq w1 w2 w3 w4 sec).2, h2, point_at_one]
    show _ = w4 + _ * d1
    simp only [o, mul_one, add_sub_cancel]
  · refine hp.joints.imp ?_
    rintro c c' ⟨sec, sec', hm, hl, hr⟩
    refine ⟨sec, sec', _, rfl, hm.symm, ?_, ?_⟩
    · rw [hl.2, leafEnd, (section_ends_eq w1 w2 w3 w4 sec).2]
    · rw [hr.1, leafStart, (section_ends_eq w1 w2 w3 w4 sec').1, hm]

/-- THE GAP AT A JOINT: two points `p + n⁻·o` and `p + n⁺·o` with unit vectors `n⁻`, `n⁺` are `o²·(2 − 2 n⁻·n⁺)` apart (squared); both lie
    on the circle of radius `|o|` about the curve point `p` -/
theorem joint_gap_sq (p n n' : V2 K) (o : K) (hn : n.x * n.x + n.y * n.y = 1) (hn' : n'.x * n'.x + n'.y * n'.y = 1) :
    let a := p + n * o
    let b := p + n' * o
    (a.x - b.x) * (a.x - b.x) + (a.y - b.y) * (a.y - b.y) = o * o * (2 - 2 * (n.x * n'.x + n.y * n'.y)) ∧
    (a.x - p.x) * (a.x - p.x) + (a.y - p.y) * (a.y - p.y) = o * o ∧ (b.x - p.x) * (b.x - p.x) + (b.y - p.y) * (b.y - p.y) = o * o := by
  simp only [V2.add_x, V2.add_y, V2.mul_x, V2.mul_y]
  refine ⟨?_, ?_, ?_⟩
  · linear_combination (o * o) * hn + (o * o) * hn'
  · linear_combination (o * o) * hn
  · linear_combination (o * o) * hn'

/-! #### the two leaf constructors -/

/-- `offset_by_moving` (parallel end normals) KEEPS BOTH END TANGENTS EXACTLY: `cp1' − start' = cp1 − start`, `end' − cp2' = end − cp2` -/
theorem offset_by_moving_tangents (start cp1 cp2 end_ n0 n1 : V2 K) (d0 d1 : K) :
    let r := offset_by_moving start cp1 cp2 end_ d0 d1 n0 n1
    r.t1 - r.t0 = cp1 - start ∧ r.t3 - r.t2 = end_ - cp2 := by
  constructor <;> apply V2.ext' <;> simp only [offset_by_moving, V2.add_x, V2.add_y, V2.sub_x, V2.sub_y, V2.mul_x, V2.mul_y] <;> ring

/-- `sqrt(y²) = |y|` -/
theorem sqrt_mul_self (hs : SqrtSpec K) (y : K) : fsqrt (y * y) = |y| := by
  obtain ⟨h1, h2⟩ := hs (y * y) (mul_self_nonneg y)
  have : fsqrt (y * y) * fsqrt (y * y) = |y| * |y| := by rw [h2, abs_mul_abs_self]
  exact (mul_self_inj h1 (abs_nonneg y)).1 this

/-- the distance from the focus `F = p + n·a` (on the normal line through `p`, `n` a unit vector) to the offset point `p + n·d` is `|a − d|` -/
theorem dist_along_normal (hs : SqrtSpec K) (p n : V2 K) (a d : K) (hn : n.x * n.x + n.y * n.y = 1) :
    coord2_distance_to (p + n * a) (p + n * d) = |a - d| := by
  have : (p + n * d).x - (p + n * a).x = n.x * (d - a) ∧ (p + n * d).y - (p + n * a).y = n.y * (d - a) := by
    simp only [V2.add_x, V2.add_y, V2.mul_x, V2.mul_y]; constructor <;> ring
  simp only [coord2_distance_to, this.1, this.2]
  have e : n.x * (d - a) * (n.x * (d - a)) + n.y * (d - a) * (n.y * (d - a)) = (d - a) * (d - a) := by
    linear_combination ((d - a) * (d - a)) * hn
  rw [e, sqrt_mul_self hs, abs_sub_comm]

/-- WHEN `offset_by_scaling` IS AN EXACT SCALING: if the focus lies on both unit normals (`F = start + n₀·a = end + n₁·b`, as
    `ray_intersects_ray` makes it, cf. `C04.rir_spec`), and both ends ask for the same non-negative scale factor `σ` about `F`
    (`a − d₀ = σ·a`, `b − d₁ = σ·b`; for a constant offset `d` and an equidistant focus `a = b` this is `σ = (a − d)/a`, non-negative as long
    as the offset does not pass the focus), then EVERY control point of the result is the image of the source's under the scaling by `σ` about
    `F`; hence so is every point of the curve, and all tangents (in particular the end tangents) are parallel to the source's -/
theorem offset_by_scaling_homothety (hs : SqrtSpec K) (start cp1 cp2 end_ F n0 n1 : V2 K) (d0 d1 a b σ : K)
    (hn0 : n0.x * n0.x + n0.y * n0.y = 1) (hn1 : n1.x * n1.x + n1.y * n1.y = 1)
    (hF0 : F = start + n0 * a) (hF1 : F = end_ + n1 * b) (ha : a ≠ 0) (hb : b ≠ 0)
    (h0 : a - d0 = σ * a) (h1 : b - d1 = σ * b) (hσ : 0 ≤ σ) :
    let r := offset_by_scaling start cp1 cp2 end_ d0 d1 F n0 n1
    r.t0 = (start - F) * σ + F ∧ r.t1 = (cp1 - F) * σ + F ∧ r.t2 = (cp2 - F) * σ + F ∧ r.t3 = (end_ - F) * σ + F ∧
    r.t1 - r.t0 = (cp1 - start) * σ ∧ r.t3 - r.t2 = (end_ - cp2) * σ ∧
    ∀ t : K, curve_point_at_pos r.t0 r.t1 r.t2 r.t3 t = (curve_point_at_pos start cp1 cp2 end_ t - F) * σ + F := by
  intro r
  have es : coord2_distance_to F (start + n0 * d0) / coord2_distance_to F start = σ := by
    have h2 : coord2_distance_to F start = |a| := by
      have := dist_along_normal hs start n0 a 0 hn0
      rw [sub_zero] at this
      rw [hF0]; convert this using 2
      apply V2.ext' <;> simp
    rw [h2, hF0, dist_along_normal hs start n0 a d0 hn0, h0, abs_mul, abs_of_nonneg hσ]
    field_simp
  have ee : coord2_distance_to F (end_ + n1 * d1) / coord2_distance_to F end_ = σ := by
    have h2 : coord2_distance_to F end_ = |b| := by
      have := dist_along_normal hs end_ n1 b 0 hn1
      rw [sub_zero] at this
      rw [hF1]; convert this using 2
      apply V2.ext' <;> simp
    rw [h2, hF1, dist_along_normal hs end_ n1 b d1 hn1, h1, abs_mul, abs_of_nonneg hσ]
    field_simp
  have e0 : r.t0 = (start - F) * σ + F := by
    show start + n0 * d0 = _
    rw [hF0]; apply V2.ext' <;> simp only [V2.add_x, V2.add_y, V2.sub_x, V2.sub_y, V2.mul_x, V2.mul_y]
    · linear_combination (-n0.x) * h0
    · linear_combination (-n0.y) * h0
  have e3 : r.t3 = (end_ - F) * σ + F := by
    show end_ + n1 * d1 = _
    rw [hF1]; apply V2.ext' <;> simp only [V2.add_x, V2.add_y, V2.sub_x, V2.sub_y, V2.mul_x, V2.mul_y]
    · linear_combination (-n1.x) * h1
    · linear_combination (-n1.y) * h1
  have e1 : r.t1 = (cp1 - F) * σ + F := by
    show (cp1 - F) * ((coord2_distance_to F (end_ + n1 * d1) / coord2_distance_to F end_ -
      coord2_distance_to F (start + n0 * d0) / coord2_distance_to F start) * ((1.0 : K) / (3.0 : K)) +
      coord2_distance_to F (start + n0 * d0) / coord2_distance_to F start) + F = _
    rw [es, ee, sub_self, zero_mul, zero_add]
  have e2 : r.t2 = (cp2 - F) * σ + F := by
    show (cp2 - F) * ((coord2_distance_to F (end_ + n1 * d1) / coord2_distance_to F end_ -
      coord2_distance_to F (start + n0 * d0) / coord2_distance_to F start) * ((2.0 : K) / (3.0 : K)) +
      coord2_distance_to F (start + n0 * d0) / coord2_distance_to F start) + F = _
    rw [es, ee, sub_self, zero_mul, zero_add]
  refine ⟨e0, e1, e2, e3, ?_, ?_, ?_⟩
  · rw [e0, e1]; apply V2.ext' <;> simp only [V2.add_x, V2.add_y, V2.sub_x, V2.sub_y, V2.mul_x, V2.mul_y] <;> ring
  · rw [e2, e3]; apply V2.ext' <;> simp only [V2.add_x, V2.add_y, V2.sub_x, V2.sub_y, V2.mul_x, V2.mul_y] <;> ring
  · intro t
    rw [e0, e1, e2, e3]
    apply V2.ext' <;> simp only [curve_point_at_pos, basis, V2.add_x, V2.add_y, V2.sub_x, V2.sub_y, V2.mul_x, V2.mul_y] <;> norm_num <;> ring

/-- IN GENERAL `offset_by_scaling` DOES NOT KEEP THE END TANGENT DIRECTION: with the focus on the start normal (`F = start + n₀·a`, `a ≠ 0`,
    offset not past the focus: `a − d₀ = σ₀·a`, `σ₀ ≥ 0`, so that `start_scale = σ₀`) and ANY end scale `σ₁` (the value the code computes from
    the other end), the new start tangent is `(cp1 − start)·σ₀ + (cp1 − F)·(σ₁ − σ₀)/3`; its cross product with the old one is
    `(σ₁ − σ₀)/3 · (cp1 − start) × (start − F)`.  The code accepts a focus whose two distances differ by up to 0.5 % (`distance_ratio ≥ 0.995`),
    so `σ₁ ≠ σ₀` in general and the end tangents are parallel to the source's only up to that term. -/
theorem offset_by_scaling_start_tangent (hs : SqrtSpec K) (start cp1 cp2 end_ F n0 n1 : V2 K) (d0 d1 a σ0 : K)
    (hn0 : n0.x * n0.x + n0.y * n0.y = 1) (hF0 : F = start + n0 * a) (ha : a ≠ 0) (h0 : a - d0 = σ0 * a) (hσ : 0 ≤ σ0) :
    let r := offset_by_scaling start cp1 cp2 end_ d0 d1 F n0 n1
    let σ1 := coord2_distance_to F (end_ + n1 * d1) / coord2_distance_to F end_
    r.t1 - r.t0 = (cp1 - start) * σ0 + (cp1 - F) * ((σ1 - σ0) * (1 / 3)) ∧
    cross (cp1 - start) (r.t1 - r.t0) = (σ1 - σ0) * (1 / 3) * cross (cp1 - start) (start - F) := by
  intro r σ1
  have es : coord2_distance_to F (start + n0 * d0) / coord2_distance_to F start = σ0 := by
    have h2 : coord2_distance_to F start = |a| := by
      have := dist_along_normal hs start n0 a 0 hn0
      rw [sub_zero] at this
      rw [hF0]; convert this using 2
      apply V2.ext' <;> simp
    rw [h2, hF0, dist_along_normal hs start n0 a d0 hn0, h0, abs_mul, abs_of_nonneg hσ]
    field_simp
  have e0 : r.t0 = (start - F) * σ0 + F := by
    show start + n0 * d0 = _
    rw [hF0]; apply V2.ext' <;> simp only [V2.add_x, V2.add_y, V2.sub_x, V2.sub_y, V2.mul_x, V2.mul_y]
    · linear_combination (-n0.x) * h0
    · linear_combination (-n0.y) * h0
  have e1 : r.t1 = (cp1 - F) * ((σ1 - σ0) * (1 / 3) + σ0) + F := by
    show (cp1 - F) * ((coord2_distance_to F (end_ + n1 * d1) / coord2_distance_to F end_ -
      coord2_distance_to F (start + n0 * d0) / coord2_distance_to F start) * ((1.0 : K) / (3.0 : K)) +
      coord2_distance_to F (start + n0 * d0) / coord2_distance_to F start) + F = _
    rw [es]; norm_num; rfl
  have ht : r.t1 - r.t0 = (cp1 - start) * σ0 + (cp1 - F) * ((σ1 - σ0) * (1 / 3)) := by
    rw [e0, e1]; apply V2.ext' <;> simp only [V2.add_x, V2.add_y, V2.sub_x, V2.sub_y, V2.mul_x, V2.mul_y] <;> ring
  refine ⟨ht, ?_⟩
  rw [ht]
  simp only [cross, V2.add_x, V2.add_y, V2.sub_x, V2.sub_y, V2.mul_x, V2.mul_y]; ring

/-- one coordinate of `section_hodograph` -/
theorem section_hodograph_1d (a b c d u L s : K) (hc : u < 1) :
    let sec : SectionT K := ⟨u, L⟩
    let P0 := section_start_point a b c d sec
    let cps := section_control_points a b c d sec
    let P3 := section_end_point a b c d sec
    (cps.t0 - P0) * (3 * (1 - s) * (1 - s)) + (cps.t1 - cps.t0) * (6 * s * (1 - s)) + (P3 - cps.t1) * (3 * s * s) =
      ((b - a) * (3 * (1 - (u + L * s)) * (1 - (u + L * s))) + (c - b) * (6 * (u + L * s) * (1 - (u + L * s))) + (d - c) * (3 * (u + L * s) * (u + L * s))) * L := by
  have h10 : (1.0 : K) = 1 := by norm_num
  have h1 : (1 : K) - u ≠ 0 := by linarith
  have hge : ¬ (u ≥ (1.0 : K)) := by rw [h10]; exact not_le.2 hc
  simp only [section_control_points, section_start_point, section_end_point, section_t_for_t,
      curve_point_at_pos, de_casteljau2, basis, hge, decide_false, Bool.false_eq_true, if_false]
  norm_num
  field_simp
  ring

/-- THE HODOGRAPH OF A SECTION'S CONTROL POLYGON (start point, `control_points()`, end point, as `CurveSection` computes them) is the
    hodograph of the curve, reparametrised and scaled by the section's length: `P'(s) = t_m · C'(t_c + t_m·s)` (for `t_c < 1`, where the
    code divides by `1 − t_c`) -/
theorem section_hodograph (w1 w2 w3 w4 : V2 K) (sec : SectionT K) (hc : sec.t_c < 1) (s : K) :
    hodograph (section_start_point w1 w2 w3 w4 sec) (section_control_points w1 w2 w3 w4 sec).t0
      (section_control_points w1 w2 w3 w4 sec).t1 (section_end_point w1 w2 w3 w4 sec) s =
    hodograph w1 w2 w3 w4 (sec.t_c + sec.t_m * s) * sec.t_m := by
  have hcomp : (section_control_points w1 w2 w3 w4 sec).t0 = ⟨(section_control_points w1.x w2.x w3.x w4.x sec).t0, (section_control_points w1.y w2.y w3.y w4.y sec).t0⟩ ∧
      (section_control_points w1 w2 w3 w4 sec).t1 = ⟨(section_control_points w1.x w2.x w3.x w4.x sec).t1, (section_control_points w1.y w2.y w3.y w4.y sec).t1⟩ := by
    simp only [section_control_points]
    split <;> exact ⟨rfl, rfl⟩
  obtain ⟨e0, e1⟩ := hcomp
  rw [hodograph_eq, hodograph_eq, e0, e1]
  apply V2.ext'
  · exact section_hodograph_1d w1.x w2.x w3.x w4.x sec.t_c sec.t_m s hc
  · exact section_hodograph_1d w1.y w2.y w3.y w4.y sec.t_c sec.t_m s hc

/-- scaling a vector by a positive factor does not change its unit vector -/
theorem to_unit_vector_scale (hs : SqrtSpec K) (v : V2 K) (L : K) (hL : 0 < L) : to_unit_vector (v * L) = to_unit_vector v := by
  by_cases hv : v = ⟨0, 0⟩
  · subst hv
    have : ((⟨0, 0⟩ : V2 K) * L) = ⟨0, 0⟩ := by apply V2.ext' <;> simp
    rw [this]
  · have hvL : v * L ≠ ⟨0, 0⟩ := by
      intro e
      apply hv
      have hx : v.x * L = 0 := by have := congrArg V2.x e; simpa using this
      have hy : v.y * L = 0 := by have := congrArg V2.y e; simpa using this
      exact V2.ext' ((mul_eq_zero.1 hx).resolve_right hL.ne') ((mul_eq_zero.1 hy).resolve_right hL.ne')
    obtain ⟨hp, hu, _⟩ := to_unit_vector_spec hs v hv
    obtain ⟨hpL, huL, _⟩ := to_unit_vector_spec hs (v * L) hvL
    have hm : magnitude (v * L) = magnitude v * L := by
      obtain ⟨h1, h2⟩ := magnitude_sq hs v
      obtain ⟨h1L, h2L⟩ := magnitude_sq hs (v * L)
      have : magnitude (v * L) * magnitude (v * L) = (magnitude v * L) * (magnitude v * L) := by
        rw [h2L]; simp only [V2.mul_x, V2.mul_y]; linear_combination (-(L * L)) * h2
      exact (mul_self_inj h1L (mul_nonneg h1 hL.le)).1 this
    rw [hu, huL, hm]
    apply V2.ext' <;> simp only [V2.mul_x, V2.mul_y] <;> field_simp

/-- THE UNIT NORMAL OF A LEAF IS THE LIBRARY'S UNIT NORMAL OF THE ORIGINAL CURVE, taken at the original parameter that corresponds to the
    leaf's own nudged parameter: for a section of positive length `t_m` starting at `t_c < 1`,
    `unitNormalAt sec t = rot90(to_unit_vector(C'(t_c + t_m·nudged t)))`.  At `t = 0.0` this is the curve's unit normal at `t_c + t_m·ε`, at `t = 1.0`
    at `t_c + t_m − t_m·ε`: at a joint `m` the two pieces use the curve's unit normals at `m − t_m·ε` and `m + t_m'·ε`. -/
theorem unitNormalAt_eq (hs : SqrtSpec K) (w1 w2 w3 w4 : V2 K) (sec : SectionT K) (hc : sec.t_c < 1) (hL : 0 < sec.t_m) (t : K) :
    unitNormalAt w1 w2 w3 w4 sec t = rot90 (to_unit_vector (hodograph w1 w2 w3 w4 (sec.t_c + sec.t_m * nudged t))) := by
  unfold unitNormalAt
  rw [normal_at_pos_eq, unit_normal_comm, tangent_at_pos_eq, section_hodograph w1 w2 w3 w4 sec hc, to_unit_vector_scale hs _ _ hL]

/-- A SECTION OF LENGTH ZERO HAS NO NORMAL: its control polygon is a single point, tangent and normal are the zero vector and
    `to_unit_vector` maps it to the origin, so a "leaf" over it is not offset at all -/
theorem zero_length_unit_normal (hs : SqrtSpec K) (w1 w2 w3 w4 : V2 K) (sec : SectionT K) (hc : sec.t_c < 1) (hL : sec.t_m = 0) (t : K) :
    unitNormalAt w1 w2 w3 w4 sec t = ⟨0, 0⟩ := by
  unfold unitNormalAt
  rw [normal_at_pos_eq, unit_normal_comm, tangent_at_pos_eq, section_hodograph w1 w2 w3 w4 sec hc, hL]
  have : hodograph w1 w2 w3 w4 (sec.t_c + 0 * nudged t) * (0 : K) = ⟨0, 0⟩ := by apply V2.ext' <;> simp
  rw [this, to_unit_vector_zero hs]
  simp [rot90]

/-- WHAT `subdivide_offset` WOULD RETURN FOR A SECTION OF LENGTH ZERO: one or more curves that all START AND END AT THE SOURCE CURVE POINT
    `C(m)` ITSELF — not at `C(m) + n̂·d`.  This is why the repair matters: before it (no `dedup_by` after the sort, offset_scaling.rs:166-182)
    two equal entries of the extremity list (`find_extremities` returns a parameter twice when `x'` or `y'` has a double root or both vanish
    together) gave a window `(e, e)` and hence such a section; the chain jumped from the offset curve to the source curve and back, and in
    binary64, where the polygon of the zero-length section is only nearly a point and its normal is rounding noise, the pieces landed
    anywhere within `|d|` of `C(m)` or were NaN (search class `duplicate_extremity`, e.g. (85,0),(65,90),(45,60),(25,70), d = 1.39).
    With the repair no such section is formed any more: `split_params_spec`, `windows_have_positive_length`, `offset_scaling_leaf_sections`. -/
theorem zero_length_section_pieces (hs : SqrtSpec K) (w1 w2 w3 w4 : V2 K) (c0 c1 : K) (fuel : Nat) (sec : SectionT K) (depth : Nat)
    (hf : 1 ≤ fuel) (hfd : 6 ≤ fuel + depth) (hc : sec.t_c < 1) (hL : sec.t_m = 0) :
    let cs := subdivideOffset w1 w2 w3 w4 fuel sec (c0 + c1 * sec.t_c) (c0 + c1 * (sec.t_m + sec.t_c)) depth
    cs ≠ [] ∧ ∀ c ∈ cs, c.t0 = curve_point_at_pos w1 w2 w3 w4 sec.t_c ∧ c.t3 = curve_point_at_pos w1 w2 w3 w4 sec.t_c := by
  intro cs
  have hp := subdivideOffset_pieces w1 w2 w3 w4 c0 c1 (fun s => s.t_m = 0 ∧ s.t_c = sec.t_c)
    (fun s p q _ _ _ h => by
      simp only [section_subsection, section_new, section_t_for_t, h.1, h.2]
      exact ⟨by ring, by ring⟩) fuel sec depth hf hfd ⟨hL, rfl⟩
  refine ⟨hp.ne_nil, ?_⟩
  intro c hc'
  obtain ⟨s, ⟨hs0, hsc⟩, hl0, hl3⟩ := hp.all c hc'
  have hc2 : s.t_c < 1 := by rw [hsc]; exact hc
  constructor
  · rw [hl0, leafStart, zero_length_unit_normal hs w1 w2 w3 w4 s hc2 hs0, (section_ends_eq w1 w2 w3 w4 s).1, hsc]
    apply V2.ext' <;> simp
  · rw [hl3, leafEnd, zero_length_unit_normal hs w1 w2 w3 w4 s hc2 hs0, (section_ends_eq w1 w2 w3 w4 s).2, hs0, hsc, zero_add]
    apply V2.ext' <;> simp

/-- AFTER THE REPAIR EVERY LEAF SECTION OF `offset_scaling` HAS POSITIVE LENGTH AND LIES IN [0,1]: the chain of `offset_scaling_pieces` with
    the additional fact `0 ≤ t_c`, `0 < t_m`, `t_m + t_c ≤ 1` for every leaf section (kept sections have `t1 < t2`; halving keeps a positive
    length; windows are at least 0.01 long by `split_params_spec`) -/
theorem offset_scaling_leaf_sections (features_for_curve : K → CurveFeatures K) (w1 w2 w3 w4 : V2 K) (d0 d1 : K) :
    Pieces (fun s c => (0 ≤ s.t_c ∧ 0 < s.t_m ∧ s.t_m + s.t_c ≤ 1) ∧ IsOffsetLeaf w1 w2 w3 w4 (fun t => d0 + (d1 - d0) * t) s c) 0 1
      (offsetScaling features_for_curve w1 w2 w3 w4 d0 d1) := by
  unfold offsetScaling
  rw [offset_scaling_eq]
  obtain ⟨ht, hne, _, hr⟩ := kept_sections_tile features_for_curve
  refine Pieces.flatMap_tiles (IsLeaf := fun s c => (0 ≤ s.t_c ∧ 0 < s.t_m ∧ s.t_m + s.t_c ≤ 1) ∧ IsOffsetLeaf w1 w2 w3 w4 (fun t => d0 + (d1 - d0) * t) s c)
    (fun t => t) _ _ 0 1 hne ht ?_
  intro s hs
  obtain ⟨h0, h1, h2⟩ := hr s hs
  have := subdivideOffset_pieces w1 w2 w3 w4 d0 (d1 - d0) (fun s => 0 ≤ s.t_c ∧ 0 < s.t_m ∧ s.t_m + s.t_c ≤ 1)
    (fun sec p q hp hpq hq h => by
      obtain ⟨a0, a1, a2⟩ := h
      simp only [section_subsection, section_new, section_t_for_t]
      refine ⟨by have := mul_nonneg hp a1.le; linarith, ?_, ?_⟩
      · have : 0 < (q - p) * sec.t_m := mul_pos (sub_pos.2 hpq) a1
        linarith
      · have : q * sec.t_m ≤ 1 * sec.t_m := mul_le_mul_of_nonneg_right hq a1.le
        linarith)
    (maxDepth + 1 - 0) (section_new s.t0 s.t1) 0 (by simp [maxDepth]) (by simp [maxDepth])
    (by simp only [section_new]; exact ⟨h0, sub_pos.2 h1, by linarith⟩)
  simp only [section_new, sub_add_cancel] at this
  have e1 : s.t0 * (d1 - d0) + d0 = d0 + (d1 - d0) * s.t0 := by ring
  have e2 : s.t1 * (d1 - d0) + d0 = d0 + (d1 - d0) * s.t1 := by ring
  simp only [section_new, e1, e2]
  exact this

/-- HENCE EVERY CURVE `offset_scaling` RETURNS STARTS AND ENDS ON THE TRUE PARALLEL CURVE OF THE LIBRARY'S OWN UNIT NORMAL (up to the nudge):
    for every returned curve there is a section `[t_c, t_c + t_m] ⊆ [0,1]` of positive length with
    `start = C(t_c) + o(t_c)·n̂(t_c + t_m·ε)` and `end = C(t_c + t_m) + o(t_c + t_m)·n̂(t_c + t_m − t_m·ε)`, `n̂(s) = rot90(to_unit_vector(C'(s)))`
    a vector of length 1 wherever `C'(s) ≠ 0`.  (Before the repair a returned curve could belong to a section of length zero and start on
    the source curve itself.) -/
theorem offset_scaling_leaf_normals (hs : SqrtSpec K) (heps : (feps : K) ≠ 1) (features_for_curve : K → CurveFeatures K)
    (w1 w2 w3 w4 : V2 K) (d0 d1 : K) :
    ∀ c ∈ offsetScaling features_for_curve w1 w2 w3 w4 d0 d1, ∃ t_c t_m : K, 0 ≤ t_c ∧ 0 < t_m ∧ t_m + t_c ≤ 1 ∧
      c.t0 = curve_point_at_pos w1 w2 w3 w4 t_c +
        rot90 (to_unit_vector (hodograph w1 w2 w3 w4 (t_c + t_m * feps))) * (d0 + (d1 - d0) * t_c) ∧
      c.t3 = curve_point_at_pos w1 w2 w3 w4 (t_m + t_c) +
        rot90 (to_unit_vector (hodograph w1 w2 w3 w4 (t_c + t_m * (1 - feps)))) * (d0 + (d1 - d0) * (t_m + t_c)) := by
  intro c hc
  obtain ⟨sec, ⟨h0, h1, h2⟩, hl0, hl3⟩ := (offset_scaling_leaf_sections features_for_curve w1 w2 w3 w4 d0 d1).all c hc
  have hc1 : sec.t_c < 1 := by linarith
  refine ⟨sec.t_c, sec.t_m, h0, h1, h2, ?_, ?_⟩
  · rw [hl0, leafStart, (section_ends_eq w1 w2 w3 w4 sec).1, unitNormalAt_eq hs w1 w2 w3 w4 sec hc1 h1, lit0, nudged_zero heps]
  · rw [hl3, leafEnd, (section_ends_eq w1 w2 w3 w4 sec).2, unitNormalAt_eq hs w1 w2 w3 w4 sec hc1 h1, lit1, nudged_one]

/-! ### non-vacuity -/

/-- `f64::sqrt` over ℝ -/
noncomputable local instance : FSqrt ℝ := ⟨Real.sqrt⟩
/-- `Real.sqrt` is a square root in the sense of `SqrtSpec` -/
theorem sqrtSpec_real : SqrtSpec ℝ := fun x hx => ⟨Real.sqrt_nonneg x, Real.mul_self_sqrt hx⟩

/-- `f64::EPSILON = 2⁻⁵²` (the other constants are not used by the offset code) -/
local instance : FConsts ℚ := ⟨0, 0, 0, 0, 1 / 4503599627370496⟩
noncomputable local instance : FConsts ℝ := ⟨0, 0, 0, 0, 1 / 4503599627370496⟩

/-- `2⁻⁵² ≠ 1` -/
theorem feps_real_ne_one : (feps : ℝ) ≠ 1 := by
  show (1 / 4503599627370496 : ℝ) ≠ 1
  norm_num

/-- (2) the sample parameters for one inflection at 1/2 and two subdivisions -/
example : offset_lms_sample_ts (fun _ => (CurveFeatures.SingleInflectionPoint (1/2) : CurveFeatures ℚ)) 2 = some [0, 1/4, 1/2, 3/4, 1] := by
  decide +kernel
example : offset_lms_sample_ts (fun _ => (CurveFeatures.Arch : CurveFeatures ℚ)) 1 = none := by decide +kernel

/-- ℚ has no square root; the two examples below do not use it (the instance only fills the section variable) -/
local instance : FSqrt ℚ := ⟨fun x => x⟩
/-- the value of `f64::EPSILON` used in the examples -/
theorem feps_rat : (feps : ℚ) = 1 / 4503599627370496 := rfl

/-- (3) the nudge is real: at `t = 0.0` the tangent is NOT `C'(0) = 3(w2 − w1)` (its y component is `6ε(1−ε) + 6ε² > 0`), and in the interior
    the normal is the rotated hodograph -/
example : tangent_at_pos (⟨0, 0⟩ : V2 ℚ) ⟨1, 0⟩ ⟨2, 1⟩ ⟨3, 3⟩ 0 ≠ ⟨3, 0⟩ := by
  intro h
  have hy := congrArg V2.y h
  rw [tangent_at_pos_eq, nudged_zero (by rw [feps_rat]; norm_num), hodograph_eq, feps_rat] at hy
  simp only [V2.add_y, V2.sub_y, V2.mul_y] at hy
  norm_num at hy
example : normal_at_pos (⟨0, 0⟩ : V2 ℚ) ⟨1, 0⟩ ⟨2, 1⟩ ⟨3, 3⟩ (1/2) = ⟨-3, 3⟩ := by
  rw [normal_at_pos_eq, tangent_at_pos_eq, nudged_interior _ (by norm_num) (by norm_num), hodograph_eq]
  apply V2.ext' <;> simp only [rot90, V2.add_x, V2.add_y, V2.sub_x, V2.sub_y, V2.mul_x, V2.mul_y] <;> norm_num

/-- (4) a fitter that meets C08's contract (one "curve" from the first to the last sample): the hypotheses of `offset_constant_chain` are
    satisfiable, for every curve, feature function and offset over ℝ -/
example (features_for_curve : ℝ → CurveFeatures ℝ) (w1 w2 w3 w4 : V2 ℝ) (d : ℝ) :
    let cs := offset features_for_curve (fun ps _ _ _ => [((ps.head?.getD default, ps.getLast?.getD default) : V2 ℝ × V2 ℝ)]) w1 w2 w3 w4 d d
    cs ≠ [] ∧
    cs.head?.map Prod.fst = some (w1 + rot90 (to_unit_vector (hodograph w1 w2 w3 w4 feps)) * d) ∧
    cs.getLast?.map Prod.snd = some (w4 + rot90 (to_unit_vector (hodograph w1 w2 w3 w4 (1 - feps))) * d) ∧
    cs.IsChain (fun c c' => c.2 = c'.1) :=
  offset_constant_chain Prod.fst Prod.snd features_for_curve _ w1 w2 w3 w4 d feps_real_ne_one (fun ps _ _ h2 => by
    obtain ⟨a, b, ha, hb⟩ := C08.exists_head?_getLast? ps (by intro e; rw [e] at h2; simp at h2)
    exact ⟨by simp, by simp [ha], by simp [hb], List.isChain_singleton _⟩)

/-- (5) `offset_by_scaling_homothety`: focus at the origin, quarter arc from (1,0) to (0,1), offset 1/2 towards the focus: `σ = 1/2` -/
example : let r := offset_by_scaling (⟨1, 0⟩ : V2 ℝ) ⟨1, 1/2⟩ ⟨1/2, 1⟩ ⟨0, 1⟩ (1/2) (1/2) ⟨0, 0⟩ ⟨-1, 0⟩ ⟨0, -1⟩
    r.t1 - r.t0 = ((⟨1, 1/2⟩ : V2 ℝ) - ⟨1, 0⟩) * (1/2 : ℝ) := by
  have := offset_by_scaling_homothety sqrtSpec_real (⟨1, 0⟩ : V2 ℝ) ⟨1, 1/2⟩ ⟨1/2, 1⟩ ⟨0, 1⟩ ⟨0, 0⟩ ⟨-1, 0⟩ ⟨0, -1⟩ (1/2) (1/2) 1 1 (1/2)
    (by norm_num) (by norm_num) (by apply V2.ext' <;> simp) (by apply V2.ext' <;> simp) one_ne_zero one_ne_zero (by norm_num) (by norm_num) (by norm_num)
  exact this.2.2.2.2.1

/-- (5) a zero-length section in the middle of a curve: the hypotheses of `zero_length_section_pieces` are satisfiable -/
example (w1 w2 w3 w4 : V2 ℝ) (d : ℝ) :
    ∀ c ∈ subdivideOffset w1 w2 w3 w4 6 (⟨1/2, 0⟩ : SectionT ℝ) (d + 0 * (1/2)) (d + 0 * (0 + 1/2)) 0,
      c.t0 = curve_point_at_pos w1 w2 w3 w4 (1/2 : ℝ) ∧ c.t3 = curve_point_at_pos w1 w2 w3 w4 (1/2 : ℝ) :=
  (zero_length_section_pieces sqrtSpec_real w1 w2 w3 w4 d 0 6 ⟨1/2, 0⟩ 0 (by norm_num) (by norm_num) (by norm_num) rfl).2

end C10
