/-
C01  Path boolean arithmetic has exact set semantics — the decision logic.

Property theorems only.  `Gen.pred_add/sub/intersect/remove_interior/chain` and the operation layers
`Gen.path_add_layer/path_sub_layer/path_intersect_layer` (the empty-operand short-circuits in front of the
graph algorithm, which is the opaque parameter `core`) are regenerated from add.rs / sub.rs / intersect.rs /
chain_add.rs on every check.  `Model.RayCast` is the hand model of the classification machine, tied to the
code by replaying the traces recorded through hook H2.
-/
import FloVerif.Model.RayCast
import Mathlib.Tactic.Ring
import Mathlib.Tactic.NormNum
import Mathlib.Tactic.Linarith

namespace C01
open Prelude Gen Model.RayCast

/-- `c & 1` on a crossing count is its remainder mod 2 (two's complement, any sign) -/
theorem bitand_one (c : Int) : bitand c 1 = c % 2 := by
  have h2 : (0 : Int) ≤ c % 2 := Int.emod_nonneg c (by norm_num)
  have h3 : c % 2 < 2 := Int.emod_lt_of_pos c (by norm_num)
  simp only [bitand]
  rw [if_neg (by norm_num)]
  show Int.ofNat (((c.emod ((2 ^ (Nat.log2 (1 : Int).toNat + 1) : Nat) : Int)).toNat) &&& (1 : Int).toNat) = c % 2
  have hl : Nat.log2 (1 : Int).toNat + 1 = 1 := by decide
  rw [hl]
  have h1 : (1 : Int).toNat = 1 := rfl
  rw [h1, Nat.and_one_is_mod]
  have he : c.emod ((2 ^ 1 : Nat) : Int) = c % 2 := by norm_num [Int.emod_emod_of_dvd]; rfl
  rw [he]
  have hlt : (c % 2).toNat < 2 := by omega
  rw [Nat.mod_eq_of_lt hlt]
  exact Int.toNat_of_nonneg h2

/-- `(c & 1) != 0` says the count is odd -/
theorem odd_test (c : Int) : (bitand c 1 != 0) = decide (c % 2 = 1) := by
  rw [bitand_one]
  have h2 : (0 : Int) ≤ c % 2 := Int.emod_nonneg c (by norm_num)
  have h3 : c % 2 < 2 := Int.emod_lt_of_pos c (by norm_num)
  by_cases h : c % 2 = 1
  · simp [h]
  · have : c % 2 = 0 := by omega
    simp [this]

theorem even_test (c : Int) : (bitand c 1 == 0) = !decide (c % 2 = 1) := by
  rw [bitand_one]
  have h2 : (0 : Int) ≤ c % 2 := Int.emod_nonneg c (by norm_num)
  have h3 : c % 2 < 2 := Int.emod_lt_of_pos c (by norm_num)
  by_cases h : c % 2 = 1
  · simp [h]
  · have : c % 2 = 0 := by omega
    simp [this]

/-- the inside-predicates are what set algebra says, for every pair of crossing counts (even-odd rule) -/
theorem pred_spec (a b : Int) :
    pred_add [a, b] = (decide (a % 2 = 1) || decide (b % 2 = 1)) ∧
    pred_sub [a, b] = (decide (a % 2 = 1) && !decide (b % 2 = 1)) ∧
    pred_intersect [a, b] = (decide (a % 2 = 1) && decide (b % 2 = 1)) ∧
    pred_remove_interior [a, b] = (decide (a ≠ 0) || decide (b ≠ 0)) := by
  refine ⟨?_, ?_, ?_, ?_⟩
  · simp only [pred_add, listGet]; rw [show ([a, b] : List Int)[0]! = a from rfl, show ([a, b] : List Int)[1]! = b from rfl, odd_test, odd_test]
  · simp only [pred_sub, listGet]; rw [show ([a, b] : List Int)[0]! = a from rfl, show ([a, b] : List Int)[1]! = b from rfl, odd_test, even_test]
  · simp only [pred_intersect, listGet]; rw [show ([a, b] : List Int)[0]! = a from rfl, show ([a, b] : List Int)[1]! = b from rfl, odd_test, odd_test]
  · simp only [pred_remove_interior, listGet]; rw [show ([a, b] : List Int)[0]! = a from rfl, show ([a, b] : List Int)[1]! = b from rfl]
    by_cases ha : a = 0 <;> by_cases hb : b = 0 <;> simp [ha, hb]

/-- the chain predicate: some operand's count is odd (union under the even-odd rule) -/
theorem pred_chain_spec (cs : List Int) : pred_chain cs = cs.any (fun c => decide (c % 2 = 1)) := by
  simp only [pred_chain]
  have : (fun it_1 : Int => bitand it_1 1 != 0) = (fun c => decide (c % 2 = 1)) := by
    funext c; exact odd_test c
  rw [this]
  cases List.any cs fun c => decide (c % 2 = 1) <;> rfl

/-- outside every shape nothing is inside the result: all predicates are false on zero counts -/
theorem pred_zero : pred_add [0, 0] = false ∧ pred_sub [0, 0] = false ∧ pred_intersect [0, 0] = false ∧
    pred_remove_interior [0, 0] = false ∧ ∀ n, pred_chain (List.replicate n 0) = false := by
  refine ⟨by decide, by decide, by decide, by decide, ?_⟩
  intro n
  rw [pred_chain_spec]
  induction n with
  | zero => rfl
  | succ k ih => simp [List.replicate_succ, ih]

/-- add and intersect do not care about the order of the operands -/
theorem pred_symmetric (a b : Int) : pred_add [a, b] = pred_add [b, a] ∧ pred_intersect [a, b] = pred_intersect [b, a] := by
  obtain ⟨h1, _, h3, _⟩ := pred_spec a b
  obtain ⟨h1', _, h3', _⟩ := pred_spec b a
  rw [h1, h1', h3, h3']
  exact ⟨Bool.or_comm _ _, Bool.and_comm _ _⟩

/-- EMPTY OPERANDS: A+∅=A, ∅+B=B, A−∅=A, ∅−B=∅, A∩∅=∅=∅∩B for the operation layers as the code writes them,
    whatever the graph algorithm `core` does -/
theorem empty_operand_laws {PathT : Type} (core : List PathT → List PathT → List PathT) (a b : List PathT) :
    path_add_layer a [] core = a ∧ path_add_layer [] b core = b ∧
    path_sub_layer a [] core = a ∧ path_sub_layer [] b core = [] ∧
    path_intersect_layer a [] core = [] ∧ path_intersect_layer [] b core = [] := by
  refine ⟨?_, ?_, ?_, ?_, ?_, ?_⟩
  · cases a <;> simp [path_add_layer]
  · simp [path_add_layer]
  · cases a <;> simp [path_sub_layer]
  · simp [path_sub_layer]
  · simp [path_intersect_layer]
  · simp [path_intersect_layer]

/-- … and with two non-empty operands every operation is the graph algorithm -/
theorem nonempty_operands {PathT : Type} (core : List PathT → List PathT → List PathT) (a b : List PathT)
    (ha : a ≠ []) (hb : b ≠ []) :
    path_add_layer a b core = core a b ∧ path_sub_layer a b core = core a b ∧ path_intersect_layer a b core = core a b := by
  cases a with
  | nil => exact absurd rfl ha
  | cons x xs =>
    cases b with
    | nil => exact absurd rfl hb
    | cons y ys => simp [path_add_layer, path_sub_layer, path_intersect_layer]

/-! ### the classification machine -/

/-- parity of a list of Booleans -/
def parity : List Bool → Bool
  | [] => false
  | b :: bs => xor b (parity bs)

/-- whether the predicate flips across each group -/
def flips (isInside : List Int → Bool) : List Int → List (List Hit) → List Bool
  | _, [] => []
  | cs, g :: gs => (isInside cs != isInside (processGroup isInside cs g).1) :: flips isInside (processGroup isInside cs g).1 gs

def countsAfter (isInside : List Int → Bool) : List Int → List (List Hit) → List Int
  | cs, [] => cs
  | cs, g :: gs => countsAfter isInside (processGroup isInside cs g).1 gs

/-- MEMBERSHIP TELESCOPES: along any ray, the number of groups across which the inside-predicate flips is odd
    iff the predicate differs between the start and the end of the ray -/
theorem membership_telescopes (isInside : List Int → Bool) (cs : List Int) (groups : List (List Hit)) :
    parity (flips isInside cs groups) = xor (isInside cs) (isInside (countsAfter isInside cs groups)) := by
  induction groups generalizing cs with
  | nil => simp [flips, countsAfter, parity]
  | cons g gs ih =>
    simp only [flips, countsAfter, parity, ih]
    cases isInside cs <;> cases isInside (processGroup isInside cs g).1 <;>
      cases isInside (countsAfter isInside (processGroup isInside cs g).1 gs) <;> rfl

/-- starting outside everything (`isInside [0,0] = false`): odd number of flips ⇔ inside at the end -/
theorem inside_iff_odd_flips (isInside : List Int → Bool) (groups : List (List Hit)) (h0 : isInside [0, 0] = false) :
    parity (flips isInside [0, 0] groups) = isInside (countsAfter isInside [0, 0] groups) := by
  rw [membership_telescopes, h0]; simp

/-- a group marks at most one edge exterior, and exactly one iff the predicate flips across the group and
    some edge of the group may be set (not an intersection, not hit near its end) -/
theorem group_exterior_count (isInside : List Int → Bool) (cs : List Int) (g : List Hit) :
    let r := processGroup isInside cs g
    ((r.2.filter (fun e => e.2.2)).length ≤ 1) ∧
    ((r.2.filter (fun e => e.2.2)).length = 1 ↔
      (isInside cs != isInside r.1) = true ∧ ((orderGroup isInside cs g).filter (fun h => !h.isIntersection && !h.nearEnd)) ≠ []) := by
  simp only [processGroup]
  split
  · rename_i hflip
    split
    · rename_i hnil
      simp [hnil, hflip]
    · rename_i first rest hcons
      have : (List.filter (fun e : SetEvent => e.2.2) (List.map (fun h : Hit => (h.startIdx, h.edgeIdx, false)) rest)) = [] := by
        rw [List.filter_eq_nil_iff]; intro e he; simp at he; obtain ⟨_, _, rfl⟩ := he; simp
      simp [this, hcons, hflip]
  · rename_i hflip
    have : ∀ l : List Hit, (List.filter (fun e : SetEvent => e.2.2) (List.map (fun h : Hit => (h.startIdx, h.edgeIdx, false)) l)) = [] := by
      intro l; rw [List.filter_eq_nil_iff]; intro e he; simp at he; obtain ⟨_, _, rfl⟩ := he; simp
    simp [this, hflip]

/-- every edge the group may set gets exactly one kind: the events are the settable hits, in order -/
theorem group_events_cover (isInside : List Int → Bool) (cs : List Int) (g : List Hit) :
    (processGroup isInside cs g).2.map (fun e => (e.1, e.2.1)) =
      ((orderGroup isInside cs g).filter (fun h => !h.isIntersection && !h.nearEnd)).map (fun h => (h.startIdx, h.edgeIdx)) := by
  simp only [processGroup]
  split
  · split
    · rename_i hnil; simp [hnil]
    · rename_i first rest hcons; simp [hcons, Function.comp_def]
  · simp [Function.comp_def]

/-- the counter of a label changes by the sign of `side` at each crossing of an edge with that label -/
theorem bump_spec (cs : List Int) (h : Hit) (l : Nat) :
    (bump cs h).getD l 0 = cs.getD l 0 + (if l = h.label then (if h.side < 0 then -1 else if h.side > 0 then 1 else 0) else 0) := by
  have hext : ∀ k, (cs ++ List.replicate (h.label + 1 - cs.length) (0 : Int)).getD k 0 = cs.getD k 0 := by
    intro k
    simp only [List.getD_eq_getElem?_getD, List.getElem?_append]
    split
    · rfl
    · rename_i hk
      simp only [List.getElem?_replicate]
      split <;> simp [List.getElem?_eq_none (Nat.le_of_not_lt hk)]
  have hlen : h.label < (cs ++ List.replicate (h.label + 1 - cs.length) (0 : Int)).length := by
    simp only [List.length_append, List.length_replicate]; omega
  -- reading index `l` after modifying index `h.label`
  have hmod : ∀ f : Int → Int, ((cs ++ List.replicate (h.label + 1 - cs.length) (0 : Int)).modify h.label f).getD l 0 =
      if l = h.label then f (cs.getD l 0) else cs.getD l 0 := by
    intro f
    rw [List.getD_eq_getElem?_getD, List.getElem?_modify]
    by_cases hl : l = h.label
    · rw [hl]
      have h1 := hext h.label
      rw [List.getD_eq_getElem?_getD, List.getElem?_eq_getElem hlen] at h1
      simp only [Option.getD_some] at h1
      rw [List.getElem?_eq_getElem hlen]
      simp [h1]
    · have h1 := hext l
      rw [List.getD_eq_getElem?_getD] at h1
      rw [if_neg hl]
      have : (fun a : Int => if h.label = l then f a else a) = id := by
        funext a; rw [if_neg (Ne.symm hl)]; rfl
      rw [this]
      simp only [id_map]
      exact h1
  simp only [bump]
  split_ifs with h1 h2 h3
  all_goals first
    | (rw [hmod]; split_ifs <;> simp_all <;> omega)
    | (rw [hext]; simp_all)
    | (rw [hext]; simp)

/-! Non-vacuity: one ray through a shape of A then a shape of B, `add`: enters A (exterior), enters B while inside A
    (interior), leaves A inside B (interior), leaves B (exterior). -/
example : (castRay pred_add
    [[⟨0, 0, 0, 1, false, false⟩], [⟨4, 0, 1, 1, false, false⟩], [⟨2, 0, 0, -1, false, false⟩], [⟨6, 0, 1, -1, false, false⟩]]).2 =
    [(0, 0, true), (4, 0, false), (2, 0, false), (6, 0, true)] := by decide

end C01
