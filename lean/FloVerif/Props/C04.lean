/-
C04  Curve-line and line-line intersections agree with the exact root set.

Property theorems only.  `Gen.line_intersects_line`, `line_intersects_ray`, `ray_intersects_ray`,
`solve_roots`, `curve_intersects_ray`, `curve_intersects_line`, `bezier_coefficients` are regenerated from
line/intersection.rs, bezier/intersection/curve_line.rs and bezier/basis.rs on every check.
The external cubic/quadratic solver (crate `roots`) is a parameter; its contract is an explicit hypothesis.
-/
import FloVerif.Gen.Lines
import FloVerif.Gen.CurveLine
import FloVerif.Prelude.XQ
import Mathlib.Tactic.Ring
import Mathlib.Tactic.NormNum.OfScientific
import Mathlib.Tactic.FieldSimp
import Mathlib.Tactic.Linarith
import Mathlib.Tactic.LinearCombination
import Mathlib.Algebra.Order.Field.Basic
import Mathlib.Algebra.Order.AbsoluteValue.Basic

set_option linter.unusedSectionVars false
namespace C04
open Prelude Gen

variable {K : Type} [Field K] [LinearOrder K] [IsStrictOrderedRing K] [Inhabited K]

/-- in exact arithmetic `f64::abs` is the absolute value -/
local instance : FAbs K := ⟨fun a => |a|⟩

/-- the common divisor of the two line parameters -/
def divisor (l1 l2 : T2 (V2 K) (V2 K)) : K :=
  (l2.t1.y - l2.t0.y) * (l1.t1.x - l1.t0.x) - (l2.t1.x - l2.t0.x) * (l1.t1.y - l1.t0.y)

/-- the point at parameter `u` of the line through the two points -/
def along (l : T2 (V2 K) (V2 K)) (u : K) : V2 K :=
  ⟨l.t0.x + u * (l.t1.x - l.t0.x), l.t0.y + u * (l.t1.y - l.t0.y)⟩

/-- the parameter of the meeting point on the first line, as the code computes it -/
def uaOf (l1 l2 : T2 (V2 K) (V2 K)) : K :=
  ((l2.t1.x - l2.t0.x) * (l1.t0.y - l2.t0.y) - (l2.t1.y - l2.t0.y) * (l1.t0.x - l2.t0.x)) / divisor l1 l2

/-- the parameter of the meeting point on the second line, as the code computes it -/
def ubOf (l1 l2 : T2 (V2 K) (V2 K)) : K :=
  ((l1.t1.x - l1.t0.x) * (l1.t0.y - l2.t0.y) - (l1.t1.y - l1.t0.y) * (l1.t0.x - l2.t0.x)) / divisor l1 l2

/-- what the generated `line_intersects_line` computes -/
theorem lil_unfold (l1 l2 : T2 (V2 K) (V2 K)) :
    line_intersects_line l1 l2 =
      if (0 ≤ uaOf l1 l2 ∧ uaOf l1 l2 ≤ 1) ∧ (0 ≤ ubOf l1 l2 ∧ ubOf l1 l2 ≤ 1) then some (along l1 (uaOf l1 l2)) else none := by
  have h0 : (0.0 : K) = 0 := by norm_num
  have h1 : (1.0 : K) = 1 := by norm_num
  simp only [line_intersects_line, uaOf, ubOf, divisor, along, h0, h1, Bool.and_eq_true, decide_eq_true_eq]
  congr

/-- for non-parallel lines the code's parameters solve `l1(ua) = l2(ub)` -/
theorem params_meet (l1 l2 : T2 (V2 K) (V2 K)) (hD : divisor l1 l2 ≠ 0) :
    along l1 (uaOf l1 l2) = along l2 (ubOf l1 l2) := by
  simp only [divisor] at hD
  simp only [along, uaOf, ubOf, divisor, V2.mk.injEq]
  constructor <;> field_simp <;> ring

/-- … and they are the only solution -/
theorem params_unique (l1 l2 : T2 (V2 K) (V2 K)) (ua ub : K) (hD : divisor l1 l2 ≠ 0)
    (hmeet : along l1 ua = along l2 ub) : uaOf l1 l2 = ua ∧ ubOf l1 l2 = ub := by
  simp only [along, V2.mk.injEq] at hmeet
  obtain ⟨hx, hy⟩ := hmeet
  have hD' := hD
  simp only [divisor] at hD'
  constructor
  · simp only [uaOf, divisor]
    rw [div_eq_iff hD']
    linear_combination -(l2.t1.y - l2.t0.y) * hx + (l2.t1.x - l2.t0.x) * hy
  · simp only [ubOf, divisor]
    rw [div_eq_iff hD']
    linear_combination -(l1.t1.y - l1.t0.y) * hx + (l1.t1.x - l1.t0.x) * hy

/-- soundness of `line_intersects_line`: a returned point lies on both segments (parameters in [0,1]) -/
theorem lil_sound (l1 l2 : T2 (V2 K) (V2 K)) (p : V2 K) (hD : divisor l1 l2 ≠ 0)
    (h : line_intersects_line l1 l2 = some p) :
    ∃ ua ub, 0 ≤ ua ∧ ua ≤ 1 ∧ 0 ≤ ub ∧ ub ≤ 1 ∧ p = along l1 ua ∧ p = along l2 ub := by
  rw [lil_unfold] at h
  split at h
  · rename_i hc
    simp only [Option.some.injEq] at h
    exact ⟨uaOf l1 l2, ubOf l1 l2, hc.1.1, hc.1.2, hc.2.1, hc.2.2, h.symm, by rw [← h, params_meet l1 l2 hD]⟩
  · exact absurd h (by simp)

/-- completeness and uniqueness: if the two segments meet at parameters `ua, ub ∈ [0,1]` (and are not
    parallel) then exactly that point is returned -/
theorem lil_complete (l1 l2 : T2 (V2 K) (V2 K)) (ua ub : K) (hD : divisor l1 l2 ≠ 0)
    (ha0 : 0 ≤ ua) (ha1 : ua ≤ 1) (hb0 : 0 ≤ ub) (hb1 : ub ≤ 1) (hmeet : along l1 ua = along l2 ub) :
    line_intersects_line l1 l2 = some (along l1 ua) := by
  obtain ⟨e1, e2⟩ := params_unique l1 l2 ua ub hD hmeet
  rw [lil_unfold, e1, e2, if_pos ⟨⟨ha0, ha1⟩, ⟨hb0, hb1⟩⟩]

/-- … and nothing is returned when they do not meet -/
theorem lil_none (l1 l2 : T2 (V2 K) (V2 K)) (hD : divisor l1 l2 ≠ 0)
    (hno : ¬ ∃ ua ub, 0 ≤ ua ∧ ua ≤ 1 ∧ 0 ≤ ub ∧ ub ≤ 1 ∧ along l1 ua = along l2 ub) :
    line_intersects_line l1 l2 = none := by
  rw [lil_unfold]
  split
  · rename_i hc
    exact absurd ⟨uaOf l1 l2, ubOf l1 l2, hc.1.1, hc.1.2, hc.2.1, hc.2.2, params_meet l1 l2 hD⟩ hno
  · rfl

/-- what the generated `line_intersects_ray` computes: the second line is unbounded, only `ua` is range-checked -/
theorem lir_unfold (l1 l2 : T2 (V2 K) (V2 K)) :
    line_intersects_ray l1 l2 =
      if (0 ≤ uaOf l1 l2 ∧ uaOf l1 l2 ≤ 1) then some (along l1 (uaOf l1 l2)) else none := by
  have h0 : (0.0 : K) = 0 := by norm_num
  have h1 : (1.0 : K) = 1 := by norm_num
  simp only [line_intersects_ray, uaOf, divisor, along, h0, h1, Bool.and_eq_true, decide_eq_true_eq]
  congr

theorem lir_spec (l1 l2 : T2 (V2 K) (V2 K)) (hD : divisor l1 l2 ≠ 0) :
    (∀ p, line_intersects_ray l1 l2 = some p → ∃ ua ub, 0 ≤ ua ∧ ua ≤ 1 ∧ p = along l1 ua ∧ p = along l2 ub) ∧
    (∀ ua ub, 0 ≤ ua → ua ≤ 1 → along l1 ua = along l2 ub → line_intersects_ray l1 l2 = some (along l1 ua)) := by
  constructor
  · intro p h
    rw [lir_unfold] at h
    split at h
    · rename_i hc
      simp only [Option.some.injEq] at h
      exact ⟨uaOf l1 l2, ubOf l1 l2, hc.1, hc.2, h.symm, by rw [← h, params_meet l1 l2 hD]⟩
    · exact absurd h (by simp)
  · intro ua ub ha0 ha1 hmeet
    obtain ⟨e1, _⟩ := params_unique l1 l2 ua ub hD hmeet
    rw [lir_unfold, e1, if_pos ⟨ha0, ha1⟩]

/-- what the generated `ray_intersects_ray` computes: both lines unbounded, guarded by `|divisor| > 2e-12` -/
theorem rir_unfold (l1 l2 : T2 (V2 K) (V2 K)) :
    ray_intersects_ray l1 l2 =
      if |divisor l1 l2| > (2e-12 : K) then some (along l1 (uaOf l1 l2)) else none := by
  by_cases h : |divisor l1 l2| > (2e-12 : K)
  · rw [if_pos h]
    simp only [divisor] at h
    simp only [ray_intersects_ray, RAY_DIVISOR_SMALLEST_VALUE, uaOf, divisor, along, fabs, h, decide_true, if_true]
  · rw [if_neg h]
    simp only [divisor] at h
    simp only [ray_intersects_ray, RAY_DIVISOR_SMALLEST_VALUE, fabs, h, decide_false]
    rfl

theorem rir_spec (l1 l2 : T2 (V2 K) (V2 K)) :
    (|divisor l1 l2| > (2e-12 : K) →
      ray_intersects_ray l1 l2 = some (along l1 (uaOf l1 l2)) ∧ along l1 (uaOf l1 l2) = along l2 (ubOf l1 l2)) ∧
    (¬ |divisor l1 l2| > (2e-12 : K) → ray_intersects_ray l1 l2 = none) := by
  constructor
  · intro h
    have hpos : (0 : K) < 2e-12 := by norm_num
    have hD : divisor l1 l2 ≠ 0 := by
      intro e; rw [e, abs_zero] at h; exact absurd h (not_lt.2 (le_of_lt hpos))
    exact ⟨by rw [rir_unfold, if_pos h], params_meet l1 l2 hD⟩
  · intro h
    rw [rir_unfold, if_neg h]

/-! IEEE side of the parallel case: the code has no test for a zero divisor and relies on the quotient not
    lying in [0,1].  In IEEE arithmetic a quotient by zero is NaN or ±∞, so the range test fails. -/

/-- an IEEE quotient by a zero of either sign is NaN or an infinity -/
theorem xq_div_zero (x z : XQ) (hz : z.isZero = true) : x / z = XQ.nan ∨ x / z = XQ.pinf ∨ x / z = XQ.ninf := by
  have hz' : z = XQ.fin 0 ∨ z = XQ.nzero := by
    cases z with
    | fin q => left; simp [XQ.isZero] at hz; rw [hz]
    | nzero => right; rfl
    | pinf => simp [XQ.isZero] at hz
    | ninf => simp [XQ.isZero] at hz
    | nan => simp [XQ.isZero] at hz
  show XQ.div x z = _ ∨ XQ.div x z = _ ∨ XQ.div x z = _
  rcases hz' with rfl | rfl <;> cases x with
  | fin q =>
    by_cases hq : q = 0
    · subst hq; left; rfl
    · simp only [XQ.div, XQ.toRat?, XQ.mkInf, XQ.signNeg]
      by_cases h0 : q < 0 <;> simp [hq, h0]
  | nzero => left; rfl
  | pinf => simp [XQ.div, XQ.toRat?, XQ.mkInf, XQ.signNeg]
  | ninf => simp [XQ.div, XQ.toRat?, XQ.mkInf, XQ.signNeg]
  | nan => left; rfl

/-- … so it never passes a range test `lo ≤ q ∧ q ≤ hi` with finite bounds: parallel or collinear lines
    (zero divisor) make `line_intersects_line` / `line_intersects_ray` return `None` in IEEE arithmetic -/
theorem xq_div_zero_not_in_range (x z lo hi : XQ) (hz : z.isZero = true) (hlo : lo.isFinite = true) (hhi : hi.isFinite = true) :
    ¬ ((lo ≤ x / z) ∧ (x / z ≤ hi)) := by
  show ¬ (XQ.le lo (x / z) = true ∧ XQ.le (x / z) hi = true)
  rcases xq_div_zero x z hz with h | h | h <;> rw [h]
  · cases lo <;> simp [XQ.le]
  · cases hi <;> simp_all [XQ.le, XQ.isFinite]
  · cases lo <;> simp_all [XQ.le, XQ.isFinite]

/-- the divisor as the generated code computes it at `XQ` -/
def divisorXQ (l1 l2 : T2 (V2 XQ) (V2 XQ)) : XQ :=
  (l2.t1.y - l2.t0.y) * (l1.t1.x - l1.t0.x) - (l2.t1.x - l2.t0.x) * (l1.t1.y - l1.t0.y)

/-- parallel or collinear lines: with IEEE division the generated `line_intersects_line` returns `None`
    (the exact-field theorems above assume a non-zero divisor; this covers the excluded case) -/
theorem lil_zero_divisor_none (l1 l2 : T2 (V2 XQ) (V2 XQ)) (hz : (divisorXQ l1 l2).isZero = true) :
    line_intersects_line l1 l2 = none := by
  simp only [divisorXQ] at hz
  simp only [line_intersects_line]
  split
  · rename_i hc
    simp only [Bool.and_eq_true, decide_eq_true_eq] at hc
    exact absurd hc.1 (xq_div_zero_not_in_range _ _ _ _ hz rfl rfl)
  · rfl

theorem lir_zero_divisor_none (l1 l2 : T2 (V2 XQ) (V2 XQ)) (hz : (divisorXQ l1 l2).isZero = true) :
    line_intersects_ray l1 l2 = none := by
  simp only [divisorXQ] at hz
  simp only [line_intersects_ray]
  split
  · rename_i hc
    simp only [Bool.and_eq_true, decide_eq_true_eq] at hc
    exact absurd hc (xq_div_zero_not_in_range _ _ _ _ hz rfl rfl)
  · rfl


/-! ## curve against line -/

section CurveLine
variable [FSqrt K]

/-- the power-basis coefficients returned by `bezier_coefficients` are those of the Bernstein form -/
theorem coefficients_are_basis (t w1 w2 w3 w4 : K) :
    let b := bezier_coefficients w1 w2 w3 w4
    b.t0 * t ^ 3 + b.t1 * t ^ 2 + b.t2 * t + b.t3 = basis t w1 w2 w3 w4 := by
  simp only [bezier_coefficients, basis]
  norm_num
  ring

/-- line coefficients as `curve_intersects_ray` computes them -/
def lineA (l : T2 (V2 K) (V2 K)) : K := l.t1.y - l.t0.y
def lineB (l : T2 (V2 K) (V2 K)) : K := l.t0.x - l.t1.x
def lineC (l : T2 (V2 K) (V2 K)) : K := l.t0.x * (l.t0.y - l.t1.y) + l.t0.y * (l.t1.x - l.t0.x)

/-- signed (unnormalised) distance of a point from the infinite line -/
def lineDist (l : T2 (V2 K) (V2 K)) (q : V2 K) : K := lineA l * q.x + lineB l * q.y + lineC l

/-- `a x + b y + c` vanishes exactly on the infinite line through the two points -/
theorem lineDist_zero_iff (l : T2 (V2 K) (V2 K)) (q : V2 K) (hne : lineA l ≠ 0 ∨ lineB l ≠ 0) :
    lineDist l q = 0 ↔ ∃ s, q = along l s := by
  simp only [lineDist, lineA, lineB, lineC, along] at *
  constructor
  · intro h
    rcases hne with ha | hb
    · refine ⟨(q.y - l.t0.y) / (l.t1.y - l.t0.y), ?_⟩
      cases q with | mk qx qy =>
      simp only [V2.mk.injEq] at *
      constructor
      · field_simp
        linear_combination h
      · field_simp
        ring
    · refine ⟨(q.x - l.t0.x) / (l.t1.x - l.t0.x), ?_⟩
      have hb' : l.t1.x - l.t0.x ≠ 0 := fun e => hb (by linear_combination -e)
      cases q with | mk qx qy =>
      simp only [V2.mk.injEq] at *
      constructor
      · field_simp
        ring
      · field_simp
        linear_combination -h
  · rintro ⟨s, rfl⟩
    ring

/-- the cubic whose roots the solver is asked for -/
def distPoly (w1 w2 w3 w4 : V2 K) (l : T2 (V2 K) (V2 K)) : T4 K K K K :=
  let bx := bezier_coefficients w1.x w2.x w3.x w4.x
  let by_ := bezier_coefficients w1.y w2.y w3.y w4.y
  T4.mk (lineA l * bx.t0 + lineB l * by_.t0) (lineA l * bx.t1 + lineB l * by_.t1)
    (lineA l * bx.t2 + lineB l * by_.t2) (lineA l * bx.t3 + lineB l * by_.t3 + lineC l)

def polyEval (p : T4 K K K K) (t : K) : K := p.t0 * t ^ 3 + p.t1 * t ^ 2 + p.t2 * t + p.t3

/-- the cubic is the signed distance of the curve point from the line -/
theorem poly_is_signed_distance (w1 w2 w3 w4 : V2 K) (l : T2 (V2 K) (V2 K)) (t : K) :
    polyEval (distPoly w1 w2 w3 w4 l) t = lineDist l (de_casteljau4 t w1 w2 w3 w4) := by
  have hx := coefficients_are_basis t w1.x w2.x w3.x w4.x
  have hy := coefficients_are_basis t w1.y w2.y w3.y w4.y
  simp only at hx hy
  have hdx : (de_casteljau4 t w1 w2 w3 w4).x = basis t w1.x w2.x w3.x w4.x := by
    show de_casteljau4 t w1.x w2.x w3.x w4.x = _
    simp only [basis, de_casteljau4, de_casteljau3, de_casteljau2]; norm_num; ring
  have hdy : (de_casteljau4 t w1 w2 w3 w4).y = basis t w1.y w2.y w3.y w4.y := by
    show de_casteljau4 t w1.y w2.y w3.y w4.y = _
    simp only [basis, de_casteljau4, de_casteljau3, de_casteljau2]; norm_num; ring
  simp only [polyEval, distPoly, lineDist, hdx, hdy, ← hx, ← hy]
  ring

/-- the end-point snapping of a root (curve_line.rs:83-108) -/
def snap (w1 w4 : V2 K) (l : T2 (V2 K) (V2 K)) (t : K) : K :=
  let f := fsqrt (lineA l * lineA l + lineB l * lineB l)
  if t < 0 ∧ t > -0.01 then
    (if |w1.x * (lineA l / f) + w1.y * (lineB l / f) + lineC l / f| < (SMALL_DISTANCE : K) then 0 else t)
  else if t > 1 ∧ t < 1.01 then
    (if |w4.x * (lineA l / f) + w4.y * (lineB l / f) + lineC l / f| < (SMALL_DISTANCE : K) then 1 else t)
  else t

/-- the position along the line of a point (curve_line.rs:113-121) -/
def sOf (l : T2 (V2 K) (V2 K)) (q : V2 K) : K :=
  if |lineB l| > |lineA l| then (q.x - l.t0.x) / (l.t1.x - l.t0.x) else (q.y - l.t0.y) / (l.t1.y - l.t0.y)

/-- one guarded Newton-Raphson step, written as the generated code writes it: taken only if it reduces the error -/
def newtonStep (p : T4 K K K K) (t : K) : K :=
  let value := ((p.t0 * t + p.t1) * t + p.t2) * t + p.t3
  let derivative := ((3.0 : K) * p.t0 * t + (2.0 : K) * p.t1) * t + p.t2
  let next_t := t - value / derivative
  let next_value := ((p.t0 * next_t + p.t1) * next_t + p.t2) * next_t + p.t3
  if decide (|next_value| < |value|) then next_t else t

/-- the generated `polish_root` is four guarded Newton steps (none for the all-zero polynomial of a collinear line) -/
theorem polish_unfold (p : T4 K K K K) (t : K) :
    polish_root p t =
      if (((decide (|p.t0| < (0.00000001 : K)) && decide (|p.t1| < (0.00000001 : K))) && decide (|p.t2| < (0.00000001 : K))) &&
          decide (|p.t3| < (0.00000001 : K))) then t
      else newtonStep p (newtonStep p (newtonStep p (newtonStep p t))) := by
  unfold polish_root
  split
  · rename_i h; exact (if_pos (show _ = true from h)).symm
  · rename_i h
    have h' : ¬ ((((decide (|p.t0| < (0.00000001 : K)) && decide (|p.t1| < (0.00000001 : K))) && decide (|p.t2| < (0.00000001 : K))) &&
          decide (|p.t3| < (0.00000001 : K))) = true) := h
    rw [if_neg h']
    extract_lets t0 v1 d1 n1 nv1 i1 s1 v2 d2 n2 nv2 i2 s2 v3 d3 n3 nv3 i3 s3 v4 d4 n4 nv4 i4 s4
    have e1 : s1 = newtonStep p t := rfl
    have e2 : s2 = newtonStep p s1 := rfl
    have e3 : s3 = newtonStep p s2 := rfl
    have e4 : s4 = newtonStep p s3 := rfl
    rw [e4, e3, e2, e1]

theorem horner_eq (p : T4 K K K K) (t : K) : ((p.t0 * t + p.t1) * t + p.t2) * t + p.t3 = polyEval p t := by
  simp only [polyEval]; ring

theorem newtonStep_no_worse (p : T4 K K K K) (t : K) : |polyEval p (newtonStep p t)| ≤ |polyEval p t| := by
  simp only [newtonStep, ← horner_eq]
  split_ifs with h
  · exact le_of_lt (of_decide_eq_true h)
  · exact le_refl _

theorem newtonStep_of_root (p : T4 K K K K) (t : K) (h : polyEval p t = 0) : newtonStep p t = t := by
  rw [← horner_eq] at h
  simp only [newtonStep, h, abs_zero]
  rw [if_neg]
  simp only [decide_eq_true_eq]
  exact not_lt.2 (abs_nonneg _)

/-- refining never makes a root worse … -/
theorem polish_no_worse (p : T4 K K K K) (t : K) : |polyEval p (polish_root p t)| ≤ |polyEval p t| := by
  rw [polish_unfold]
  split_ifs
  · exact le_refl _
  · exact le_trans (newtonStep_no_worse p _) (le_trans (newtonStep_no_worse p _)
      (le_trans (newtonStep_no_worse p _) (newtonStep_no_worse p _)))

/-- … and leaves an exact root where it is -/
theorem polish_of_root (p : T4 K K K K) (t : K) (h : polyEval p t = 0) : polish_root p t = t := by
  rw [polish_unfold]
  split_ifs
  · rfl
  · rw [newtonStep_of_root p t h, newtonStep_of_root p t h, newtonStep_of_root p t h, newtonStep_of_root p t h]

/-- what the loop body does with one root: a root the solver places outside (-0.1, 1.1) is dropped before it is refined (it cannot
    be a hit, and a few Newton steps could drag it into [0,1] without converging: repair of curve_line.rs) -/
def hitOf (w1 w2 w3 w4 : V2 K) (l : T2 (V2 K) (V2 K)) (r : K) : Option (T3 K K (V2 K)) :=
  if ¬ (-0.1 < r ∧ r < 1.1) then none
  else
    let t := snap w1 w4 l (polish_root (distPoly w1 w2 w3 w4 l) r)
    if 0 ≤ t ∧ t ≤ 1 then some (T3.mk t (sOf l (de_casteljau4 t w1 w2 w3 w4)) (de_casteljau4 t w1 w2 w3 w4)) else none

private theorem foldl_toList {α β : Type} (g : α → Option β) (l : List α) (init : List β) :
    List.foldl (fun st x => st ++ (g x).toList) init l = init ++ l.filterMap g := by
  induction l generalizing init with
  | nil => simp
  | cons x xs ih =>
    simp only [List.foldl_cons, ih, List.filterMap_cons]
    cases g x <;> simp

private theorem ite_append {β : Type} (c : Prop) [Decidable c] (st : List β) (x : β) :
    (if c then st ++ [x] else st) = st ++ (if c then some x else none).toList := by
  split_ifs <;> simp

private theorem guard_append {β : Type} (g c : Prop) [Decidable g] [Decidable c] (st : List β) (x : β) :
    (if ¬ g then st else if c then st ++ [x] else st) = st ++ (if ¬ g then none else if c then some x else none).toList := by
  split_ifs <;> simp

/-- the generated `curve_intersects_ray` is: no hits for a degenerate line, otherwise the hits of the
    solver's roots, in the solver's order -/
theorem cir_unfold (solve : T4 K K K K → List K) (w1 w2 w3 w4 : V2 K) (l : T2 (V2 K) (V2 K)) :
    curve_intersects_ray solve w1 w2 w3 w4 l =
      if lineA l = 0 ∧ lineB l = 0 then [] else (solve (distPoly w1 w2 w3 w4 l)).filterMap (hitOf w1 w2 w3 w4 l) := by
  have h0 : (0.0 : K) = 0 := by norm_num
  have h1 : (1.0 : K) = 1 := by norm_num
  have h001 : (0.01 : K) = 0.01 := rfl
  by_cases hdeg : lineA l = 0 ∧ lineB l = 0
  · rw [if_pos hdeg]
    simp only [lineA, lineB] at hdeg
    simp only [curve_intersects_ray, h0, hdeg.1, hdeg.2, beq_self_eq_true, Bool.and_self, if_true]
  · rw [if_neg hdeg]
    have hdeg' : ¬ ((l.t1.y - l.t0.y == 0) && (l.t0.x - l.t1.x == 0)) = true := by
      simp only [Bool.and_eq_true, beq_iff_eq]; exact hdeg
    simp only [curve_intersects_ray, h0, h1, hdeg', Bool.false_eq_true, if_false, foldlT, getc]
    rw [← List.nil_append (List.filterMap _ _), ← foldl_toList]
    congr 1
    funext st r
    by_cases hg : (-0.1 : K) < r ∧ r < 1.1
    · have hg' : (!(decide (r > -(0.1 : K)) && decide (r < (1.1 : K)))) = false := by simp [hg.1, hg.2]
      simp only [hitOf, hg, not_true_eq_false, if_false, hg', Bool.false_eq_true, snap, sOf, distPoly, lineA, lineB, lineC, fabs,
        Bool.and_eq_true, decide_eq_true_eq, gt_iff_lt]
      exact ite_append _ _ _
    · have hg' : (!(decide (r > -(0.1 : K)) && decide (r < (1.1 : K)))) = true := by
        simp only [Bool.not_eq_true', Bool.and_eq_false_iff, decide_eq_false_iff_not, gt_iff_lt]
        by_contra hc; push Not at hc; exact hg hc
      simp only [hitOf, hg, not_false_eq_true, if_true, hg', Option.toList_none, List.append_nil]

/-- `curve_intersects_line` returns exactly the hits of `curve_intersects_ray` with `0 ≤ s ≤ 1` -/
theorem intersects_line_eq_filter (solve : T4 K K K K → List K) (w1 w2 w3 w4 : V2 K) (l : T2 (V2 K) (V2 K)) :
    curve_intersects_line solve w1 w2 w3 w4 l =
      (curve_intersects_ray solve w1 w2 w3 w4 l).filter (fun h => decide (0 ≤ h.t1) && decide (h.t1 ≤ 1)) := by
  have h0 : (0.0 : K) = 0 := by norm_num
  have h1 : (1.0 : K) = 1 := by norm_num
  simp only [curve_intersects_line, h0, h1]

/-- a snapped parameter is the root itself, or 0 / 1 for a root just outside [0,1] when the corresponding
    end point is within 0.001 (normalised) of the line -/
theorem snap_cases (w1 w4 : V2 K) (l : T2 (V2 K) (V2 K)) (r : K) :
    snap w1 w4 l r = r ∨ (snap w1 w4 l r = 0 ∧ -0.01 < r ∧ r < 0) ∨ (snap w1 w4 l r = 1 ∧ 1 < r ∧ r < 1.01) := by
  simp only [snap]
  split_ifs with h1 h2 h3 h4
  · right; left; exact ⟨rfl, h1.2, h1.1⟩
  · left; rfl
  · right; right; exact ⟨rfl, h3.1, h3.2⟩
  · left; rfl
  · left; rfl

/-- soundness of every hit: it comes from a root of the solver, its parameter is in [0,1], its position is
    the curve point at that parameter and `s` is computed from that position; for an unsnapped exact root
    of the distance cubic the position lies on the line at exactly `s` -/
theorem hit_sound (solve : T4 K K K K → List K) (w1 w2 w3 w4 : V2 K) (l : T2 (V2 K) (V2 K))
    (h : T3 K K (V2 K)) (hh : h ∈ curve_intersects_ray solve w1 w2 w3 w4 l) :
    (lineA l ≠ 0 ∨ lineB l ≠ 0) ∧
    ∃ r ∈ solve (distPoly w1 w2 w3 w4 l), h.t0 = snap w1 w4 l (polish_root (distPoly w1 w2 w3 w4 l) r) ∧ 0 ≤ h.t0 ∧ h.t0 ≤ 1 ∧
      h.t2 = de_casteljau4 h.t0 w1 w2 w3 w4 ∧ h.t1 = sOf l h.t2 ∧
      (polyEval (distPoly w1 w2 w3 w4 l) h.t0 = 0 → h.t2 = along l h.t1) := by
  rw [cir_unfold] at hh
  split at hh
  · exact absurd hh (by simp)
  · rename_i hdeg
    have hne : lineA l ≠ 0 ∨ lineB l ≠ 0 := by
      by_contra hc; push Not at hc; exact hdeg hc
    refine ⟨hne, ?_⟩
    rw [List.mem_filterMap] at hh
    obtain ⟨r, hr, hhit⟩ := hh
    simp only [hitOf] at hhit
    split at hhit
    · exact absurd hhit (by simp)
    split at hhit
    · rename_i hrange
      simp only [Option.some.injEq] at hhit
      subst hhit
      refine ⟨r, hr, rfl, hrange.1, hrange.2, rfl, rfl, ?_⟩
      intro hroot
      simp only at hroot ⊢
      rw [poly_is_signed_distance] at hroot
      set q := de_casteljau4 (snap w1 w4 l (polish_root (distPoly w1 w2 w3 w4 l) r)) w1 w2 w3 w4 with hq
      -- the position is on the line; `sOf` recovers its parameter
      have hA : lineA l = l.t1.y - l.t0.y := rfl
      have hB : lineB l = l.t0.x - l.t1.x := rfl
      simp only [lineDist, lineC] at hroot
      simp only [sOf, along]
      cases hqq : q with | mk qx qy =>
      rw [hqq] at hroot
      simp only at hroot ⊢
      split_ifs with hcmp
      · have hb : lineB l ≠ 0 := by
          intro e; rw [e, abs_zero] at hcmp; exact absurd hcmp (not_lt.2 (abs_nonneg _))
        have hb' : l.t1.x - l.t0.x ≠ 0 := fun e => hb (by rw [hB]; linear_combination -e)
        simp only [V2.mk.injEq]
        constructor
        · field_simp; ring
        · rw [hA, hB] at hroot
          field_simp
          linear_combination -hroot
      · have ha : lineA l ≠ 0 := by
          rcases hne with ha | hb
          · exact ha
          · intro e
            rw [e, abs_zero] at hcmp
            exact hcmp (abs_pos.2 hb)
        have ha' : l.t1.y - l.t0.y ≠ 0 := by rw [← hA]; exact ha
        simp only [V2.mk.injEq]
        constructor
        · rw [hA, hB] at hroot
          field_simp
          linear_combination hroot
        · field_simp; ring
    · exact absurd hhit (by simp)

/-- completeness, conditional on the solver contract "every real root of the cubic is returned":
    every parameter in [0,1] at which the curve meets the infinite line is reported -/
theorem hit_complete (solve : T4 K K K K → List K) (w1 w2 w3 w4 : V2 K) (l : T2 (V2 K) (V2 K))
    (hne : lineA l ≠ 0 ∨ lineB l ≠ 0)
    (hsolve : ∀ t, polyEval (distPoly w1 w2 w3 w4 l) t = 0 → t ∈ solve (distPoly w1 w2 w3 w4 l))
    (t : K) (ht0 : 0 ≤ t) (ht1 : t ≤ 1) (hon : lineDist l (de_casteljau4 t w1 w2 w3 w4) = 0) :
    ∃ h ∈ curve_intersects_ray solve w1 w2 w3 w4 l, h.t0 = t ∧ h.t2 = de_casteljau4 t w1 w2 w3 w4 := by
  rw [cir_unfold, if_neg (by rintro ⟨ha, hb⟩; rcases hne with h | h <;> contradiction)]
  have hroot : polyEval (distPoly w1 w2 w3 w4 l) t = 0 := by rw [poly_is_signed_distance]; exact hon
  have hsnap : snap w1 w4 l t = t := by
    simp only [snap]
    rw [if_neg (by rintro ⟨h, _⟩; exact absurd h (not_lt.2 ht0)), if_neg (by rintro ⟨h, _⟩; exact absurd h (not_lt.2 ht1))]
  refine ⟨T3.mk t (sOf l (de_casteljau4 t w1 w2 w3 w4)) (de_casteljau4 t w1 w2 w3 w4), ?_, rfl, rfl⟩
  rw [List.mem_filterMap]
  refine ⟨t, hsolve t hroot, ?_⟩
  have hw : (-0.1 : K) < t ∧ t < 1.1 := ⟨lt_of_lt_of_le (by norm_num) ht0, lt_of_le_of_lt ht1 (by norm_num)⟩
  simp only [hitOf, hw, and_self, not_true_eq_false, if_false, polish_of_root _ t hroot, hsnap, ht0, ht1, if_true]

/-- the cubic term is treated as negligible (curve_line.rs: absolute and relative test) -/
def negligibleLead (p : T4 K K K K) : Prop :=
  |p.t0| < 0.00000001 ∨ |p.t0| < fmax (fmax |p.t1| |p.t2|) |p.t3| * 0.00001

/-- the solver dispatch: a polynomial whose leading coefficient is not negligible goes to the cubic solver, a
    genuine quadratic (leading coefficient exactly 0) to the quadratic solver, the all-zero polynomial (curve
    on the line) reports the two ends.  For a small but non-zero leading coefficient the code drops the cubic
    term and refines the quadratic's roots with `polish_root`: an approximation no exact theorem covers. -/
theorem solve_roots_dispatch (fq : K → K → K → List K) (fc : K → K → K → K → List K) (p : T4 K K K K) :
    (¬ negligibleLead p → solve_roots fq fc p = fc p.t0 p.t1 p.t2 p.t3) ∧
    (p.t0 = 0 → (|p.t1| ≥ 0.00000001 ∨ |p.t2| ≥ 0.00000001 ∨ |p.t3| ≥ 0.00000001) → solve_roots fq fc p = fq p.t1 p.t2 p.t3) ∧
    (p.t0 = 0 → p.t1 = 0 → p.t2 = 0 → p.t3 = 0 → solve_roots fq fc p = [0, 1]) := by
  have hpos : (0 : K) < 0.00000001 := by norm_num
  refine ⟨?_, ?_, ?_⟩
  · intro h
    simp only [negligibleLead, not_or] at h
    simp only [solve_roots, fabs, h.1, h.2, decide_false, Bool.or_self, Bool.false_eq_true, if_false]
  · intro h0 h
    simp only [solve_roots, fabs, h0, abs_zero, hpos, decide_true, Bool.true_or, if_true]
    rcases h with h | h | h
    · simp only [not_lt.2 h, decide_false, Bool.false_eq_true, if_false]
    · split_ifs with h1 h2
      · simp only [Bool.and_eq_true, decide_eq_true_eq] at h2
        exact absurd h2.1 (not_lt.2 h)
      · rfl
      · rfl
    · split_ifs with h1 h2
      · simp only [Bool.and_eq_true, decide_eq_true_eq] at h2
        exact absurd h2.2 (not_lt.2 h)
      · rfl
      · rfl
  · intro h0 h1 h2 h3
    simp only [solve_roots, fabs, h0, h1, h2, h3, abs_zero, hpos, decide_true, Bool.true_or, Bool.and_self, if_true]
    norm_num

end CurveLine

/-! Non-vacuity: a concrete crossing. -/
example : line_intersects_line (K := ℚ) ⟨⟨0, 0⟩, ⟨4, 4⟩⟩ ⟨⟨0, 4⟩, ⟨4, 0⟩⟩ = some (along ⟨⟨0, 0⟩, ⟨4, 4⟩⟩ (1/2)) :=
  lil_complete _ _ (1/2) (1/2) (by simp [divisor]; norm_num) (by norm_num) (by norm_num) (by norm_num) (by norm_num)
    (by simp [along]; norm_num)

end C04
