/-
C07  Point-in-path agrees with the winding number.

`Gen.path_contains_point` (the whole function: bounds test, ray from just beyond the maximum corner of the bounding
box to the point, loop over the collisions with its `break`, signed sum, `!= 0`), `Gen.normal_at_pos`,
`Gen.tangent_at_pos` and `Gen.to_normal` are regenerated from src/bezier/path/point.rs and src/bezier/normal.rs on
every check.  `ray_collisions` (src/bezier/path/ray.rs) is a PARAMETER of the generated function: every theorem
below holds whatever it returns, and what is assumed about its result is written as a hypothesis.

Numbers are an arbitrary ordered field `K` (exact arithmetic; no NaN, no negative zero: `signum 0 = 1`).
`x as i32` is only applied to results of `signum`; all that is assumed about it is `I32Spec`: `1 ↦ 1`, `-1 ↦ -1`.

A collision is `T4 index curve_t line_t position`; a curve is the tuple of its four control points.
Definitions used in the statements (Lemmas/PointInPath.lean, namespace `PIP`):
  `rayOf bounds p`      the ray of the code: `(bounds.max + (0.01, 0.01), p)`
  `outsideBox bounds p` the test of the first `if`
  `counted l`           `l.takeWhile (¬ line_t > 1.0)`: the collisions the loop reaches before its `break`
  `dirOf curves rd c`   `(rd · normal_at_pos(curves[c.index], c.curve_t)).signum() as i32`
  `signedSum curves rd l = ((counted l).map (dirOf curves rd)).sum`
  `cross a b = a.x b.y − a.y b.x`, `rayCross p d a b ∈ {1, 0, −1}` signed crossing of the ray `p + l d (l > 0)` by the
  segment `a → b`, `wind p d vs` = sum of `rayCross` over the edges of the closed polygon `vs`.

What is NOT proved here (searched on the real code only): that `ray_collisions` returns exactly the transversal
crossings of the ray with the path (hypothesis `Faithful` below; C04/C05 territory plus the clean-up filters of ray.rs),
that its result is equivariant under reversal / change of start vertex (hypotheses of the invariance theorems), and
the passage from polygons to curved edges (Jordan-curve content).
-/
import FloVerif.Gen.PointInPath
import FloVerif.Lemmas.PointInPath
import FloVerif.Props.C05Path
import Mathlib.Tactic.IntervalCases

set_option linter.unusedSectionVars false
namespace C07
open Prelude Gen PIP

variable {K : Type} [Field K] [LinearOrder K] [IsStrictOrderedRing K] [Inhabited K] [FSqrt K] [FConsts K] [FToI32 K]

/-! ### concrete data for the non-vacuity examples

The square `(0,0)-(4,4)` built as `line_to` builds it (anticlockwise), its bounding box, the query point `(1,2)`.
The code's ray runs from `(4.01, 4.01)` to `(1,2)` and crosses the top edge (curve 2) only. -/

-- the examples run over ℚ with the same `signum`/`abs` as the theorems (the executable instances of the prelude are the same functions)
attribute [-instance] Prelude.instFSignumRat Prelude.instFAbsRat Prelude.instOfIntRat
local instance : FSqrt ℚ := ⟨id⟩
local instance : FConsts ℚ := ⟨1, -1, 1, -1, 1 / 4503599627370496⟩
/-- the prelude's `x as i32` on ℚ (truncation, saturation) satisfies the specification -/
instance : I32Spec ℚ := ⟨by decide, by decide⟩

def sqV : List (V2 ℚ) := [⟨0, 0⟩, ⟨4, 0⟩, ⟨4, 4⟩, ⟨0, 4⟩]
def sqC : List (Curve ℚ) := [lineTo ⟨0, 0⟩ ⟨4, 0⟩, lineTo ⟨4, 0⟩ ⟨4, 4⟩, lineTo ⟨4, 4⟩ ⟨0, 4⟩, lineTo ⟨0, 4⟩ ⟨0, 0⟩]
def sqB : T2 (V2 ℚ) (V2 ℚ) := T2.mk ⟨0, 0⟩ ⟨4, 4⟩
def sqP : V2 ℚ := ⟨1, 2⟩
/-- the crossing of the top edge: curve 2 at `t = 1/804`, ray position `1/201` -/
def sqHit : Coll ℚ := T4.mk 2 (1/804) (1/201) ⟨803/201, 4⟩
/-- a second, spurious pair of collisions on the right edge (curve 1), used to permute lists -/
def sqHit2 : Coll ℚ := T4.mk 1 (1/2) (1/2) ⟨4, 2⟩

/-- the example square is a polygon path: four `line_to` edges joining consecutive vertices -/
theorem sq_isPolygonPath : IsPolygonPath sqC sqV := by
  intro i hi
  have hi' : i < 4 := hi
  interval_cases i <;> exact ⟨lineTo_straight _ _, by decide +kernel, by decide +kernel⟩

/-! ### (1) what `path_contains_point` computes -/

/-- WHAT THE FUNCTION COMPUTES, for every path, point and collision list: `false` outside the bounding box, otherwise
    "the signed sum of the crossing directions of the collisions met before the first one with `line_t > 1.0` is not 0",
    where the ray runs from `bounds.max + (0.01, 0.01)` to the point and `ray_direction = point − ray start`. -/
theorem contains_eq_signed_sum (rc : List (Curve K) → T2 (V2 K) (V2 K) → List (Coll K)) (bounds : T2 (V2 K) (V2 K))
    (curves : List (Curve K)) (point : V2 K) :
    path_contains_point rc bounds curves point =
      if outsideBox bounds point then false
      else decide (signedSum curves (point - (rayOf bounds point).t0) (rc curves (rayOf bounds point)) ≠ 0) :=
  contains_eq rc bounds curves point

example : ¬ outsideBox sqB sqP ∧ signedSum sqC (sqP - (rayOf sqB sqP).t0) [sqHit] = 1 ∧
    path_contains_point (fun _ _ => [sqHit]) sqB sqC sqP = true := by decide +kernel

/-- the sum written out: a `takeWhile` (the `break`), not a filter -/
theorem signedSum_unfold (curves : List (Curve K)) (rd : V2 K) (l : List (Coll K)) :
    signedSum curves rd l =
      ((l.takeWhile (fun c => !decide (c.t2 > (1.0 : K)))).map (fun c =>
        toInt_i32 (fsignum (dot rd (normal_at_pos (listGet curves c.t0).t0 (listGet curves c.t0).t1
          (listGet curves c.t0).t2 (listGet curves c.t0).t3 c.t1))))).sum := rfl

example : signedSum sqC (sqP - (rayOf sqB sqP).t0) [sqHit, sqHit2] = 2 := by decide +kernel

/-- a point outside the bounding box is reported outside without looking at the path -/
theorem outside_box_false (rc : List (Curve K) → T2 (V2 K) (V2 K) → List (Coll K)) (bounds : T2 (V2 K) (V2 K))
    (curves : List (Curve K)) (point : V2 K) (h : outsideBox bounds point) :
    path_contains_point rc bounds curves point = false := by
  rw [contains_eq_signed_sum, if_pos h]

example : outsideBox sqB (⟨5, 2⟩ : V2 ℚ) ∧ path_contains_point (fun _ _ => [sqHit]) sqB sqC ⟨5, 2⟩ = false := by
  decide +kernel

/-- when the collision list is sorted by position on the ray (what `ray_collisions` promises), the collisions that are
    counted are exactly those with `line_t ≤ 1`: the ones between the ray's start and the point (the point included) -/
theorem counted_eq_filter_of_sorted (l : List (Coll K)) (h : l.Pairwise (fun a b => a.t2 ≤ b.t2)) :
    counted l = l.filter (fun c => decide (c.t2 ≤ 1)) := by
  rw [counted_eq_filter (stopClosed_of_sorted h)]
  congr 1
  funext c
  rw [lit1]
  by_cases h : c.t2 ≤ 1
  · simp [h, not_lt.2 h]
  · simp [h, not_le.1 h]

example : [sqHit, sqHit2, (T4.mk 0 0 2 ⟨0, 0⟩ : Coll ℚ)].Pairwise (fun a b => a.t2 ≤ b.t2) ∧
    counted [sqHit, sqHit2, (T4.mk 0 0 2 ⟨0, 0⟩ : Coll ℚ)] = [sqHit, sqHit2] := by decide +kernel

/-- HYPOTHESIS FORCED BY THE `break`: on a list that is not sorted the loop ignores collisions that lie before the point.
    Witness: a collision beyond the point (`line_t = 2`) listed before one half way (`line_t = 1/2`) -/
theorem unsorted_list_is_cut_short :
    counted [(T4.mk 0 0 2 ⟨0, 0⟩ : Coll ℚ), T4.mk 1 0 (1/2) ⟨0, 0⟩] = [] ∧
    [(T4.mk 0 0 2 ⟨0, 0⟩ : Coll ℚ), T4.mk 1 0 (1/2) ⟨0, 0⟩].filter (fun c => decide (c.t2 ≤ 1)) = [T4.mk 1 0 (1/2) ⟨0, 0⟩] := by
  constructor
  · simp [counted, List.takeWhile]; norm_num
  · simp [List.filter]; norm_num

/-! ### (2) the ray -/

/-- the ray starts strictly beyond the maximum corner of the bounding box in both coordinates - so at a point that is in
    no box `[min, max]`, hence not on or inside a path that its bounding box contains - and ends at the query point.
    (Exact arithmetic: in binary64 `max + 0.01 = max` once `|max| ≥ 2^47`: there the ray starts ON the corner of the box.) -/
theorem ray_starts_outside_box (bounds : T2 (V2 K) (V2 K)) (point : V2 K) :
    bounds.t1.x < (rayOf bounds point).t0.x ∧ bounds.t1.y < (rayOf bounds point).t0.y ∧
    (rayOf bounds point).t1 = point ∧
    ∀ q : V2 K, q.x ≤ bounds.t1.x ∨ q.y ≤ bounds.t1.y → q ≠ (rayOf bounds point).t0 := by
  obtain ⟨hx, hy⟩ := ray_start_gt bounds point
  refine ⟨hx, hy, rfl, ?_⟩
  rintro q (h | h) rfl
  · exact absurd h (not_le.2 hx)
  · exact absurd h (not_le.2 hy)

example : (rayOf sqB sqP).t0 = ⟨401/100, 401/100⟩ := by decide +kernel

/-! ### (3) the crossing direction -/

/-- the normal is the tangent turned a quarter turn anticlockwise -/
theorem normal_is_rotated_tangent (w1 w2 w3 w4 : V2 K) (t : K) :
    normal_at_pos w1 w2 w3 w4 t = V2.mk (-(tangent_at_pos w1 w2 w3 w4 t).y) (tangent_at_pos w1 w2 w3 w4 t).x :=
  normal_at_pos_eq w1 w2 w3 w4 t

example : tangent_at_pos (K := ℚ) ⟨0, 0⟩ ⟨1, 2⟩ ⟨3, 2⟩ ⟨4, 0⟩ (1/2) = ⟨9/2, 0⟩ ∧
    normal_at_pos (K := ℚ) ⟨0, 0⟩ ⟨1, 2⟩ ⟨3, 2⟩ ⟨4, 0⟩ (1/2) = ⟨0, 9/2⟩ := by decide +kernel

/-- THE DIRECTION TEST: the summand of a collision is the sign of `tangent × ray_direction`: `−1` when the curve passes
    the ray from its right to its left (seen along the ray), `+1` otherwise - including `+1` when the tangent is parallel
    to the ray (`signum(+0.0) = 1`; in binary64 the sign of the zero decides) -/
theorem direction_eq_cross_sign [I32Spec K] (curves : List (Curve K)) (rd : V2 K) (c : Coll K) :
    dirOf curves rd c = if cross (tangentOf curves c) rd < 0 then (-1 : Int) else 1 :=
  dirOf_eq curves rd c

example : 0 < cross (tangentOf sqC sqHit) (sqP - (rayOf sqB sqP).t0) ∧
    dirOf sqC (sqP - (rayOf sqB sqP).t0) sqHit = 1 := by decide +kernel

/-- the tangent used is the derivative of the curve, evaluated at `nudge t` (`t` itself except that `0` and `1` are moved
    inwards by `f64::EPSILON`) -/
theorem tangent_is_derivative [Inhabited ℝ] [FSqrt ℝ] [FConsts ℝ] [FToI32 ℝ] (w1 w2 w3 w4 : V2 ℝ) (t : ℝ) :
    HasDerivAt (fun s => (de_casteljau4 s w1 w2 w3 w4).x) (tangent_at_pos w1 w2 w3 w4 t).x (nudge t) ∧
    HasDerivAt (fun s => (de_casteljau4 s w1 w2 w3 w4).y) (tangent_at_pos w1 w2 w3 w4 t).y (nudge t) ∧
    (t ≠ 0 → t ≠ 1 → nudge t = t) := by
  rw [tangent_at_pos_eq]
  exact ⟨(hodograph_hasDerivAt w1 w2 w3 w4 (nudge t)).1, (hodograph_hasDerivAt w1 w2 w3 w4 (nudge t)).2, nudge_of_ne t⟩

example : True := by
  let _ : Inhabited ℝ := ⟨0⟩; let _ : FSqrt ℝ := ⟨id⟩; let _ : FConsts ℝ := ⟨0, 0, 0, 0, 1/2⟩; let _ : FToI32 ℝ := ⟨fun _ => 0⟩
  have h := tangent_is_derivative (⟨0, 0⟩ : V2 ℝ) ⟨1, 2⟩ ⟨3, 2⟩ ⟨4, 0⟩ (1/3)
  have : nudge (1/3 : ℝ) = 1/3 := h.2.2 (by norm_num) (by norm_num)
  trivial

/-! ### (4) the answer does not depend on the order of the list, the starting vertex, the direction of the path -/

/-- ORDER: two collision lists with the same members give the same answer, provided neither lists a collision before the
    point after one beyond it (`StopClosed`, true of sorted lists: `stopClosed_of_sorted`) -/
theorem contains_perm_invariant (rc rc' : List (Curve K) → T2 (V2 K) (V2 K) → List (Coll K)) (bounds : T2 (V2 K) (V2 K))
    (curves : List (Curve K)) (point : V2 K)
    (h : (rc curves (rayOf bounds point)).Perm (rc' curves (rayOf bounds point)))
    (hs : StopClosed (rc curves (rayOf bounds point))) (hs' : StopClosed (rc' curves (rayOf bounds point))) :
    path_contains_point rc bounds curves point = path_contains_point rc' bounds curves point := by
  rw [contains_eq_signed_sum, contains_eq_signed_sum, signedSum_perm curves _ h hs hs']

example : path_contains_point (fun _ _ => [sqHit, sqHit2]) sqB sqC sqP =
    path_contains_point (fun _ _ => [sqHit2, sqHit]) sqB sqC sqP :=
  contains_perm_invariant _ _ sqB sqC sqP (List.Perm.swap _ _ _) (by unfold StopClosed; decide +kernel)
    (by unfold StopClosed; decide +kernel)

/-- STARTING VERTEX: start the same closed path at its `k`-th curve (`curves.rotate k`; same bounding box). IF
    `ray_collisions` then returns the same collisions with the curve indices shifted accordingly, in any stop-closed
    order, the answer is the same. -/
theorem contains_start_vertex_invariant (rc rc' : List (Curve K) → T2 (V2 K) (V2 K) → List (Coll K))
    (bounds : T2 (V2 K) (V2 K)) (curves : List (Curve K)) (point : V2 K) (k : Nat)
    (hidx : ∀ c ∈ rc curves (rayOf bounds point), c.t0 < curves.length)
    (hperm : (rc' (curves.rotate k) (rayOf bounds point)).Perm
      ((rc curves (rayOf bounds point)).map (rotColl curves.length k)))
    (hs : StopClosed (rc curves (rayOf bounds point))) (hs' : StopClosed (rc' (curves.rotate k) (rayOf bounds point))) :
    path_contains_point rc' bounds (curves.rotate k) point = path_contains_point rc bounds curves point := by
  rw [contains_eq_signed_sum, contains_eq_signed_sum,
    signedSum_perm _ _ hperm hs' (stopClosed_map (rotColl curves.length k) (fun _ => rfl) hs),
    signedSum_map curves (curves.rotate k) _ _ (rotColl curves.length k) _ (fun _ => rfl)
      (fun c hc => dirOf_rot curves _ k c (hidx c hc))]

example : path_contains_point (fun _ _ => [rotColl 4 1 sqHit]) sqB (sqC.rotate 1) sqP =
    path_contains_point (fun _ _ => [sqHit]) sqB sqC sqP :=
  contains_start_vertex_invariant (fun _ _ => [sqHit]) (fun _ _ => [rotColl 4 1 sqHit]) sqB sqC sqP 1
    (by decide +kernel) (List.Perm.refl _) (by unfold StopClosed; decide +kernel) (by unfold StopClosed; decide +kernel)

/-- `reversePath` IS `BezierPath::reversed` on the list of curves: the curves of the generated `path_reversed` (translated
    from path.rs, closed form proved in C05Path) are `reversePath` of the curves of the path -/
theorem reversePath_eq_reversed (origin s : V2 K) (pts : List (T3 (V2 K) (V2 K) (V2 K))) :
    C05Path.curvesOf (path_reversed origin s pts).t0 (path_reversed origin s pts).t1 =
      reversePath (C05Path.curvesOf s pts) := by
  rw [C05Path.path_reversed_curves, reversePath, List.map_reverse]; rfl

example : C05Path.curvesOf (path_reversed (⟨0, 0⟩ : V2 ℚ) ⟨0, 0⟩ [T3.mk ⟨1, 0⟩ ⟨2, 0⟩ ⟨3, 0⟩, T3.mk ⟨3, 1⟩ ⟨3, 2⟩ ⟨3, 3⟩]).t0
    (path_reversed (⟨0, 0⟩ : V2 ℚ) ⟨0, 0⟩ [T3.mk ⟨1, 0⟩ ⟨2, 0⟩ ⟨3, 0⟩, T3.mk ⟨3, 1⟩ ⟨3, 2⟩ ⟨3, 3⟩]).t1 =
    [T4.mk ⟨3, 3⟩ ⟨3, 2⟩ ⟨3, 1⟩ ⟨3, 0⟩, T4.mk ⟨3, 0⟩ ⟨2, 0⟩ ⟨1, 0⟩ ⟨0, 0⟩] := by decide +kernel

/-- DIRECTION: reverse the path (curves in reverse order, each reversed: `reversePath_eq_reversed`). IF `ray_collisions` then returns the same
    collisions re-labelled (`index ↦ n−1−index`, `curve_t ↦ 1−curve_t`) in any stop-closed order, and every counted
    collision is transversal (`tangent × ray_direction ≠ 0`), every summand changes sign and the answer is the same.
    `f64::EPSILON ≠ 1` is needed for the end-point nudge to commute with `t ↦ 1−t`. -/
theorem contains_reversal_invariant [I32Spec K] (heps : (feps : K) ≠ 1)
    (rc rc' : List (Curve K) → T2 (V2 K) (V2 K) → List (Coll K))
    (bounds : T2 (V2 K) (V2 K)) (curves : List (Curve K)) (point : V2 K)
    (hidx : ∀ c ∈ rc curves (rayOf bounds point), c.t0 < curves.length)
    (htrans : ∀ c ∈ counted (rc curves (rayOf bounds point)),
      cross (tangentOf curves c) (point - (rayOf bounds point).t0) ≠ 0)
    (hperm : (rc' (reversePath curves) (rayOf bounds point)).Perm
      ((rc curves (rayOf bounds point)).map (revColl curves.length)))
    (hs : StopClosed (rc curves (rayOf bounds point)))
    (hs' : StopClosed (rc' (reversePath curves) (rayOf bounds point))) :
    path_contains_point rc' bounds (reversePath curves) point = path_contains_point rc bounds curves point := by
  rw [contains_eq_signed_sum, contains_eq_signed_sum,
    signedSum_perm _ _ hperm hs' (stopClosed_map (revColl curves.length) (fun _ => rfl) hs),
    signedSum_map_neg curves (reversePath curves) _ _ (revColl curves.length) _ (fun _ => rfl)
      (fun c hc => dirOf_rev heps curves _ c (hidx c (counted_subset _ c hc)) (htrans c hc))]
  congr 1
  simp only [ne_eq, neg_eq_zero]

example : path_contains_point (fun _ _ => [revColl 4 sqHit]) sqB (reversePath sqC) sqP =
    path_contains_point (fun _ _ => [sqHit]) sqB sqC sqP :=
  contains_reversal_invariant (by decide +kernel) (fun _ _ => [sqHit]) (fun _ _ => [revColl 4 sqHit]) sqB sqC sqP
    (by decide +kernel) (by decide +kernel) (List.Perm.refl _) (by unfold StopClosed; decide +kernel)
    (by unfold StopClosed; decide +kernel)

/-- TRANSVERSALITY IS NEEDED in `contains_reversal_invariant`: a collision whose tangent is parallel to the ray
    contributes `+1` for the path and `+1` again for the reversed path (`signum 0 = 1` either way) instead of changing
    sign.  Witness: the straight edge `(0,0) → (3,0)` hit by a ray of direction `(1,0)`. -/
theorem tangent_collision_not_negated [I32Spec ℚ] [FSqrt ℚ] [FConsts ℚ] (heps : (feps : ℚ) ≠ 1) :
    let c : Curve ℚ := T4.mk ⟨0, 0⟩ ⟨1, 0⟩ ⟨2, 0⟩ ⟨3, 0⟩
    let hit : Coll ℚ := T4.mk 0 (1/2) (1/2) ⟨3/2, 0⟩
    dirOf [c] ⟨1, 0⟩ hit = 1 ∧ dirOf (reversePath [c]) ⟨1, 0⟩ (revColl 1 hit) = 1 := by
  intro c hit
  have h1 : tangentOf [c] hit = ⟨3, 0⟩ := by
    apply V2.ext'
    all_goals
      simp [c, hit, tangentOf, curveOf, listGet, tangent_at_pos_eq, hodograph, de_casteljau3, de_casteljau2, nudge, lit0, lit1, lit3]
    norm_num
  have h2 : tangentOf (reversePath [c]) (revColl 1 hit) = ⟨-3, 0⟩ := by
    rw [show (1 : Nat) = [c].length from rfl, tangentOf_rev heps [c] hit (by simp [hit]), h1]
    simp
  rw [direction_eq_cross_sign, direction_eq_cross_sign, h1, h2]
  simp [cross]

example := tangent_collision_not_negated (by decide +kernel : (feps : ℚ) ≠ 1)

/-! ### (5) the winding number of a closed polygon, and the link -/

/-- MEANING OF THE CROSSING NUMBER: when neither end point is on the line of the ray, `rayCross0 d a b ≠ 0` exactly when the
    segment from `a` to `b` meets the open ray `{l·d | l > 0}` from the origin strictly inside the segment -/
theorem rayCross_ne_zero_iff_meets (d a b : V2 K) (ha : cross d a ≠ 0) (hb : cross d b ≠ 0) :
    rayCross0 d a b ≠ 0 ↔ ∃ l m : K, 0 < l ∧ 0 < m ∧ m < 1 ∧ d * l = a + (b - a) * m :=
  rayCross0_ne_zero_iff d a b ha hb

example : rayCross0 (⟨1, 0⟩ : V2 ℚ) ⟨1, -1⟩ ⟨1, 1⟩ = 1 ∧ rayCross0 (⟨1, 0⟩ : V2 ℚ) ⟨1, 1⟩ ⟨1, -1⟩ = -1 ∧
    rayCross0 (⟨1, 0⟩ : V2 ℚ) ⟨-1, -1⟩ ⟨-1, 1⟩ = 0 := by decide +kernel

/-- RAY INDEPENDENCE: for every closed polygon `vs` (any number of vertices, convex or not, self-intersecting or not),
    every point `p` that is on no edge, and any two directions whose lines through `p` pass through no vertex, the signed
    numbers of crossings of the two rays agree.  So "the winding number of the polygon about `p`" is well defined by
    counting signed crossings of any ray in general position - no topology is used: per edge the difference of the two
    crossing numbers is the change of the indicator of the sector between the rays (Plücker relation between the six
    cross products), and around a closed polygon these changes cancel. -/
theorem winding_ray_independent (p d1 d2 : V2 K) (vs : List (V2 K)) (h1 : LineAvoids p d1 vs) (h2 : LineAvoids p d2 vs)
    (hoff : OffBoundary p vs) : wind p d1 vs = wind p d2 vs :=
  wind_ray_independent p d1 d2 vs h1 h2 hoff

example : LineAvoids sqP ⟨1, 0⟩ sqV ∧ LineAvoids sqP ((rayOf sqB sqP).t0 - sqP) sqV ∧ OffBoundary sqP sqV ∧
    wind sqP ⟨1, 0⟩ sqV = 1 ∧ wind sqP ((rayOf sqB sqP).t0 - sqP) sqV = 1 := by
  unfold LineAvoids OffBoundary OffSegment; decide +kernel

/-- in particular the counts on the two opposite half-lines of a line through `p` agree (as winding numbers; as side
    changes they are negatives of each other) -/
theorem winding_opposite_rays (p d : V2 K) (vs : List (V2 K)) (h : LineAvoids p d vs) (hoff : OffBoundary p vs) :
    wind p d vs = wind p (V2.mk (-d.x) (-d.y)) vs :=
  wind_ray_independent p d _ vs h (lineAvoids_neg h) hoff

example : wind sqP ⟨1, 0⟩ sqV = 1 ∧ wind sqP ⟨-1, 0⟩ sqV = 1 := by decide +kernel

/-- the bounds rejection is sound for polygons: a point strictly outside a box that contains all vertices has winding
    number 0 (along every ray in general position) -/
theorem winding_zero_outside_box (bounds : T2 (V2 K) (V2 K)) (p d : V2 K) (vs : List (V2 K))
    (hbox : ∀ v ∈ vs, bounds.t0.x ≤ v.x ∧ v.x ≤ bounds.t1.x ∧ bounds.t0.y ≤ v.y ∧ v.y ≤ bounds.t1.y)
    (hout : outsideBox bounds p) (hd : LineAvoids p d vs) : wind p d vs = 0 := by
  rcases hout with h | h | h | h
  · apply wind_eq_zero_of_separated_any p ⟨-1, 0⟩ d vs _ hd
    intro v hv; rw [dot_eq]; simp only [sub_x, sub_y]; linarith [(hbox v hv).1]
  · apply wind_eq_zero_of_separated_any p ⟨1, 0⟩ d vs _ hd
    intro v hv; rw [dot_eq]; simp only [sub_x, sub_y]; linarith [(hbox v hv).2.1]
  · apply wind_eq_zero_of_separated_any p ⟨0, -1⟩ d vs _ hd
    intro v hv; rw [dot_eq]; simp only [sub_x, sub_y]; linarith [(hbox v hv).2.2.1]
  · apply wind_eq_zero_of_separated_any p ⟨0, 1⟩ d vs _ hd
    intro v hv; rw [dot_eq]; simp only [sub_x, sub_y]; linarith [(hbox v hv).2.2.2]

example : outsideBox sqB (⟨5, 2⟩ : V2 ℚ) ∧ LineAvoids (⟨5, 2⟩ : V2 ℚ) ⟨-1, 1/3⟩ sqV ∧ wind (⟨5, 2⟩ : V2 ℚ) ⟨-1, 1/3⟩ sqV = 0 := by
  unfold LineAvoids; decide +kernel

/-- every crossing of the code's ray (from the point towards the corner beyond the box) with an edge inside the box lies
    before the corner: nothing is lost by casting a segment instead of a half-line -/
theorem crossings_before_corner (bounds : T2 (V2 K) (V2 K)) (p a b : V2 K) (hp : p.x ≤ bounds.t1.x)
    (ha : a.x ≤ bounds.t1.x) (hb : b.x ≤ bounds.t1.x) (l m : K) (hm0 : 0 ≤ m) (hm1 : m ≤ 1)
    (hv : ((rayOf bounds p).t0 - p) * l = (a - p) + ((b - p) - (a - p)) * m) : l < 1 :=
  meets_before_corner bounds.t1 _ p a b (ray_start_gt bounds p).1 hp ha hb l m hm0 hm1 hv

example : ((rayOf sqB sqP).t0 - sqP) * (200/201 : ℚ) = ((⟨4, 4⟩ : V2 ℚ) - sqP) + (((⟨0, 4⟩ : V2 ℚ) - sqP) - (⟨4, 4⟩ - sqP)) * (1/804 : ℚ) := by
  decide +kernel

/-- THE LINK, for closed polygons given as paths of straight edges (`IsPolygonPath`: curve `i` runs from vertex `i` to
    vertex `i+1` with control points in between, as `line_to` builds them).  IF the collision list is faithful for the
    code's ray (`Faithful`: the counted collisions are, in any order, exactly one per edge that crosses the ray, with
    `curve_t ∈ [0,1]`), THEN `path_contains_point` is true exactly when the winding number of the polygon about the point
    is not 0 - the winding number counted along ANY ray `d` in general position, not just the code's.
    Remaining hypotheses: the point is on no edge, the two lines avoid the vertices, the box contains the vertices,
    `0 ≤ f64::EPSILON ≤ 1`. -/
theorem polygon_contains_iff_winding [I32Spec K] (h0e : 0 ≤ (feps : K)) (h1e : (feps : K) ≤ 1)
    (rc : List (Curve K) → T2 (V2 K) (V2 K) → List (Coll K)) (bounds : T2 (V2 K) (V2 K))
    (curves : List (Curve K)) (vs : List (V2 K)) (p d : V2 K)
    (hpoly : IsPolygonPath curves vs)
    (hbox : ∀ v ∈ vs, bounds.t0.x ≤ v.x ∧ v.x ≤ bounds.t1.x ∧ bounds.t0.y ≤ v.y ∧ v.y ≤ bounds.t1.y)
    (hoff : OffBoundary p vs) (hd : LineAvoids p d vs)
    (hray : LineAvoids p ((rayOf bounds p).t0 - p) vs)
    (hf : ¬ outsideBox bounds p → Faithful p ((rayOf bounds p).t0 - p) vs (rc curves (rayOf bounds p))) :
    path_contains_point rc bounds curves p = decide (wind p d vs ≠ 0) := by
  rw [contains_eq_signed_sum]
  by_cases hout : outsideBox bounds p
  · rw [if_pos hout, winding_zero_outside_box bounds p d vs hbox hout hd]; rfl
  · rw [if_neg hout, signedSum_polygon h0e h1e curves vs _ p _ hpoly (hf hout),
      wind_ray_independent p _ d vs hray hd hoff]

/-- all hypotheses hold for the square, its real crossing list and the horizontal ray: inside, winding number 1 -/
example : path_contains_point (fun _ _ => [sqHit]) sqB sqC sqP = decide (wind sqP ⟨1, 0⟩ sqV ≠ 0) ∧ wind sqP ⟨1, 0⟩ sqV = 1 :=
  ⟨polygon_contains_iff_winding (by decide +kernel) (by decide +kernel) (fun _ _ => [sqHit]) sqB sqC sqV sqP ⟨1, 0⟩
    sq_isPolygonPath (by decide +kernel) (by unfold OffBoundary OffSegment; decide +kernel)
    (by unfold LineAvoids; decide +kernel) (by unfold LineAvoids; decide +kernel)
    (fun _ => by unfold Faithful; decide +kernel), by decide +kernel⟩

end C07
