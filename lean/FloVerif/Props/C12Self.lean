/-
C12 / C02 / C20 (self-intersection, end to end)  WHAT `find_self_intersection_point` REPORTS, WITH THE GENERATED CLIPPER.

`C20Self` describes the recursion for any clipper; `C02Sound.returned_pairs_are_close` describes every pair the generated
`curve_intersects_curve_clip` returns.  Here the clipper IS the generated one, run - as the Rust code does - on the two halves as
curves of their own (their cubics `secCubic`), and the two results are joined through `secCubic_point` (the cubic of a section of [0,1]
is the original curve at the mapped parameter): a reported pair `(t1, t2)` names two points of THE SAME curve that are close - or it is
one of the two named exits that promise nothing (tiny final sections of the clipper).
-/
import FloVerif.Props.C02Sound
import FloVerif.Props.C20Self

set_option linter.unusedSectionVars false
namespace C12Self
open Prelude Gen FatLineLemmas ClipExact CurveClipLemmas Model.CurveClip C02Overlap C02Sound C20Self Model.SelfIntersect

variable {K : Type} [Field K] [LinearOrder K] [IsStrictOrderedRing K] [Inhabited K] [FSqrt K] [FConsts K] [FSignum K]
local instance : FAbs K := ⟨fun a => |a|⟩
local instance : OfInt K := ⟨fun n => (n : K)⟩

/-- the clipper as `find_intersection_point_in_loop` calls it: the generated `curve_intersects_curve_clip` (recursion depth `depth`, root
    solvers `sr`, `sb` arbitrary) on the cubics of the two halves -/
def genClip (sr : T4 K K K K → List K) (sb : K → K → K → K → K → List K) (w1 w2 w3 w4 : V2 K) (depth : Nat) :
    SectionT K → SectionT K → K → List (T2 K K) :=
  fun l r acc =>
    clipTop (genCtx sr sb (secCubic w1 w2 w3 w4 l).t0 (secCubic w1 w2 w3 w4 l).t1 (secCubic w1 w2 w3 w4 l).t2 (secCubic w1 w2 w3 w4 l).t3
      (secCubic w1 w2 w3 w4 r).t0 (secCubic w1 w2 w3 w4 r).t1 (secCubic w1 w2 w3 w4 r).t2 (secCubic w1 w2 w3 w4 r).t3) depth acc

theorem sub01_of_desc {d : SectionT K} (h : Desc (section_new (0.0 : K) (1.0 : K)) d) : Sub01 d := desc_range h

/-- **A REPORTED SELF-INTERSECTION IS A PAIR OF NEARBY POINTS OF THE CURVE** (generated recursion + generated clipper, any root
    solvers, any depths): an answer `(t1, t2)` that is not the out-of-fuel marker satisfies one of
    1. `|C(t1) − C(t2)|² ≤ 12·accuracy²`,
    2. `C(t1)`, `C(t2)` within `max(accuracy, 0.05)`,
    3. `C(t1)`, `C(t2)` `is_near_to` each other at `accuracy` (the clipper found nothing; the far ends of the two halves),
    4. the clipper's tiny-section exit (mid-parameters of two final sections one of which is `is_tiny`; nothing is promised there). -/
theorem reported_self_intersection_is_close (hM : 1 ≤ (fmaxval : K)) (hm : (fminval : K) ≤ 0)
    (sr : T4 K K K K → List K) (sb : K → K → K → K → K → List K) (w1 w2 w3 w4 : V2 K) (acc : K) (hacc : 0 ≤ acc)
    (depth fuel : Nat) (onLL onFuel : Option (T2 K K)) (r : T2 K K)
    (h : findSelfIntersection (genClip sr sb w1 w2 w3 w4 depth) onLL onFuel fuel w1 w2 w3 w4 acc = some r)
    (hF : onFuel ≠ some r) :
    dist2 (curve_point_at_pos w1 w2 w3 w4 r.t0) (curve_point_at_pos w1 w2 w3 w4 r.t1) ≤ 12 * (acc * acc) ∨
    Within (max acc (0.05 : K)) (curve_point_at_pos w1 w2 w3 w4 r.t0) (curve_point_at_pos w1 w2 w3 w4 r.t1) ∨
    is_near_to (curve_point_at_pos w1 w2 w3 w4 r.t0) (curve_point_at_pos w1 w2 w3 w4 r.t1) acc = true ∨
    (∃ d F1 F2 : SectionT K, Desc (section_new (0.0 : K) (1.0 : K)) d ∧
      r = T2.mk (section_t_for_t (leftOf d) (midT F1)) (section_t_for_t (rightOf d) (midT F2)) ∧
      (section_is_tiny F1 = true ∨ section_is_tiny F2 = true)) := by
  have e0 : (0.0 : K) = 0 := by norm_num
  have e1 : (1.0 : K) = 1 := by norm_num
  unfold findSelfIntersection find_self_intersection_point at h
  dsimp only at h
  split at h
  · rcases in_loop_cases (genClip sr sb w1 w2 w3 w4 depth) onLL onFuel w1 w2 w3 w4 acc fuel (section_new (0.0 : K) (1.0 : K))
      with hf | ⟨d, hd, ht, _⟩
    · exact absurd (hf.symm.trans h) hF
    · rcases terminal_some_spec _ w1 w2 w3 w4 d acc r (ht.symm.trans h) with ⟨_, hn, hr'⟩ | ⟨p, hp, hr'⟩
      · subst hr'
        right; right; left
        simpa only [section_start_point, section_end_point, e0, e1] using hn
      · subst hr'
        have hl : Sub01 (leftOf d) := sub01_of_desc (Desc.left hd)
        have hr : Sub01 (rightOf d) := sub01_of_desc (Desc.right hd)
        have hc := returned_pairs_are_close hM hm sr sb _ _ _ _ _ _ _ _ acc hacc depth p hp
        rw [secCubic_point w1 w2 w3 w4 _ hl, secCubic_point w1 w2 w3 w4 _ hr] at hc
        rcases hc with hc | ⟨F1, F2, hpe, htiny⟩ | hc
        · exact Or.inl hc
        · right; right; right
          exact ⟨d, F1, F2, hd, by rw [hpe], htiny⟩
        · exact Or.inr (Or.inl hc)
  · exact absurd h (by simp)

end C12Self
