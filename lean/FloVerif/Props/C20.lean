/-
C20  Core queries are total on finite input.

Every theorem here is about a definition that rs2lean regenerates from the Rust source on every check (`Gen.*`),
instantiated at `Prelude.XQ`: exact rational arithmetic with the IEEE-754 rules for signed zeros, x/0, 0/0, ∞−∞, 0·∞,
sqrt of negative numbers and unordered NaN comparisons, but without rounding (hence without overflow and underflow).
"Finite" = not NaN and not ±∞ (`XQ.Fin`).  A theorem `f_fin` says: for ALL finite inputs - every degenerate case
included: coincident control points, zero-length lines, parameters 0 and 1, empty sections - every number `f` returns
is finite, i.e. every division the code reaches has a non-zero divisor thanks to its guard, and every non-finite
intermediate value the code does produce (it does: see `polish_root`, `solve_line_y`, `find_extremities`) is discarded
by a comparison before it can reach the result.  Where the code is NOT total the negation is proved with a witness.

`f64::sqrt` is any function with `0 ≤ sqrt q` and `sqrt q = 0 ↔ q = 0` on the non-negative rationals (`SqrtFn`).

Out of scope (stated, not hidden): rounding, overflow (a finite exact result whose binary64 value overflows) and
underflow (e.g. `a·a + b·b` rounding to 0 for |a|,|b| < 1e-162); the guards that test the computed divisor itself
(`factor == 0.0`, `denominator == 0.0`, `|divisor| > 2e-12`, `aa != 0.0`, `|speed| < 1e-8`, `|det| < 1e-4`) are
rounding-independent, the ones that test another quantity (`t_c >= 1.0` for the divisor `1.0 - t_c`; `a == 0 && b == 0`
for `sqrt(a·a + b·b)`) rely on exact arithmetic in the proof.
-/
import FloVerif.Lemmas.XQFin
import FloVerif.Lemmas.Total
import FloVerif.Lemmas.Fit
import FloVerif.Model.Total
import FloVerif.Gen.Section
import FloVerif.Gen.Lines
import FloVerif.Gen.FatLine
import FloVerif.Gen.CurveLine
import FloVerif.Gen.CurveBounds
import FloVerif.Gen.Walk
import FloVerif.Gen.Fit
import FloVerif.Gen.Nearest
import FloVerif.Gen.Length
import FloVerif.Gen.Total
import FloVerif.Gen.PointInPath

set_option linter.unusedSectionVars false
set_option linter.unusedSimpArgs false
namespace C20
open Prelude Gen XQ Model.Total

/-- a 2-D point with finite coordinates (`Coord2`) -/
abbrev Pt := V2 XQ

/-- all four control points of a curve are finite -/
def CurveFin (c : T4 Pt Pt Pt Pt) : Prop := V2.Fin c.t0 ∧ V2.Fin c.t1 ∧ V2.Fin c.t2 ∧ V2.Fin c.t3

/-- an example square-root function for the non-vacuity examples (any function meeting `SqrtFn` will do) -/
@[reducible] def exSqrt : SqrtFn where
  s := fun q => if q = 0 then 0 else (q + 1) / 2
  nonneg := fun q h => by split_ifs <;> [exact le_rfl; exact by linarith]
  zero_iff := fun q h => by
    constructor
    · intro h1; by_contra h2; rw [if_neg h2] at h1; linarith
    · intro h1; rw [if_pos h1]

/-- a degenerate curve: all control points equal -/
def pt5 : Pt := ⟨fin 5, fin 5⟩
theorem pt5_fin : V2.Fin pt5 := ⟨rfl, rfl⟩

/-! ## 1. Division-free kernels: finite in, finite out -/

/-- `basis`, `de_casteljau2/3/4` (and with them `point_at_pos` at every parameter, 0 and 1 included) return a finite
    point for finite control points and a finite parameter -/
theorem eval_fin (t : XQ) (w1 w2 w3 w4 : Pt) (ht : Fin t) (h1 : V2.Fin w1) (h2 : V2.Fin w2) (h3 : V2.Fin w3) (h4 : V2.Fin w4) :
    V2.Fin (basis t w1 w2 w3 w4) ∧ V2.Fin (de_casteljau4 t w1 w2 w3 w4) ∧ V2.Fin (de_casteljau3 t w1 w2 w3) ∧
    V2.Fin (de_casteljau2 t w1 w2) ∧ V2.Fin (curve_point_at_pos w1 w2 w3 w4 t) := by
  simp only [curve_point_at_pos, basis, de_casteljau4, de_casteljau3, de_casteljau2]
  refine ⟨?_, ?_, ?_, ?_, ?_⟩ <;> xq_fin

example : V2.Fin (curve_point_at_pos pt5 pt5 pt5 pt5 (1.0 : XQ)) :=
  (eval_fin _ _ _ _ _ fin_one_lit pt5_fin pt5_fin pt5_fin pt5_fin).2.2.2.2

/-- `subdivide` at any finite parameter (0 and 1 included) returns two curves with finite control points -/
theorem subdivide_fin (t : XQ) (w1 w2 w3 w4 : Pt) (ht : Fin t) (h1 : V2.Fin w1) (h2 : V2.Fin w2) (h3 : V2.Fin w3) (h4 : V2.Fin w4) :
    CurveFin (curve_subdivide w1 w2 w3 w4 t).t0 ∧ CurveFin (curve_subdivide w1 w2 w3 w4 t).t1 := by
  simp only [CurveFin, curve_subdivide, subdivide4, de_casteljau2]
  refine ⟨⟨?_, ?_, ?_, ?_⟩, ⟨?_, ?_, ?_, ?_⟩⟩ <;> xq_fin

example : CurveFin (curve_subdivide pt5 pt5 pt5 pt5 (0.0 : XQ)).t0 :=
  (subdivide_fin _ _ _ _ _ fin_zero_lit pt5_fin pt5_fin pt5_fin pt5_fin).1

/-- the power-basis coefficients, the derivative control points and a reversed curve are finite -/
theorem coefficients_fin (a b c d : XQ) (w1 w2 w3 w4 : Pt) (ha : Fin a) (hb : Fin b) (hc : Fin c) (hd : Fin d)
    (h1 : V2.Fin w1) (h2 : V2.Fin w2) (h3 : V2.Fin w3) (h4 : V2.Fin w4) :
    (let p := bezier_coefficients a b c d; Fin p.t0 ∧ Fin p.t1 ∧ Fin p.t2 ∧ Fin p.t3) ∧
    (let q := derivative4 w1 w2 w3 w4; V2.Fin q.t0 ∧ V2.Fin q.t1 ∧ V2.Fin q.t2) ∧
    CurveFin (curve_reverse w1 w2 w3 w4) := by
  simp only [CurveFin, bezier_coefficients, derivative4, curve_reverse]
  refine ⟨⟨?_, ?_, ?_, ?_⟩, ⟨?_, ?_, ?_⟩, ⟨?_, ?_, ?_, ?_⟩⟩ <;> xq_fin

example : CurveFin (curve_reverse pt5 pt5 pt5 pt5) :=
  (coefficients_fin _ _ _ _ _ _ _ _ fin_one_lit fin_one_lit fin_one_lit fin_one_lit pt5_fin pt5_fin pt5_fin pt5_fin).2.2

/-! ## 2. Sections -/

/-- the numeric state of a section is finite -/
def SecFin (s : SectionT XQ) : Prop := Fin s.t_c ∧ Fin s.t_m

/-- `CurveSection::new`, `t_for_t`, `subsection`, `original_curve_t_values`: finite for finite parameters - whatever
    their order or range (a = b, a > b, outside [0,1]) -/
theorem section_params_fin (a b t : XQ) (s : SectionT XQ) (ha : Fin a) (hb : Fin b) (ht : Fin t) (hs : SecFin s) :
    SecFin (section_new a b) ∧ Fin (section_t_for_t s t) ∧ SecFin (section_subsection s a b) ∧
    Fin (section_original_curve_t_values s).t0 ∧ Fin (section_original_curve_t_values s).t1 := by
  obtain ⟨hc, hm⟩ := hs
  simp only [SecFin, section_new, section_t_for_t, section_subsection, section_original_curve_t_values]
  refine ⟨⟨?_, ?_⟩, ?_, ⟨?_, ?_⟩, ?_, ?_⟩ <;> xq_fin

/-- the section `curve.section(a, b)` has a finite state -/
theorem section_new_fin (a b : XQ) (ha : Fin a) (hb : Fin b) : SecFin (section_new a b) :=
  (section_params_fin a b a ⟨fin 0, fin 0⟩ ha hb ha ⟨rfl, rfl⟩).1

/-- the empty section at the end of the curve, `section(1.0, 1.0)` -/
def sec11 : SectionT XQ := section_new (1.0 : XQ) (1.0 : XQ)
theorem sec11_fin : SecFin sec11 := section_new_fin _ _ fin_one_lit fin_one_lit

example : SecFin (section_subsection sec11 (0.0 : XQ) (0.0 : XQ)) :=
  (section_params_fin _ _ (0.0 : XQ) _ fin_zero_lit fin_zero_lit fin_zero_lit sec11_fin).2.2.1

/-- start point, end point and any point of a section are finite -/
theorem section_points_fin (w1 w2 w3 w4 : Pt) (s : SectionT XQ) (t : XQ) (h1 : V2.Fin w1) (h2 : V2.Fin w2) (h3 : V2.Fin w3)
    (h4 : V2.Fin w4) (hs : SecFin s) (ht : Fin t) :
    V2.Fin (section_start_point w1 w2 w3 w4 s) ∧ V2.Fin (section_end_point w1 w2 w3 w4 s) ∧
    V2.Fin (section_point_at_pos w1 w2 w3 w4 s t) := by
  obtain ⟨hc, hm⟩ := hs
  simp only [section_start_point, section_end_point, section_point_at_pos, section_t_for_t, curve_point_at_pos, basis]
  refine ⟨?_, ?_, ?_⟩ <;> xq_fin

example : V2.Fin (section_end_point pt5 pt5 pt5 pt5 sec11) :=
  (section_points_fin _ _ _ _ _ (0.0 : XQ) pt5_fin pt5_fin pt5_fin pt5_fin sec11_fin fin_zero_lit).2.1

/-- the `t_max` of `CurveSection::control_points` (section.rs:134, repaired guard `t_c >= 1.0`): finite for every finite section -/
theorem section_tmax_fin (s : SectionT XQ) (hs : SecFin s) :
    Fin (if decide (s.t_c ≥ (1.0 : XQ)) then (0.0 : XQ) else s.t_m / ((1.0 : XQ) - s.t_c)) := by
  obtain ⟨hc, hm⟩ := hs
  split_ifs with h
  · exact fin_zero_lit
  · apply fin_div hm ((fin_sub_iff _ _).2 ⟨fin_one_lit, hc⟩)
    rw [val_sub fin_one_lit hc, val_one_lit]
    simp only [decide_eq_true_eq, ge_iff_le] at h
    rw [le_iff fin_one_lit hc, val_one_lit] at h
    intro h0; apply h; linarith

/-- SECTION CONTROL POINTS ARE TOTAL (defect F4 and its repair): for every finite curve and every finite section -
    `t_c = 1` (where the unrepaired code computed 0/0), `t_c > 1`, empty sections `a = b`, reversed sections - both
    control points are finite: the divisor `1 − t_c` is only reached when `t_c < 1` -/
theorem section_control_points_fin (w1 w2 w3 w4 : Pt) (s : SectionT XQ) (h1 : V2.Fin w1) (h2 : V2.Fin w2) (h3 : V2.Fin w3)
    (h4 : V2.Fin w4) (hs : SecFin s) :
    V2.Fin (section_control_points w1 w2 w3 w4 s).t0 ∧ V2.Fin (section_control_points w1 w2 w3 w4 s).t1 := by
  have ht := section_tmax_fin s hs
  obtain ⟨hc, hm⟩ := hs
  simp only [section_control_points, de_casteljau2]
  generalize (if decide (s.t_c ≥ (1.0 : XQ)) then (0.0 : XQ) else s.t_m / ((1.0 : XQ) - s.t_c)) = tmax at ht ⊢
  constructor <;> xq_fin

example : V2.Fin (section_control_points pt5 pt5 pt5 pt5 sec11).t0 :=
  (section_control_points_fin _ _ _ _ _ pt5_fin pt5_fin pt5_fin pt5_fin sec11_fin).1

/-- NOT TOTAL: `section_t_for_original_t` divides by `t_m` without a guard; for an empty section (`a = b`, as produced by
    `section(0.5, 0.5)` or by clipping to a single point) the result is not finite, whatever `t` is.  (A parameter
    conversion is not one of the operations C20 enumerates and the inverse of a constant map is undefined: the catalogue
    counts this as information, not as a failure.  The library's only own use, `join_subsections` in curve_curve_clip.rs,
    feeds the result into the comparison `|right − left| < 0.1` only.) -/
theorem section_t_for_original_t_not_total (a t : XQ) (ha : Fin a) :
    ¬ Fin (section_t_for_original_t (section_new a a) t) := by
  simp only [section_t_for_original_t, section_new]
  refine not_fin_div_zero ?_ ((fin_sub_iff _ _).2 ⟨ha, ha⟩)
  rw [val_sub ha ha]; ring

/-- it is finite exactly when the section is not empty -/
theorem section_t_for_original_t_fin_iff (s : SectionT XQ) (t : XQ) (hs : SecFin s) (ht : Fin t) :
    Fin (section_t_for_original_t s t) ↔ val s.t_m ≠ 0 := by
  obtain ⟨hc, hm⟩ := hs
  simp only [section_t_for_original_t]
  exact fin_div_iff ((fin_sub_iff _ _).2 ⟨ht, hc⟩) hm

example : ¬ Fin (section_t_for_original_t (section_new (0.5 : XQ) (0.5 : XQ)) (0.5 : XQ)) :=
  section_t_for_original_t_not_total _ _ (fin_ofScientific ..)

/-! ## 3. Lines -/

/-- both end points of a line are finite -/
def LineFin (l : T2 Pt Pt) : Prop := V2.Fin l.t0 ∧ V2.Fin l.t1

/-- three finite coefficients -/
def CoeffFin (c : T3 XQ XQ XQ) : Prop := Fin c.t0 ∧ Fin c.t1 ∧ Fin c.t2

/-- a zero-length line (both end points equal) -/
def pointLine : T2 Pt Pt := ⟨pt5, pt5⟩
theorem pointLine_fin : LineFin pointLine := ⟨pt5_fin, pt5_fin⟩

/-- `line_coefficients_2d_unnormalized` IS TOTAL: for every finite line - a point line (both offsets zero: the repaired
    guard returns (0,0,0)), horizontal, vertical - the coefficients are finite: the code divides by the offset of larger
    magnitude, which is non-zero once the offsets are not both zero -/
theorem line_coefficients_unnormalized_fin (l : T2 Pt Pt) (hl : LineFin l) : CoeffFin (line_coefficients_2d_unnormalized l) := by
  obtain ⟨h0, h1⟩ := hl
  generalize hr : line_coefficients_2d_unnormalized l = r
  have hox : Fin (l.t1.x - l.t0.x) := by xq_fin
  have hoy : Fin (l.t1.y - l.t0.y) := by xq_fin
  simp only [line_coefficients_2d_unnormalized, V2.sub_x, V2.sub_y, decide_eq_true_eq] at hr
  unfold CoeffFin
  split_ifs at hr with hz hgt hpos hpos <;> subst hr
  · exact ⟨fin_zero_lit, fin_zero_lit, fin_zero_lit⟩
  · have ha := fin_div hoy hox (abs_gt_ne hox hoy hgt)
    xq_fin
  · have ha := fin_div hoy hox (abs_gt_ne hox hoy hgt)
    xq_fin
  · have ha := fin_div hox hoy (abs_not_gt_ne hox hoy hgt hz)
    xq_fin
  · have ha := fin_div hox hoy (abs_not_gt_ne hox hoy hgt hz)
    xq_fin

example : CoeffFin (line_coefficients_2d_unnormalized pointLine) := line_coefficients_unnormalized_fin _ pointLine_fin

section
variable [SqrtFn]

/-- `line_coefficients_2d` (`Line2D::coefficients`) IS TOTAL (defect F6 and its repair f5fb198): the normalisation divides
    by `factor = sqrt(a² + b²)` only after testing `factor == 0.0` -/
theorem line_coefficients_fin (l : T2 Pt Pt) (hl : LineFin l) : CoeffFin (line_coefficients_2d l) := by
  have hu := line_coefficients_unnormalized_fin l hl
  simp only [line_coefficients_2d, CoeffFin] at hu ⊢
  generalize line_coefficients_2d_unnormalized l = u at hu ⊢
  obtain ⟨ha, hb, hc⟩ := hu
  have hf := fin_hypot ha hb
  split_ifs with hz
  · exact ⟨fin_zero_lit, fin_zero_lit, fin_zero_lit⟩
  · have hne := ne_of_not_beq_zero hf hz
    exact ⟨fin_div ha hf hne, fin_div hb hf hne, fin_div hc hf hne⟩

example : CoeffFin (line_coefficients_2d pointLine) := line_coefficients_fin _ pointLine_fin

/-- A POINT LINE HAS ZERO COEFFICIENTS: for a zero-length line `line_coefficients_2d` returns exactly (0, 0, 0) (the value
    `LineCoefficients::is_point` tests for) -/
theorem line_coefficients_point (p : Pt) (hp : V2.Fin p) :
    line_coefficients_2d (T2.mk p p) = T3.mk (0.0 : XQ) (0.0 : XQ) (0.0 : XQ) := by
  obtain ⟨hx, hy⟩ := hp
  have h1 : ((p.x - p.x) == (0.0 : XQ)) = true := by
    rw [beq_iff ((fin_sub_iff _ _).2 ⟨hx, hx⟩) fin_zero_lit, val_sub hx hx, val_zero_lit]; ring
  have h2 : ((p.y - p.y) == (0.0 : XQ)) = true := by
    rw [beq_iff ((fin_sub_iff _ _).2 ⟨hy, hy⟩) fin_zero_lit, val_sub hy hy, val_zero_lit]; ring
  have hu : line_coefficients_2d_unnormalized (T2.mk p p) = T3.mk (0.0 : XQ) (0.0 : XQ) (0.0 : XQ) := by
    simp only [line_coefficients_2d_unnormalized, V2.sub_x, V2.sub_y, h1, h2, Bool.and_self, if_true]
  have h3 : (fsqrt ((0.0 : XQ) * (0.0 : XQ) + (0.0 : XQ) * (0.0 : XQ)) == (0.0 : XQ)) = true := by
    rw [beq_iff (fin_hypot fin_zero_lit fin_zero_lit) fin_zero_lit, val_zero_lit,
      val_hypot_eq_zero_iff fin_zero_lit fin_zero_lit]
    exact ⟨val_zero_lit, val_zero_lit⟩
  simp only [line_coefficients_2d, hu, h3, if_true]

example : line_coefficients_2d pointLine = T3.mk (0.0 : XQ) (0.0 : XQ) (0.0 : XQ) := line_coefficients_point _ pt5_fin

/-- signed distance of a point to a line (`LineCoefficients::distance_to`, `FatLine::distance`), a point on a line
    (`Line::point_at_pos`), `is_near_to`'s squared distance: finite (no division) -/
theorem line_distance_fin (c : T3 XQ XQ XQ) (p : Pt) (l : T2 Pt Pt) (t : XQ) (hc : CoeffFin c) (hp : V2.Fin p) (hl : LineFin l) (ht : Fin t) :
    Fin (coefficients_distance_to c p) ∧ V2.Fin (line_point_at_pos l t) := by
  obtain ⟨ha, hb, hcc⟩ := hc
  obtain ⟨⟨h1a, h1b⟩, ⟨h1c, h1d⟩⟩ := hl
  simp only [coefficients_distance_to, line_point_at_pos]
  constructor <;> xq_fin

example : Fin (coefficients_distance_to (line_coefficients_2d pointLine) pt5) :=
  (line_distance_fin _ _ pointLine (0.0 : XQ) (line_coefficients_fin _ pointLine_fin) pt5_fin pointLine_fin fin_zero_lit).1

/-- `LineCoefficients::nearest_point` divides by `a² + b²` without a guard: the result is finite exactly when the
    coefficients are not those of a point -/
theorem coefficients_nearest_point_fin_iff (c : T3 XQ XQ XQ) (p : Pt) (hc : CoeffFin c) (hp : V2.Fin p) :
    V2.Fin (coefficients_nearest_point c p) ↔ ¬ (val c.t0 = 0 ∧ val c.t1 = 0) := by
  obtain ⟨ha, hb, hcc⟩ := hc
  obtain ⟨hx, hy⟩ := hp
  have hd : Fin (c.t0 * c.t0 + c.t1 * c.t1) := by xq_fin
  have hn1 : Fin (-c.t0 * c.t2 - c.t1 * (-c.t1 * p.x + c.t0 * p.y)) := by xq_fin
  have hn2 : Fin (c.t0 * (-c.t1 * p.x + c.t0 * p.y) - c.t1 * c.t2) := by xq_fin
  simp only [coefficients_nearest_point, V2.fin_mk, fin_div_iff hn1 hd, fin_div_iff hn2 hd, and_self, val_sq_add_sq ha hb]
  constructor
  · rintro h ⟨h1, h2⟩; apply h; rw [h1, h2]; ring
  · intro h h0
    apply h
    have h1 := mul_self_nonneg (val c.t0); have h2 := mul_self_nonneg (val c.t1)
    exact ⟨mul_self_eq_zero.1 (by linarith), mul_self_eq_zero.1 (by linarith)⟩

/-- NOT TOTAL (known finding `non_finite.line_distance_nearest_pos.point_line`): `(p, p).nearest_point(q)` is not finite
    for ANY finite `p`, `q`: the coefficients of a point line are (0,0,0) and `nearest_point` divides 0 by 0 -/
theorem point_line_nearest_point_not_finite (p q : Pt) (hp : V2.Fin p) (hq : V2.Fin q) :
    ¬ V2.Fin (coefficients_nearest_point (line_coefficients_2d (T2.mk p p)) q) := by
  rw [line_coefficients_point p hp,
    coefficients_nearest_point_fin_iff _ _ ⟨fin_zero_lit, fin_zero_lit, fin_zero_lit⟩ hq]
  exact fun h => h ⟨val_zero_lit, val_zero_lit⟩

example : ¬ V2.Fin (coefficients_nearest_point (line_coefficients_2d pointLine) ⟨fin 1, fin 2⟩) :=
  point_line_nearest_point_not_finite _ _ pt5_fin ⟨rfl, rfl⟩

/-- `Line::pos_for_point` IS TOTAL: it divides by a line component only after testing `|component| > 0.000001`; a point
    line gives 0 -/
theorem line_pos_for_point_fin (l : T2 Pt Pt) (p : Pt) (hl : LineFin l) (hp : V2.Fin p) : Fin (tot_line_pos_for_point l p) := by
  obtain ⟨⟨h1a, h1b⟩, ⟨h1c, h1d⟩⟩ := hl
  obtain ⟨hx, hy⟩ := hp
  have h6 : (0:ℚ) ≤ val (0.000001 : XQ) := by rw [val_ofScientific]; norm_num
  simp only [tot_line_pos_for_point, getc, Bool.and_eq_true, decide_eq_true_eq, V2.sub_x, V2.sub_y]
  simp only [show ((0:Nat) == 0) = true from rfl, show ((1:Nat) == 0) = false from rfl, if_true, Bool.false_eq_true, if_false]
  split_ifs with h1 h2
  · exact fin_div (by xq_fin) (by xq_fin) (ne_of_abs_gt (by xq_fin) (fin_ofScientific ..) h6 h1.1)
  · exact fin_div (by xq_fin) (by xq_fin) (ne_of_abs_gt (by xq_fin) (fin_ofScientific ..) h6 h2.1)
  · exact fin_zero_lit

example : Fin (tot_line_pos_for_point pointLine pt5) := line_pos_for_point_fin _ _ pointLine_fin pt5_fin

end

/-- `line_intersects_line` / `line_intersects_ray` divide by the cross product of the directions WITHOUT a guard; the
    unguarded division is shown harmless here: a point is only returned after the range test `0 ≤ ua ≤ 1`, which no
    non-finite `ua` passes (parallel, collinear, zero-length lines give `None`), so every returned point is finite -/
theorem line_intersects_line_fin (l1 l2 : T2 Pt Pt) (h1 : LineFin l1) (h2 : LineFin l2) :
    (∀ p, line_intersects_line l1 l2 = some p → V2.Fin p) ∧ (∀ p, line_intersects_ray l1 l2 = some p → V2.Fin p) := by
  obtain ⟨⟨h1a, h1b⟩, ⟨h1c, h1d⟩⟩ := h1
  obtain ⟨⟨h2a, h2b⟩, ⟨h2c, h2d⟩⟩ := h2
  constructor
  · intro p hp
    simp only [line_intersects_line, Bool.and_eq_true, decide_eq_true_eq] at hp
    split_ifs at hp with h
    obtain ⟨⟨ha0, ha1⟩, _⟩ := h
    have hua := fin_of_le_of_le fin_zero_lit fin_one_lit ha0 ha1
    simp only [Option.some.injEq] at hp
    subst hp
    generalize ((l2.t1.x - l2.t0.x) * (l1.t0.y - l2.t0.y) - (l2.t1.y - l2.t0.y) * (l1.t0.x - l2.t0.x)) /
              ((l2.t1.y - l2.t0.y) * (l1.t1.x - l1.t0.x) - (l2.t1.x - l2.t0.x) * (l1.t1.y - l1.t0.y)) = ua at hua
    xq_fin
  · intro p hp
    simp only [line_intersects_ray, Bool.and_eq_true, decide_eq_true_eq] at hp
    split_ifs at hp with h
    obtain ⟨ha0, ha1⟩ := h
    have hua := fin_of_le_of_le fin_zero_lit fin_one_lit ha0 ha1
    simp only [Option.some.injEq] at hp
    subst hp
    generalize ((l2.t1.x - l2.t0.x) * (l1.t0.y - l2.t0.y) - (l2.t1.y - l2.t0.y) * (l1.t0.x - l2.t0.x)) /
              ((l2.t1.y - l2.t0.y) * (l1.t1.x - l1.t0.x) - (l2.t1.x - l2.t0.x) * (l1.t1.y - l1.t0.y)) = ua at hua
    xq_fin

example : ∀ p, line_intersects_line pointLine pointLine = some p → V2.Fin p :=
  (line_intersects_line_fin _ _ pointLine_fin pointLine_fin).1

/-- `ray_intersects_ray` has no range test but a guard: it divides only when `|divisor| > RAY_DIVISOR_SMALLEST_VALUE`
    (ray.rs / intersection.rs:84), so every returned point is finite -/
theorem ray_intersects_ray_fin (l1 l2 : T2 Pt Pt) (h1 : LineFin l1) (h2 : LineFin l2) :
    ∀ p, ray_intersects_ray l1 l2 = some p → V2.Fin p := by
  obtain ⟨⟨h1a, h1b⟩, ⟨h1c, h1d⟩⟩ := h1
  obtain ⟨⟨h2a, h2b⟩, ⟨h2c, h2d⟩⟩ := h2
  intro p hp
  simp only [ray_intersects_ray, decide_eq_true_eq] at hp
  split_ifs at hp with h
  have hd : Fin ((l2.t1.y - l2.t0.y) * (l1.t1.x - l1.t0.x) - (l2.t1.x - l2.t0.x) * (l1.t1.y - l1.t0.y)) := by xq_fin
  have hn : Fin ((l2.t1.x - l2.t0.x) * (l1.t0.y - l2.t0.y) - (l2.t1.y - l2.t0.y) * (l1.t0.x - l2.t0.x)) := by xq_fin
  have hne := ne_of_abs_gt hd (fin_ofScientific ..) (by simp only [val_ofScientific]; norm_num) h
  have hua := fin_div hn hd hne
  simp only [Option.some.injEq] at hp
  subst hp
  xq_fin

example : ∀ p, ray_intersects_ray pointLine pointLine = some p → V2.Fin p := ray_intersects_ray_fin _ _ pointLine_fin pointLine_fin

/-! ## 4. Fat lines and Bezier clipping -/

/-- a fat line with finite bounds and coefficients -/
def FatFin (f : FatLineT XQ) : Prop := Fin f.d_min ∧ Fin f.d_max ∧ CoeffFin f.coeff

/-- the four control points of a curve, one of each theorem's hypotheses -/
def Ctl (w1 w2 w3 w4 : Pt) : Prop := V2.Fin w1 ∧ V2.Fin w2 ∧ V2.Fin w3 ∧ V2.Fin w4
theorem ctl5 : Ctl pt5 pt5 pt5 pt5 := ⟨pt5_fin, pt5_fin, pt5_fin, pt5_fin⟩

/-- `FatLine::clip_t` RETURNS FINITE PARAMETERS FOR EVERY INPUT WHATSOEVER - finite or not, any fat line, any curve.
    Inside, `solve_line_y` divides by `p2.x − p1.x` without a guard and does return `Some(NaN)` for a vertical hull edge
    (see `solve_line_y_not_total`), but a solved value only enters `t1`/`t2` after the range test `0 ≤ t ≤ 1`, which no
    NaN or infinity passes; the other candidates are the hull ordinates 0, 1/3, 2/3, 1 and the sentinels `f64::MAX/MIN`,
    and the final case analysis (fat_line.rs:198-224) never lets a sentinel out... except as a finite number -/
theorem clip_t_fin (f : FatLineT XQ) (w1 w2 w3 w4 : Pt) :
    ∀ r, clip_t f w1 w2 w3 w4 = some r → Fin r.t0 ∧ Fin r.t1 := by
  intro r hr
  unfold clip_t at hr
  extract_lets dc hull n t1 t2 dmin dmax upd at hr
  have hy : ∀ i, Fin (listGet hull i).y := by
    intro i
    unfold listGet
    by_cases hi : i < hull.length
    · rw [getElem!_pos hull i hi]
      have hm := List.getElem_mem hi
      generalize hull[i] = p at hm
      simp only [hull, dc, distance_curve_convex_hull, fat_distance_curve] at hm
      split_ifs at hm <;> simp only [List.mem_cons, List.not_mem_nil, or_false] at hm <;>
        rcases hm with rfl | rfl | rfl | rfl <;>
        first | exact fin_zero_lit | exact fin_one_lit | exact fin_div (fin_ofScientific ..) (fin_ofScientific ..) (by rw [val_ofScientific]; norm_num)
    · rw [getElem!_neg hull i hi]; rfl
  have hst : Fin upd.t0 ∧ Fin upd.t1 := by
    apply foldlT_inv (fun s : T2 XQ XQ => Fin s.t0 ∧ Fin s.t1)
    · exact ⟨fin_fmaxval, fin_fminval⟩
    · intro b a hb
      extract_lets s1 s2 idx tup2 p1 p2 hl tup3 t1a t2a u1 a1 a2 u2 b1 b2 m3 M3 u3 c1 c2 m4 M4 u4 d1 d2
      clear_value tup3
      clear_value t1a t2a
      have h1 : Fin u1.t0 ∧ Fin u1.t1 := by
        simp only [u1]
        split
        · split_ifs with hc
          · simp only [Bool.and_eq_true, decide_eq_true_eq] at hc
            exact fin_minmax_upd hb.1 hb.2 (fin_of_le_of_le fin_zero_lit fin_one_lit hc.1 hc.2)
          · exact hb
        · exact hb
      have h2 : Fin u2.t0 ∧ Fin u2.t1 := by
        simp only [u2]
        split
        · split_ifs with hc
          · simp only [Bool.and_eq_true, decide_eq_true_eq] at hc
            exact fin_minmax_upd h1.1 h1.2 (fin_of_le_of_le fin_zero_lit fin_one_lit hc.1 hc.2)
          · exact h1
        · exact h1
      have hp1 : Fin p1.y := hy idx
      have hp2 : Fin p2.y := hy ((idx + 1) % n)
      have h3 : Fin u3.t0 ∧ Fin u3.t1 := by
        simp only [u3]
        split_ifs
        · exact fin_minmax_upd h2.1 h2.2 hp1
        · exact h2
      have h4 : Fin u4.t0 ∧ Fin u4.t1 := by
        simp only [u4]
        split_ifs
        · exact fin_minmax_upd h3.1 h3.2 hp2
        · exact h3
      exact h4
  split_ifs at hr <;> simp only [Option.some.injEq, reduceCtorEq] at hr <;> subst hr <;>
    first | exact ⟨fin_zero_lit, fin_one_lit⟩ | exact ⟨fin_zero_lit, hst.2⟩ | exact ⟨hst.1, fin_one_lit⟩ | exact hst


example : ∀ r, clip_t ⟨nan, pinf, ⟨nan, nan, nan⟩⟩ pt5 pt5 pt5 pt5 = some r → Fin r.t0 ∧ Fin r.t1 := clip_t_fin _ _ _ _ _

section
variable [SqrtFn]

/-- `FatLine::from_line_and_points` is finite for every finite line (a point line included: zero coefficients) -/
theorem from_line_and_points_fin (l : T2 Pt Pt) (p1 p2 : Pt) (hl : LineFin l) (h1 : V2.Fin p1) (h2 : V2.Fin p2) :
    FatFin (from_line_and_points l p1 p2) := by
  obtain ⟨ha, hb, hc⟩ := line_coefficients_fin l hl
  simp only [from_line_and_points, FatFin, CoeffFin]
  generalize line_coefficients_2d l = co at ha hb hc
  have h34 : Fin ((3.0 : XQ) / (4.0 : XQ)) := fin_lit_div _ _ _ _ _ _ (by norm_num)
  have h49 : Fin ((4.0 : XQ) / (9.0 : XQ)) := fin_lit_div _ _ _ _ _ _ (by norm_num)
  obtain ⟨h1x, h1y⟩ := h1
  obtain ⟨h2x, h2y⟩ := h2
  have hd1 : Fin (co.t0 * p1.x + co.t1 * p1.y + co.t2) := by xq_fin
  have hd2 : Fin (co.t0 * p2.x + co.t1 * p2.y + co.t2) := by xq_fin
  have hmin := fin_fmin (fin_fmin hd1 hd2) fin_zero_lit
  have hmax := fin_fmax (fin_fmax hd1 hd2) fin_zero_lit
  refine ⟨?_, ?_, ha, hb, hc⟩ <;> split_ifs <;> exact (fin_mul_iff _ _).2 ⟨by assumption, by assumption⟩


example : FatFin (from_line_and_points pointLine pt5 pt5) := from_line_and_points_fin _ _ _ pointLine_fin pt5_fin pt5_fin

/-- `FatLine::from_curve` and `from_curve_perpendicular` ARE TOTAL: for every finite curve - all control points equal,
    start = end (the `is_near_to` fallback to the direction cp2 − cp1), start = end and cp1 = cp2 (a point line: zero
    coefficients, zero width) - the fat line has finite bounds and coefficients -/
theorem fat_from_curve_fin (w1 w2 w3 w4 : Pt) (h : Ctl w1 w2 w3 w4) : FatFin (fat_from_curve w1 w2 w3 w4) := by
  obtain ⟨h1, h2, h3, h4⟩ := h
  unfold fat_from_curve
  refine from_line_and_points_fin _ _ _ ?_ h2 h3
  simp only []
  split_ifs
  · exact ⟨h1, by show V2.Fin (w1 + (w3 - w2)); xq_fin⟩
  · exact ⟨h1, h4⟩

example : FatFin (fat_from_curve pt5 pt5 pt5 pt5) := fat_from_curve_fin _ _ _ _ ctl5

/-- the same for the perpendicular fat line (its base line is built from the mid point of the chord, or of the
    fallback direction, and is a point line for a point curve) -/
theorem fat_from_curve_perpendicular_fin (w1 w2 w3 w4 : Pt) (h : Ctl w1 w2 w3 w4) :
    FatFin (fat_from_curve_perpendicular w1 w2 w3 w4) := by
  obtain ⟨h1, h2, h3, h4⟩ := h
  unfold fat_from_curve_perpendicular
  extract_lets tup1 sp ep0 tup2 cp1 cp2 ep line mid off0 off target line2 tup4 a b c d1 d2 d3 d4 dmin dmax
  have hep : V2.Fin ep := by
    simp only [ep]; split_ifs
    · simp only [sp, tup1, cp1, cp2, tup2]; xq_fin
    · exact h4
  have hmid : V2.Fin mid := by
    simp only [mid, line_point_at_pos, line, sp, tup1]
    obtain ⟨hx, hy⟩ := hep
    xq_fin
  have hl2 : LineFin line2 := by
    refine ⟨hmid, ?_⟩
    simp only [line2, target, off, off0, sp, tup1]
    obtain ⟨hx, hy⟩ := hmid
    xq_fin
  obtain ⟨ha, hb, hc⟩ := line_coefficients_fin line2 hl2
  have ha' : Fin a := ha
  have hb' : Fin b := hb
  have hc' : Fin c := hc
  obtain ⟨hex, hey⟩ := hep
  have hd1 : Fin d1 := by simp only [d1, sp, tup1]; xq_fin
  have hd2 : Fin d2 := by simp only [d2, cp1, tup2]; xq_fin
  have hd3 : Fin d3 := by simp only [d3, cp2, tup2]; xq_fin
  have hd4 : Fin d4 := by simp only [d4]; xq_fin
  exact ⟨fin_fmin (fin_fmin (fin_fmin hd1 hd2) hd3) hd4, fin_fmax (fin_fmax (fin_fmax hd1 hd2) hd3) hd4, ha, hb, hc⟩

example : FatFin (fat_from_curve_perpendicular pt5 pt5 pt5 pt5) := fat_from_curve_perpendicular_fin _ _ _ _ ctl5


/-- the distance curve of a finite curve to a finite fat line is finite (ordinates 0, 1/3, 2/3, 1) -/
theorem fat_distance_curve_fin (f : FatLineT XQ) (w1 w2 w3 w4 : Pt) (hf : FatFin f) (h : Ctl w1 w2 w3 w4) :
    CurveFin (fat_distance_curve f w1 w2 w3 w4) := by
  obtain ⟨h1, h2, h3, h4⟩ := h
  obtain ⟨_, _, ha, hb, hc⟩ := hf
  have h13 : Fin ((1.0 : XQ) / (3.0 : XQ)) := fin_lit_div _ _ _ _ _ _ (by norm_num)
  have h23 : Fin ((2.0 : XQ) / (3.0 : XQ)) := fin_lit_div _ _ _ _ _ _ (by norm_num)
  simp only [CurveFin, fat_distance_curve, fat_distance]
  refine ⟨?_, ?_, ?_, ?_⟩ <;> xq_fin

example : CurveFin (fat_distance_curve (fat_from_curve pt5 pt5 pt5 pt5) pt5 pt5 pt5 pt5) :=
  fat_distance_curve_fin _ _ _ _ _ (fat_from_curve_fin _ _ _ _ ctl5) ctl5

/-- `clip` (curve_curve_clip.rs:85-127) returns finite parameter ranges for every input: both `clip_t` results are
    finite and the widening of a single-point range (`t1 == t2`) is clamped to [0,1] -/
theorem clip_fin (c1 c2 c3 c4 a1 a2 a3 a4 : Pt) :
    ∀ r, clip c1 c2 c3 c4 a1 a2 a3 a4 = ClipResult.Some r → Fin r.t0 ∧ Fin r.t1 := by
  intro r hr
  unfold clip at hr
  extract_lets fl ct pl ctp ct' at hr
  have h1 : ∀ r, ct = some r → Fin r.t0 ∧ Fin r.t1 := clip_t_fin fl c1 c2 c3 c4
  have h2 : ∀ r, ctp = some r → Fin r.t0 ∧ Fin r.t1 := clip_t_fin pl c1 c2 c3 c4
  have hct' : ∀ q, ct' = ClipResult.Some q → Fin q.t0 ∧ Fin q.t1 := by
    intro q hq
    simp only [ct'] at hq
    clear_value ct ctp
    cases ct with
    | none => simp only [reduceCtorEq] at hq
    | some r1 =>
      cases ctp with
      | none => simp only [reduceCtorEq] at hq
      | some r2 =>
        simp only [] at hq
        split_ifs at hq <;> simp only [ClipResult.Some.injEq] at hq <;> subst hq
        · exact h1 _ rfl
        · exact h2 _ rfl
  clear_value ct'
  split_ifs at hr
  cases ct' with
  | None => simp only [reduceCtorEq] at hr
  | SecondCurveIsLinear => simp only [reduceCtorEq] at hr
  | Some q =>
    have := hct' _ rfl
    obtain ⟨t1, t2⟩ := q
    simp only [] at hr
    split_ifs at hr <;> simp only [ClipResult.Some.injEq] at hr <;> subst hr
    · refine ⟨fin_fmax ?_ fin_zero_lit, fin_fmin ?_ fin_one_lit⟩ <;> xq_fin
    · exact this

example : ∀ r, clip pt5 pt5 pt5 pt5 pt5 pt5 pt5 pt5 = ClipResult.Some r → Fin r.t0 ∧ Fin r.t1 := clip_fin _ _ _ _ _ _ _ _

end

/-! ## 5. Curve / line intersection -/

/-- one guarded Newton-Raphson step of `polish_root`, as the generated code writes it -/
def newtonStep (p : T4 XQ XQ XQ XQ) (t : XQ) : XQ :=
  let value := ((p.t0 * t + p.t1) * t + p.t2) * t + p.t3
  let derivative := ((3.0 : XQ) * p.t0 * t + (2.0 : XQ) * p.t1) * t + p.t2
  let next_t := t - value / derivative
  let next_value := ((p.t0 * next_t + p.t1) * next_t + p.t2) * next_t + p.t3
  if decide (fabs next_value < fabs value) then next_t else t

/-- the generated `polish_root` is the identity or four guarded Newton steps -/
theorem polish_unfold (p : T4 XQ XQ XQ XQ) (t : XQ) :
    polish_root p t = newtonStep p (newtonStep p (newtonStep p (newtonStep p t))) ∨ polish_root p t = t := by
  unfold polish_root
  split
  · right; rfl
  · left
    extract_lets t0 v1 d1 n1 nv1 i1 s1 v2 d2 n2 nv2 i2 s2 v3 d3 n3 nv3 i3 s3 v4 d4 n4 nv4 i4 s4
    have e1 : s1 = newtonStep p t := rfl
    have e2 : s2 = newtonStep p s1 := rfl
    have e3 : s3 = newtonStep p s2 := rfl
    have e4 : s4 = newtonStep p s3 := rfl
    rw [e4, e3, e2, e1]

example : polish_root ⟨fin 0, fin 0, fin 0, fin 0⟩ (fin 3) = fin 3 := by decide +kernel

/-- a Newton step divides by the derivative WITHOUT a guard (`value / derivative`, curve_line.rs:62) and does produce
    ±∞ or NaN at a stationary point; the step is only taken when `|next_value| < |value|`, which a non-finite
    `next_value` never satisfies - and `next_value` is non-finite whenever `next_t` is.  So a step keeps a finite
    parameter finite, for EVERY polynomial (coefficients finite or not) -/
theorem newtonStep_fin (p : T4 XQ XQ XQ XQ) (t : XQ) (ht : Fin t) : Fin (newtonStep p t) := by
  simp only [newtonStep]
  split_ifs with h
  · simp only [decide_eq_true_eq] at h
    have := fin_of_abs_lt h
    simp only [fin_add_iff, fin_mul_iff] at this
    exact this.1.2
  · exact ht

/-- the stationary point t = 0 of t² − 1: value −1, derivative 0, the division gives −∞ … and the step is not taken -/
example : newtonStep ⟨fin 0, fin 1, fin 0, fin (-1)⟩ (fin 0) = fin 0 := by decide +kernel

/-- `polish_root` IS TOTAL: a finite root estimate stays finite, for every polynomial -/
theorem polish_root_fin (p : T4 XQ XQ XQ XQ) (t : XQ) (ht : Fin t) : Fin (polish_root p t) := by
  rcases polish_unfold p t with h | h <;> rw [h]
  · exact newtonStep_fin _ _ (newtonStep_fin _ _ (newtonStep_fin _ _ (newtonStep_fin _ _ ht)))
  · exact ht

example : Fin (polish_root ⟨fin 0, fin 1, fin 0, fin (-1)⟩ (fin 0)) := polish_root_fin _ _ rfl

/-- `solve_roots` adds nothing non-finite to what the external solvers (crate `roots`) return: `[0.0, 1.0]` for the zero
    polynomial, the solvers' roots otherwise -/
theorem solve_roots_fin (quad : XQ → XQ → XQ → List XQ) (cubic : XQ → XQ → XQ → XQ → List XQ) (p : T4 XQ XQ XQ XQ)
    (hq : ∀ a b c, ∀ r ∈ quad a b c, Fin r) (hc : ∀ a b c d, ∀ r ∈ cubic a b c d, Fin r) :
    ∀ r ∈ solve_roots quad cubic p, Fin r := by
  intro r hr
  simp only [solve_roots] at hr
  split_ifs at hr
  · simp only [List.mem_cons, List.not_mem_nil, or_false] at hr
    rcases hr with rfl | rfl
    · exact fin_zero_lit
    · exact fin_one_lit
  · exact hq _ _ _ r hr
  · exact hq _ _ _ r hr
  · exact hc _ _ _ _ r hr

example : ∀ r ∈ solve_roots (fun _ _ _ => []) (fun _ _ _ _ => []) (⟨fin 0, fin 0, fin 0, fin 0⟩ : T4 XQ XQ XQ XQ), Fin r :=
  solve_roots_fin _ _ _ (by simp) (by simp)

/-- a hit `(t, s, position)` of `curve_intersects_ray` with finite components -/
def HitFin (h : T3 XQ XQ Pt) : Prop := Fin h.t0 ∧ Fin h.t1 ∧ V2.Fin h.t2

section
variable [SqrtFn]

/-- `curve_intersects_ray` IS TOTAL, WHATEVER THE ROOT SOLVER RETURNS (NaN and ±∞ roots included): for every finite
    curve and finite line every reported hit has a finite curve parameter, line parameter and position.  A point line
    (`a == 0 && b == 0`) returns no hits before anything is divided; a root is only reported after the range test
    `0 ≤ t ≤ 1`; the line parameter divides by `p2.x − p1.x` only if `|b| > |a|` (so `b = p1.x − p2.x ≠ 0`) and by
    `p2.y − p1.y = a` otherwise (then `a ≠ 0` because not both vanish).  The end-point snapping divides by
    `sqrt(a² + b²)`, which only feeds a comparison. -/
theorem curve_intersects_ray_fin (solve : T4 XQ XQ XQ XQ → List XQ) (w1 w2 w3 w4 : Pt) (line : T2 Pt Pt)
    (hw : Ctl w1 w2 w3 w4) (hl : LineFin line) :
    ∀ h ∈ curve_intersects_ray solve w1 w2 w3 w4 line, HitFin h := by
  obtain ⟨h1, h2, h3, h4⟩ := hw
  obtain ⟨⟨hl0x, hl0y⟩, ⟨hl1x, hl1y⟩⟩ := hl
  unfold curve_intersects_ray
  extract_lets p1 p2 a b c tup1 v2 v3 tup2 v1 v4 bx by_ p roots roots' res0 factor tup4 a' b' c' sp ep upd result
  have ha : Fin a := by simp only [a, p1, p2]; xq_fin
  have hb : Fin b := by simp only [b, p1, p2]; xq_fin
  split_ifs with hz
  · simp
  · apply foldlT_inv (fun res : List (T3 XQ XQ Pt) => ∀ h ∈ res, HitFin h)
    · simp [res0]
    · intro res root hres
      extract_lets +onlyGivenNames r0 t0
      by_cases hwin : (!(decide (t0 > -(0.1 : XQ)) && decide (t0 < (1.1 : XQ)))) = true
      · rw [if_pos hwin]; exact hres
      · rw [if_neg hwin]
        extract_lets t1 t pos x y s res1 res2
        clear_value t
        simp only [res2]
        split_ifs with hrange
        · simp only [Bool.and_eq_true, decide_eq_true_eq] at hrange
          have ht : Fin t := fin_of_le_of_le fin_zero_lit fin_one_lit hrange.1 hrange.2
          have hpos : V2.Fin pos := (eval_fin t w1 w2 w3 w4 ht h1 h2 h3 h4).2.1
          obtain ⟨hpx, hpy⟩ := hpos
          have hs : Fin s := by
            simp only [s, decide_eq_true_eq]
            split_ifs with hba
            · have hne : val (p2.x - p1.x) ≠ 0 := by
                have hb0 := abs_gt_ne hb ha hba
                simp only [b, p1, p2] at hb0 ⊢
                rw [val_sub hl0x hl1x] at hb0; rw [val_sub hl1x hl0x]
                intro h0; apply hb0; linarith
              exact fin_div (by simp only [x, p1]; xq_fin) (by simp only [p1, p2]; xq_fin) hne
            · have hne : val (p2.y - p1.y) ≠ 0 := abs_not_gt_ne hb ha hba (by rwa [Bool.and_comm] at hz)
              exact fin_div (by simp only [y, p1]; xq_fin) (by simp only [p1, p2]; xq_fin) hne
          intro h hh
          simp only [res1, List.mem_append, List.mem_singleton] at hh
          rcases hh with hh | hh
          · exact hres h hh
          · subst hh
            exact ⟨ht, hs, hpx, hpy⟩
        · exact hres

example : ∀ h ∈ curve_intersects_ray (fun _ => [nan, pinf, fin 0]) pt5 pt5 pt5 pt5 pointLine, HitFin h :=
  curve_intersects_ray_fin _ _ _ _ _ _ ctl5 pointLine_fin

/-- `curve_intersects_line` keeps a subset of the ray hits -/
theorem curve_intersects_line_fin (solve : T4 XQ XQ XQ XQ → List XQ) (w1 w2 w3 w4 : Pt) (line : T2 Pt Pt)
    (hw : Ctl w1 w2 w3 w4) (hl : LineFin line) :
    ∀ h ∈ curve_intersects_line solve w1 w2 w3 w4 line, HitFin h := by
  intro h hh
  simp only [curve_intersects_line] at hh
  exact curve_intersects_ray_fin solve w1 w2 w3 w4 line hw hl h (List.mem_filter.1 hh).1

example : ∀ h ∈ curve_intersects_line (fun _ => [fin 0]) pt5 pt5 pt5 pt5 ⟨pt5, ⟨fin 6, fin 7⟩⟩, HitFin h :=
  curve_intersects_line_fin _ _ _ _ _ _ ctl5 ⟨pt5_fin, ⟨rfl, rfl⟩⟩

end

/-! ## 6. Bounding boxes (per coordinate axis, as the generated 1-D kernels are) -/

/-- `from_smallest_components` / `from_biggest_components` select one of their arguments -/
theorem fin_smallest {a b : XQ} (ha : Fin a) (hb : Fin b) : Fin (f64_from_smallest_components a b) ∧ Fin (f64_from_biggest_components a b) := by
  simp only [f64_from_smallest_components, f64_from_biggest_components]
  constructor <;> split_ifs <;> assumption


example : Fin (f64_from_smallest_components (fin 5) (fin 5)) := (fin_smallest (a := fin 5) (b := fin 5) rfl rfl).1

/-- 1-D evaluation (one coordinate axis of a curve) -/
theorem dc4_1d_fin (t w1 w2 w3 w4 : XQ) (ht : Fin t) (h1 : Fin w1) (h2 : Fin w2) (h3 : Fin w3) (h4 : Fin w4) :
    Fin (de_casteljau4 t w1 w2 w3 w4) := by
  simp only [de_casteljau4, de_casteljau3, de_casteljau2]
  xq_fin


example : Fin (de_casteljau4 (1.0 : XQ) (fin 5) (fin 5) (fin 5) (fin 5)) := dc4_1d_fin _ _ _ _ _ fin_one_lit rfl rfl rfl rfl

section
variable [SqrtFn]

/-- `find_extremities` RETURNS ONLY FINITE PARAMETERS, FOR EVERY INPUT WHATSOEVER.  The quadratic formula divides by
    `a·2` WITHOUT a guard (`a = 0` for every curve whose derivative is at most linear: lines, points, quadratics) and takes
    the square root of a possibly negative discriminant; each of `root1`, `root2`, `root3` only enters the list after
    the open range test `0 < root < 1`, which NaN and ±∞ fail (`root3` is also guarded by `aa != 0.0`) -/
theorem find_extremities_fin (w1 w2 w3 w4 : XQ) : ∀ t ∈ find_extremities w1 w2 w3 w4, Fin t := by
  intro t ht
  unfold find_extremities at ht
  extract_lets e0 ci p1 p2 p3 p4 a b c root1 root2 e1 e1' e2 e2' aa bb root3 e3 e3' e4 at ht
  have hin : ∀ r : XQ, (decide (r > (0.0 : XQ)) && decide (r < (1.0 : XQ))) = true → Fin r := by
    intro r hr
    simp only [Bool.and_eq_true, decide_eq_true_eq] at hr
    exact fin_of_lt_of_lt fin_zero_lit fin_one_lit hr.1 hr.2
  have h0 : ∀ t ∈ e0, Fin t := by
    intro t ht; simp only [e0, List.mem_singleton] at ht; subst ht; exact fin_one_lit
  have h1 : ∀ t ∈ e1', Fin t := by
    intro t ht; simp only [e1'] at ht
    split_ifs at ht with hc
    · simp only [e1, List.mem_append, List.mem_singleton] at ht
      rcases ht with ht | rfl
      · exact h0 t ht
      · exact hin _ hc
    · exact h0 t ht
  have h2 : ∀ t ∈ e2', Fin t := by
    intro t ht; simp only [e2'] at ht
    split_ifs at ht with hc
    · simp only [e2, List.mem_append, List.mem_singleton] at ht
      rcases ht with ht | rfl
      · exact h1 t ht
      · exact hin _ hc
    · exact h1 t ht
  simp only [e4] at ht
  split_ifs at ht
  · simp only [e3'] at ht
    split_ifs at ht with hc
    · simp only [e3, List.mem_append, List.mem_singleton] at ht
      rcases ht with ht | rfl
      · exact h2 t ht
      · exact hin _ hc
    · exact h2 t ht
  · exact h2 t ht


example : ∀ t ∈ find_extremities (fin 5) (fin 5) (fin 5) (fin 5), Fin t := find_extremities_fin _ _ _ _

/-- `bounding_box4` (the tight box, one axis) of a finite curve is finite: the curve is evaluated at finite parameters only -/
theorem bounding_box4_fin (w1 w2 w3 w4 : XQ) (h1 : Fin w1) (h2 : Fin w2) (h3 : Fin w3) (h4 : Fin w4) :
    Fin (bounding_box4 w1 w2 w3 w4).t0 ∧ Fin (bounding_box4 w1 w2 w3 w4).t1 := by
  unfold bounding_box4
  extract_lets ex mn mx upd mn' mx'
  have hex : ∀ t ∈ ex, Fin t := find_extremities_fin w1 w2 w3 w4
  have h0 : Fin mn := dc4_1d_fin _ _ _ _ _ fin_zero_lit h1 h2 h3 h4
  show Fin upd.t0 ∧ Fin upd.t1
  apply foldlT_inv_mem (fun s : T2 XQ XQ => Fin s.t0 ∧ Fin s.t1)
  · exact ⟨h0, h0⟩
  · intro s t ht hs
    have hp := dc4_1d_fin t w1 w2 w3 w4 (hex t ht) h1 h2 h3 h4
    exact ⟨(fin_smallest hs.1 hp).1, (fin_smallest hs.2 hp).2⟩


example : Fin (bounding_box4 (fin 5) (fin 5) (fin 5) (fin 5)).t0 := (bounding_box4_fin (fin 5) (fin 5) (fin 5) (fin 5) rfl rfl rfl rfl).1

end

/-- `fast_bounding_box` and `union_bounds` select among their inputs -/
theorem fast_bounding_box_fin (w1 w2 w3 w4 : XQ) (h1 : Fin w1) (h2 : Fin w2) (h3 : Fin w3) (h4 : Fin w4) :
    Fin (fast_bounding_box w1 w2 w3 w4).t0 ∧ Fin (fast_bounding_box w1 w2 w3 w4).t1 := by
  simp only [fast_bounding_box]
  exact ⟨(fin_smallest (fin_smallest (fin_smallest h1 h4).1 h2).1 h3).1, (fin_smallest (fin_smallest (fin_smallest h1 h4).2 h2).2 h3).2⟩


example : Fin (fast_bounding_box (fin 5) (fin 5) (fin 5) (fin 5)).t1 := (fast_bounding_box_fin (fin 5) (fin 5) (fin 5) (fin 5) rfl rfl rfl rfl).2

/-- the union of two finite boxes (an empty box `min == max` is skipped) is finite -/
theorem union_bounds_fin (a b : T2 XQ XQ) (ha : Fin a.t0 ∧ Fin a.t1) (hb : Fin b.t0 ∧ Fin b.t1) :
    Fin (union_bounds a b).t0 ∧ Fin (union_bounds a b).t1 := by
  simp only [union_bounds]
  split_ifs
  · exact hb
  · exact ha
  · exact ⟨(fin_smallest ha.1 hb.1).1, (fin_smallest ha.2 hb.2).2⟩

example : Fin (union_bounds (⟨fin 5, fin 5⟩ : T2 XQ XQ) ⟨fin 5, fin 5⟩).t0 := (union_bounds_fin ⟨fin 5, fin 5⟩ ⟨fin 5, fin 5⟩ ⟨rfl, rfl⟩ ⟨rfl, rfl⟩).1

/-! ## 7. Distances, walking -/

section
variable [SqrtFn]

/-- `Coordinate::magnitude` of a finite vector is finite and non-negative (the zero vector included) -/
theorem magnitude_fin (p : Pt) (hp : V2.Fin p) : Fin (magnitude p) ∧ 0 ≤ val (magnitude p) := by
  obtain ⟨hx, hy⟩ := hp
  have hd : Fin (dot p p) := V2.fin_dot ⟨hx, hy⟩ ⟨hx, hy⟩
  have h0 : 0 ≤ val (dot p p) := by
    simp only [V2.dot_def]
    rw [val_add (by xq_fin) (by xq_fin), val_add fin_zero_lit (by xq_fin), val_mul hx hx, val_mul hy hy, val_zero_lit]
    nlinarith [mul_self_nonneg (val p.x), mul_self_nonneg (val p.y)]
  exact ⟨fin_fsqrt hd h0, val_fsqrt_nonneg hd h0⟩


example : Fin (magnitude (pt5 - pt5)) := (magnitude_fin _ (by xq_fin)).1

/-- `Coord2::distance_to` of two finite points (equal points included) is finite and non-negative -/
theorem distance_fin (p q : Pt) (hp : V2.Fin p) (hq : V2.Fin q) : Fin (coord2_distance_to p q) ∧ 0 ≤ val (coord2_distance_to p q) := by
  obtain ⟨hx, hy⟩ := hp
  obtain ⟨hqx, hqy⟩ := hq
  simp only [coord2_distance_to]
  have h1 : Fin (q.x - p.x) := by xq_fin
  have h2 : Fin (q.y - p.y) := by xq_fin
  have hf : Fin ((q.x - p.x) * (q.x - p.x) + (q.y - p.y) * (q.y - p.y)) := by xq_fin
  have h0 : 0 ≤ val ((q.x - p.x) * (q.x - p.x) + (q.y - p.y) * (q.y - p.y)) := by
    rw [val_sq_add_sq h1 h2]; nlinarith [mul_self_nonneg (val (q.x - p.x)), mul_self_nonneg (val (q.y - p.y))]
  exact ⟨fin_fsqrt hf h0, val_fsqrt_nonneg hf h0⟩


example : Fin (coord2_distance_to pt5 pt5) := (distance_fin _ _ pt5_fin pt5_fin).1

/-- `chord_length` and `control_polygon_length` of a finite curve (a point curve included) are finite -/
theorem chord_polygon_length_fin (w1 w2 w3 w4 : Pt) (hw : Ctl w1 w2 w3 w4) :
    Fin (chord_length coord2_distance_to w1 w2 w3 w4) ∧ Fin (control_polygon_length coord2_distance_to w1 w2 w3 w4) := by
  obtain ⟨h1, h2, h3, h4⟩ := hw
  simp only [chord_length, control_polygon_length]
  have ha := (distance_fin w1 w2 h1 h2).1
  have hb := (distance_fin w2 w3 h2 h3).1
  have hc := (distance_fin w3 w4 h3 h4).1
  exact ⟨(distance_fin w1 w4 h1 h4).1, by xq_fin⟩

example : Fin (control_polygon_length coord2_distance_to pt5 pt5 pt5 pt5) := (chord_polygon_length_fin _ _ _ _ ctl5).2

/-- `walk_curve_evenly` (the constructor, walk.rs:44-79) IS TOTAL: for every finite curve, distance and tolerance (zero and
    negative ones included: both are clamped to ≥ 1e-10) the iterator state is finite, with positive distance and
    tolerance.  The initial increment divides by the initial speed only when `|speed| ≥ 1e-8` (zero-speed guard
    walk.rs:60-66); `distance / |speed|` with zero speed is +∞ and only feeds a comparison. -/
theorem walk_curve_evenly_fin (w1 w2 w3 w4 : Pt) (distance max_error : XQ) (hw : Ctl w1 w2 w3 w4) (hdist : Fin distance) (herr : Fin max_error) :
    let st := walk_curve_evenly w1 w2 w3 w4 distance max_error
    V2.Fin st.derivative.t0 ∧ V2.Fin st.derivative.t1 ∧ V2.Fin st.derivative.t2 ∧ Fin st.last_t ∧ V2.Fin st.last_point ∧
    Fin st.last_increment ∧ Fin st.distance ∧ Fin st.max_error ∧ 0 < val st.distance ∧ 0 < val st.max_error := by
  obtain ⟨h1, h2, h3, h4⟩ := hw
  intro st
  have hst : walk_curve_evenly w1 w2 w3 w4 distance max_error = st := rfl
  clear_value st
  unfold walk_curve_evenly at hst
  extract_lets II me dist tup1 cp1 cp2 tup2 wn1 wn2 wn3 sp0 sp inc0 inc at hst
  subst hst
  have hder := (coefficients_fin (fin 0) (fin 0) (fin 0) (fin 0) w1 w2 w3 w4 rfl rfl rfl rfl h1 h2 h3 h4).2.1
  have hwn1 : V2.Fin wn1 := hder.1
  have hwn2 : V2.Fin wn2 := hder.2.1
  have hwn3 : V2.Fin wn3 := hder.2.2
  have hme : Fin me ∧ 0 < val me := by
    simp only [me, decide_eq_true_eq]
    split_ifs with h
    · exact ⟨fin_ofScientific .., by rw [val_1e10]; norm_num⟩
    · refine ⟨herr, ?_⟩
      rw [lt_iff herr (fin_ofScientific ..), val_1e10, not_lt] at h
      linarith
  have hdi : Fin dist ∧ 0 < val dist := by
    simp only [dist, decide_eq_true_eq]
    split_ifs with h
    · exact ⟨fin_ofScientific .., by rw [val_1e10]; norm_num⟩
    · refine ⟨hdist, ?_⟩
      rw [lt_iff hdist (fin_ofScientific ..), val_1e10, not_lt] at h
      linarith
  have hsp0 : Fin sp0 := (magnitude_fin _ (eval_fin _ wn1 wn2 wn3 wn3 (fin_ofScientific ..) hwn1 hwn2 hwn3 hwn3).2.2.1).1
  have hsp : Fin sp := by
    simp only [sp]
    split_ifs
    · exact (magnitude_fin _ (eval_fin _ wn1 wn2 wn3 wn3 (fin_ofScientific ..) hwn1 hwn2 hwn3 hwn3).2.2.1).1
    · exact hsp0
  have hinc0 : Fin inc0 := by
    simp only [inc0, decide_eq_true_eq]
    split_ifs with h
    · exact fin_ofScientific ..
    · exact fin_div hdi.1 hsp (ne_of_not_abs_lt hsp (fin_ofScientific ..) val_1e8 h)
  have hinc : Fin inc := by
    simp only [inc]
    split_ifs
    · exact fin_ofScientific ..
    · exact hinc0
  exact ⟨hwn1, hwn2, hwn3, fin_zero_lit, h1, hinc, hdi.1, hme.1, hdi.2, hme.2⟩

example : Fin (walk_curve_evenly pt5 pt5 pt5 pt5 (0.0 : XQ) (0.0 : XQ)).last_increment :=
  (walk_curve_evenly_fin _ _ _ _ _ _ ctl5 fin_zero_lit fin_zero_lit).2.2.2.2.2.1

/-- `EvenWalkIterator::next` IS TOTAL on every state the constructor can produce (and on more): for a finite curve and a
    finite iterator state with `max_error > 0` OR `distance ≠ 0`, the returned section and the new state are finite.  In
    the loop: the adjustment divides by the speed only when `|speed| ≥ 1e-8` (walk.rs:209); at a stationary point the
    ratio `distance / next_distance` may be ±∞ (then one of the two comparisons catches it) and is NaN only if both
    vanish - but then `|error| = 0 < max_error` has already left the loop.  The hypothesis is necessary: see
    `even_walk_next_not_total`. -/
theorem even_walk_next_fin (w1 w2 w3 w4 : Pt) (d : T3 Pt Pt Pt) (dist err lastT : XQ) (lastP : Pt) (lastInc : XQ)
    (hw : Ctl w1 w2 w3 w4) (hd : V2.Fin d.t0 ∧ V2.Fin d.t1 ∧ V2.Fin d.t2) (hdist : Fin dist) (herr : Fin err)
    (hT : Fin lastT) (hP : V2.Fin lastP) (hI : Fin lastInc) (hguard : 0 < val err ∨ val dist ≠ 0) :
    let r := even_walk_next w1 w2 w3 w4 d dist err lastT lastP lastInc
    (∀ sec, r.t0 = some sec → Fin sec.t0 ∧ Fin sec.t1) ∧ Fin r.t1.t0 ∧ V2.Fin r.t1.t1 ∧ Fin r.t1.t2 := by
  obtain ⟨h1, h2, h3, h4⟩ := hw
  obtain ⟨hd1, hd2, hd3⟩ := hd
  intro r
  have hr : even_walk_next w1 w2 w3 w4 d dist err lastT lastP lastInc = r := rfl
  clear_value r
  unfold even_walk_next at hr
  extract_lets MI curve wn1 wn2 wn3 distance max_error tinc last_t next_t0 last_point np0 last_section slt count0 upd1 np1 ti1 nt1 c1 slp1 sli1 slt1 upd2 np2 ti2 nt2 c2 slp2 sli2 slt2 at hr
  have hupd : V2.Fin upd1.t0 ∧ Fin upd1.t1 ∧ Fin upd1.t2 := by
    apply iterFuel_inv (fun s : T4 Pt XQ XQ ℕ => V2.Fin s.t0 ∧ Fin s.t1 ∧ Fin s.t2) (fun s : T4 Pt XQ XQ ℕ => V2.Fin s.t0 ∧ Fin s.t1 ∧ Fin s.t2)
    · intro s hs
      obtain ⟨hs0, hs1, hs2⟩ := hs
      extract_lets np ti nt cnt np' nd error tangent speed ratio ti_a error' adj ti_b ti_c ti' nt' cnt'
      have hnp' : V2.Fin np' := (eval_fin nt w1 w2 w3 w4 hs2 h1 h2 h3 h4).2.2.2.2
      have hnd := distance_fin last_point np' hP hnp'
      split_ifs with hexit hmax
      · exact ⟨hnp', hs1, hs2⟩
      all_goals
        have htan : V2.Fin tangent := (eval_fin nt wn1 wn2 wn3 wn3 hs2 hd1 hd2 hd3 hd3).2.2.1
        have hsp := magnitude_fin tangent htan
        have hti' : Fin ti' := by
          simp only [ti']
          split_ifs with hslow hadj
          · simp only [ti_a, ratio]
            refine ratio_branch_fin ti distance nd hs1 hdist hnd.1 ?_
            by_contra hcon
            simp only [not_or, not_not] at hcon
            apply hexit
            simp only [decide_eq_true_eq, error]
            rw [lt_iff ((fin_abs_iff _).2 ((fin_sub_iff _ _).2 ⟨hdist, hnd.1⟩)) herr, val_abs, val_sub hdist hnd.1, hcon.1, hcon.2]
            simp only [sub_zero, abs_zero]
            rcases hguard with hg | hg
            · exact hg
            · exact absurd hcon.2 hg
          · simp only [ti_b]; xq_fin
          · simp only [ti_c, adj, error']
            simp only [decide_eq_true_eq] at hslow
            have hne := ne_of_not_abs_lt hsp.1 (fin_ofScientific ..) val_1e8 hslow
            have := fin_div ((fin_sub_iff _ _).2 ⟨hnd.1, hdist⟩) hsp.1 hne
            xq_fin
        have hnt' : Fin nt' := by simp only [nt']; xq_fin
        exact ⟨hnp', hti', hnt'⟩
    · intro s hs; exact hs
    · exact ⟨⟨rfl, rfl⟩, hI, by simp only [next_t0]; xq_fin⟩
  have hupd2 : V2.Fin upd2.t0 ∧ Fin upd2.t1 ∧ Fin upd2.t2 := hupd
  split_ifs at hr
  all_goals
    subst hr
    refine ⟨?_, ?_, ?_, ?_⟩
    · intro sec hsec
      first
      | (simp only [reduceCtorEq] at hsec; done)
      | (simp only [Option.some.injEq] at hsec; subst hsec; first | exact ⟨hT, fin_one_lit⟩ | exact ⟨hT, hupd.2.2⟩)
    all_goals first | exact hT | exact hP | exact hI | exact fin_one_lit | exact hupd.1 | exact hupd.2.1 | exact hupd.2.2

example : Fin (even_walk_next pt5 pt5 pt5 pt5 ⟨pt5 - pt5, pt5 - pt5, pt5 - pt5⟩ (1.0 : XQ) (1.0 : XQ) (0.0 : XQ) pt5 (1.0 : XQ)).t1.t0 :=
  (even_walk_next_fin _ _ _ _ _ _ _ _ _ _ ctl5 ⟨by xq_fin, by xq_fin, by xq_fin⟩ fin_one_lit fin_one_lit fin_zero_lit pt5_fin
    fin_one_lit (Or.inl (by rw [val_one_lit]; norm_num))).2.1

end

attribute [local instance] exSqrt in
/-- NOT TOTAL without that hypothesis: with `distance = 0` and `max_error = 0` (which `walk_curve_evenly` never produces,
    but `vary_by` can set the distance to 0 - it cannot set `max_error`) a point curve yields a NaN position: 0/0 at
    walk.rs:213.  [`exSqrt` is the concrete square-root function of the examples.] -/
theorem even_walk_next_not_total :
    (even_walk_next pt5 pt5 pt5 pt5 ⟨⟨fin 0, fin 0⟩, ⟨fin 0, fin 0⟩, ⟨fin 0, fin 0⟩⟩ (fin 0) (fin 0) (fin 0) pt5 (fin (1/100))).t1.t0 = nan := by
  decide +kernel

example : ¬ Fin nan := not_fin_nan

/-- `UnevenWalkIterator::next` IS TOTAL: `k/n` is only computed when `k < n`, hence `n > 0`; `walk_curve_unevenly(c, 0)`
    yields nothing (no 0/0) -/
theorem uneven_walk_next_fin (n k : Nat) : ∀ sec, (uneven_walk_next (K := XQ) n k).t0 = some sec → Fin sec.t0 ∧ Fin sec.t1 := by
  intro sec h
  simp only [uneven_walk_next] at h
  split_ifs at h with hk
  simp only [decide_eq_true_eq, not_le] at hk
  simp only [Option.some.injEq] at h
  subst h
  have hn : val (ofInt (n : Int) : XQ) ≠ 0 := by
    rw [val_ofInt]; have : 0 < n := by omega
    exact_mod_cast (Nat.pos_iff_ne_zero.1 this)
  exact ⟨fin_div (fin_ofInt _) (fin_ofInt _) hn, fin_div (fin_ofInt _) (fin_ofInt _) hn⟩


example : (uneven_walk_next (K := XQ) 0 0).t0 = none := by decide +kernel
example : ∀ sec, (uneven_walk_next (K := XQ) 1 0).t0 = some sec → Fin sec.t0 ∧ Fin sec.t1 := uneven_walk_next_fin 1 0

/-! ## 8. Fitting, nearest point -/

/-- `fit_line` (the two-point base case of `fit_curve_cubic`; identical points included) returns a finite curve -/
theorem fit_line_fin (p1 p2 : Pt) (h1 : V2.Fin p1) (h2 : V2.Fin p2) : ∀ c ∈ fit_line (K := XQ) p1 p2, CurveFin c := by
  intro c hc
  simp only [fit_line, List.mem_singleton] at hc
  subst hc
  simp only [CurveFin]
  refine ⟨?_, ?_, ?_, ?_⟩ <;> xq_fin


example : ∀ c ∈ fit_line (K := XQ) pt5 pt5, CurveFin c := fit_line_fin _ _ pt5_fin pt5_fin

/-- `newton_raphson_root_find` (fit.rs:394-426, guard `denominator == 0.0` at :420 and the clamp of repair 2164b23) returns a
    finite parameter for a finite estimate, WHATEVER the curve and the point are (NaN coordinates included): either the
    estimate itself or a value clamped to [0,1] by `max(0.0).min(1.0)`, which maps NaN to 0 and ±∞ to 0 / 1 -/
theorem newton_raphson_root_find_fin (w1 w2 w3 w4 point : Pt) (t : XQ) (ht : Fin t) : Fin (newton_raphson_root_find w1 w2 w3 w4 point t) := by
  simp only [newton_raphson_root_find]
  split_ifs
  · exact ht
  · exact fin_clamp _ fin_zero_lit fin_one_lit


example : Fin (newton_raphson_root_find pt5 pt5 pt5 pt5 pt5 (0.0 : XQ)) := newton_raphson_root_find_fin _ _ _ _ _ _ fin_zero_lit

/-- `nearest_point_on_curve_bezier_root_finder` (`nearest_t`) RETURNS A FINITE PARAMETER FOR EVERY INPUT WHATSOEVER and
    whatever `find_bezier_roots` returns: the answer is 0.0, 1.0 or a root that passed `0 < t < 1` -/
theorem nearest_t_fin (dbf : Pt → Pt → Pt → Pt → Pt → List Pt) (roots : List Pt → List XQ) (w1 w2 w3 w4 point : Pt) :
    Fin (nearest_point_on_curve_bezier_root_finder dbf roots w1 w2 w3 w4 point) := by
  unfold nearest_point_on_curve_bezier_root_finder
  extract_lets tc pt mt off md upd mt' md'
  show Fin upd.t0
  apply foldlT_inv_mem (fun s : T2 XQ XQ => Fin s.t0)
  · exact fin_zero_lit
  · intro s t ht hs
    have htf : Fin t := by
      simp only [List.mem_append, List.mem_filter, List.mem_singleton, Bool.and_eq_true, decide_eq_true_eq] at ht
      rcases ht with ⟨_, h1, h2⟩ | rfl
      · exact fin_of_lt_of_lt fin_zero_lit fin_one_lit h1 h2
      · exact fin_one_lit
    simp only []
    split_ifs
    · exact htf
    · exact hs

example : Fin (nearest_point_on_curve_bezier_root_finder (fun _ _ _ _ _ => []) (fun _ => [nan, pinf, fin (1/2)]) pt5 pt5 pt5 pt5 pt5) :=
  nearest_t_fin _ _ _ _ _ _ _

section
variable [SqrtFn]

/-- the tail of `generate_bezier` (fit.rs:296-321, guards :302-303): the least-squares solution divides by the
    determinant only when `|det| ≥ 1e-4`; for finite sums `c`, `x`, finite end points and tangents (zero tangents of
    coincident points included) the fitted curve is finite -/
theorem generate_bezier_tail_fin (c00 c01 c10 c11 x0 x1 : XQ) (p0 pl st et : Pt)
    (h00 : Fin c00) (h01 : Fin c01) (h10 : Fin c10) (h11 : Fin c11) (hx0 : Fin x0) (hx1 : Fin x1)
    (hp0 : V2.Fin p0) (hpl : V2.Fin pl) (hst : V2.Fin st) (het : V2.Fin et) :
    CurveFin (generate_bezier_tail c00 c01 c10 c11 x0 x1 p0 pl st et) := by
  have hdet : Fin (c00 * c11 - c10 * c01) := by xq_fin
  have h4 : (0:ℚ) < val (1.0e-4 : XQ) := by rw [val_ofScientific]; norm_num
  have hal : Fin (if decide (fabs (c00 * c11 - c10 * c01) < (1.0e-4 : XQ)) = true then (0.0 : XQ)
      else (x0 * c11 - x1 * c01) / (c00 * c11 - c10 * c01)) := by
    split_ifs with h
    · exact fin_zero_lit
    · simp only [decide_eq_true_eq] at h
      exact fin_div (by xq_fin) hdet (ne_of_not_abs_lt hdet (fin_ofScientific ..) h4 h)
  have har : Fin (if decide (fabs (c00 * c11 - c10 * c01) < (1.0e-4 : XQ)) = true then (0.0 : XQ)
      else (c00 * x1 - c10 * x0) / (c00 * c11 - c10 * c01)) := by
    split_ifs with h
    · exact fin_zero_lit
    · simp only [decide_eq_true_eq] at h
      exact fin_div (by xq_fin) hdet (ne_of_not_abs_lt hdet (fin_ofScientific ..) h4 h)
  have hseg := (distance_fin p0 pl hp0 hpl).1
  have hd3 : Fin (coord2_distance_to p0 pl / (3.0 : XQ)) :=
    fin_div hseg (fin_ofScientific ..) (by rw [val_ofScientific]; norm_num)
  simp only [generate_bezier_tail, CurveFin]
  generalize (if decide (fabs (c00 * c11 - c10 * c01) < (1.0e-4 : XQ)) = true then (0.0 : XQ)
      else (x0 * c11 - x1 * c01) / (c00 * c11 - c10 * c01)) = al at hal
  generalize (if decide (fabs (c00 * c11 - c10 * c01) < (1.0e-4 : XQ)) = true then (0.0 : XQ)
      else (c00 * x1 - c10 * x0) / (c00 * c11 - c10 * c01)) = ar at har
  generalize coord2_distance_to p0 pl / (3.0 : XQ) = d3 at hd3
  split_ifs <;> refine ⟨?_, ?_, ?_, ?_⟩ <;> xq_fin


example : CurveFin (generate_bezier_tail (fin 0) (fin 0) (fin 0) (fin 0) (fin 0) (fin 0) pt5 pt5 (pt5 - pt5) (pt5 - pt5)) :=
  generate_bezier_tail_fin _ _ _ _ _ _ _ _ _ _ rfl rfl rfl rfl rfl rfl pt5_fin pt5_fin (by xq_fin) (by xq_fin)

/-- THE SPLIT POSITION OF `fit_curve_cubic` IS INTERIOR (consequence of repair 022a471, `max_error < 0 ⇒ 0`): the selection
    loop of `max_error_for_curve` (translated) returns, for finite squared errors whose first and last are 0 (the fitted
    curve starts and ends at the first and last sample, parameters 0 and 1), a finite error, and whenever that error is
    positive - which it is in the split branch, `error > max_error ≥ 0` - an index with `1 ≤ split_pos` and
    `split_pos + 1 < len`: the accesses `points[split_pos-1]` and `points[split_pos+1]` (fit.rs:212) are in range.
    (That the first and last error vanish is a property of generate_bezier / reparameterize, not modelled: hypothesis.) -/
theorem fit_split_pos (errors : List XQ) (hfin : ∀ e ∈ errors, Fin e)
    (h0 : ∀ e, errors.head? = some e → val e ≤ 0) (hl : ∀ e, errors.getLast? = some e → val e ≤ 0) :
    let r := max_error_pick errors
    Fin r.t0 ∧ (0 < val r.t0 → 1 ≤ r.t1 ∧ r.t1 + 1 < errors.length) := by
  intro r
  have hr : max_error_pick errors = r := rfl
  clear_value r
  unfold max_error_pick at hr
  extract_lets b0 o0 upd b o at hr
  subst hr
  have hinv : Fin upd.t0 ∧ 0 ≤ val upd.t0 ∧ (0 < val upd.t0 → 1 ≤ upd.t1 ∧ upd.t1 + 1 < errors.length) := by
    apply foldlT_inv_mem (fun st : T2 XQ Nat => Fin st.t0 ∧ 0 ≤ val st.t0 ∧ (0 < val st.t0 → 1 ≤ st.t1 ∧ st.t1 + 1 < errors.length))
    · refine ⟨fin_zero_lit, by rw [show b0 = (0.0 : XQ) from rfl, val_zero_lit], ?_⟩
      intro h; rw [show b0 = (0.0 : XQ) from rfl, val_zero_lit] at h; exact absurd h (lt_irrefl _)
    · intro st it hit hst
      obtain ⟨hsf, hs0, hs1⟩ := hst
      simp only [List.mem_map] at hit
      obtain ⟨⟨e, i⟩, hmem, rfl⟩ := hit
      have hget : errors[i]? = some e := List.mem_zipIdx_iff_getElem?.1 hmem
      have hi : i < errors.length := by
        by_contra hcon; rw [List.getElem?_eq_none (by omega)] at hget; cases hget
      have hef : Fin e := hfin e (List.mem_of_getElem? hget)
      simp only [decide_eq_true_eq, gt_iff_lt]
      split_ifs with hgt
      · rw [lt_iff hsf hef] at hgt
        refine ⟨hef, by linarith, fun _ => ?_⟩
        show 1 ≤ i ∧ i + 1 < errors.length
        refine ⟨?_, ?_⟩
        · by_contra hcon
          have hi0 : i = 0 := by omega
          subst hi0
          have : errors.head? = some e := by rw [List.head?_eq_getElem?]; exact hget
          have := h0 e this
          linarith
        · by_contra hcon
          have hil : i = errors.length - 1 := by omega
          have : errors.getLast? = some e := by
            rw [List.getLast?_eq_getElem?, ← hil]; exact hget
          have := hl e this
          linarith
      · exact ⟨hsf, hs0, hs1⟩
  obtain ⟨hf, h0', h1⟩ := hinv
  refine ⟨fin_fsqrt hf h0', ?_⟩
  intro hpos
  apply h1
  rw [val_fsqrt hf h0'] at hpos
  rcases lt_or_eq_of_le h0' with h | h
  · exact h
  · rw [← h, sqrtFn_zero] at hpos; exact absurd hpos (lt_irrefl _)

example : Fin (max_error_pick [fin 0, fin 4, fin 0]).t0 := (fit_split_pos [fin 0, fin 4, fin 0] (by simp) (by simp) (by simp)).1

/-! ## 9. Unit vectors, tangents, normals, offsets -/

/-- `Coordinate::to_unit_vector` IS TOTAL: the zero vector gives the origin (guard `magnitude == 0.0`), otherwise the
    vector is multiplied by `1.0/magnitude` with a non-zero magnitude -/
theorem to_unit_vector_fin (p : Pt) (hp : V2.Fin p) : V2.Fin (to_unit_vector p) := by
  have hm := magnitude_fin p hp
  simp only [to_unit_vector]
  split_ifs with h
  · exact ⟨fin_zero_lit, fin_zero_lit⟩
  · have := fin_div fin_one_lit hm.1 (ne_of_not_beq_zero hm.1 h)
    obtain ⟨hx, hy⟩ := hp
    xq_fin


example : V2.Fin (to_unit_vector (pt5 - pt5)) := to_unit_vector_fin _ (by xq_fin)

/-- `tangent_at_pos` and `normal_at_pos` (normal.rs:84-126; t = 0 and t = 1 are moved by `f64::EPSILON`, :92-94) are finite
    for every finite curve and parameter; a point curve gives the zero vector -/
theorem tangent_normal_fin (w1 w2 w3 w4 : Pt) (t : XQ) (hw : Ctl w1 w2 w3 w4) (ht : Fin t) :
    V2.Fin (tangent_at_pos w1 w2 w3 w4 t) ∧ V2.Fin (normal_at_pos w1 w2 w3 w4 t) := by
  obtain ⟨h1, h2, h3, h4⟩ := hw
  have ht1 : Fin (if (t == (0.0 : XQ)) = true then (feps : XQ) else t) := by split_ifs; exact fin_feps; exact ht
  generalize hta : (if (t == (0.0 : XQ)) = true then (feps : XQ) else t) = ta at ht1
  have ht2 : Fin (if (ta == (1.0 : XQ)) = true then (1.0 : XQ) - (feps : XQ) else ta) := by
    split_ifs
    · exact (fin_sub_iff _ _).2 ⟨fin_one_lit, fin_feps⟩
    · exact ht1
  generalize htb : (if (ta == (1.0 : XQ)) = true then (1.0 : XQ) - (feps : XQ) else ta) = tb at ht2
  have hder := (coefficients_fin (fin 0) (fin 0) (fin 0) (fin 0) w1 w2 w3 w4 rfl rfl rfl rfl h1 h2 h3 h4).2.1
  have htan : V2.Fin (de_casteljau3 tb (derivative4 w1 w2 w3 w4).t0 (derivative4 w1 w2 w3 w4).t1 (derivative4 w1 w2 w3 w4).t2) :=
    (eval_fin tb _ _ _ _ ht2 hder.1 hder.2.1 hder.2.2 hder.2.2).2.2.1
  constructor
  · simp only [tangent_at_pos, hta, htb]; exact htan
  · simp only [normal_at_pos, hta, htb, to_normal, listGet]
    obtain ⟨hx, hy⟩ := htan
    refine ⟨?_, ?_⟩
    · show Fin (-_); exact (fin_neg_iff _).2 hy
    · exact hx

example : V2.Fin (normal_at_pos pt5 pt5 pt5 pt5 (0.0 : XQ)) := (tangent_normal_fin _ _ _ _ _ ctl5 fin_zero_lit).2

/-- `tot_offset_by_moving` (the fallback of `offset_scaling` when the end normals do not meet) is finite -/
theorem offset_by_moving_fin (w1 w2 w3 w4 : Pt) (o1 o2 : XQ) (n1 n2 : Pt) (hw : Ctl w1 w2 w3 w4) (ho1 : Fin o1) (ho2 : Fin o2)
    (hn1 : V2.Fin n1) (hn2 : V2.Fin n2) : CurveFin (tot_offset_by_moving w1 w2 w3 w4 o1 o2 n1 n2) := by
  obtain ⟨h1, h2, h3, h4⟩ := hw
  simp only [tot_offset_by_moving, CurveFin]
  refine ⟨?_, ?_, ?_, ?_⟩ <;> xq_fin


example : CurveFin (tot_offset_by_moving pt5 pt5 pt5 pt5 (fin 2) (fin 2) (pt5 - pt5) (pt5 - pt5)) :=
  offset_by_moving_fin _ _ _ _ _ _ _ _ ctl5 rfl rfl (by xq_fin) (by xq_fin)

/-- the distance of two finite points vanishes only for equal points -/
theorem distance_eq_zero_iff (p q : Pt) (hp : V2.Fin p) (hq : V2.Fin q) :
    val (coord2_distance_to p q) = 0 ↔ val q.x = val p.x ∧ val q.y = val p.y := by
  obtain ⟨hx, hy⟩ := hp
  obtain ⟨hqx, hqy⟩ := hq
  simp only [coord2_distance_to]
  have h1 : Fin (q.x - p.x) := by xq_fin
  have h2 : Fin (q.y - p.y) := by xq_fin
  rw [val_hypot_eq_zero_iff h1 h2, val_sub hqx hx, val_sub hqy hy, sub_eq_zero, sub_eq_zero]


example : val (coord2_distance_to pt5 pt5) = 0 := (distance_eq_zero_iff _ _ pt5_fin pt5_fin).2 ⟨rfl, rfl⟩

/-- `tot_offset_by_scaling` divides by the distances from the intersection point of the end normals to the start and to the
    end point WITHOUT a guard; it is finite when the intersection point differs from both … -/
theorem offset_by_scaling_fin (w1 w2 w3 w4 : Pt) (o1 o2 : XQ) (ip n1 n2 : Pt) (hw : Ctl w1 w2 w3 w4) (ho1 : Fin o1) (ho2 : Fin o2)
    (hip : V2.Fin ip) (hn1 : V2.Fin n1) (hn2 : V2.Fin n2)
    (hs : ¬ (val w1.x = val ip.x ∧ val w1.y = val ip.y)) (he : ¬ (val w4.x = val ip.x ∧ val w4.y = val ip.y)) :
    CurveFin (tot_offset_by_scaling w1 w2 w3 w4 o1 o2 ip n1 n2) := by
  obtain ⟨h1, h2, h3, h4⟩ := hw
  have hns : V2.Fin (w1 + n1 * o1) := by xq_fin
  have hne : V2.Fin (w4 + n2 * o2) := by xq_fin
  have hss : Fin (coord2_distance_to ip (w1 + n1 * o1) / coord2_distance_to ip w1) :=
    fin_div (distance_fin _ _ hip hns).1 (distance_fin _ _ hip h1).1 (by rw [Ne, distance_eq_zero_iff _ _ hip h1]; exact hs)
  have hes : Fin (coord2_distance_to ip (w4 + n2 * o2) / coord2_distance_to ip w4) :=
    fin_div (distance_fin _ _ hip hne).1 (distance_fin _ _ hip h4).1 (by rw [Ne, distance_eq_zero_iff _ _ hip h4]; exact he)
  have h13 : Fin ((1.0 : XQ) / (3.0 : XQ)) := fin_lit_div _ _ _ _ _ _ (by norm_num)
  have h23 : Fin ((2.0 : XQ) / (3.0 : XQ)) := fin_lit_div _ _ _ _ _ _ (by norm_num)
  simp only [tot_offset_by_scaling, CurveFin]
  generalize coord2_distance_to ip (w1 + n1 * o1) / coord2_distance_to ip w1 = ss at hss
  generalize coord2_distance_to ip (w4 + n2 * o2) / coord2_distance_to ip w4 = es at hes
  refine ⟨?_, ?_, ?_, ?_⟩ <;> xq_fin


example : CurveFin (tot_offset_by_scaling pt5 pt5 pt5 pt5 (fin 2) (fin 2) ⟨fin 0, fin 0⟩ (pt5 - pt5) (pt5 - pt5)) :=
  offset_by_scaling_fin _ _ _ _ _ _ _ _ _ ctl5 rfl rfl ⟨rfl, rfl⟩ (by xq_fin) (by xq_fin)
    (by simp [pt5]) (by simp [pt5])

/-- … and NOT TOTAL otherwise (known finding `non_finite.offset_scaling.closed_start_equals_end.scale_1e-9`): when the
    normals meet AT the start point (e.g. a closed curve, start = end, whose end normals differ) the first control point of
    the result is not finite, for any offsets and normals -/
theorem offset_by_scaling_not_total (w2 w3 w4 : Pt) (o1 o2 : XQ) (ip n1 n2 : Pt) (hip : V2.Fin ip) :
    ¬ V2.Fin (tot_offset_by_scaling ip w2 w3 w4 o1 o2 ip n1 n2).t1 := by
  intro h
  simp only [tot_offset_by_scaling] at h
  have hz : val (coord2_distance_to ip ip) = 0 := (distance_eq_zero_iff ip ip hip hip).2 ⟨rfl, rfl⟩
  have hzf := (distance_fin ip ip hip hip).1
  have hnf := not_fin_div_zero (a := coord2_distance_to ip (ip + n1 * o1)) hz hzf
  generalize coord2_distance_to ip (ip + n1 * o1) / coord2_distance_to ip ip = ss at h hnf
  apply hnf
  have := h.1
  simp only [V2.add_x, V2.smul_x, V2.sub_x, fin_add_iff, fin_mul_iff, fin_sub_iff] at this
  exact this.1.2.2

example : ¬ V2.Fin (tot_offset_by_scaling pt5 pt5 pt5 pt5 (fin 2) (fin 2) pt5 pt5 pt5).t1 := offset_by_scaling_not_total _ _ _ _ _ _ _ _ pt5_fin

/-! ## 10. Clipping guard, curve length -/

/-- `tot_curve_hull_length_sq` (whose `== 0.0` test is the zero-length guard curve_curve_clip.rs:208-210) is finite for every
    finite curve and section (tiny and empty sections give 0) -/
theorem curve_hull_length_sq_fin (w1 w2 w3 w4 : Pt) (s : SectionT XQ) (hw : Ctl w1 w2 w3 w4) (hs : SecFin s) :
    Fin (tot_curve_hull_length_sq w1 w2 w3 w4 s) := by
  obtain ⟨h1, h2, h3, h4⟩ := hw
  simp only [tot_curve_hull_length_sq]
  split_ifs
  · exact fin_zero_lit
  · have hp := section_points_fin w1 w2 w3 w4 s (0.0 : XQ) h1 h2 h3 h4 hs fin_zero_lit
    have hc := section_control_points_fin w1 w2 w3 w4 s h1 h2 h3 h4 hs
    have a := V2.fin_dot ((V2.fin_sub_iff _ _).2 ⟨hc.1, hp.1⟩) ((V2.fin_sub_iff _ _).2 ⟨hc.1, hp.1⟩)
    have b := V2.fin_dot ((V2.fin_sub_iff _ _).2 ⟨hc.2, hc.1⟩) ((V2.fin_sub_iff _ _).2 ⟨hc.2, hc.1⟩)
    have c := V2.fin_dot ((V2.fin_sub_iff _ _).2 ⟨hc.2, hp.2.1⟩) ((V2.fin_sub_iff _ _).2 ⟨hc.2, hp.2.1⟩)
    exact (fin_add_iff _ _).2 ⟨(fin_add_iff _ _).2 ⟨a, b⟩, c⟩

example : Fin (tot_curve_hull_length_sq pt5 pt5 pt5 pt5 sec11) := curve_hull_length_sq_fin _ _ _ _ _ ctl5 sec11_fin

/-- `tot_section_length` (the whole `while let Some(..) = waiting.pop()` loop of length.rs:32-66, translated) with the fuel of
    its loop as a parameter, regenerated from the same source: the translated function is the instance with fuel 10⁶ -/
theorem section_length_eq_fuel (w1 w2 w3 w4 : Pt) (s : SectionT XQ) (e : XQ) :
    tot_section_length w1 w2 w3 w4 s e = section_length_fuel 1000000 w1 w2 w3 w4 s e := rfl

example : tot_section_length pt5 pt5 pt5 pt5 sec11 (fin 1) = section_length_fuel 1000000 pt5 pt5 pt5 pt5 sec11 (fin 1) :=
  section_length_eq_fuel _ _ _ _ _ _

/-- `curve_length` / `tot_section_length` RETURNS A FINITE LENGTH for every finite curve, section and tolerance (zero and
    negative tolerances included), after any number of loop iterations: every piece's chord and control polygon are
    finite (sections incl. `t_c = 1` by `section_control_points_fin`), the estimate divides by the literal 4 and the
    tolerance by the literal 2 -/
theorem section_length_fuel_fin (fuel : Nat) (w1 w2 w3 w4 : Pt) (s : SectionT XQ) (e : XQ) (hw : Ctl w1 w2 w3 w4) (hs : SecFin s) (he : Fin e) :
    Fin (section_length_fuel fuel w1 w2 w3 w4 s e) := by
  obtain ⟨h1, h2, h3, h4⟩ := hw
  unfold section_length_fuel
  extract_lets ME w0 tl0 upd tl w
  show Fin upd.t0
  apply iterFuel_inv (fun st : T2 XQ (List (T2 (SectionT XQ) XQ)) => Fin st.t0 ∧ ∀ x ∈ st.t1, SecFin x.t0 ∧ Fin x.t1)
    (fun st : T2 XQ (List (T2 (SectionT XQ) XQ)) => Fin st.t0)
  · intro st hst
    obtain ⟨htl, hwait⟩ := hst
    extract_lets tl' wt
    cases hlast : wt.getLast? with
    | none => simp only []; exact htl
    | some top =>
      simp only []
      have hmem : top ∈ wt := List.mem_of_getLast? hlast
      have htop := hwait top hmem
      have hp := section_points_fin w1 w2 w3 w4 top.t0 (0.0 : XQ) h1 h2 h3 h4 htop.1 fin_zero_lit
      have hc := section_control_points_fin w1 w2 w3 w4 top.t0 h1 h2 h3 h4 htop.1
      have hlen := chord_polygon_length_fin _ _ _ _ ⟨hp.1, hc.1, hc.2, hp.2.1⟩
      have hrest : ∀ x ∈ wt.dropLast, SecFin x.t0 ∧ Fin x.t1 := fun x hx => hwait x (List.dropLast_subset _ hx)
      split_ifs
      · refine ⟨?_, hrest⟩
        have h4 : Fin ((2.0 : XQ) * chord_length coord2_distance_to (section_start_point w1 w2 w3 w4 top.t0) (section_control_points w1 w2 w3 w4 top.t0).t0 (section_control_points w1 w2 w3 w4 top.t0).t1 (section_end_point w1 w2 w3 w4 top.t0) + (2.0 : XQ) * control_polygon_length coord2_distance_to (section_start_point w1 w2 w3 w4 top.t0) (section_control_points w1 w2 w3 w4 top.t0).t0 (section_control_points w1 w2 w3 w4 top.t0).t1 (section_end_point w1 w2 w3 w4 top.t0)) := by
          have := hlen.1; have := hlen.2; xq_fin
        exact (fin_add_iff _ _).2 ⟨htl, fin_div h4 (fin_ofScientific ..) (by rw [val_ofScientific]; norm_num)⟩
      · refine ⟨htl, ?_⟩
        have he2 : Fin (top.t1 / (2.0 : XQ)) := fin_div htop.2 (fin_ofScientific ..) (by rw [val_ofScientific]; norm_num)
        have hl := (section_params_fin (0.0 : XQ) (0.5 : XQ) (0.0 : XQ) top.t0 fin_zero_lit (fin_ofScientific ..) fin_zero_lit htop.1).2.2.1
        have hr := (section_params_fin (0.5 : XQ) (1.0 : XQ) (0.0 : XQ) top.t0 (fin_ofScientific ..) fin_one_lit fin_zero_lit htop.1).2.2.1
        intro x hx
        simp only [List.mem_append, List.mem_singleton] at hx
        rcases hx with (hx | rfl) | rfl
        · exact hrest x hx
        · exact ⟨hl, he2⟩
        · exact ⟨hr, he2⟩
  · intro st hst; exact hst.1
  · refine ⟨fin_zero_lit, ?_⟩
    intro x hx
    simp only [w0, List.mem_singleton] at hx
    subst hx
    exact ⟨hs, he⟩

example : Fin (tot_section_length pt5 pt5 pt5 pt5 (section_new (0.0 : XQ) (1.0 : XQ)) (0.0 : XQ)) := by
  rw [section_length_eq_fuel]
  exact section_length_fuel_fin _ _ _ _ _ _ _ ctl5 (section_new_fin _ _ fin_zero_lit fin_one_lit) fin_zero_lit

end

/-! ## 11. The repaired `vary_by` -/

/-- `VaryingWalkIterator::next` (repair b75d9d0) keeps the even iterator's state finite with a POSITIVE distance: the varied
    distance is clamped to ≥ 1e-10 before `ratio = distance / previous distance` is formed, so the previous distance is
    never 0 (by induction from the constructor, `walk_curve_evenly_fin`), and with it the hypothesis of
    `even_walk_next_fin` holds at every step of a varied walk - zero and negative varied distances included.
    (Before the repair a varied distance 0 made the next ratio infinite and the increment NaN.) -/
theorem varyUpdate_fin (next : Option XQ) (dist inc : XQ) (hn : ∀ d, next = some d → Fin d) (hd : Fin dist) (hpos : 0 < val dist) (hi : Fin inc) :
    let r := varyUpdate next dist inc
    Fin r.t0 ∧ 0 < val r.t0 ∧ Fin r.t1 := by
  cases next with
  | none => exact ⟨hd, hpos, hi⟩
  | some d =>
    have hdf := hn d rfl
    simp only [varyUpdate]
    have hc : Fin (if d < (1e-10 : XQ) then (1e-10 : XQ) else d) ∧ 0 < val (if d < (1e-10 : XQ) then (1e-10 : XQ) else d) := by
      split_ifs with h
      · exact ⟨fin_ofScientific .., by rw [val_1e10]; norm_num⟩
      · refine ⟨hdf, ?_⟩
        rw [lt_iff hdf (fin_ofScientific ..), val_1e10, not_lt] at h
        linarith
    generalize (if d < (1e-10 : XQ) then (1e-10 : XQ) else d) = d' at hc
    have := fin_div hc.1 hd (ne_of_gt hpos)
    exact ⟨hc.1, hc.2, by xq_fin⟩


example : Fin (varyUpdate (some (0.0 : XQ)) (1.0 : XQ) (1.0 : XQ)).t1 :=
  (varyUpdate_fin _ _ _ (fun d h => by cases h; exact fin_zero_lit) fin_one_lit (by rw [val_one_lit]; norm_num) fin_one_lit).2.2

/-! ## 12. Work bounds: the loops leave through their exit test, not through the fuel of the translation -/

section
variable [SqrtFn]

/-- `EvenWalkIterator::next` with the fuel of its loop as a parameter, regenerated from the same source; the translated
    function is the instance with fuel 64 -/
theorem even_walk_next_eq_fuel (w1 w2 w3 w4 : Pt) (d : T3 Pt Pt Pt) (dist err lastT : XQ) (lastP : Pt) (lastInc : XQ) :
    even_walk_next w1 w2 w3 w4 d dist err lastT lastP lastInc = even_walk_next_fuel 64 w1 w2 w3 w4 d dist err lastT lastP lastInc := rfl


example : even_walk_next pt5 pt5 pt5 pt5 ⟨pt5, pt5, pt5⟩ (fin 1) (fin 1) (fin 0) pt5 (fin 1) =
    even_walk_next_fuel 64 pt5 pt5 pt5 pt5 ⟨pt5, pt5, pt5⟩ (fin 1) (fin 1) (fin 0) pt5 (fin 1) := even_walk_next_eq_fuel _ _ _ _ _ _ _ _ _ _

/-- THE STEP CONTROLLER OF THE EVEN WALK RUNS AT MOST 32 ITERATIONS (MAX_ITERATIONS, walk.rs:176), for EVERY input, finite
    or not: any fuel ≥ 32 gives the same result as fuel 32, so the fuel 64 of the translation is never exhausted and one
    call of `next` costs at most 32 curve evaluations -/
theorem even_walk_loop_bound (fuel : Nat) (hf : 32 ≤ fuel) (w1 w2 w3 w4 : Pt) (d : T3 Pt Pt Pt) (dist err lastT : XQ) (lastP : Pt) (lastInc : XQ) :
    even_walk_next_fuel fuel w1 w2 w3 w4 d dist err lastT lastP lastInc = even_walk_next_fuel 32 w1 w2 w3 w4 d dist err lastT lastP lastInc := by
  unfold even_walk_next_fuel
  extract_lets MI curve wn1 wn2 wn3 distance max_error tinc last_t next_t0 last_point np0 last_section slt count0 upd1 np1 ti1 nt1 c1 slp1 sli1 slt1 upd2 np2 ti2 nt2 c2 slp2 sli2 slt2 upd1' np1' ti1' nt1' c1' slp1' sli1' slt1' upd2' np2' ti2' nt2' c2' slp2' sli2' slt2'
  have e1 : upd1 = upd1' := by
    apply iterFuel_stable (fun s : T4 Pt XQ XQ ℕ => 31 - s.t3)
    · intro s s' hs
      extract_lets np ti nt cnt np' nd error tangent speed ratio ti_a error' adj ti_b ti_c ti' nt' cnt' at hs
      split_ifs at hs with h1 h2
      simp only [Sum.inl.injEq] at hs
      subst hs
      simp only [decide_eq_true_eq, cnt', cnt, MI] at h2 ⊢
      omega
    · simp only [count0]; omega
    · simp only [count0]; omega
  have e2 : upd2 = upd2' := e1
  simp only [np1, ti1, nt1, slp1, sli1, slt1, np2, ti2, nt2, slp2, sli2, slt2, np1', ti1', nt1', slp1', sli1', slt1', np2', ti2', nt2', slp2', sli2', slt2', e1, e2]

example : even_walk_next_fuel 64 pt5 pt5 pt5 pt5 ⟨pt5, pt5, pt5⟩ (fin 1) (fin 1) (fin 0) pt5 (fin 1) =
    even_walk_next_fuel 32 pt5 pt5 pt5 pt5 ⟨pt5, pt5, pt5⟩ (fin 1) (fin 1) (fin 0) pt5 (fin 1) := even_walk_loop_bound 64 (by omega) _ _ _ _ _ _ _ _ _ _

/-- WORK BOUND OF `curve_length` / `tot_section_length`: for EVERY curve (finite or not) and every finite tolerance
    `max_error ≤ 2^k·1e-12` the loop has emptied its stack after fewer than `2^(k+1)` iterations: any two fuels
    `≥ 2^(k+1)` give the same result.  This is the only bound the code guarantees unconditionally - the `MIN_ERROR = 1e-12`
    floor (length.rs:43) under the halving tolerance - and it is proportional to `max_error / 1e-12`, NOT to the size of
    the input (k = 34, i.e. 3·10¹⁰ iterations, for `max_error = 0.01`); that the flatness test accepts long before is not
    a theorem.  (A NaN tolerance fails both exit tests for ever: out of scope.) -/
theorem section_length_work_bound (k : Nat) (w1 w2 w3 w4 : Pt) (s : SectionT XQ) (e : XQ) (he : Fin e)
    (hk : val e ≤ 2 ^ k / 10 ^ 12) (fuel fuel' : Nat) (hf : 2 ^ (k + 1) ≤ fuel) (hf' : 2 ^ (k + 1) ≤ fuel') :
    section_length_fuel fuel w1 w2 w3 w4 s e = section_length_fuel fuel' w1 w2 w3 w4 s e := by
  unfold section_length_fuel
  extract_lets ME w0 tl0 upd tl w upd' tl' w'
  have hupd : upd = upd' := by
    apply iterFuel_stable_inv (fun st : T2 XQ (List (T2 (SectionT XQ) XQ)) => ∀ x ∈ st.t1, Fin x.t1) (fun st => lenMeasure st.t1)
    · intro st st' hinv hstep
      extract_lets tl1 wt at hstep
      cases hl : wt.getLast? with
      | none => simp only [hl] at hstep; cases hstep
      | some top =>
        simp only [hl] at hstep
        have hsplit : wt = wt.dropLast ++ [top] := (List.dropLast_append_getLast? top hl).symm
        have htop : Fin top.t1 := hinv top (List.mem_of_getLast? hl)
        have hrest : ∀ x ∈ wt.dropLast, Fin x.t1 := fun x hx => hinv x (List.dropLast_subset _ hx)
        have hμ : lenMeasure wt = lenMeasure wt.dropLast + lenWeight top.t1 := by
          conv_lhs => rw [hsplit]
          simp [lenMeasure]
        have hw := lenWeight_pos top.t1
        split_ifs at hstep with hacc
        · simp only [Sum.inl.injEq] at hstep; subst hstep
          exact ⟨hrest, by show lenMeasure wt.dropLast < lenMeasure wt; omega⟩
        · simp only [Sum.inl.injEq] at hstep; subst hstep
          simp only [Bool.or_eq_true, decide_eq_true_eq, not_or, ME] at hacc
          have he2 : Fin (top.t1 / (2.0 : XQ)) := fin_div htop (fin_ofScientific ..) (by rw [val_ofScientific]; norm_num)
          have hh := lenWeight_half top.t1 htop hacc.2
          refine ⟨?_, ?_⟩
          · intro x hx
            simp only [List.mem_append, List.mem_singleton] at hx
            rcases hx with (hx | rfl) | rfl
            · exact hrest x hx
            · exact he2
            · exact he2
          · show lenMeasure (wt.dropLast ++ [_] ++ [_]) < lenMeasure wt
            simp only [lenMeasure, List.map_append, List.sum_append, List.map_cons, List.map_nil, List.sum_cons, List.sum_nil] at hμ ⊢
            omega
    · intro x hx
      simp only [w0, List.mem_singleton] at hx
      subst hx; exact he
    all_goals
      show lenMeasure w0 < _
      simp only [lenMeasure, w0, List.map_cons, List.map_nil, List.sum_cons, List.sum_nil, lenWeight, Nat.add_zero]
      have h1 : halvings e ≤ k := halvings_le e k hk
      have h2 : 2 ^ (halvings e + 1) ≤ 2 ^ (k + 1) := Nat.pow_le_pow_right (by omega) (by omega)
      have : 1 ≤ 2 ^ (halvings e + 1) := Nat.one_le_two_pow
      omega
  simp only [tl, tl', hupd]

/-- with the fuel 10⁶ of the translation: never exhausted for tolerances up to 2¹⁸·1e-12 ≈ 2.6e-7 (e.g. the 1e-8 of the
    catalogue), for every curve -/
theorem section_length_fuel_sufficient (w1 w2 w3 w4 : Pt) (s : SectionT XQ) (e : XQ) (he : Fin e)
    (hk : val e ≤ 2 ^ 18 / 10 ^ 12) (fuel : Nat) (hf : 2 ^ 19 ≤ fuel) :
    tot_section_length w1 w2 w3 w4 s e = section_length_fuel fuel w1 w2 w3 w4 s e := by
  rw [section_length_eq_fuel]
  exact section_length_work_bound 18 w1 w2 w3 w4 s e he hk _ _ (by norm_num) hf

example : tot_section_length pt5 pt5 pt5 pt5 sec11 (fin (1/100000000)) = section_length_fuel (2 ^ 19) pt5 pt5 pt5 pt5 sec11 (fin (1/100000000)) :=
  section_length_fuel_sufficient pt5 pt5 pt5 pt5 sec11 (fin (1/100000000)) rfl (by simp only [val_fin]; norm_num) _ (le_refl _)

end

/-- `find_bezier_roots` (control skeleton `Model.Total.rootsLoop`, depth cap MAX_DEPTH of repair 24cd67f): whatever the
    crossing count, flatness test, intercept and subdivision compute, the loop has emptied its stack after fewer than
    `2^(MAX_DEPTH+1)` iterations.  With MAX_DEPTH = 48 that is 5.6·10¹⁴ - a termination proof (the unrepaired code had none:
    defect F12), NOT a usable work bound; the practical bound (the number of sections with a crossing) is not a theorem. -/
theorem rootsLoop_terminates {S K : Type} (maxDepth : Nat) (crossings : S → Nat) (flat : S → Bool) (intercept mid : S → K)
    (split : S → S × S) (fuel : Nat) (hf : 2 ^ (maxDepth + 1) ≤ fuel) (points : S) :
    rootsLoop maxDepth crossings flat intercept mid split fuel points ≠ none := by
  unfold rootsLoop
  refine C08.iterFuel_variant (fun s : List (S × Nat) × List K => ∀ e ∈ s.1, e.2 ≤ maxDepth) (fun r => r ≠ none)
    (fun s => rootsMeasure maxDepth s.1) _ _ ?_ ?_ fuel _ ?_ ?_
  · intro s s' hinv hstep
    unfold rootsStep at hstep
    cases hl : s.1.getLast? with
    | none => simp only [hl] at hstep; cases hstep
    | some top =>
      obtain ⟨sec, depth⟩ := top
      simp only [hl] at hstep
      have hsplit : s.1 = s.1.dropLast ++ [(sec, depth)] := by
        have := List.dropLast_append_getLast? (sec, depth) hl
        exact this.symm
      have hmem : (sec, depth) ∈ s.1 := List.mem_of_getLast? hl
      have hd := hinv _ hmem
      have hrest : ∀ e ∈ s.1.dropLast, e.2 ≤ maxDepth := fun e he => hinv e (List.dropLast_subset _ he)
      have hμ : rootsMeasure maxDepth s.1 = rootsMeasure maxDepth s.1.dropLast + rootsWeight maxDepth depth := by
        conv_lhs => rw [hsplit]
        simp [rootsMeasure]
      have hw := rootsWeight_pos maxDepth depth
      split_ifs at hstep with h1 h2 h3
      · simp only [Sum.inl.injEq] at hstep; subst hstep; exact ⟨hrest, by simp only; omega⟩
      · simp only [Sum.inl.injEq] at hstep; subst hstep; exact ⟨hrest, by simp only; omega⟩
      · simp only [Sum.inl.injEq] at hstep; subst hstep; exact ⟨hrest, by simp only; omega⟩
      · simp only [Sum.inl.injEq] at hstep; subst hstep
        simp only [ge_iff_le, not_le] at h3
        refine ⟨?_, ?_⟩
        · intro e he
          simp only [List.mem_append, List.mem_singleton] at he
          rcases he with (he | rfl) | rfl
          · exact hrest e he
          · simp only; omega
          · simp only; omega
        · have := rootsWeight_split maxDepth depth h3
          simp only [rootsMeasure, List.map_append, List.sum_append, List.map_cons, List.map_nil, List.sum_cons, List.sum_nil] at hμ ⊢
          omega
  · intro s r _ hstep
    unfold rootsStep at hstep
    cases hl : s.1.getLast? with
    | none => simp only [hl] at hstep; cases hstep; simp
    | some top =>
      simp only [hl] at hstep
      split_ifs at hstep
  · intro e he
    simp only [List.mem_singleton] at he
    subst he; simp
  · simp only [rootsMeasure, rootsWeight, List.map_cons, List.map_nil, List.sum_cons, List.sum_nil]
    have : 1 ≤ 2 ^ (maxDepth + 1) := Nat.one_le_two_pow
    simp only [Nat.sub_zero, Nat.add_zero]
    omega

example : rootsLoop (S := Nat) (K := Nat) 2 (fun _ => 2) (fun _ => false) id id (fun s => (s, s)) 8 0 ≠ none :=
  rootsLoop_terminates 2 _ _ _ _ _ 8 (by norm_num) 0

/-! ## 13. Witnesses and concrete evaluations (kernel-evaluated at `XQ`) -/

/-- `FatLine::solve_line_y` is NOT total: for a vertical hull edge through `x1` it returns `Some(NaN)` (∞ − ∞ after the
    unguarded division by `p2.x − p1.x = 0`); `clip_t` discards it by its range test (`clip_t_fin`) -/
theorem solve_line_y_not_total :
    solve_line_y (K := XQ) ⟨fin 1, fin 2⟩ ⟨⟨fin 1, fin 0⟩, ⟨fin 1, fin 1⟩⟩ = ⟨some nan, none⟩ := by decide +kernel

example : ¬ Fin nan := not_fin_nan

/-- two crossing lines, for the non-vacuity of the intersection theorems (`some` is returned and is finite) -/
def lineA : T2 Pt Pt := ⟨⟨fin 0, fin 0⟩, ⟨fin 2, fin 2⟩⟩
def lineB : T2 Pt Pt := ⟨⟨fin 0, fin 2⟩, ⟨fin 2, fin 0⟩⟩
example : line_intersects_line lineA lineB = some ⟨fin 1, fin 1⟩ := by decide +kernel
example : ray_intersects_ray lineA lineB = some ⟨fin 1, fin 1⟩ := by decide +kernel
example : line_intersects_line lineA lineA = none := by decide +kernel   -- 0/0 inside, `None` outside

section
attribute [local instance] exSqrt

/-- a straight curve: the quadratic formula divides by `a·2 = 0`; only the end parameter is returned -/
example : find_extremities (fin 0) (fin 1) (fin 2) (fin 3) = [fin 1] := by decide +kernel

/-- `clip_t` does return ranges (the theorem `clip_t_fin` is not vacuous) -/
example : (clip_t (fat_from_curve (⟨fin 0, fin 0⟩ : Pt) ⟨fin 1, fin 1⟩ ⟨fin 2, fin 1⟩ ⟨fin 3, fin 0⟩)
    (⟨fin 1, fin (-1)⟩ : Pt) ⟨fin 1, fin 0⟩ ⟨fin 2, fin 1⟩ ⟨fin 2, fin 2⟩).isSome = true := by decide +kernel

/-- the worst sample of (0, 4, 0) is the interior one (`fit_split_pos` is not vacuous) -/
example : (max_error_pick [fin 0, fin 4, fin 0]).t1 = 1 := by decide +kernel

/-- `curve_intersects_ray` does return hits (the theorem `curve_intersects_ray_fin` is not vacuous) -/
example : (curve_intersects_ray (fun _ => [fin (1/2)]) (⟨fin 0, fin 0⟩ : Pt) ⟨fin 0, fin 4⟩ ⟨fin 4, fin 4⟩ ⟨fin 4, fin 0⟩
    ⟨⟨fin 2, fin (-1)⟩, ⟨fin 2, fin 5⟩⟩).length = 1 := by decide +kernel

end

end C20
