/-
C08 (the least-squares kernel, generated)  `fit_curve_cubic` with NOTHING left as a parameter.

`Gen/FitKernel.lean` is regenerated on every check from fit.rs: `chords_for_points`, `generate_bezier` (whole, the 2x2 normal
equations with the arrays `c`, `x` scalarised), `reparameterize`, `max_error_for_curve` (whole), `tangent_between`,
`start_tangent`, `end_tangent`, at `Curve<Coord2>`.  `Model.FitKernel.fitCubicGen` ties the two self-calls of the generated body
over these with a depth; run at `Float` it reproduces the real `fit_curve` / `fit_curve_cubic` bit for bit (driver ops `fit`,
`cubic`).  Here:

* the chain / termination theorem of `C08Term` is re-proved with an INVARIANT on the parameters (`cubicKnot_chain_inv`): the
  interior-split hypothesis is only needed for parameter lists the body can actually produce;
* the invariant "as many parameters as points, the first is 0, the last is 1, all in [0,1]" is established for the generated
  `chords_for_points` and kept by the generated `reparameterize` about any curve from the first to the last point;
* `generate_bezier` returns a curve from the first to the last point, its inner control points lie on the two tangent rays at a
  non-negative distance, and - when the least-squares branch is taken - the distances solve the normal equations `C·α = X`;
* hence (`generated_fit_chain`): for every list of points in which no three consecutive points coincide (isolated repeated points are allowed), every tolerance and every
  tangents, the generated `fit_curve_cubic` never uses up depth `points.length` and returns a connected chain from the first to
  the last point, and (`generated_fit_within_error`) a slice answered by a single curve has every point within the tolerance of
  that curve AT A PARAMETER IN [0,1].
-/
import FloVerif.Props.C08Term
import FloVerif.Model.FitKernel
import FloVerif.Gen.Total
import Mathlib.Tactic.Ring
import Mathlib.Tactic.NormNum.OfScientific
import Mathlib.Tactic.FieldSimp
import Mathlib.Tactic.Linarith
import Mathlib.Algebra.Order.Field.Basic
import Mathlib.Analysis.Real.Sqrt

set_option linter.unusedSectionVars false
namespace C08Kernel
open Prelude Gen C08 C08Cubic C08Term

section generic
variable {K P C : Type} [Field K] [LinearOrder K] [IsStrictOrderedRing K] [Inhabited K]
  [Inhabited P] [Add P] [Sub P] [HMul P K P] [Dot P K] [FSqrt K]

/-- an invariant of the parameter list that holds after the first re-parameterisation and is kept by every further one holds for
    the parameters of the state on which the body decides -/
theorem bodyState_chords (I : List K → Prop) (cfp : List P → List K) (gb : List P → List K → P → P → C)
    (rp : List P → List K → C → List K) (mefc : List P → List K → C → T2 K Nat) (points : List P) (st et : P) (me : K)
    (h0 : I (rp points (cfp points) (gb points (cfp points) st et)))
    (hstep : ∀ ch, I ch → I (rp points ch (gb points ch st et))) :
    I (bodyState cfp gb rp mefc points st et me).t0 := by
  let Inv : T4 (List K) C K Nat → Prop := fun s => I s.t0 ∧ s.t1 = gb points s.t0 st et
  suffices h : Inv (bodyState cfp gb rp mefc points st et me) from h.1
  generalize hs : bodyState cfp gb rp mefc points st et me = s
  unfold bodyState at hs
  simp only at hs
  split at hs
  · rw [← hs]
    apply foldlBrk_invariant Inv _ _ _ _ ⟨h0, rfl⟩
    intro s x hsx
    have hnext : I (rp points s.t0 s.t1) := by rw [hsx.2]; exact hstep _ hsx.1
    constructor
    · intro s' hs'
      split at hs'
      · cases hs'
      · cases hs'; exact ⟨hnext, rfl⟩
    · intro s' hs'
      split at hs'
      · cases hs'; exact ⟨hnext, rfl⟩
      · cases hs'
  · rw [← hs]; exact ⟨h0, rfl⟩

/-- `cubic_body_cases` with the invariant: the parameters for which a curve is accepted, or at which a slice is split, satisfy `I` -/
theorem body_cases_inv (I : List K → Prop)
    (recurse : List P → P → P → K → List C) (cfp : List P → List K) (gb : List P → List K → P → P → C)
    (rp : List P → List K → C → List K) (mefc : List P → List K → C → T2 K Nat) (tb : P → P → P → P) (neg : P → P)
    (fl : P → P → List C) (points : List P) (st et : P) (max_error : K)
    (h0 : I (rp points (cfp points) (gb points (cfp points) st et)))
    (hstep : ∀ ch, I ch → I (rp points ch (gb points ch st et))) :
    let r := fit_curve_cubic_body recurse cfp gb rp mefc tb neg fl points st et max_error
    (points.length ≤ 2 ∧ r = fl (listGet points 0) (listGet points 1)) ∨
    (2 < points.length ∧ ∃ chords, I chords ∧ r = [gb points chords st et] ∧
        (mefc points chords (gb points chords st et)).t0 ≤ clampTol max_error) ∨
    (2 < points.length ∧ ∃ chords, I chords ∧ ¬ (mefc points chords (gb points chords st et)).t0 ≤ clampTol max_error ∧
        let sp := (mefc points chords (gb points chords st et)).t1
        let ct := tb (listGet points (sp - 1)) (listGet points sp) (listGet points (sp + 1))
        r = recurse (listSlice points 0 (sp + 1)) st ct (clampTol max_error) ++
            recurse (listSlice points sp points.length) (ct * (-(1.0 : K))) et (clampTol max_error)) := by
  intro r
  have hr : r = _ := body_eq recurse cfp gb rp mefc tb neg fl points st et max_error
  have hinv := bodyState_inv cfp gb rp mefc points st et (clampTol max_error)
  have hI := bodyState_chords I cfp gb rp mefc points st et (clampTol max_error) h0 hstep
  simp only at hinv
  generalize bodyState cfp gb rp mefc points st et (clampTol max_error) = s at hr hinv hI
  obtain ⟨h1, h2, h3⟩ := hinv
  by_cases hlen : points.length ≤ 2
  · left; rw [if_pos hlen] at hr; exact ⟨hlen, hr⟩
  · right
    rw [if_neg hlen] at hr
    unfold bodyFinish at hr
    by_cases hacc : s.t2 ≤ clampTol max_error
    · left
      simp only [hacc, decide_true, if_true] at hr
      refine ⟨by omega, s.t0, hI, ?_, ?_⟩
      · rw [hr, h1]
      · rw [← h1, ← h2]; exact hacc
    · right
      simp only [hacc, decide_false, Bool.false_eq_true, if_false] at hr
      refine ⟨by omega, s.t0, hI, ?_, ?_⟩
      · rw [← h1, ← h2]; exact hacc
      · simp only
        rw [← h1, ← h3]; exact hr

/-- `C08Term.cubicKnot_chain` WITH AN INVARIANT ON THE PARAMETERS: the interior-split hypothesis is only asked of parameter lists
    satisfying `I ps`, where `I ps` holds after the first re-parameterisation of every slice `ps` and is kept by every further one. -/
theorem cubicKnot_chain_inv (startOf endOf : C → P) (I : List P → List K → Prop)
    (cfp : List P → List K) (gb : List P → List K → P → P → C)
    (rp : List P → List K → C → List K) (mefc : List P → List K → C → T2 K Nat) (tb : P → P → P → P) (neg : P → P)
    (fl : P → P → List C) (all : List P) (tol : K)
    (hLine : ∀ p q, ∃ c, fl p q = [c] ∧ startOf c = p ∧ endOf c = q)
    (hgb : ∀ (ps : List P) (chords : List K) (s t : P), ps <:+: all → 3 ≤ ps.length →
      some (startOf (gb ps chords s t)) = ps.head? ∧ some (endOf (gb ps chords s t)) = ps.getLast?)
    (hI0 : ∀ (ps : List P) (s t : P), ps <:+: all → 3 ≤ ps.length → I ps (rp ps (cfp ps) (gb ps (cfp ps) s t)))
    (hIstep : ∀ (ps : List P) (ch : List K) (s t : P), ps <:+: all → 3 ≤ ps.length → I ps ch → I ps (rp ps ch (gb ps ch s t)))
    (hSplit : ∀ (ps : List P) (chords : List K) (s t : P), ps <:+: all → 3 ≤ ps.length → I ps chords →
      ¬ (mefc ps chords (gb ps chords s t)).t0 ≤ tol →
      1 ≤ (mefc ps chords (gb ps chords s t)).t1 ∧ (mefc ps chords (gb ps chords s t)).t1 + 1 < ps.length) :
    ∀ (fuel : Nat) (points : List P) (st et : P) (e : K), clampTol e = tol → points <:+: all → 2 ≤ points.length →
      points.length ≤ fuel →
      FitsChain startOf endOf points (cubicKnot cfp gb rp mefc tb neg fl fuel points st et e)
  | 0, points, st, et, e, _, _, h2, hf => by omega
  | fuel + 1, points, st, et, e, he, hin, h2, hf => by
    show FitsChain startOf endOf points
      (fit_curve_cubic_body (cubicKnot cfp gb rp mefc tb neg fl fuel) cfp gb rp mefc tb neg fl points st et e)
    by_cases h3 : points.length ≤ 2
    · -- two points: a line
      have hr := body_eq (cubicKnot cfp gb rp mefc tb neg fl fuel) cfp gb rp mefc tb neg fl points st et e
      rw [if_pos h3] at hr
      rw [hr]
      match points, h2, h3 with
      | [a, b], _, _ =>
        obtain ⟨c, hc, hs, he'⟩ := hLine a b
        have h0 : listGet [a, b] 0 = a := rfl
        have h1 : listGet [a, b] 1 = b := rfl
        rw [h0, h1, hc]
        exact ⟨by simp, by simp [hs], by simp [he'], List.isChain_singleton _⟩
    · have hcases := body_cases_inv (I points) (cubicKnot cfp gb rp mefc tb neg fl fuel) cfp gb rp mefc tb neg fl points st et e
        (hI0 points st et hin (by omega)) (fun ch hch => hIstep points ch st et hin (by omega) hch)
      simp only at hcases
      rw [he] at hcases
      rcases hcases with ⟨hle, _⟩ | ⟨_, chords, _, hr, _⟩ | ⟨_, chords, hIc, hrej, hr⟩
      · omega
      · -- one curve
        rw [hr]
        obtain ⟨hs, he'⟩ := hgb points chords st et hin (by omega)
        exact ⟨by simp, by simpa using hs, by simpa using he', List.isChain_singleton _⟩
      · -- split
        rw [hr]
        obtain ⟨hsp1, hsp2⟩ := hSplit points chords st et hin (by omega) hIc hrej
        generalize (mefc points chords (gb points chords st et)).t1 = sp at hsp1 hsp2 hr ⊢
        generalize tb (listGet points (sp - 1)) (listGet points sp) (listGet points (sp + 1)) = ct
        have htol : clampTol tol = tol := by rw [← he, clampTol_idem]
        have hl : (listSlice points 0 (sp + 1)).length = sp + 1 := by
          rw [listSlice_length _ _ _ (by omega)]; omega
        have hrl : (listSlice points sp points.length).length = points.length - sp :=
          listSlice_length _ _ _ (Nat.le_refl _)
        have ihl := (fitsChain_iff _ _ _ _).1 (cubicKnot_chain_inv startOf endOf I cfp gb rp mefc tb neg fl all tol hLine hgb hI0 hIstep hSplit
          fuel (listSlice points 0 (sp + 1)) st ct tol htol ((listSlice_infix _ _ _).trans hin) (by omega) (by omega))
        have ihr := (fitsChain_iff _ _ _ _).1 (cubicKnot_chain_inv startOf endOf I cfp gb rp mefc tb neg fl all tol hLine hgb hI0 hIstep hSplit
          fuel (listSlice points sp points.length) (ct * (-(1.0 : K))) et tol htol ((listSlice_infix _ _ _).trans hin) (by omega) (by omega))
        rw [listSlice_head? _ _ _ (by omega), listSlice_getLast? _ _ _ (by omega) (by omega)] at ihl
        rw [listSlice_head? _ _ _ (by omega), listSlice_getLast? _ _ _ (by omega) (Nat.le_refl _)] at ihr
        rw [Nat.add_sub_cancel] at ihl
        rw [fitsChain_iff, head?_eq_getElem?_zero, List.getLast?_eq_getElem?]
        exact ihl.append ihr

end generic

/-! ### the generated kernel at `Curve<Coord2>` -/
section kernel
variable {K : Type} [Field K] [LinearOrder K] [IsStrictOrderedRing K] [Inhabited K]

/-- in exact arithmetic `f64::abs` is the absolute value -/
local instance : FAbs K := ⟨fun a => |a|⟩
/-- `n as f64` -/
local instance : OfInt K := ⟨fun n => (n : K)⟩

variable [FSqrt K] [FConsts K] [FSignum K]

abbrev Cub (K : Type) := T4 (V2 K) (V2 K) (V2 K) (V2 K)

theorem lit0k : (0.0 : K) = 0 := by norm_num
theorem lit1k : (1.0 : K) = 1 := by norm_num

/-- what the theorems need of `f64::sqrt` -/
def SqrtOK (K : Type) [Field K] [LinearOrder K] [FSqrt K] : Prop :=
  (∀ x : K, 0 ≤ (fsqrt x : K)) ∧ (fsqrt (0 : K) : K) = 0 ∧ (∀ x : K, 0 < x → 0 < (fsqrt x : K))

/-- the invariant of the parameter list: one parameter per point, the first is 0, the last is 1, all lie in [0,1] -/
def ChordInv (ps : List (V2 K)) (ch : List K) : Prop :=
  ch.length = ps.length ∧ ch.head? = some 0 ∧ ch.getLast? = some 1 ∧ ∀ c ∈ ch, 0 ≤ c ∧ c ≤ 1

/-- THE KNOT: `Model.FitKernel.fitCubicGen` (what the driver runs against the real `fit_curve_cubic`, bit for bit) is
    `C08Term.cubicKnot` over the generated kernel -/
theorem fitCubicGen_eq_cubicKnot (n : Nat) :
    Model.FitKernel.fitCubicGen (K := K) n =
      cubicKnot (K := K) (P := V2 K) (C := Cub K) chords_for_points generate_bezier reparameterize max_error_for_curve tangent_between
        (fun p => p * (-(1.0 : K))) (fit_line (K := K)) n := by
  induction n with
  | zero => rfl
  | succ n ih => funext points st et e; simp only [Model.FitKernel.fitCubicGen, cubicKnot, ih]

/-- `generate_bezier` RETURNS A CURVE FROM THE FIRST TO THE LAST POINT, whatever the parameters and the tangents -/
theorem generate_bezier_ends (points : List (V2 K)) (chords : List K) (st et : V2 K) :
    (generate_bezier points chords st et).t0 = listGet points 0 ∧
    (generate_bezier points chords st et).t3 = listGet points (points.length - 1) := by
  unfold generate_bezier
  dsimp only
  constructor <;> (split_ifs <;> rfl)

/-- the generated `reparameterize` is `newton_raphson_root_find` on every (point, parameter) pair -/
theorem reparameterize_eq (points : List (V2 K)) (chords : List K) (c : Cub K) :
    reparameterize points chords c =
      (points.zip chords).map (fun s => newton_raphson_root_find c.t0 c.t1 c.t2 c.t3 s.1 s.2) := by
  unfold reparameterize
  simp only [List.zip, List.map_zipWith]

/-- the generated whole `max_error_for_curve` is the selection loop over the per-sample closure (the two pieces `C08Error` is about) -/
theorem max_error_for_curve_eq (points : List (V2 K)) (chords : List K) (c : Cub K) :
    max_error_for_curve points chords c =
      max_error_pick ((points.zip chords).map (fun s => (fit_point_error c.t0 c.t1 c.t2 c.t3 s.1 s.2 : K))) := by
  unfold max_error_for_curve max_error_pick fit_point_error
  simp only [List.zip, List.map_zipWith]

/-- a `for` loop keeps an invariant that its body keeps for the elements it visits -/
theorem foldlT_inv_mem2 {α β : Type} (P : β → Prop) (l : List α) (init : β) (f : β → α → β)
    (h0 : P init) (hstep : ∀ b a, a ∈ l → P b → P (f b a)) : P (foldlT l init f) := by
  unfold foldlT
  induction l generalizing init with
  | nil => exact h0
  | cons x xs ih =>
    exact ih _ (hstep _ _ List.mem_cons_self h0) (fun b a ha hb => hstep b a (List.mem_cons_of_mem _ ha) hb)

/-- one step of the chord-length loop -/
def chordStep (points : List (V2 K)) (st : T2 K (List K)) (p : Nat) : T2 K (List K) :=
  T2.mk (st.t0 + coord2_distance_to (listGet points (p - 1)) (listGet points p))
    (st.t1 ++ [st.t0 + coord2_distance_to (listGet points (p - 1)) (listGet points p)])

theorem chords_for_points_eq (points : List (V2 K)) :
    chords_for_points points =
      (foldlT (List.range' 1 (points.length - 1)) (T2.mk (0 : K) [0]) (chordStep points)).t1.map
        (fun d => d / (foldlT (List.range' 1 (points.length - 1)) (T2.mk (0 : K) [0]) (chordStep points)).t0) := by
  unfold chords_for_points chordStep
  simp only [lit0k, List.nil_append]

theorem chordFold_length (points : List (V2 K)) (l : List Nat) (s : T2 K (List K)) :
    (foldlT l s (chordStep points)).t1.length = s.t1.length + l.length := by
  unfold foldlT
  induction l generalizing s with
  | nil => simp
  | cons x xs ih => simp only [List.foldl_cons, ih, chordStep, List.length_append, List.length_cons, List.length_nil]; omega

/-- distances are never negative -/
theorem distance_nonneg (hs : SqrtOK K) (p q : V2 K) : 0 ≤ coord2_distance_to p q := by
  unfold coord2_distance_to; exact hs.1 _

/-- the running total never decreases -/
theorem chordFold_mono (hs : SqrtOK K) (points : List (V2 K)) (l : List Nat) (s : T2 K (List K)) :
    s.t0 ≤ (foldlT l s (chordStep points)).t0 := by
  unfold foldlT
  induction l generalizing s with
  | nil => exact le_refl _
  | cons x xs ih =>
    simp only [List.foldl_cons]
    exact le_trans (by unfold chordStep; exact le_add_of_nonneg_right (distance_nonneg hs _ _)) (ih _)

/-- and it is at least the start value plus any single distance it has added -/
theorem chordFold_ge (hs : SqrtOK K) (points : List (V2 K)) (l : List Nat) (s : T2 K (List K)) (p : Nat) (hp : p ∈ l) :
    s.t0 + coord2_distance_to (listGet points (p - 1)) (listGet points p) ≤ (foldlT l s (chordStep points)).t0 := by
  unfold foldlT
  induction l generalizing s with
  | nil => cases hp
  | cons x xs ih =>
    simp only [List.foldl_cons]
    rcases List.mem_cons.1 hp with rfl | hp'
    · have := chordFold_mono hs points xs (chordStep points s p)
      unfold foldlT at this
      exact le_trans (by unfold chordStep; exact le_refl _) this
    · refine le_trans ?_ (ih _ hp')
      unfold chordStep
      have := distance_nonneg hs (listGet points (x - 1)) (listGet points x)
      linarith

/-- CHORD-LENGTH PARAMETERS: for at least two points that are not all the same point (some consecutive pair is a positive distance
    apart; repeated points elsewhere are allowed), `chords_for_points` returns one parameter per point, the first 0, the last 1, all
    in [0,1] -/
theorem chords_for_points_spec (hs : SqrtOK K) (points : List (V2 K)) (hn : 2 ≤ points.length)
    (hpos : ∃ p, 1 ≤ p ∧ p < points.length ∧ 0 < coord2_distance_to (listGet points (p - 1)) (listGet points p)) :
    ChordInv points (chords_for_points points) := by
  rw [chords_for_points_eq]
  let J : T2 K (List K) → Prop := fun s =>
    0 ≤ s.t0 ∧ s.t1.head? = some 0 ∧ s.t1.getLast? = some s.t0 ∧ (∀ d ∈ s.t1, 0 ≤ d ∧ d ≤ s.t0)
  have hJ : J (foldlT (List.range' 1 (points.length - 1)) (T2.mk (0 : K) [0]) (chordStep points)) := by
    apply foldlT_inv_mem2 J
    · exact ⟨le_refl 0, rfl, rfl, by simp⟩
    · intro b a ha ⟨h0, hh, hl, hall⟩
      have hd := distance_nonneg hs (listGet points (a - 1)) (listGet points a)
      refine ⟨by unfold chordStep; exact add_nonneg h0 hd, ?_, ?_, ?_⟩
      · unfold chordStep; simp only
        cases hb : b.t1 with
        | nil => rw [hb] at hh; cases hh
        | cons x xs => rw [hb] at hh; simpa using hh
      · unfold chordStep; simp
      · unfold chordStep; simp only
        intro d hd'
        rcases List.mem_append.1 hd' with h | h
        · exact ⟨(hall d h).1, le_trans (hall d h).2 (le_add_of_nonneg_right hd)⟩
        · have : d = b.t0 + coord2_distance_to (listGet points (a - 1)) (listGet points a) := by simpa using h
          rw [this]; exact ⟨add_nonneg h0 hd, le_refl _⟩
  have hlen := chordFold_length points (List.range' 1 (points.length - 1)) (T2.mk (0 : K) [0])
  obtain ⟨p, hp1, hp2, hpd⟩ := hpos
  have hge := chordFold_ge hs points (List.range' 1 (points.length - 1)) (T2.mk (0 : K) [0]) p
    (List.mem_range'_1.2 ⟨hp1, by omega⟩)
  generalize foldlT (List.range' 1 (points.length - 1)) (T2.mk (0 : K) [0]) (chordStep points) = r at hJ hlen hge
  obtain ⟨h0, hh, hl, hall⟩ := hJ
  simp only [List.length_cons, List.length_nil, List.length_range'] at hlen
  have hrlen : r.t1.length = points.length := by omega
  have htot : 0 < r.t0 := by
    simp only [zero_add] at hge
    exact lt_of_lt_of_le hpd hge
  refine ⟨by simpa using hrlen, ?_, ?_, ?_⟩
  · rw [List.head?_map, hh]; simp
  · rw [List.getLast?_map, hl]; simp [div_self htot.ne']
  · intro c hc
    obtain ⟨d, hd, rfl⟩ := List.mem_map.1 hc
    exact ⟨div_nonneg (hall d hd).1 htot.le, (div_le_one htot).2 (hall d hd).2⟩

/-- with the invariant, the first (point, parameter) pair is (first point, 0) and the last is (last point, 1) -/
theorem zip_ends (ps : List (V2 K)) (ch : List K) (hn : 2 ≤ ps.length) (hI : ChordInv ps ch) :
    (ps.zip ch).head? = some (listGet ps 0, 0) ∧ (ps.zip ch).getLast? = some (listGet ps (ps.length - 1), 1) := by
  obtain ⟨hlen, hh, hl, _⟩ := hI
  constructor
  · match ps, ch, hn, hlen, hh with
    | p :: ps', c :: ch', _, _, hh =>
      have hc : c = 0 := by simpa using hh
      subst hc; rfl
  · rw [List.getLast?_eq_getElem?] at hl ⊢
    rw [List.length_zip, hlen, Nat.min_self, List.getElem?_zip_eq_some]
    refine ⟨?_, by rw [← hlen]; exact hl⟩
    simp only [listGet]
    rw [getElem!_pos ps (ps.length - 1) (by omega)]
    exact List.getElem?_eq_getElem (by omega)

theorem point_at_zero (w1 w2 w3 w4 : V2 K) : curve_point_at_pos w1 w2 w3 w4 (0 : K) = w1 := by
  apply V2_ext <;> simp only [curve_point_at_pos, basis, V2_add_x, V2_add_y, V2_mul_x, V2_mul_y] <;> norm_num
theorem point_at_one (w1 w2 w3 w4 : V2 K) : curve_point_at_pos w1 w2 w3 w4 (1 : K) = w4 := by
  apply V2_ext <;> simp only [curve_point_at_pos, basis, V2_add_x, V2_add_y, V2_mul_x, V2_mul_y] <;> norm_num

theorem dot_sub_self (p x : V2 K) : (dot (p - p) x : K) = 0 := by
  show ((0.0 : K) + (p.x - p.x) * x.x) + (p.y - p.y) * x.y = 0
  norm_num

/-- RE-PARAMETERISATION KEEPS THE INVARIANT about any curve from the first to the last point (what `generate_bezier` returns):
    the parameters 0 and 1 of the end points are fixed (`C08.newton_fixed_at_hit_2d`), every other one stays where it is or is
    clamped into [0,1] (`C08.newton_in_unit`, repair F10) -/
theorem reparameterize_inv (ps : List (V2 K)) (ch : List K) (c : Cub K) (hn : 2 ≤ ps.length)
    (h0 : c.t0 = listGet ps 0) (h3 : c.t3 = listGet ps (ps.length - 1)) (hI : ChordInv ps ch) :
    ChordInv ps (reparameterize ps ch c) := by
  have hz := zip_ends ps ch hn hI
  obtain ⟨hlen, _, _, hall⟩ := hI
  rw [reparameterize_eq]
  refine ⟨by simp [List.length_zip, hlen], ?_, ?_, ?_⟩
  · rw [List.head?_map, hz.1]
    simp only [Option.map_some, Option.some.injEq]
    exact newton_fixed_at_hit_2d _ _ _ _ _ _ ⟨le_refl 0, zero_le_one⟩ (by rw [point_at_zero, h0])
  · rw [List.getLast?_map, hz.2]
    simp only [Option.map_some, Option.some.injEq]
    exact newton_fixed_at_hit_2d _ _ _ _ _ _ ⟨zero_le_one, le_refl 1⟩ (by rw [point_at_one, h3])
  · intro u hu
    obtain ⟨s, hs, rfl⟩ := List.mem_map.1 hu
    exact newton_in_unit _ _ _ _ _ _ (hall _ (List.of_mem_zip hs).2)

/-- A REJECTED CANDIDATE IS SPLIT AT AN INTERIOR POINT: for parameters meeting the invariant, the generated `max_error_for_curve`
    of the generated `generate_bezier` reports an index that is neither the first nor the last point (their errors are 0, the index
    reported has a positive one) - so `points[split_pos-1]`, `points[split_pos+1]` never leave the slice and both halves are
    shorter -/
theorem generated_split (hs : SqrtOK K) (ps : List (V2 K)) (ch : List K) (st et : V2 K) (tol : K) (htol : 0 ≤ tol)
    (hn : 3 ≤ ps.length) (hI : ChordInv ps ch)
    (hrej : ¬ (max_error_for_curve ps ch (generate_bezier ps ch st et)).t0 ≤ tol) :
    1 ≤ (max_error_for_curve ps ch (generate_bezier ps ch st et)).t1 ∧
    (max_error_for_curve ps ch (generate_bezier ps ch st et)).t1 + 1 < ps.length := by
  have hz := zip_ends ps ch (by omega) hI
  have he := generate_bezier_ends ps ch st et
  rw [max_error_for_curve_eq] at hrej ⊢
  generalize generate_bezier ps ch st et = c at he hrej ⊢
  apply generated_split_interior ps ch c tol htol (le_of_eq hs.2.1)
  · intro s hs'
    rw [hz.1] at hs'; cases hs'
    exact le_of_eq (fit_point_error_at_hit dot_sub_self _ _ _ _ _ _ (by rw [point_at_zero, he.1]))
  · intro s hs'
    rw [hz.2] at hs'; cases hs'
    exact le_of_eq (fit_point_error_at_hit dot_sub_self _ _ _ _ _ _ (by rw [point_at_one, he.2]))
  · exact hrej

/-! ### the least-squares step -/

/-- the sums of the normal equations as the generated loop of `generate_bezier` accumulates them:
    `(c[0][0], c[0][1], c[1][0], c[1][1], x[0], x[1])` with `a_i = (start_tangent·B1(u_i), end_tangent·B2(u_i))`,
    `c[j][k] = Σ a_ij·a_ik`, `x[j] = Σ a_ij·(p_i − (p_0·(B0+B1) + p_last·(B2+B3)))` -/
def lsSums (points : List (V2 K)) (chords : List K) (st et : V2 K) : T6 K K K K K K :=
  let a := (List.map (fun chord =>
    let inverse_chord := ((1.0 : K) - chord)
    let b1 := (((3.0 : K) * chord) * (inverse_chord * inverse_chord))
    let b2 := ((((3.0 : K) * chord) * chord) * inverse_chord)
    (T2.mk (st * b1) (et * b2))) chords)
  let last_point := (listGet points ((List.length points) - 1))
  (foldlT (List.range' 0 ((List.length points) - 0)) (T6.mk (0.0 : K) (0.0 : K) (0.0 : K) (0.0 : K) (0.0 : K) (0.0 : K)) (fun st_1 it_1 =>
    let c_0_0 := st_1.t0
    let c_0_1 := st_1.t1
    let c_1_1 := st_1.t3
    let x_0 := st_1.t4
    let x_1 := st_1.t5
    let point := it_1
    let c_0_0 := (c_0_0 + (dot (listGet a point).t0 (listGet a point).t0))
    let c_0_1 := (c_0_1 + (dot (listGet a point).t0 (listGet a point).t1))
    let c_1_0 := c_0_1
    let c_1_1 := (c_1_1 + (dot (listGet a point).t1 (listGet a point).t1))
    let chord := (listGet chords point)
    let inverse_chord := ((1.0 : K) - chord)
    let b0 := ((inverse_chord * inverse_chord) * inverse_chord)
    let b1 := (((3.0 : K) * chord) * (inverse_chord * inverse_chord))
    let b2 := ((((3.0 : K) * chord) * chord) * inverse_chord)
    let b3 := ((chord * chord) * chord)
    let tmp := ((listGet points point) - (((((listGet points 0) * b0) + ((listGet points 0) * b1)) + (last_point * b2)) + (last_point * b3)))
    let x_0 := (x_0 + (dot (listGet a point).t0 tmp))
    let x_1 := (x_1 + (dot (listGet a point).t1 tmp))
    (T6.mk c_0_0 c_0_1 c_1_0 c_1_1 x_0 x_1)))

/-- `generate_bezier` = accumulate the sums, then solve (`Gen.generate_bezier_tail` is the same source text from its sixth
    statement on, translated for C20) -/
theorem generate_bezier_eq_tail (points : List (V2 K)) (chords : List K) (st et : V2 K) :
    generate_bezier points chords st et =
      generate_bezier_tail (lsSums points chords st et).t0 (lsSums points chords st et).t1 (lsSums points chords st et).t2
        (lsSums points chords st et).t3 (lsSums points chords st et).t4 (lsSums points chords st et).t5
        (listGet points 0) (listGet points (points.length - 1)) st et := rfl

/-- THE LEAST-SQUARES STEP SOLVES THE NORMAL EQUATIONS: the inner control points always lie on the two tangent rays at a
    non-negative distance (`p_0 + start_tangent·α_l`, `p_last + end_tangent·α_r`, `α ≥ 0`), and when the determinant passes the
    `1e-4` test and both distances pass the Wu/Barsky test the distances are THE solution of `C·α = X` (Cramer's rule); otherwise
    both are a third of the distance between the end points. -/
theorem generate_bezier_tail_spec (hs0 : ∀ x : K, 0 ≤ (fsqrt x : K)) (c00 c01 c10 c11 x0 x1 : K) (p0 pl st et : V2 K) :
    ∃ al ar : K, 0 ≤ al ∧ 0 ≤ ar ∧
      generate_bezier_tail c00 c01 c10 c11 x0 x1 p0 pl st et = T4.mk p0 (p0 + st * al) (pl + et * ar) pl ∧
      ((al = coord2_distance_to p0 pl / 3 ∧ ar = coord2_distance_to p0 pl / 3) ∨
       (¬ |c00 * c11 - c10 * c01| < (1.0e-4 : K) ∧ c00 * al + c01 * ar = x0 ∧ c10 * al + c11 * ar = x1)) := by
  have hseg : 0 ≤ coord2_distance_to p0 pl := by unfold coord2_distance_to; exact hs0 _
  have h3 : (3.0 : K) = 3 := by norm_num
  unfold generate_bezier_tail
  simp only [Bool.or_eq_true, decide_eq_true_eq]
  by_cases hdet : |c00 * c11 - c10 * c01| < (1.0e-4 : K)
  · -- no usable determinant: both distances are 0.0, which is below any positive epsilon or equal to a zero one
    simp only [show (fabs (c00 * c11 - c10 * c01) : K) < (1.0e-4 : K) from hdet, if_true]
    split_ifs with h
    · exact ⟨_, _, by rw [h3]; positivity, by rw [h3]; positivity, rfl, Or.inl ⟨by rw [h3], by rw [h3]⟩⟩
    · -- epsilon is not positive: the end points coincide, and the zero distances ARE a third of that distance
      have h' := not_or.1 h
      have e0 : (0.0 : K) = 0 := by norm_num
      rw [e0] at h'
      have hle : (1.0e-6 : K) * coord2_distance_to p0 pl ≤ 0 := not_lt.1 h'.1
      have hpos : (0 : K) ≤ (1.0e-6 : K) * coord2_distance_to p0 pl := mul_nonneg (by norm_num) hseg
      have hz : coord2_distance_to p0 pl = 0 := by
        rcases mul_eq_zero.1 (le_antisymm hle hpos) with h1 | h1
        · norm_num at h1
        · exact h1
      exact ⟨_, _, by norm_num, by norm_num, rfl, Or.inl ⟨by rw [hz]; norm_num, by rw [hz]; norm_num⟩⟩
  · simp only [show ¬ (fabs (c00 * c11 - c10 * c01) : K) < (1.0e-4 : K) from hdet, if_false]
    have hne : c00 * c11 - c10 * c01 ≠ 0 := by
      intro h0; apply hdet; rw [h0, abs_zero]; norm_num
    split_ifs with h
    · exact ⟨_, _, by rw [h3]; positivity, by rw [h3]; positivity, rfl, Or.inl ⟨by rw [h3], by rw [h3]⟩⟩
    · have h' := not_or.1 h
      have heps : (0 : K) ≤ (1.0e-6 : K) * coord2_distance_to p0 pl := mul_nonneg (by norm_num) hseg
      refine ⟨_, _, le_trans heps (not_lt.1 h'.1), le_trans heps (not_lt.1 h'.2), rfl, Or.inr ⟨hdet, ?_, ?_⟩⟩
      · generalize hd : c00 * c11 - c10 * c01 = d at hne ⊢
        field_simp
        rw [← hd]; ring
      · generalize hd : c00 * c11 - c10 * c01 = d at hne ⊢
        field_simp
        rw [← hd]; ring

/-- the same for `generate_bezier` itself, with the sums its loop accumulates -/
theorem generate_bezier_spec (hs0 : ∀ x : K, 0 ≤ (fsqrt x : K)) (points : List (V2 K)) (chords : List K) (st et : V2 K) :
    let s := lsSums points chords st et
    let p0 := listGet points 0
    let pl := listGet points (points.length - 1)
    ∃ al ar : K, 0 ≤ al ∧ 0 ≤ ar ∧
      generate_bezier points chords st et = T4.mk p0 (p0 + st * al) (pl + et * ar) pl ∧
      ((al = coord2_distance_to p0 pl / 3 ∧ ar = coord2_distance_to p0 pl / 3) ∨
       (¬ |s.t0 * s.t3 - s.t2 * s.t1| < (1.0e-4 : K) ∧ s.t0 * al + s.t1 * ar = s.t4 ∧ s.t2 * al + s.t3 * ar = s.t5)) := by
  intro s p0 pl
  rw [generate_bezier_eq_tail]
  exact generate_bezier_tail_spec hs0 _ _ _ _ _ _ _ _ _ _

/-! ### the whole generated fitter -/

/-- no two consecutive points coincide -/
def NoRepeat (all : List (V2 K)) : Prop := ∀ i, i + 1 < all.length → listGet all i ≠ listGet all (i + 1)

theorem listGet_lt {α : Type} [Inhabited α] (l : List α) (i : Nat) (h : i < l.length) : listGet l i = l[i] := by
  simp only [listGet]; exact getElem!_pos l i h

theorem noRepeat_infix (all ps : List (V2 K)) (h : NoRepeat all) (hin : ps <:+: all) : NoRepeat ps := by
  obtain ⟨s, t, rfl⟩ := hin
  intro i hi
  have h1 := h (s.length + i) (by simp only [List.length_append]; omega)
  rw [listGet_lt _ _ (by simp only [List.length_append]; omega), listGet_lt _ _ (by simp only [List.length_append]; omega)] at h1
  rw [listGet_lt _ _ (by omega), listGet_lt _ _ hi]
  have e1 : (s ++ ps ++ t)[s.length + i]'(by simp only [List.length_append]; omega) = ps[i]'(by omega) := by
    have hi' : i < ps.length := by omega
    simp [List.getElem_append, hi']
  have e2 : (s ++ ps ++ t)[s.length + i + 1]'(by simp only [List.length_append]; omega) = ps[i + 1]'hi := by
    simp [List.getElem_append, Nat.add_assoc, hi]
  rw [e1, e2] at h1
  exact h1

/-- distinct points are a positive distance apart -/
theorem distance_pos (hs : SqrtOK K) (p q : V2 K) (h : p ≠ q) : 0 < coord2_distance_to p q := by
  unfold coord2_distance_to
  apply hs.2.2
  by_contra hle
  have hx := mul_self_nonneg (q.x - p.x)
  have hy := mul_self_nonneg (q.y - p.y)
  have hx0 : (q.x - p.x) * (q.x - p.x) = 0 := by linarith [not_lt.1 hle]
  have hy0 : (q.y - p.y) * (q.y - p.y) = 0 := by linarith [not_lt.1 hle]
  apply h
  apply V2_ext
  · have := mul_self_eq_zero.1 hx0; linarith
  · have := mul_self_eq_zero.1 hy0; linarith

/-- no three consecutive points coincide (isolated repeated points are allowed) -/
def NoTripleRun (all : List (V2 K)) : Prop :=
  ∀ i, i + 2 < all.length → ¬ (listGet all i = listGet all (i + 1) ∧ listGet all (i + 1) = listGet all (i + 2))

theorem NoRepeat.noTripleRun {all : List (V2 K)} (h : NoRepeat all) : NoTripleRun all :=
  fun i hi hc => h i (by omega) hc.1

theorem noTriple_infix (all ps : List (V2 K)) (h : NoTripleRun all) (hin : ps <:+: all) : NoTripleRun ps := by
  obtain ⟨s, t, rfl⟩ := hin
  intro i hi hc
  apply h (s.length + i) (by simp only [List.length_append]; omega)
  have g : ∀ k, k < ps.length → listGet (s ++ ps ++ t) (s.length + k) = listGet ps k := by
    intro k hk
    rw [listGet_lt _ _ (by simp only [List.length_append]; omega), listGet_lt _ _ hk]
    simp [List.getElem_append, hk]
  have e1 := g i (by omega)
  have e2 := g (i + 1) (by omega)
  have e3 := g (i + 2) (by omega)
  rw [show s.length + i + 1 = s.length + (i + 1) by omega, show s.length + i + 2 = s.length + (i + 2) by omega, e1, e2, e3]
  exact hc

/-- a slice of at least three points without a triple run has two consecutive points a positive distance apart -/
theorem noTriple_distance (hs : SqrtOK K) (ps : List (V2 K)) (h : NoTripleRun ps) (h3 : 3 ≤ ps.length) :
    ∃ p, 1 ≤ p ∧ p < ps.length ∧ 0 < coord2_distance_to (listGet ps (p - 1)) (listGet ps p) := by
  by_cases h01 : listGet ps 0 = listGet ps 1
  · have h12 : listGet ps 1 ≠ listGet ps 2 := fun hc => h 0 (by omega) ⟨h01, hc⟩
    exact ⟨2, by omega, by omega, distance_pos hs _ _ h12⟩
  · exact ⟨1, le_refl 1, by omega, distance_pos hs _ _ h01⟩

theorem ends_as_options (ps : List (V2 K)) (hn : 1 ≤ ps.length) :
    some (listGet ps 0) = ps.head? ∧ some (listGet ps (ps.length - 1)) = ps.getLast? := by
  constructor
  · match ps, hn with
    | p :: _, _ => rfl
  · rw [List.getLast?_eq_getElem?, listGet_lt _ _ (by omega)]
    exact (List.getElem?_eq_getElem (by omega)).symm

/-- THE GENERATED FITTER TERMINATES WITH A CONNECTED CHAIN - nothing is a parameter any more.  For every list of 2-D points in which
    no three consecutive points coincide (isolated repeated points are allowed), every contiguous slice of it with at least two points, every tangents and every tolerance
    (negative ones are clamped: repair F18): depth `points.length` is never used up, `points[split_pos ± 1]` are never out of range,
    and `fit_curve_cubic` returns a non-empty chain whose first curve starts at the first point, whose last curve ends at the last
    point, and in which every curve starts where the previous one ends.  (With three or more coincident consecutive points a slice can consist of one point only and the chord-length
    parameters divide by a zero total - `0/0` is NaN in IEEE and 0 in a field - so that case is left to the bit-exact mirror
    and to C20's catalogue.) -/
theorem generated_fit_chain (hs : SqrtOK K) (all : List (V2 K)) (hnr : NoTripleRun all)
    (fuel : Nat) (points : List (V2 K)) (st et : V2 K) (e : K)
    (hin : points <:+: all) (h2 : 2 ≤ points.length) (hf : points.length ≤ fuel) :
    FitsChain (fun c : Cub K => c.t0) (fun c : Cub K => c.t3) points (Model.FitKernel.fitCubicGen fuel points st et e) := by
  rw [fitCubicGen_eq_cubicKnot]
  have hI0 : ∀ (ps : List (V2 K)) (s t : V2 K), ps <:+: all → 3 ≤ ps.length →
      ChordInv ps (reparameterize ps (chords_for_points ps) (generate_bezier ps (chords_for_points ps) s t)) := by
    intro ps s t hps h3
    have hc := chords_for_points_spec hs ps (by omega) (noTriple_distance hs ps (noTriple_infix all ps hnr hps) h3)
    have he := generate_bezier_ends ps (chords_for_points ps) s t
    exact reparameterize_inv ps _ _ (by omega) he.1 he.2 hc
  exact cubicKnot_chain_inv (fun c : Cub K => c.t0) (fun c : Cub K => c.t3) ChordInv
    chords_for_points generate_bezier reparameterize max_error_for_curve tangent_between (fun p => p * (-(1.0 : K))) (fit_line (K := K))
    all (clampTol e) (fun p q => fit_line_contract p q)
    (fun ps ch s t _ h3 => by
      have he := generate_bezier_ends ps ch s t
      have ho := ends_as_options ps (by omega)
      exact ⟨by rw [he.1]; exact ho.1, by rw [he.2]; exact ho.2⟩)
    hI0
    (fun ps ch s t _ h3 hI => by
      have he := generate_bezier_ends ps ch s t
      exact reparameterize_inv ps ch _ (by omega) he.1 he.2 hI)
    (fun ps ch s t _ h3 hI hrej => generated_split hs ps ch s t (clampTol e) (clampTol_nonneg e) h3 hI hrej)
    fuel points st et e rfl hin h2 hf

/-- `p` is within `tol` of one of the curves, measured at a parameter IN [0,1] (so at a point of the curve that is returned) -/
def Near (tol : K) (cs : List (Cub K)) (p : V2 K) : Prop :=
  ∃ c ∈ cs, ∃ u : K, 0 ≤ u ∧ u ≤ 1 ∧
    (fsqrt (dot (p - curve_point_at_pos c.t0 c.t1 c.t2 c.t3 u) (p - curve_point_at_pos c.t0 c.t1 c.t2 c.t3 u) : K) : K) ≤ tol

theorem Near.append_left {tol : K} {a b : List (Cub K)} {p : V2 K} (h : Near tol a p) : Near tol (a ++ b) p := by
  obtain ⟨c, hc, r⟩ := h; exact ⟨c, List.mem_append_left _ hc, r⟩
theorem Near.append_right {tol : K} {a b : List (Cub K)} {p : V2 K} (h : Near tol b p) : Near tol (a ++ b) p := by
  obtain ⟨c, hc, r⟩ := h; exact ⟨c, List.mem_append_right _ hc, r⟩

/-- a point of a slice that is split at `sp` lies in one of the two (overlapping) halves -/
theorem mem_slices {α : Type} (l : List α) (sp : Nat) (x : α) (hx : x ∈ l) :
    x ∈ listSlice l 0 (sp + 1) ∨ x ∈ listSlice l sp l.length := by
  have h1 : listSlice l 0 (sp + 1) = l.take (sp + 1) := by simp [listSlice]
  have h2 : listSlice l sp l.length = l.drop sp := by
    unfold listSlice; exact List.take_of_length_le (by simp)
  rw [h1, h2]
  have hx' : x ∈ List.take (sp + 1) l ++ List.drop (sp + 1) l := by rw [List.take_append_drop]; exact hx
  rcases List.mem_append.1 hx' with h | h
  · left; exact h
  · right
    have : List.drop (sp + 1) l = List.drop 1 (List.drop sp l) := by rw [List.drop_drop]
    rw [this] at h
    exact List.mem_of_mem_drop h

/-- **EVERY INPUT POINT LIES WITHIN `max_error` OF THE RETURNED CHAIN** - the first clause of the property, for the generated
    `fit_curve_cubic` with nothing left as a parameter, in exact arithmetic: for every list of 2-D points in which no three consecutive points coincide, every contiguous slice with at least two points, every tangents and every tolerance (clamped at 0), each
    point of the slice is within the tolerance of one of the returned curves AT A PARAMETER IN [0,1] - the distance is the code's
    own `sqrt(offset·offset)` for any monotone square root.  This is what the acceptance test, the re-parameterisation clamp
    (repair F10), the interior split and the recursion give together; how FEW curves are needed (the quality of the least-squares
    step) is not part of it. -/
theorem generated_fit_within_error (hs : SqrtOK K) (hmono : ∀ a b : K, a ≤ b → (fsqrt a : K) ≤ fsqrt b)
    (all : List (V2 K)) (hnr : NoTripleRun all) (e : K) :
    ∀ (fuel : Nat) (points : List (V2 K)) (st et : V2 K), points <:+: all → 2 ≤ points.length → points.length ≤ fuel →
      ∀ p ∈ points, Near (clampTol e) (Model.FitKernel.fitCubicGen fuel points st et (clampTol e)) p
  | 0, points, _, _, _, h2, hf => by omega
  | fuel + 1, points, st, et, hin, h2, hf => by
    intro p hp
    have htol : 0 ≤ clampTol e := clampTol_nonneg e
    have hidem : clampTol (clampTol e) = clampTol e := clampTol_idem e
    show Near (clampTol e) (fit_curve_cubic_body (Model.FitKernel.fitCubicGen fuel) chords_for_points generate_bezier reparameterize
      max_error_for_curve tangent_between (fun p => p * (-(1.0 : K))) (fit_line (K := K)) points st et (clampTol e)) p
    by_cases h3 : points.length ≤ 2
    · -- two points: the line through them, met at u = 0 and u = 1
      have hr := body_eq (Model.FitKernel.fitCubicGen (K := K) fuel) chords_for_points generate_bezier reparameterize
        max_error_for_curve tangent_between (fun p => p * (-(1.0 : K))) (fit_line (K := K)) points st et (clampTol e)
      rw [if_pos h3] at hr
      rw [hr]
      match points, h2, h3, hp with
      | [a, b], _, _, hp =>
        obtain ⟨c, hc, hs0, he'⟩ := fit_line_contract (K := K) a b
        have h0 : listGet [a, b] 0 = a := rfl
        have h1 : listGet [a, b] 1 = b := rfl
        rw [h0, h1, hc]
        rcases List.mem_cons.1 hp with rfl | hp'
        · refine ⟨c, by simp, 0, le_refl 0, zero_le_one, ?_⟩
          rw [point_at_zero, hs0, dot_sub_self, hs.2.1]; exact htol
        · have : p = b := by simpa using hp'
          subst this
          refine ⟨c, by simp, 1, zero_le_one, le_refl 1, ?_⟩
          rw [point_at_one, he', dot_sub_self, hs.2.1]; exact htol
    · have hnrp := noTriple_infix all points hnr hin
      have hI0 : ChordInv points (reparameterize points (chords_for_points points)
          (generate_bezier points (chords_for_points points) st et)) := by
        have hc := chords_for_points_spec hs points (by omega) (noTriple_distance hs points hnrp (by omega))
        have he := generate_bezier_ends points (chords_for_points points) st et
        exact reparameterize_inv points _ _ (by omega) he.1 he.2 hc
      have hcases := body_cases_inv (ChordInv points) (Model.FitKernel.fitCubicGen (K := K) fuel) chords_for_points generate_bezier
        reparameterize max_error_for_curve tangent_between (fun p => p * (-(1.0 : K))) (fit_line (K := K)) points st et (clampTol e)
        hI0 (fun ch hch => by
          have he := generate_bezier_ends points ch st et
          exact reparameterize_inv points ch _ (by omega) he.1 he.2 hch)
      simp only at hcases
      rw [hidem] at hcases
      rcases hcases with ⟨hle, _⟩ | ⟨_, chords, hIc, hr, hacc⟩ | ⟨_, chords, hIc, hrej, hr⟩
      · omega
      · -- one curve, accepted: the error measured at each point's parameter is within the tolerance, and the parameter is in [0,1]
        rw [hr]
        rw [max_error_for_curve_eq] at hacc
        have hall := C08Error.accepted_within_error hmono _ _ _ _ (points.zip chords) (clampTol e) hacc
        obtain ⟨i, hi, rfl⟩ := List.mem_iff_getElem.1 hp
        have hic : i < chords.length := by rw [hIc.1]; exact hi
        have hmem : (points[i], chords[i]) ∈ points.zip chords := by
          rw [List.mem_iff_getElem]
          exact ⟨i, by simp [List.length_zip]; omega, by simp⟩
        have hu := hIc.2.2.2 chords[i] (List.getElem_mem hic)
        exact ⟨_, by simp, chords[i], hu.1, hu.2, hall _ hmem⟩
      · -- split at an interior point: the point is in one of the halves
        rw [hr]
        obtain ⟨hsp1, hsp2⟩ := generated_split hs points chords st et (clampTol e) htol (by omega) hIc hrej
        generalize (max_error_for_curve points chords (generate_bezier points chords st et)).t1 = sp at hsp1 hsp2 hr ⊢
        have hl : (listSlice points 0 (sp + 1)).length = sp + 1 := by
          rw [listSlice_length _ _ _ (by omega)]; omega
        have hrl : (listSlice points sp points.length).length = points.length - sp :=
          listSlice_length _ _ _ (Nat.le_refl _)
        rcases mem_slices points sp p hp with hm | hm
        · exact Near.append_left (generated_fit_within_error hs hmono all hnr e fuel _ _ _
            ((listSlice_infix _ _ _).trans hin) (by omega) (by omega) p hm)
        · exact Near.append_right (generated_fit_within_error hs hmono all hnr e fuel _ _ _
            ((listSlice_infix _ _ _).trans hin) (by omega) (by omega) p hm)

/-! ### `fit_curve` itself (the block loop around the generated fitter) -/

/-- the body only looks at the clamped tolerance, so the fitter called with `e` is the fitter called with `clampTol e` -/
theorem fitCubicGen_clamp (n : Nat) (ps : List (V2 K)) (st et : V2 K) (e : K) :
    Model.FitKernel.fitCubicGen (n + 1) ps st et e = Model.FitKernel.fitCubicGen (n + 1) ps st et (clampTol e) := by
  simp only [Model.FitKernel.fitCubicGen]
  rw [body_eq, body_eq, clampTol_idem]

/-- a chain of blocks that starts at 0, in which each block starts at the last index of the previous one, and that ends at `n`,
    covers every index below `n` -/
theorem blocks_cover_index (bs : List (Nat × Nat)) (s n i : Nat)
    (hhead : ∀ b, bs.head? = some b → b.1 = s)
    (hchain : bs.IsChain (fun a b => b.1 = a.1 + a.2 - 1))
    (hpos : ∀ b ∈ bs, 2 ≤ b.2)
    (hlast : ∀ b, bs.getLast? = some b → b.1 + b.2 = n)
    (hne : bs ≠ []) (hsi : s ≤ i) (hin : i < n) :
    ∃ b ∈ bs, b.1 ≤ i ∧ i < b.1 + b.2 := by
  induction bs generalizing s with
  | nil => exact absurd rfl hne
  | cons b rest ih =>
    have hb1 : b.1 = s := hhead b rfl
    by_cases hi : i < b.1 + b.2
    · exact ⟨b, List.mem_cons_self, by omega, hi⟩
    · cases rest with
      | nil =>
        have := hlast b rfl
        omega
      | cons c rest' =>
        have hc : c.1 = b.1 + b.2 - 1 := by
          simpa using (List.isChain_cons_cons.1 hchain).1
        have h2 := hpos b List.mem_cons_self
        obtain ⟨d, hd, hr⟩ := ih (b.1 + b.2 - 1) (fun x hx => by simp at hx; rw [← hx]; exact hc)
          (List.isChain_cons_cons.1 hchain).2 (fun x hx => hpos x (List.mem_cons_of_mem _ hx))
          (fun x hx => hlast x (by simpa [List.getLast?_cons_cons] using hx)) (by simp) (by omega)
        exact ⟨d, List.mem_cons_of_mem _ hd, hr⟩

/-- **`fit_curve` RETURNS A CONNECTED CHAIN WITHIN THE ERROR BOUND** - the statement of the property for the public function, in
    exact arithmetic, with every line of fit.rs generated: for every list of at least two 2-D points in which no three consecutive points coincide
    (isolated repeated points are allowed) and every `max_error` (negative ones count as 0), `fit_curve` returns `Some` chain of curves (`fit_curve_none_iff`: `None`
    exactly for fewer than two points) whose first curve starts at the first point, whose last curve ends at the last point, in which
    each curve starts where the previous one ends, and EVERY INPUT POINT is within `max_error` of one of the curves at a parameter in
    [0,1].  Blocks of at most 200 points share their boundary point (repair F3), each block is fitted by the generated recursive
    fitter, whose depth is never used up. -/
theorem generated_fit_curve_spec (hs : SqrtOK K) (hmono : ∀ a b : K, a ≤ b → (fsqrt a : K) ≤ fsqrt b)
    (points : List (V2 K)) (hnr : NoTripleRun points) (e : K) (h2 : 2 ≤ points.length) :
    ∃ cs, Model.FitKernel.fitCurveGen points e = some cs ∧
      FitsChain (fun c : Cub K => c.t0) (fun c : Cub K => c.t3) points cs ∧
      ∀ p ∈ points, Near (clampTol e) cs p := by
  let fcc : List (V2 K) → V2 K → V2 K → K → List (Cub K) := fun ps st et e => Model.FitKernel.fitCubicGen (ps.length + 1) ps st et e
  have hchain := fit_curve_chain (fun c : Cub K => c.t0) (fun c : Cub K => c.t3) fcc fit_start_tangent fit_end_tangent points e
    (fun ps s t hin hps => generated_fit_chain hs points hnr (ps.length + 1) ps s t e hin hps (Nat.le_succ _)) h2
  obtain ⟨cs, hcs, hfc⟩ := hchain
  have hcs' : Model.FitKernel.fitCurveGen points e = fit_curve fcc fit_start_tangent fit_end_tangent points e := rfl
  refine ⟨cs, by rw [hcs']; exact hcs, hfc, ?_⟩
  -- every point lies in a block, and is near that block's fit
  have hblocks := fit_curve_blocks fcc fit_start_tangent fit_end_tangent points e h2
  rw [hblocks] at hcs
  simp only [Option.some.injEq] at hcs
  obtain ⟨hne, hfirst, hch, hall, hlast⟩ := fit_curve_blocks_cover points.length h2
  intro p hp
  obtain ⟨i, hi, rfl⟩ := List.mem_iff_getElem.1 hp
  obtain ⟨b, hb, hbi⟩ := blocks_cover_index _ 0 points.length i hfirst hch (fun b hb => (hall b hb).1) hlast hne (Nat.zero_le _) hi
  obtain ⟨hb2, _, hbin⟩ := hall b hb
  -- the block's slice contains the point
  have hslice : points[i] ∈ listSlice points b.1 (b.1 + b.2) := by
    unfold listSlice
    rw [List.mem_iff_getElem]
    refine ⟨i - b.1, by simp; omega, ?_⟩
    simp only [List.getElem_take, List.getElem_drop]
    congr 1; omega
  have hlen : (listSlice points b.1 (b.1 + b.2)).length = b.2 := by
    rw [listSlice_length _ _ _ hbin]; omega
  have hnear := generated_fit_within_error hs hmono points hnr e ((listSlice points b.1 (b.1 + b.2)).length + 1)
    (listSlice points b.1 (b.1 + b.2))
    (fit_start_tangent (listSlice points b.1 (b.1 + b.2)))
    (if b.1 + b.2 + 1 < points.length then fit_end_tangent (listSlice points b.1 (b.1 + b.2 + 1)) else fit_end_tangent (listSlice points b.1 (b.1 + b.2)))
    (listSlice_infix _ _ _) (by omega) (Nat.le_succ _) _ hslice
  rw [← fitCubicGen_clamp] at hnear
  obtain ⟨c, hc, hu⟩ := hnear
  refine ⟨c, ?_, hu⟩
  rw [← hcs]
  exact List.mem_flatMap.2 ⟨b, hb, hc⟩

end kernel

/-! ### non-vacuity: the hypotheses are met over ℝ with the real square root -/
section real
noncomputable local instance : FSqrt ℝ := ⟨Real.sqrt⟩
noncomputable local instance : FConsts ℝ := ⟨0, 0, 0, 0, 1 / 4503599627370496⟩
noncomputable local instance : FSignum ℝ := ⟨fun x => if x < 0 then -1 else 1⟩
local instance : FAbs ℝ := ⟨fun a => |a|⟩
local instance : OfInt ℝ := ⟨fun n => (n : ℝ)⟩

/-- `Real.sqrt` meets `SqrtOK` and is monotone -/
theorem sqrtOK_real : SqrtOK ℝ := ⟨Real.sqrt_nonneg, Real.sqrt_zero, fun _ hx => Real.sqrt_pos.2 hx⟩
theorem sqrt_mono_real : ∀ a b : ℝ, a ≤ b → (fsqrt a : ℝ) ≤ fsqrt b := fun _ _ h => Real.sqrt_le_sqrt h

/-- a concrete list without repeated consecutive points -/
example : NoRepeat ([⟨0, 0⟩, ⟨1, 2⟩, ⟨3, 3⟩, ⟨5, 1⟩] : List (V2 ℝ)) := by
  intro i hi
  have : i = 0 ∨ i = 1 ∨ i = 2 := by simp at hi; omega
  rcases this with rfl | rfl | rfl <;> simp [listGet]

/-- so over ℝ the theorems apply to every such list: every point of (0,0),(1,2),(3,3),(5,1) is within 0.1 of what the generated
    `fit_curve_cubic` returns for it, whatever the tangents -/
example (st et : V2 ℝ) (hnr : NoRepeat ([⟨0, 0⟩, ⟨1, 2⟩, ⟨3, 3⟩, ⟨5, 1⟩] : List (V2 ℝ))) :
    ∀ p ∈ ([⟨0, 0⟩, ⟨1, 2⟩, ⟨3, 3⟩, ⟨5, 1⟩] : List (V2 ℝ)),
      Near (clampTol (0.1 : ℝ)) (Model.FitKernel.fitCubicGen 4 [⟨0, 0⟩, ⟨1, 2⟩, ⟨3, 3⟩, ⟨5, 1⟩] st et (clampTol (0.1 : ℝ))) p :=
  generated_fit_within_error sqrtOK_real sqrt_mono_real _ hnr.noTripleRun (0.1 : ℝ) 4 _ st et List.infix_rfl (by simp) (by simp)

/-- and `fit_curve` of the same four points: a connected chain from (0,0) to (5,1) with every point within 0.1 of it -/
example (hnr : NoRepeat ([⟨0, 0⟩, ⟨1, 2⟩, ⟨3, 3⟩, ⟨5, 1⟩] : List (V2 ℝ))) :
    ∃ cs, Model.FitKernel.fitCurveGen ([⟨0, 0⟩, ⟨1, 2⟩, ⟨3, 3⟩, ⟨5, 1⟩] : List (V2 ℝ)) (0.1 : ℝ) = some cs ∧
      FitsChain (fun c : Cub ℝ => c.t0) (fun c : Cub ℝ => c.t3) [⟨0, 0⟩, ⟨1, 2⟩, ⟨3, 3⟩, ⟨5, 1⟩] cs ∧
      ∀ p ∈ ([⟨0, 0⟩, ⟨1, 2⟩, ⟨3, 3⟩, ⟨5, 1⟩] : List (V2 ℝ)), Near (clampTol (0.1 : ℝ)) cs p :=
  generated_fit_curve_spec sqrtOK_real sqrt_mono_real _ hnr.noTripleRun (0.1 : ℝ) (by simp)

/-- a list WITH a repeated point meets the hypothesis of the theorems -/
example : NoTripleRun ([⟨0, 0⟩, ⟨1, 2⟩, ⟨1, 2⟩, ⟨3, 3⟩, ⟨3, 3⟩, ⟨5, 1⟩] : List (V2 ℝ)) := by
  intro i hi
  have : i = 0 ∨ i = 1 ∨ i = 2 ∨ i = 3 := by simp at hi; omega
  rcases this with rfl | rfl | rfl | rfl <;> simp [listGet]

end real
end C08Kernel
