/-
C09 (flat leaves after repair 914de05)  What `find_x_intercept` returns lies in its section.

`Gen.find_x_intercept` and `Gen.find_x_intercept_bisection` are regenerated from find_roots.rs on every check.  Before the repair the
Newton-Raphson result was returned whatever it was, and for a monotone but curved section it could be a root of ANOTHER section (the
section's own root was lost: `nearest_t` returned an end point 16 units away).  The repaired code keeps the Newton result only when
it lies in the section and bisects otherwise.  Proved here, for every section and over any ordered field:

* `bisect_fold` / `find_x_intercept_bisection_spec`: the generated bisection loop keeps `0 ≤ low ≤ high ≤ 1`, halves `high - low`
  every iteration, keeps the sign class of the polynomial at `low` equal to the class at the start of the section and the class at
  `high` different from it: after its 64 iterations the result is the mid point of an interval of width `2^-64` across which the
  polynomial changes its sign class;
* `find_x_intercept_in_unit`: the value returned by `find_x_intercept` is in [0,1], WHATEVER Newton-Raphson returned;
* `flatValue_in_section`: hence the root reported for a flat section over the parameter range [a,b] lies in [a,b]: no section reports
  a root of another section;
* over ℝ (`bisection_near_zero`): the bisection result is within `2^-65` (section units) of a zero of the section's polynomial.
-/
import FloVerif.Lemmas.NearestRoots
import Mathlib.Topology.Algebra.Polynomial
import Mathlib.Topology.Order.IntermediateValue
import Mathlib.Analysis.SpecialFunctions.Pow.Real

set_option linter.unusedSectionVars false
set_option linter.unusedVariables false
namespace C09Leaf
open Prelude Gen Model.Nearest C09L

variable {K : Type} [Field K] [LinearOrder K] [IsStrictOrderedRing K] [Inhabited K]
attribute [local instance] C09L.fabsNearestRoots
variable [FSqrt K] [FSignum K] [OfInt K]

theorem lit0 : (0.0 : K) = 0 := by norm_num
theorem lit1 : (1.0 : K) = 1 := by norm_num
theorem lit05 : (0.5 : K) = 1 / 2 := by norm_num

/-- the generated `de_casteljau_n` on six numbers evaluates the Bernstein polynomial with these coefficients -/
theorem dcn6s (t c0 c1 c2 c3 c4 c5 : K) : de_casteljau_n t [c0, c1, c2, c3, c4, c5] = bern5 c0 c1 c2 c3 c4 c5 t := by
  simp [de_casteljau_n, iterFuel, foldlT, List.range', listGet, bern5, lit1]
  ring

/-- one iteration of the bisection, as the generated loop body computes it -/
def bisectStep (cls : K → Bool) (s : Bool) (st : T2 K K) : T2 K K :=
  if cls ((st.t0 + st.t1) * (0.5 : K)) == s then T2.mk ((st.t0 + st.t1) * (0.5 : K)) st.t1
  else T2.mk st.t0 ((st.t0 + st.t1) * (0.5 : K))

/-- INVARIANT OF THE BISECTION LOOP, for any classifier `cls`, any number of iterations and any start interval: the interval stays
    inside the start interval, its width is halved by every iteration, the class at `low` stays the start class `s`, and the class
    at `high` stays different from `s` if it was at the start -/
theorem bisect_fold (cls : K → Bool) (s : Bool) :
    ∀ (l : List Nat) (lo hi : K), lo ≤ hi → cls lo = s →
      let r := foldlT l (T2.mk lo hi) (fun st _ => bisectStep cls s st)
      lo ≤ r.t0 ∧ r.t0 ≤ r.t1 ∧ r.t1 ≤ hi ∧ r.t1 - r.t0 = (hi - lo) / 2 ^ l.length ∧ cls r.t0 = s ∧ (cls hi ≠ s → cls r.t1 ≠ s)
  | [], lo, hi, h, hc => by simp [foldlT, h, hc]
  | x :: xs, lo, hi, h, hc => by
    simp only [foldlT, List.foldl_cons, List.length_cons]
    have hm1 : lo ≤ (lo + hi) * (0.5 : K) := by rw [lit05]; linarith
    have hm2 : (lo + hi) * (0.5 : K) ≤ hi := by rw [lit05]; linarith
    by_cases hcl : cls ((lo + hi) * (0.5 : K)) = s
    · have hstep : bisectStep cls s (T2.mk lo hi) = T2.mk ((lo + hi) * (0.5 : K)) hi := by simp [bisectStep, hcl]
      rw [hstep]
      have ih := bisect_fold cls s xs ((lo + hi) * (0.5 : K)) hi hm2 hcl
      simp only [foldlT] at ih
      obtain ⟨i1, i2, i3, i4, i5, i6⟩ := ih
      refine ⟨le_trans hm1 i1, i2, i3, ?_, i5, i6⟩
      rw [i4, lit05, pow_succ]; field_simp; ring
    · have hstep : bisectStep cls s (T2.mk lo hi) = T2.mk lo ((lo + hi) * (0.5 : K)) := by simp [bisectStep, hcl]
      rw [hstep]
      have ih := bisect_fold cls s xs lo ((lo + hi) * (0.5 : K)) hm1 hc
      simp only [foldlT] at ih
      obtain ⟨i1, i2, i3, i4, i5, i6⟩ := ih
      refine ⟨i1, i2, le_trans i3 hm2, ?_, i5, fun _ => i6 hcl⟩
      rw [i4, lit05, pow_succ]; field_simp; ring

/-- the sign class the bisection works with: "the polynomial is negative at t" -/
def negAt (points : List K) (t : K) : Bool := decide (de_casteljau_n t points < (0.0 : K))

/-- the generated `find_x_intercept_bisection` IS 64 iterations of `bisectStep` from (0, 1), followed by the mid point -/
theorem find_x_intercept_bisection_eq (points : List K) :
    find_x_intercept_bisection points =
      ((foldlT (List.range' 0 64) (T2.mk (0 : K) 1) (fun st _ => bisectStep (negAt points) (decide (listGet points 0 < (0.0 : K))) st)).t0 +
       (foldlT (List.range' 0 64) (T2.mk (0 : K) 1) (fun st _ => bisectStep (negAt points) (decide (listGet points 0 < (0.0 : K))) st)).t1) * (0.5 : K) := by
  simp only [find_x_intercept_bisection, bisectStep, negAt, lit0, lit1, Nat.sub_zero]

/-- WHAT THE BISECTION RETURNS (six coefficients, any ordered field): the mid point of an interval `[lo, hi]` inside [0,1] of width
    exactly `2^-64`, the polynomial being in the start class (negative iff `c0 < 0`) at `lo` and - when the two ends of the section are
    in different classes, which is what "the control polygon crosses the axis once" gives - in the other class at `hi` -/
theorem find_x_intercept_bisection_spec (c0 c1 c2 c3 c4 c5 : K) :
    ∃ lo hi : K, find_x_intercept_bisection [c0, c1, c2, c3, c4, c5] = (lo + hi) / 2 ∧ 0 ≤ lo ∧ lo ≤ hi ∧ hi ≤ 1 ∧
      hi - lo = 1 / 2 ^ 64 ∧ (bern5 c0 c1 c2 c3 c4 c5 lo < 0 ↔ c0 < 0) ∧
      (¬ (c5 < 0 ↔ c0 < 0) → ¬ (bern5 c0 c1 c2 c3 c4 c5 hi < 0 ↔ c0 < 0)) := by
  have h00 : negAt [c0, c1, c2, c3, c4, c5] 0 = decide (listGet [c0, c1, c2, c3, c4, c5] 0 < (0.0 : K)) := by
    simp [negAt, dcn6s, bern5, listGet]
  have h := bisect_fold (negAt [c0, c1, c2, c3, c4, c5]) (decide (listGet [c0, c1, c2, c3, c4, c5] 0 < (0.0 : K)))
    (List.range' 0 64) 0 1 zero_le_one h00
  simp only at h
  obtain ⟨i1, i2, i3, i4, i5, i6⟩ := h
  rw [find_x_intercept_bisection_eq]
  generalize foldlT (List.range' 0 64) (T2.mk (0 : K) 1)
    (fun st _ => bisectStep (negAt [c0, c1, c2, c3, c4, c5]) (decide (listGet [c0, c1, c2, c3, c4, c5] 0 < (0.0 : K))) st) = r
    at i1 i2 i3 i4 i5 i6 ⊢
  refine ⟨r.t0, r.t1, by rw [lit05]; ring, i1, i2, i3, ?_, ?_, ?_⟩
  · rw [i4]; simp
  · have : listGet [c0, c1, c2, c3, c4, c5] 0 = c0 := rfl
    simp only [negAt, dcn6s, lit0, this, decide_eq_decide] at i5
    exact i5
  · intro hends
    have h0 : listGet [c0, c1, c2, c3, c4, c5] 0 = c0 := rfl
    have h1 : negAt [c0, c1, c2, c3, c4, c5] 1 ≠ decide (listGet [c0, c1, c2, c3, c4, c5] 0 < (0.0 : K)) := by
      simp only [negAt, dcn6s, lit0, h0, ne_eq, decide_eq_decide]
      simpa [bern5] using hends
    have := i6 h1
    simp only [negAt, dcn6s, lit0, h0, ne_eq, decide_eq_decide] at this
    exact this

/-- the bisection result is in [0,1] -/
theorem find_x_intercept_bisection_in_unit (c0 c1 c2 c3 c4 c5 : K) :
    0 ≤ find_x_intercept_bisection [c0, c1, c2, c3, c4, c5] ∧ find_x_intercept_bisection [c0, c1, c2, c3, c4, c5] ≤ 1 := by
  obtain ⟨lo, hi, hr, h0, h1, h2, _⟩ := find_x_intercept_bisection_spec c0 c1 c2 c3 c4 c5
  rw [hr]
  constructor <;> linarith

/-- `find_x_intercept` RETURNS A PARAMETER OF ITS SECTION, whatever the section and WHATEVER Newton-Raphson computed (repair
    914de05: the Newton result is kept only when it is in [0,1], otherwise the section is bisected) -/
theorem find_x_intercept_in_unit (q0 q1 q2 q3 q4 q5 : V2 K) :
    0 ≤ find_x_intercept 6 [q0, q1, q2, q3, q4, q5] ∧ find_x_intercept 6 [q0, q1, q2, q3, q4, q5] ≤ 1 := by
  simp only [find_x_intercept, lit0, lit1, List.map_cons, List.map_nil]
  split
  · rename_i h
    simp only [Bool.and_eq_true, decide_eq_true_eq, ge_iff_le] at h
    exact h
  · exact find_x_intercept_bisection_in_unit _ _ _ _ _ _

/-- NO SECTION REPORTS A ROOT OF ANOTHER SECTION: the value `find_bezier_roots` pushes for a flat section over the parameter range
    [a,b] lies in [a,b] -/
theorem flatValue_in_section {p : K → K} {s : List (V2 K)} {a b : K} (h : IsSec p s a b) (hab : a ≤ b) :
    a ≤ flatValue s ∧ flatValue s ≤ b := by
  obtain ⟨c0, c1, c2, c3, c4, c5, hs, _⟩ := h
  subst hs
  have hu := find_x_intercept_in_unit (K := K) ⟨a, c0⟩ ⟨a + (b - a) / 5, c1⟩ ⟨a + (b - a) * 2 / 5, c2⟩ ⟨a + (b - a) * 3 / 5, c3⟩
    ⟨a + (b - a) * 4 / 5, c4⟩ ⟨b, c5⟩
  have hx : flatValue (mkSec (affX a b) [c0, c1, c2, c3, c4, c5]) =
      a + (b - a) * find_x_intercept 6 (mkSec (affX a b) [c0, c1, c2, c3, c4, c5]) := by
    simp only [flatValue, mkSec, affX, List.zipWith_cons_cons, List.zipWith_nil_right, dcn6, bern5]
    ring
  have hm : mkSec (affX a b) [c0, c1, c2, c3, c4, c5] =
      [⟨a, c0⟩, ⟨a + (b - a) / 5, c1⟩, ⟨a + (b - a) * 2 / 5, c2⟩, ⟨a + (b - a) * 3 / 5, c3⟩, ⟨a + (b - a) * 4 / 5, c4⟩, ⟨b, c5⟩] := by
    simp [mkSec, affX]
  rw [hx, hm]
  obtain ⟨h0, h1⟩ := hu
  constructor
  · nlinarith
  · nlinarith

/-- an edge of the control polygon counts as a crossing exactly when its two ordinates are in different sign classes -/
theorem cross_eq (a b : K) : cross a b = if (a < 0 ↔ b < 0) then 0 else 1 := by
  unfold cross
  by_cases ha : a < 0 <;> by_cases hb : b < 0 <;> simp [ha, hb, not_lt.1, le_of_lt] <;> first | exact le_of_lt ‹_› | exact not_lt.1 ‹_› | skip

/-- EXACTLY ONE CROSSING OF THE CONTROL POLYGON PUTS THE TWO ENDS OF THE SECTION IN DIFFERENT SIGN CLASSES (so the ends bracket a
    root: what the bisection needs) -/
theorem one_crossing_ends_differ {q0 q1 q2 q3 q4 q5 : V2 K} (h : count_x_axis_crossings 6 [q0, q1, q2, q3, q4, q5] = 1) :
    ¬ (q5.y < 0 ↔ q0.y < 0) := by
  rw [count6] at h
  simp only [cross_eq] at h
  by_cases h0 : q0.y < 0 <;> by_cases h1 : q1.y < 0 <;> by_cases h2 : q2.y < 0 <;> by_cases h3 : q3.y < 0 <;>
    by_cases h4 : q4.y < 0 <;> by_cases h5 : q5.y < 0 <;> simp_all

section Real
variable [FSqrt ℝ] [FSignum ℝ] [OfInt ℝ]

theorem bern5_continuous (c0 c1 c2 c3 c4 c5 : ℝ) : Continuous (fun t => bern5 c0 c1 c2 c3 c4 c5 t) := by
  unfold bern5; fun_prop

/-- THE BISECTION RESULT IS NEXT TO A ZERO (ℝ): when the two ends of the section are in different sign classes, the polynomial has a
    zero `x` in [0,1] within `2^-65` of the value `find_x_intercept_bisection` returns (intermediate value theorem on the final
    interval of width `2^-64`) -/
theorem bisection_near_zero (c0 c1 c2 c3 c4 c5 : ℝ) (hends : ¬ (c5 < 0 ↔ c0 < 0)) :
    ∃ x : ℝ, 0 ≤ x ∧ x ≤ 1 ∧ bern5 c0 c1 c2 c3 c4 c5 x = 0 ∧
      |find_x_intercept_bisection [c0, c1, c2, c3, c4, c5] - x| ≤ 1 / 2 ^ 65 := by
  obtain ⟨lo, hi, hr, h0, hlh, h1, hw, hlo, hhi⟩ := find_x_intercept_bisection_spec c0 c1 c2 c3 c4 c5
  have hhi := hhi hends
  have hc := (bern5_continuous c0 c1 c2 c3 c4 c5).continuousOn (s := Set.Icc lo hi)
  have hx : ∃ x ∈ Set.Icc lo hi, bern5 c0 c1 c2 c3 c4 c5 x = 0 := by
    by_cases hneg : c0 < 0
    · have a1 : bern5 c0 c1 c2 c3 c4 c5 lo < 0 := hlo.2 hneg
      have a2 : 0 ≤ bern5 c0 c1 c2 c3 c4 c5 hi := by
        by_contra hcon; exact hhi ⟨fun _ => hneg, fun _ => not_le.1 hcon⟩
      exact intermediate_value_Icc hlh hc ⟨a1.le, a2⟩
    · have a1 : 0 ≤ bern5 c0 c1 c2 c3 c4 c5 lo := by
        by_contra hcon; exact hneg (hlo.1 (not_le.1 hcon))
      have a2 : bern5 c0 c1 c2 c3 c4 c5 hi < 0 := by
        by_contra hcon; exact hhi ⟨fun h => absurd h hcon, fun h => absurd h hneg⟩
      exact intermediate_value_Icc' hlh hc ⟨a2.le, a1⟩
  obtain ⟨x, ⟨hx1, hx2⟩, hz⟩ := hx
  refine ⟨x, le_trans h0 hx1, le_trans hx2 h1, hz, ?_⟩
  rw [hr, abs_le]
  have : (1 : ℝ) / 2 ^ 65 = (1 / 2 ^ 64) / 2 := by rw [pow_succ]; field_simp
  rw [this, ← hw]
  constructor <;> linarith

/-- A FLAT SECTION THAT WAS BISECTED REPORTS A VALUE NEXT TO ONE OF ITS OWN ZEROS (ℝ): for a section of the polynomial `p` over [a,b]
    whose control polygon crosses the axis exactly once, if Newton-Raphson's answer was not a parameter of the section (so the
    generated `find_x_intercept` took its bisection branch), then `p` has a zero `x` in [a,b] with
    `|reported value - x| ≤ (b - a) / 2^65` -/
theorem bisected_leaf_near_zero {p : ℝ → ℝ} {s : List (V2 ℝ)} {a b : ℝ} (h : IsSec p s a b) (hab : a ≤ b)
    (hone : count_x_axis_crossings 6 s = 1)
    (hbis : find_x_intercept 6 s = find_x_intercept_bisection (s.map (fun q => q.y))) :
    ∃ x : ℝ, a ≤ x ∧ x ≤ b ∧ p x = 0 ∧ |flatValue s - x| ≤ (b - a) / 2 ^ 65 := by
  obtain ⟨c0, c1, c2, c3, c4, c5, hs, hp⟩ := h
  subst hs
  have hm : mkSec (affX a b) [c0, c1, c2, c3, c4, c5] =
      [⟨a, c0⟩, ⟨a + (b - a) / 5, c1⟩, ⟨a + (b - a) * 2 / 5, c2⟩, ⟨a + (b - a) * 3 / 5, c3⟩, ⟨a + (b - a) * 4 / 5, c4⟩, ⟨b, c5⟩] := by
    simp [mkSec, affX]
  rw [hm] at hone hbis
  have hends := one_crossing_ends_differ hone
  simp only at hends
  obtain ⟨u, hu0, hu1, hz, hd⟩ := bisection_near_zero c0 c1 c2 c3 c4 c5 hends
  have hx : flatValue (mkSec (affX a b) [c0, c1, c2, c3, c4, c5]) =
      a + (b - a) * find_x_intercept 6 (mkSec (affX a b) [c0, c1, c2, c3, c4, c5]) := by
    simp only [flatValue, mkSec, affX, List.zipWith_cons_cons, List.zipWith_nil_right, dcn6, bern5]
    ring
  refine ⟨a + (b - a) * u, by nlinarith, by nlinarith, by rw [← hp, hz], ?_⟩
  rw [hx, hm, hbis]
  simp only [List.map_cons, List.map_nil]
  have : a + (b - a) * find_x_intercept_bisection [c0, c1, c2, c3, c4, c5] - (a + (b - a) * u) =
      (b - a) * (find_x_intercept_bisection [c0, c1, c2, c3, c4, c5] - u) := by ring
  rw [this, abs_mul, abs_of_nonneg (sub_nonneg.2 hab)]
  calc (b - a) * |find_x_intercept_bisection [c0, c1, c2, c3, c4, c5] - u| ≤ (b - a) * (1 / 2 ^ 65) :=
        mul_le_mul_of_nonneg_left hd (sub_nonneg.2 hab)
    _ = (b - a) / 2 ^ 65 := by ring

end Real

local instance instSqrtQ : FSqrt ℚ := ⟨id⟩
local instance instSignumQ : FSignum ℚ := ⟨fun x => if x < 0 then -1 else 1⟩
local instance instOfIntQ : OfInt ℚ := ⟨fun z => (z : ℚ)⟩

/-- non-vacuity: the bisection of the section with coefficients -1, -1, -1, 1, 1, 1 (one crossing) returns a parameter in [0,1] -/
example : 0 ≤ find_x_intercept_bisection ([-1, -1, -1, 1, 1, 1] : List ℚ) ∧ find_x_intercept_bisection ([-1, -1, -1, 1, 1, 1] : List ℚ) ≤ 1 :=
  find_x_intercept_bisection_in_unit _ _ _ _ _ _

end C09Leaf
