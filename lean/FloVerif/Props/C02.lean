/-
C02  Curve-curve intersection by Bézier clipping (`curve_intersects_curve_clip`): the recursion around the clip step.

What the theorems are about.  `Gen.curve_intersects_curve_clip_inner` is the translation of the WHOLE body of the Rust
function (zero-length tests, the clipping loop with all its `return`s, the split branch, the final mid-parameter
answer), `Gen.curve_intersects_curve_clip` that of the public wrapper (overlap shortcut on the two whole curves, then the
inner function), `Gen.join_subsections`, `Gen.curve_hull_length_sq`, `Gen.section_fast_bounding_box` and `Gen.clip`
(C13) are translated whole as well; all are regenerated from the Rust source on every check.  The function's two calls to
itself are calls of a parameter, and `Model.CurveClip.clipInner cx d` ties the knot with recursion depth `d`.  The two
callees that end in the external `roots` crate are parameters of the model (`cx.ovl` = `overlapping_region`,
`cx.lin12`/`cx.lin21` = `intersections_with_linear_section` in its two call positions): the theorems hold for ANY such
functions.  `Lemmas.CurveClip.inner_eq` / `top_eq` (by `rfl`) identify the generated terms with the compact forms the proofs use.

Number model as in C13: any linearly ordered field, `f64::abs = |·|`, `f64::sqrt` an arbitrary function, sentinels
`1 ≤ f64::MAX`, `f64::MIN ≤ 0` (hypotheses `hM`, `hm`).  Rounding is not modelled.

The theorems (all for every pair of cubics, every accuracy, every recursion depth, every pair of oracle functions):
 1. `clip_never_loses`          one clip step keeps a true intersection, WITHOUT the 1e-5 slack of C13
 2. `results_have_origin`       every returned pair is a converged mid-pair, an overlap-shortcut pair or a linear-fall-back pair
 3. `returned_parameters_in_range`  RANGE: all returned parameters are in [0,1] if the oracles' are
 4. `converged_pair_close`      SOUNDNESS of the loop's own exit: the two points are within `√12·accuracy` (< 0.035 for 0.01)
                                unless a final section is `is_tiny`;  `convergence_test_tiny_counterexample`: for `is_tiny`
                                sections the test passes with points 0.19 apart (curves inside the 100×100 box)
 5. `search_complete`           COMPLETENESS OF THE SEARCH STRUCTURE: a true intersection is covered by a returned pair, or
                                the overlap shortcut fired (once, on the whole curves), or it is lost in one of the named
                                ways of `LostCall`/`LostLoop`; `covered_pair_near_intersection`
 6. `return_on_clip_none_justified`, `return_on_box_reject_justified`   the two `return smallvec![]` of the loop that never
                                lose a true intersection
 7. `join_keeps_or_close`, `join_invents_nothing`, `join_compares_the_hits`   `join_subsections`
 8. `recursion_depth_irrelevant`, `recursion_bounded`   the recursion goes at most 20 deep; the model's depth parameter does
                                not matter from 21 on
-/
import FloVerif.Lemmas.CurveClipRun
import FloVerif.Lemmas.CurveClipDepth

set_option linter.unusedSectionVars false
set_option linter.unusedVariables false
namespace C02
open Prelude Gen FatLineLemmas ClipExact CurveClipLemmas Model.CurveClip

variable {K : Type} [Field K] [LinearOrder K] [IsStrictOrderedRing K] [Inhabited K] [FSqrt K] [FConsts K]

/-- in exact arithmetic `f64::abs` is the absolute value -/
local instance : FAbs K := ⟨fun a => |a|⟩

/-! ## 1. the clip step -/

/-- CLIP NEVER LOSES A MEETING POINT (sharp form of C13's `clip_keeps_intersections`).  If the point of the first curve
    at `t ∈ [0,1]` lies on the second curve (whose end points are more than 1e-7 apart), then `clip` answers
    `SecondCurveIsLinear` or a range `[t1, t2]` with `t1 ≤ t ≤ t2` - exactly, not up to the snapping window 0.00001 of
    `round_y_value`: snapping can only produce the ranges `[0,0]` and `[1,1]`, which `clip` widens by 0.005. -/
theorem clip_never_loses (hM : 1 ≤ (fmaxval : K)) (hm : (fminval : K) ≤ 0) (c1 c2 c3 c4 a1 a2 a3 a4 : V2 K)
    (hfar : is_near_to a1 a4 (0.0000001 : K) = false) (t s : K) (ht0 : 0 ≤ t) (ht1 : t ≤ 1) (hs0 : 0 ≤ s) (hs1 : s ≤ 1)
    (hmeet : de_casteljau4 t c1 c2 c3 c4 = de_casteljau4 s a1 a2 a3 a4) :
    clip c1 c2 c3 c4 a1 a2 a3 a4 = ClipResult.SecondCurveIsLinear ∨
    ∃ r, clip c1 c2 c3 c4 a1 a2 a3 a4 = ClipResult.Some r ∧ r.t0 ≤ t ∧ t ≤ r.t1 :=
  clip_keeps_exact hM hm c1 c2 c3 c4 a1 a2 a3 a4 hfar t s ht0 ht1 hs0 hs1 hmeet

/-- every range `clip` returns satisfies `0 ≤ t1 ≤ t2 ≤ 1`, so a clipped section of [0,1] is a section of [0,1] -/
theorem clip_range_in_unit (hM : 1 ≤ (fmaxval : K)) (hm : (fminval : K) ≤ 0) (c1 c2 c3 c4 a1 a2 a3 a4 : V2 K) (r : T2 K K)
    (h : clip c1 c2 c3 c4 a1 a2 a3 a4 = ClipResult.Some r) : 0 ≤ r.t0 ∧ r.t0 ≤ r.t1 ∧ r.t1 ≤ 1 :=
  clip_range hM hm c1 c2 c3 c4 a1 a2 a3 a4 r h

variable (cx : Ctx K) (acc : K)

/-- the model's top-level function: the overlap shortcut on the two whole curves, otherwise the inner function on the two
    whole curves with `accuracy²` -/
theorem clipTop_eq (d : Nat) :
    clipTop cx d acc =
      match cx.ovl (section_new (0.0 : K) (1.0 : K)) (section_new (0.0 : K) (1.0 : K)) with
      | some o => overlapHits (section_new (0.0 : K) (1.0 : K)) (section_new (0.0 : K) (1.0 : K)) o
      | none => clipInner cx d (section_new (0.0 : K) (1.0 : K)) (section_new (0.0 : K) (1.0 : K)) acc (acc * acc) :=
  top_eq cx acc (clipInner cx d)

/-! ## 2. - 4. soundness side -/

/-- ORIGIN: every pair returned by `curve_intersects_curve_clip` (any recursion depth) is
    (1) the pair of mid-parameters of two sections of [0,1] that passed the convergence test and whose boxes overlap, or
    (2) an answer of the overlap shortcut (taken once, for the two whole curves), or (3)/(4) an answer of the linear fall-back mapped back through `t_for_t`,
    taken because `clip` found the fat line of a section flat.  There is no other source. -/
theorem results_have_origin (hM : 1 ≤ (fmaxval : K)) (hm : (fminval : K) ≤ 0) (d : Nat) :
    ∀ h ∈ clipTop cx d acc, Origin cx acc (acc * acc) h := by
  intro h hh
  rw [clipTop_eq] at hh
  cases ho : cx.ovl (section_new (0.0 : K) (1.0 : K)) (section_new (0.0 : K) (1.0 : K)) with
  | some o => rw [ho] at hh; exact Origin.overlap o h ho hh
  | none =>
    rw [ho] at hh
    exact clipInner_origin cx acc (acc * acc) hM hm d _ _ sub01_whole sub01_whole h hh

/-- RANGE: if the two oracles only return parameters in [0,1] (as `overlapping_region` and
    `intersections_with_linear_section` are meant to), every returned pair has both parameters in [0,1]: sections of
    sections stay inside [0,1], and `t_for_t` of a section of [0,1] maps [0,1] into [0,1]. -/
theorem returned_parameters_in_range (hM : 1 ≤ (fmaxval : K)) (hm : (fminval : K) ≤ 0) (d : Nat)
    (hovl : ∀ o, cx.ovl (section_new (0.0 : K) (1.0 : K)) (section_new (0.0 : K) (1.0 : K)) = some o →
      (0 ≤ o.t0.t0 ∧ o.t0.t0 ≤ 1) ∧ (0 ≤ o.t0.t1 ∧ o.t0.t1 ≤ 1) ∧ (0 ≤ o.t1.t0 ∧ o.t1.t0 ≤ 1) ∧ (0 ≤ o.t1.t1 ∧ o.t1.t1 ≤ 1))
    (hlin12 : ∀ c1 c2, ∀ g ∈ cx.lin12 c1 c2 acc, (0 ≤ g.t0 ∧ g.t0 ≤ 1) ∧ (0 ≤ g.t1 ∧ g.t1 ≤ 1))
    (hlin21 : ∀ c1 c2, ∀ g ∈ cx.lin21 c2 c1 acc, (0 ≤ g.t0 ∧ g.t0 ≤ 1) ∧ (0 ≤ g.t1 ∧ g.t1 ≤ 1)) :
    ∀ h ∈ clipTop cx d acc, (0 ≤ h.t0 ∧ h.t0 ≤ 1) ∧ (0 ≤ h.t1 ∧ h.t1 ≤ 1) := by
  intro h hh
  have ho := results_have_origin cx acc hM hm d h hh
  cases ho with
  | converged F1 F2 s1 s2 _ _ _ =>
    exact ⟨inSec_01 F1 s1 _ (midT_inSec F1), inSec_01 F2 s2 _ (midT_inSec F2)⟩
  | overlap o h ho hmem =>
    obtain ⟨a, b, c, e⟩ := hovl o ho
    have s1 : Sub01 (section_new (0.0 : K) (1.0 : K)) := sub01_whole
    simp only [overlapHits] at hmem
    split_ifs at hmem
    · simp only [List.mem_singleton] at hmem; subst hmem
      exact ⟨t_for_t_01 _ s1 _ a.1 a.2, t_for_t_01 _ s1 _ c.1 c.2⟩
    · simp only [List.mem_cons, List.not_mem_nil, or_false] at hmem
      rcases hmem with rfl | rfl
      · exact ⟨t_for_t_01 _ s1 _ a.1 a.2, t_for_t_01 _ s1 _ c.1 c.2⟩
      · exact ⟨t_for_t_01 _ s1 _ b.1 b.2, t_for_t_01 _ s1 _ e.1 e.2⟩
  | linear12 c1 c2 g s1 s2 _ hg =>
    obtain ⟨a, b⟩ := hlin12 c1 c2 g hg
    exact ⟨t_for_t_01 c1 s1 _ a.1 a.2, t_for_t_01 c2 s2 _ b.1 b.2⟩
  | linear21 c1 c2 g s1 s2 _ hg =>
    obtain ⟨a, b⟩ := hlin21 c1 c2 g hg
    exact ⟨t_for_t_01 c1 s1 _ b.1 b.2, t_for_t_01 c2 s2 _ a.1 a.2⟩

/-- SOUNDNESS OF THE LOOP'S OWN EXIT.  What "both hulls shorter than the accuracy, boxes overlap, report the mid-parameters"
    guarantees: if neither final section is `is_tiny`, the two reported points are at most `√12·accuracy` apart
    (squared distance `≤ 12·accuracy²`; for accuracy 0.01 that is 0.0347, inside the property's 0.1).
    Each box has diameter at most `√3·√(hull_length_sq)` (three legs, Cauchy-Schwarz), the boxes share a point. -/
theorem converged_pair_close (F1 F2 : SectionT K) (h1 : Sub01 F1) (h2 : Sub01 F2)
    (t1 : section_is_tiny F1 = false) (t2 : section_is_tiny F2 = false) (acc2 : K)
    (l1 : len1 cx F1 ≤ acc2) (l2 : len2 cx F2 ≤ acc2) (hov : bounds_overlaps (box1 cx F1) (box2 cx F2) = true) :
    dist2 (ptA cx (midT F1)) (ptB cx (midT F2)) ≤ 12 * acc2 := by
  obtain ⟨q, q1, q2⟩ := common_of_overlaps _ _ (box_ordered _ _ _ _ F1) (box_ordered _ _ _ _ F2) hov
  have pa := sec_point_in_box cx.a1 cx.a2 cx.a3 cx.a4 F1 h1 _ (midT_inSec F1)
  have pb := sec_point_in_box cx.b1 cx.b2 cx.b3 cx.b4 F2 h2 _ (midT_inSec F2)
  have da := box_diameter cx.a1 cx.a2 cx.a3 cx.a4 F1 t1 _ q pa q1
  have db := box_diameter cx.b1 cx.b2 cx.b3 cx.b4 F2 t2 _ q pb q2
  have tri := dist2_triangle (ptA cx (midT F1)) (ptB cx (midT F2)) q
  simp only [len1, len2] at l1 l2
  simp only [ptA, ptB] at tri ⊢
  linarith

/-- … but `curve_hull_length_sq` is 0 for every `is_tiny` section (parameter length below 0.001), whatever its size, so the
    convergence test says nothing about such sections -/
theorem tiny_section_has_zero_length (S : SectionT K) (h : section_is_tiny S = true) : len1 cx S = 0 ∧ len2 cx S = 0 :=
  ⟨hull_length_of_tiny _ _ _ _ S h, hull_length_of_tiny _ _ _ _ S h⟩

/-! ## 5. completeness of the search structure -/

variable (s1 s2 : K)

/-- COMPLETENESS OF THE SEARCH STRUCTURE.  Let `(s1, s2) ∈ [0,1]²` be a true intersection (`C1(s1) = C2(s2)`).  Then
    `overlapping_region` answered `Some` for the two whole curves (the overlap shortcut: the answer is its two end pairs), or
    the result of `curve_intersects_curve_clip` (model with recursion depth `d`) COVERS the intersection - it contains the
    mid-parameters of two sections that contain `s1` resp. `s2` and passed the convergence test - or the intersection is
    lost in one of the named ways of `LostCall` / `LostLoop`, which follow the actual execution along the sections that
    contain it:
      recursion depth exhausted · a section with hull length 0 (is_tiny) at entry of a call · loop fuel exhausted ·
      linear fall-back taken (either curve) · a clip against a section whose end points are within 1e-7 ·
      `join_subsections` dropped the covering hit.
    The two remaining `return smallvec![]` of the loop (clip answered `None`; boxes of the final sections do not
    overlap) are NOT in the list: they are proved never to lose a true intersection.  No clip step and no split loses it,
    and (since the repair bf6845a) the overlap shortcut cannot fire inside the recursion. -/
theorem search_complete (hM : 1 ≤ (fmaxval : K)) (hm : (fminval : K) ≤ 0) (d : Nat)
    (h10 : 0 ≤ s1) (h11 : s1 ≤ 1) (h20 : 0 ≤ s2) (h21 : s2 ≤ 1) (hmeet : ptA cx s1 = ptB cx s2) :
    (∃ o, cx.ovl (section_new (0.0 : K) (1.0 : K)) (section_new (0.0 : K) (1.0 : K)) = some o) ∨
    Covered cx (acc * acc) s1 s2 (clipTop cx d acc) ∨
    LostCall cx acc (acc * acc) s1 s2 d (section_new (0.0 : K) (1.0 : K)) (section_new (0.0 : K) (1.0 : K)) := by
  cases ho : cx.ovl (section_new (0.0 : K) (1.0 : K)) (section_new (0.0 : K) (1.0 : K)) with
  | some o => exact Or.inl ⟨o, rfl⟩
  | none =>
    right
    rw [clipTop_eq, ho]
    exact clipInner_complete cx acc (acc * acc) s1 s2 hM hm hmeet d _ _ sub01_whole sub01_whole
      (inSec_whole s1 h10 h11) (inSec_whole s2 h20 h21)

/-- the same for any call of the inner function on sections of [0,1] that contain the intersection (the induction
    hypothesis of `search_complete`): no iteration loses an intersection, and no overlap test happens inside -/
theorem search_complete_sections (hM : 1 ≤ (fmaxval : K)) (hm : (fminval : K) ≤ 0) (acc2 : K) (d : Nat)
    (hmeet : ptA cx s1 = ptB cx s2) (c1 c2 : SectionT K) (h1 : Sub01 c1) (h2 : Sub01 c2) (i1 : InSec c1 s1) (i2 : InSec c2 s2) :
    Covered cx acc2 s1 s2 (clipInner cx d c1 c2 acc acc2) ∨ LostCall cx acc acc2 s1 s2 d c1 c2 :=
  clipInner_complete cx acc acc2 s1 s2 hM hm hmeet d c1 c2 h1 h2 i1 i2

/-- what COVERED means geometrically: the returned pair is the pair of mid-parameters of two sections `F1 ∋ s1`, `F2 ∋ s2`;
    if `F1` is not `is_tiny` the reported point of the first curve is within `√3·accuracy` of the intersection point,
    and the same for the second curve -/
theorem covered_pair_near_intersection (acc2 : K) (res : Hits K) (h : Covered cx acc2 s1 s2 res) :
    ∃ F1 F2 : SectionT K, T2.mk (midT F1) (midT F2) ∈ res ∧ InSec F1 s1 ∧ InSec F2 s2 ∧
      (section_is_tiny F1 = false → dist2 (ptA cx (midT F1)) (ptA cx s1) ≤ 3 * acc2) ∧
      (section_is_tiny F2 = false → dist2 (ptB cx (midT F2)) (ptB cx s2) ≤ 3 * acc2) := by
  obtain ⟨F1, F2, hmem, sb1, sb2, i1, i2, l1, l2⟩ := h
  refine ⟨F1, F2, hmem, i1, i2, ?_, ?_⟩
  · intro ht
    have := box_diameter cx.a1 cx.a2 cx.a3 cx.a4 F1 ht _ _ (sec_point_in_box _ _ _ _ F1 sb1 _ (midT_inSec F1))
      (sec_point_in_box _ _ _ _ F1 sb1 s1 i1)
    simp only [len1] at l1
    simp only [ptA]
    linarith
  · intro ht
    have := box_diameter cx.b1 cx.b2 cx.b3 cx.b4 F2 ht _ _ (sec_point_in_box _ _ _ _ F2 sb2 _ (midT_inSec F2))
      (sec_point_in_box _ _ _ _ F2 sb2 s2 i2)
    simp only [len2] at l2
    simp only [ptB]
    linarith

/-! ## 6. the two early returns that are justified -/

/-- `ClipResult::None => return smallvec![]` (second curve clipped against the first) never fires while a true
    intersection is inside both sections, unless the first curve's section has end points within 1e-7 of each other -/
theorem return_on_clip_none_justified (hM : 1 ≤ (fmaxval : K)) (hm : (fminval : K) ≤ 0) (c1 c2 : SectionT K)
    (h1 : Sub01 c1) (h2 : Sub01 c2) (hmeet : ptA cx s1 = ptB cx s2) (i1 : InSec c1 s1) (i2 : InSec c2 s2)
    (hfar : nearEnds1 cx c1 = false) : clipBA cx c2 c1 ≠ ClipResult.None := by
  intro hn
  rcases clipBA_keeps cx hM hm c1 c2 h1 h2 s1 s2 hmeet i1 i2 hfar with h | ⟨r, hr, _⟩
  · rw [h] at hn; exact absurd hn (by simp)
  · rw [hr] at hn; exact absurd hn (by simp)

/-- the same for the other clip direction -/
theorem return_on_clip_none_justified_other_order (hM : 1 ≤ (fmaxval : K)) (hm : (fminval : K) ≤ 0) (c1 c2 : SectionT K)
    (h1 : Sub01 c1) (h2 : Sub01 c2) (hmeet : ptA cx s1 = ptB cx s2) (i1 : InSec c1 s1) (i2 : InSec c2 s2)
    (hfar : nearEnds2 cx c2 = false) : clipAB cx c1 c2 ≠ ClipResult.None := by
  intro hn
  rcases clipAB_keeps cx hM hm c1 c2 h1 h2 s1 s2 hmeet i1 i2 hfar with h | ⟨r, hr, _⟩
  · rw [h] at hn; exact absurd hn (by simp)
  · rw [hr] at hn; exact absurd hn (by simp)

/-- "Clipping algorithm found a point, but the two curves do not actually overlap, so reject them": the boxes of two
    sections that contain a true intersection always overlap, so this `return smallvec![]` never loses one -/
theorem return_on_box_reject_justified (c1 c2 : SectionT K) (h1 : Sub01 c1) (h2 : Sub01 c2)
    (hmeet : ptA cx s1 = ptB cx s2) (i1 : InSec c1 s1) (i2 : InSec c2 s2) :
    bounds_overlaps (box1 cx c1) (box2 cx c2) = true := by
  have hb1 := sec_point_in_box cx.a1 cx.a2 cx.a3 cx.a4 c1 h1 s1 i1
  have hb2 := sec_point_in_box cx.b1 cx.b2 cx.b3 cx.b4 c2 h2 s2 i2
  have hq : ptOf cx.a1 cx.a2 cx.a3 cx.a4 s1 = ptOf cx.b1 cx.b2 cx.b3 cx.b4 s2 := hmeet
  rw [hq] at hb1
  exact overlaps_of_common _ _ _ hb1 hb2

/-- the split step: the two halves cover the section (and are sections of [0,1]) -/
theorem halves_cover (S : SectionT K) (hS : Sub01 S) (s : K) (h : InSec S s) :
    (InSec (section_subsection S (0.0 : K) (0.5 : K)) s ∨ InSec (section_subsection S (0.5 : K) (1.0 : K)) s) ∧
    Sub01 (section_subsection S (0.0 : K) (0.5 : K)) ∧ Sub01 (section_subsection S (0.5 : K) (1.0 : K)) :=
  ⟨inSec_halves S s h, sub01_halves S hS⟩

/-! ## 7. `join_subsections` -/

/-- JOIN KEEPS OR CLOSE.  Every hit of either list is in the joined list, except possibly the FIRST hit of `right`, and
    that one only under `DropCond`: both lists non-empty, its section parameter on the first curve differs by less than
    0.1 from that of the LAST hit of `left`, and the two points of the first curve at those parameters are at most
    `√(2·accuracy²) = 1.42·accuracy` apart (0.0142 units for accuracy 0.01 - not the 1 unit of the property's exclusion);
    the last hit of `left`, to which it was compared, is kept.  Only the first curve is looked at. -/
theorem join_keeps_or_close (w1 w2 w3 w4 : V2 K) (curve1 : SectionT K) (left right : Hits K) (acc2 : K) (h : T2 K K)
    (hh : h ∈ left ∨ h ∈ right) :
    h ∈ join_subsections w1 w2 w3 w4 curve1 left right acc2 ∨
    (DropCond w1 w2 w3 w4 curve1 left right acc2 ∧ h = listGet right 0 ∧
      listGet left (left.length - 1) ∈ join_subsections w1 w2 w3 w4 curve1 left right acc2) := by
  rcases hh with hl | hr
  · exact Or.inl (join_mem_left _ _ _ _ _ _ _ _ _ hl)
  · rcases join_eq w1 w2 w3 w4 curve1 left right acc2 with ⟨hd, e⟩ | ⟨_, e⟩
    · rw [e]
      cases right with
      | nil => exact absurd hr (by simp)
      | cons b r =>
        rcases List.mem_cons.1 hr with rfl | hr'
        · right
          refine ⟨hd, by simp [listGet], ?_⟩
          apply List.mem_append_left
          cases left with
          | nil => exact absurd rfl hd.1
          | cons a l =>
            simp only [listGet]
            rw [getElem!_pos (a :: l) _ (by simp)]
            exact List.getElem_mem _
        · left
          simp only [List.drop_succ_cons, List.drop_zero]
          exact List.mem_append_right _ hr'
    · rw [e]; exact Or.inl (List.mem_append_right _ hr)

/-- the joined list contains nothing but hits of the two lists -/
theorem join_invents_nothing (w1 w2 w3 w4 : V2 K) (curve1 : SectionT K) (left right : Hits K) (acc2 : K) (h : T2 K K)
    (hj : h ∈ join_subsections w1 w2 w3 w4 curve1 left right acc2) : h ∈ left ∨ h ∈ right :=
  join_subset w1 w2 w3 w4 curve1 left right acc2 h hj

/-- the two points `join_subsections` compares are the points of the first curve at the two hits' own parameters
    (section of non-zero length: `t_for_t ∘ section_t_for_original_t = id`) -/
theorem join_compares_the_hits (w1 w2 w3 w4 : V2 K) (curve1 : SectionT K) (hne : curve1.t_m ≠ 0) (t : K) :
    section_point_at_pos w1 w2 w3 w4 curve1 (section_t_for_original_t curve1 t) = curve_point_at_pos w1 w2 w3 w4 t := by
  simp only [section_point_at_pos, section_t_for_original_t, section_t_for_t]
  congr 1
  field_simp
  ring


/-! ## 8. the recursion is bounded -/

/-- BOUNDED RECURSION.  Every recursive call is made on a half of a section that is not `is_tiny` (parameter length at least
    0.001), clipping never lengthens a section, and a call on an `is_tiny` section returns `[]` at once.  Hence, on sections
    of [0,1] of parameter lengths below `0.001·2^j1` and `0.001·2^j2`, the recursion goes at most `j1 + j2` deep: the model
    with any depth `d ≥ j1 + j2 + 1` returns the same list as the model with depth `j1 + j2 + 1`.  (The loop inside each
    call is not covered: its termination is not proved.) -/
theorem recursion_bounded (hM : 1 ≤ (fmaxval : K)) (hm : (fminval : K) ≤ 0) (acc2 : K) (hacc : 0 ≤ acc2) (j1 j2 d : Nat)
    (hd : j1 + j2 + 1 ≤ d) (c1 c2 : SectionT K) (h1 : Sub01 c1) (h2 : Sub01 c2)
    (w1 : c1.t_m < 1/1000 * 2 ^ j1) (w2 : c2.t_m < 1/1000 * 2 ^ j2) :
    clipInner cx d c1 c2 acc acc2 = clipInner cx (j1 + j2 + 1) c1 c2 acc acc2 :=
  clipInner_depth cx acc acc2 hM hm hacc (j1 + j2) j1 j2 rfl d hd c1 c2 h1 h2 w1 w2

/-- for the two whole curves (`1 < 0.001·2^10`): the recursion of `curve_intersects_curve_clip` is at most 20 deep, so the
    depth parameter of the model is irrelevant from 21 on - "recursion depth exhausted" in `LostCall` is not a way the real
    function (unbounded depth) can lose an intersection -/
theorem recursion_depth_irrelevant (hM : 1 ≤ (fmaxval : K)) (hm : (fminval : K) ≤ 0) (d : Nat) (hd : 21 ≤ d) :
    clipTop cx d acc = clipTop cx 21 acc := by
  rw [clipTop_eq, clipTop_eq]
  cases cx.ovl (section_new (0.0 : K) (1.0 : K)) (section_new (0.0 : K) (1.0 : K)) with
  | some o => rfl
  | none =>
    have hw : (section_new (0.0 : K) (1.0 : K)).t_m < 1/1000 * 2 ^ 10 := by
      simp only [section_new, lit0, lit1]; norm_num
    exact clipInner_depth cx acc (acc * acc) hM hm (mul_self_nonneg acc) 20 10 10 rfl d hd _ _ sub01_whole sub01_whole hw hw

/-! ## 4b. the convergence test and `is_tiny` sections: a concrete witness -/

section Witness

/-- `f64::abs` on ℚ (the same instance as above, stated for ℚ so that it is preferred to the executable one of the prelude) -/
local instance : FAbs ℚ := ⟨fun a => |a|⟩
/-- any normalisation factor will do for the statements below -/
local instance : FSqrt ℚ := ⟨fun _ => 1⟩
local instance : FConsts ℚ := ⟨10 ^ 308, -10 ^ 308, 10 ^ 400, -10 ^ 400, 1 / 2 ^ 52⟩

/-- two curves inside the 100×100 box: the first runs along `y = 0` from `(0,0)` with speed 300 at its start, the second
    starts where the first is at `t = 0.0009` (`x = 0.2697570729`) and runs straight up with speed 300 -/
def cxTiny : Ctx ℚ where
  ovl := fun _ _ => none
  lin12 := fun _ _ _ => []
  lin21 := fun _ _ _ => []
  a1 := ⟨0, 0⟩
  a2 := ⟨100, 0⟩
  a3 := ⟨100, 0⟩
  a4 := ⟨100, 0⟩
  b1 := ⟨2697570729/10000000000, 0⟩
  b2 := ⟨2697570729/10000000000, 100⟩
  b3 := ⟨2697570729/10000000000, 100⟩
  b4 := ⟨2697570729/10000000000, 100⟩

/-- the section `[0, 0.0009]` -/
def secTiny : SectionT ℚ := ⟨0, 9/10000⟩

/-- THE CONVERGENCE TEST DOES NOT BOUND THE DISTANCE FOR `is_tiny` SECTIONS.  For accuracy 0.01 the sections `[0, 0.0009]`
    of the two curves of `cxTiny` (both inside the 100×100 box; the end of the first section is the start of the second)
    pass every test of the loop's exit - `curve_hull_length_sq` is 0 ≤ accuracy² because they are `is_tiny`, and their
    boxes overlap - although each section is 0.27 units long and the two points that would be reported (mid-parameters)
    are more than 0.19 apart, outside the property's 0.1.
    (This is a statement about the test; whether the loop can reach such a pair of sections is not claimed.  The exit is
    rare on real inputs: in 200 000 correspondence cases it is taken 20 times, always for overlapping pieces of one curve,
    never with an `is_tiny` section; for crossing curves every answer comes from the linear fall-back.) -/
theorem convergence_test_tiny_counterexample :
    Sub01 secTiny ∧ section_is_tiny secTiny = true ∧
    len1 cxTiny secTiny ≤ (0.01 : ℚ) * 0.01 ∧ len2 cxTiny secTiny ≤ (0.01 : ℚ) * 0.01 ∧
    bounds_overlaps (box1 cxTiny secTiny) (box2 cxTiny secTiny) = true ∧
    dist2 (ptA cxTiny (midT secTiny)) (ptB cxTiny (midT secTiny)) > (19/100) ^ 2 ∧
    Origin cxTiny (0.01 : ℚ) ((0.01 : ℚ) * 0.01) (T2.mk (midT secTiny) (midT secTiny)) := by
  have hs : Sub01 secTiny := by simp only [Sub01, secTiny]; norm_num
  have ht : section_is_tiny secTiny = true := by decide +kernel
  have h1 : len1 cxTiny secTiny ≤ (0.01 : ℚ) * 0.01 := by
    rw [(tiny_section_has_zero_length cxTiny secTiny ht).1]; norm_num
  have h2 : len2 cxTiny secTiny ≤ (0.01 : ℚ) * 0.01 := by
    rw [(tiny_section_has_zero_length cxTiny secTiny ht).2]; norm_num
  have hmeet : ptA cxTiny (9/10000) = ptB cxTiny 0 := by decide +kernel
  have i1 : InSec secTiny (9/10000) := ⟨1, by norm_num, by norm_num, by simp only [section_t_for_t, secTiny]; norm_num⟩
  have i2 : InSec secTiny 0 := ⟨0, by norm_num, by norm_num, by simp only [section_t_for_t, secTiny]; norm_num⟩
  have hov := return_on_box_reject_justified cxTiny (9/10000) 0 secTiny secTiny hs hs hmeet i1 i2
  exact ⟨hs, ht, h1, h2, hov, by decide +kernel, Origin.converged secTiny secTiny hs hs h1 h2 hov⟩

/-! ## Non-vacuity: the hypotheses are met, and the generated code runs through the branches the theorems talk about -/

/-- a curved arch `(0,0) (1,1) (2,1) (3,0)` and a slightly S-shaped upright curve `(1.5,0) (1,0.5) (2,1) (1.5,1.5)` that
    meet at `(1.5, 0.75)`, parameters `(1/2, 1/2)`.  The two fall-back oracles answer with `(1/2, 1/2)`. -/
def cxEx : Ctx ℚ where
  ovl := fun _ _ => none
  lin12 := fun _ _ _ => [⟨1/2, 1/2⟩]
  lin21 := fun _ _ _ => [⟨1/2, 1/2⟩]
  a1 := ⟨0, 0⟩
  a2 := ⟨1, 1⟩
  a3 := ⟨2, 1⟩
  a4 := ⟨3, 0⟩
  b1 := ⟨3/2, 0⟩
  b2 := ⟨1, 1/2⟩
  b3 := ⟨2, 1⟩
  b4 := ⟨3/2, 3/2⟩

/-- the sentinels satisfy `hM`, `hm` -/
example : 1 ≤ (fmaxval : ℚ) ∧ (fminval : ℚ) ≤ 0 := by decide +kernel
/-- the curves of `cxEx` meet at `(1/2, 1/2)`: hypothesis `hmeet` of `search_complete` -/
example : ptA cxEx (1/2) = ptB cxEx (1/2) := by decide +kernel
/-- the end points of both whole curves are far apart: hypothesis `hfar` -/
example : nearEnds1 cxEx (section_new 0 1) = false ∧ nearEnds2 cxEx (section_new 0 1) = false := by decide +kernel
/-- `clip_never_loses` on the two whole curves: the generated `clip` answers `[0, 1/2] ∋ 1/2` -/
example : (clipBA cxEx (section_new 0 1) (section_new 0 1) == ClipResult.Some ⟨0, 1/2⟩) = true := by decide +kernel
/-- … and then `[7/16, 1/2] ∋ 1/2` for the first curve against the clipped second one -/
example : (clipAB cxEx (section_new 0 1) (section_subsection (section_new 0 1) 0 (1/2)) == ClipResult.Some ⟨7/16, 1/2⟩) = true := by
  decide +kernel
/-- the generated function, run in the kernel with accuracy 1: one iteration (both curves clipped), convergence exit -/
example : clipTop cxEx 1 (1 : ℚ) = [⟨15/32, 1/4⟩] := by decide +kernel
/-- `search_complete` applies … -/
example := search_complete cxEx (1 : ℚ) (1/2) (1/2) (by decide +kernel) (by decide +kernel) 1
  (by norm_num) (by norm_num) (by norm_num) (by norm_num) (by decide +kernel)
/-- … and on this run its SECOND alternative holds: the result covers the intersection, with the final sections
    `[7/16, 1/2]` and `[0, 1/2]` (so `Covered` is not an empty notion) -/
example : Covered cxEx ((1 : ℚ) * 1) (1/2) (1/2) (clipTop cxEx 1 (1 : ℚ)) := by
  have hrun : clipTop cxEx 1 (1 : ℚ) = [⟨15/32, 1/4⟩] := by decide +kernel
  refine ⟨section_subsection (section_new 0 1) (7/16) (1/2), section_subsection (section_new 0 1) 0 (1/2),
    ?_, ?_, ?_, ?_, ?_, by decide +kernel, by decide +kernel⟩
  · rw [hrun, midT_eq, midT_eq]
    simp only [section_subsection, section_new, section_t_for_t, List.mem_singleton]
    norm_num
  · simp only [Sub01, section_subsection, section_new, section_t_for_t]; norm_num
  · simp only [Sub01, section_subsection, section_new, section_t_for_t]; norm_num
  · exact ⟨1, by norm_num, by norm_num, by simp only [section_subsection, section_new, section_t_for_t]; norm_num⟩
  · exact ⟨1, by norm_num, by norm_num, by simp only [section_subsection, section_new, section_t_for_t]; norm_num⟩
/-- with accuracy 0.01 the same pair ends in the linear fall-back (a named exception of `LostLoop`): the generated function
    returns the oracle's answer mapped through `t_for_t` -/
example : (clipTop cxEx 1 (0.01 : ℚ)).length = 1 := by decide +kernel
/-- `returned_parameters_in_range` applies to `cxEx` (its oracles answer inside [0,1]) -/
example := returned_parameters_in_range cxEx (0.01 : ℚ) (by decide +kernel) (by decide +kernel) 3
  (by intro o h; simp [cxEx] at h)
  (by intro c1 c2 g hg; simp only [cxEx, List.mem_singleton] at hg; subst hg; norm_num)
  (by intro c1 c2 g hg; simp only [cxEx, List.mem_singleton] at hg; subst hg; norm_num)
/-- `converged_pair_close` applies to the final sections of the run above (neither is `is_tiny`) -/
example := converged_pair_close cxEx (section_subsection (section_new 0 1) (7/16) (1/2))
  (section_subsection (section_new 0 1) 0 (1/2))
  (by simp only [Sub01, section_subsection, section_new, section_t_for_t]; norm_num)
  (by simp only [Sub01, section_subsection, section_new, section_t_for_t]; norm_num)
  (by decide +kernel) (by decide +kernel) (1 : ℚ) (by decide +kernel) (by decide +kernel) (by decide +kernel)
/-- `recursion_depth_irrelevant` applies -/
example := recursion_depth_irrelevant cxEx (0.01 : ℚ) (by decide +kernel) (by decide +kernel) 200 (by norm_num)
/-- `join_subsections` drops a duplicate: the same hit found in both halves of `[0,1]` is kept once … -/
example : join_subsections cxEx.a1 cxEx.a2 cxEx.a3 cxEx.a4 (section_new 0 1) [⟨1/2, 1/3⟩] [⟨1/2, 1/3⟩, ⟨9/10, 1/5⟩] (1/10000 : ℚ)
    = [⟨1/2, 1/3⟩, ⟨9/10, 1/5⟩] := by decide +kernel
/-- … and two hits 0.05 apart in parameter (0.1 units apart on the curve) are both kept -/
example : join_subsections cxEx.a1 cxEx.a2 cxEx.a3 cxEx.a4 (section_new 0 1) [⟨1/2, 1/3⟩] [⟨11/20, 1/3⟩] (1/10000 : ℚ)
    = [⟨1/2, 1/3⟩, ⟨11/20, 1/3⟩] := by decide +kernel

end Witness

end C02
