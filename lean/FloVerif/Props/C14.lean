/-
C14  Ray casting against a closed path is ordered and has even parity.

Property theorems only.  The side test `ray_can_intersect`, `curve_is_collinear`, `crossing_edges`, the collinear-section
filters, `collision_is_at_start/end`, `edges_are_glancing`, the tangent filter `remove_tangent_collisions`,
`flag_collisions_at_intersections`, the sort comparator (closure of `ray_collisions`, here `collision_order`),
`edges_overlap`, `control_points_overlap`, `ray_tangent_at_pos`, `ray_normal_at_pos`, `to_unit_vector`, `Line::pos_for_point` and the
`RayPath` implementation of `GraphPath` are regenerated from src/bezier/path/ray.rs, graph_path/ray_collision.rs,
graph_path/edge.rs, bezier/normal.rs, geo/coordinate.rs, line/line.rs on every check (`Gen/Ray.lean`).  The bookkeeping
loop of `crossing_and_collinear_collisions`, the stateful closure of `filter_collisions_near_vertices`, the composition of
the pipeline and the stable sort are the literal hand model `Model/Ray.lean`, which the correspondence run executes at
`Float` against the real `GraphPath::ray_collisions` (bit-exact).  `curve_intersects_ray` is C04's: here it is the
parameter `cir` (hits per edge), instantiated with C04's generated definition where geometry is concluded.

Number model: `K` is any linearly ordered field, `f64::abs` is `|·|`, `f64::signum` gives a zero the sign `+1` (IEEE `+0.0`;
a field has no `-0.0`), `f64::sqrt` (`FSqrt K`) and `f64::EPSILON` (`FConsts K`) are arbitrary unless a hypothesis says
otherwise.  NaN is outside the model (`partial_cmp` never fails).

Findings recorded as theorems:
* `edges_overlap_not_symmetric`, `comparator_not_antisymmetric`: `control_points_overlap` compares SIGNED distances with
  `SMALL_DISTANCE` (no `abs`) and tests `cp2_b` twice (never `cp1_b`), so `edges_overlap(a,b)` and `edges_overlap(b,a)`
  can differ; the comparator then answers `Less` for both argument orders.
* `control_points_overlap_far_apart`: two curves whose control points are 49 units apart "overlap".
* `comparator_not_transitive`: even with a symmetric overlap test the mix of line position (outside the 0.001 window) and
  edge priority (inside it) is not transitive.
-/
import FloVerif.Lemmas.RayParity
import FloVerif.Lemmas.RaySort
import FloVerif.Lemmas.RaySide
import FloVerif.Lemmas.RayPipeline
import FloVerif.Lemmas.RayHits
import FloVerif.Lemmas.RayCoeffs
import FloVerif.Lemmas.RayExample

set_option linter.unusedSectionVars false
set_option linter.unusedVariables false
namespace C14
open Prelude Gen Model.Ray RaySide RaySort RayPipeline RayParity RayHits

section Field
variable {K : Type} [Field K] [LinearOrder K] [IsStrictOrderedRing K] [Inhabited K] [FSqrt K] [FConsts K]

/-- in exact arithmetic `f64::abs` is the absolute value -/
local instance : FAbs K := ⟨fun a => |a|⟩
/-- `f64::signum`: `-1.0` below zero, `1.0` otherwise (`+0.0` has sign `+1`) -/
local instance : FSignum K := ⟨fun a => if a < 0 then -1 else 1⟩
local instance : OfInt K := ⟨fun n => (n : K)⟩

/-! ## the per-edge side test -/

/-- **Soundness of the side test.**  When `ray_can_intersect` answers `WrongSide` the signed distance `a x + b y + c` of the
    edge's points from the ray does not change sign on the whole edge: either it is `≥ 0` for every parameter in [0,1] or it is
    `< 0` for every parameter in [0,1].  Both end points then lie on one side.  So no transversal crossing is ever pruned; what
    can be pruned is a touch from the non-negative side (distance exactly 0 without a sign change). -/
theorem wrong_side_sound (e : Curve4 K) (co : T3 K K K) (h : ray_can_intersect e co = RayCanIntersect.WrongSide) :
    (∀ t : K, 0 ≤ t → t ≤ 1 → 0 ≤ sdist co (pointAt e t)) ∨ (∀ t : K, 0 ≤ t → t ≤ 1 → sdist co (pointAt e t) < 0) := by
  rcases wrong_side_signs e co h with ⟨a0, a1, a2, a3⟩ | ⟨a0, a1, a2, a3⟩
  · left; intro t h0 h1; rw [dist_pointAt]; exact bernstein_nonneg t _ _ _ _ h0 h1 a0 a1 a2 a3
  · right; intro t h0 h1; rw [dist_pointAt]; exact bernstein_neg t _ _ _ _ h0 h1 a0 a1 a2 a3

/-- an edge with points strictly on both sides of the ray is never pruned -/
theorem crossing_not_pruned (e : Curve4 K) (co : T3 K K K) (t₁ t₂ : K) (h1 : 0 ≤ t₁ ∧ t₁ ≤ 1) (h2 : 0 ≤ t₂ ∧ t₂ ≤ 1)
    (hneg : sdist co (pointAt e t₁) < 0) (hpos : 0 < sdist co (pointAt e t₂)) :
    ray_can_intersect e co ≠ RayCanIntersect.WrongSide := by
  intro h
  rcases wrong_side_sound e co h with hh | hh
  · exact absurd (hh t₁ h1.1 h1.2) (not_le.2 hneg)
  · exact absurd (hh t₂ h2.1 h2.2) (not_lt.2 (le_of_lt hpos))

/-- the collinear branches are taken only for an edge whose two end points (graph vertices) are both within `SMALL_DISTANCE`
    (0.001) of the ray: under the property's precondition (every vertex at least 0.1 away) never -/
theorem collinear_needs_near_vertices (e : Curve4 K) (co : T3 K K K) :
    (ray_can_intersect e co = RayCanIntersect.Collinear ∨ curve_is_collinear e co = true) →
      |sdist co e.t0| < (SMALL_DISTANCE : K) ∧ |sdist co e.t3| < (SMALL_DISTANCE : K) := by
  rintro (h | h)
  · exact collinear_ends e co h
  · exact ⟨((cic_unfold e co).1 h).1, ((cic_unfold e co).1 h).2.1⟩

example : ray_can_intersect (K := ℚ) (T4.mk ⟨0, 1⟩ ⟨1, 2⟩ ⟨2, 2⟩ ⟨3, 1⟩) (T3.mk 0 1 0) = RayCanIntersect.WrongSide := by decide +kernel
example : ray_can_intersect (K := ℚ) (T4.mk ⟨0, 1⟩ ⟨1, 2⟩ ⟨2, -2⟩ ⟨3, -1⟩) (T3.mk 0 1 0) = RayCanIntersect.CrossesRay := by decide +kernel
example : ray_can_intersect (K := ℚ) (T4.mk ⟨0, 0⟩ ⟨1, 0⟩ ⟨2, 0⟩ ⟨3, 0⟩) (T3.mk 0 1 0) = RayCanIntersect.Collinear := by decide +kernel

/-! ## the filters under the property's precondition -/

/-- **The filters are inert under the precondition.**  The collinear bookkeeping finds nothing, the two collinear-section filters,
    the vertex de-duplication / glancing filter and the tangent filter are the identity: before the sort the collisions are exactly
    the solver's hits on the edges that pass the side test, in edge order, each flagged `SingleEdge`/`Intersection`. -/
theorem filters_inert (path : RayPathI K) (ray : T2 (V2 K) (V2 K)) (cir : EdgeRef → List (T3 K K (V2 K)))
    (pre : Precondition path ray cir) :
    ray_collisions_unsorted path ray cir =
      flag_collisions_at_intersections path ((allEdgeRefs path).flatMap (rawOf path (line_coefficients_2d ray) cir)) :=
  unsorted_inert path ray cir pre

/-- under the precondition every collision that `ray_collisions` returns is a hit of `curve_intersects_ray` on the edge it names
    (an edge of the graph that passes the side test), with the hit's curve parameter, line position and point unchanged; it is
    flagged `Intersection` only for a parameter `≤ 0` -/
theorem collisions_come_from_hits (path : RayPathI K) (ray : T2 (V2 K) (V2 K)) (cir : EdgeRef → List (T3 K K (V2 K)))
    (pre : Precondition path ray cir) (c : Collision K) (hc : c ∈ ray_collisions path ray cir) :
    ∃ e ∈ allEdgeRefs path, ray_can_intersect (path.get_edge e) (line_coefficients_2d ray) = RayCanIntersect.CrossesRay ∧
      ∃ h ∈ cir e, c.t0.edge = e ∧ c.t1 = h.t0 ∧ c.t2 = h.t1 ∧ c.t3 = h.t2 ∧
        (c.t0 = GraphRayCollision.SingleEdge e ∨ (c.t0 = GraphRayCollision.Intersection e ∧ c.t1 ≤ 0)) := by
  unfold ray_collisions at hc
  rw [mem_sortBy, filters_inert path ray cir pre] at hc
  rw [flag_eq_map, List.mem_map] at hc
  obtain ⟨x, hx, rfl⟩ := hc
  obtain ⟨e, he, hside, h, hh, rfl⟩ := mem_raw path _ cir x hx
  obtain ⟨a, b, c, d, f⟩ := flagOne_spec path (mkHit e h)
  refine ⟨e, he, hside, h, hh, a, b, c, d, ?_⟩
  rcases f with f | ⟨f, g⟩
  · exact Or.inl f
  · exact Or.inr ⟨f, by rw [b]; exact g⟩

/-! ## the filters in general (no precondition) -/

/-- **The vertex filter only removes or re-labels.**  Whatever the input, `filter_collisions_near_vertices` returns at most as many
    collisions as it receives, and each one is an input collision, unchanged, or an input collision re-labelled as parameter 0 of the
    following edge with the same line position and the same point (a crossing exactly on a vertex, reported once). -/
theorem vertex_filter_only_removes (path : RayPathI K) (ray : T2 (V2 K) (V2 K)) (cir : EdgeRef → List (T3 K K (V2 K)))
    (l : List (Hit K)) :
    (filter_collisions_near_vertices path ray cir l).length ≤ l.length ∧
    ∀ y ∈ filter_collisions_near_vertices path ray cir l, ∃ x ∈ l, y.t2 = x.t2 ∧ y.t3 = x.t3 ∧ (y = x ∨ y.t1 = 0) :=
  nearVertexLoop_only_removes path _ cir l _

/-- **The tangent filter is a filter with an explicit test**: it returns a sub-list of its input, and it keeps a collision exactly
    when `| |u·τ| - 1 | ≥ 1e-8` for the unit vector `u` of the ray and the unit tangent `τ` of the edge at the collision. -/
theorem tangent_filter_spec (path : RayPathI K) (ray : T2 (V2 K) (V2 K)) (l : List (Hit K)) (x : Hit K) :
    (remove_tangent_collisions path ray l).Sublist l ∧
    (remove_tangent_collisions path ray [x] = [x] ↔
      ¬ (-0.00000001 < |dot (to_unit_vector (line_point_at_pos ray 1 - line_point_at_pos ray 0))
            (to_unit_vector (ray_tangent_at_pos (path.get_edge x.t0) x.t1))| - 1 ∧
          |dot (to_unit_vector (line_point_at_pos ray 1 - line_point_at_pos ray 0))
            (to_unit_vector (ray_tangent_at_pos (path.get_edge x.t0) x.t1))| - 1 < (0.00000001 : K))) :=
  ⟨remove_tangent_sublist path ray l, tangent_keep_iff path ray x⟩

/-! ## parity -/

/-- the side of the ray a graph vertex lies on -/
def vertexSide (path : RayPathI K) (co : T3 K K K) (v : Nat) : Bool := decide (sdist co (path.point_position v) < 0)

/-- **Cyclic sign changes are even** (closed path): going once round a closed sequence of vertices, the number of edges whose two
    end points lie on different sides is even, whatever the sides are. -/
theorem closed_path_sign_changes_even (side : Nat → Bool) (vs : List Nat) : changes side (cyclicEdges vs) % 2 = 0 :=
  changes_even side _ (cyclic_balanced vs)

/-- **… and so are they in every balanced graph** (collided path graph): if every vertex has as many edges leaving as arriving,
    the number of edges whose end points lie on different sides is even. -/
theorem balanced_sign_changes_even (side : Nat → Bool) (edges : List (Nat × Nat)) (h : Balanced edges) :
    changes side edges % 2 = 0 := changes_even side edges h

/-- the driver's executable test `balancedB` (run on every real graph of the correspondence) implies `Balanced` -/
theorem balanced_checker_sound (edges : List (Nat × Nat)) (h : balancedB edges = true) : Balanced edges :=
  balancedB_sound edges h

example : changes (fun v => v % 3 == 0) (cyclicEdges [0, 1, 2, 3, 4, 6]) = 4 := by decide
example : balancedB [(0, 1), (1, 2), (2, 0), (1, 3), (3, 1)] = true := by decide
example : Balanced [(0, 1), (1, 2), (2, 0), (1, 3), (3, 1)] := by decide

/-- **Even parity.**  For a graph that is balanced (closed paths, collided path graphs), under the precondition, and when on every
    edge that passes the side test the solver reports an odd number of hits exactly if the edge's end vertices lie on different
    sides of the ray (the per-edge fact `edge_parity` proves over ℝ for a nowhere-tangent ray and an exact solver), `ray_collisions`
    returns an even number of collisions. -/
theorem collisions_even (path : RayPathI K) (ray : T2 (V2 K) (V2 K)) (cir : EdgeRef → List (T3 K K (V2 K)))
    (pre : Precondition path ray cir) (hbal : Balanced (edgeList path))
    (hedge : ∀ e ∈ allEdgeRefs path, ray_can_intersect (path.get_edge e) (line_coefficients_2d ray) = RayCanIntersect.CrossesRay →
      ((cir e).length % 2 = 1 ↔
        vertexSide path (line_coefficients_2d ray) (path.edge_start_point_idx e) ≠
          vertexSide path (line_coefficients_2d ray) (path.edge_end_point_idx e))) :
    (ray_collisions path ray cir).length % 2 = 0 := by
  set co := line_coefficients_2d ray with hco
  have hlen : (ray_collisions path ray cir).length = ((allEdgeRefs path).map fun e => (rawOf path co cir e).length).sum := by
    unfold ray_collisions
    rw [(sortBy_perm _ _).length_eq, filters_inert path ray cir pre, flag_length, List.length_flatMap]
  rw [hlen, sum_parity]
  have hcount : (allEdgeRefs path).countP (fun e => (rawOf path co cir e).length % 2 == 1) =
      changes (vertexSide path co) (edgeList path) := by
    unfold changes edgeList
    rw [List.countP_map]
    apply List.countP_congr
    intro e he
    simp only [Function.comp, beq_iff_eq, bne_iff_ne, ne_eq]
    obtain ⟨hs, ht⟩ := pre.ends e he
    unfold rawOf
    cases hr : ray_can_intersect (path.get_edge e) co
    · -- WrongSide: no hits, and both ends on one side
      have hnil : ([] : List (Hit K)).length % 2 = 1 ↔ False := by simp
      simp only [reduceCtorEq, if_false, hnil, false_iff, not_not]
      unfold vertexSide
      rw [← hs, ← ht]
      rcases wrong_side_signs _ _ hr with ⟨a0, _, _, a3⟩ | ⟨a0, _, _, a3⟩
      · simp [not_lt.2 a0, not_lt.2 a3]
      · simp [a0, a3]
    · exact absurd ((rci_collinear_iff _ _).1 hr) (by rw [pre.not_collinear e he]; simp)
    · simp only [if_true, List.length_map]
      exact hedge e he hr
  rw [hcount]
  exact changes_even _ _ hbal

/-- `GraphPath` satisfies the coherence condition `Precondition.ends`: the end points of `get_edge e` are the positions of the
    points `edge_start_point_idx e` / `edge_end_point_idx e` (generated `RayPath` implementation, any graph, any forward reference) -/
theorem graph_path_ends (g : GraphPathM K) (e : EdgeRef) (he : e.reverse = false) :
    ((rayPathOf g).get_edge e).t0 = (rayPathOf g).point_position ((rayPathOf g).edge_start_point_idx e) ∧
    ((rayPathOf g).get_edge e).t3 = (rayPathOf g).point_position ((rayPathOf g).edge_end_point_idx e) :=
  rayPathOf_ends g e he

/-- every reference the loops of `ray_collisions` enumerate is a forward reference -/
theorem allEdgeRefs_forward (path : RayPathI K) (e : EdgeRef) (he : e ∈ allEdgeRefs path) : e.reverse = false :=
  allEdgeRefs_reverse_false path e he

/-- an edge whose start vertex is at least `SMALL_DISTANCE` from the ray is not collinear: with every vertex 0.1 away the three
    `not_collinear` conditions of the precondition hold -/
theorem far_start_not_collinear (e : Curve4 K) (co : T3 K K K) (h : (SMALL_DISTANCE : K) ≤ |sdist co e.t0|) :
    curve_is_collinear e co = false ∧ ray_can_intersect e co ≠ RayCanIntersect.Collinear :=
  ⟨not_collinear_of_far_start e co h, rci_ne_collinear_of_far_start e co h⟩

/-- with normalised coefficients (`a² + b² ≤ 1`) a point within 0.05 of the ray is farther than `SMALL_DISTANCE` from every vertex
    that is at least 0.1 from the ray: under the property's precondition no hit is "at the start" or "at the end" of its edge -/
theorem far_vertex_not_near (co : T3 K K K) (hn : co.t0 * co.t0 + co.t1 * co.t1 ≤ 1) (v p : V2 K)
    (hv : 1 / 10 ≤ |sdist co v|) (hp : |sdist co p| ≤ 1 / 20) : is_near_to v p (SMALL_DISTANCE : K) = false := by
  have h0 : (0.0 : K) = 0 := by norm_num
  have hsd : (SMALL_DISTANCE : K) = 1 / 1000 := by simp only [SMALL_DISTANCE]; norm_num
  rw [Bool.eq_false_iff]
  intro h
  simp only [is_near_to, dot, h0, hsd, decide_eq_true_eq, FatLineLemmas.V2_sub_x, FatLineLemmas.V2_sub_y] at h
  -- |sdist v - sdist p| ≤ |v - p| by Cauchy-Schwarz
  have hd : sdist co v - sdist co p = co.t0 * (v.x - p.x) + co.t1 * (v.y - p.y) := by simp only [sdist]; ring
  have hcs : (co.t0 * (v.x - p.x) + co.t1 * (v.y - p.y)) ^ 2 ≤ (v.x - p.x) ^ 2 + (v.y - p.y) ^ 2 := by
    nlinarith [sq_nonneg (co.t0 * (v.y - p.y) - co.t1 * (v.x - p.x)), sq_nonneg (v.x - p.x), sq_nonneg (v.y - p.y),
      mul_nonneg (sub_nonneg.2 hn) (add_nonneg (sq_nonneg (v.x - p.x)) (sq_nonneg (v.y - p.y)))]
  have hge : 1 / 20 ≤ |sdist co v - sdist co p| := by
    have := abs_sub_abs_le_abs_sub (sdist co v) (sdist co p)
    linarith
  have hsq : (1 / 20 : K) ^ 2 ≤ (sdist co v - sdist co p) ^ 2 := by
    rw [← sq_abs (sdist co v - sdist co p)]
    exact pow_le_pow_left₀ (by norm_num) hge 2
  rw [hd] at hsq
  nlinarith

/-! ## the final sort -/

/-- the sort only permutes the collisions (nothing is lost or duplicated, whatever the comparator does) -/
theorem sort_is_permutation (path : RayPathI K) (ray : T2 (V2 K) (V2 K)) (cir : EdgeRef → List (T3 K K (V2 K))) :
    (ray_collisions path ray cir).Perm (ray_collisions_unsorted path ray cir) := sortBy_perm _ _

/-- **What "sorted by the comparator" means.**  Outside the tie-break window (two collisions more than `SMALL_DISTANCE` apart in x or
    y, or on edges that do not overlap) the generated comparator is the three-way comparison of the line positions; so in ANY list
    that is ordered by the comparator (each earlier element compares `≠ Greater` to each later one - the driver checks this on the
    implementation's output) an earlier collision has the smaller-or-equal line position unless the two are a tie. -/
theorem sorted_up_to_ties (path : RayPathI K) (dir : V2 K) (out : List (Collision K))
    (h : out.Pairwise fun a b => collision_order path dir a b ≠ .gt) :
    out.Pairwise fun a b => a.t2 ≤ b.t2 ∨ tie path a b := by
  refine h.imp ?_
  intro a b hab
  by_cases ht : tie path a b
  · exact Or.inr ht
  · left
    rw [order_outside_window path dir a b ht] at hab
    exact (cmpKey_ne_gt _ _).1 hab

/-- **Outside the window the comparator is a total preorder** (a strict weak order): if no two different collisions of a list are a
    tie, then on that list the comparator is the comparison of line positions - antisymmetric (`cmp a b` is the reverse of `cmp b a`)
    and transitive. -/
theorem comparator_consistent_outside_window (path : RayPathI K) (dir : V2 K) (l : List (Collision K))
    (hw : ∀ a ∈ l, ∀ b ∈ l, a ≠ b → ¬ tie path a b) :
    (∀ a ∈ l, ∀ b ∈ l, collision_order path dir a b = cmpKey a.t2 b.t2) ∧
    (∀ a ∈ l, ∀ b ∈ l, collision_order path dir a b = (collision_order path dir b a).swap) ∧
    (∀ a ∈ l, ∀ b ∈ l, ∀ c ∈ l, collision_order path dir a b ≠ .gt → collision_order path dir b c ≠ .gt →
      collision_order path dir a c ≠ .gt) := by
  have key : ∀ a ∈ l, ∀ b ∈ l, collision_order path dir a b = cmpKey a.t2 b.t2 := by
    intro a ha b hb
    by_cases hab : a = b
    · subst hab; rw [order_self]; simp [cmpKey]
    · exact order_outside_window path dir a b (hw a ha b hb hab)
  refine ⟨key, ?_, ?_⟩
  · intro a ha b hb
    rw [key a ha b hb, key b hb a ha, cmpKey_swap]
  · intro a ha b hb c hc
    rw [key a ha b hb, key b hb c hc, key a ha c hc, cmpKey_ne_gt, cmpKey_ne_gt, cmpKey_ne_gt]
    exact le_trans

/-- **Sorted by position.**  If no two different collisions found are a tie (their positions are pairwise more than `SMALL_DISTANCE`
    apart in x or in y, or their edges do not overlap), the list `ray_collisions` returns is ordered by the position along the ray. -/
theorem sorted_outside_window (path : RayPathI K) (ray : T2 (V2 K) (V2 K)) (cir : EdgeRef → List (T3 K K (V2 K)))
    (hw : ∀ a ∈ ray_collisions_unsorted path ray cir, ∀ b ∈ ray_collisions_unsorted path ray cir, a ≠ b → ¬ tie path a b) :
    (ray_collisions path ray cir).Pairwise fun a b => a.t2 ≤ b.t2 := by
  obtain ⟨key, _, _⟩ := comparator_consistent_outside_window path (ray.t1 - ray.t0) _ hw
  unfold ray_collisions
  have hs := sortBy_sorted (collision_order path (ray.t1 - ray.t0)) (· ∈ ray_collisions_unsorted path ray cir)
    (fun a b ha hb => by
      rw [key a ha b hb, key b hb a ha, cmpKey_ne_gt, cmpKey_ne_gt]; exact le_total _ _)
    (fun a b c ha hb hc => by
      rw [key a ha b hb, key b hb c hc, key a ha c hc, cmpKey_ne_gt, cmpKey_ne_gt, cmpKey_ne_gt]; exact le_trans)
    (ray_collisions_unsorted path ray cir) (fun _ h => h)
  refine hs.imp_of_mem ?_
  intro a b ha hb hab
  rw [key a ((mem_sortBy _).1 ha) b ((mem_sortBy _).1 hb), cmpKey_ne_gt] at hab
  exact hab

/-- a list that is ordered by the comparator is a fixed point of the stable sort: the check "re-sorting the implementation's output
    with the model comparator changes nothing" is the check that it is ordered by the comparator -/
theorem sorted_is_fixed_point (path : RayPathI K) (dir : V2 K) (out : List (Collision K))
    (h : out.Pairwise fun a b => collision_order path dir a b ≠ .gt) : sortBy (collision_order path dir) out = out :=
  sortBy_fixed _ out h

end Field

/-! ## per-edge parity over ℝ and the assembled statement -/

section Real
open C04 Polynomial
variable [FSqrt ℝ] [FConsts ℝ]

noncomputable local instance : FAbs ℝ := ⟨fun a => |a|⟩
noncomputable local instance : FSignum ℝ := ⟨fun a => if a < 0 then -1 else 1⟩
noncomputable local instance : OfInt ℝ := ⟨fun n => (n : ℝ)⟩

/-- **Per-edge parity** (intermediate value theorem for the distance cubic).  Let the solver be exact on this edge (its result lists
    every real root of the signed-distance cubic once and nothing else), let the ray be nowhere tangent to the edge (the cubic has
    only simple roots), let both end points be off the ray and not within the end-point snapping distance, and let the normalisation
    factor of `line_coefficients_2d` be non-zero.  Then `curve_intersects_ray` (C04's generated definition) reports an odd number of
    hits exactly when the side test's own signed distances put the two end points on different sides. -/
theorem edge_parity (solve : T4 ℝ ℝ ℝ ℝ → List ℝ) (w1 w2 w3 w4 : V2 ℝ) (l : T2 (V2 ℝ) (V2 ℝ))
    (hne : lineA l ≠ 0 ∨ lineB l ≠ 0) (hf : RayCoeffs.normFactor l ≠ 0) (hsnap : RayHits.NoSnap w1 w4 l)
    (hsolve : ∀ r, r ∈ solve (distPoly w1 w2 w3 w4 l) ↔ polyEval (distPoly w1 w2 w3 w4 l) r = 0)
    (hnodup : (solve (distPoly w1 w2 w3 w4 l)).Nodup)
    (hsimple : (RayHits.toPoly (distPoly w1 w2 w3 w4 l)).roots.Nodup)
    (h1 : sdist (line_coefficients_2d l) w1 ≠ 0) (h4 : sdist (line_coefficients_2d l) w4 ≠ 0) :
    (curve_intersects_ray solve w1 w2 w3 w4 l).length % 2 = 1 ↔
      decide (sdist (line_coefficients_2d l) w1 < 0) ≠ decide (sdist (line_coefficients_2d l) w4 < 0) := by
  obtain ⟨k, hk, hprop⟩ := RayCoeffs.side_dist_proportional l hne hf
  have e1 := hprop w1
  have e4 := hprop w4
  have hl1 : lineDist l w1 ≠ 0 := fun e => h1 (by rw [e1, e, mul_zero])
  have hl4 : lineDist l w4 ≠ 0 := fun e => h4 (by rw [e4, e, mul_zero])
  rw [RayHits.edge_parity solve w1 w2 w3 w4 l hne hsnap hsolve hnodup hsimple hl1 hl4]
  have hprod : sdist (line_coefficients_2d l) w1 * sdist (line_coefficients_2d l) w4 = k ^ 2 * (lineDist l w1 * lineDist l w4) := by
    rw [e1, e4]; ring
  have hk2 : 0 < k ^ 2 := by positivity
  have hiff : lineDist l w1 * lineDist l w4 < 0 ↔ sdist (line_coefficients_2d l) w1 * sdist (line_coefficients_2d l) w4 < 0 := by
    rw [hprod]
    constructor
    · intro h; exact mul_neg_of_pos_of_neg hk2 h
    · intro h
      by_contra hc
      have := mul_nonneg (le_of_lt hk2) (not_lt.1 hc)
      linarith
  rw [hiff]
  generalize sdist (line_coefficients_2d l) w1 = a at h1 ⊢
  generalize sdist (line_coefficients_2d l) w4 = b at h4 ⊢
  rcases lt_or_gt_of_ne h1 with ha | ha <;> rcases lt_or_gt_of_ne h4 with hb | hb
  · simp only [ha, hb, decide_true, ne_eq, not_true_eq_false, iff_false, not_lt]; exact le_of_lt (mul_pos_of_neg_of_neg ha hb)
  · simp only [ha, not_lt.2 (le_of_lt hb), decide_true, decide_false, ne_eq, Bool.true_eq_false, not_false_eq_true, iff_true]
    exact mul_neg_of_neg_of_pos ha hb
  · simp only [hb, not_lt.2 (le_of_lt ha), decide_true, decide_false, ne_eq, Bool.false_eq_true, not_false_eq_true, iff_true]
    exact mul_neg_of_pos_of_neg ha hb
  · simp only [not_lt.2 (le_of_lt ha), not_lt.2 (le_of_lt hb), decide_false, ne_eq, not_true_eq_false, iff_false, not_lt]
    exact le_of_lt (mul_pos ha hb)

/-- non-vacuity of `edge_parity`: a straight vertical edge against a horizontal ray, the exact solver returns the one root 1/2
    (for any square-root function that is right at 1 and 4) -/
example (hs1 : fsqrt (1 : ℝ) = 1) (hs4 : fsqrt (4 : ℝ) = 2) :
    (curve_intersects_ray (fun _ => [(1 / 2 : ℝ)]) ⟨0, -1⟩ ⟨0, -1/3⟩ ⟨0, 1/3⟩ ⟨0, 1⟩ (T2.mk ⟨-1, 0⟩ ⟨1, 0⟩)).length % 2 = 1 := by
  have hP : distPoly (K := ℝ) ⟨0, -1⟩ ⟨0, -1/3⟩ ⟨0, 1/3⟩ ⟨0, 1⟩ (T2.mk ⟨-1, 0⟩ ⟨1, 0⟩) = T4.mk 0 0 (-4) 2 := by
    simp only [distPoly, bezier_coefficients, lineA, lineB, lineC]; norm_num
  have hco : line_coefficients_2d (K := ℝ) (T2.mk ⟨-1, 0⟩ ⟨1, 0⟩) = T3.mk 0 1 0 := by
    have hu : line_coefficients_2d_unnormalized (K := ℝ) (T2.mk ⟨-1, 0⟩ ⟨1, 0⟩) = T3.mk 0 1 0 := by
      simp only [line_coefficients_2d_unnormalized, FatLineLemmas.V2_sub_x, FatLineLemmas.V2_sub_y, fabs]; norm_num
    simp only [line_coefficients_2d, hu]; norm_num [hs1]
  have hnf : RayCoeffs.normFactor (K := ℝ) (T2.mk ⟨-1, 0⟩ ⟨1, 0⟩) = 1 := by
    have hu : line_coefficients_2d_unnormalized (K := ℝ) (T2.mk ⟨-1, 0⟩ ⟨1, 0⟩) = T3.mk 0 1 0 := by
      simp only [line_coefficients_2d_unnormalized, FatLineLemmas.V2_sub_x, FatLineLemmas.V2_sub_y, fabs]; norm_num
    simp only [RayCoeffs.normFactor, hu]; norm_num [hs1]
  rw [edge_parity (fun _ => [(1 / 2 : ℝ)]) _ _ _ _ _ (Or.inr (by simp only [lineB]; norm_num)) (by rw [hnf]; norm_num)
    (by
      have h4 : (0 * 0 + (-1 - 1) * (-1 - 1) : ℝ) = 4 := by norm_num
      simp only [RayHits.NoSnap, lineA, lineB, lineC, SMALL_DISTANCE, sub_self, h4, hs4]
      norm_num [abs_of_pos])
    (by
      intro r
      rw [hP]
      simp only [polyEval, List.mem_singleton]
      constructor
      · intro h; rw [h]; norm_num
      · intro h; linarith)
    (List.nodup_singleton _)
    (by
      rw [hP]
      have : RayHits.toPoly (T4.mk (0 : ℝ) 0 (-4) 2) = C (-4) * X + C 2 := by simp [RayHits.toPoly]
      rw [this, Multiset.nodup_iff_count_le_one]
      intro a
      calc Multiset.count a (C (-4 : ℝ) * X + C 2).roots ≤ Multiset.card (C (-4 : ℝ) * X + C 2).roots := Multiset.count_le_card _ _
        _ ≤ (C (-4 : ℝ) * X + C 2).natDegree := card_roots' _
        _ ≤ 1 := natDegree_linear_le)
    (by rw [hco]; simp only [sdist]; norm_num) (by rw [hco]; simp only [sdist]; norm_num)]
  rw [hco]; simp only [sdist]; norm_num

/-- **Even parity, assembled** (exact real arithmetic, exact solver).  A balanced graph (every closed path, every collided path graph
    whose vertices have equal in- and out-degree), a ray that is not a point, the precondition (no vertex within the collinearity /
    vertex windows, nowhere tangent), every vertex off the ray, and on every edge an exact solver, simple roots and no end-point
    snapping: the model of `ray_collisions` with C04's `curve_intersects_ray` returns an even number of collisions. -/
theorem ray_collisions_even (solve : T4 ℝ ℝ ℝ ℝ → List ℝ) (path : RayPathI ℝ) (ray : T2 (V2 ℝ) (V2 ℝ))
    (pre : Precondition path ray (cirOf solve path ray)) (hbal : Balanced (edgeList path))
    (hne : lineA ray ≠ 0 ∨ lineB ray ≠ 0) (hf : RayCoeffs.normFactor ray ≠ 0)
    (hoff : ∀ e ∈ allEdgeRefs path, sdist (line_coefficients_2d ray) (path.get_edge e).t0 ≠ 0 ∧
      sdist (line_coefficients_2d ray) (path.get_edge e).t3 ≠ 0)
    (hsnap : ∀ e ∈ allEdgeRefs path, RayHits.NoSnap (path.get_edge e).t0 (path.get_edge e).t3 ray)
    (hsolve : ∀ e ∈ allEdgeRefs path, ∀ r,
      r ∈ solve (distPoly (path.get_edge e).t0 (path.get_edge e).t1 (path.get_edge e).t2 (path.get_edge e).t3 ray) ↔
        polyEval (distPoly (path.get_edge e).t0 (path.get_edge e).t1 (path.get_edge e).t2 (path.get_edge e).t3 ray) r = 0)
    (hnodup : ∀ e ∈ allEdgeRefs path,
      (solve (distPoly (path.get_edge e).t0 (path.get_edge e).t1 (path.get_edge e).t2 (path.get_edge e).t3 ray)).Nodup)
    (hsimple : ∀ e ∈ allEdgeRefs path,
      (RayHits.toPoly (distPoly (path.get_edge e).t0 (path.get_edge e).t1 (path.get_edge e).t2 (path.get_edge e).t3 ray)).roots.Nodup) :
    (ray_collisions path ray (cirOf solve path ray)).length % 2 = 0 := by
  apply collisions_even path ray _ pre hbal
  intro e he _
  obtain ⟨hs, ht⟩ := pre.ends e he
  unfold vertexSide
  rw [← hs, ← ht]
  exact edge_parity solve _ _ _ _ ray hne hf (hsnap e he) (hsolve e he) (hnodup e he) (hsimple e he) (hoff e he).1 (hoff e he).2

/-- **Every collision lies on its edge and on the ray** (C04's `hit_sound` carried through the pipeline).  Under the precondition each
    collision returned names an edge of the graph, its parameter is in [0,1], its position is the point of that edge at that parameter,
    its line position is the one `curve_intersects_ray` computed from that point, and when the parameter is an exact root of the
    distance cubic the position is the point of the ray at that line position. -/
theorem collision_on_edge_and_ray (solve : T4 ℝ ℝ ℝ ℝ → List ℝ) (path : RayPathI ℝ) (ray : T2 (V2 ℝ) (V2 ℝ))
    (pre : Precondition path ray (cirOf solve path ray)) (c : Collision ℝ) (hc : c ∈ ray_collisions path ray (cirOf solve path ray)) :
    c.t0.edge ∈ allEdgeRefs path ∧ 0 ≤ c.t1 ∧ c.t1 ≤ 1 ∧ c.t3 = pointAt (path.get_edge c.t0.edge) c.t1 ∧ c.t2 = sOf ray c.t3 ∧
      (polyEval (distPoly (path.get_edge c.t0.edge).t0 (path.get_edge c.t0.edge).t1 (path.get_edge c.t0.edge).t2
          (path.get_edge c.t0.edge).t3 ray) c.t1 = 0 → c.t3 = along ray c.t2) := by
  obtain ⟨e, he, _, h, hh, h0, h1, h2, h3, _⟩ := collisions_come_from_hits path ray _ pre c hc
  obtain ⟨_, r, _, _, hr0, hr1, hpos, hs, hon⟩ := hit_sound solve _ _ _ _ ray h hh
  rw [h0, h1, h2, h3]
  exact ⟨he, hr0, hr1, hpos, hs, hon⟩

/-- non-vacuity of `ray_collisions_even`: the rectangle (0,-1)-(1,1) with straight edges, the ray along the x axis and the exact solver of
    linear polynomials satisfy every hypothesis (`Lemmas/RayExample.lean`), for any square-root function that is right at 1 and 4 -/
example (hs1 : fsqrt (1 : ℝ) = 1) (hs4 : fsqrt (4 : ℝ) = 2) :
    (ray_collisions (rayPathOf RayExample.rect) RayExample.ray
      (cirOf RayExample.solve (rayPathOf RayExample.rect) RayExample.ray)).length % 2 = 0 :=
  ray_collisions_even RayExample.solve _ _ (RayExample.pre hs1 hs4) RayExample.bal RayExample.ray_not_point
    (by rw [RayExample.nf hs1]; norm_num) (RayExample.off hs1) (RayExample.nosnap_all hs4) RayExample.solve_all RayExample.nodup_all
    RayExample.simple_all

/-- non-vacuity of `collision_on_edge_and_ray` (and `collisions_come_from_hits` over ℝ): the same instance returns a collision, and it
    lies on its edge -/
example (hs1 : fsqrt (1 : ℝ) = 1) (hs4 : fsqrt (4 : ℝ) = 2) :
    ∃ c ∈ ray_collisions (rayPathOf RayExample.rect) RayExample.ray (cirOf RayExample.solve (rayPathOf RayExample.rect) RayExample.ray),
      0 ≤ c.t1 ∧ c.t1 ≤ 1 ∧ c.t3 = pointAt ((rayPathOf RayExample.rect).get_edge c.t0.edge) c.t1 := by
  obtain ⟨c, hc⟩ := RayExample.has_collision hs1 hs4
  obtain ⟨_, h0, h1, hp, _⟩ := collision_on_edge_and_ray RayExample.solve _ _ (RayExample.pre hs1 hs4) c hc
  exact ⟨c, hc, h0, h1, hp⟩

end Real

/-! ## concrete instances: findings about the comparator, and non-vacuity of the hypotheses above

Exact rationals; the only square roots taken are of the perfect squares in the table. -/

section Witness

/-- `f64::sqrt` on the perfect squares that occur in the instances below -/
local instance : FSqrt ℚ :=
  ⟨fun x => if x = 1 then 1 else if x = 9 then 3 else if x = 16 then 4 else if x = 25 then 5 else if x = 36 then 6
    else if x = 144 then 12 else if x = 225 then 15 else 0⟩
local instance : FConsts ℚ := ⟨0, 0, 0, 0, 1 / 4503599627370496⟩

/-- two arcs between the same two vertices, bulging to the same side, 0.5 apart in the middle, traversed in opposite directions -/
def lens : GraphPathM ℚ := { points := [
  { position := ⟨0, 0⟩, forward_edges := [{ cp1 := ⟨1, -1⟩, cp2 := ⟨3, -1⟩, end_idx := 1, following_edge_idx := 0 }], connected_from := [1] },
  { position := ⟨4, 0⟩, forward_edges := [{ cp1 := ⟨3, -3/2⟩, cp2 := ⟨1, -3/2⟩, end_idx := 0, following_edge_idx := 0 }], connected_from := [0] }] }

/-- **Finding: `edges_overlap` is not symmetric.**  `control_points_overlap` (ray.rs:97-122) compares the SIGNED distances of the
    control points from the chord with `SMALL_DISTANCE` (no `abs`), so every control point on the negative side counts as "on the
    chord"; with the edges given in the other order the chord is reversed and the same points are on the positive side. -/
theorem edges_overlap_not_symmetric :
    edges_overlap (rayPathOf lens) ⟨0, 0, false⟩ ⟨1, 0, false⟩ = true ∧
    edges_overlap (rayPathOf lens) ⟨1, 0, false⟩ ⟨0, 0, false⟩ = false := by decide +kernel

/-- **Finding: the sort comparator is not antisymmetric.**  Two collisions 0.0005 apart on the two arcs of `lens` (a vertical ray at
    x = 0.001, going up): the comparator answers `Less` for both argument orders - edge priority one way round, line position the
    other way round, because `edges_overlap` answers differently.  (Seen on real graphs of nearly coincident shapes by the
    correspondence run: 7 of 20 000 rays.)  Rust's `sort_by` may panic on such a comparator. -/
theorem comparator_not_antisymmetric :
    let a : Collision ℚ := T4.mk (.SingleEdge ⟨0, 0, false⟩) (1/3000) (999/1000) ⟨1/1000, -1/1000⟩
    let b : Collision ℚ := T4.mk (.SingleEdge ⟨1, 0, false⟩) (2999/3000) (9985/10000) ⟨1/1000, -15/10000⟩
    collision_order (rayPathOf lens) ⟨0, 1⟩ a b = .lt ∧ collision_order (rayPathOf lens) ⟨0, 1⟩ b a = .lt := by decide +kernel

/-- **Finding: `control_points_overlap` never looks at the first control point of its second argument and accepts any distance on
    the negative side** (`dist_cp1_b` is computed from `cp2_b`, ray.rs:105; no `abs`, ray.rs:108): a curve "overlaps" curves whose
    control points are 49 and 51 units away from its own, on either side. -/
theorem control_points_overlap_far_apart :
    control_points_overlap (K := ℚ) (T4.mk ⟨0, 0⟩ ⟨1, -1⟩ ⟨3, -1⟩ ⟨4, 0⟩) (T4.mk ⟨0, 0⟩ ⟨1, -50⟩ ⟨3, -2⟩ ⟨4, 0⟩) = true ∧
    control_points_overlap (K := ℚ) (T4.mk ⟨0, 0⟩ ⟨1, -1⟩ ⟨3, -1⟩ ⟨4, 0⟩) (T4.mk ⟨0, 0⟩ ⟨1, 50⟩ ⟨3, -2⟩ ⟨4, 0⟩) = true := by
  decide +kernel

/-- two edges from vertex 0 to vertex 1 whose control points are 0.0004 apart (they overlap, symmetrically) and a third edge that
    passes between them -/
def sandwich : GraphPathM ℚ := { points := [
  { position := ⟨0, 0⟩, forward_edges := [
      { cp1 := ⟨1, 0⟩, cp2 := ⟨3, 0⟩, end_idx := 1, following_edge_idx := 0 },
      { cp1 := ⟨1, -4/10000⟩, cp2 := ⟨3, -4/10000⟩, end_idx := 1, following_edge_idx := 0 }], connected_from := [] },
  { position := ⟨4, 0⟩, forward_edges := [], connected_from := [0] },
  { position := ⟨0, -10002/10000⟩,
    forward_edges := [{ cp1 := ⟨4/3, -10002/10000 + 2/3⟩, cp2 := ⟨8/3, -10002/10000 + 4/3⟩, end_idx := 3, following_edge_idx := 0 }],
    connected_from := [] },
  { position := ⟨4, 9998/10000⟩, forward_edges := [], connected_from := [2] }] }

/-- **Finding: the comparator is not transitive** even where `edges_overlap` is symmetric.  Collisions `a`, `b` on the two overlapping
    edges (0.0003 apart) are ordered by edge priority, `a` before `b`; the collision `c` on the third edge lies between them and is
    ordered against each by line position, `b` before `c` before `a`: a cycle.  The result of a sort then depends on the order of its
    input and is not ordered by position (the two sorts below return different lists). -/
theorem comparator_not_transitive :
    let a : Collision ℚ := T4.mk (.SingleEdge ⟨0, 0, false⟩) (1/2) 1 ⟨2, 0⟩
    let b : Collision ℚ := T4.mk (.SingleEdge ⟨0, 1, false⟩) (1/2) (9997/10000) ⟨2, -3/10000⟩
    let c : Collision ℚ := T4.mk (.SingleEdge ⟨2, 0, false⟩) (1/2) (9998/10000) ⟨2, -2/10000⟩
    let cmp := collision_order (rayPathOf sandwich) ⟨0, 1⟩
    edges_overlap (rayPathOf sandwich) ⟨0, 0, false⟩ ⟨0, 1, false⟩ = edges_overlap (rayPathOf sandwich) ⟨0, 1, false⟩ ⟨0, 0, false⟩ ∧
    cmp a b = .lt ∧ cmp b c = .lt ∧ cmp a c = .gt ∧ cmp c a = .lt ∧
    (sortBy cmp [a, b, c]).map (·.t2) = [1, 9997/10000, 9998/10000] ∧
    (sortBy cmp [c, b, a]).map (·.t2) = [9998/10000, 1, 9997/10000] := by decide +kernel

/-- a 3-4-5 triangle with straight edges, a horizontal ray at height 1 and its two crossings -/
def triangle : GraphPathM ℚ := { points := [
  { position := ⟨0, 0⟩, forward_edges := [{ cp1 := ⟨4/3, 0⟩, cp2 := ⟨8/3, 0⟩, end_idx := 1, following_edge_idx := 0 }], connected_from := [2] },
  { position := ⟨4, 0⟩, forward_edges := [{ cp1 := ⟨4, 1⟩, cp2 := ⟨4, 2⟩, end_idx := 2, following_edge_idx := 0 }], connected_from := [0] },
  { position := ⟨4, 3⟩, forward_edges := [{ cp1 := ⟨8/3, 2⟩, cp2 := ⟨4/3, 1⟩, end_idx := 0, following_edge_idx := 0 }], connected_from := [1] }] }
def triangleRay : T2 (V2 ℚ) (V2 ℚ) := T2.mk ⟨-1, 1⟩ ⟨5, 1⟩
def triangleHits (e : EdgeRef) : List (T3 ℚ ℚ (V2 ℚ)) :=
  if e = ⟨1, 0, false⟩ then [T3.mk (1/3) (5/6) ⟨4, 1⟩] else if e = ⟨2, 0, false⟩ then [T3.mk (2/3) (7/18) ⟨4/3, 1⟩] else []

/-- non-vacuity of `Precondition`, `filters_inert`, `collisions_come_from_hits`, `collisions_even`, `sorted_outside_window`,
    `comparator_consistent_outside_window`: the triangle satisfies every hypothesis, and the model returns the two crossings in order -/
example : Precondition (rayPathOf triangle) triangleRay triangleHits :=
  ⟨by decide +kernel, by decide +kernel, by decide +kernel, by decide +kernel, by decide +kernel, by decide +kernel⟩
example : Balanced (edgeList (rayPathOf triangle)) := by decide +kernel
example : ∀ e ∈ allEdgeRefs (rayPathOf triangle),
    ray_can_intersect ((rayPathOf triangle).get_edge e) (line_coefficients_2d triangleRay) = RayCanIntersect.CrossesRay →
      ((triangleHits e).length % 2 = 1 ↔
        vertexSide (rayPathOf triangle) (line_coefficients_2d triangleRay) ((rayPathOf triangle).edge_start_point_idx e) ≠
          vertexSide (rayPathOf triangle) (line_coefficients_2d triangleRay) ((rayPathOf triangle).edge_end_point_idx e)) := by
  decide +kernel
example : ∀ a ∈ ray_collisions_unsorted (rayPathOf triangle) triangleRay triangleHits,
    ∀ b ∈ ray_collisions_unsorted (rayPathOf triangle) triangleRay triangleHits, a ≠ b → ¬ tie (rayPathOf triangle) a b := by
  decide +kernel
example : (ray_collisions (rayPathOf triangle) triangleRay triangleHits).map (fun c => (c.t0.edge.start_idx, c.t2)) = [(2, 7/18), (1, 5/6)] := by
  decide +kernel

/-- non-vacuity of `sorted_up_to_ties`, `sorted_is_fixed_point`, `sort_is_permutation`: the triangle's output is ordered by the comparator -/
example : (ray_collisions (rayPathOf triangle) triangleRay triangleHits).Pairwise
    fun a b => collision_order (rayPathOf triangle) (triangleRay.t1 - triangleRay.t0) a b ≠ .gt := by decide +kernel
/-- non-vacuity of `graph_path_ends`, `far_start_not_collinear`, `far_vertex_not_near` -/
example : ((rayPathOf triangle).get_edge ⟨1, 0, false⟩).t3 = (⟨4, 3⟩ : V2 ℚ) := by decide +kernel
example : (SMALL_DISTANCE : ℚ) ≤ |sdist (line_coefficients_2d triangleRay) ((rayPathOf triangle).get_edge ⟨1, 0, false⟩).t0| := by
  decide +kernel
/-- the vertex filter at work outside the precondition: the horizontal ray through the top vertex (4,3) of the triangle touches it without
    entering; the two collisions found there (end of one edge, start of the next) are both removed as a glancing contact -/
example : (filter_collisions_near_vertices (rayPathOf triangle) (T2.mk ⟨-1, 3⟩ ⟨5, 3⟩)
      (fun e => if e = ⟨1, 0, false⟩ then [T3.mk 1 (5/6) ⟨4, 3⟩] else if e = ⟨2, 0, false⟩ then [T3.mk 0 (5/6) ⟨4, 3⟩] else [])
      [T4.mk ⟨1, 0, false⟩ 1 (5/6) ⟨4, 3⟩, T4.mk ⟨2, 0, false⟩ 0 (5/6) ⟨4, 3⟩]).map (fun h => (h.t0.start_idx, h.t1)) = [] := by
  decide +kernel

end Witness

/-! non-vacuity of the side-test theorems at `ℚ` with the instances the theorems are stated for -/
section WitnessField
local instance : FAbs ℚ := ⟨fun a => |a|⟩
local instance : FSignum ℚ := ⟨fun a => if a < 0 then -1 else 1⟩
local instance : OfInt ℚ := ⟨fun n => (n : ℚ)⟩
local instance : FSqrt ℚ := ⟨fun _ => 0⟩
local instance : FConsts ℚ := ⟨0, 0, 0, 0, 0⟩

/-- non-vacuity of `crossing_not_pruned`, `collinear_needs_near_vertices` -/
example : ray_can_intersect (K := ℚ) (T4.mk ⟨0, 1⟩ ⟨1, 2⟩ ⟨2, -2⟩ ⟨3, -1⟩) (T3.mk 0 1 0) ≠ RayCanIntersect.WrongSide :=
  crossing_not_pruned _ _ 1 0 ⟨by norm_num, by norm_num⟩ ⟨by norm_num, by norm_num⟩
    (show sdist (K := ℚ) (T3.mk 0 1 0) (pointAt (T4.mk ⟨0, 1⟩ ⟨1, 2⟩ ⟨2, -2⟩ ⟨3, -1⟩) 1) < 0 by decide +kernel)
    (show 0 < sdist (K := ℚ) (T3.mk 0 1 0) (pointAt (T4.mk ⟨0, 1⟩ ⟨1, 2⟩ ⟨2, -2⟩ ⟨3, -1⟩) 0) by decide +kernel)
example : |sdist (K := ℚ) (T3.mk 0 1 0) ⟨0, 0⟩| < SMALL_DISTANCE :=
  (collinear_needs_near_vertices (T4.mk ⟨0, 0⟩ ⟨1, 0⟩ ⟨2, 0⟩ ⟨3, 0⟩) (T3.mk 0 1 0) (Or.inl (by decide +kernel))).1
/-- non-vacuity of `far_vertex_not_near` -/
example : is_near_to (K := ℚ) ⟨0, 1⟩ ⟨0, 1/100⟩ SMALL_DISTANCE = false :=
  far_vertex_not_near (T3.mk 0 1 0) (by norm_num) ⟨0, 1⟩ ⟨0, 1/100⟩
    (show (1 / 10 : ℚ) ≤ |sdist (T3.mk 0 1 0) ⟨0, 1⟩| by decide +kernel) (show |sdist (K := ℚ) (T3.mk 0 1 0) ⟨0, 1/100⟩| ≤ 1 / 20 by decide +kernel)

end WitnessField

end C14
