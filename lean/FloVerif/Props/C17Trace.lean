/-
C17 (tracing part)  `trace_contours_from_edges` on the edge cells of a bitmap does not panic and returns closed
loops that together use every edge between an inside and an outside sample exactly once.

Property theorems only.  `Gen.cell_connected_edges`, `Gen.cell_from_corners`, `Gen.edge_at_coordinates` are
regenerated from the Rust sources on every check; `buildGraph`, `followLoop`, `traceLoops`, `mixedCells`,
`boundaryEdges` are the hand models of `Model/Contour.lean`.  The helper lemmas are in `Lemmas/Trace.lean`.
`List.IsChain R l` (core/Mathlib name; the former `List.Chain'`) says that consecutive elements of `l` are related by `R`.
-/
import FloVerif.Lemmas.Trace

namespace C17Trace
open Prelude Gen Model.Contour

/-- two edge ids are joined inside one cell of the list -/
def Joined (w : Nat) (cells : List ((Nat × Nat) × Nat)) (a b : Nat) : Prop :=
  ∃ c ∈ cells, ∃ p ∈ cell_connected_edges c.2,
    (a = edge_at_coordinates p.1 w c.1.1 c.1.2 ∧ b = edge_at_coordinates p.2 w c.1.1 c.1.2) ∨
    (b = edge_at_coordinates p.1 w c.1.1 c.1.2 ∧ a = edge_at_coordinates p.2 w c.1.1 c.1.2)

/-- (A) the tracer on an abstract graph (association list `key ↦ neighbours`), independent of bitmaps.
    Hypotheses: the keys are distinct; every key lists exactly two neighbours, never itself (the same neighbour
    may be listed twice: a 2-cycle); every listed neighbour is a key; `b` is listed under `a` as often as `a`
    under `b`; listed neighbours are `R`-related to their key.
    Conclusion: with fuel `g.length + 1` the tracer does not fail (`none` = the Rust code would panic), every
    loop is closed (first element repeated last), consecutive elements are `R`-related, and the loops without
    their repeated last element are a permutation of the keys. -/
theorem trace_abstract (R : Nat → Nat → Prop) (g : Graph)
    (hkeys : (g.map (·.1)).Nodup)
    (hdeg : ∀ e ∈ g, e.2.length = 2 ∧ e.1 ∉ e.2)
    (hclosed : ∀ e ∈ g, ∀ v ∈ e.2, v ∈ g.map (·.1))
    (hsym : ∀ e ∈ g, ∀ e' ∈ g, e.2.count e'.1 = e'.2.count e.1)
    (hR : ∀ e ∈ g, ∀ v ∈ e.2, R e.1 v) :
    ∃ loops, traceLoops (g.length + 1) g = some loops ∧
      (∀ l ∈ loops, 2 ≤ l.length ∧ l.head? = l.getLast? ∧ l.IsChain R) ∧
      (loops.flatMap (·.dropLast)).Perm (g.map (·.1)) := by
  have good : Trace.Good R g := by
    refine ⟨hkeys, fun e he => ⟨(hdeg e he).1, (hdeg e he).2, hR e he⟩, ?_⟩
    intro a b
    have hzero : ∀ a b, a ∈ Trace.keys g → b ∉ Trace.keys g → (Trace.nb g a).count b = 0 := by
      intro a b ha hb
      rw [List.count_eq_zero]
      exact fun hm => hb (hclosed _ (Trace.mem_of_mem_keys ha) b hm)
    by_cases ha : a ∈ Trace.keys g
    · by_cases hb : b ∈ Trace.keys g
      · exact hsym _ (Trace.mem_of_mem_keys ha) _ (Trace.mem_of_mem_keys hb)
      · rw [hzero a b ha hb, Trace.nb_of_not_mem hb]; rfl
    · by_cases hb : b ∈ Trace.keys g
      · rw [hzero b a hb ha, Trace.nb_of_not_mem ha]; rfl
      · rw [Trace.nb_of_not_mem ha, Trace.nb_of_not_mem hb]; rfl
  exact Trace.traceLoops_spec R (g.length + 1) g good (Nat.lt_succ_self _)

/-- (B) for EVERY bitmap: tracing the mixed cells does not panic and returns closed loops (first element repeated
    last) whose consecutive elements are joined inside one cell and which together use every edge between an
    inside and an outside sample exactly once -/
theorem trace_loops (w : Nat) (rows : List (List Bool)) (hrows : ∀ r ∈ rows, r.length = w) :
    ∃ loops, traceLoops ((buildGraph w (mixedCells w rows)).length + 1) (buildGraph w (mixedCells w rows)) = some loops ∧
      (∀ l ∈ loops, 2 ≤ l.length ∧ l.head? = l.getLast? ∧ l.IsChain (Joined w (mixedCells w rows))) ∧
      (loops.flatMap (·.dropLast)).Perm (boundaryEdges w rows) := by
  have good : Trace.Good (Joined w (mixedCells w rows)) (buildGraph w (mixedCells w rows)) :=
    Trace.build_good w rows hrows _ (fun p hp => Trace.mem_arcsOf hp)
  obtain ⟨loops, h1, h2, h3⟩ := Trace.traceLoops_spec _ _ _ good (Nat.lt_succ_self _)
  exact ⟨loops, h1, h2, h3.trans (Trace.build_keys w rows hrows)⟩

/-! non-vacuity: a single pixel gives one loop of its four boundary edges; the 2×2 checkerboard (saddle cell 9)
    gives two loops -/
example : traceLoops ((buildGraph 1 (mixedCells 1 [[true]])).length + 1) (buildGraph 1 (mixedCells 1 [[true]])) =
    some [[5, 2, 7, 6, 5]] ∧ boundaryEdges 1 [[true]] = [2, 5, 7, 6] := by decide

end C17Trace
