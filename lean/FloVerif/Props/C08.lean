/-
C08  Curve fitting returns a connected chain from the first to the last point.

`Gen.max_points_to_fit`, `Gen.fit_curve` (the block loop, with the recursive fitter and the tangent functions as
parameters), `Gen.fit_line` and `Gen.newton_raphson_root_find` are regenerated from src/bezier/fit.rs on every check.
`Model.Fit.fitCubic` is the hand-written recursion skeleton of `fit_curve_cubic`.

Connectedness is Mathlib's `List.IsChain (fun c c' => endOf c = startOf c')`; curves are abstract (`startOf endOf : C → P`).
Ends of lists are read with `head?` / `getLast?` (no proof arguments); `FitsChain.head_eq` / `getLast_eq` restate them
with `List.head` / `List.getLast`.
-/
import FloVerif.Gen.Fit
import FloVerif.Model.Fit
import FloVerif.Lemmas.Fit
import Mathlib.Data.List.Range
import Mathlib.Tactic.Ring
import Mathlib.Tactic.NormNum.OfScientific
import Mathlib.Algebra.Order.Field.Basic

set_option linter.unusedSectionVars false
namespace C08
open Prelude Gen Model.Fit

/-! ### (1) `max_points_to_fit` -/

/-- the block size is always between 50 and 200, whatever the number of points (and whatever the fuel of the loop) -/
theorem max_points_to_fit_range (n : Nat) : 50 ≤ max_points_to_fit n ∧ max_points_to_fit n ≤ 200 := by
  have hM : MAX_POINTS_TO_FIT = 200 := rfl
  unfold max_points_to_fit
  simp only [decide_eq_true_eq, Bool.and_eq_true]
  split
  · omega
  · refine iterFuel_inv (fun s => 50 ≤ s ∧ s ≤ 200) (fun r => 50 ≤ r ∧ r ≤ 200) _ _ ?_ ?_ ?_ 1000 _ (by omega)
    · intro s s' hs h
      split at h
      · simp only [Sum.inl.injEq] at h
        omega
      · simp at h
    · intro s r hs h
      split at h
      · simp at h
      · simp only [Sum.inr.injEq] at h
        omega
    · intro s hs; exact hs

theorem max_points_to_fit_small (n : Nat) (h : n < 200) : max_points_to_fit n = 200 := by
  have hM : MAX_POINTS_TO_FIT = 200 := rfl
  unfold max_points_to_fit
  simp only [decide_eq_true_eq]
  rw [if_pos (by omega)]
  exact hM

/-- so `max_points_to_fit − 1 ≥ 1`: the block arithmetic never divides by zero -/
theorem max_points_to_fit_pred_pos (n : Nat) : 1 ≤ max_points_to_fit n - 1 := by
  have := max_points_to_fit_range n; omega

/-- what the `while` loop computes (the fuel 1000 of the translation is not exhausted: the loop leaves through its
    condition): the largest block size `m ≤ 200` with `m = 50` or `n % m ≥ 50` -/
theorem max_points_to_fit_spec (n : Nat) (h : 200 ≤ n) :
    (max_points_to_fit n = 50 ∨ 50 ≤ n % max_points_to_fit n) ∧
    ∀ k, max_points_to_fit n < k → k ≤ 200 → n % k < 50 := by
  have hM : MAX_POINTS_TO_FIT = 200 := rfl
  unfold max_points_to_fit
  simp only [decide_eq_true_eq, Bool.and_eq_true]
  rw [if_neg (by omega)]
  refine iterFuel_variant (fun s => 50 ≤ s ∧ s ≤ 200 ∧ ∀ k, s < k → k ≤ 200 → n % k < 50)
    (fun r => (r = 50 ∨ 50 ≤ n % r) ∧ ∀ k, r < k → k ≤ 200 → n % k < 50) (fun s => s) _ _ ?_ ?_ 1000 _ ?_ (by omega)
  · intro s s' hs hstep
    split at hstep
    · rename_i hc
      simp only [Sum.inl.injEq] at hstep
      refine ⟨⟨by omega, by omega, fun k hk hk2 => ?_⟩, by omega⟩
      by_cases hks : k = s
      · rw [hks]; omega
      · exact hs.2.2 k (by omega) hk2
    · simp at hstep
  · intro s r hs hstep
    split at hstep
    · simp at hstep
    · rename_i hc
      simp only [Sum.inr.injEq] at hstep
      subst hstep
      exact ⟨by omega, hs.2.2⟩
  · exact ⟨by omega, by omega, fun k hk hk2 => by omega⟩

example : max_points_to_fit 300 = 200 := by decide
example : max_points_to_fit 201 = 151 := by decide
example : max_points_to_fit 7 = 200 := by decide

/-! ### (2) fewer than two points -/

theorem fit_curve_none_iff {K P C : Type} (fcc : List P → P → P → K → List C) (st et : List P → P)
    (points : List P) (e : K) :
    fit_curve fcc st et points e = none ↔ points.length < 2 := by
  unfold fit_curve
  simp only [decide_eq_true_eq]
  split <;> simp_all

/-! ### (3) block structure -/

/-- the blocks `(start index, number of points)` that `fit_curve` hands to `fit_curve_cubic`
    for `n` points and block size `m` -/
def blocks (n m : Nat) : List (Nat × Nat) :=
  ((List.range ((n - 2) / (m - 1) + 1)).map (fun k => (k * (m - 1), min m (n - k * (m - 1))))).filter (fun b => decide (2 ≤ b.2))

example : blocks 300 200 = [(0, 200), (199, 101)] := by decide
example : blocks 2 200 = [(0, 2)] := by decide
example : blocks 201 200 = [(0, 200), (199, 2)] := by decide
example : blocks 200 200 = [(0, 200)] := by decide
example : blocks 399 200 = [(0, 200), (199, 200)] := by decide
example : blocks 7 3 = [(0, 3), (2, 3), (4, 3)] := by decide
example : blocks 201 (max_points_to_fit 201) = [(0, 151), (150, 51)] := by decide

/-- what the body of the loop passes to `fit_curve_cubic` for the block `b = (start_point, num_points)`: the slice, the start
    tangent of the slice, and the end tangent of the slice extended by one point if that point is not the last one -/
def blockFit {K P C : Type} (fcc : List P → P → P → K → List C) (st et : List P → P) (points : List P) (e : K)
    (b : Nat × Nat) : List C :=
  fcc (listSlice points b.1 (b.1 + b.2))
    (st (listSlice points b.1 (b.1 + b.2)))
    (if b.1 + b.2 + 1 < points.length then et (listSlice points b.1 (b.1 + b.2 + 1)) else et (listSlice points b.1 (b.1 + b.2)))
    e

/-- `fit_curve` is the concatenation of the fits of its blocks -/
theorem fit_curve_blocks {K P C : Type} (fcc : List P → P → P → K → List C) (st et : List P → P)
    (points : List P) (e : K) (h : 2 ≤ points.length) :
    fit_curve fcc st et points e =
      some ((blocks points.length (max_points_to_fit points.length)).flatMap (blockFit fcc st et points e)) := by
  unfold fit_curve
  simp only [decide_eq_true_eq, foldlT_push]
  rw [if_neg (by omega)]
  congr 1
  generalize max_points_to_fit points.length = m
  rw [blocks, flatMap_map_filter, List.range_eq_range', Nat.sub_zero]
  rw [foldlT_flatMap _ _ _ (fun k => if decide (2 ≤ min m (points.length - k * (m - 1))) = true then
      blockFit fcc st et points e (k * (m - 1), min m (points.length - k * (m - 1))) else [])]
  · simp
  · intro cs k _
    have hnum : (if k * (m - 1) + m > points.length then points.length - k * (m - 1) else m)
        = min m (points.length - k * (m - 1)) := by split <;> omega
    simp only [hnum, decide_eq_true_eq, blockFit]
    by_cases h2 : 2 ≤ min m (points.length - k * (m - 1))
    · rw [if_neg (by omega), if_pos h2]
    · rw [if_pos (by omega), if_neg h2, List.append_nil]

/-- closed form: with at least two points and a block size of at least two no block is skipped, every block but the last is
    full, and the last takes the rest -/
theorem blocks_eq (n m : Nat) (hm : 2 ≤ m) (hn : 2 ≤ n) :
    blocks n m = (List.range ((n - 2) / (m - 1) + 1)).map
      (fun k => (k * (m - 1), if k < (n - 2) / (m - 1) then m else n - k * (m - 1))) := by
  have hd : 0 < m - 1 := by omega
  unfold blocks
  rw [List.filter_eq_self.2]
  · apply List.map_congr_left
    intro k hk
    rw [List.mem_range] at hk
    split
    · rename_i hlt
      have : (k + 1) * (m - 1) ≤ n - 2 := (Nat.le_div_iff_mul_le hd).1 hlt
      rw [Nat.add_mul] at this
      congr 1; omega
    · rename_i hge
      have hq : k = (n - 2) / (m - 1) := by omega
      have : n - 2 < (k + 1) * (m - 1) := by
        rw [hq]; exact Nat.lt_mul_of_div_lt (by omega) hd
      rw [Nat.add_mul] at this
      congr 1; omega
  · intro b hb
    rw [List.mem_map] at hb
    obtain ⟨k, hk, rfl⟩ := hb
    rw [List.mem_range] at hk
    have : k * (m - 1) ≤ n - 2 := (Nat.le_div_iff_mul_le hd).1 (by omega)
    simp only [decide_eq_true_eq]
    omega

/-- THE BLOCKS COVER THE POINTS WITH ONE-POINT OVERLAPS: there is a block, the first starts at point 0, each block starts at
    the LAST point of the previous one (`start' = start + len − 1`), every block has between 2 and `m` points and lies inside
    the list, and the last block ends with the last point -/
theorem blocks_cover (n m : Nat) (hm : 2 ≤ m) (hn : 2 ≤ n) :
    blocks n m ≠ [] ∧
    (∀ b, (blocks n m).head? = some b → b.1 = 0) ∧
    (blocks n m).IsChain (fun a b => b.1 = a.1 + a.2 - 1) ∧
    (∀ b ∈ blocks n m, 2 ≤ b.2 ∧ b.2 ≤ m ∧ b.1 + b.2 ≤ n) ∧
    (∀ b, (blocks n m).getLast? = some b → b.1 + b.2 = n) := by
  have hd : 0 < m - 1 := by omega
  rw [blocks_eq n m hm hn]
  generalize hq : (n - 2) / (m - 1) = q
  have hle : ∀ k, k ≤ q → k * (m - 1) ≤ n - 2 := fun k hk =>
    (Nat.le_div_iff_mul_le hd).1 (by omega)
  have hlast : n - 2 < (q + 1) * (m - 1) := by
    rw [← hq]; exact Nat.lt_mul_of_div_lt (by omega) hd
  rw [Nat.add_mul] at hlast
  refine ⟨?_, ?_, ?_, ?_, ?_⟩
  · simp [List.range_succ]
  · intro b hb
    simp only [List.head?_map, List.head?_range] at hb
    simp at hb
    rw [← hb]
  · rw [List.isChain_map, List.isChain_range_succ]
    intro k hk
    have := hle (k + 1) (by omega)
    rw [Nat.add_mul] at this
    simp only [Nat.succ_eq_add_one, Nat.add_mul, if_pos hk]
    omega
  · intro b hb
    rw [List.mem_map] at hb
    obtain ⟨k, hk, rfl⟩ := hb
    rw [List.mem_range] at hk
    have h1 := hle k (by omega)
    simp only
    split
    · rename_i hlt
      have := hle (k + 1) (by omega)
      rw [Nat.add_mul] at this
      omega
    · have : k = q := by omega
      subst this
      omega
  · intro b hb
    simp only [List.getLast?_map, List.getLast?_range] at hb
    simp at hb
    have := hle q (by omega)
    rw [← hb]; simp only; omega

/-- the blocks that `fit_curve` really uses (block size from `max_points_to_fit`) -/
theorem fit_curve_blocks_cover (n : Nat) (hn : 2 ≤ n) :
    let bs := blocks n (max_points_to_fit n)
    bs ≠ [] ∧ (∀ b, bs.head? = some b → b.1 = 0) ∧ bs.IsChain (fun a b => b.1 = a.1 + a.2 - 1) ∧
    (∀ b ∈ bs, 2 ≤ b.2 ∧ b.2 ≤ max_points_to_fit n ∧ b.1 + b.2 ≤ n) ∧ (∀ b, bs.getLast? = some b → b.1 + b.2 = n) :=
  blocks_cover n _ (by have := max_points_to_fit_range n; omega) hn

/-! ### (4) the chain -/

/-- CONTRACT OF A FITTER: `cs` is a non-empty list of curves, the first starts at the first point of `ps`, the last ends at
    the last point of `ps`, and each curve starts where the previous one ends -/
def FitsChain {P C : Type} (startOf endOf : C → P) (ps : List P) (cs : List C) : Prop :=
  cs ≠ [] ∧ cs.head?.map startOf = ps.head? ∧ cs.getLast?.map endOf = ps.getLast? ∧
  cs.IsChain (fun c c' => endOf c = startOf c')

theorem fitsChain_iff {P C : Type} (startOf endOf : C → P) (ps : List P) (cs : List C) :
    FitsChain startOf endOf ps cs ↔ ChainFromTo startOf endOf ps.head? ps.getLast? cs :=
  ⟨fun ⟨a, b, c, d⟩ => ⟨a, b, c, d⟩, fun ⟨a, b, c, d⟩ => ⟨a, b, c, d⟩⟩

/-- the same with `List.head` / `List.getLast` -/
theorem FitsChain.head_eq {P C : Type} {startOf endOf : C → P} {ps : List P} {cs : List C}
    (h : FitsChain startOf endOf ps cs) (hp : ps ≠ []) : startOf (cs.head h.1) = ps.head hp := by
  have hc : cs ≠ [] := h.1
  have hh : cs.head?.map startOf = ps.head? := h.2.1
  show startOf (cs.head hc) = ps.head hp
  rw [List.head?_eq_some_head hc, List.head?_eq_some_head hp] at hh
  simpa using hh

theorem FitsChain.getLast_eq {P C : Type} {startOf endOf : C → P} {ps : List P} {cs : List C}
    (h : FitsChain startOf endOf ps cs) (hp : ps ≠ []) : endOf (cs.getLast h.1) = ps.getLast hp := by
  have hc : cs ≠ [] := h.1
  have hh : cs.getLast?.map endOf = ps.getLast? := h.2.2.1
  show endOf (cs.getLast hc) = ps.getLast hp
  rw [List.getLast?_eq_some_getLast hc, List.getLast?_eq_some_getLast hp] at hh
  simpa using hh

/-- `fit_curve` RETURNS A CONNECTED CHAIN FROM THE FIRST TO THE LAST POINT, provided the recursive fitter does so on every
    contiguous slice (`<:+:`) of the points with at least two points (for this `max_error`, whatever the tangents).
    The proof glues the block results with `ChainFromTo.append`: block `k` ends at `points[start_k + len_k − 1]`, block `k+1`
    starts at `points[start_{k+1}]`, and these are the same point by `blocks_cover` (one-point overlap). -/
theorem fit_curve_chain {K P C : Type} (startOf endOf : C → P)
    (fcc : List P → P → P → K → List C) (st et : List P → P) (points : List P) (e : K)
    (hfcc : ∀ (ps : List P) (s t : P), ps <:+: points → 2 ≤ ps.length → FitsChain startOf endOf ps (fcc ps s t e))
    (h : 2 ≤ points.length) :
    ∃ cs, fit_curve fcc st et points e = some cs ∧ FitsChain startOf endOf points cs := by
  refine ⟨_, fit_curve_blocks fcc st et points e h, ?_⟩
  obtain ⟨hne, hfirst, hchain, hall, hlast⟩ := fit_curve_blocks_cover points.length h
  generalize blocks points.length (max_points_to_fit points.length) = bs at hne hfirst hchain hall hlast
  have key := ChainFromTo.flatMap (startOf := startOf) (endOf := endOf)
    (fun b : Nat × Nat => points[b.1]?) (fun b : Nat × Nat => points[b.1 + b.2 - 1]?) (blockFit fcc st et points e) bs hne
    (fun b hb => by
      obtain ⟨h2, _, hin⟩ := hall b hb
      have hlen : (listSlice points b.1 (b.1 + b.2)).length = b.2 := by
        rw [listSlice_length _ _ _ hin]; omega
      have := (fitsChain_iff _ _ _ _).1 (hfcc (listSlice points b.1 (b.1 + b.2))
        (st (listSlice points b.1 (b.1 + b.2)))
        (if b.1 + b.2 + 1 < points.length then et (listSlice points b.1 (b.1 + b.2 + 1)) else et (listSlice points b.1 (b.1 + b.2)))
        (listSlice_infix _ _ _) (by omega))
      rw [listSlice_head? _ _ _ (by omega), listSlice_getLast? _ _ _ (by omega) hin] at this
      exact this)
    (hchain.imp (fun {a b} hab => by simp only [hab]))
  obtain ⟨b0, bl, hb0, hbl⟩ := exists_head?_getLast? bs hne
  rw [hb0, hbl] at key
  simp only [Option.bind_some, hfirst b0 hb0] at key
  rw [fitsChain_iff, head?_eq_getElem?_zero, List.getLast?_eq_getElem?]
  have : bl.1 + bl.2 - 1 = points.length - 1 := by rw [hlast bl hbl]
  rw [this] at key
  exact key

/-! ### (5) the recursion of `fit_curve_cubic` -/

section cubic
variable {K P C : Type} [LE K] [DecidableLE K] [Inhabited P]

/-- `fitCubic` (the recursion skeleton of `fit_curve_cubic`) SATISFIES THE CONTRACT OF (4) on the points `all` and all their
    slices, with fuel `≥` the number of points, if

    * `fit_line p q` is one curve from `p` to `q`,
    * the candidate curve of `tryFit` starts at the first and ends at the last point of its slice
      (`generate_bezier` builds `from_points(points[0], …, last_point)`),
    * whenever the candidate is rejected (`¬ error ≤ max_error`) the split position is interior:
      `1 ≤ split_pos` and `split_pos + 1 < len`.

    Both recursive calls are then on strictly shorter slices (`split_pos + 1 < len` and `len − split_pos < len`) of at least
    two points, which share the point `points[split_pos]`.

    The hypotheses are only needed for the given `max_error` and for contiguous slices (`<:+:`) of `all`.  The third one is
    what `max_error_for_curve` gives for `0 ≤ max_error`: a rejected candidate has a positive error, the index returned has
    a positive squared error, and the first and last samples have error 0 (their chords 0 and 1 are fixed by
    re-parameterisation, `newton_fixed_at_ends_*`, and the candidate passes through both points).  It FAILS for
    `max_error < 0` or NaN: an exactly fitted slice is rejected with `split_pos = 0` and `points[split_pos-1]` panics
    (fit.rs:212, e.g. `fit_curve(&[(0,0),(1,0),(2,0)], -1.0)`). -/
theorem fitCubic_chain (startOf endOf : C → P)
    (fitLine : P → P → List C) (tryFit : List P → P → P → K → (C × K × Nat))
    (tangentBetween : P → P → P → P) (negate : P → P) (all : List P) (e : K)
    (hLine : ∀ p q, ∃ c, fitLine p q = [c] ∧ startOf c = p ∧ endOf c = q)
    (hTry : ∀ (ps : List P) (s t : P), ps <:+: all → 3 ≤ ps.length →
      some (startOf (tryFit ps s t e).1) = ps.head? ∧ some (endOf (tryFit ps s t e).1) = ps.getLast?)
    (hSplit : ∀ (ps : List P) (s t : P), ps <:+: all → 3 ≤ ps.length → ¬ (tryFit ps s t e).2.1 ≤ e →
      1 ≤ (tryFit ps s t e).2.2 ∧ (tryFit ps s t e).2.2 + 1 < ps.length) :
    ∀ (fuel : Nat) (points : List P) (st et : P), points <:+: all → 2 ≤ points.length → points.length ≤ fuel →
      FitsChain startOf endOf points (fitCubic fitLine tryFit tangentBetween negate fuel points st et e)
  | 0, points, st, et, _, h2, hf => by omega
  | fuel + 1, points, st, et, hin, h2, hf => by
    unfold fitCubic
    split
    · -- two points: a line
      rename_i hle
      match points, h2, hle with
      | [a, b], _, _ =>
        obtain ⟨c, hc, hs, he⟩ := hLine a b
        have h0 : listGet [a, b] 0 = a := rfl
        have h1 : listGet [a, b] 1 = b := rfl
        rw [h0, h1, hc]
        exact ⟨by simp, by simp [hs], by simp [he], List.isChain_singleton _⟩
    · rename_i hgt
      have h3 : 3 ≤ points.length := by omega
      extract_lets r curve error split_pos center_tangent lhs rhs
      split
      · -- accepted
        obtain ⟨hs, he⟩ := hTry points st et hin h3
        exact ⟨by simp, by simpa using hs, by simpa using he, List.isChain_singleton _⟩
      · -- rejected: split
        rename_i hrej
        obtain ⟨hsp1, hsp2⟩ := hSplit points st et hin h3 hrej
        change 1 ≤ split_pos at hsp1
        change split_pos + 1 < points.length at hsp2
        have hl : (listSlice points 0 (split_pos + 1)).length = split_pos + 1 := by
          rw [listSlice_length _ _ _ (by omega)]; omega
        have hr : (listSlice points split_pos points.length).length = points.length - split_pos :=
          listSlice_length _ _ _ (Nat.le_refl _)
        have ihl := (fitsChain_iff _ _ _ _).1 (fitCubic_chain startOf endOf fitLine tryFit tangentBetween negate all e
          hLine hTry hSplit fuel (listSlice points 0 (split_pos + 1)) st center_tangent
          ((listSlice_infix _ _ _).trans hin) (by omega) (by omega))
        have ihr := (fitsChain_iff _ _ _ _).1 (fitCubic_chain startOf endOf fitLine tryFit tangentBetween negate all e
          hLine hTry hSplit fuel (listSlice points split_pos points.length) (negate center_tangent) et
          ((listSlice_infix _ _ _).trans hin) (by omega) (by omega))
        rw [listSlice_head? _ _ _ (by omega), listSlice_getLast? _ _ _ (by omega) (by omega)] at ihl
        rw [listSlice_head? _ _ _ (by omega), listSlice_getLast? _ _ _ (by omega) (Nat.le_refl _)] at ihr
        rw [Nat.add_sub_cancel] at ihl
        rw [fitsChain_iff, head?_eq_getElem?_zero, List.getLast?_eq_getElem?]
        exact ihl.append ihr

/-- with the fuel `points.length` of `fitCubicAuto` -/
theorem fitCubicAuto_chain (startOf endOf : C → P)
    (fitLine : P → P → List C) (tryFit : List P → P → P → K → (C × K × Nat))
    (tangentBetween : P → P → P → P) (negate : P → P) (all : List P) (e : K)
    (hLine : ∀ p q, ∃ c, fitLine p q = [c] ∧ startOf c = p ∧ endOf c = q)
    (hTry : ∀ (ps : List P) (s t : P), ps <:+: all → 3 ≤ ps.length →
      some (startOf (tryFit ps s t e).1) = ps.head? ∧ some (endOf (tryFit ps s t e).1) = ps.getLast?)
    (hSplit : ∀ (ps : List P) (s t : P), ps <:+: all → 3 ≤ ps.length → ¬ (tryFit ps s t e).2.1 ≤ e →
      1 ≤ (tryFit ps s t e).2.2 ∧ (tryFit ps s t e).2.2 + 1 < ps.length)
    (ps : List P) (s t : P) (hin : ps <:+: all) (h2 : 2 ≤ ps.length) :
    FitsChain startOf endOf ps (fitCubicAuto fitLine tryFit tangentBetween negate ps s t e) :=
  fitCubic_chain startOf endOf fitLine tryFit tangentBetween negate all e hLine hTry hSplit ps.length ps s t hin h2 (Nat.le_refl _)

/-- (4) and (5) together: the generated block loop around the model of the recursive fitter -/
theorem fit_curve_fitCubic_chain (startOf endOf : C → P)
    (fitLine : P → P → List C) (tryFit : List P → P → P → K → (C × K × Nat))
    (tangentBetween : P → P → P → P) (negate : P → P) (st et : List P → P) (points : List P) (e : K)
    (hLine : ∀ p q, ∃ c, fitLine p q = [c] ∧ startOf c = p ∧ endOf c = q)
    (hTry : ∀ (ps : List P) (s t : P), ps <:+: points → 3 ≤ ps.length →
      some (startOf (tryFit ps s t e).1) = ps.head? ∧ some (endOf (tryFit ps s t e).1) = ps.getLast?)
    (hSplit : ∀ (ps : List P) (s t : P), ps <:+: points → 3 ≤ ps.length → ¬ (tryFit ps s t e).2.1 ≤ e →
      1 ≤ (tryFit ps s t e).2.2 ∧ (tryFit ps s t e).2.2 + 1 < ps.length)
    (h : 2 ≤ points.length) :
    ∃ cs, fit_curve (fitCubicAuto fitLine tryFit tangentBetween negate) st et points e = some cs ∧
      FitsChain startOf endOf points cs :=
  fit_curve_chain startOf endOf _ st et points e
    (fun ps s t hin h2 => fitCubicAuto_chain startOf endOf fitLine tryFit tangentBetween negate points e hLine hTry hSplit ps s t hin h2) h

end cubic

/-- the generated `fit_line` meets the contract `hLine` with curves as 4-tuples of control points -/
theorem fit_line_contract {K P : Type} [OfScientific K] [Add P] [Sub P] [HMul P K P] (p q : P) :
    ∃ c, fit_line (K := K) p q = [c] ∧ c.t0 = p ∧ c.t3 = q :=
  ⟨_, rfl, rfl, rfl⟩

/-! #### non-vacuity: a toy instance of the skeleton that really splits -/

/-- curves are pairs of end points; the candidate is rejected while the slice has more than 3 points and is then split in the
    middle -/
def toyTry (ps : List Nat) (_ _ : Nat) (_ : Nat) : (Nat × Nat) × Nat × Nat :=
  ((ps.head?.getD 0, ps.getLast?.getD 0), (if ps.length ≤ 3 then 0 else 1), ps.length / 2)

def toyFit (ps : List Nat) : List (Nat × Nat) :=
  fitCubicAuto (fun p q => [(p, q)]) toyTry (fun _ b _ => b) id ps 0 0 0

example : toyFit [10, 11, 12, 13, 14, 15, 16] = [(10, 12), (12, 13), (13, 15), (15, 16)] := by decide
example : toyFit [10, 11] = [(10, 11)] := by decide
/-- fuel exhausted gives `[]` (never reached with fuel `≥ length`) -/
example : fitCubic (K := Nat) (fun p q => [(p, q)]) toyTry (fun _ b _ => b) id 1 [10, 11, 12, 13, 14] 0 0 0 = [] := by decide

example (ps : List Nat) (h : 2 ≤ ps.length) : FitsChain Prod.fst Prod.snd ps (toyFit ps) := by
  refine fitCubicAuto_chain Prod.fst Prod.snd _ toyTry _ _ ps 0 (fun _ _ => ⟨_, rfl, rfl, rfl⟩) ?_ ?_ ps 0 0 List.infix_rfl h
  · intro qs _ _ _ h3
    obtain ⟨a, b, ha, hb⟩ := exists_head?_getLast? qs (by intro h; simp [h] at h3)
    simp [toyTry, ha, hb]
  · intro qs _ _ _ h3 hrej
    simp only [toyTry] at hrej ⊢
    split at hrej
    · omega
    · omega

/-- the toy instance under the generated block loop: 450 points go through three overlapping blocks -/
example : ((fit_curve (K := Nat) (fun ps s t e => fitCubicAuto (fun p q => [(p, q)]) toyTry (fun _ b _ => b) id ps s t e)
      (fun _ => 0) (fun _ => 0) (List.range 450) 0).map (fun cs => (cs.length, cs.head?, cs.getLast?)))
    = some (288, some (0, 2), some (448, 449)) := by decide +kernel

/-! ### (6) Newton–Raphson leaves a chord alone where the curve already hits the sample, and stays in [0,1] -/

section newton
variable {K : Type} [Field K] [LinearOrder K] [IsStrictOrderedRing K] {P : Type} [Add P] [Sub P] [HMul P K P] [Dot P K]

/- `==` on `K` is the decidable equality of the order (lawful); in exact arithmetic `f64::min` / `f64::max` are `min` / `max` -/

theorem fmin_eq_min (a b : K) : fmin a b = min a b := by
  simp only [fmin, beq_self_eq_true, if_true]
  rcases lt_or_ge b a with h | h
  · rw [if_pos h, min_eq_right (le_of_lt h)]
  · rw [if_neg (not_lt.2 h), min_eq_left h]

theorem fmax_eq_max (a b : K) : fmax a b = max a b := by
  simp only [fmax, beq_self_eq_true, if_true]
  rcases lt_or_ge a b with h | h
  · rw [if_pos h, max_eq_right (le_of_lt h)]
  · rw [if_neg (not_lt.2 h), max_eq_left h]

theorem lit0 : (0.0 : K) = 0 := by norm_num
theorem lit1 : (1.0 : K) = 1 := by norm_num

/-- if the curve point at the estimate IS the sample point and the estimate is in [0,1], `newton_raphson_root_find` returns the
    estimate unchanged, in either branch (`denominator == 0.0` or not): the numerator is `(Q(u) − point)·Q'(u) = 0`, and the
    clamp to [0,1] is the identity.  For any point type whose dot product vanishes on a zero difference. -/
theorem newton_fixed_at_hit (hdot : ∀ p x : P, (dot (p - p) x : K) = 0)
    (w1 w2 w3 w4 point : P) (u : K) (hu : 0 ≤ u ∧ u ≤ 1) (hit : curve_point_at_pos w1 w2 w3 w4 u = point) :
    newton_raphson_root_find w1 w2 w3 w4 point u = u := by
  unfold newton_raphson_root_find
  extract_lets start end_ tup cp1 cp2 qt qn1 qn2 qn3 qnn1 qnn2 qnt qnnt numerator denominator
  have hq : qt = point := hit
  have hnum : numerator = 0 := by
    show dot (qt - point) qnt = 0
    rw [hq]; exact hdot _ _
  split
  · rfl
  · rw [hnum, zero_div, sub_zero, fmax_eq_max, fmin_eq_min, lit0, lit1, max_eq_left hu.1, min_eq_left hu.2]

/-- the result is either the estimate itself (the `denominator == 0.0` branch) or lies in [0,1] (the branch that divides):
    for every curve, sample point and estimate, and any point type -/
theorem newton_same_or_in_unit (w1 w2 w3 w4 point : P) (u : K) :
    newton_raphson_root_find w1 w2 w3 w4 point u = u ∨
    (0 ≤ newton_raphson_root_find w1 w2 w3 w4 point u ∧ newton_raphson_root_find w1 w2 w3 w4 point u ≤ 1) := by
  unfold newton_raphson_root_find
  extract_lets start end_ tup cp1 cp2 qt qn1 qn2 qn3 qnn1 qnn2 qnt qnnt numerator denominator
  split
  · exact Or.inl rfl
  · right
    rw [fmax_eq_max, fmin_eq_min, lit0, lit1]
    exact ⟨le_min (le_max_right _ _) zero_le_one, min_le_right _ _⟩

/-- THE RE-PARAMETERISED CHORD STAYS ON THE CURVE: for every estimate in [0,1] the returned parameter is in [0,1] -/
theorem newton_in_unit (w1 w2 w3 w4 point : P) (u : K) (hu : 0 ≤ u ∧ u ≤ 1) :
    0 ≤ newton_raphson_root_find w1 w2 w3 w4 point u ∧ newton_raphson_root_find w1 w2 w3 w4 point u ≤ 1 := by
  rcases newton_same_or_in_unit w1 w2 w3 w4 point u with h | h
  · rw [h]; exact hu
  · exact h

/-- 1-D points: `impl Coordinate for f64`, whose dot product is the product -/
local instance dot1d : Dot K K := ⟨fun a b => a * b⟩

theorem newton_fixed_at_hit_1d (w1 w2 w3 w4 point u : K) (hu : 0 ≤ u ∧ u ≤ 1)
    (hit : curve_point_at_pos w1 w2 w3 w4 u = point) :
    newton_raphson_root_find w1 w2 w3 w4 point u = u :=
  newton_fixed_at_hit (fun p x => by show (p - p) * x = 0; rw [sub_self, zero_mul]) w1 w2 w3 w4 point u hu hit

/-- 2-D points (`Coord2`, with the dot product of `Prelude`, whose loop starts from `0.0`) -/
theorem newton_fixed_at_hit_2d (w1 w2 w3 w4 point : V2 K) (u : K) (hu : 0 ≤ u ∧ u ≤ 1)
    (hit : curve_point_at_pos w1 w2 w3 w4 u = point) : newton_raphson_root_find w1 w2 w3 w4 point u = u := by
  refine newton_fixed_at_hit (fun p x => ?_) w1 w2 w3 w4 point u hu hit
  show ((0.0 : K) + (p.x - p.x) * x.x) + (p.y - p.y) * x.y = 0
  norm_num

/-- 3-D points (`Coord3`) -/
theorem newton_fixed_at_hit_3d (w1 w2 w3 w4 point : V3 K) (u : K) (hu : 0 ≤ u ∧ u ≤ 1)
    (hit : curve_point_at_pos w1 w2 w3 w4 u = point) : newton_raphson_root_find w1 w2 w3 w4 point u = u := by
  refine newton_fixed_at_hit (fun p x => ?_) w1 w2 w3 w4 point u hu hit
  show (((0.0 : K) + (p.x - p.x) * x.x) + (p.y - p.y) * x.y) + (p.z - p.z) * x.z = 0
  norm_num

/-- the two chords that chord-length parameterisation pins (`0.0` at the first point, `1.0` at the last) are hits for every
    curve from the first to the last point (what `generate_bezier` returns), so re-parameterisation never moves them and
    their error stays 0: the split position, which needs a positive error, is neither the first nor the last index -/
theorem newton_fixed_at_ends_1d (w1 w2 w3 w4 : K) :
    newton_raphson_root_find w1 w2 w3 w4 w1 (0.0 : K) = 0.0 ∧ newton_raphson_root_find w1 w2 w3 w4 w4 (1.0 : K) = 1.0 := by
  constructor
  · apply newton_fixed_at_hit_1d _ _ _ _ _ _ (by norm_num)
    simp only [curve_point_at_pos, basis]; norm_num
  · apply newton_fixed_at_hit_1d _ _ _ _ _ _ (by norm_num)
    simp only [curve_point_at_pos, basis]; norm_num

theorem V2_add_x (a b : V2 K) : (a + b).x = a.x + b.x := rfl
theorem V2_add_y (a b : V2 K) : (a + b).y = a.y + b.y := rfl
theorem V2_mul_x (a : V2 K) (k : K) : (a * k).x = a.x * k := rfl
theorem V2_mul_y (a : V2 K) (k : K) : (a * k).y = a.y * k := rfl
theorem V2_ext (a b : V2 K) (hx : a.x = b.x) (hy : a.y = b.y) : a = b := by
  cases a; cases b; simp_all

/-- the same for 2-D points -/
theorem newton_fixed_at_ends_2d (w1 w2 w3 w4 : V2 K) :
    newton_raphson_root_find w1 w2 w3 w4 w1 (0.0 : K) = 0.0 ∧ newton_raphson_root_find w1 w2 w3 w4 w4 (1.0 : K) = 1.0 := by
  constructor
  · apply newton_fixed_at_hit_2d _ _ _ _ _ _ (by norm_num)
    apply V2_ext <;> simp only [curve_point_at_pos, basis, V2_add_x, V2_add_y, V2_mul_x, V2_mul_y] <;> norm_num
  · apply newton_fixed_at_hit_2d _ _ _ _ _ _ (by norm_num)
    apply V2_ext <;> simp only [curve_point_at_pos, basis, V2_add_x, V2_add_y, V2_mul_x, V2_mul_y] <;> norm_num

end newton

end C08
