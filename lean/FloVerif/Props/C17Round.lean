/-
C17 (rounding part)  `SampledContour::rounded_intercepts_on_line` turns the fractional intercepts of a scanline into
exactly the maximal runs of inside samples - the fourth mechanism of the property (sampled_contour.rs:81-101
`rounded_intercepts_on_line`, :117-131 `merge_overlapping_intercepts`) - and with it the scan and trace theorems hold for
ANY contour given by intercepts (`ScaledContour`, path contours, user implementations of the public trait), not only
for bitmaps.  Also: the index `point_is_inside` computes for the two bitmap types is the row-major index.

Property theorems only; helper lemmas are in `Lemmas/Round.lean`.
  `roundFrac`, `ceilRuns`, `ceilUsize`, `mergeRuns`  literal hand models (`Model/Contour.lean`), compared with the real
      `rounded_intercepts_on_line` on fractional inputs (touching, empty, negative, outside the contract) by the driver
  `covers l x`      sample `x` is inside: `start ≤ x < end` for one of the ranges (`contour_point_is_inside`)
  `sampleRow w l`   the row of `w` samples the intercepts stand for
  `Ascending l`     the documented contract of `intercepts_on_line`: s₀ ≤ e₀ ≤ s₁ ≤ e₁ ≤ …  (any length)
  `inR runs x`      sample `x` lies in one of the integer runs `[start, end)`
  `Good w 0 runs`   runs non-empty, inside `[0, w]`, each starting strictly after the end of the one before
  `Gen.u8_point_index`, `Gen.bool_point_index`  regenerated from `point_is_inside` on every check
Intercepts are exact rationals (every finite binary64 number is one; `ceil` and `as usize` are exact below 2^64).
-/
import FloVerif.Lemmas.Round
import FloVerif.Props.C17
import FloVerif.Props.C17All

namespace C17Round
open Prelude Gen Model.Contour ScanLemmas RoundLemmas

/-- (a) ROUNDING IS SAMPLING: an integer sample position lies in the rounded range `[⌈s⌉, ⌈e⌉)` exactly when it lies
    in the real range `[s, e)`.  Holds for negative bounds too, because `as usize` saturates at 0 and sample positions
    are never negative. -/
theorem ceil_is_sampling (s e : Rat) (x : Nat) :
    (ceilUsize s ≤ x ∧ x < ceilUsize e) ↔ (s ≤ (x : Rat) ∧ (x : Rat) < e) := by
  rw [ceilUsize_le, lt_ceilUsize]

example : ceilUsize (17 / 10) = 2 ∧ ceilUsize (26 / 10) = 3 ∧ ceilUsize (-1 / 2) = 0 ∧ ceilUsize 4 = 4 := by decide +kernel

/-- (b) ROUNDING KEEPS THE ORDER: for intercepts that respect the contract, the rounded ranges (empty ones dropped) are
    non-empty and still ascending with `eᵢ ≤ sᵢ₊₁`; in particular a later range never starts or ends before the end of
    an earlier one - the fact that makes the assignment `intercepts[idx].end = intercepts[idx+1].end` in
    `merge_overlapping_intercepts` correct. They may now TOUCH (`eᵢ = sᵢ₊₁`), which is why merging is needed. -/
theorem ceilRuns_ascending (l : List FRange) (h : Ascending l) :
    AscN (ceilRuns l) ∧ (∀ r ∈ ceilRuns l, r.1 < r.2) ∧ (ceilRuns l).Pairwise (fun a b => a.2 ≤ b.1 ∧ a.2 ≤ b.2) := by
  have h1 := (ceilRuns_ascN h).1
  refine ⟨h1, ?_, h1.pairwise⟩
  intro r hr
  obtain ⟨hne, q, hq, rfl⟩ := mem_ceilRuns hr
  have hq12 : q.1 ≤ q.2 := by
    clear hne hr h1
    induction l with
    | nil => cases hq
    | cons a rest ih =>
      rcases List.mem_cons.1 hq with rfl | hq
      · exact Ascending.head h
      · exact ih (Ascending.tail h) hq
  have := ceilUsize_mono hq12
  simp only at hne ⊢; omega

/-- non-vacuity: two ranges inside neighbouring pixel gaps round to touching runs; a range inside one gap disappears -/
example : Ascending [(0, 3/2), (17/10, 26/10), (27/10, 29/10), (4, 5)] ∧
    ceilRuns [(0, 3/2), (17/10, 26/10), (27/10, 29/10), (4, 5)] = [(0, 2), (2, 3), (4, 5)] := by decide +kernel

/-- (b') THE CONTRACT IS NEEDED (documented-precondition finding): on nested ranges - sorted by start, none empty, but
    the second ends before the first - `merge_overlapping_intercepts` overwrites the longer end with the shorter one and
    samples are LOST: `[0,10)` and `[2,3)` become `[0,3)`, so sample 5 is inside the contour according to
    `contour_point_is_inside` but outside according to the scan. -/
theorem mergeRuns_nested_loses_coverage :
    ∃ (l : List Run) (x : Nat), l.Pairwise (fun a b => a.1 ≤ b.1) ∧ (∀ r ∈ l, r.1 < r.2) ∧
      inR l x = true ∧ inR (mergeRuns l) x = false :=
  ⟨[(0, 10), (2, 3)], 5, by decide, by decide, by decide, by decide +kernel⟩

/-- the same at the level of the intercepts handed to `rounded_intercepts_on_line` -/
theorem roundFrac_nested_loses_coverage :
    ∃ (l : List FRange) (x : Nat), covers l x = true ∧ inR (roundFrac l) x = false :=
  ⟨[(0, 10), (2, 3)], 5, by decide +kernel, by decide +kernel⟩

/-- (c) MERGING PRESERVES THE SAMPLE SET: a sample is covered by `merge_overlapping_intercepts(l)` iff it is covered by
    `l`, for every list whose starts and ends are both non-decreasing and whose runs are not inverted (`Stair`: touching
    and even overlapping runs are fine, nested ones are not - see (b')). -/
theorem mergeRuns_preserves_samples (l : List Run) (h : Stair l) (x : Nat) : inR (mergeRuns l) x = inR l x :=
  mergeRuns_inR l.length l (Nat.le_refl _) h x

example : Stair [(0, 2), (2, 3), (3, 6), (5, 8), (9, 9)] ∧
    mergeRuns [(0, 2), (2, 3), (3, 6), (5, 8), (9, 9)] = [(0, 8), (9, 9)] := by decide +kernel

/-- (c') the whole rounding stage preserves the sample set: for intercepts that respect the contract, sample `x` lies in
    one of the runs returned by `rounded_intercepts_on_line` iff it lies in one of the real ranges -/
theorem roundFrac_samples (l : List FRange) (h : Ascending l) (x : Nat) : inR (roundFrac l) x = covers l x :=
  inR_roundFrac h x

/-- (d) the result is well formed for the scan: non-empty runs inside `[0, w]` (when no intercept ends beyond the
    contour's width), each starting STRICTLY after the end of the one before (no touching pair is left) -/
theorem roundFrac_good (l : List FRange) (h : Ascending l) (w : Nat) (hw : ∀ q ∈ l, q.2 ≤ (w : Rat)) :
    Good w 0 (roundFrac l) ∧ C17.Separated (roundFrac l) := by
  refine ⟨RoundLemmas.roundFrac_good h hw, ?_⟩
  rw [roundFrac_eq_merge]
  refine (C17.mergeRuns_separated _ _ (Nat.le_refl _) ?_).1
  exact (ceilRuns_ascending l h).2.2.imp_of_mem (fun {a b} _ hb hab => by
    have := (ceilRuns_ascending l h).2.1 b hb
    have := (ceilRuns_ascending l h).2.1 a ‹_›
    omega)

/-- (d') hence `rounded_intercepts_on_line` returns exactly the maximal runs of inside samples of the line: it equals
    the run-length encoding (`rowRuns`, the model of `BoolSampledContour::intercepts_on_line`) of the sampled row, and
    what the bitmap contour would have been rounded to -/
theorem roundFrac_eq_rle (l : List FRange) (h : Ascending l) (w : Nat) (hw : ∀ q ∈ l, q.2 ≤ (w : Rat)) :
    roundFrac l = rowRuns (sampleRow w l) ∧ roundFrac l = roundedRuns (sampleRow w l) := by
  have := roundFrac_eq_roundedRuns h hw
  exact ⟨by rw [this, roundedRuns_eq], this⟩

/-- non-vacuity: the row of the seeded-change demonstration, `###.#..#.` -/
example : roundFrac [(0, 3/2), (17/10, 26/10), (4, 5), (7, 8)] = [(0, 3), (4, 5), (7, 8)] ∧
    sampleRow 9 [(0, 3/2), (17/10, 26/10), (4, 5), (7, 8)] = [true, true, true, false, true, false, false, true, false] ∧
    rowRuns [true, true, true, false, true, false, false, true, false] = [(0, 3), (4, 5), (7, 8)] := by decide +kernel

/-- (e) THE SCAN THEOREM FOR ANY CONTOUR GIVEN BY INTERCEPTS: if every line's intercepts respect the contract and end
    inside the contour's width, the iterator model run on the rounded intercepts yields exactly the mixed 2×2 cells of
    the SAMPLED bitmap (sample (x, y) inside iff `start ≤ x < end` for a range of line y), with the correct corner bits,
    in scanline order.  Follows from (d') by rewriting `C17Scan.scan_spec`. -/
theorem frac_scan_spec (w : Nat) (lines : List (List FRange)) (hasc : ∀ l ∈ lines, Ascending l)
    (hw : ∀ l ∈ lines, ∀ q ∈ l, q.2 ≤ (w : Rat)) :
    edgeCellsFrac w lines = mixedCells w (lines.map (sampleRow w)) := by
  have hmap : lines.map roundFrac = (lines.map (sampleRow w)).map roundedRuns := by
    rw [List.map_map]
    exact List.map_congr_left (fun l hl => (roundFrac_eq_rle l (hasc l hl) w (hw l hl)).2)
  have : edgeCellsFrac w lines = edgeCells w (lines.map (sampleRow w)) := by
    unfold edgeCellsFrac edgeCells; rw [hmap]
  rw [this]
  exact C17Scan.scan_spec w _ (fun r hr => by
    obtain ⟨l, _, rfl⟩ := List.mem_map.1 hr
    exact length_sampleRow w l)

/-- (f) END TO END for any contour given by intercepts: the model of `trace_contours_from_samples` does not panic and
    returns closed loops (first element repeated last) of edges joined inside one mixed cell that together use every
    edge between an inside and an outside sample of the sampled bitmap exactly once -/
theorem frac_trace_contours_spec (w : Nat) (lines : List (List FRange)) (hasc : ∀ l ∈ lines, Ascending l)
    (hw : ∀ l ∈ lines, ∀ q ∈ l, q.2 ≤ (w : Rat)) :
    ∃ loops, traceContoursFrac w lines = some loops ∧
      (∀ l ∈ loops, 2 ≤ l.length ∧ l.head? = l.getLast? ∧
        l.IsChain (C17Trace.Joined w (mixedCells w (lines.map (sampleRow w))))) ∧
      (loops.flatMap (·.dropLast)).Perm (boundaryEdges w (lines.map (sampleRow w))) := by
  have hmap : lines.map roundFrac = (lines.map (sampleRow w)).map roundedRuns := by
    rw [List.map_map]
    exact List.map_congr_left (fun l hl => (roundFrac_eq_rle l (hasc l hl) w (hw l hl)).2)
  have : traceContoursFrac w lines = traceContours w (lines.map (sampleRow w)) := by
    unfold traceContoursFrac traceContours edgeCellsFrac edgeCells; rw [hmap]
  rw [this]
  exact C17All.trace_contours_spec w _ (fun r hr => by
    obtain ⟨l, _, rfl⟩ := List.mem_map.1 hr
    exact length_sampleRow w l)

/-- non-vacuity: the striped bitmap scaled by one half (`ScaledContour`): four touching half-pixel ranges are one block -/
example : edgeCellsFrac 4 [[(0, 1/2), (1, 3/2), (2, 5/2), (3, 7/2)]] = mixedCells 4 [[true, true, true, true]] ∧
    traceContoursFrac 4 [[(0, 1/2), (1, 3/2), (2, 5/2), (3, 7/2)]] = some [[11, 2, 4, 6, 8, 19, 18, 16, 14, 12, 11]] := by
  decide +kernel

/-! the flat sample vector of `BoolSampledContour` / `U8SampledContour` -/

/-- the index that `U8SampledContour::point_is_inside` and `BoolSampledContour::point_is_inside` compute (regenerated
    from the source on every check) is the row-major index `x + y * width`; for a position inside the contour it is a
    valid index of a vector of `width * height` samples, and distinct positions have distinct indices -/
theorem u8_index_row_major (w h x y : Nat) :
    u8_point_index w h x y = x + y * w ∧ bool_point_index w h x y = x + y * w ∧
    (x < w → y < h → u8_point_index w h x y < w * h) ∧
    (∀ x' y', x < w → x' < w → u8_point_index w h x y = u8_point_index w h x' y' → x = x' ∧ y = y') := by
  refine ⟨rfl, rfl, ?_, ?_⟩
  · intro hx hy
    show x + y * w < w * h
    calc x + y * w < w + y * w := by omega
      _ = (y + 1) * w := by ring
      _ ≤ h * w := Nat.mul_le_mul_right _ hy
      _ = w * h := Nat.mul_comm _ _
  · intro x' y' hx hx' he
    change x + y * w = x' + y' * w at he
    have h1 := index_div_mod (y := y) hx
    have h2 := index_div_mod (y := y') hx'
    rw [he] at h1
    exact ⟨by rw [← h1.2, h2.2], by rw [← h1.1, h2.1]⟩

example : u8_point_index 5 3 4 2 = 14 ∧ u8_point_index 5 3 0 1 = 5 := by decide

/-- so the rows that `intercepts_on_line` reads out of the sample vector of a u8 / bool contour are the rows of the
    row-major bitmap (`h` rows of `w` samples, sample (x, y) = `v[x + y*w] != 0` resp. `v[x + y*w]`), and `scan_spec`
    holds for them: the cells reported for a `U8SampledContour` / `BoolSampledContour` of ANY size, square or
    not, are the mixed cells of that bitmap -/
theorem bitmap_rows_spec (w h : Nat) (v : List Nat) (b : List Bool) :
    (u8Rows w h v).length = h ∧ (boolRows w h b).length = h ∧
    (∀ x y, x < w → y < h → ((u8Rows w h v).getD y []).getD x false = (v.getD (x + y * w) 0 != 0) ∧
                            ((boolRows w h b).getD y []).getD x false = b.getD (x + y * w) false) ∧
    edgeCells w (u8Rows w h v) = mixedCells w (u8Rows w h v) ∧
    edgeCells w (boolRows w h b) = mixedCells w (boolRows w h b) := by
  refine ⟨by simp [u8Rows], by simp [boolRows], ?_, ?_, ?_⟩
  · intro x y hx hy
    unfold u8Rows boolRows
    rw [getD_range_map _ _ _ hy, getD_range_map _ _ _ hy, getD_range_map _ _ _ hx, getD_range_map _ _ _ hx]
    exact ⟨rfl, rfl⟩
  · exact C17Scan.scan_spec w _ (fun r hr => by
      obtain ⟨y, _, rfl⟩ := List.mem_map.1 hr
      simp)
  · exact C17Scan.scan_spec w _ (fun r hr => by
      obtain ⟨y, _, rfl⟩ := List.mem_map.1 hr
      simp)

/-- non-vacuity: the 5×3 bitmap of the seeded-change demonstration (a bar at the top left, one pixel at the bottom right) -/
example : u8Rows 5 3 [1, 1, 0, 0, 0, 0, 0, 0, 0, 0, 0, 0, 0, 0, 255] =
    [[true, true, false, false, false], [false, false, false, false, false], [false, false, false, false, true]] := by
  decide

end C17Round
