/-
C08 (termination and the chain, for the generated body)  `fit_curve_cubic` terminates and returns a connected chain.

`Gen.fit_curve_cubic_body` is the whole body of `fit_curve_cubic`, regenerated from fit.rs on every check, with its two calls to
itself as the parameter `recurse`.  `cubicKnot` ties that knot with a depth: depth 0 returns nothing, depth `n+1` is the body
whose self-calls have depth `n`.  The theorems show that depth `points.length` is never used up - every self-call is on a strictly
shorter slice with at least two points - so the Rust recursion terminates, never indexes `points[split_pos-1]` /
`points[split_pos+1]` out of range, and what it returns is a connected chain from the first to the last point.

The hypothesis "a rejected candidate is split at an interior sample" is discharged for the generated `max_error_for_curve`
(`Gen.max_error_pick` over `Gen.fit_point_error`) by `C08Error.split_interior`: it is what the code gives whenever the candidate
passes through the first and the last sample at their parameters (`generate_bezier` builds `from_points(points[0], …, last)`, chords
`0` and `1` are kept by `newton_raphson_root_find`: `C08.newton_fixed_at_ends_*`).
-/
import FloVerif.Props.C08Cubic
import FloVerif.Props.C08

set_option linter.unusedSectionVars false
namespace C08Term
open Prelude Gen C08 C08Cubic

variable {K P C : Type} [Field K] [LinearOrder K] [IsStrictOrderedRing K] [Inhabited K]
  [Inhabited P] [Add P] [Sub P] [HMul P K P] [Dot P K] [FSqrt K]

/-- `fit_curve_cubic` = its generated body, the two self-calls tied with a depth -/
def cubicKnot (cfp : List P → List K) (gb : List P → List K → P → P → C)
    (rp : List P → List K → C → List K) (mefc : List P → List K → C → T2 K Nat) (tb : P → P → P → P) (neg : P → P)
    (fl : P → P → List C) : Nat → List P → P → P → K → List C
  | 0 => fun _ _ _ _ => []
  | n + 1 => fun points st et e => fit_curve_cubic_body (cubicKnot cfp gb rp mefc tb neg fl n) cfp gb rp mefc tb neg fl points st et e

theorem clampTol_nonneg (e : K) : 0 ≤ clampTol e := by
  unfold clampTol; split
  · exact le_refl 0
  · rename_i h; exact not_lt.1 h

theorem clampTol_idem (e : K) : clampTol (clampTol e) = clampTol e := by
  have h := clampTol_nonneg e
  generalize clampTol e = c at h ⊢
  unfold clampTol
  rw [if_neg (not_lt.2 h)]

/-- THE GENERATED RECURSION TERMINATES WITH A CONNECTED CHAIN: for the points `all` and every contiguous slice of them with at
    least two points, depth `≥` the number of points is never exhausted and `fit_curve_cubic` returns a non-empty chain of curves,
    the first starting at the first point, the last ending at the last point, each starting where the previous one ends - for every
    tolerance (negative ones are clamped to 0: repair F18), every tangents, and any least-squares kernel, provided

    * `fit_line p q` is one curve from `p` to `q` (`C08.fit_line_contract`),
    * `generate_bezier` returns a curve from the first to the last point of its slice,
    * a candidate whose reported error is not `≤` the clamped tolerance is split at an interior sample
      (`C08Error.split_interior` for the generated `max_error_for_curve`). -/
theorem cubicKnot_chain (startOf endOf : C → P)
    (cfp : List P → List K) (gb : List P → List K → P → P → C)
    (rp : List P → List K → C → List K) (mefc : List P → List K → C → T2 K Nat) (tb : P → P → P → P) (neg : P → P)
    (fl : P → P → List C) (all : List P) (tol : K)
    (hLine : ∀ p q, ∃ c, fl p q = [c] ∧ startOf c = p ∧ endOf c = q)
    (hgb : ∀ (ps : List P) (chords : List K) (s t : P), ps <:+: all → 3 ≤ ps.length →
      some (startOf (gb ps chords s t)) = ps.head? ∧ some (endOf (gb ps chords s t)) = ps.getLast?)
    (hSplit : ∀ (ps : List P) (chords : List K) (s t : P), ps <:+: all → 3 ≤ ps.length →
      ¬ (mefc ps chords (gb ps chords s t)).t0 ≤ tol →
      1 ≤ (mefc ps chords (gb ps chords s t)).t1 ∧ (mefc ps chords (gb ps chords s t)).t1 + 1 < ps.length) :
    ∀ (fuel : Nat) (points : List P) (st et : P) (e : K), clampTol e = tol → points <:+: all → 2 ≤ points.length →
      points.length ≤ fuel →
      FitsChain startOf endOf points (cubicKnot cfp gb rp mefc tb neg fl fuel points st et e)
  | 0, points, st, et, e, _, _, h2, hf => by omega
  | fuel + 1, points, st, et, e, he, hin, h2, hf => by
    have hcases := cubic_body_cases (cubicKnot cfp gb rp mefc tb neg fl fuel) cfp gb rp mefc tb neg fl points st et e
    simp only at hcases
    rw [he] at hcases
    show FitsChain startOf endOf points
      (fit_curve_cubic_body (cubicKnot cfp gb rp mefc tb neg fl fuel) cfp gb rp mefc tb neg fl points st et e)
    rcases hcases with ⟨hle, hr⟩ | ⟨h3, chords, hr, _⟩ | ⟨h3, chords, ct, hrej, _, hr⟩
    · -- two points: a line
      rw [hr]
      match points, h2, hle with
      | [a, b], _, _ =>
        obtain ⟨c, hc, hs, he'⟩ := hLine a b
        have h0 : listGet [a, b] 0 = a := rfl
        have h1 : listGet [a, b] 1 = b := rfl
        rw [h0, h1, hc]
        exact ⟨by simp, by simp [hs], by simp [he'], List.isChain_singleton _⟩
    · -- one curve
      rw [hr]
      obtain ⟨hs, he'⟩ := hgb points chords st et hin (by omega)
      exact ⟨by simp, by simpa using hs, by simpa using he', List.isChain_singleton _⟩
    · -- split
      rw [hr]
      obtain ⟨hsp1, hsp2⟩ := hSplit points chords st et hin (by omega) hrej
      generalize (mefc points chords (gb points chords st et)).t1 = sp at hsp1 hsp2 hr ⊢
      have htol : clampTol tol = tol := by rw [← he, clampTol_idem]
      have hl : (listSlice points 0 (sp + 1)).length = sp + 1 := by
        rw [listSlice_length _ _ _ (by omega)]; omega
      have hrl : (listSlice points sp points.length).length = points.length - sp :=
        listSlice_length _ _ _ (Nat.le_refl _)
      have ihl := (fitsChain_iff _ _ _ _).1 (cubicKnot_chain startOf endOf cfp gb rp mefc tb neg fl all tol hLine hgb hSplit
        fuel (listSlice points 0 (sp + 1)) st ct tol htol ((listSlice_infix _ _ _).trans hin) (by omega) (by omega))
      have ihr := (fitsChain_iff _ _ _ _).1 (cubicKnot_chain startOf endOf cfp gb rp mefc tb neg fl all tol hLine hgb hSplit
        fuel (listSlice points sp points.length) (ct * (-(1.0 : K))) et tol htol ((listSlice_infix _ _ _).trans hin) (by omega) (by omega))
      rw [listSlice_head? _ _ _ (by omega), listSlice_getLast? _ _ _ (by omega) (by omega)] at ihl
      rw [listSlice_head? _ _ _ (by omega), listSlice_getLast? _ _ _ (by omega) (Nat.le_refl _)] at ihr
      rw [Nat.add_sub_cancel] at ihl
      rw [fitsChain_iff, head?_eq_getElem?_zero, List.getLast?_eq_getElem?]
      exact ihl.append ihr

/-- MORE DEPTH NEVER CHANGES THE ANSWER (so the Rust function, which has no depth, computes `cubicKnot` at depth `points.length`):
    under the hypotheses of `cubicKnot_chain` every depth `≥ points.length` gives the same list of curves -/
theorem cubicKnot_stable
    (cfp : List P → List K) (gb : List P → List K → P → P → C)
    (rp : List P → List K → C → List K) (mefc : List P → List K → C → T2 K Nat) (tb : P → P → P → P) (neg : P → P)
    (fl : P → P → List C) (all : List P) (tol : K)
    (hSplit : ∀ (ps : List P) (chords : List K) (s t : P), ps <:+: all → 3 ≤ ps.length →
      ¬ (mefc ps chords (gb ps chords s t)).t0 ≤ tol →
      1 ≤ (mefc ps chords (gb ps chords s t)).t1 ∧ (mefc ps chords (gb ps chords s t)).t1 + 1 < ps.length) :
    ∀ (fuel fuel' : Nat) (points : List P) (st et : P) (e : K), clampTol e = tol → points <:+: all → 2 ≤ points.length →
      points.length ≤ fuel → points.length ≤ fuel' →
      cubicKnot cfp gb rp mefc tb neg fl fuel points st et e = cubicKnot cfp gb rp mefc tb neg fl fuel' points st et e
  | 0, _, points, _, _, _, _, _, h2, hf, _ => by omega
  | _ + 1, 0, points, _, _, _, _, _, h2, _, hf => by omega
  | fuel + 1, fuel' + 1, points, st, et, e, he, hin, h2, hf, hf' => by
    show fit_curve_cubic_body (cubicKnot cfp gb rp mefc tb neg fl fuel) cfp gb rp mefc tb neg fl points st et e =
      fit_curve_cubic_body (cubicKnot cfp gb rp mefc tb neg fl fuel') cfp gb rp mefc tb neg fl points st et e
    rw [body_eq, body_eq, he]
    by_cases hlen : points.length ≤ 2
    · simp only [hlen, if_true]
    · simp only [hlen, if_false]
      -- the body consults its self-calls only on the two slices, where both depths agree
      obtain ⟨i1, i2, i3⟩ := bodyState_inv cfp gb rp mefc points st et tol
      generalize bodyState cfp gb rp mefc points st et tol = s at i1 i2 i3
      unfold bodyFinish
      by_cases hacc : s.t2 ≤ tol
      · simp only [hacc, decide_true, if_true]
      · simp only [hacc, decide_false, Bool.false_eq_true, if_false]
        have hrej : ¬ (mefc points s.t0 (gb points s.t0 st et)).t0 ≤ tol := by rw [← i1, ← i2]; exact hacc
        obtain ⟨hsp1, hsp2⟩ := hSplit points s.t0 st et hin (by omega) hrej
        rw [← i1, ← i3] at hsp1 hsp2
        have htol : clampTol tol = tol := by rw [← he, clampTol_idem]
        have hl : (listSlice points 0 (s.t3 + 1)).length = s.t3 + 1 := by
          rw [listSlice_length _ _ _ (by omega)]; omega
        have hrl : (listSlice points s.t3 points.length).length = points.length - s.t3 :=
          listSlice_length _ _ _ (Nat.le_refl _)
        rw [cubicKnot_stable cfp gb rp mefc tb neg fl all tol hSplit fuel fuel' (listSlice points 0 (s.t3 + 1)) _ _ tol htol
            ((listSlice_infix _ _ _).trans hin) (by omega) (by omega) (by omega),
          cubicKnot_stable cfp gb rp mefc tb neg fl all tol hSplit fuel fuel' (listSlice points s.t3 points.length) _ _ tol htol
            ((listSlice_infix _ _ _).trans hin) (by omega) (by omega) (by omega)]

/-- the hypothesis `hSplit` FOR THE GENERATED `max_error_for_curve` (curves as their four control points): if the squared error of the
    first and of the last sample is `≤ 0` - the candidate passes through them at their parameters - then a candidate that is not
    within the tolerance `tol ≥ 0` is split at an index `i` with `1 ≤ i` and `i + 1 < points.length` -/
theorem generated_split_interior (points : List P) (chords : List K) (c : T4 P P P P) (tol : K) (htol : 0 ≤ tol)
    (hs0 : (fsqrt (0 : K) : K) ≤ 0)
    (hfirst : ∀ s, (points.zip chords).head? = some s → (fit_point_error c.t0 c.t1 c.t2 c.t3 s.1 s.2 : K) ≤ 0)
    (hlast : ∀ s, (points.zip chords).getLast? = some s → (fit_point_error c.t0 c.t1 c.t2 c.t3 s.1 s.2 : K) ≤ 0)
    (hrej : ¬ (max_error_pick ((points.zip chords).map (fun s => fit_point_error c.t0 c.t1 c.t2 c.t3 s.1 s.2))).t0 ≤ tol) :
    1 ≤ (max_error_pick ((points.zip chords).map (fun s => (fit_point_error c.t0 c.t1 c.t2 c.t3 s.1 s.2 : K)))).t1 ∧
    (max_error_pick ((points.zip chords).map (fun s => (fit_point_error c.t0 c.t1 c.t2 c.t3 s.1 s.2 : K)))).t1 + 1 < points.length := by
  have hlen : ((points.zip chords).map (fun s => (fit_point_error c.t0 c.t1 c.t2 c.t3 s.1 s.2 : K))).length ≤ points.length := by
    simp only [List.length_map, List.length_zip]; exact Nat.min_le_left _ _
  have h := C08Error.split_interior ((points.zip chords).map (fun s => (fit_point_error c.t0 c.t1 c.t2 c.t3 s.1 s.2 : K))) tol htol hs0
    (fun h0 => by
      simp only [List.length_map] at h0
      rw [List.getElem_map]
      exact hfirst _ (by rw [List.head?_eq_getElem?, List.getElem?_eq_getElem h0]))
    (fun h0 => by
      simp only [List.length_map] at h0
      rw [List.getElem_map]
      exact hlast _ (by rw [List.getLast?_eq_getElem?, List.getElem?_eq_getElem (by omega)]; simp))
    hrej
  exact ⟨h.1, lt_of_lt_of_le h.2 hlen⟩

/-- the squared error of a sample that the curve hits at the sample's parameter is 0 (for any point type in which `dot (p - p) x = 0`) -/
theorem fit_point_error_at_hit (hdot : ∀ p x : P, (dot (p - p) x : K) = 0) (w1 w2 w3 w4 p : P) (u : K)
    (hhit : curve_point_at_pos w1 w2 w3 w4 u = p) : (fit_point_error w1 w2 w3 w4 p u : K) = 0 := by
  simp only [fit_point_error, hhit]
  exact hdot p _

local instance instDotRat : Dot ℚ ℚ := ⟨fun a b => a * b⟩
local instance instSqrtRat : FSqrt ℚ := ⟨id⟩

/-- non-vacuity: the hypotheses of `cubicKnot_chain` are met by a toy instance over ℚ in which every slice of four or more points is
    rejected and split at index 1, and shorter ones are accepted -/
example : FitsChain (C := ℚ × ℚ) Prod.fst Prod.snd [0, 1, 2, 3]
    (cubicKnot (K := ℚ) (P := ℚ) (C := ℚ × ℚ) (fun _ => []) (fun pts _ _ _ => (listGet pts 0, listGet pts (pts.length - 1)))
      (fun _ c _ => c) (fun pts _ _ => if 4 ≤ pts.length then T2.mk 1 1 else T2.mk 0 0) (fun a _ _ => a) (fun a => a)
      (fun p q => [(p, q)]) 4 [0, 1, 2, 3] 0 0 (1/2)) := by
  apply cubicKnot_chain Prod.fst Prod.snd _ _ _ _ _ _ _ [0, 1, 2, 3] (1/2)
  · intro p q; exact ⟨(p, q), rfl, rfl, rfl⟩
  · intro ps chords s t _ h3
    constructor
    · cases ps with
      | nil => simp at h3
      | cons a as => simp [listGet]
    · simp only [listGet]
      rw [List.getLast?_eq_getElem?, getElem!_pos ps (ps.length - 1) (by omega), List.getElem?_eq_getElem (by omega)]
  · intro ps chords s t _ h3 hrej
    by_cases h4 : 4 ≤ ps.length
    · simp only [h4, if_true]; omega
    · simp only [h4, if_false] at hrej; norm_num at hrej
  · unfold clampTol; norm_num
  · exact List.infix_refl _
  · simp
  · simp

end C08Term
