/-
C08 (`fit_curve_loop`)  The loop variant of `fit_curve`, generated from fit.rs.

`fit_curve_loop` is `fit_curve` with tangents taken across the ends of the point list (the points are meant to close up).  When it was
translated (session 4) its block loop turned out to be the one `fit_curve` had before repair F3: consecutive blocks did not share their
boundary point, so for 200 or more points the returned chain had a gap of one sample spacing between blocks (200 points on an ellipse:
a gap of 0.95).  Repaired in /repo (f35a364); with the repair the two functions have the same block structure, and the theorems of
`fit_curve` carry over: `None` exactly for fewer than two points, the concatenation of the fits of blocks that share their boundary
points, a connected chain from the first to the last point whenever the per-block fitter returns one - and with the generated fitter
(`C08Kernel`) that is unconditional for inputs without three coincident consecutive points.
-/
import FloVerif.Props.C08
import FloVerif.Props.C08Kernel

set_option linter.unusedSectionVars false
namespace C08
open Prelude Gen Model.Fit

theorem fit_curve_loop_none_iff {K P C : Type} (fcc : List P → P → P → K → List C) (st et : List P → P)
    (points : List P) (e : K) :
    fit_curve_loop fcc st et points e = none ↔ points.length < 2 := by
  unfold fit_curve_loop
  simp only [decide_eq_true_eq]
  split <;> simp_all

/-- what `fit_curve_loop` hands to `fit_curve_cubic` for the block `(start, number of points)`: the block's points, the start tangent
    from the two points BEFORE the block (the last two points for the first block), the end tangent from the two points AFTER it (the
    first two points for the last block) -/
def blockFitLoop {K P C : Type} (fcc : List P → P → P → K → List C) (st et : List P → P) (points : List P) (e : K)
    (b : Nat × Nat) : List C :=
  fcc (listSlice points b.1 (b.1 + b.2))
    (if b.1 ≤ 1 then st (listSlice points (points.length - 2) (points.length - 1 + 1)) else st (listSlice points (b.1 - 2) (b.1 - 1 + 1)))
    (if b.1 + b.2 + 1 < points.length then et (listSlice points (b.1 + b.2) (b.1 + b.2 + 1 + 1)) else et (listSlice points 0 (1 + 1)))
    e

/-- `fit_curve_loop` is the concatenation of the fits of THE SAME BLOCKS as `fit_curve` (`C08.blocks`: each block starts at the last
    point of the previous one - the repaired block loop) -/
theorem fit_curve_loop_blocks {K P C : Type} (fcc : List P → P → P → K → List C) (st et : List P → P)
    (points : List P) (e : K) (h : 2 ≤ points.length) :
    fit_curve_loop fcc st et points e =
      some ((blocks points.length (max_points_to_fit points.length)).flatMap (blockFitLoop fcc st et points e)) := by
  unfold fit_curve_loop
  simp only [decide_eq_true_eq, foldlT_push]
  rw [if_neg (by omega)]
  congr 1
  generalize max_points_to_fit points.length = m
  rw [blocks, flatMap_map_filter, List.range_eq_range', Nat.sub_zero]
  rw [foldlT_flatMap _ _ _ (fun k => if decide (2 ≤ min m (points.length - k * (m - 1))) = true then
      blockFitLoop fcc st et points e (k * (m - 1), min m (points.length - k * (m - 1))) else [])]
  · simp
  · intro cs k _
    have hnum : (if k * (m - 1) + m > points.length then points.length - k * (m - 1) else m)
        = min m (points.length - k * (m - 1)) := by split <;> omega
    simp only [hnum, decide_eq_true_eq, blockFitLoop]
    by_cases h2 : 2 ≤ min m (points.length - k * (m - 1))
    · rw [if_neg (by omega), if_pos h2]
    · rw [if_pos (by omega), if_neg h2, List.append_nil]

/-- THE CHAIN OF `fit_curve_loop`: a connected chain from the first to the last point whenever the per-block fitter returns one for
    every slice (the statement `fit_curve_chain` makes for `fit_curve`; before repair f35a364 it was false from 200 points on) -/
theorem fit_curve_loop_chain {K P C : Type} (startOf endOf : C → P)
    (fcc : List P → P → P → K → List C) (st et : List P → P) (points : List P) (e : K)
    (hfcc : ∀ (ps : List P) (s t : P), ps <:+: points → 2 ≤ ps.length → FitsChain startOf endOf ps (fcc ps s t e))
    (h : 2 ≤ points.length) :
    ∃ cs, fit_curve_loop fcc st et points e = some cs ∧ FitsChain startOf endOf points cs := by
  refine ⟨_, fit_curve_loop_blocks fcc st et points e h, ?_⟩
  obtain ⟨hne, hfirst, hchain, hall, hlast⟩ := fit_curve_blocks_cover points.length h
  generalize blocks points.length (max_points_to_fit points.length) = bs at hne hfirst hchain hall hlast
  have key := ChainFromTo.flatMap (startOf := startOf) (endOf := endOf)
    (fun b : Nat × Nat => points[b.1]?) (fun b : Nat × Nat => points[b.1 + b.2 - 1]?) (blockFitLoop fcc st et points e) bs hne
    (fun b hb => by
      obtain ⟨h2, _, hin⟩ := hall b hb
      have hlen : (listSlice points b.1 (b.1 + b.2)).length = b.2 := by
        rw [listSlice_length _ _ _ hin]; omega
      have := (fitsChain_iff _ _ _ _).1 (hfcc (listSlice points b.1 (b.1 + b.2))
        (if b.1 ≤ 1 then st (listSlice points (points.length - 2) (points.length - 1 + 1)) else st (listSlice points (b.1 - 2) (b.1 - 1 + 1)))
        (if b.1 + b.2 + 1 < points.length then et (listSlice points (b.1 + b.2) (b.1 + b.2 + 1 + 1)) else et (listSlice points 0 (1 + 1)))
        (listSlice_infix _ _ _) (by omega))
      rw [listSlice_head? _ _ _ (by omega), listSlice_getLast? _ _ _ (by omega) hin] at this
      exact this)
    (hchain.imp (fun {a b} hab => by simp only [hab]))
  obtain ⟨b0, bl, hb0, hbl⟩ := exists_head?_getLast? bs hne
  rw [hb0, hbl] at key
  simp only [Option.bind_some, hfirst b0 hb0] at key
  rw [fitsChain_iff, head?_eq_getElem?_zero, List.getLast?_eq_getElem?]
  have : bl.1 + bl.2 - 1 = points.length - 1 := by rw [hlast bl hbl]
  rw [this] at key
  exact key

section generated
open C08Cubic C08Term C08Kernel

variable {K : Type} [Field K] [LinearOrder K] [IsStrictOrderedRing K] [Inhabited K]
local instance : FAbs K := ⟨fun a => |a|⟩
local instance : OfInt K := ⟨fun n => (n : K)⟩
variable [FSqrt K] [FConsts K] [FSignum K]

/-- **`fit_curve_loop` RETURNS A CONNECTED CHAIN FROM THE FIRST TO THE LAST POINT**, with every line generated, for every list of at
    least two 2-D points in which no three consecutive points coincide and every `max_error` (after repair f35a364) -/
theorem generated_fit_curve_loop_chain (hs : SqrtOK K) (points : List (V2 K)) (hnr : NoTripleRun points) (e : K) (h2 : 2 ≤ points.length) :
    ∃ cs, Model.FitKernel.fitCurveLoopGen points e = some cs ∧ FitsChain (fun c : Cub K => c.t0) (fun c : Cub K => c.t3) points cs :=
  fit_curve_loop_chain (fun c : Cub K => c.t0) (fun c : Cub K => c.t3) _ fit_start_tangent fit_end_tangent points e
    (fun ps s t hin hps => generated_fit_chain hs points hnr (ps.length + 1) ps s t e hin hps (Nat.le_succ _)) h2

end generated

end C08
