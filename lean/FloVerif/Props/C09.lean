/-
C09  Nearest-point queries return the global minimum — the selection logic and the quintic.

`Gen.nearest_point_on_curve_bezier_root_finder` (the candidate loop of `nearest_t`, with the Bézier-form
construction and the root finder as PARAMETERS), `Gen.Z` (the table of `distance_in_bezier_form`) and
`Gen.count_x_axis_crossings` are regenerated from roots/nearest_point_bezier_root_finder.rs and roots/find_roots.rs.
-/
import FloVerif.Gen.Nearest
import Mathlib.Tactic.Ring
import Mathlib.Tactic.NormNum.OfScientific
import Mathlib.Tactic.Linarith
import Mathlib.Algebra.Order.Field.Basic

set_option linter.unusedSectionVars false
namespace C09
open Prelude Gen

variable {K : Type} [Field K] [LinearOrder K] [IsStrictOrderedRing K] [Inhabited K]
local instance : FAbs K := ⟨fun a => |a|⟩

/-- squared distance from the query to the curve point at `t`, as the loop computes it -/
def distSq (w1 w2 w3 w4 point : V2 K) (t : K) : K :=
  dot (curve_point_at_pos w1 w2 w3 w4 t - point) (curve_point_at_pos w1 w2 w3 w4 t - point)

/-- the candidates the loop looks at after `t = 0`: the reported roots strictly inside (0,1), then `t = 1` -/
def candidates (roots : List K) : List K := roots.filter (fun t => decide (t > 0) && decide (t < 1)) ++ [1]

/-- the candidate loop as a fold -/
def pick (f : K → K) : List K → T2 K K → T2 K K
  | [], st => st
  | t :: ts, st => pick f ts (if f t ≤ st.t1 then T2.mk t (f t) else st)

theorem pick_spec (f : K → K) : ∀ (l : List K) (st : T2 K K), st.t1 = f st.t0 →
    (pick f l st).t1 = f (pick f l st).t0 ∧ (pick f l st).t1 ≤ st.t1 ∧ (∀ t ∈ l, (pick f l st).t1 ≤ f t) ∧
    ((pick f l st).t0 = st.t0 ∨ (pick f l st).t0 ∈ l)
  | [], st, h => ⟨h, le_refl _, by simp, Or.inl rfl⟩
  | t :: ts, st, h => by
    simp only [pick]
    split
    · rename_i hle
      obtain ⟨h1, h2, h3, h4⟩ := pick_spec f ts (T2.mk t (f t)) rfl
      refine ⟨h1, le_trans h2 hle, ?_, ?_⟩
      · intro u hu
        rcases List.mem_cons.1 hu with rfl | hu
        · exact h2
        · exact h3 u hu
      · rcases h4 with h4 | h4
        · right; rw [h4]; exact List.mem_cons_self
        · right; exact List.mem_cons_of_mem _ h4
    · rename_i hle
      obtain ⟨h1, h2, h3, h4⟩ := pick_spec f ts st h
      refine ⟨h1, h2, ?_, ?_⟩
      · intro u hu
        rcases List.mem_cons.1 hu with rfl | hu
        · exact le_trans h2 (le_of_lt (not_le.1 hle))
        · exact h3 u hu
      · rcases h4 with h4 | h4
        · exact Or.inl h4
        · exact Or.inr (List.mem_cons_of_mem _ h4)

/-- what the generated `nearest_t` loop computes: the fold `pick` over the candidates, started at `t = 0` -/
theorem nearest_unfold (dbf : V2 K → V2 K → V2 K → V2 K → V2 K → List (V2 K)) (fbr : List (V2 K) → List K)
    (w1 w2 w3 w4 point : V2 K) :
    nearest_point_on_curve_bezier_root_finder dbf fbr w1 w2 w3 w4 point =
      (pick (distSq w1 w2 w3 w4 point) (candidates (fbr (dbf w1 w2 w3 w4 point)))
        (T2.mk 0 (distSq w1 w2 w3 w4 point 0))).t0 := by
  have h0 : (0.0 : K) = 0 := by norm_num
  have h1 : (1.0 : K) = 1 := by norm_num
  have key : ∀ (F : T2 K K → K → T2 K K) (f : K → K),
      (∀ st t, F st t = if f t ≤ st.t1 then T2.mk t (f t) else st) →
      ∀ (l : List K) (st : T2 K K), List.foldl F st l = pick f l st := by
    intro F f hF l
    induction l with
    | nil => intro st; rfl
    | cons t ts ih => intro st; simp only [List.foldl_cons, pick, hF, ih]
  simp only [nearest_point_on_curve_bezier_root_finder, foldlT, h0, h1, candidates, decide_eq_true_eq]
  rw [key _ (distSq w1 w2 w3 w4 point)]
  · rfl
  · intro st t
    simp only [distSq]
    split
    · rename_i h; simp [h]
    · rename_i h; simp [h]

/-- ARG-MIN: whatever the Bézier-form construction and the root finder return, `nearest_t` is a parameter in [0,1]
    — 0, 1 or a reported root strictly inside (0,1) — whose curve point is at least as close to the query as the
    curve point at every other candidate (ties go to the later candidate) -/
theorem nearest_is_argmin (dbf : V2 K → V2 K → V2 K → V2 K → V2 K → List (V2 K)) (fbr : List (V2 K) → List K)
    (w1 w2 w3 w4 point : V2 K) :
    let r := nearest_point_on_curve_bezier_root_finder dbf fbr w1 w2 w3 w4 point
    let roots := fbr (dbf w1 w2 w3 w4 point)
    (0 ≤ r ∧ r ≤ 1) ∧ (r = 0 ∨ r = 1 ∨ (r ∈ roots ∧ 0 < r ∧ r < 1)) ∧
    distSq w1 w2 w3 w4 point r ≤ distSq w1 w2 w3 w4 point 0 ∧
    distSq w1 w2 w3 w4 point r ≤ distSq w1 w2 w3 w4 point 1 ∧
    ∀ t ∈ roots, 0 < t → t < 1 → distSq w1 w2 w3 w4 point r ≤ distSq w1 w2 w3 w4 point t := by
  intro r roots
  have hu := nearest_unfold dbf fbr w1 w2 w3 w4 point
  obtain ⟨h1, h2, h3, h4⟩ := pick_spec (distSq w1 w2 w3 w4 point) (candidates roots)
    (T2.mk 0 (distSq w1 w2 w3 w4 point 0)) rfl
  have hr : r = (pick (distSq w1 w2 w3 w4 point) (candidates roots) (T2.mk 0 (distSq w1 w2 w3 w4 point 0))).t0 := hu
  rw [← hr] at h1 h4
  have hcases : r = 0 ∨ r = 1 ∨ (r ∈ roots ∧ 0 < r ∧ r < 1) := by
    rcases h4 with h4 | h4
    · exact Or.inl h4
    · simp only [candidates, List.mem_append, List.mem_filter, Bool.and_eq_true, decide_eq_true_eq, List.mem_singleton] at h4
      rcases h4 with ⟨hm, h0, h1'⟩ | h4
      · exact Or.inr (Or.inr ⟨hm, h0, h1'⟩)
      · exact Or.inr (Or.inl h4)
  refine ⟨?_, hcases, ?_, ?_, ?_⟩
  · rcases hcases with h | h | ⟨_, h0, h1'⟩
    · rw [h]; exact ⟨le_refl _, zero_le_one⟩
    · rw [h]; exact ⟨zero_le_one, le_refl _⟩
    · exact ⟨le_of_lt h0, le_of_lt h1'⟩
  · rw [← h1]; exact h2
  · rw [← h1]; exact h3 1 (by simp [candidates])
  · intro t ht h0 h1'
    rw [← h1]
    exact h3 t (by simp [candidates, ht, h0, h1'])

/-- the `Z` table of the Bézier-form construction is Schneider's: `Z[j][i] = C(2,j)·C(3,i)/C(5,i+j)` -/
theorem Z_table : (Z : List (List K)) = [[1, 3/5, 3/10, 1/10], [2/5, 3/5, 3/5, 2/5], [1/10, 3/10, 3/5, 1]] := by
  simp only [Z]
  norm_num

/-! Non-vacuity: with roots `[1/2, 2]` reported, the candidates are `1/2` and `1`. -/
example : candidates ([1/2, 2] : List ℚ) = [1/2, 1] := by norm_num [candidates]

end C09
