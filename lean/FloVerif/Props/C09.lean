/-
C09  Nearest-point queries return the global minimum.

Regenerated from the Rust source on every run: `Gen.nearest_point_on_curve_bezier_root_finder` (the candidate loop of
`nearest_t`, with the Bézier-form construction and the root finder as PARAMETERS), `Gen.Z` (the table of
`distance_in_bezier_form`), `Gen.curve_nearest_point`, `Gen.curve_distance_to`, `Gen.path_closest_point`
(Gen/Nearest.lean) and the whole root finder `Gen.find_bezier_roots` with `count_x_axis_crossings`, `flat_enough`,
`find_x_intercept`, `find_x_intercept_newton_raphson`, `de_casteljau_n`, `derivative_n`, `subdivide_n` (Gen/Roots.lean).
Hand model (literal, uses `Gen.Z`): `Model.Nearest.distance_in_bezier_form`.

Parts: (I) candidate loop = arg-min (any root finder); (II) the quintic identity; (III) global minimum over ℝ from a
completeness hypothesis on the reported roots (exact and Lipschitz versions); (IV) the root finder: the generated loop
is the step function `C09L.specStep`, pruning is sound, halves are restrictions, the finished sections tile [0,1],
every zero is accounted for up to the named flat-leaf hypothesis; (V) path_closest_point, nearest_point, distance_to.
-/
import FloVerif.Gen.Nearest
import FloVerif.Lemmas.Nearest
import FloVerif.Lemmas.NearestRoots
import FloVerif.Lemmas.NearestCalc
import FloVerif.Lemmas.NearestPath
import FloVerif.Lemmas.NearestOneCrossing
import Mathlib.Analysis.Real.Sqrt
import Mathlib.Tactic.Ring
import Mathlib.Tactic.NormNum.OfScientific
import Mathlib.Tactic.Linarith
import Mathlib.Algebra.Order.Field.Basic

set_option linter.unusedSectionVars false
namespace C09
open Prelude Gen

variable {K : Type} [Field K] [LinearOrder K] [IsStrictOrderedRing K] [Inhabited K]
local instance : FAbs K := ⟨fun a => |a|⟩

/-- squared distance from the query to the curve point at `t`, as the loop computes it -/
def distSq (w1 w2 w3 w4 point : V2 K) (t : K) : K :=
  dot (curve_point_at_pos w1 w2 w3 w4 t - point) (curve_point_at_pos w1 w2 w3 w4 t - point)

/-- the candidates the loop looks at after `t = 0`: the reported roots strictly inside (0,1), then `t = 1` -/
def candidates (roots : List K) : List K := roots.filter (fun t => decide (t > 0) && decide (t < 1)) ++ [1]

/-- the candidate loop as a fold -/
def pick (f : K → K) : List K → T2 K K → T2 K K
  | [], st => st
  | t :: ts, st => pick f ts (if f t ≤ st.t1 then T2.mk t (f t) else st)

/-- the fold returns a state whose value is `f` of its argument, not above the start value nor above `f t` for any
    candidate `t`, and whose argument is the start argument or a candidate -/
theorem pick_spec (f : K → K) : ∀ (l : List K) (st : T2 K K), st.t1 = f st.t0 →
    (pick f l st).t1 = f (pick f l st).t0 ∧ (pick f l st).t1 ≤ st.t1 ∧ (∀ t ∈ l, (pick f l st).t1 ≤ f t) ∧
    ((pick f l st).t0 = st.t0 ∨ (pick f l st).t0 ∈ l)
  | [], st, h => ⟨h, le_refl _, by simp, Or.inl rfl⟩
  | t :: ts, st, h => by
    simp only [pick]
    split
    · rename_i hle
      obtain ⟨h1, h2, h3, h4⟩ := pick_spec f ts (T2.mk t (f t)) rfl
      refine ⟨h1, le_trans h2 hle, ?_, ?_⟩
      · intro u hu
        rcases List.mem_cons.1 hu with rfl | hu
        · exact h2
        · exact h3 u hu
      · rcases h4 with h4 | h4
        · right; rw [h4]; exact List.mem_cons_self
        · right; exact List.mem_cons_of_mem _ h4
    · rename_i hle
      obtain ⟨h1, h2, h3, h4⟩ := pick_spec f ts st h
      refine ⟨h1, h2, ?_, ?_⟩
      · intro u hu
        rcases List.mem_cons.1 hu with rfl | hu
        · exact le_trans h2 (le_of_lt (not_le.1 hle))
        · exact h3 u hu
      · rcases h4 with h4 | h4
        · exact Or.inl h4
        · exact Or.inr (List.mem_cons_of_mem _ h4)

/-- what the generated `nearest_t` loop computes: the fold `pick` over the candidates, started at `t = 0` -/
theorem nearest_unfold (dbf : V2 K → V2 K → V2 K → V2 K → V2 K → List (V2 K)) (fbr : List (V2 K) → List K)
    (w1 w2 w3 w4 point : V2 K) :
    nearest_point_on_curve_bezier_root_finder dbf fbr w1 w2 w3 w4 point =
      (pick (distSq w1 w2 w3 w4 point) (candidates (fbr (dbf w1 w2 w3 w4 point)))
        (T2.mk 0 (distSq w1 w2 w3 w4 point 0))).t0 := by
  have h0 : (0.0 : K) = 0 := by norm_num
  have h1 : (1.0 : K) = 1 := by norm_num
  have key : ∀ (F : T2 K K → K → T2 K K) (f : K → K),
      (∀ st t, F st t = if f t ≤ st.t1 then T2.mk t (f t) else st) →
      ∀ (l : List K) (st : T2 K K), List.foldl F st l = pick f l st := by
    intro F f hF l
    induction l with
    | nil => intro st; rfl
    | cons t ts ih => intro st; simp only [List.foldl_cons, pick, hF, ih]
  simp only [nearest_point_on_curve_bezier_root_finder, foldlT, h0, h1, candidates, decide_eq_true_eq]
  rw [key _ (distSq w1 w2 w3 w4 point)]
  · rfl
  · intro st t
    simp only [distSq]
    split
    · rename_i h; simp [h]
    · rename_i h; simp [h]

/-- ARG-MIN: whatever the Bézier-form construction and the root finder return, `nearest_t` is a parameter in [0,1]
    — 0, 1 or a reported root strictly inside (0,1) — whose curve point is at least as close to the query as the
    curve point at every other candidate (ties go to the later candidate) -/
theorem nearest_is_argmin (dbf : V2 K → V2 K → V2 K → V2 K → V2 K → List (V2 K)) (fbr : List (V2 K) → List K)
    (w1 w2 w3 w4 point : V2 K) :
    let r := nearest_point_on_curve_bezier_root_finder dbf fbr w1 w2 w3 w4 point
    let roots := fbr (dbf w1 w2 w3 w4 point)
    (0 ≤ r ∧ r ≤ 1) ∧ (r = 0 ∨ r = 1 ∨ (r ∈ roots ∧ 0 < r ∧ r < 1)) ∧
    distSq w1 w2 w3 w4 point r ≤ distSq w1 w2 w3 w4 point 0 ∧
    distSq w1 w2 w3 w4 point r ≤ distSq w1 w2 w3 w4 point 1 ∧
    ∀ t ∈ roots, 0 < t → t < 1 → distSq w1 w2 w3 w4 point r ≤ distSq w1 w2 w3 w4 point t := by
  intro r roots
  have hu := nearest_unfold dbf fbr w1 w2 w3 w4 point
  obtain ⟨h1, h2, h3, h4⟩ := pick_spec (distSq w1 w2 w3 w4 point) (candidates roots)
    (T2.mk 0 (distSq w1 w2 w3 w4 point 0)) rfl
  have hr : r = (pick (distSq w1 w2 w3 w4 point) (candidates roots) (T2.mk 0 (distSq w1 w2 w3 w4 point 0))).t0 := hu
  rw [← hr] at h1 h4
  have hcases : r = 0 ∨ r = 1 ∨ (r ∈ roots ∧ 0 < r ∧ r < 1) := by
    rcases h4 with h4 | h4
    · exact Or.inl h4
    · simp only [candidates, List.mem_append, List.mem_filter, Bool.and_eq_true, decide_eq_true_eq, List.mem_singleton] at h4
      rcases h4 with ⟨hm, h0, h1'⟩ | h4
      · exact Or.inr (Or.inr ⟨hm, h0, h1'⟩)
      · exact Or.inr (Or.inl h4)
  refine ⟨?_, hcases, ?_, ?_, ?_⟩
  · rcases hcases with h | h | ⟨_, h0, h1'⟩
    · rw [h]; exact ⟨le_refl _, zero_le_one⟩
    · rw [h]; exact ⟨zero_le_one, le_refl _⟩
    · exact ⟨le_of_lt h0, le_of_lt h1'⟩
  · rw [← h1]; exact h2
  · rw [← h1]; exact h3 1 (by simp [candidates])
  · intro t ht h0 h1'
    rw [← h1]
    exact h3 t (by simp [candidates, ht, h0, h1'])

/-- the `Z` table of the Bézier-form construction is Schneider's: `Z[j][i] = C(2,j)·C(3,i)/C(5,i+j)` -/
theorem Z_table : (Z : List (List K)) = [[1, 3/5, 3/10, 1/10], [2/5, 3/5, 3/5, 2/5], [1/10, 3/10, 3/5, 1]] := by
  simp only [Z]
  norm_num

/-! Non-vacuity: with roots `[1/2, 2]` reported, the candidates are `1/2` and `1`. -/
example : candidates ([1/2, 2] : List ℚ) = [1/2, 1] := by norm_num [candidates]

/-! ## (II) The quintic of `distance_in_bezier_form` -/
open C09L Model.Nearest

/-- QUINTIC IDENTITY (any ordered field, all control points, query points and `t`): evaluated by the generated
    `de_casteljau_n`, the six control points the model of `distance_in_bezier_form` builds give the point
    `(t, (C(t) − point)·C'(t))`: the x-coefficients are `k/5` so that x(t) = t, and the degree-5 Bernstein polynomial of
    the y-coefficients is the dot product of the offset with the tangent `C'(t)` (the generated `derivative4`
    evaluated by the generated `de_casteljau3`). Depends on `Gen.Z`: another table breaks this proof. -/
theorem quintic_identity (w1 w2 w3 w4 point : V2 K) (t : K) :
    (distance_in_bezier_form w1 w2 w3 w4 point).map (·.x) = [0, 1 / 5, 2 / 5, 3 / 5, 4 / 5, 1] ∧
    de_casteljau_n t (distance_in_bezier_form w1 w2 w3 w4 point) =
      V2.mk t (dot (curve_point_at_pos w1 w2 w3 w4 t - point) (tangentAt w1 w2 w3 w4 t)) := by
  constructor
  · rw [quintic_points]; simp
  · rw [quintic_points, dcn6]
    apply v2_ext
    · simp only [bern5]; ring
    · exact quintic_bern w1 w2 w3 w4 point t

/-- the quintic is a section over [0,1] in the sense of the root-finder theorems below -/
theorem quintic_is_section (w1 w2 w3 w4 point : V2 K) :
    IsSec (perpDot w1 w2 w3 w4 point) (distance_in_bezier_form w1 w2 w3 w4 point) 0 1 := by
  refine ⟨quinticY w1 w2 w3 w4 point 0, quinticY w1 w2 w3 w4 point 1, quinticY w1 w2 w3 w4 point 2,
    quinticY w1 w2 w3 w4 point 3, quinticY w1 w2 w3 w4 point 4, quinticY w1 w2 w3 w4 point 5, ?_, fun u => ?_⟩
  · conv_lhs => rw [quintic_points]
    simp [mkSec, affX]
  · rw [quintic_bern]; congr 1; ring

/-! Non-vacuity: the arch (0,0),(30,60),(70,60),(100,0) queried at (50,0): the quintic has the coefficients the
    Rust code computes (−4500, 3000, 1890, −1890, −3000, 4500) and vanishes at t = 1/2 (the apex is a critical point). -/
example : (distance_in_bezier_form (K := ℚ) ⟨0, 0⟩ ⟨30, 60⟩ ⟨70, 60⟩ ⟨100, 0⟩ ⟨50, 0⟩).map (·.y) =
    [-4500, 3000, 1890, -1890, -3000, 4500] := by
  rw [dbf_explicit]; simp [dot]; norm_num
example : perpDot (K := ℚ) ⟨0, 0⟩ ⟨30, 60⟩ ⟨70, 60⟩ ⟨100, 0⟩ ⟨50, 0⟩ (1 / 2) = 0 := by
  simp [perpDot, tangentAt, derivative4, de_casteljau3, de_casteljau2, curve_point_at_pos, basis, dot]; norm_num

/-! ## (III) Global minimum over ℝ -/

/-- the quintic handed to the root finder, evaluated at `t` by the generated `de_casteljau_n` -/
def quinticAt (w1 w2 w3 w4 point : V2 K) (t : K) : K :=
  (de_casteljau_n t (distance_in_bezier_form w1 w2 w3 w4 point)).y

/-- the quintic the root finder sees is `(C(t) − point)·C'(t)` (restatement of `quintic_identity` for `quinticAt`) -/
theorem quinticAt_eq (w1 w2 w3 w4 point : V2 K) (t : K) :
    quinticAt w1 w2 w3 w4 point t = perpDot w1 w2 w3 w4 point t := by
  unfold quinticAt perpDot
  rw [(quintic_identity w1 w2 w3 w4 point t).2]

/-- DERIVATIVES (ℝ): the tangent `tangentAt` (generated `derivative4` + `de_casteljau3`) is the derivative of the
    generated `point_at_pos`, coordinate by coordinate, and the squared distance to the query point has the derivative
    `2·(C(t) − point)·C'(t)`, i.e. twice the quintic -/
theorem distSq_hasDerivAt (w1 w2 w3 w4 point : V2 ℝ) (t : ℝ) :
    HasDerivAt (fun t => (curve_point_at_pos w1 w2 w3 w4 t).x) (tangentAt w1 w2 w3 w4 t).x t ∧
    HasDerivAt (fun t => (curve_point_at_pos w1 w2 w3 w4 t).y) (tangentAt w1 w2 w3 w4 t).y t ∧
    HasDerivAt (distSq w1 w2 w3 w4 point) (2 * quinticAt w1 w2 w3 w4 point t) t := by
  have h0 : (0.0 : ℝ) = 0 := by norm_num
  have h1 : (1.0 : ℝ) = 1 := by norm_num
  have h3 : (3.0 : ℝ) = 3 := by norm_num
  have hX : HasDerivAt (fun t => (curve_point_at_pos w1 w2 w3 w4 t).x) (tangentAt w1 w2 w3 w4 t).x t := by
    have e : (fun t : ℝ => (curve_point_at_pos w1 w2 w3 w4 t).x) = fun t =>
        w1.x + (3 * (w2.x - w1.x)) * t + (3 * w1.x - 6 * w2.x + 3 * w3.x) * t ^ 2 +
          (w4.x - 3 * w3.x + 3 * w2.x - w1.x) * t ^ 3 := by
      funext t; simp [curve_point_at_pos, basis, h1, h3]; ring
    rw [e]
    exact (cubic_hasDerivAt _ _ _ _ t).congr_deriv (by
      simp [tangentAt, derivative4, de_casteljau3, de_casteljau2, h1, h3]; ring)
  have hY : HasDerivAt (fun t => (curve_point_at_pos w1 w2 w3 w4 t).y) (tangentAt w1 w2 w3 w4 t).y t := by
    have e : (fun t : ℝ => (curve_point_at_pos w1 w2 w3 w4 t).y) = fun t =>
        w1.y + (3 * (w2.y - w1.y)) * t + (3 * w1.y - 6 * w2.y + 3 * w3.y) * t ^ 2 +
          (w4.y - 3 * w3.y + 3 * w2.y - w1.y) * t ^ 3 := by
      funext t; simp [curve_point_at_pos, basis, h1, h3]; ring
    rw [e]
    exact (cubic_hasDerivAt _ _ _ _ t).congr_deriv (by
      simp [tangentAt, derivative4, de_casteljau3, de_casteljau2, h1, h3]; ring)
  refine ⟨hX, hY, ?_⟩
  have e : distSq w1 w2 w3 w4 point = fun t =>
      ((curve_point_at_pos w1 w2 w3 w4 t).x - point.x) * ((curve_point_at_pos w1 w2 w3 w4 t).x - point.x) +
      ((curve_point_at_pos w1 w2 w3 w4 t).y - point.y) * ((curve_point_at_pos w1 w2 w3 w4 t).y - point.y) := by
    funext t; simp [distSq, dot, h0]
  rw [e, quinticAt_eq]
  have h := distSq_hasDerivAt_aux (fun t => (curve_point_at_pos w1 w2 w3 w4 t).x)
    (fun t => (curve_point_at_pos w1 w2 w3 w4 t).y) (fun t => (tangentAt w1 w2 w3 w4 t).x)
    (fun t => (tangentAt w1 w2 w3 w4 t).y) point.x point.y t hX hY
  exact h.congr_deriv (by simp [perpDot, dot, h0])

/-- COMPLETENESS of a list of reported roots for a function `Q` on (0,1): every zero of `Q` strictly inside (0,1) is
    in the list, except zeros around which `Q` is non-negative (no sign change from − to +: such a zero is not a strict
    local minimum of the distance, and these are exactly the zeros the root finder's pruning may drop) -/
def Complete (Q : ℝ → ℝ) (roots : List ℝ) : Prop :=
  ∀ t, 0 < t → t < 1 → Q t = 0 → t ∈ roots ∨ ∃ lo hi, lo < t ∧ t < hi ∧ ∀ y, lo ≤ y → y ≤ hi → 0 ≤ Q y

/-- GLOBAL MINIMUM (ℝ, every cubic, every query point, every root finder `fbr`): if the list `fbr` returns for the
    quintic is complete in the sense above, then the parameter the generated
    `nearest_point_on_curve_bezier_root_finder` returns lies in [0,1] and its curve point is at least as close to the
    query point as the curve point at EVERY `t ∈ [0,1]`. (Extreme value theorem + Fermat + monotonicity, on top of
    `nearest_is_argmin` and `distSq_hasDerivAt`.) -/
theorem nearest_global_min (fbr : List (V2 ℝ) → List ℝ) (w1 w2 w3 w4 point : V2 ℝ)
    (hc : Complete (quinticAt w1 w2 w3 w4 point) (fbr (distance_in_bezier_form w1 w2 w3 w4 point))) :
    let r := nearest_point_on_curve_bezier_root_finder distance_in_bezier_form fbr w1 w2 w3 w4 point
    (0 ≤ r ∧ r ≤ 1) ∧ ∀ t, 0 ≤ t → t ≤ 1 → distSq w1 w2 w3 w4 point r ≤ distSq w1 w2 w3 w4 point t := by
  intro r
  obtain ⟨hr, _, h0, h1, hroots⟩ := nearest_is_argmin distance_in_bezier_form fbr w1 w2 w3 w4 point
  refine ⟨hr, ?_⟩
  exact global_min_of_candidates (distSq w1 w2 w3 w4 point) (quinticAt w1 w2 w3 w4 point)
    (fun t => (distSq_hasDerivAt w1 w2 w3 w4 point t).2.2)
    {t | t ∈ fbr (distance_in_bezier_form w1 w2 w3 w4 point)} r h0 h1 (fun t ht a b => hroots t ht a b) hc

/-- the plain reading of the hypothesis: every zero of the quintic strictly inside (0,1) is returned -/
theorem nearest_global_min_of_all_roots (fbr : List (V2 ℝ) → List ℝ) (w1 w2 w3 w4 point : V2 ℝ)
    (hc : ∀ t, 0 < t → t < 1 → quinticAt w1 w2 w3 w4 point t = 0 →
      t ∈ fbr (distance_in_bezier_form w1 w2 w3 w4 point)) :
    let r := nearest_point_on_curve_bezier_root_finder distance_in_bezier_form fbr w1 w2 w3 w4 point
    (0 ≤ r ∧ r ≤ 1) ∧ ∀ t, 0 ≤ t → t ≤ 1 → distSq w1 w2 w3 w4 point r ≤ distSq w1 w2 w3 w4 point t :=
  nearest_global_min fbr w1 w2 w3 w4 point (fun t a b h => Or.inl (hc t a b h))

/-- the largest y-coefficient of the quintic in absolute value: bounds the quintic on [0,1] (convex hull) -/
noncomputable def quinticBound (w1 w2 w3 w4 point : V2 ℝ) : ℝ :=
  max |quinticY w1 w2 w3 w4 point 0| (max |quinticY w1 w2 w3 w4 point 1| (max |quinticY w1 w2 w3 w4 point 2|
    (max |quinticY w1 w2 w3 w4 point 3| (max |quinticY w1 w2 w3 w4 point 4| |quinticY w1 w2 w3 w4 point 5|))))

/-- APPROXIMATE GLOBAL MINIMUM (ℝ): if every relevant zero of the quintic in (0,1) is within `δ` (in parameter) of
    some returned value, then the squared distance at the returned parameter exceeds the minimum over [0,1] by at
    most `2·M·δ`, `M` = the largest control-polygon ordinate of the quintic in absolute value (Lipschitz bound from the
    convex hull property; mean value inequality) -/
theorem nearest_approx_min (fbr : List (V2 ℝ) → List ℝ) (w1 w2 w3 w4 point : V2 ℝ) (δ : ℝ) (hδ : 0 ≤ δ)
    (hc : ∀ t, 0 < t → t < 1 → quinticAt w1 w2 w3 w4 point t = 0 →
      (∃ v ∈ fbr (distance_in_bezier_form w1 w2 w3 w4 point), |v - t| ≤ δ) ∨
      ∃ lo hi, lo < t ∧ t < hi ∧ ∀ y, lo ≤ y → y ≤ hi → 0 ≤ quinticAt w1 w2 w3 w4 point y) :
    let r := nearest_point_on_curve_bezier_root_finder distance_in_bezier_form fbr w1 w2 w3 w4 point
    ∀ t, 0 ≤ t → t ≤ 1 →
      distSq w1 w2 w3 w4 point r ≤ distSq w1 w2 w3 w4 point t + 2 * quinticBound w1 w2 w3 w4 point * δ := by
  intro r
  obtain ⟨hr, _, h0, h1, hroots⟩ := nearest_is_argmin distance_in_bezier_form fbr w1 w2 w3 w4 point
  refine approx_min_of_candidates (distSq w1 w2 w3 w4 point) (quinticAt w1 w2 w3 w4 point)
    (fun t => (distSq_hasDerivAt w1 w2 w3 w4 point t).2.2)
    {t | t ∈ fbr (distance_in_bezier_form w1 w2 w3 w4 point)} r δ _ hδ h0 h1 (fun t ht a b => hroots t ht a b) ?_ hc
  intro t ht0 ht1
  rw [quinticAt_eq, ← quintic_bern]
  apply bern5_abs_le _ _ _ _ _ _ ht0 ht1 <;> simp [quinticBound]

/-! Non-vacuity of (III): for the straight curve (0,0),(1,0),(2,0),(3,0) and the query (1,1) the quintic is
    `(3t − 1)·3`; a root finder that reports `[1/3]` is complete, and the theorem gives the foot of the perpendicular. -/
example : quinticAt (K := ℝ) ⟨0, 0⟩ ⟨1, 0⟩ ⟨2, 0⟩ ⟨3, 0⟩ ⟨1, 1⟩ = fun t => (3 * t - 1) * 3 := by
  funext t
  rw [quinticAt_eq]
  simp [perpDot, tangentAt, derivative4, de_casteljau3, de_casteljau2, curve_point_at_pos, basis, dot]
  norm_num
  ring
example : Complete (quinticAt (K := ℝ) ⟨0, 0⟩ ⟨1, 0⟩ ⟨2, 0⟩ ⟨3, 0⟩ ⟨1, 1⟩) [1 / 3] := by
  intro t _ _ h
  left
  have e : quinticAt (K := ℝ) ⟨0, 0⟩ ⟨1, 0⟩ ⟨2, 0⟩ ⟨3, 0⟩ ⟨1, 1⟩ t = (3 * t - 1) * 3 := by
    rw [quinticAt_eq]
    simp [perpDot, tangentAt, derivative4, de_casteljau3, de_casteljau2, curve_point_at_pos, basis, dot]
    norm_num
    ring
  rw [e] at h
  simp
  linarith

/-! ## (IV) The root finder `find_bezier_roots::<_, 6>`

`IsSec p s a b` (Lemmas/NearestRoots.lean): `s` is a list of six points whose x-coordinates are `a + (b−a)·k/5` and whose
y-coordinates are the Bernstein coefficients of `u ↦ p (a + (b−a)·u)`: a section of the polynomial `p` over [a,b].
`FSqrt`, `FSignum`, `OfInt` are arbitrary here: the theorems hold whatever `flat_enough` and Newton's iteration compute. -/
section RootFinder
variable [FSqrt K] [FSignum K] [OfInt K]

/-- THE GENERATED LOOP IS THE STEP FUNCTION: `Gen.find_bezier_roots 6` (translated from find_roots.rs) equals the
    iteration of `C09L.specStep` - pop the top section; no crossing: drop it; one crossing and flat enough: push the
    x-coordinate at Newton's intercept; depth ≥ 48: push the middle of the section; otherwise push the right and the left
    half (subdivided at 0.5) with depth + 1 - from the stack `[(points, 0)]`, with the fuel 100000 of the generated
    loop (on exhaustion: the roots so far). A change of the loop body in the Rust source breaks this proof. -/
theorem find_bezier_roots_is_loop (pts : List (V2 K)) :
    find_bezier_roots 6 pts = match runSpec 100000 pts with | .brk b => b.t1 | .ret r => r :=
  find_bezier_roots_spec pts

/-- PRUNING IS SOUND (Bernstein positivity / convex hull): a section whose control polygon has no crossing
    (`count_x_axis_crossings = 0`: all six ordinates `< 0`, or all `≥ 0`, the code's two tests) either has its
    polynomial negative on the whole CLOSED range, or non-negative on it; and in the second case a zero strictly inside
    the range is possible only if the polynomial vanishes on the whole range. So a dropped section contains no sign
    change of the polynomial. -/
theorem pruning_sound {p : K → K} {s : List (V2 K)} {a b : K} (h : IsSec p s a b) (hab : a < b)
    (hc : count_x_axis_crossings 6 s = 0) :
    (∀ x, a ≤ x → x ≤ b → p x < 0) ∨
    ((∀ x, a ≤ x → x ≤ b → 0 ≤ p x) ∧ ((∃ x, a < x ∧ x < b ∧ p x = 0) → ∀ x, a ≤ x → x ≤ b → p x = 0)) := by
  rcases sec_pruned h hab hc with hneg | hnn
  · exact Or.inl hneg
  · refine Or.inr ⟨hnn, ?_⟩
    rintro ⟨x0, hx0a, hx0b, hx0⟩
    obtain ⟨c0, c1, c2, c3, c4, c5, rfl, hp⟩ := h
    have e : mkSec (affX a b) [c0, c1, c2, c3, c4, c5] =
        [⟨a, c0⟩, ⟨a + (b - a) / 5, c1⟩, ⟨a + (b - a) * 2 / 5, c2⟩, ⟨a + (b - a) * 3 / 5, c3⟩,
         ⟨a + (b - a) * 4 / 5, c4⟩, ⟨b, c5⟩] := by simp [mkSec, affX]
    rw [e] at hc
    have hba : 0 < b - a := sub_pos.2 hab
    rcases count6_zero hc with ⟨h0, _⟩ | ⟨h0, h1, h2, h3, h4, h5⟩
    · -- all negative: contradicts non-negativity at a
      have := hnn a le_rfl hab.le
      have h' := hp 0
      simp only [bern5] at h'
      have : p a = c0 := by rw [show a = a + (b - a) * 0 by ring, ← h']; ring
      simp only [] at h0
      linarith [hnn a le_rfl hab.le]
    · simp only [] at h0 h1 h2 h3 h4 h5
      -- a zero strictly inside: no coefficient can be positive
      have hu0 : 0 < (x0 - a) / (b - a) := div_pos (sub_pos.2 hx0a) hba
      have hu1 : (x0 - a) / (b - a) < 1 := by rw [div_lt_one hba]; linarith
      have hz : bern5 c0 c1 c2 c3 c4 c5 ((x0 - a) / (b - a)) = 0 := by
        rw [hp, ← hx0]; congr 1; field_simp; ring
      have hall : ¬ (0 < c0 ∨ 0 < c1 ∨ 0 < c2 ∨ 0 < c3 ∨ 0 < c4 ∨ 0 < c5) := by
        intro hne
        have := bern5_pos h0 h1 h2 h3 h4 h5 hne hu0 hu1
        linarith
      simp only [not_or, not_lt] at hall
      obtain ⟨g0, g1, g2, g3, g4, g5⟩ := hall
      have e0 : c0 = 0 := le_antisymm g0 h0
      have e1 : c1 = 0 := le_antisymm g1 h1
      have e2 : c2 = 0 := le_antisymm g2 h2
      have e3 : c3 = 0 := le_antisymm g3 h3
      have e4 : c4 = 0 := le_antisymm g4 h4
      have e5 : c5 = 0 := le_antisymm g5 h5
      intro x hxa hxb
      have : p x = bern5 c0 c1 c2 c3 c4 c5 ((x - a) / (b - a)) := by
        rw [hp]; congr 1; field_simp; ring
      rw [this, e0, e1, e2, e3, e4, e5]
      simp [bern5]

/-- ONE CROSSING, AT MOST ONE ZERO (the one-sign-change case of the variation diminishing property, proved here
    from 2×2 determinants of Bernstein basis functions): a section whose control polygon has exactly one crossing
    (`count_x_axis_crossings = 1`) has at most one zero of its polynomial strictly inside its range. So the single value
    the loop reports for such a section does not hide further zeros inside it (zeros at the two ends of the range are
    shared with the neighbouring sections). -/
theorem one_crossing_at_most_one_zero {p : K → K} {s : List (V2 K)} {a b : K} (h : IsSec p s a b) (hab : a < b)
    (hc : count_x_axis_crossings 6 s = 1) (x1 x2 : K) (h1a : a < x1) (h1b : x1 < b) (h2a : a < x2) (h2b : x2 < b)
    (hz1 : p x1 = 0) (hz2 : p x2 = 0) : x1 = x2 := by
  obtain ⟨c0, c1, c2, c3, c4, c5, rfl, hp⟩ := h
  have e : mkSec (affX a b) [c0, c1, c2, c3, c4, c5] =
      [⟨a, c0⟩, ⟨a + (b - a) / 5, c1⟩, ⟨a + (b - a) * 2 / 5, c2⟩, ⟨a + (b - a) * 3 / 5, c3⟩,
       ⟨a + (b - a) * 4 / 5, c4⟩, ⟨b, c5⟩] := by simp [mkSec, affX]
  rw [e, count6] at hc
  simp only [] at hc
  have hba : 0 < b - a := sub_pos.2 hab
  have key : ∀ x y, a < x → x < y → y < b → p x = 0 → p y = 0 → False := by
    intro x y hax hxy hyb hx hy
    have u0 : 0 < (x - a) / (b - a) := div_pos (sub_pos.2 hax) hba
    have u12 : (x - a) / (b - a) < (y - a) / (b - a) := by
      apply div_lt_div_of_pos_right _ hba; linarith
    have u1 : (y - a) / (b - a) < 1 := by rw [div_lt_one hba]; linarith
    have z1 : bern5 c0 c1 c2 c3 c4 c5 ((x - a) / (b - a)) = 0 := by rw [hp, ← hx]; congr 1; field_simp; ring
    have z2 : bern5 c0 c1 c2 c3 c4 c5 ((y - a) / (b - a)) = 0 := by rw [hp, ← hy]; congr 1; field_simp; ring
    exact one_crossing_zero_unique c0 c1 c2 c3 c4 c5 hc u0 u12 u1 z1 z2
  rcases lt_trichotomy x1 x2 with hlt | heq | hgt
  · exact absurd (key x1 x2 h1a hlt h2b hz1 hz2) id
  · exact heq
  · exact absurd (key x2 x1 h2a hgt h1b hz2 hz1) id

/-- SUBDIVISION COVERS THE RANGE AND RESTRICTS THE POLYNOMIAL: the two lists the generated `subdivide_n 6 0.5` returns
    for a section of `p` over [a,b] are sections of the SAME `p` over [a,(a+b)/2] and [(a+b)/2,b] (de Casteljau: the left
    half's Bernstein polynomial is `u ↦ P(u/2)`, the right half's `u ↦ P((1+u)/2)`, and the x-coordinates stay affine) -/
theorem subdivision_halves {p : K → K} {s : List (V2 K)} {a b : K} (h : IsSec p s a b) :
    IsSec p (subdivide_n 6 (0.5 : K) s).t0 a ((a + b) / 2) ∧ IsSec p (subdivide_n 6 (0.5 : K) s).t1 ((a + b) / 2) b :=
  sec_split h

/-- THE FINISHED SECTIONS TILE [0,1] (all inputs, any number of iterations): if the loop of `find_bezier_roots`, started
    on a section of `p` over [0,1], ends because its stack is empty, then the function returns that list `roots`, and
    there is a list of leaves - consecutive ranges [a,b] from 0 to 1, each with the section of `p` over it that the
    loop popped and did not subdivide - such that every leaf was either pruned (no crossing), or had exactly one
    crossing, passed `flat_enough` and contributed `flatValue` to `roots`, or was at the depth limit, is `2^-48` wide and
    contributed its middle to `roots` -/
theorem find_bezier_roots_leaves (p : K → K) (pts : List (V2 K)) (h : IsSec p pts 0 1) (roots : List K)
    (hterm : runSpec 100000 pts = LoopExit.ret roots) :
    find_bezier_roots 6 pts = roots ∧
    ∃ leaves : List (Leaf K), tiles 0 leaves 1 ∧ ∀ l ∈ leaves, LeafOK p roots l := by
  constructor
  · rw [find_bezier_roots_is_loop, hterm]
  · have hp := runSpec_post p pts h 100000
    rw [hterm] at hp
    exact hp

/-- EVERY ZERO IS ACCOUNTED FOR (the completeness statement that follows from pruning + subdivision + depth limit):
    under the hypotheses of `find_bezier_roots_leaves`, every zero `x` of `p` strictly inside (0,1)
    (A) lies in the closed range of a leaf with exactly one crossing that passed `flat_enough`, for which ONE value
        (`flatValue`: the x-coordinate at the parameter Newton's iteration returned) is in `roots`; or
    (B) is within `2^-49` of a value in `roots` (the middle of a section at the depth limit); or
    (C) has a neighbourhood on which `p ≥ 0` (no sign change; the only zeros that pruning drops).
    What is NOT proved is that the value reported in case (A) is close to `x`: that is `flat_enough` + Newton. -/
theorem zeros_accounted (p : K → K) (pts : List (V2 K)) (h : IsSec p pts 0 1) (roots : List K)
    (hterm : runSpec 100000 pts = LoopExit.ret roots) (x : K) (hx0 : 0 < x) (hx1 : x < 1) (hx : p x = 0) :
    (∃ s a b, 0 ≤ a ∧ a ≤ x ∧ x ≤ b ∧ b ≤ 1 ∧ a < b ∧ IsSec p s a b ∧ count_x_axis_crossings 6 s = 1 ∧
      flat_enough 6 s = true ∧ flatValue s ∈ roots) ∨
    (∃ v ∈ roots, |x - v| ≤ (1 / 2 : K) ^ 49) ∨
    (∃ lo hi, lo < x ∧ x < hi ∧ ∀ y, lo ≤ y → y ≤ hi → 0 ≤ p y) := by
  obtain ⟨_, leaves, ht, hok⟩ := find_bezier_roots_leaves p pts h roots hterm
  rcases tiles_zero_aux p roots x hx leaves 0 1 ht hok hx0.le hx1.le with ⟨l, hl, hex, hla, hlb⟩ | ⟨lo, hi, h1, h2, h3, h4, h5⟩
  · obtain ⟨hab, hsec, hkind⟩ := hok l hl
    rcases hex with hk | hk
    · rw [hk] at hkind
      obtain ⟨hb0, hb1⟩ := (tiles_bounds leaves 0 1 ht (fun l' hl' => (hok l' hl').1)).2 l hl
      exact Or.inl ⟨l.sec, l.a, l.b, hb0, hla, hlb, hb1, hab, hsec, hkind.1, hkind.2.1, hkind.2.2⟩
    · rw [hk] at hkind
      refine Or.inr (Or.inl ⟨(l.a + l.b) / 2, hkind.2, ?_⟩)
      have hw : l.b - l.a = (1 / 2 : K) ^ 48 := hkind.1
      have : (1 / 2 : K) ^ 49 = (l.b - l.a) / 2 := by rw [hw, pow_succ]; ring
      rw [this, abs_le]
      constructor <;> linarith
  · refine Or.inr (Or.inr ⟨lo, hi, ?_, ?_, h5⟩)
    · rcases h3 with h3 | h3
      · exact h3
      · exact absurd h3 (ne_of_gt hx0)
    · rcases h4 with h4 | h4
      · exact h4
      · exact absurd h4 (ne_of_lt hx1)

/-! Non-vacuity of `pruning_sound` / `one_crossing_at_most_one_zero` / `subdivision_halves`: the polygon with ordinates
    −1, −1, −1, 1, 1, 1 over [0,1] is a section (of its own Bernstein polynomial) with exactly one crossing; its left
    half has the ordinates −1, −1, −1, −3/4, −1/2, −3/16·… computed by the generated `subdivide_n`, starting −1 and
    ending at the value of the polynomial at 1/2, which is 0 by symmetry. -/
example : count_x_axis_crossings 6 ([⟨0, -1⟩, ⟨1 / 5, -1⟩, ⟨2 / 5, -1⟩, ⟨3 / 5, 1⟩, ⟨4 / 5, 1⟩, ⟨1, 1⟩] : List (V2 ℚ)) = 1 := by
  rw [count6]; simp [cross]; norm_num
example : IsSec (bern5 (-1 : ℚ) (-1) (-1) 1 1 1) [⟨0, -1⟩, ⟨1 / 5, -1⟩, ⟨2 / 5, -1⟩, ⟨3 / 5, 1⟩, ⟨4 / 5, 1⟩, ⟨1, 1⟩] 0 1 :=
  ⟨-1, -1, -1, 1, 1, 1, by simp [mkSec, affX], fun u => by congr 1; ring⟩
example : ((subdivide_n 6 (0.5 : ℚ) ([⟨0, -1⟩, ⟨1 / 5, -1⟩, ⟨2 / 5, -1⟩, ⟨3 / 5, 1⟩, ⟨4 / 5, 1⟩, ⟨1, 1⟩] : List (V2 ℚ))).t0.map
    (·.y)).getLast? = some 0 := by
  rw [subdivide6]; simp [mkSec, leftC, bern5]; norm_num

/-! Non-vacuity of (IV): a polygon below the axis is pruned at once (the loop ends with no roots; one leaf [0,1]);
    the zero polygon is pruned too although its polynomial vanishes everywhere - alternative (C) of `zeros_accounted`. -/
example : IsSec (fun _ : ℚ => -1) [⟨0, -1⟩, ⟨1 / 5, -1⟩, ⟨2 / 5, -1⟩, ⟨3 / 5, -1⟩, ⟨4 / 5, -1⟩, ⟨1, -1⟩] 0 1 :=
  ⟨-1, -1, -1, -1, -1, -1, by simp [mkSec, affX], fun u => by simp only [bern5]; ring⟩
example [FSqrt ℚ] [FSignum ℚ] [OfInt ℚ] :
    runSpec 100000 ([⟨0, -1⟩, ⟨1 / 5, -1⟩, ⟨2 / 5, -1⟩, ⟨3 / 5, -1⟩, ⟨4 / 5, -1⟩, ⟨1, -1⟩] : List (V2 ℚ)) =
      LoopExit.ret [] := by
  simp [runSpec, iterFuel, specStep, classify, count6, cross]
example [FSqrt ℚ] [FSignum ℚ] [OfInt ℚ] :
    runSpec 100000 ([⟨0, 0⟩, ⟨1 / 5, 0⟩, ⟨2 / 5, 0⟩, ⟨3 / 5, 0⟩, ⟨4 / 5, 0⟩, ⟨1, 0⟩] : List (V2 ℚ)) = LoopExit.ret [] ∧
    IsSec (fun _ : ℚ => 0) [⟨0, 0⟩, ⟨1 / 5, 0⟩, ⟨2 / 5, 0⟩, ⟨3 / 5, 0⟩, ⟨4 / 5, 0⟩, ⟨1, 0⟩] 0 1 :=
  ⟨by simp [runSpec, iterFuel, specStep, classify, count6, cross],
   0, 0, 0, 0, 0, 0, by simp [mkSec, affX], fun u => by simp [bern5]⟩

end RootFinder

/-! ## (III)+(IV) combined: what is proved about `nearest_t` as a whole, and the hypothesis that remains -/
section Combined
variable [FSqrt ℝ] [FSignum ℝ] [OfInt ℝ]

/-- THE REMAINING HYPOTHESIS, by name: for every section of `p` with exactly one crossing that passes `flat_enough`,
    the single value reported for it (`flatValue`: the x-coordinate at the parameter returned by
    `find_x_intercept`'s Newton iteration) is within `δ` of every zero of `p` in the section's closed range at which
    `p` is not locally non-negative. (By `one_crossing_at_most_one_zero` there is at most one zero strictly inside such
    a section; that the 30 Newton steps from the chord's intercept reach it - `flat_enough` bounds the control polygon
    on ONE side of the chord only - is numerical, and is what the search measures.) -/
def FlatLeavesWithin (p : ℝ → ℝ) (δ : ℝ) : Prop :=
  ∀ (s : List (V2 ℝ)) (a b x : ℝ), 0 ≤ a → a < b → b ≤ 1 → IsSec p s a b → count_x_axis_crossings 6 s = 1 →
    flat_enough 6 s = true → a ≤ x → x ≤ b → p x = 0 →
      |flatValue s - x| ≤ δ ∨ ∃ lo hi, lo < x ∧ x < hi ∧ ∀ y, lo ≤ y → y ≤ hi → 0 ≤ p y

/-- `nearest_t` AS A WHOLE (ℝ; model of `distance_in_bezier_form` + generated root finder + generated candidate loop,
    every cubic and query point): if the root finder's loop ends with an empty stack and flat leaves are resolved to
    within `δ ≥ 2^-49` (`FlatLeavesWithin`), then the returned parameter is in [0,1] and its squared distance exceeds the
    minimum over the WHOLE curve by at most `2·M·δ` (`M` = largest ordinate of the quintic's control polygon). Pruning,
    subdivision and the depth limit are covered by proof; only `FlatLeavesWithin` and termination are assumed. -/
theorem nearest_t_within (w1 w2 w3 w4 point : V2 ℝ) (δ : ℝ) (hδ : (1 / 2 : ℝ) ^ 49 ≤ δ)
    (hterm : ∃ roots, runSpec 100000 (distance_in_bezier_form w1 w2 w3 w4 point) = LoopExit.ret roots)
    (hflat : FlatLeavesWithin (quinticAt w1 w2 w3 w4 point) δ) :
    let r := Model.Nearest.nearest_t w1 w2 w3 w4 point
    (0 ≤ r ∧ r ≤ 1) ∧ ∀ t, 0 ≤ t → t ≤ 1 →
      distSq w1 w2 w3 w4 point r ≤ distSq w1 w2 w3 w4 point t + 2 * quinticBound w1 w2 w3 w4 point * δ := by
  intro r
  obtain ⟨roots, hterm⟩ := hterm
  have hδ0 : 0 ≤ δ := le_trans (by positivity) hδ
  have hp : perpDot w1 w2 w3 w4 point = quinticAt w1 w2 w3 w4 point := by
    funext t; rw [quinticAt_eq]
  have hsec : IsSec (quinticAt w1 w2 w3 w4 point) (distance_in_bezier_form w1 w2 w3 w4 point) 0 1 := by
    rw [← hp]; exact quintic_is_section w1 w2 w3 w4 point
  have hroots := (find_bezier_roots_leaves _ _ hsec roots hterm).1
  refine ⟨(nearest_is_argmin distance_in_bezier_form (find_bezier_roots 6) w1 w2 w3 w4 point).1, ?_⟩
  apply nearest_approx_min (find_bezier_roots 6) w1 w2 w3 w4 point δ hδ0
  intro t ht0 ht1 hz
  rw [hroots]
  rcases zeros_accounted _ _ hsec roots hterm t ht0 ht1 hz with
    ⟨s, a, b, ha0, hat, htb, hb1, hab, hs, hc1, hfl, hv⟩ | ⟨v, hv, hd⟩ | hC
  · rcases hflat s a b t ha0 hab hb1 hs hc1 hfl hat htb hz with h | h
    · exact Or.inl ⟨_, hv, h⟩
    · exact Or.inr h
  · exact Or.inl ⟨v, hv, by rw [abs_sub_comm]; exact le_trans hd hδ⟩
  · exact Or.inr hC

/-- THE SAME IN DISTANCE UNITS: under the hypotheses of `nearest_t_within`, the distance from the query point to the
    curve point at the returned parameter exceeds the distance to ANY point of the curve by at most `sqrt(2·M·δ)`.
    (For a 100-unit box `M ≤ 3·|w−p|·|Δw|` is of the order 10^4..10^5, so flat leaves resolved to `δ = 10^-9` give about
    0.01 units, the tolerance C09 states; the search's counters `quintic.sign_change.*` measure this `δ` on the real
    code: 99.9 % of the sign changes are returned to 10^-9, all of them to 10^-3.) -/
theorem nearest_t_within_distance (w1 w2 w3 w4 point : V2 ℝ) (δ : ℝ) (hδ : (1 / 2 : ℝ) ^ 49 ≤ δ)
    (hterm : ∃ roots, runSpec 100000 (distance_in_bezier_form w1 w2 w3 w4 point) = LoopExit.ret roots)
    (hflat : FlatLeavesWithin (quinticAt w1 w2 w3 w4 point) δ) :
    let r := Model.Nearest.nearest_t w1 w2 w3 w4 point
    ∀ t, 0 ≤ t → t ≤ 1 →
      Real.sqrt (distSq w1 w2 w3 w4 point r) ≤
        Real.sqrt (distSq w1 w2 w3 w4 point t) + Real.sqrt (2 * quinticBound w1 w2 w3 w4 point * δ) := by
  intro r t ht0 ht1
  have h := (nearest_t_within w1 w2 w3 w4 point δ hδ hterm hflat).2 t ht0 ht1
  have hD : 0 ≤ distSq w1 w2 w3 w4 point t := by
    have h0 : (0.0 : ℝ) = 0 := by norm_num
    simp only [distSq, dot, h0]
    nlinarith [mul_self_nonneg (curve_point_at_pos w1 w2 w3 w4 t - point).x,
      mul_self_nonneg (curve_point_at_pos w1 w2 w3 w4 t - point).y]
  have hs1 := Real.sqrt_nonneg (distSq w1 w2 w3 w4 point t)
  have hs2 := Real.sqrt_nonneg (2 * quinticBound w1 w2 w3 w4 point * δ)
  rw [Real.sqrt_le_left (add_nonneg hs1 hs2)]
  have hM : 0 ≤ quinticBound w1 w2 w3 w4 point := le_trans (abs_nonneg _) (le_max_left _ _)
  have hε : 0 ≤ 2 * quinticBound w1 w2 w3 w4 point * δ :=
    mul_nonneg (mul_nonneg zero_le_two hM) (le_trans (by positivity) hδ)
  have e1 := Real.sq_sqrt hD
  have e2 := Real.sq_sqrt hε
  nlinarith [mul_nonneg hs1 hs2]

/-! Non-vacuity: the straight curve (0,0),(1,0),(2,0),(3,0) queried from (−1,0), behind its start: the quintic
    `3·(3t+1)` has the positive coefficients 3, 24/5, 33/5, 42/5, 51/5, 12, the loop prunes it at once and ends (no flat
    leaf is ever consulted and there is no zero in [0,1]), so both hypotheses hold for every `δ`. -/
example : runSpec 100000 (distance_in_bezier_form (K := ℝ) ⟨0, 0⟩ ⟨1, 0⟩ ⟨2, 0⟩ ⟨3, 0⟩ ⟨-1, 0⟩) = LoopExit.ret [] ∧
    ∀ δ, FlatLeavesWithin (quinticAt (K := ℝ) ⟨0, 0⟩ ⟨1, 0⟩ ⟨2, 0⟩ ⟨3, 0⟩ ⟨-1, 0⟩) δ := by
  constructor
  · have e : distance_in_bezier_form (K := ℝ) ⟨0, 0⟩ ⟨1, 0⟩ ⟨2, 0⟩ ⟨3, 0⟩ ⟨-1, 0⟩ =
        [⟨0, 3⟩, ⟨1 / 5, 24 / 5⟩, ⟨2 / 5, 33 / 5⟩, ⟨3 / 5, 42 / 5⟩, ⟨4 / 5, 51 / 5⟩, ⟨1, 12⟩] := by
      rw [dbf_explicit]; simp [dot]; norm_num
    have hc : count_x_axis_crossings 6
        ([⟨0, 3⟩, ⟨1 / 5, 24 / 5⟩, ⟨2 / 5, 33 / 5⟩, ⟨3 / 5, 42 / 5⟩, ⟨4 / 5, 51 / 5⟩, ⟨1, 12⟩] : List (V2 ℝ)) = 0 := by
      rw [count6]; simp [cross]; norm_num
    rw [e]
    unfold runSpec
    rw [show (100000 : Nat) = 99998 + 1 + 1 from rfl]
    simp only [iterFuel, specStep, classify, hc, List.getLast?_singleton, if_true, List.dropLast_singleton,
      List.getLast?_nil]
  · intro δ s a b x ha0 hab hb1 _ _ _ hax hxb hz
    exfalso
    have e : quinticAt (K := ℝ) ⟨0, 0⟩ ⟨1, 0⟩ ⟨2, 0⟩ ⟨3, 0⟩ ⟨-1, 0⟩ x = (3 * x + 1) * 3 := by
      rw [quinticAt_eq]
      simp [perpDot, tangentAt, derivative4, de_casteljau3, de_casteljau2, curve_point_at_pos, basis, dot]
      norm_num
      ring
    rw [e] at hz
    nlinarith

end Combined

/-! ## (V) `nearest_point`, `distance_to`, `path_closest_point` -/
section Path
variable [FSqrt K]

/-- `nearest_point` is the curve point at `nearest_t`, and `distance_to` is `Coord2::distance_to` from that point to the
    query: `sqrt` of the squared distance the candidate loop minimised (both generated from curve.rs) -/
theorem nearest_point_distance_to_consistent (nt : V2 K → V2 K → V2 K → V2 K → V2 K → K) (w1 w2 w3 w4 point : V2 K) :
    curve_nearest_point nt w1 w2 w3 w4 point = curve_point_at_pos w1 w2 w3 w4 (nt w1 w2 w3 w4 point) ∧
    curve_distance_to nt w1 w2 w3 w4 point = fsqrt (distSq w1 w2 w3 w4 point (nt w1 w2 w3 w4 point)) := by
  have h0 : (0.0 : K) = 0 := by norm_num
  refine ⟨rfl, ?_⟩
  simp only [curve_distance_to, curve_nearest_point, coord2_distance_to, distSq, dot, h0, v2_sub_x, v2_sub_y]
  congr 1
  ring

/-! Non-vacuity of `nearest_point_distance_to_consistent`: it holds for every `nt` by unfolding; e.g. `nt = 0`. -/
example [FSqrt ℚ] (w1 w2 w3 w4 p : V2 ℚ) :
    curve_nearest_point (fun _ _ _ _ _ => (0 : ℚ)) w1 w2 w3 w4 p = curve_point_at_pos w1 w2 w3 w4 (0 : ℚ) :=
  (nearest_point_distance_to_consistent _ w1 w2 w3 w4 p).1

variable [FConsts K]

/-- `path_closest_point` IS THE ARG-MIN OVER THE CURVES (any per-curve `nearest_t`, any list of curves): with
    `d(c)` = squared distance from the query to curve `c` at the parameter `nearest_t` reports for it,
    * a path without curves gives `(0, 0, sqrt(f64::MAX), origin)` (the function has no `None`: index 0 does not exist);
    * if some curve has `d < f64::MAX`, the result is `(j, nearest_t(c_j), sqrt(d(c_j)), C_j(nearest_t(c_j)))` for the
      FIRST index `j` whose curve attains the least `d` over all curves of the path (`<`: ties go to the earlier curve);
    * otherwise (every `d ≥ f64::MAX`) the start value `(0, 0, sqrt(f64::MAX), origin)` is returned unchanged. -/
theorem path_closest_point_argmin (nt : Cv K → V2 K → K) (curves : List (Cv K)) (point : V2 K) :
    (curves = [] → path_closest_point nt curves point = ⟨0, 0, fsqrt fmaxval, ⟨0, 0⟩⟩) ∧
    ((∃ c ∈ curves, curveDistSq nt point c < fmaxval) →
      ∃ j c, curves[j]? = some c ∧
        path_closest_point nt curves point =
          ⟨j, nt c point, fsqrt (curveDistSq nt point c), curve_point_at_pos c.t0 c.t1 c.t2 c.t3 (nt c point)⟩ ∧
        (∀ c' ∈ curves, curveDistSq nt point c ≤ curveDistSq nt point c') ∧
        ∀ i c', i < j → curves[i]? = some c' → curveDistSq nt point c < curveDistSq nt point c') ∧
    ((∀ c ∈ curves, fmaxval ≤ curveDistSq nt point c) →
      path_closest_point nt curves point = ⟨0, 0, fsqrt fmaxval, ⟨0, 0⟩⟩) := by
  rw [path_unfold]
  refine ⟨?_, ?_, ?_⟩
  · rintro rfl; rfl
  · rintro ⟨c0, hc0, hlt0⟩
    rcases pcFold_spec nt point curves 0 ⟨0, 0, fmaxval, ⟨0, 0⟩⟩ with ⟨_, hall⟩ | ⟨j, c, hj, e, _, hall, hfirst⟩
    · exact absurd hlt0 (not_lt.2 (hall c0 hc0))
    · refine ⟨j, c, hj, ?_, hall, hfirst⟩
      simp only [e, Nat.zero_add]
  · intro hall
    rcases pcFold_spec nt point curves 0 ⟨0, 0, fmaxval, ⟨0, 0⟩⟩ with ⟨e, _⟩ | ⟨j, c, hj, _, hlt, _, _⟩
    · simp only [e]
    · exact absurd hlt (not_lt.2 (hall c (List.mem_of_getElem? hj)))

/-! Non-vacuity: two point curves at (0,0) and (3,4), query (3,3), `nearest_t = 0` for both: the second curve wins. -/
example [FSqrt ℚ] [FConsts ℚ] (h : (fmaxval : ℚ) = 1000) : (path_closest_point (K := ℚ) (fun _ _ => 0)
    [⟨⟨0, 0⟩, ⟨0, 0⟩, ⟨0, 0⟩, ⟨0, 0⟩⟩, ⟨⟨3, 4⟩, ⟨3, 4⟩, ⟨3, 4⟩, ⟨3, 4⟩⟩] ⟨3, 3⟩).t0 = 1 := by
  rw [path_unfold]
  simp [pcFold, pcStep, curveDistSq, curve_point_at_pos, basis, dot, h]
  norm_num

end Path

end C09
