/-
C17  Contour tracing returns exactly the boundary of the sampled shape.

Property theorems only.  `Gen.cell_connected_edges`, `Gen.cell_from_corners`, `Gen.edge_at_coordinates`,
`Gen.edge_to_contour_coords` are regenerated from marching_squares.rs / sampled_contour.rs on every check.
The scan iterator and the tracer are the hand models of `Model/Contour.lean`, tied to the code by exhaustive
exact correspondence.
-/
import FloVerif.Model.Contour
import Mathlib.Tactic.Ring
import Mathlib.Tactic.NormNum
import Mathlib.Tactic.IntervalCases

namespace C17
open Prelude Gen Model.Contour

/-- corner bits of a cell value: tl = 1, tr = 2, bl = 4, br = 8 -/
def tl (c : Nat) : Bool := c % 2 == 1
def tr (c : Nat) : Bool := (c / 2) % 2 == 1
def bl (c : Nat) : Bool := (c / 4) % 2 == 1
def br (c : Nat) : Bool := (c / 8) % 2 == 1

/-- the sides of a cell whose two corners differ (left joins tl–bl, top tl–tr, right tr–br, bottom bl–br) -/
def sideMixed (c side : Nat) : Bool :=
  if side == edge_left then tl c != bl c
  else if side == edge_top then tl c != tr c
  else if side == edge_right then tr c != br c
  else if side == edge_bottom then bl c != br c
  else false

/-- all sides named by the table entry of a cell, with multiplicity -/
def sidesOf (c : Nat) : List Nat := (cell_connected_edges c).flatMap (fun p => [p.1, p.2])

/-- the packing of the corner bits (the whole domain: 16 combinations) -/
theorem from_corners_bits : ∀ a b c d : Bool,
    tl (cell_from_corners a b c d) = a ∧ tr (cell_from_corners a b c d) = b ∧
    bl (cell_from_corners a b c d) = c ∧ br (cell_from_corners a b c d) = d ∧ cell_from_corners a b c d < 16 := by
  decide

/-- the marching-squares table (the whole domain: all 16 cells): a cell connects exactly the sides whose two
    corners differ, each exactly once; in particular the empty and the full cell connect nothing, and every
    pair joins two distinct sides -/
theorem table_spec : ∀ c < 16, (∀ side < 4, (sidesOf c).count side = if sideMixed c side then 1 else 0) ∧
    (∀ p ∈ cell_connected_edges c, p.1 ≠ p.2 ∧ p.1 < 4 ∧ p.2 < 4) := by
  decide

/-- an even number of sides is mixed, so the pairs use them all -/
theorem table_pairs_count : ∀ c < 16, 2 * (cell_connected_edges c).length =
    ((List.range 4).filter (sideMixed c)).length := by
  decide

private theorem shl_or_one (o : Nat) : (o <<< 1 ||| 1) = 2 * o + 1 := by
  rw [Nat.shiftLeft_eq, pow_one]
  have := Nat.two_pow_add_eq_or_of_lt (i := 1) (b := 1) (by norm_num) o
  simp only [pow_one] at this
  rw [Nat.mul_comm]
  omega

private theorem shl_or_zero (o : Nat) : (o <<< 1 ||| 0) = 2 * o := by
  simp [Nat.shiftLeft_eq]; omega

/-- explicit form of the edge numbering -/
theorem at_coordinates_eq (w x y : Nat) :
    edge_at_coordinates edge_left w x y = 2 * ((w + 1) * y + x) ∧
    edge_at_coordinates edge_top w x y = 2 * ((w + 1) * y + x) + 1 ∧
    edge_at_coordinates edge_right w x y = 2 * ((w + 1) * y + x + 1) ∧
    edge_at_coordinates edge_bottom w x y = 2 * ((w + 1) * y + x + (w + 1)) + 1 := by
  simp only [edge_at_coordinates, edge_left, edge_top, edge_right, edge_bottom]
  refine ⟨?_, ?_, ?_, ?_⟩
  · show ((w + 1) * y + x) <<< 1 ||| (0 &&& 1) = _
    rw [show (0 &&& 1 : Nat) = 0 by decide, shl_or_zero]
  · show ((w + 1) * y + x) <<< 1 ||| (1 &&& 1) = _
    rw [show (1 &&& 1 : Nat) = 1 by decide, shl_or_one]
  · show ((w + 1) * y + x + 1) <<< 1 ||| (2 &&& 1) = _
    rw [show (2 &&& 1 : Nat) = 0 by decide, shl_or_zero]
  · show ((w + 1) * y + x + (w + 1)) <<< 1 ||| (3 &&& 1) = _
    rw [show (3 &&& 1 : Nat) = 1 by decide, shl_or_one]

/-- neighbouring cells name a shared side by the same edge id: the right side of (x,y) is the left side of
    (x+1,y) and the bottom side of (x,y) is the top side of (x,y+1) -/
theorem edge_ids_shared (w x y : Nat) :
    edge_at_coordinates edge_right w x y = edge_at_coordinates edge_left w (x + 1) y ∧
    edge_at_coordinates edge_bottom w x y = edge_at_coordinates edge_top w x (y + 1) := by
  obtain ⟨_, _, h3, h4⟩ := at_coordinates_eq w x y
  obtain ⟨h1', _, _, _⟩ := at_coordinates_eq w (x + 1) y
  obtain ⟨_, h2', _, _⟩ := at_coordinates_eq w x (y + 1)
  rw [h3, h4, h1', h2']
  constructor <;> ring

/-- distinct sides of distinct cells never share an id otherwise: ids of vertical sides are even, of
    horizontal sides odd, and within one kind the id determines the position (for x ≤ w) -/
theorem edge_id_injective (w x y x' y' : Nat) (hx : x ≤ w) (hx' : x' ≤ w) :
    (edge_at_coordinates edge_left w x y = edge_at_coordinates edge_left w x' y' → x = x' ∧ y = y') ∧
    (edge_at_coordinates edge_top w x y = edge_at_coordinates edge_top w x' y' → x = x' ∧ y = y') ∧
    edge_at_coordinates edge_left w x y ≠ edge_at_coordinates edge_top w x' y' := by
  obtain ⟨h1, h2, _, _⟩ := at_coordinates_eq w x y
  obtain ⟨h1', h2', _, _⟩ := at_coordinates_eq w x' y'
  rw [h1, h2, h1', h2']
  have key : (w + 1) * y + x = (w + 1) * y' + x' → x = x' ∧ y = y' := by
    intro h
    have hy : y = y' := by
      have e1 : ((w + 1) * y + x) / (w + 1) = y := by
        rw [Nat.mul_add_div (by omega), Nat.div_eq_of_lt (by omega)]; rfl
      have e2 : ((w + 1) * y' + x') / (w + 1) = y' := by
        rw [Nat.mul_add_div (by omega), Nat.div_eq_of_lt (by omega)]; rfl
      rw [← e1, ← e2, h]
    subst hy
    exact ⟨by omega, rfl⟩
  refine ⟨fun h => key (by omega), fun h => key (by omega), by omega⟩

/-- `to_contour_coords` inverts the numbering: the top side of cell (x,y) is the edge between positions
    (x,y) and (x+1,y), the left side the edge between (x,y) and (x,y+1) (positions are samples shifted by one) -/
theorem to_contour_coords_at_coordinates (w x y : Nat) (hx : x ≤ w) :
    edge_to_contour_coords (edge_at_coordinates edge_top w x y) w = T2.mk (T2.mk x y) (T2.mk (x + 1) y) ∧
    edge_to_contour_coords (edge_at_coordinates edge_left w x y) w = T2.mk (T2.mk x y) (T2.mk x (y + 1)) := by
  obtain ⟨h1, h2, _, _⟩ := at_coordinates_eq w x y
  rw [h1, h2]
  have hdiv : ((w + 1) * y + x) / (w + 1) = y := by
    rw [Nat.mul_add_div (by omega), Nat.div_eq_of_lt (by omega)]; rfl
  have hmod : ((w + 1) * y + x) % (w + 1) = x := by
    rw [Nat.mul_add_mod, Nat.mod_eq_of_lt (by omega)]
  have s1 : (2 * ((w + 1) * y + x) + 1) >>> 1 = (w + 1) * y + x := by
    simp [Nat.shiftRight_eq_div_pow]; omega
  have s0 : (2 * ((w + 1) * y + x)) >>> 1 = (w + 1) * y + x := by
    simp [Nat.shiftRight_eq_div_pow]
  have a1 : (2 * ((w + 1) * y + x) + 1) &&& 1 = 1 := by simp [Nat.and_one_is_mod]
  have a0 : (2 * ((w + 1) * y + x)) &&& 1 = 0 := by simp [Nat.and_one_is_mod]
  constructor
  · simp only [edge_to_contour_coords, edge_is_horizontal, s1, a1, hdiv, hmod]
    rfl
  · simp only [edge_to_contour_coords, edge_is_horizontal, s0, a0, hdiv, hmod]
    rfl

/-! merged runs -/

/-- strictly separated: each run ends before the next one starts -/
def Separated : List Run → Prop
  | a :: b :: rest => a.2 < b.1 ∧ Separated (b :: rest)
  | _ => True

/-- `merge_overlapping_intercepts` produces strictly separated runs from runs sorted by start — the invariant
    the scan iterator's corner tests and skip-ahead moves depend on -/
theorem mergeRuns_separated : ∀ (n : Nat) (l : List Run), l.length ≤ n → (l.Pairwise (fun a b => a.1 ≤ b.1)) →
    Separated (mergeRuns l) ∧ (∀ a, (mergeRuns l).head? = some a → ∃ b, l.head? = some b ∧ a.1 = b.1)
  | 0, l, h, _ => by
    have : l = [] := List.length_eq_zero_iff.1 (Nat.le_zero.1 h)
    subst this
    simp [mergeRuns, Separated]
  | n + 1, l, h, hs => by
    match l, h, hs with
    | [], _, _ => simp [mergeRuns, Separated]
    | [a], _, _ => simp [mergeRuns, Separated]
    | a :: b :: rest, h, hs =>
      rw [mergeRuns]
      split
      · have hs' : ((a.1, b.2) :: rest).Pairwise (fun a b => a.1 ≤ b.1) := by
          rw [List.pairwise_cons] at hs ⊢
          obtain ⟨h1, h2⟩ := hs
          rw [List.pairwise_cons] at h2
          exact ⟨fun c hc => h1 c (List.mem_cons_of_mem _ hc), h2.2⟩
        have ih := mergeRuns_separated n ((a.1, b.2) :: rest) (by simp at h ⊢; omega) hs'
        refine ⟨ih.1, ?_⟩
        intro x hx
        obtain ⟨y, hy, hxy⟩ := ih.2 x hx
        simp only [List.head?_cons, Option.some.injEq] at hy
        subst hy
        exact ⟨a, rfl, hxy⟩
      · rename_i hlt
        have hs' : (b :: rest).Pairwise (fun a b => a.1 ≤ b.1) := (List.pairwise_cons.1 hs).2
        have ih := mergeRuns_separated n (b :: rest) (by simp at h ⊢; omega) hs'
        refine ⟨?_, fun x hx => ⟨a, rfl, by simp at hx; rw [← hx]⟩⟩
        match hm : mergeRuns (b :: rest), ih with
        | [], _ => simp [Separated]
        | c :: more, ih =>
          obtain ⟨y, hy, hcy⟩ := ih.2 c (by simp)
          simp only [List.head?_cons, Option.some.injEq] at hy
          subst hy
          refine ⟨?_, ih.1⟩
          rw [hcy]
          exact Nat.lt_of_not_le hlt

example : mergeRuns [(0, 2), (2, 3), (5, 6)] = [(0, 3), (5, 6)] ∧ Separated (mergeRuns [(0, 2), (2, 3), (5, 6)]) := by
  simp [mergeRuns, Separated]

/-! non-vacuity / sanity on a concrete bitmap: a single pixel has 4 edge cells and one loop of its 4 boundary edges -/
example : edgeCells 1 [[true]] = mixedCells 1 [[true]] ∧ (edgeCells 1 [[true]]).length = 4 := by decide

end C17
