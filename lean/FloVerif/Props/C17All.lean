/-
C17  End-to-end statement: scan + trace.  Combines `C17Scan.scan_spec` (the iterator yields exactly the mixed
cells) with `C17Trace.trace_loops` (tracing the mixed cells returns closed loops using every boundary edge once).
-/
import FloVerif.Props.C17Scan
import FloVerif.Props.C17Trace

namespace C17All
open Prelude Gen Model.Contour

/-- for EVERY bitmap (rows of equal length `w`): the model of `trace_contours_from_samples` does not panic and
    returns closed loops (first element repeated last) whose consecutive elements are joined inside one mixed
    cell and which together use every edge between an inside and an outside sample exactly once -/
theorem trace_contours_spec (w : Nat) (rows : List (List Bool)) (hrows : ∀ r ∈ rows, r.length = w) :
    ∃ loops, traceContours w rows = some loops ∧
      (∀ l ∈ loops, 2 ≤ l.length ∧ l.head? = l.getLast? ∧ l.IsChain (C17Trace.Joined w (mixedCells w rows))) ∧
      (loops.flatMap (·.dropLast)).Perm (boundaryEdges w rows) := by
  simp only [traceContours]
  rw [C17Scan.scan_spec w rows hrows]
  exact C17Trace.trace_loops w rows hrows

end C17All
