/-
C20 (line_clip_to_bounds, polynomial_to_bezier, points_are_clockwise)  Totality of the functions generated in session 4.

Same setting as `Props/C20.lean`: the generated definitions at `XQ` (exact arithmetic with the IEEE rules for x/0, 0/0, signed zeros,
NaN comparisons; no rounding).  `line_clip_to_bounds` divides `edge/delta` for each of the four box edges; the `delta == 0.0` test it makes
first is a test of the divisor itself, so for finite input every quotient is finite and whatever segment is returned is finite.
-/
import FloVerif.Props.C20

set_option linter.unusedSectionVars false
namespace C20
open Prelude Gen XQ

/-- an invariant of the state of a `for` with state that can `return` holds for the state the loop ends with -/
theorem foldlRet_inv {α β ρ : Type} (Inv : β → Prop) (P : α → Prop) (f : β → α → Sum β ρ)
    (hstep : ∀ s x, P x → Inv s → ∀ s', f s x = Sum.inl s' → Inv s') :
    ∀ (l : List α) (s : β), (∀ x ∈ l, P x) → Inv s → ∀ s', foldlRet l s f = Sum.inl s' → Inv s'
  | [], s, _, h, s', hs => by simp only [foldlRet, Sum.inl.injEq] at hs; rw [← hs]; exact h
  | x :: xs, s, hl, h, s', hs => by
    rw [foldlRet] at hs
    cases hf : f s x with
    | inl s1 =>
      rw [hf] at hs
      exact foldlRet_inv Inv P f hstep xs s1 (fun y hy => hl y (List.mem_cons_of_mem _ hy))
        (hstep s x (hl x List.mem_cons_self) h s1 hf) s' hs
    | inr r => rw [hf] at hs; cases hs

/-- whatever such a loop returns from inside is a value one of its steps returned -/
theorem foldlRet_inr {α β ρ : Type} (Q : ρ → Prop) (f : β → α → Sum β ρ) (hq : ∀ s x r, f s x = Sum.inr r → Q r) :
    ∀ (l : List α) (s : β) (r : ρ), foldlRet l s f = Sum.inr r → Q r
  | [], s, r, hs => by simp [foldlRet] at hs
  | x :: xs, s, r, hs => by
    rw [foldlRet] at hs
    cases hf : f s x with
    | inl s1 => rw [hf] at hs; exact foldlRet_inr Q f hq xs s1 r hs
    | inr r1 => rw [hf] at hs; cases hs; exact hq s x r hf

/-- `line_clip_to_bounds` IS TOTAL ON FINITE INPUT: for a finite line and a finite box (degenerate ones included: a point line, a
    line parallel to an edge, a box of zero width), a returned segment has finite end points - the only divisions, `edge / delta`,
    are reached after `delta == 0.0` has answered false -/
theorem line_clip_to_bounds_fin (line bounds seg : T2 Pt Pt) (hl : LineFin line) (hb : LineFin bounds)
    (h : line_clip_to_bounds line bounds = some seg) : LineFin seg := by
  obtain ⟨⟨hx1, hy1⟩, ⟨hx2, hy2⟩⟩ := hl
  obtain ⟨⟨bx1, by1⟩, ⟨bx2, by2⟩⟩ := hb
  unfold line_clip_to_bounds at h
  dsimp only at h
  have hdx : Fin (line.t1.x - line.t0.x) := by xq_fin
  have hdy : Fin (line.t1.y - line.t0.y) := by xq_fin
  have hxmin := fin_fmin bx1 bx2
  have hymin := fin_fmin by1 by2
  have hxmax := fin_fmax bx1 bx2
  have hymax := fin_fmax by1 by2
  -- every (delta, edge) pair of the loop is finite
  have hP : ∀ x ∈ List.zipWith (fun a_ b_ => T2.mk a_ b_)
      [-(line.t1.x - line.t0.x), line.t1.x - line.t0.x, -(line.t1.y - line.t0.y), line.t1.y - line.t0.y]
      [line.t0.x - fmin bounds.t0.x bounds.t1.x, fmax bounds.t0.x bounds.t1.x - line.t0.x,
       line.t0.y - fmin bounds.t0.y bounds.t1.y, fmax bounds.t0.y bounds.t1.y - line.t0.y], Fin x.t0 ∧ Fin x.t1 := by
    intro x hx
    simp only [List.zipWith_cons_cons, List.zipWith_nil_right, List.mem_cons, List.mem_nil_iff, or_false] at hx
    rcases hx with rfl | rfl | rfl | rfl <;> constructor <;> xq_fin
  split at h
  · -- a `return` from inside the loop: only ever `None`
    rename_i r hr
    have := foldlRet_inr (fun r : Option (T2 Pt Pt) => r = none) _ (fun s x r hf => by
      split_ifs at hf <;> first | (cases hf; rfl) | cases hf) _ _ _ hr
    rw [this] at h; cases h
  · rename_i fin_ hfin
    have hinv := foldlRet_inv (fun s : T2 XQ XQ => Fin s.t0 ∧ Fin s.t1) (fun x : T2 XQ XQ => Fin x.t0 ∧ Fin x.t1) _
      (fun s x hx hs s' hf => by
        split_ifs at hf with hz he h1 h2
        · cases hf; exact hs
        · have hne := ne_of_not_beq_zero hx.1 hz
          cases hf; exact ⟨fin_div hx.2 hx.1 hne, hs.2⟩
        · have hne := ne_of_not_beq_zero hx.1 hz
          cases hf; exact ⟨hs.1, fin_div hx.2 hx.1 hne⟩
        · cases hf; exact hs) _ _ hP ⟨fin_zero_lit, fin_one_lit⟩ _ hfin
    split_ifs at h
    simp only [Option.some.injEq] at h
    subst h
    obtain ⟨h1, h2⟩ := hinv
    constructor <;> xq_fin

/-- non-vacuity: the diagonal of the unit square clipped to the box (1/4, 1/4) .. (3/4, 3/4) is a segment -/
example : (line_clip_to_bounds (K := XQ) ⟨⟨fin 0, fin 0⟩, ⟨fin 1, fin 1⟩⟩ ⟨⟨fin (1/4), fin (1/4)⟩, ⟨fin (3/4), fin (3/4)⟩⟩).isSome = true := by
  decide +kernel

end C20
