/-
C08 (error bound)  What `fit_curve_cubic` accepts is within `max_error` of every sample at a parameter of the curve.

`max_error_for_curve` (fit.rs) maps every sample `pᵢ` with its parameter `uᵢ` to the squared distance
`|pᵢ − C(uᵢ)|²` (`Gen.fit_point_error`, the closure of the `.map`) and then picks the biggest
(`Gen.max_error_pick`, the loop and the final square root); both are regenerated from the Rust source on every
check.  `fit_curve_cubic` returns the candidate only when that value is `≤ max_error`.  The parameters `uᵢ` come
from chord-length parameterisation and from `newton_raphson_root_find`, which stays in [0,1]
(`C08.newton_in_unit`, repair F10), so `C(uᵢ)` is a point of the curve.

`K` is any ordered field; the square root is any monotone function (`sqrt` of binary64 is one).
-/
import FloVerif.Gen.Fit
import Mathlib.Tactic.Ring
import Mathlib.Tactic.NormNum.OfScientific
import Mathlib.Tactic.Linarith
import Mathlib.Algebra.Order.Field.Basic

set_option linter.unusedSectionVars false
namespace C08Error
open Prelude Gen

variable {K : Type} [Field K] [LinearOrder K] [IsStrictOrderedRing K] [Inhabited K] [FSqrt K]

theorem lit0 : (0.0 : K) = 0 := by norm_num

/-- the state of the selection loop after any prefix: the running maximum is `≥ 0` and `≥` every error seen so far, and it is
    either the start value `0` or one of the errors seen -/
theorem pick_fold (l : List (T2 Nat K)) (b : K) (o : Nat) (hb : 0 ≤ b) :
    let r := foldlT l (T2.mk b o) (fun st it =>
      let upd_ := (if (decide (it.t1 > st.t0)) then (T2.mk it.t1 it.t0) else (T2.mk st.t0 st.t1))
      (T2.mk upd_.t0 upd_.t1))
    0 ≤ r.t0 ∧ b ≤ r.t0 ∧ (∀ it ∈ l, it.t1 ≤ r.t0) ∧ (r.t0 = b ∨ ∃ it ∈ l, it.t1 = r.t0) := by
  induction l generalizing b o with
  | nil => simp [foldlT, hb]
  | cons x xs ih =>
    simp only [foldlT, List.foldl_cons]
    by_cases h : x.t1 > b
    · have hx : 0 ≤ x.t1 := le_trans hb h.le
      have := ih x.t1 x.t0 hx
      simp only [foldlT] at this
      simp only [h, decide_true, if_true]
      obtain ⟨h1, h2, h3, h4⟩ := this
      refine ⟨h1, le_trans h.le h2, ?_, ?_⟩
      · intro it hit
        rcases List.mem_cons.1 hit with rfl | hit
        · exact h2
        · exact h3 it hit
      · rcases h4 with h4 | ⟨it, hit, e⟩
        · exact Or.inr ⟨x, List.mem_cons_self, h4.symm⟩
        · exact Or.inr ⟨it, List.mem_cons_of_mem _ hit, e⟩
    · have := ih b o hb
      simp only [foldlT] at this
      simp only [h, decide_false, Bool.false_eq_true, if_false]
      obtain ⟨h1, h2, h3, h4⟩ := this
      refine ⟨h1, h2, ?_, ?_⟩
      · intro it hit
        rcases List.mem_cons.1 hit with rfl | hit
        · exact le_trans (not_lt.1 h) h2
        · exact h3 it hit
      · rcases h4 with h4 | ⟨it, hit, e⟩
        · exact Or.inl h4
        · exact Or.inr ⟨it, List.mem_cons_of_mem _ hit, e⟩

/-- THE REPORTED ERROR DOMINATES EVERY SAMPLE: for every list of squared errors, the value `max_error_for_curve` returns is the
    square root of a number `m ≥ 0` with `e ≤ m` for every squared error `e`; `m` is `0` or one of the squared errors -/
theorem max_error_pick_spec (errors : List K) :
    ∃ m : K, (max_error_pick errors).t0 = fsqrt m ∧ 0 ≤ m ∧ (∀ e ∈ errors, e ≤ m) ∧ (m = 0 ∨ m ∈ errors) := by
  have h := pick_fold (K := K) (List.map (fun p => T2.mk p.2 p.1) (List.zipIdx errors)) 0 0 (le_refl 0)
  simp only at h
  obtain ⟨h1, _, h3, h4⟩ := h
  refine ⟨_, ?_, h1, ?_, ?_⟩
  · simp only [max_error_pick, lit0]
  · intro e he
    obtain ⟨i, hi⟩ := List.mem_iff_getElem.1 he
    obtain ⟨hi, rfl⟩ := hi
    apply h3 (T2.mk i errors[i])
    simp only [List.mem_map]
    exact ⟨(errors[i], i), by simp [List.mem_zipIdx_iff_getElem?, hi], rfl⟩
  · rcases h4 with h4 | ⟨it, hit, e⟩
    · exact Or.inl h4
    · right
      simp only [List.mem_map] at hit
      obtain ⟨p, hp, rfl⟩ := hit
      rw [← e]
      exact List.mem_of_getElem? (List.mem_zipIdx_iff_getElem?.1 hp)

/-- WHAT IS ACCEPTED IS WITHIN `max_error` OF EVERY SAMPLE: if the value returned by `max_error_for_curve` for the candidate
    `w1..w4` and the parameters `us` is `≤ max_error` (the acceptance test of `fit_curve_cubic`), then for every sample `p` with
    its parameter `u` the distance `sqrt |p − C(u)|²` to the curve point at `u` is `≤ max_error` - for any monotone square root.
    Points are of any type with a dot product (1-D, 2-D, 3-D).  With `C08.newton_in_unit` (every re-parameterised `u` is in [0,1]) the
    curve point at `u` is a point of the returned curve. -/
theorem accepted_within_error {P : Type} [Inhabited P] [Add P] [Sub P] [HMul P K P] [Dot P K]
    (hmono : ∀ a b : K, a ≤ b → (fsqrt a : K) ≤ fsqrt b)
    (w1 w2 w3 w4 : P) (samples : List (P × K)) (max_error : K)
    (hacc : (max_error_pick (samples.map (fun s => fit_point_error w1 w2 w3 w4 s.1 s.2))).t0 ≤ max_error) :
    ∀ s ∈ samples, (fsqrt (dot (s.1 - curve_point_at_pos w1 w2 w3 w4 s.2) (s.1 - curve_point_at_pos w1 w2 w3 w4 s.2) : K) : K) ≤ max_error := by
  intro s hs
  obtain ⟨m, hm, _, hle, _⟩ := max_error_pick_spec (samples.map (fun s => fit_point_error w1 w2 w3 w4 s.1 s.2))
  have : fit_point_error w1 w2 w3 w4 s.1 s.2 ≤ m := hle _ (List.mem_map.2 ⟨s, hs, rfl⟩)
  rw [hm] at hacc
  exact le_trans (hmono _ _ this) hacc

/-- the selection loop with its index: the state is the start state, or the error AND the index of one element that was strictly
    bigger than the start value -/
theorem pick_fold_index (l : List (T2 Nat K)) (b : K) (o : Nat) :
    let r := foldlT l (T2.mk b o) (fun st it =>
      let upd_ := (if (decide (it.t1 > st.t0)) then (T2.mk it.t1 it.t0) else (T2.mk st.t0 st.t1))
      (T2.mk upd_.t0 upd_.t1))
    (r.t0 = b ∧ r.t1 = o) ∨ ∃ it ∈ l, it.t1 = r.t0 ∧ it.t0 = r.t1 ∧ b < it.t1 := by
  induction l generalizing b o with
  | nil => simp [foldlT]
  | cons x xs ih =>
    simp only [foldlT, List.foldl_cons]
    by_cases h : x.t1 > b
    · have := ih x.t1 x.t0
      simp only [foldlT] at this
      simp only [h, decide_true, if_true]
      rcases this with ⟨h1, h2⟩ | ⟨it, hit, e1, e2, e3⟩
      · exact Or.inr ⟨x, List.mem_cons_self, h1.symm, h2.symm, h⟩
      · exact Or.inr ⟨it, List.mem_cons_of_mem _ hit, e1, e2, lt_trans h e3⟩
    · have := ih b o
      simp only [foldlT] at this
      simp only [h, decide_false, Bool.false_eq_true, if_false]
      rcases this with h1 | ⟨it, hit, e1, e2, e3⟩
      · exact Or.inl h1
      · exact Or.inr ⟨it, List.mem_cons_of_mem _ hit, e1, e2, e3⟩

/-- THE SPLIT INDEX POINTS AT A POSITIVE ERROR: `max_error_for_curve` returns `(sqrt 0, 0)`, or `(sqrt e, i)` where `e > 0` is the
    squared error of sample `i` -/
theorem max_error_pick_index (errors : List K) :
    ((max_error_pick errors).t0 = fsqrt 0 ∧ (max_error_pick errors).t1 = 0) ∨
    ∃ (i : Nat) (hi : i < errors.length), (max_error_pick errors).t1 = i ∧ (max_error_pick errors).t0 = fsqrt errors[i] ∧ 0 < errors[i] := by
  have h := pick_fold_index (K := K) (List.map (fun p => T2.mk p.2 p.1) (List.zipIdx errors)) 0 0
  simp only at h
  rcases h with ⟨h1, h2⟩ | ⟨it, hit, e1, e2, e3⟩
  · left
    simp only [max_error_pick, lit0]
    exact ⟨by rw [h1], h2⟩
  · right
    simp only [List.mem_map] at hit
    obtain ⟨p, hp, rfl⟩ := hit
    have hget := List.mem_zipIdx_iff_getElem?.1 hp
    obtain ⟨hi, hv⟩ := List.getElem?_eq_some_iff.1 hget
    refine ⟨p.2, hi, ?_, ?_, ?_⟩
    · simp only [max_error_pick, lit0]; exact e2.symm
    · simp only [max_error_pick, lit0]; rw [hv]; exact congrArg _ e1.symm
    · rw [hv]; exact e3

/-- A REJECTED CANDIDATE IS SPLIT AT AN INTERIOR SAMPLE: if the first and the last sample have no error (the candidate starts at the
    first point and ends at the last one, their parameters being 0 and 1), the tolerance is `≥ 0` and `sqrt 0 ≤ 0`, then whenever the
    reported error is NOT `≤` the tolerance the split index `i` satisfies `1 ≤ i` and `i + 1 < n`: both `points[0..=i]` and
    `points[i..]` are strictly shorter than `points` and have at least two points - the recursion of `fit_curve_cubic` terminates,
    and `points[i-1]`, `points[i+1]` (fit.rs: `tangent_between`) are in range -/
theorem split_interior (errors : List K) (tol : K) (htol : 0 ≤ tol) (hs0 : (fsqrt (0 : K) : K) ≤ 0)
    (hfirst : ∀ h : 0 < errors.length, errors[0] ≤ 0)
    (hlast : ∀ h : 0 < errors.length, errors[errors.length - 1]'(by omega) ≤ 0)
    (hrej : ¬ (max_error_pick errors).t0 ≤ tol) :
    1 ≤ (max_error_pick errors).t1 ∧ (max_error_pick errors).t1 + 1 < errors.length := by
  rcases max_error_pick_index errors with ⟨h0, _⟩ | ⟨i, hi, hidx, _, hpos⟩
  · exact absurd (h0 ▸ le_trans hs0 htol) hrej
  · rw [hidx]
    have hlen : 0 < errors.length := by omega
    constructor
    · by_contra hc
      have : i = 0 := by omega
      subst this
      exact absurd (hfirst hlen) (not_le.2 hpos)
    · by_contra hc
      have : i = errors.length - 1 := by omega
      subst this
      exact absurd (hlast hlen) (not_le.2 hpos)

/-- non-vacuity: three squared errors; the biggest is picked with its index -/
example : letI : FSqrt ℚ := ⟨id⟩; (max_error_pick (K := ℚ) [1, 4, 2]).t1 = 1 := by
  simp only [max_error_pick, foldlT, List.zipIdx, List.map, List.foldl]
  norm_num

end C08Error
