/-
C06  Bounding boxes of a cubic Bézier curve (1-D instance, `Point = f64`).

Property theorems only.  `Gen.find_extremities`, `bounding_box4`, `fast_bounding_box`, `union_bounds`,
`f64_from_smallest_components`, `f64_from_biggest_components` and `de_casteljau4` are regenerated from
bezier/bounds.rs, bezier/curve.rs, geo/bounding_box.rs, geo/coord1.rs and bezier/basis.rs on every check.
Number type: `K = ℝ`, `f64::sqrt` is `Real.sqrt`.
-/
import FloVerif.Gen.CurveBounds
import Mathlib.Tactic
import Mathlib.Analysis.Calculus.LocalExtr.Basic
import Mathlib.Analysis.Calculus.Deriv.Pow
import Mathlib.Analysis.Calculus.Deriv.Add
import Mathlib.Analysis.Calculus.Deriv.Mul
import Mathlib.Algebra.QuadraticDiscriminant
import Mathlib.Topology.Order.Compact
import Mathlib.Analysis.SpecialFunctions.Sqrt

set_option linter.unusedSectionVars false
set_option linter.unusedVariables false
namespace C06
open Prelude Gen

/-- in exact arithmetic `f64::sqrt` is the real square root (0 on negative numbers) -/
noncomputable local instance : FSqrt ℝ := ⟨Real.sqrt⟩
/-- in exact arithmetic `f64::abs` is the absolute value -/
local instance : FAbs ℝ := ⟨fun a => |a|⟩

/-! ### the two component selectors are min and max -/

theorem smallest_eq_min (x y : ℝ) : f64_from_smallest_components x y = min x y := by
  simp only [f64_from_smallest_components, decide_eq_true_eq]
  split_ifs with h
  · exact (min_eq_left h.le).symm
  · exact (min_eq_right (not_lt.1 h)).symm

theorem biggest_eq_max (x y : ℝ) : f64_from_biggest_components x y = max x y := by
  simp only [f64_from_biggest_components, decide_eq_true_eq, gt_iff_lt]
  split_ifs with h
  · exact (max_eq_left h.le).symm
  · exact (max_eq_right (not_lt.1 h)).symm

/-! ### the curve as a polynomial, and its derivative -/

/-- the derivative coefficients exactly as `find_extremities` computes them -/
def dA (w1 w2 w3 w4 : ℝ) : ℝ := (-w1 + w2*3 - w3*3 + w4)*3
def dB (w1 w2 w3 : ℝ) : ℝ := (w1 - w2*2 + w3)*6
def dC (w1 w2 : ℝ) : ℝ := (w2 - w1)*3

/-- de Casteljau evaluation in power-basis form -/
theorem de_casteljau4_poly (s w1 w2 w3 w4 : ℝ) :
    de_casteljau4 s w1 w2 w3 w4
      = (w4 - 3*w3 + 3*w2 - w1) * s^3 + (3*w3 - 6*w2 + 3*w1) * s^2 + (3*w2 - 3*w1) * s + w1 := by
  simp only [de_casteljau4, de_casteljau3, de_casteljau2]
  norm_num
  ring

theorem de_casteljau4_zero (w1 w2 w3 w4 : ℝ) : de_casteljau4 (0:ℝ) w1 w2 w3 w4 = w1 := by
  rw [de_casteljau4_poly]; ring

theorem de_casteljau4_one (w1 w2 w3 w4 : ℝ) : de_casteljau4 (1:ℝ) w1 w2 w3 w4 = w4 := by
  rw [de_casteljau4_poly]; ring

theorem cubic_hasDerivAt (a b c d t : ℝ) :
    HasDerivAt (fun s : ℝ => a*s^3+b*s^2+c*s+d) (3*a*t^2 + 2*b*t + c) t := by
  have := ((((hasDerivAt_pow 3 t).const_mul a).add ((hasDerivAt_pow 2 t).const_mul b)).add
    ((hasDerivAt_id t).const_mul c)).add_const d
  have h : HasDerivAt (fun s : ℝ => a*s^3+b*s^2+c*s+d) _ t := this
  exact h.congr_deriv (by norm_num; ring)

/-- `a t² + b t + c` with the code's a, b, c IS the derivative of the curve -/
theorem derivative_coeffs (w1 w2 w3 w4 t : ℝ) :
    HasDerivAt (fun s => de_casteljau4 s w1 w2 w3 w4)
      (dA w1 w2 w3 w4 * t^2 + dB w1 w2 w3 * t + dC w1 w2) t := by
  have h := cubic_hasDerivAt (w4 - 3*w3 + 3*w2 - w1) (3*w3 - 6*w2 + 3*w1) (3*w2 - 3*w1) w1 t
  have hf : (fun s => de_casteljau4 s w1 w2 w3 w4)
      = fun s : ℝ => (w4 - 3*w3 + 3*w2 - w1) * s^3 + (3*w3 - 6*w2 + 3*w1) * s^2 + (3*w2 - 3*w1) * s + w1 := by
    funext s; exact de_casteljau4_poly s w1 w2 w3 w4
  rw [hf]
  convert h using 1
  simp only [dA, dB, dC]; ring

/-! ### the candidate list -/

/-- the three roots as the code computes them from a, b, c -/
noncomputable def root1 (a b c : ℝ) : ℝ := (-b + Real.sqrt (b*b - a*c*4)) / (a*2)
noncomputable def root2 (a b c : ℝ) : ℝ := (-b - Real.sqrt (b*b - a*c*4)) / (a*2)
noncomputable def root3 (a b c : ℝ) : ℝ := (-(2*(c - a))) / (2*(b - a))

/-- the shape of the list built by `find_extremities`, as a function of the three roots and of `aa` -/
noncomputable def candsOf (r1 r2 r3 aa : ℝ) : List ℝ :=
  let l : List ℝ := [1]
  let l := if (decide (r1 > 0) && decide (r1 < 1)) then l ++ [r1] else l
  let l := if (decide (r2 > 0) && decide (r2 < 1)) then l ++ [r2] else l
  let l := if aa != 0 then (if (decide (r3 > 0) && decide (r3 < 1)) then l ++ [r3] else l) else l
  l

theorem mem_push_if (l : List ℝ) (r t : ℝ) :
    t ∈ (if (decide (r > 0) && decide (r < 1)) then l ++ [r] else l) ↔ t ∈ l ∨ (t = r ∧ 0 < t ∧ t < 1) := by
  simp only [Bool.and_eq_true, decide_eq_true_eq, gt_iff_lt]
  split_ifs with h
  · simp only [List.mem_append, List.mem_singleton]
    constructor
    · rintro (h' | rfl)
      · exact Or.inl h'
      · exact Or.inr ⟨rfl, h⟩
    · rintro (h' | ⟨rfl, _⟩)
      · exact Or.inl h'
      · exact Or.inr rfl
  · constructor
    · exact Or.inl
    · rintro (h' | ⟨rfl, h'⟩)
      · exact h'
      · exact absurd h' h

theorem mem_candsOf (r1 r2 r3 aa t : ℝ) :
    t ∈ candsOf r1 r2 r3 aa ↔
      t = 1 ∨ (t = r1 ∧ 0 < t ∧ t < 1) ∨ (t = r2 ∧ 0 < t ∧ t < 1) ∨ (aa ≠ 0 ∧ t = r3 ∧ 0 < t ∧ t < 1) := by
  simp only [candsOf]
  by_cases haa : aa = 0
  · simp only [haa, bne_self_eq_false, Bool.false_eq_true, if_false, mem_push_if, List.mem_singleton,
      ne_eq, not_true_eq_false, false_and, or_false, or_assoc]
  · have hb : (aa != 0) = true := by simpa using haa
    simp only [hb, if_true, mem_push_if, List.mem_singleton, ne_eq, haa, not_false_eq_true, true_and,
      or_assoc]

theorem find_extremities_eq (w1 w2 w3 w4 : ℝ) :
    find_extremities w1 w2 w3 w4 =
      candsOf (root1 (dA w1 w2 w3 w4) (dB w1 w2 w3) (dC w1 w2))
        (root2 (dA w1 w2 w3 w4) (dB w1 w2 w3) (dC w1 w2))
        (root3 (dA w1 w2 w3 w4) (dB w1 w2 w3) (dC w1 w2))
        (2 * (dB w1 w2 w3 - dA w1 w2 w3 w4)) := by
  have h0 : (0.0:ℝ) = 0 := by norm_num
  have h1 : (1.0:ℝ) = 1 := by norm_num
  have h2 : (2.0:ℝ) = 2 := by norm_num
  have h3 : (3.0:ℝ) = 3 := by norm_num
  have h4 : (4.0:ℝ) = 4 := by norm_num
  have h6 : (6.0:ℝ) = 6 := by norm_num
  simp only [find_extremities, candsOf, root1, root2, root3, dA, dB, dC, fsqrt, h0, h1, h2, h3, h4, h6]
  rfl

/-- exact description of the list returned by `find_extremities` -/
theorem mem_find_extremities (w1 w2 w3 w4 t : ℝ) :
    t ∈ find_extremities w1 w2 w3 w4 ↔
      t = 1 ∨
      (t = root1 (dA w1 w2 w3 w4) (dB w1 w2 w3) (dC w1 w2) ∧ 0 < t ∧ t < 1) ∨
      (t = root2 (dA w1 w2 w3 w4) (dB w1 w2 w3) (dC w1 w2) ∧ 0 < t ∧ t < 1) ∨
      (2 * (dB w1 w2 w3 - dA w1 w2 w3 w4) ≠ 0 ∧
        t = root3 (dA w1 w2 w3 w4) (dB w1 w2 w3) (dC w1 w2) ∧ 0 < t ∧ t < 1) := by
  rw [find_extremities_eq, mem_candsOf]

/-- find_extremities returns only parameters in (0,1] -/
theorem find_extremities_range (w1 w2 w3 w4 : ℝ) :
    ∀ t ∈ find_extremities w1 w2 w3 w4, 0 < t ∧ t ≤ 1 := by
  intro t ht
  rw [mem_find_extremities] at ht
  rcases ht with rfl | ⟨_, h0, h1⟩ | ⟨_, h0, h1⟩ | ⟨_, _, h0, h1⟩
  · exact ⟨zero_lt_one, le_rfl⟩
  · exact ⟨h0, h1.le⟩
  · exact ⟨h0, h1.le⟩
  · exact ⟨h0, h1.le⟩

/-- `1.0` is always a candidate -/
theorem one_mem_find_extremities (w1 w2 w3 w4 : ℝ) : (1:ℝ) ∈ find_extremities w1 w2 w3 w4 := by
  rw [mem_find_extremities]; exact Or.inl rfl

/-- the quadratic formula as the code evaluates it: every real root of `a t² + b t + c` with `a ≠ 0`
    is `root1` or `root2` -/
theorem quadratic_root_cases (a b c t : ℝ) (ha : a ≠ 0) (hd : a * t^2 + b * t + c = 0) :
    t = root1 a b c ∨ t = root2 a b c := by
  have hdisc : b*b - a*c*4 = (2*a*t + b)^2 := by linear_combination (-4*a) * hd
  have hs : discrim a b c = Real.sqrt (b*b - a*c*4) * Real.sqrt (b*b - a*c*4) := by
    rw [Real.mul_self_sqrt (by rw [hdisc]; positivity)]
    simp only [discrim]; ring
  have hq : a * (t * t) + b * t + c = 0 := by rw [← hd]; ring
  have := (quadratic_eq_zero_iff ha hs t).1 hq
  rcases this with h | h
  · left; rw [h, root1]; congr 1; ring
  · right; rw [h, root2]; congr 1; ring

/-- every interior critical point is a candidate, unless the derivative is a constant (a = b = 0) -/
theorem candidates_cover (w1 w2 w3 w4 t : ℝ) (h0 : 0 < t) (h1 : t < 1)
    (hd : dA w1 w2 w3 w4 * t^2 + dB w1 w2 w3 * t + dC w1 w2 = 0)
    (hnc : ¬ (dA w1 w2 w3 w4 = 0 ∧ dB w1 w2 w3 = 0)) : t ∈ find_extremities w1 w2 w3 w4 := by
  rw [mem_find_extremities]
  generalize dA w1 w2 w3 w4 = a at *
  generalize dB w1 w2 w3 = b at *
  generalize dC w1 w2 = c at *
  by_cases ha : a = 0
  · have hb : b ≠ 0 := fun hb => hnc ⟨ha, hb⟩
    right; right; right
    subst ha
    have hlin : b * t + c = 0 := by linear_combination hd
    refine ⟨by simpa using hb, ?_, h0, h1⟩
    rw [root3]
    field_simp
    linear_combination hlin
  · rcases quadratic_root_cases a b c t ha hd with h | h
    · exact Or.inr (Or.inl ⟨h, h0, h1⟩)
    · exact Or.inr (Or.inr (Or.inl ⟨h, h0, h1⟩))

/-! ### the fold in `bounding_box4` -/

/-- the loop body of `bounding_box4` for an arbitrary evaluation function `g` -/
noncomputable def boxStep (g : ℝ → ℝ) (st : T2 ℝ ℝ) (t : ℝ) : T2 ℝ ℝ :=
  T2.mk (f64_from_smallest_components st.t0 (g t)) (f64_from_biggest_components st.t1 (g t))

theorem boxStep_mk (g : ℝ → ℝ) (m M x : ℝ) :
    boxStep g (T2.mk m M) x = T2.mk (min m (g x)) (max M (g x)) := by
  simp only [boxStep, smallest_eq_min, biggest_eq_max]

theorem foldl_boxStep_t0 (g : ℝ → ℝ) (l : List ℝ) (m M : ℝ) :
    (List.foldl (boxStep g) (T2.mk m M) l).t0 ≤ m ∧
    (∀ t ∈ l, (List.foldl (boxStep g) (T2.mk m M) l).t0 ≤ g t) ∧
    ((List.foldl (boxStep g) (T2.mk m M) l).t0 = m ∨
      ∃ t ∈ l, (List.foldl (boxStep g) (T2.mk m M) l).t0 = g t) := by
  induction l generalizing m M with
  | nil => simp
  | cons x xs ih =>
    simp only [List.foldl_cons, boxStep_mk]
    obtain ⟨h1, h2, h3⟩ := ih (min m (g x)) (max M (g x))
    refine ⟨h1.trans (min_le_left _ _), ?_, ?_⟩
    · intro t ht
      rcases List.mem_cons.1 ht with rfl | ht
      · exact h1.trans (min_le_right _ _)
      · exact h2 t ht
    · rcases h3 with h3 | ⟨t, ht, h3⟩
      · rcases min_choice m (g x) with hm | hm
        · left; rw [h3, hm]
        · right; exact ⟨x, List.mem_cons_self, by rw [h3, hm]⟩
      · right; exact ⟨t, List.mem_cons_of_mem _ ht, h3⟩

theorem foldl_boxStep_t1 (g : ℝ → ℝ) (l : List ℝ) (m M : ℝ) :
    M ≤ (List.foldl (boxStep g) (T2.mk m M) l).t1 ∧
    (∀ t ∈ l, g t ≤ (List.foldl (boxStep g) (T2.mk m M) l).t1) ∧
    ((List.foldl (boxStep g) (T2.mk m M) l).t1 = M ∨
      ∃ t ∈ l, (List.foldl (boxStep g) (T2.mk m M) l).t1 = g t) := by
  induction l generalizing m M with
  | nil => simp
  | cons x xs ih =>
    simp only [List.foldl_cons, boxStep_mk]
    obtain ⟨h1, h2, h3⟩ := ih (min m (g x)) (max M (g x))
    refine ⟨(le_max_left _ _).trans h1, ?_, ?_⟩
    · intro t ht
      rcases List.mem_cons.1 ht with rfl | ht
      · exact (le_max_right _ _).trans h1
      · exact h2 t ht
    · rcases h3 with h3 | ⟨t, ht, h3⟩
      · rcases max_choice M (g x) with hm | hm
        · left; rw [h3, hm]
        · right; exact ⟨x, List.mem_cons_self, by rw [h3, hm]⟩
      · right; exact ⟨t, List.mem_cons_of_mem _ ht, h3⟩

/-- `bounding_box4` is the fold of `boxStep` over the candidates, started at the curve value at 0 -/
theorem bounding_box4_eq (w1 w2 w3 w4 : ℝ) :
    bounding_box4 w1 w2 w3 w4 =
      List.foldl (boxStep (fun t => de_casteljau4 t w1 w2 w3 w4)) (T2.mk w1 w1)
        (find_extremities w1 w2 w3 w4) := by
  have h0 : (0.0:ℝ) = 0 := by norm_num
  simp only [bounding_box4, foldlT, h0, de_casteljau4_zero]
  rfl

/-- the lower face: below the start value and every candidate value, and equal to one of them -/
theorem box_t0_props (w1 w2 w3 w4 : ℝ) :
    (bounding_box4 w1 w2 w3 w4).t0 ≤ de_casteljau4 0 w1 w2 w3 w4 ∧
    (∀ t ∈ find_extremities w1 w2 w3 w4, (bounding_box4 w1 w2 w3 w4).t0 ≤ de_casteljau4 t w1 w2 w3 w4) ∧
    ((bounding_box4 w1 w2 w3 w4).t0 = de_casteljau4 0 w1 w2 w3 w4 ∨
      ∃ t ∈ find_extremities w1 w2 w3 w4, (bounding_box4 w1 w2 w3 w4).t0 = de_casteljau4 t w1 w2 w3 w4) := by
  rw [bounding_box4_eq, de_casteljau4_zero]
  exact foldl_boxStep_t0 (fun t => de_casteljau4 t w1 w2 w3 w4) _ w1 w1

/-- the upper face: above the start value and every candidate value, and equal to one of them -/
theorem box_t1_props (w1 w2 w3 w4 : ℝ) :
    de_casteljau4 0 w1 w2 w3 w4 ≤ (bounding_box4 w1 w2 w3 w4).t1 ∧
    (∀ t ∈ find_extremities w1 w2 w3 w4, de_casteljau4 t w1 w2 w3 w4 ≤ (bounding_box4 w1 w2 w3 w4).t1) ∧
    ((bounding_box4 w1 w2 w3 w4).t1 = de_casteljau4 0 w1 w2 w3 w4 ∨
      ∃ t ∈ find_extremities w1 w2 w3 w4, (bounding_box4 w1 w2 w3 w4).t1 = de_casteljau4 t w1 w2 w3 w4) := by
  rw [bounding_box4_eq, de_casteljau4_zero]
  exact foldl_boxStep_t1 (fun t => de_casteljau4 t w1 w2 w3 w4) _ w1 w1

/-! ### containment -/

theorem curve_continuous (w1 w2 w3 w4 : ℝ) : Continuous (fun s : ℝ => de_casteljau4 s w1 w2 w3 w4) := by
  have hf : (fun s => de_casteljau4 s w1 w2 w3 w4)
      = fun s : ℝ => (w4 - 3*w3 + 3*w2 - w1) * s^3 + (3*w3 - 6*w2 + 3*w1) * s^2 + (3*w2 - 3*w1) * s + w1 := by
    funext s; exact de_casteljau4_poly s w1 w2 w3 w4
  rw [hf]; fun_prop

/-- if the derivative is the zero constant the curve is constant -/
theorem curve_const_of_deriv_zero (w1 w2 w3 w4 : ℝ)
    (ha : dA w1 w2 w3 w4 = 0) (hb : dB w1 w2 w3 = 0) (hc : dC w1 w2 = 0) (s : ℝ) :
    de_casteljau4 s w1 w2 w3 w4 = w1 := by
  simp only [dA, dB, dC] at ha hb hc
  have e2 : w2 = w1 := by linarith
  have e3 : w3 = w1 := by linarith
  have e4 : w4 = w1 := by linarith
  rw [de_casteljau4_poly, e2, e3, e4]; ring

/-- an extremum of the curve over [0,1] is at 0, at a candidate, or the curve is constant -/
theorem extremum_location (w1 w2 w3 w4 t : ℝ) (ht : t ∈ Set.Icc (0:ℝ) 1)
    (hext : IsLocalExtr (fun s => de_casteljau4 s w1 w2 w3 w4) t ∨ t = 0 ∨ t = 1) :
    t = 0 ∨ t ∈ find_extremities w1 w2 w3 w4 ∨ ∀ s, de_casteljau4 s w1 w2 w3 w4 = w1 := by
  by_cases h0 : t = 0
  · exact Or.inl h0
  by_cases h1 : t = 1
  · exact Or.inr (Or.inl (h1 ▸ one_mem_find_extremities w1 w2 w3 w4))
  right
  have hin : 0 < t ∧ t < 1 := ⟨lt_of_le_of_ne ht.1 (Ne.symm h0), lt_of_le_of_ne ht.2 h1⟩
  have hloc : IsLocalExtr (fun s => de_casteljau4 s w1 w2 w3 w4) t := by
    rcases hext with h | h | h
    · exact h
    · exact absurd h h0
    · exact absurd h h1
  have hd := hloc.hasDerivAt_eq_zero (derivative_coeffs w1 w2 w3 w4 t)
  by_cases hnc : dA w1 w2 w3 w4 = 0 ∧ dB w1 w2 w3 = 0
  · right
    have hc : dC w1 w2 = 0 := by rw [hnc.1, hnc.2] at hd; linarith
    exact curve_const_of_deriv_zero w1 w2 w3 w4 hnc.1 hnc.2 hc
  · exact Or.inl (candidates_cover w1 w2 w3 w4 t hin.1 hin.2 hd hnc)

/-- the bounding box contains every point of the curve -/
theorem bounding_box_contains (w1 w2 w3 w4 t : ℝ) (h0 : 0 ≤ t) (h1 : t ≤ 1) :
    (bounding_box4 w1 w2 w3 w4).t0 ≤ de_casteljau4 t w1 w2 w3 w4 ∧
    de_casteljau4 t w1 w2 w3 w4 ≤ (bounding_box4 w1 w2 w3 w4).t1 := by
  have hcont : ContinuousOn (fun s : ℝ => de_casteljau4 s w1 w2 w3 w4) (Set.Icc 0 1) :=
    (curve_continuous w1 w2 w3 w4).continuousOn
  have htI : t ∈ Set.Icc (0:ℝ) 1 := ⟨h0, h1⟩
  obtain ⟨l0, l1, _⟩ := box_t0_props w1 w2 w3 w4
  obtain ⟨u0, u1, _⟩ := box_t1_props w1 w2 w3 w4
  have hloc : ∀ x ∈ Set.Icc (0:ℝ) 1, x ≠ 0 → x ≠ 1 → Set.Icc (0:ℝ) 1 ∈ nhds x := fun x hx hx0 hx1 =>
    Icc_mem_nhds (lt_of_le_of_ne hx.1 (Ne.symm hx0)) (lt_of_le_of_ne hx.2 hx1)
  constructor
  · obtain ⟨x, hx, hmin⟩ := isCompact_Icc.exists_isMinOn (Set.nonempty_Icc.2 zero_le_one) hcont
    have hle : de_casteljau4 x w1 w2 w3 w4 ≤ de_casteljau4 t w1 w2 w3 w4 := hmin htI
    have hext : IsLocalExtr (fun s => de_casteljau4 s w1 w2 w3 w4) x ∨ x = 0 ∨ x = 1 := by
      by_cases hx0 : x = 0
      · exact Or.inr (Or.inl hx0)
      by_cases hx1 : x = 1
      · exact Or.inr (Or.inr hx1)
      exact Or.inl (Or.inl (hmin.isLocalMin (hloc x hx hx0 hx1)))
    rcases extremum_location w1 w2 w3 w4 x hx hext with rfl | hm | hconst
    · exact l0.trans hle
    · exact (l1 x hm).trans hle
    · have := hconst 0; rw [hconst t]; linarith
  · obtain ⟨x, hx, hmax⟩ := isCompact_Icc.exists_isMaxOn (Set.nonempty_Icc.2 zero_le_one) hcont
    have hle : de_casteljau4 t w1 w2 w3 w4 ≤ de_casteljau4 x w1 w2 w3 w4 := hmax htI
    have hext : IsLocalExtr (fun s => de_casteljau4 s w1 w2 w3 w4) x ∨ x = 0 ∨ x = 1 := by
      by_cases hx0 : x = 0
      · exact Or.inr (Or.inl hx0)
      by_cases hx1 : x = 1
      · exact Or.inr (Or.inr hx1)
      exact Or.inl (Or.inr (hmax.isLocalMax (hloc x hx hx0 hx1)))
    rcases extremum_location w1 w2 w3 w4 x hx hext with rfl | hm | hconst
    · exact hle.trans u0
    · exact hle.trans (u1 x hm)
    · have := hconst 0; rw [hconst t]; linarith

/-- each face of the box is touched by a point of the curve -/
theorem bounding_box_tight (w1 w2 w3 w4 : ℝ) :
    (∃ t, 0 ≤ t ∧ t ≤ 1 ∧ de_casteljau4 t w1 w2 w3 w4 = (bounding_box4 w1 w2 w3 w4).t0) ∧
    (∃ t, 0 ≤ t ∧ t ≤ 1 ∧ de_casteljau4 t w1 w2 w3 w4 = (bounding_box4 w1 w2 w3 w4).t1) := by
  constructor
  · rcases (box_t0_props w1 w2 w3 w4).2.2 with h | ⟨t, ht, h⟩
    · exact ⟨0, le_rfl, zero_le_one, h.symm⟩
    · have := find_extremities_range w1 w2 w3 w4 t ht
      exact ⟨t, this.1.le, this.2, h.symm⟩
  · rcases (box_t1_props w1 w2 w3 w4).2.2 with h | ⟨t, ht, h⟩
    · exact ⟨0, le_rfl, zero_le_one, h.symm⟩
    · have := find_extremities_range w1 w2 w3 w4 t ht
      exact ⟨t, this.1.le, this.2, h.symm⟩

/-! ### the fast box -/

/-- the fast box is the min/max of the four control values -/
theorem fast_bounding_box_spec (w1 w2 w3 w4 : ℝ) :
    (fast_bounding_box w1 w2 w3 w4).t0 = min (min (min w1 w4) w2) w3 ∧
    (fast_bounding_box w1 w2 w3 w4).t1 = max (max (max w1 w4) w2) w3 := by
  simp only [fast_bounding_box, smallest_eq_min, biggest_eq_max, and_self]

/-- one de Casteljau step stays between any common bounds of its two inputs -/
theorem lerp_bounds (m M x y t : ℝ) (h0 : 0 ≤ t) (h1 : t ≤ 1)
    (hx : m ≤ x ∧ x ≤ M) (hy : m ≤ y ∧ y ≤ M) :
    m ≤ x * (1 - t) + y * t ∧ x * (1 - t) + y * t ≤ M := by
  have h1t : 0 ≤ 1 - t := sub_nonneg.2 h1
  constructor
  · nlinarith [mul_nonneg (sub_nonneg.2 hx.1) h1t, mul_nonneg (sub_nonneg.2 hy.1) h0]
  · nlinarith [mul_nonneg (sub_nonneg.2 hx.2) h1t, mul_nonneg (sub_nonneg.2 hy.2) h0]

/-- the curve stays between any common bounds of its four control values -/
theorem curve_between (m M w1 w2 w3 w4 t : ℝ) (h0 : 0 ≤ t) (h1 : t ≤ 1)
    (b1 : m ≤ w1 ∧ w1 ≤ M) (b2 : m ≤ w2 ∧ w2 ≤ M) (b3 : m ≤ w3 ∧ w3 ≤ M) (b4 : m ≤ w4 ∧ w4 ≤ M) :
    m ≤ de_casteljau4 t w1 w2 w3 w4 ∧ de_casteljau4 t w1 w2 w3 w4 ≤ M := by
  have h10 : (1.0:ℝ) = 1 := by norm_num
  simp only [de_casteljau4, de_casteljau3, de_casteljau2, h10]
  have a1 := lerp_bounds m M w1 w2 t h0 h1 b1 b2
  have a2 := lerp_bounds m M w2 w3 t h0 h1 b2 b3
  have a3 := lerp_bounds m M w3 w4 t h0 h1 b3 b4
  have c1 := lerp_bounds m M _ _ t h0 h1 a1 a2
  have c2 := lerp_bounds m M _ _ t h0 h1 a2 a3
  exact lerp_bounds m M _ _ t h0 h1 c1 c2

/-- the fast box contains the curve -/
theorem fast_contains_curve (w1 w2 w3 w4 t : ℝ) (h0 : 0 ≤ t) (h1 : t ≤ 1) :
    (fast_bounding_box w1 w2 w3 w4).t0 ≤ de_casteljau4 t w1 w2 w3 w4 ∧
    de_casteljau4 t w1 w2 w3 w4 ≤ (fast_bounding_box w1 w2 w3 w4).t1 := by
  obtain ⟨e0, e1⟩ := fast_bounding_box_spec w1 w2 w3 w4
  rw [e0, e1]
  apply curve_between _ _ w1 w2 w3 w4 t h0 h1
  · exact ⟨((min_le_left _ _).trans (min_le_left _ _)).trans (min_le_left _ _),
      ((le_max_left _ _).trans (le_max_left _ _)).trans (le_max_left _ _)⟩
  · exact ⟨(min_le_left _ _).trans (min_le_right _ _), (le_max_right _ _).trans (le_max_left _ _)⟩
  · exact ⟨min_le_right _ _, le_max_right _ _⟩
  · exact ⟨((min_le_left _ _).trans (min_le_left _ _)).trans (min_le_right _ _),
      ((le_max_right _ _).trans (le_max_left _ _)).trans (le_max_left _ _)⟩

/-- the fast box contains the tight box -/
theorem fast_contains_tight (w1 w2 w3 w4 : ℝ) :
    (fast_bounding_box w1 w2 w3 w4).t0 ≤ (bounding_box4 w1 w2 w3 w4).t0 ∧
    (bounding_box4 w1 w2 w3 w4).t1 ≤ (fast_bounding_box w1 w2 w3 w4).t1 := by
  obtain ⟨⟨t, h0, h1, e⟩, ⟨u, g0, g1, f⟩⟩ := bounding_box_tight w1 w2 w3 w4
  exact ⟨e ▸ (fast_contains_curve w1 w2 w3 w4 t h0 h1).1, f ▸ (fast_contains_curve w1 w2 w3 w4 u g0 g1).2⟩

/-! ### union -/

/-- union of two 1-D boxes as the code computes it: a box with min = max counts as empty and is skipped -/
theorem union_bounds_spec (a b : T2 ℝ ℝ) :
    union_bounds a b =
      if a.t0 = a.t1 then b else if b.t0 = b.t1 then a else T2.mk (min a.t0 b.t0) (max a.t1 b.t1) := by
  simp only [union_bounds, box_is_empty, beq_iff_eq, smallest_eq_min, biggest_eq_max]

/-! ### the box is exactly the range of the curve, and examples -/

/-- containment and tightness determine the box: it is (min, max) of the curve over [0,1] -/
theorem bounding_box_unique (w1 w2 w3 w4 lo hi : ℝ)
    (hlo : ∀ t, 0 ≤ t → t ≤ 1 → lo ≤ de_casteljau4 t w1 w2 w3 w4)
    (hhi : ∀ t, 0 ≤ t → t ≤ 1 → de_casteljau4 t w1 w2 w3 w4 ≤ hi)
    (alo : ∃ t, 0 ≤ t ∧ t ≤ 1 ∧ de_casteljau4 t w1 w2 w3 w4 = lo)
    (ahi : ∃ t, 0 ≤ t ∧ t ≤ 1 ∧ de_casteljau4 t w1 w2 w3 w4 = hi) :
    bounding_box4 w1 w2 w3 w4 = T2.mk lo hi := by
  obtain ⟨⟨t, t0, t1, et⟩, ⟨u, u0, u1, eu⟩⟩ := bounding_box_tight w1 w2 w3 w4
  obtain ⟨x, x0, x1, ex⟩ := alo
  obtain ⟨y, y0, y1, ey⟩ := ahi
  have e0 : (bounding_box4 w1 w2 w3 w4).t0 = lo :=
    le_antisymm (ex ▸ (bounding_box_contains w1 w2 w3 w4 x x0 x1).1) (et ▸ hlo t t0 t1)
  have e1 : (bounding_box4 w1 w2 w3 w4).t1 = hi :=
    le_antisymm (eu ▸ hhi u u0 u1) (ey ▸ (bounding_box_contains w1 w2 w3 w4 y y0 y1).2)
  cases hb : bounding_box4 w1 w2 w3 w4 with
  | mk p q => rw [hb] at e0 e1; simp only at e0 e1; rw [e0, e1]

/-- non-vacuity (a ≠ 0 path): the curve 0, 3, −2, 1 has derivative 48t² − 48t + 9 = 3(4t−1)(4t−3);
    both interior critical points are candidates -/
example : (1/4 : ℝ) ∈ find_extremities 0 3 (-2) 1 ∧ (3/4 : ℝ) ∈ find_extremities 0 3 (-2) 1 := by
  constructor
  · exact candidates_cover 0 3 (-2) 1 (1/4) (by norm_num) (by norm_num)
      (by simp only [dA, dB, dC]; norm_num) (by simp only [dA, dB]; norm_num)
  · exact candidates_cover 0 3 (-2) 1 (3/4) (by norm_num) (by norm_num)
      (by simp only [dA, dB, dC]; norm_num) (by simp only [dA, dB]; norm_num)

/-- non-vacuity (a = 0 path, the candidate comes from `root3`): the curve 0, 2, 2, 0 has derivative 6 − 12t,
    its box is [0, 3/2] (the maximum is the interior extremum at t = 1/2), strictly inside the fast box [0, 2] -/
example : (1/2 : ℝ) ∈ find_extremities 0 2 2 0 ∧ bounding_box4 (0:ℝ) 2 2 0 = T2.mk 0 (3/2) ∧
    (fast_bounding_box (0:ℝ) 2 2 0).t1 = 2 := by
  refine ⟨?_, ?_, ?_⟩
  · exact candidates_cover 0 2 2 0 (1/2) (by norm_num) (by norm_num)
      (by simp only [dA, dB, dC]; norm_num) (by simp only [dA, dB]; norm_num)
  · apply bounding_box_unique
    · intro t h0 h1; rw [de_casteljau4_poly]; nlinarith [mul_nonneg h0 (sub_nonneg.2 h1)]
    · intro t h0 h1; rw [de_casteljau4_poly]; nlinarith [sq_nonneg (2*t - 1)]
    · exact ⟨0, le_rfl, zero_le_one, by rw [de_casteljau4_poly]; norm_num⟩
    · exact ⟨1/2, by norm_num, by norm_num, by rw [de_casteljau4_poly]; norm_num⟩
  · rw [(fast_bounding_box_spec 0 2 2 0).2]; norm_num

end C06

