/-
C12  Self-overlap clean-up implements the non-zero and even-odd fill rules — the decision logic.

`path_remove_interior_points` runs the classification machine of C01 with the non-zero predicate,
`path_remove_overlapped_points` with the add (odd) predicate; every sub-path carries label 0, so the single
counter is the signed crossing number of the ray, i.e. the winding number contribution.
-/
import FloVerif.Props.C01

namespace C12
open Prelude Gen Model.RayCast

/-- with one label the non-zero predicate says "winding count ≠ 0" and the add predicate says "count odd" -/
theorem single_label_predicates (c : Int) :
    pred_remove_interior [c, 0] = decide (c ≠ 0) ∧ pred_add [c, 0] = decide (c % 2 = 1) := by
  obtain ⟨h1, _, _, h4⟩ := C01.pred_spec c 0
  rw [h1, h4]
  simp

/-- the sign a crossing contributes -/
def sgn (h : Hit) : Int := if h.side < 0 then -1 else if h.side > 0 then 1 else 0

/-- the counter of label `l` after a list of crossings is the initial value plus the signed number of crossings
    of edges with that label: the winding-number contribution of the ray -/
theorem counter_is_signed_sum (hits : List Hit) (cs : List Int) (l : Nat) :
    (hits.foldl bump cs).getD l 0 = cs.getD l 0 + ((hits.filter (fun h => h.label == l)).map sgn).sum := by
  induction hits generalizing cs with
  | nil => simp
  | cons h hs ih =>
    rw [List.foldl_cons, ih, C01.bump_spec]
    by_cases hl : l = h.label
    · subst hl
      simp only [List.filter_cons, beq_self_eq_true, if_true, List.map_cons, List.sum_cons, sgn]
      ring
    · have : (h.label == l) = false := by simp [Ne.symm hl]
      simp only [List.filter_cons, this, if_neg hl]
      simp

/-- non-zero rule: starting outside (count 0), the boundary of the result is crossed an odd number of times along
    a ray iff the winding count at the end of the ray is non-zero -/
theorem remove_interior_rule (groups : List (List Hit)) :
    C01.parity (C01.flips pred_remove_interior [0, 0] groups) =
      pred_remove_interior (C01.countsAfter pred_remove_interior [0, 0] groups) :=
  C01.inside_iff_odd_flips pred_remove_interior groups (C01.pred_zero.2.2.2.1)

/-- even-odd rule: the same with the odd predicate -/
theorem remove_overlapped_rule (groups : List (List Hit)) :
    C01.parity (C01.flips pred_add [0, 0] groups) = pred_add (C01.countsAfter pred_add [0, 0] groups) :=
  C01.inside_iff_odd_flips pred_add groups (C01.pred_zero.1)

/-! Non-vacuity: a ray crossing a doubly-wound region: counts 1, 2, 1, 0; non-zero rule marks only the outer two
    crossings exterior, the odd rule all four. -/
example :
    (castRay pred_remove_interior [[⟨0, 0, 0, 1, false, false⟩], [⟨1, 0, 0, 1, false, false⟩], [⟨2, 0, 0, -1, false, false⟩], [⟨3, 0, 0, -1, false, false⟩]]).2 =
      [(0, 0, true), (1, 0, false), (2, 0, false), (3, 0, true)] ∧
    (castRay pred_add [[⟨0, 0, 0, 1, false, false⟩], [⟨1, 0, 0, 1, false, false⟩], [⟨2, 0, 0, -1, false, false⟩], [⟨3, 0, 0, -1, false, false⟩]]).2 =
      [(0, 0, true), (1, 0, true), (2, 0, true), (3, 0, true)] := by decide

end C12
