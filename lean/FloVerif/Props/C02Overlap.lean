/-
C02 (the overlap shortcut and `t_for_point`, generated)

`Gen/Overlaps.lean` is regenerated on every check: `solve_curve_for_t_along_axis` (solve.rs - what `BezierCurve::t_for_point` calls
with `CLOSE_ENOUGH`; the two nested searching `for` loops become `List.findSome?`; `solve_basis_for_t`, which ends in the external
`roots` crate, is a parameter) and `overlapping_region` (overlaps.rs, whole function with its three inner functions; the two
`t_for_point` are parameters).  Run at `Float` both reproduce the real functions bit for bit (driver ops `tfp`, `ovl`).

`overlapping_region` is the callee that `curve_intersects_curve_clip` asks once, for the whole curves, before clipping (repair
F17); `C02.results_have_origin` names "an overlap-shortcut answer" as one of the three origins of a returned pair.  Here that
origin is made precise: every pair of parameters it reports is an END POINT OF ONE CURVE LOCATED ON THE OTHER by `t_for_point`,
and `t_for_point` only ever answers with a parameter whose curve point is within its accuracy of the point asked for - whatever the
root solver returns.
-/
import FloVerif.Gen.Overlaps
import FloVerif.Gen.LinearFallback
import FloVerif.Props.C04
import Mathlib.Tactic.Ring
import Mathlib.Tactic.NormNum.OfScientific
import Mathlib.Tactic.Linarith
import Mathlib.Algebra.Order.Field.Basic

set_option linter.unusedSectionVars false
namespace C02Overlap
open Prelude Gen

variable {K : Type} [Field K] [LinearOrder K] [IsStrictOrderedRing K] [Inhabited K]
local instance : FAbs K := ⟨fun a => |a|⟩
local instance : OfInt K := ⟨fun n => (n : K)⟩
variable [FSqrt K] [FConsts K] [FSignum K]

abbrev Cub (K : Type) := T4 (V2 K) (V2 K) (V2 K) (V2 K)

/-- `is_near_to`: the squared distance is at most the squared tolerance -/
theorem is_near_to_iff (p q : V2 K) (d : K) :
    is_near_to p q d = true ↔ (p.x - q.x) * (p.x - q.x) + (p.y - q.y) * (p.y - q.y) ≤ d * d := by
  unfold is_near_to
  simp only [decide_eq_true_eq]
  show ((0.0 : K) + (p.x - q.x) * (p.x - q.x)) + (p.y - q.y) * (p.y - q.y) ≤ d * d ↔ _
  norm_num

/-- WHAT `solve_curve_for_t_along_axis` (hence `t_for_point`) CAN ANSWER, for ANY behaviour of the root solver: a parameter in
    [-0.001, 1.001] that the solver offered for one of the two coordinates and whose curve point is within `accuracy` of the point
    asked for - or exactly 0 / 1 when the point is within 1e-9 of the start / end point (repair F23). -/
theorem solve_for_t_sound (solver : K → K → K → K → K → List K) (w1 w2 w3 w4 point : V2 K) (accuracy t : K)
    (h : solve_curve_for_t_along_axis solver w1 w2 w3 w4 point accuracy = some t) :
    ((-(0.001 : K)) ≤ t ∧ t ≤ (1.001 : K) ∧ is_near_to (curve_point_at_pos w1 w2 w3 w4 t) point accuracy = true ∧
      ∃ d ∈ [0, 1], t ∈ solver (getc w1 d) (getc w2 d) (getc w3 d) (getc w4 d) (getc point d)) ∨
    (t = 0 ∧ is_near_to w1 point (1e-9 : K) = true) ∨
    (t = 1 ∧ is_near_to w4 point (1e-9 : K) = true) := by
  unfold solve_curve_for_t_along_axis at h
  dsimp only at h
  split at h
  · rename_i r hr
    obtain ⟨d, hd, hfd⟩ := List.exists_of_findSome?_eq_some hr
    split at hfd
    · rename_i r' hr'
      obtain ⟨u, hu, hfu⟩ := List.exists_of_findSome?_eq_some hr'
      split at hfu
      · cases hfu
      · split at hfu
        · rename_i hrange hnear
          cases hfu
          cases hfd
          cases h
          left
          simp only [Bool.not_eq_true', Bool.and_eq_false_iff, decide_eq_false_iff_not, not_or, not_not] at hrange
          have hd' : d ∈ [0, 1] := by
            have := List.mem_range'_1.1 hd
            simp only [List.mem_cons, List.mem_nil_iff, or_false]; omega
          exact ⟨hrange.1, hrange.2, hnear, d, hd', hu⟩
        · cases hfu
    · cases hfd
  · split at h
    · cases h; right; left; rename_i hn; exact ⟨by norm_num, hn⟩
    · split at h
      · cases h; right; right; rename_i hn; exact ⟨by norm_num, hn⟩
      · cases h

/-- AND WHAT `None` MEANS: no parameter in [-0.001, 1.001] offered by the solver for either coordinate has its curve point within
    `accuracy` of the point, and the point is not within 1e-9 of the start or the end point - `t_for_point` is complete relative to
    the root solver -/
theorem solve_for_t_none (solver : K → K → K → K → K → List K) (w1 w2 w3 w4 point : V2 K) (accuracy : K)
    (h : solve_curve_for_t_along_axis solver w1 w2 w3 w4 point accuracy = none) :
    (∀ d ∈ [0, 1], ∀ u ∈ solver (getc w1 d) (getc w2 d) (getc w3 d) (getc w4 d) (getc point d),
        (-(0.001 : K)) ≤ u → u ≤ (1.001 : K) → is_near_to (curve_point_at_pos w1 w2 w3 w4 u) point accuracy = false) ∧
    is_near_to w1 point (1e-9 : K) = false ∧ is_near_to w4 point (1e-9 : K) = false := by
  unfold solve_curve_for_t_along_axis at h
  dsimp only at h
  split at h
  · -- something was found: the function does not answer `None`
    rename_i r hr
    obtain ⟨d, _, hfd⟩ := List.exists_of_findSome?_eq_some hr
    split at hfd
    · rename_i r' hr'
      obtain ⟨u, _, hfu⟩ := List.exists_of_findSome?_eq_some hr'
      split at hfu
      · cases hfu
      · split at hfu
        · cases hfu; cases hfd; cases h
        · cases hfu
    · cases hfd
  · rename_i hnone
    refine ⟨?_, ?_, ?_⟩
    · intro d hd u hu hlo hhi
      have hd' : d ∈ List.range' 0 (2 - 0) := by
        simp only [List.mem_cons, List.mem_nil_iff, or_false] at hd
        rcases hd with rfl | rfl <;> simp [List.mem_range'_1]
      have h1 := (List.findSome?_eq_none_iff.1 hnone) d hd'
      split at h1
      · cases h1
      · rename_i hinner
        have h2 := (List.findSome?_eq_none_iff.1 hinner) u hu
        split at h2
        · rename_i hrange
          simp only [Bool.not_eq_true', Bool.and_eq_false_iff, decide_eq_false_iff_not] at hrange
          rcases hrange with hr | hr
          · exact absurd hlo hr
          · exact absurd hhi hr
        · split at h2
          · cases h2
          · rename_i hn; simpa using hn
    · split at h
      · cases h
      · rename_i hn; simpa using hn
    · split at h
      · cases h
      · split at h
        · cases h
        · rename_i hn; simpa using hn

/-- a reported pair of parameters `(a on curve 1, c on curve 2)` is an end point of one curve located on the other one:
    curve 2's start (`c = 0`) or end (`c = 1`) found on curve 1 at `a`, or curve 1's start (`a = 0`) or end (`a = 1`) found on
    curve 2 at `c` -/
def Located (tfp1 tfp2 : V2 K → Option K) (c1 c2 : Cub K) (a c : K) : Prop :=
  (c = 0 ∧ tfp1 c2.t0 = some a) ∨ (c = 1 ∧ tfp1 c2.t3 = some a) ∨ (a = 0 ∧ tfp2 c1.t0 = some c) ∨ (a = 1 ∧ tfp2 c1.t3 = some c)

/-- the last part of `overlapping_region`, common to all its paths once the four parameters are chosen: reject a single shared
    point, accept collinear lines, otherwise compare the control points of the two matching sections (text of the generated tail) -/
def ovlFinish (curve1 curve2 : Cub K) (c1_t1 c1_t2 c2_t1 c2_t2 : K) : Option (T2 (T2 K K) (T2 K K)) :=
(if ((decide ((fabs (c1_t1 - c1_t2)) < (SMALL_T_DISTANCE : K))) || (decide ((fabs (c2_t1 - c2_t2)) < (SMALL_T_DISTANCE : K)))) then
none
else
let coeff := (line_coefficients_2d (T2.mk curve1.t0 curve1.t3))
let tup_1 := (T2.mk curve1.t1 curve1.t2)
let c1_cp1 := tup_1.t0
let c1_cp2 := tup_1.t1
(if ((((ovl_is_collinear c1_cp1 coeff) && (ovl_is_collinear c1_cp2 coeff)) && (ovl_is_collinear curve2.t0 coeff)) && (ovl_is_collinear curve2.t3 coeff)) then
let tup_2 := (T2.mk curve2.t1 curve2.t2)
let c2_cp1 := tup_2.t0
let c2_cp2 := tup_2.t1
(if ((ovl_is_collinear c2_cp1 coeff) && (ovl_is_collinear c2_cp2 coeff)) then
(some (T2.mk (T2.mk c1_t1 c1_t2) (T2.mk c2_t1 c2_t2)))
else
let tup_3 := (if ((c2_t1 != (0.0 : K)) || (c2_t2 != (1.0 : K))) then
(ovl_control_points curve2 c2_t1 c2_t2)
else
(T2.mk curve2.t1 curve2.t2))
let c2_cp1 := tup_3.t0
let c2_cp2 := tup_3.t1
let tup_4 := (ovl_control_points curve1 c1_t1 c1_t2)
let c1_cp1 := tup_4.t0
let c1_cp2 := tup_4.t1
(if ((ovl_close_enough c1_cp1 c2_cp1) && (ovl_close_enough c1_cp2 c2_cp2)) then
(some (T2.mk (T2.mk c1_t1 c1_t2) (T2.mk c2_t1 c2_t2)))
else
none))
else
let tup_5 := (if ((c2_t1 != (0.0 : K)) || (c2_t2 != (1.0 : K))) then
(ovl_control_points curve2 c2_t1 c2_t2)
else
(T2.mk curve2.t1 curve2.t2))
let c2_cp1 := tup_5.t0
let c2_cp2 := tup_5.t1
let tup_6 := (ovl_control_points curve1 c1_t1 c1_t2)
let c1_cp1 := tup_6.t0
let c1_cp2 := tup_6.t1
(if ((ovl_close_enough c1_cp1 c2_cp1) && (ovl_close_enough c1_cp2 c2_cp2)) then
(some (T2.mk (T2.mk c1_t1 c1_t2) (T2.mk c2_t1 c2_t2)))
else
none)))

/-- the part that chooses the second pair of parameters when curve 2's end point is not on curve 1 -/
def ovlSecond (tfp2 : V2 K → Option K) (curve1 curve2 : Cub K) (c1_t1 c2_t1 : K) : Option (T2 (T2 K K) (T2 K K)) :=
  match tfp2 curve1.t3 with
  | some t =>
    if ((decide (c1_t1 > (0.9 : K))) && (is_near_to curve2.t0 curve1.t3 (SMALL_DISTANCE : K))) then
      (match tfp2 curve1.t0 with
       | some t' => ovlFinish curve1 curve2 c1_t1 (0.0 : K) c2_t1 t'
       | _ => none)
    else ovlFinish curve1 curve2 c1_t1 (1.0 : K) c2_t1 t
  | _ =>
    (match tfp2 curve1.t0 with
     | some t' => ovlFinish curve1 curve2 c1_t1 (0.0 : K) c2_t1 t'
     | _ => none)

/-- THE SHAPE OF `overlapping_region`: choose `(c1_t1, c2_t1)`, choose `(c1_t2, c2_t2)`, finish -/
theorem overlapping_region_eq (tfp1 tfp2 : V2 K → Option K) (c1 c2 : Cub K) :
    overlapping_region tfp1 tfp2 c1 c2 =
      match tfp1 c2.t0 with
      | some t =>
        (match tfp1 c2.t3 with
         | some t' => ovlFinish c1 c2 t t' (0.0 : K) (1.0 : K)
         | _ => ovlSecond tfp2 c1 c2 t (0.0 : K))
      | _ =>
        (match tfp2 c1.t0 with
         | some t =>
           (match tfp1 c2.t3 with
            | some t' => ovlFinish c1 c2 (0.0 : K) t' t (1.0 : K)
            | _ => ovlSecond tfp2 c1 c2 (0.0 : K) t)
         | _ => none) := by
  unfold overlapping_region ovlSecond ovlFinish
  dsimp only
  cases tfp1 c2.t0 <;> cases tfp1 c2.t3 <;> cases tfp2 c1.t0 <;> cases tfp2 c1.t3 <;> rfl

/-- what `ovlFinish` can answer: exactly the four parameters it was given, and only if neither pair is a single point -/
theorem ovlFinish_some (c1 c2 : Cub K) (p q u v : K) (r : T2 (T2 K K) (T2 K K)) (h : ovlFinish c1 c2 p q u v = some r) :
    r = ⟨⟨p, q⟩, ⟨u, v⟩⟩ ∧ ¬ |p - q| < (SMALL_T_DISTANCE : K) ∧ ¬ |u - v| < (SMALL_T_DISTANCE : K) := by
  unfold ovlFinish at h
  dsimp only at h
  split_ifs at h with hsingle <;> (try cases h) <;>
  · simp only [Bool.or_eq_true, decide_eq_true_eq, not_or] at hsingle
    exact ⟨rfl, hsingle.1, hsingle.2⟩

/-- THE OVERLAP SHORTCUT ONLY REPORTS LOCATED END POINTS, FAR ENOUGH APART: for ANY behaviour of the two `t_for_point`, if
    `overlapping_region` answers `((a, b), (c, d))` then `(a, c)` and `(b, d)` are both end points of one curve located on the other,
    and neither `|a-b|` nor `|c-d|` is below `SMALL_T_DISTANCE` (a single shared point is not an overlap). -/
theorem overlapping_region_origin (tfp1 tfp2 : V2 K → Option K) (c1 c2 : Cub K) (a b c d : K)
    (h : overlapping_region tfp1 tfp2 c1 c2 = some ⟨⟨a, b⟩, ⟨c, d⟩⟩) :
    Located tfp1 tfp2 c1 c2 a c ∧ Located tfp1 tfp2 c1 c2 b d ∧
    ¬ |a - b| < (SMALL_T_DISTANCE : K) ∧ ¬ |c - d| < (SMALL_T_DISTANCE : K) := by
  have e0 : (0.0 : K) = 0 := by norm_num
  have e1 : (1.0 : K) = 1 := by norm_num
  rw [overlapping_region_eq] at h
  unfold Located
  -- the second choice, for any first choice
  have second : ∀ p u : K, ovlSecond tfp2 c1 c2 p u = some ⟨⟨a, b⟩, ⟨c, d⟩⟩ →
      a = p ∧ c = u ∧ ((b = 0 ∧ tfp2 c1.t0 = some d) ∨ (b = 1 ∧ tfp2 c1.t3 = some d)) ∧
      ¬ |a - b| < (SMALL_T_DISTANCE : K) ∧ ¬ |c - d| < (SMALL_T_DISTANCE : K) := by
    intro p u hs
    unfold ovlSecond at hs
    cases h4 : tfp2 c1.t3 <;> cases h3 : tfp2 c1.t0 <;> simp only [h3, h4] at hs
    all_goals (try split_ifs at hs)
    all_goals first
      | (obtain ⟨hr, n1, n2⟩ := ovlFinish_some _ _ _ _ _ _ _ hs
         simp only [T2.mk.injEq] at hr
         obtain ⟨⟨rfl, rfl⟩, rfl, rfl⟩ := hr
         first
           | exact ⟨rfl, rfl, Or.inl ⟨e0, rfl⟩, n1, n2⟩
           | exact ⟨rfl, rfl, Or.inr ⟨e1, rfl⟩, n1, n2⟩)
      | (cases hs)
  cases h1 : tfp1 c2.t0 <;> cases h2 : tfp1 c2.t3 <;> cases h3 : tfp2 c1.t0 <;> simp only [h1, h2, h3] at h <;> (try cases h)
  all_goals first
    | (obtain ⟨hr, n1, n2⟩ := ovlFinish_some _ _ _ _ _ _ _ h
       simp only [T2.mk.injEq] at hr
       obtain ⟨⟨rfl, rfl⟩, rfl, rfl⟩ := hr
       simp_all)
    | (obtain ⟨ha, hc, hbd, n1, n2⟩ := second _ _ h
       subst ha; subst hc
       rcases hbd with ⟨hb, hd⟩ | ⟨hb, hd⟩ <;> simp_all)

/-- squared distance of two points at most `d²` -/
def Within (d : K) (p q : V2 K) : Prop := (p.x - q.x) * (p.x - q.x) + (p.y - q.y) * (p.y - q.y) ≤ d * d

theorem Within.symm {d : K} {p q : V2 K} (h : Within d p q) : Within d q p := by
  unfold Within at *; nlinarith [h]

theorem Within.mono {d e : K} {p q : V2 K} (h : Within d p q) (hd : 0 ≤ d) (hde : d ≤ e) : Within e p q := by
  unfold Within at *; nlinarith [h, mul_le_mul hde hde hd (le_trans hd hde)]

theorem V2_ext' (a b : V2 K) (hx : a.x = b.x) (hy : a.y = b.y) : a = b := by cases a; cases b; simp_all

theorem V2_add_x (a b : V2 K) : (a + b).x = a.x + b.x := rfl
theorem V2_add_y (a b : V2 K) : (a + b).y = a.y + b.y := rfl
theorem V2_mul_x (a : V2 K) (k : K) : (a * k).x = a.x * k := rfl
theorem V2_mul_y (a : V2 K) (k : K) : (a * k).y = a.y * k := rfl

theorem point_at_zero (w1 w2 w3 w4 : V2 K) : curve_point_at_pos w1 w2 w3 w4 (0 : K) = w1 := by
  apply V2_ext' <;> simp only [curve_point_at_pos, basis, V2_add_x, V2_add_y, V2_mul_x, V2_mul_y] <;> norm_num
theorem point_at_one (w1 w2 w3 w4 : V2 K) : curve_point_at_pos w1 w2 w3 w4 (1 : K) = w4 := by
  apply V2_ext' <;> simp only [curve_point_at_pos, basis, V2_add_x, V2_add_y, V2_mul_x, V2_mul_y] <;> norm_num

/-- `t_for_point` as the library defines it: `solve_curve_for_t_along_axis(curve, point, CLOSE_ENOUGH)`, for any root solver -/
def tForPoint (solver : K → K → K → K → K → List K) (c : Cub K) (p : V2 K) : Option K :=
  solve_curve_for_t_along_axis solver c.t0 c.t1 c.t2 c.t3 p (CLOSE_ENOUGH : K)

/-- `t_for_point` IS SOUND: whatever the root solver answers, a parameter it returns has its curve point within `CLOSE_ENOUGH`
    (= 0.05) of the point asked for -/
theorem tForPoint_sound (solver : K → K → K → K → K → List K) (c : Cub K) (p : V2 K) (t : K)
    (h : tForPoint solver c p = some t) : Within (0.05 : K) (curve_point_at_pos c.t0 c.t1 c.t2 c.t3 t) p := by
  have hce : (CLOSE_ENOUGH : K) = 0.05 := by unfold CLOSE_ENOUGH SMALL_DISTANCE; norm_num
  rcases solve_for_t_sound solver _ _ _ _ _ _ _ h with ⟨_, _, hn, _⟩ | ⟨rfl, hn⟩ | ⟨rfl, hn⟩
  · rw [is_near_to_iff, hce] at hn; exact hn
  · rw [is_near_to_iff] at hn; rw [point_at_zero]
    exact Within.mono (d := (1e-9 : K)) hn (by norm_num) (by norm_num)
  · rw [is_near_to_iff] at hn; rw [point_at_one]
    exact Within.mono (d := (1e-9 : K)) hn (by norm_num) (by norm_num)

/-- **WHAT THE OVERLAP SHORTCUT REPORTS ARE COMMON POINTS** (to 0.05, the library's `CLOSE_ENOUGH`): with `t_for_point` as the
    library defines it and ANY root solvers, if `overlapping_region(curve1, curve2) = ((a, b), (c, d))` then curve 1 at `a` is within
    0.05 of curve 2 at `c`, curve 1 at `b` is within 0.05 of curve 2 at `d`, and neither parameter pair is a single point. -/
theorem overlap_answer_points_close (s1 s2 : K → K → K → K → K → List K) (c1 c2 : Cub K) (a b c d : K)
    (h : overlapping_region (tForPoint s1 c1) (tForPoint s2 c2) c1 c2 = some ⟨⟨a, b⟩, ⟨c, d⟩⟩) :
    Within (0.05 : K) (curve_point_at_pos c1.t0 c1.t1 c1.t2 c1.t3 a) (curve_point_at_pos c2.t0 c2.t1 c2.t2 c2.t3 c) ∧
    Within (0.05 : K) (curve_point_at_pos c1.t0 c1.t1 c1.t2 c1.t3 b) (curve_point_at_pos c2.t0 c2.t1 c2.t2 c2.t3 d) ∧
    ¬ |a - b| < (SMALL_T_DISTANCE : K) ∧ ¬ |c - d| < (SMALL_T_DISTANCE : K) := by
  obtain ⟨hac, hbd, n1, n2⟩ := overlapping_region_origin _ _ _ _ _ _ _ _ h
  have key : ∀ x y : K, Located (tForPoint s1 c1) (tForPoint s2 c2) c1 c2 x y →
      Within (0.05 : K) (curve_point_at_pos c1.t0 c1.t1 c1.t2 c1.t3 x) (curve_point_at_pos c2.t0 c2.t1 c2.t2 c2.t3 y) := by
    intro x y hl
    rcases hl with ⟨rfl, hq⟩ | ⟨rfl, hq⟩ | ⟨rfl, hq⟩ | ⟨rfl, hq⟩
    · rw [point_at_zero]; exact tForPoint_sound s1 c1 _ _ hq
    · rw [point_at_one]; exact tForPoint_sound s1 c1 _ _ hq
    · rw [point_at_zero]; exact (tForPoint_sound s2 c2 _ _ hq).symm
    · rw [point_at_one]; exact (tForPoint_sound s2 c2 _ _ hq).symm
  exact ⟨key a c hac, key b d hbd, n1, n2⟩

/-! ### the linear fall-back -/

theorem fmax_eq_max' (a b : K) : fmax a b = max a b := by
  unfold fmax
  by_cases h : a < b
  · simp [h, max_eq_right h.le]
  · simp [h, max_eq_left (not_lt.1 h)]

/-- the cubic of a section: its start point, its two control points, its end point -/
def secCubic (w1 w2 w3 w4 : V2 K) (s : SectionT K) : Cub K :=
  ⟨section_start_point w1 w2 w3 w4 s, (section_control_points w1 w2 w3 w4 s).t0, (section_control_points w1 w2 w3 w4 s).t1,
   section_end_point w1 w2 w3 w4 s⟩

/-- **WHAT THE LINEAR FALL-BACK REPORTS** (`intersections_with_linear_section`, generated whole; in practice every transversal
    crossing `curve_intersects_curve_clip` returns comes from here): for ANY behaviour of the two root solvers, every reported pair
    `(linear_t, curved_t)` belongs to a hit `(curved_t, _, pos)` of `curve_intersects_ray(curved section, ray through the ends of the
    linear section)` (what C04 proves about such hits applies), and EITHER the point of the linear section's cubic at `linear_t` is
    within `max(accuracy, CLOSE_DISTANCE)` of `pos` (`solve_for_t_sound`), OR `linear_t = 0.5`, the linear section's ends are within
    0.1 of each other and `pos` is within 0.05 of the section's mid point (the short-section rescue). -/
theorem linear_fallback_sound (solve_roots : T4 K K K K → List K) (solve_basis : K → K → K → K → K → List K)
    (a1 a2 a3 a4 b1 b2 b3 b4 : V2 K) (lin cur : SectionT K) (accuracy lt ct : K) (hacc : 0 ≤ accuracy)
    (h : T2.mk lt ct ∈ intersections_with_linear_section solve_roots solve_basis a1 a2 a3 a4 b1 b2 b3 b4 lin cur accuracy) :
    ∃ hit ∈ curve_intersects_ray solve_roots (secCubic b1 b2 b3 b4 cur).t0 (secCubic b1 b2 b3 b4 cur).t1 (secCubic b1 b2 b3 b4 cur).t2
        (secCubic b1 b2 b3 b4 cur).t3 (T2.mk (section_start_point a1 a2 a3 a4 lin) (section_end_point a1 a2 a3 a4 lin)),
      hit.t0 = ct ∧
      (Within (max accuracy (CLOSE_DISTANCE : K))
          (curve_point_at_pos (secCubic a1 a2 a3 a4 lin).t0 (secCubic a1 a2 a3 a4 lin).t1 (secCubic a1 a2 a3 a4 lin).t2
            (secCubic a1 a2 a3 a4 lin).t3 lt) hit.t2 ∨
       (lt = 0.5 ∧ is_near_to hit.t2 (section_point_at_pos a1 a2 a3 a4 lin (0.5 : K)) (CLOSE_ENOUGH : K) = true ∧
        is_near_to (section_point_at_pos a1 a2 a3 a4 lin (0.0 : K)) (section_point_at_pos a1 a2 a3 a4 lin (1.0 : K)) (0.1 : K) = true)) := by
  have hcd : (CLOSE_DISTANCE : K) = 0.01 := rfl
  have hm0 : (0 : K) ≤ max accuracy (CLOSE_DISTANCE : K) := le_max_of_le_left hacc
  have hm9 : (1e-9 : K) ≤ max accuracy (CLOSE_DISTANCE : K) := le_max_of_le_right (by rw [hcd]; norm_num)
  -- a pair found by the first pass
  have first : ∀ l, T2.mk lt ct ∈ List.filterMap (fun arg_0 : T3 K K (V2 K) =>
        Option.map (fun linear_t_ => T2.mk linear_t_ arg_0.t0)
          (solve_curve_for_t_along_axis solve_basis (secCubic a1 a2 a3 a4 lin).t0 (secCubic a1 a2 a3 a4 lin).t1
            (secCubic a1 a2 a3 a4 lin).t2 (secCubic a1 a2 a3 a4 lin).t3 arg_0.t2 (fmax accuracy (CLOSE_DISTANCE : K)))) l →
      ∃ hit ∈ l, hit.t0 = ct ∧ Within (max accuracy (CLOSE_DISTANCE : K))
        (curve_point_at_pos (secCubic a1 a2 a3 a4 lin).t0 (secCubic a1 a2 a3 a4 lin).t1 (secCubic a1 a2 a3 a4 lin).t2
          (secCubic a1 a2 a3 a4 lin).t3 lt) hit.t2 := by
    intro l hmem
    obtain ⟨hit, hhit, hopt⟩ := List.mem_filterMap.1 hmem
    obtain ⟨t, hsolve, hpair⟩ := Option.map_eq_some_iff.1 hopt
    simp only [T2.mk.injEq] at hpair
    obtain ⟨rfl, rfl⟩ := hpair
    refine ⟨hit, hhit, rfl, ?_⟩
    rw [fmax_eq_max'] at hsolve
    rcases solve_for_t_sound solve_basis _ _ _ _ _ _ _ hsolve with ⟨_, _, hn, _⟩ | ⟨rfl, hn⟩ | ⟨rfl, hn⟩
    · exact (is_near_to_iff _ _ _).1 hn
    · rw [point_at_zero]; exact Within.mono ((is_near_to_iff _ _ _).1 hn) (by norm_num) hm9
    · rw [point_at_one]; exact Within.mono ((is_near_to_iff _ _ _).1 hn) (by norm_num) hm9
  unfold intersections_with_linear_section at h
  dsimp only at h
  split_ifs at h with hempty hshort
  · -- the rescue for a short linear section
    obtain ⟨hit, hhit, hopt⟩ := List.mem_filterMap.1 h
    split_ifs at hopt with hnear
    · simp only [Option.some.injEq, T2.mk.injEq] at hopt
      obtain ⟨rfl, rfl⟩ := hopt
      exact ⟨hit, hhit, rfl, Or.inr ⟨rfl, hnear, hshort⟩⟩
  · obtain ⟨hit, hhit, hc, hw⟩ := first _ h
    exact ⟨hit, hhit, hc, Or.inl hw⟩
  · obtain ⟨hit, hhit, hc, hw⟩ := first _ h
    exact ⟨hit, hhit, hc, Or.inl hw⟩

/-- **THE TWO POINTS OF A LINEAR-FALL-BACK ANSWER ARE CLOSE**: `linear_fallback_sound` with what C04 proves about the hits of
    `curve_intersects_ray` (`C04.hit_sound`: the hit's parameter is in [0,1] and its position IS the point of the curved section's
    cubic at that parameter).  For ANY root solvers, every reported `(linear_t, curved_t)` has `0 ≤ curved_t ≤ 1`, and the point of the
    linear section's cubic at `linear_t` is within `max(accuracy, 0.01)` of the point of the curved section's cubic at `curved_t` - or
    it is the short-section rescue, where the curved point is within 0.05 of the linear section's mid point. -/
theorem linear_fallback_points_close (solve_roots : T4 K K K K → List K) (solve_basis : K → K → K → K → K → List K)
    (a1 a2 a3 a4 b1 b2 b3 b4 : V2 K) (lin cur : SectionT K) (accuracy lt ct : K) (hacc : 0 ≤ accuracy)
    (h : T2.mk lt ct ∈ intersections_with_linear_section solve_roots solve_basis a1 a2 a3 a4 b1 b2 b3 b4 lin cur accuracy) :
    0 ≤ ct ∧ ct ≤ 1 ∧
    (Within (max accuracy (CLOSE_DISTANCE : K))
        (curve_point_at_pos (secCubic a1 a2 a3 a4 lin).t0 (secCubic a1 a2 a3 a4 lin).t1 (secCubic a1 a2 a3 a4 lin).t2
          (secCubic a1 a2 a3 a4 lin).t3 lt)
        (de_casteljau4 ct (secCubic b1 b2 b3 b4 cur).t0 (secCubic b1 b2 b3 b4 cur).t1 (secCubic b1 b2 b3 b4 cur).t2
          (secCubic b1 b2 b3 b4 cur).t3) ∨
     (lt = 0.5 ∧ is_near_to (de_casteljau4 ct (secCubic b1 b2 b3 b4 cur).t0 (secCubic b1 b2 b3 b4 cur).t1
          (secCubic b1 b2 b3 b4 cur).t2 (secCubic b1 b2 b3 b4 cur).t3) (section_point_at_pos a1 a2 a3 a4 lin (0.5 : K)) (CLOSE_ENOUGH : K) = true)) := by
  obtain ⟨hit, hhit, hct, hcase⟩ := linear_fallback_sound solve_roots solve_basis a1 a2 a3 a4 b1 b2 b3 b4 lin cur accuracy lt ct hacc h
  obtain ⟨_, r, _, _, h0, h1, hpos, _⟩ := C04.hit_sound solve_roots _ _ _ _ _ hit hhit
  rw [hct] at h0 h1 hpos
  refine ⟨h0, h1, ?_⟩
  rcases hcase with hw | ⟨hlt, hnear, _⟩
  · left; rw [← hpos]; exact hw
  · right; rw [← hpos]; exact ⟨hlt, hnear⟩

/-! ### non-vacuity -/
section example_
local instance : FSqrt ℚ := ⟨fun x => x⟩
local instance : FConsts ℚ := ⟨0, 0, 0, 0, 0⟩
local instance : FSignum ℚ := ⟨fun x => if x < 0 then -1 else 1⟩
local instance : FAbs ℚ := ⟨fun a => |a|⟩
local instance : OfInt ℚ := ⟨fun n => (n : ℚ)⟩

/-- the hypothesis of `solve_for_t_sound` is met: asked for its own start point the function answers 0 even when the root solver
    offers nothing (the end-point clause of repair F23).  That `overlapping_region` answers `Some` on real inputs (identical curves,
    sub-sections, collinear lines: more than half of the correspondence cases) is measured on every run (`ovl.kind*.some`). -/
example : solve_curve_for_t_along_axis (K := ℚ) (fun _ _ _ _ _ => []) ⟨1, 2⟩ ⟨3, 4⟩ ⟨5, 1⟩ ⟨7, 7⟩ ⟨1, 2⟩ (1/20) = some 0 := by
  have hx : ∀ a b : V2 ℚ, (a - b).x = a.x - b.x := fun _ _ => rfl
  have hy : ∀ a b : V2 ℚ, (a - b).y = a.y - b.y := fun _ _ => rfl
  simp [solve_curve_for_t_along_axis, is_near_to, Dot.dot, dot, List.range', hx, hy]
  norm_num

end example_

end C02Overlap
