/-
C18 (Space1D)  `Space1D::from_data` divides the line into sorted, disjoint, non-empty pieces, each carrying
exactly the handles of the input ranges that cover it; the query functions return what their doc comments
say.

Stated about the hand-written model `Model.Space1D` (validated against the Rust implementation by the
harness).  `K` is any linear order (f64 without NaN under `total_cmp`, ℚ, ℤ, …); `==` on `K` is the one
derived from decidable equality.

`fromData_inv` carries the hypothesis that no input range is inverted (`r.1 ≤ r.2`): for an inverted
range the code emits an inverted piece, e.g. `fromData [(5, 3)] = [{ s := 5, e := 3, hs := [0] }]`,
which violates `Inv.nonempty` (see `inverted_counterexample`).
-/
import FloVerif.Lemmas.Space1D

set_option linter.unusedSectionVars false
set_option linter.unusedVariables false
namespace C18Space
open Model.Space1D

variable {K : Type} [LinearOrder K]

/-- the half-open range `[r.1, r.2)` contains `x` -/
def Contains (r : K × K) (x : K) : Prop := r.1 ≤ x ∧ x < r.2

/-- the specification a divided space must meet for the input `data` (handle i = position i in `data`) -/
structure Inv (data : List (K × K)) (sp : List (Piece K)) : Prop where
  nonempty : ∀ p ∈ sp, p.s < p.e
  sorted   : sp.Pairwise (fun p q => p.e ≤ q.s)
  handles  : ∀ p ∈ sp, ∀ x, p.s ≤ x → x < p.e → ∀ i, i ∈ p.hs ↔ ∃ r, data[i]? = some r ∧ Contains r x
  nodup    : ∀ p ∈ sp, p.hs.Nodup
  cover    : ∀ (i : Nat) r x, data[i]? = some r → Contains r x → ∃ p ∈ sp, p.s ≤ x ∧ x < p.e

/-- (B) the construction establishes the specification, for every input list (any length; touching,
    nested, identical or zero-width ranges) without inverted ranges -/
theorem fromData_inv (data : List (K × K)) (hle : ∀ r ∈ data, r.1 ≤ r.2) : Inv data (fromData data) := by
  have hg := fromData_good data hle
  refine ⟨hg.nonempty, hg.sorted, ?_, hg.nodup, ?_⟩
  · intro p hp x h1 h2 i
    rw [hg.handles p hp x h1 h2 i]
    constructor
    · rintro ⟨r, hr, h3, h4⟩
      exact ⟨r, mem_sortByStart.mp hr, h3, h4⟩
    · rintro ⟨r, hr, h3, h4⟩
      exact ⟨r, mem_sortByStart.mpr hr, h3, h4⟩
  · intro i r x hr hc
    exact hg.cover r i x (mem_sortByStart.mpr hr) hc.1 hc.2

/-- the hypothesis of `fromData_inv` cannot be dropped: an inverted input range yields an inverted piece -/
theorem inverted_counterexample : ¬ Inv [((5 : Int), 3)] (fromData [((5 : Int), 3)]) := by
  intro h
  have e : fromData [((5 : Int), 3)] = [{ s := 5, e := 3, hs := [0] }] := by
    simp [fromData, sortByStart, step, popLoop, drain]
  have := h.nonempty { s := 5, e := 3, hs := [0] } (by rw [e]; exact List.mem_singleton.mpr rfl)
  exact absurd this (by decide)

/-- data_at_point returns exactly the items whose half-open range contains x, each once -/
theorem dataAtPoint_spec {data : List (K × K)} {sp : List (Piece K)} (h : Inv data sp) (x : K) :
    (∀ i, i ∈ dataAtPoint sp x ↔ ∃ r, data[i]? = some r ∧ Contains r x) ∧ (dataAtPoint sp x).Nodup := by
  rcases dataAtPoint_cases h.nonempty h.sorted x with ⟨p, hp, h1, h2, e⟩ | ⟨hno, e⟩
  · rw [e]
    exact ⟨fun i => h.handles p hp x h1 h2 i, h.nodup p hp⟩
  · rw [e]
    refine ⟨?_, List.nodup_nil⟩
    intro i
    constructor
    · intro hi; cases hi
    · rintro ⟨r, hr, hc⟩
      obtain ⟨p, hp, h1, h2⟩ := h.cover i r x hr hc
      exact absurd ⟨h1, h2⟩ (hno p hp)

/-- regions_in_range returns exactly the pieces meeting `[rs, re)` (for rs < re), in order -/
theorem regionsInRange_spec {data : List (K × K)} {sp : List (Piece K)} (h : Inv data sp) (rs re : K)
    (hr : rs < re) :
    regionsInRange sp rs re = sp.filter (fun p => decide (rs < p.e) && decide (p.s < re)) :=
  regionsInRange_eq h.nonempty h.sorted rs re

/-- data_in_region returns each item overlapping the region once -/
theorem dataInRegion_spec {data : List (K × K)} {sp : List (Piece K)} (h : Inv data sp) (rs re : K)
    (hr : rs < re) :
    (∀ i, i ∈ dataInRegion sp rs re ↔ ∃ r, data[i]? = some r ∧ ∃ x, Contains r x ∧ rs ≤ x ∧ x < re) ∧
    (dataInRegion sp rs re).Nodup := by
  unfold dataInRegion
  obtain ⟨hd1, hd2⟩ := dedup_spec ((regionsInRange sp rs re).flatMap (·.hs)) []
  refine ⟨?_, hd2⟩
  intro i
  rw [hd1 i, regionsInRange_spec h rs re hr]
  simp only [List.mem_flatMap, List.mem_filter, Bool.and_eq_true, decide_eq_true_eq, List.not_mem_nil,
    not_false_eq_true, and_true]
  constructor
  · rintro ⟨p, ⟨hp, h1, h2⟩, hi⟩
    have hpne := h.nonempty p hp
    have hx1 : p.s ≤ max p.s rs := le_max_left _ _
    have hx2 : max p.s rs < p.e := max_lt hpne h1
    obtain ⟨r, hr', hc⟩ := (h.handles p hp (max p.s rs) hx1 hx2 i).mp hi
    exact ⟨r, hr', max p.s rs, hc, le_max_right _ _, max_lt h2 hr⟩
  · rintro ⟨r, hr', x, hc, h1, h2⟩
    obtain ⟨p, hp, h3, h4⟩ := h.cover i r x hr' hc
    exact ⟨p, ⟨hp, lt_of_le_of_lt h1 h4, lt_of_le_of_lt h3 h2⟩, (h.handles p hp x h3 h4 i).mpr ⟨r, hr', hc⟩⟩

/-- all_regions is sorted, non-overlapping and has no empty range (immediate from Inv) -/
theorem allRegions_spec {data : List (K × K)} {sp : List (Piece K)} (h : Inv data sp) :
    sp.Pairwise (fun p q => p.e ≤ q.s) ∧ ∀ p ∈ sp, p.s < p.e :=
  ⟨h.sorted, h.nonempty⟩

end C18Space

section AxiomCheck
#print axioms C18Space.fromData_inv
#print axioms C18Space.dataAtPoint_spec
#print axioms C18Space.regionsInRange_spec
#print axioms C18Space.dataInRegion_spec
#print axioms C18Space.allRegions_spec
#print axioms C18Space.inverted_counterexample
end AxiomCheck
