/-
C20 (find_bezier_roots terminates - for the GENERATED loop)

`Props/C20.lean` proves termination for `Model.Total.rootsLoop`, a hand-written control skeleton of `find_bezier_roots`
(`rootsLoop_terminates`: the stack is empty after fewer than `2^(MAX_DEPTH+1)` iterations, whatever the numeric tests compute).
`Gen.find_bezier_roots` is the function itself, regenerated from find_roots.rs on every check, and `C09L.find_bezier_roots_spec`
shows that it is the loop `C09L.runSpec` with fuel 100000.  Here the skeleton is proved to be that generated loop (a simulation, step by
step, for every state), so the termination theorem is about the generated code and the skeleton leaves the trusted base:

* `specStep_simulates`: one step of the generated loop is one step of `rootsStep` on the corresponding state;
* `runSpec_eq_rootsLoop`: for every fuel the generated loop and the skeleton return the same roots (or both run out of fuel);
* `find_bezier_roots_loop_terminates`: with fuel `≥ 2^49` the generated loop ends by emptying its stack, for every control polygon.
-/
import FloVerif.Props.C20
import FloVerif.Lemmas.NearestRoots

set_option linter.unusedSectionVars false
set_option linter.unusedVariables false
namespace C20Roots
open Prelude Gen Model.Total C09L

variable {K : Type} [Field K] [LinearOrder K] [IsStrictOrderedRing K] [Inhabited K]
attribute [local instance] C09L.fabsNearestRoots
variable [FSqrt K] [FSignum K] [OfInt K]

/-- the skeleton's state for a state of the generated loop -/
def toM (st : St K) : List (List (V2 K) × Nat) × List K := (st.t0.map (fun e => (e.t0, e.t1)), st.t1)

/-- the skeleton instantiated with the generated numeric pieces -/
def skelStep (st : List (List (V2 K) × Nat) × List K) : Sum (List (List (V2 K) × Nat) × List K) (List K) :=
  rootsStep 48 (count_x_axis_crossings 6) (flat_enough 6) flatValue capValue
    (fun s => ((subdivide_n 6 (0.5 : K) s).t0, (subdivide_n 6 (0.5 : K) s).t1)) st

theorem getLast?_map {α β : Type} (f : α → β) (l : List α) : (l.map f).getLast? = l.getLast?.map f := by
  induction l with
  | nil => rfl
  | cons x xs ih =>
    cases xs with
    | nil => rfl
    | cons y ys => simp only [List.map_cons, List.getLast?_cons_cons] at ih ⊢; exact ih

theorem dropLast_map {α β : Type} (f : α → β) (l : List α) : (l.map f).dropLast = l.dropLast.map f := by
  induction l with
  | nil => rfl
  | cons x xs ih =>
    cases xs with
    | nil => rfl
    | cons y ys => simp only [List.map_cons, List.dropLast_cons_cons] at ih ⊢; rw [ih]

/-- ONE STEP OF THE GENERATED LOOP IS ONE STEP OF THE SKELETON: continuing states correspond, and the generated loop returns its
    roots exactly when the skeleton does (it never leaves through `brk`) -/
theorem specStep_simulates (st : St K) :
    (∀ s', specStep st = .inl s' → skelStep (toM st) = .inl (toM s')) ∧
    (∀ r, specStep st = .inr (.ret r) → skelStep (toM st) = .inr r) ∧
    (∀ b, specStep st ≠ .inr (.brk b)) := by
  unfold specStep skelStep rootsStep toM
  simp only [getLast?_map]
  cases h : st.t0.getLast? with
  | none =>
    simp only [Option.map_none]
    refine ⟨?_, ?_, ?_⟩
    · intro s' hs; cases hs
    · intro r hr; cases hr; rfl
    · intro b hb; cases hb
  | some top =>
    simp only [Option.map_some, classify, dropLast_map]
    by_cases h0 : count_x_axis_crossings 6 top.t0 = 0
    · simp only [h0, if_true, beq_self_eq_true]
      refine ⟨?_, ?_, ?_⟩
      · intro s' hs; cases hs; rfl
      · intro r hr; cases hr
      · intro b hb; cases hb
    · have h0' : (count_x_axis_crossings 6 top.t0 == 0) = false := by simpa using h0
      simp only [h0, if_false, h0', Bool.false_eq_true]
      by_cases h1 : count_x_axis_crossings 6 top.t0 = 1 ∧ flat_enough 6 top.t0 = true
      · have h1' : (count_x_axis_crossings 6 top.t0 == 1 && flat_enough 6 top.t0) = true := by simp [h1.1, h1.2]
        simp only [h1, and_self, if_true, h1']
        refine ⟨?_, ?_, ?_⟩
        · intro s' hs; cases hs; rfl
        · intro r hr; cases hr
        · intro b hb; cases hb
      · have h1' : (count_x_axis_crossings 6 top.t0 == 1 && flat_enough 6 top.t0) = false := by
          rcases not_and_or.1 h1 with h | h
          · simp [h]
          · simp [h]
        simp only [h1, if_false, h1', Bool.false_eq_true]
        by_cases h2 : 48 ≤ top.t1
        · simp only [h2, if_true, ge_iff_le, decide_true]
          refine ⟨?_, ?_, ?_⟩
          · intro s' hs; cases hs; rfl
          · intro r hr; cases hr
          · intro b hb; cases hb
        · simp only [h2, if_false, ge_iff_le, decide_false, Bool.false_eq_true]
          refine ⟨?_, ?_, ?_⟩
          · intro s' hs; cases hs; simp [List.map_append]
          · intro r hr; cases hr
          · intro b hb; cases hb

/-- the result of the generated loop as an option: `none` when the fuel ran out -/
def toOpt : LoopExit (St K) (List K) → Option (List K)
  | .ret r => some r
  | .brk _ => none

/-- FOR EVERY FUEL AND EVERY STATE the generated loop and the skeleton agree -/
theorem iter_eq (fuel : Nat) (st : St K) :
    toOpt (iterFuel fuel specStep (fun s => LoopExit.brk s) st) =
      iterFuel fuel (fun s => match skelStep s with | .inl s' => .inl s' | .inr r => .inr (some r)) (fun _ => none) (toM st) := by
  induction fuel generalizing st with
  | zero => rfl
  | succ n ih =>
    obtain ⟨h1, h2, h3⟩ := specStep_simulates st
    simp only [iterFuel]
    cases hs : specStep st with
    | inl s' =>
      rw [h1 s' hs]
      exact ih s'
    | inr e =>
      cases e with
      | ret r => rw [h2 r hs]; rfl
      | brk b => exact absurd hs (h3 b)

/-- THE SKELETON IS THE GENERATED LOOP: same roots for every control polygon and every fuel -/
theorem runSpec_eq_rootsLoop (fuel : Nat) (pts : List (V2 K)) :
    toOpt (runSpec fuel pts) =
      rootsLoop 48 (count_x_axis_crossings 6) (flat_enough 6) flatValue capValue
        (fun s => ((subdivide_n 6 (0.5 : K) s).t0, (subdivide_n 6 (0.5 : K) s).t1)) fuel pts := by
  unfold runSpec rootsLoop
  have h := iter_eq fuel (⟨[⟨pts, 0⟩], []⟩ : St K)
  simp only [toM, List.map_cons, List.map_nil] at h
  rw [h]
  congr 1
  funext s
  simp only [skelStep]
  cases rootsStep 48 (count_x_axis_crossings 6) (flat_enough 6) flatValue capValue
    (fun s => ((subdivide_n 6 (0.5 : K) s).t0, (subdivide_n 6 (0.5 : K) s).t1)) s <;> rfl

/-- THE GENERATED `find_bezier_roots` LOOP TERMINATES: with fuel `≥ 2^49` it ends by emptying its stack (returns through `ret`), for
    every control polygon and whatever the crossing count, the flatness test, Newton-Raphson / bisection and the subdivision compute -/
theorem find_bezier_roots_loop_terminates (fuel : Nat) (hf : 2 ^ 49 ≤ fuel) (pts : List (V2 K)) :
    ∃ roots, runSpec fuel pts = LoopExit.ret roots := by
  have h := C20.rootsLoop_terminates 48 (count_x_axis_crossings 6) (flat_enough 6) (flatValue (K := K)) capValue
    (fun s => ((subdivide_n 6 (0.5 : K) s).t0, (subdivide_n 6 (0.5 : K) s).t1)) fuel (by simpa using hf) pts
  rw [← runSpec_eq_rootsLoop] at h
  cases hr : runSpec fuel pts with
  | ret r => exact ⟨r, rfl⟩
  | brk b => rw [hr] at h; exact absurd rfl h

end C20Roots
