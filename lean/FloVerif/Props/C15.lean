/-
C15  Walking a curve tiles the parameter range.

`Gen.walk_curve_evenly`, `Gen.even_walk_next` (the whole `EvenWalkIterator::next`, inner loop included) and
`Gen.uneven_walk_next` are regenerated from walk.rs on every check.  The tiling theorems hold whatever the
step controller inside the loop computes (it is treated as an opaque value), so they cover every curve.
-/
import FloVerif.Gen.Walk
import Mathlib.Tactic.Ring
import Mathlib.Tactic.NormNum.OfScientific
import Mathlib.Tactic.FieldSimp
import Mathlib.Tactic.Linarith
import Mathlib.Algebra.Order.Field.Basic
import Mathlib.Data.List.Chain

set_option linter.unusedSectionVars false
namespace C15
open Prelude Gen

variable {K : Type} [Field K] [LinearOrder K] [IsStrictOrderedRing K] [Inhabited K] [FSqrt K]

local instance instFAbs : FAbs K := ⟨fun a => |a|⟩
/-- `n as f64` -/
local instance instOfInt : OfInt K := ⟨fun z => (z : K)⟩

/-! ### walk_curve_unevenly -/

/-- one step of the uneven walk: section `[k/n, (k+1)/n]` until `k = n` -/
theorem uneven_next_spec (n k : Nat) :
    uneven_walk_next (K := K) n k =
      if k ≥ n then T2.mk none k else T2.mk (some (T2.mk ((k : K) / (n : K)) (((k + 1 : Nat) : K) / (n : K)))) (k + 1) := by
  simp only [uneven_walk_next, ofInt, decide_eq_true_eq]
  split <;> simp

/-- all sections of `walk_curve_unevenly(curve, n)` by running the generated iterator from `k` -/
def unevenFrom (n : Nat) : Nat → Nat → List (T2 K K)
  | 0, _ => []
  | f + 1, k => match (uneven_walk_next (K := K) n k).t0 with
    | none => []
    | some s => s :: unevenFrom n f (uneven_walk_next (K := K) n k).t1

theorem unevenFrom_eq (n : Nat) : ∀ (f k : Nat), k + f = n →
    unevenFrom (K := K) n f k = (List.range' k f).map (fun (j : Nat) => T2.mk ((j : K) / (n : K)) (((j + 1 : Nat) : K) / (n : K)))
  | 0, k, _ => by simp [unevenFrom]
  | f + 1, k, h => by
    have hk : ¬ k ≥ n := by omega
    simp only [unevenFrom, uneven_next_spec, if_neg hk, List.range'_succ, List.map_cons]
    rw [unevenFrom_eq n f (k + 1) (by omega)]

/-- UNEVEN WALK: exactly `n` sections, the k-th is `[k/n, (k+1)/n]`; they tile `[0,1]` exactly: the first starts at 0,
    each starts where the previous ended, the last ends at exactly 1, and all have equal parameter width 1/n -/
theorem uneven_tiling (n : Nat) (hn : 0 < n) :
    let secs := unevenFrom (K := K) n n 0
    secs.length = n ∧
    (∀ k (hk : k < secs.length), secs[k] = T2.mk ((k : K) / (n : K)) (((k + 1 : Nat) : K) / (n : K))) ∧
    (∀ s, secs.head? = some s → s.t0 = 0) ∧
    (∀ s, secs.getLast? = some s → s.t1 = 1) ∧
    (∀ s ∈ secs, s.t1 - s.t0 = 1 / (n : K)) := by
  have hnK : (n : K) ≠ 0 := by exact_mod_cast (Nat.pos_iff_ne_zero.1 hn)
  have heq := unevenFrom_eq (K := K) n n 0 (by omega)
  simp only
  rw [heq]
  refine ⟨by simp, ?_, ?_, ?_, ?_⟩
  · intro k hk
    simp [List.getElem_range']
  · intro s hs
    cases n with
    | zero => omega
    | succ m =>
      simp only [List.range'_succ, List.map_cons, List.head?_cons, Option.some.injEq] at hs
      rw [← hs]; simp
  · intro s hs
    rw [List.getLast?_map] at hs
    have : (List.range' 0 n).getLast? = some (n - 1) := by
      cases n with
      | zero => omega
      | succ m => simp [List.getLast?_range']
    rw [this] at hs
    simp only [Option.map_some, Option.some.injEq] at hs
    rw [← hs]
    have : n - 1 + 1 = n := by omega
    simp only [this]
    exact div_self hnK
  · intro s hs
    simp only [List.mem_map, List.mem_range'_1] at hs
    obtain ⟨j, _, rfl⟩ := hs
    simp only
    field_simp
    push_cast
    ring

local instance : FSqrt ℚ := ⟨id⟩

example : unevenFrom (K := ℚ) 3 3 0 = [T2.mk 0 (1/3), T2.mk (1/3) (2/3), T2.mk (2/3) 1] := by
  rw [unevenFrom_eq 3 3 0 rfl]; norm_num [List.range'_succ]


/-! ### walk_curve_evenly -/

/-- the iterator starts at parameter 0 with a positive target distance and tolerance -/
theorem even_start (w1 w2 w3 w4 : V2 K) (distance max_error : K) :
    (walk_curve_evenly w1 w2 w3 w4 distance max_error).last_t = 0 ∧
    (walk_curve_evenly w1 w2 w3 w4 distance max_error).last_point = w1 ∧
    0 < (walk_curve_evenly w1 w2 w3 w4 distance max_error).distance ∧
    0 < (walk_curve_evenly w1 w2 w3 w4 distance max_error).max_error := by
  have hp : (0 : K) < 1e-10 := by norm_num
  simp only [walk_curve_evenly]
  refine ⟨by norm_num, ?_, ?_, ?_⟩
  · trivial
  · split
    · exact hp
    · rename_i h; simp only [decide_eq_true_eq, not_lt] at h; exact lt_of_lt_of_le hp h
  · split
    · exact hp
    · rename_i h; simp only [decide_eq_true_eq, not_lt] at h; exact lt_of_lt_of_le hp h

/-- EVEN WALK, one step, for ANY curve, state and whatever the step controller computes: `None` is returned exactly when
    the walk has reached parameter 1 (and then nothing changes); a returned section starts where the walk stood, ends at
    or before 1, and the walk then stands exactly at the section's end -/
theorem even_next_tiles (w1 w2 w3 w4 : V2 K) (d : T3 (V2 K) (V2 K) (V2 K)) (dist err lastT : K) (lastP : V2 K) (lastInc : K) :
    let r := even_walk_next w1 w2 w3 w4 d dist err lastT lastP lastInc
    (r.t0 = none ↔ lastT ≥ 1) ∧
    (r.t0 = none → r.t1.t0 = lastT) ∧
    (∀ sec, r.t0 = some sec → sec.t0 = lastT ∧ sec.t1 ≤ 1 ∧ r.t1.t0 = sec.t1) := by
  have h1 : (1.0 : K) = 1 := by norm_num
  intro r
  have hr : even_walk_next w1 w2 w3 w4 d dist err lastT lastP lastInc = r := rfl
  clear_value r
  unfold even_walk_next at hr
  extract_lets at hr
  simp only [h1, decide_eq_true_eq] at hr
  split_ifs at hr <;> subst hr <;> simp_all +zetaDelta <;> first | linarith | skip

/-- the sections produced by running the generated iterator for at most `fuel` steps, and whether it finished (`None`) -/
def evenFrom (w1 w2 w3 w4 : V2 K) (d : T3 (V2 K) (V2 K) (V2 K)) (dist err : K) :
    Nat → K → V2 K → K → List (T2 K K) × Bool
  | 0, _, _, _ => ([], false)
  | f + 1, lastT, lastP, lastInc =>
    let r := even_walk_next w1 w2 w3 w4 d dist err lastT lastP lastInc
    match r.t0 with
    | none => ([], true)
    | some sec => let rest := evenFrom w1 w2 w3 w4 d dist err f r.t1.t0 r.t1.t1 r.t1.t2
      (sec :: rest.1, rest.2)

/-- EVEN WALK TILES: from any state, for any curve, distance and tolerance: the first section starts where the walk
    stands, each section starts exactly where the previous one ended, no section ends after 1, and if the iterator
    finishes (returns `None`) the last section ends at exactly 1 (or the walk already stood at ≥ 1 and yields nothing) -/
theorem even_tiling (w1 w2 w3 w4 : V2 K) (d : T3 (V2 K) (V2 K) (V2 K)) (dist err : K) :
    ∀ (fuel : Nat) (lastT : K) (lastP : V2 K) (lastInc : K),
      let run := evenFrom w1 w2 w3 w4 d dist err fuel lastT lastP lastInc
      (∀ s, run.1.head? = some s → s.t0 = lastT) ∧
      run.1.IsChain (fun a b => a.t1 = b.t0) ∧
      (∀ s ∈ run.1, s.t1 ≤ 1) ∧
      (run.2 = true → (∀ s, run.1.getLast? = some s → s.t1 = 1) ∧ (run.1 = [] → lastT ≥ 1))
  | 0, lastT, lastP, lastInc => by simp [evenFrom]
  | f + 1, lastT, lastP, lastInc => by
    have ht := even_next_tiles w1 w2 w3 w4 d dist err lastT lastP lastInc
    simp only at ht
    obtain ⟨hnone, _, hsome⟩ := ht
    simp only [evenFrom]
    cases hr : (even_walk_next w1 w2 w3 w4 d dist err lastT lastP lastInc).t0 with
    | none =>
      simp only [List.head?_nil, List.getLast?_nil, List.not_mem_nil]
      refine ⟨by simp, List.isChain_nil, by simp, fun _ => ⟨by simp, fun _ => hnone.1 hr⟩⟩
    | some sec =>
      obtain ⟨h0, h1, hst⟩ := hsome sec hr
      have ih := even_tiling w1 w2 w3 w4 d dist err f
        (even_walk_next w1 w2 w3 w4 d dist err lastT lastP lastInc).t1.t0
        (even_walk_next w1 w2 w3 w4 d dist err lastT lastP lastInc).t1.t1
        (even_walk_next w1 w2 w3 w4 d dist err lastT lastP lastInc).t1.t2
      simp only at ih
      obtain ⟨ihead, ichain, ile, ifin⟩ := ih
      generalize hrest : evenFrom w1 w2 w3 w4 d dist err f
        (even_walk_next w1 w2 w3 w4 d dist err lastT lastP lastInc).t1.t0
        (even_walk_next w1 w2 w3 w4 d dist err lastT lastP lastInc).t1.t1
        (even_walk_next w1 w2 w3 w4 d dist err lastT lastP lastInc).t1.t2 = rest at ihead ichain ile ifin ⊢
      obtain ⟨secs, fin⟩ := rest
      simp only at ihead ichain ile ifin ⊢
      cases secs with
      | nil =>
        refine ⟨by simp [h0], List.isChain_singleton _, ?_, ?_⟩
        · intro s hs
          simp only [List.mem_singleton] at hs
          rw [hs]; exact h1
        · intro hfin
          obtain ⟨_, iempty⟩ := ifin hfin
          refine ⟨fun s hs => ?_, by simp⟩
          simp only [List.getLast?_singleton, Option.some.injEq] at hs
          rw [← hs]
          have := iempty rfl
          rw [hst] at this
          exact le_antisymm h1 this
      | cons y ys =>
        refine ⟨by simp [h0], ?_, ?_, ?_⟩
        · refine List.IsChain.cons_cons ?_ ichain
          rw [ihead y (by simp), hst]
        · intro s hs
          rcases List.mem_cons.1 hs with rfl | hs
          · exact h1
          · exact ile s hs
        · intro hfin
          obtain ⟨ilast, _⟩ := ifin hfin
          refine ⟨fun s hs => ?_, by simp⟩
          rw [List.getLast?_cons_cons] at hs
          exact ilast s hs

end C15
