/-
C17 (scan part)  The scan-line edge iterator yields exactly the mixed 2×2 cells.

Property theorem only; the proof is in `Lemmas/Scan.lean`.  `edgeCells` is the hand model of
`InterceptScanEdgeIterator` (`Model/Contour.lean`) run on the rounded intercepts of a bitmap, with the
concrete fuel `4*(w+4)*(rows.length+4)` per `next` call and the concrete cell budget `(w+2)*(rows.length+2)`;
`mixedCells` lists, in scanline order, every 2×2 cell that has both inside and outside samples, with its
corner bits packed by the generated `Gen.cell_from_corners`.
-/
import FloVerif.Lemmas.Scan

namespace C17Scan
open Prelude Gen Model.Contour ScanLemmas

/-- (B0) the scan on ANY lines of well-formed run lists (non-empty runs inside `[0, w]`, strictly separated - what the
    rounding stage produces, see `C17Round.roundFrac_good`): the iterator model, with its concrete fuel and cell budget,
    yields exactly the cells of the scanline specification `restCells` (cell at (x, y) = the four samples around it,
    read off the run lists above and below, reported when mixed) -/
theorem scan_runs_spec (w : Nat) (lines : List (List Run)) (gl : ∀ l ∈ lines, Good w 0 l) :
    edgeCellsOfRuns w lines = restCells w 0 [] lines := by
  obtain ⟨inv, hS, _, _⟩ := loadLine_spec w lines.length lines [] 0 0 trivial gl (Nat.le_refl _)
  have hfuel : (lines.length + 2) * (3 * w + 3) ≤ 4 * (w + 4) * (lines.length + 4) := by
    rw [Nat.mul_comm (4 * (w + 4))]
    exact Nat.mul_le_mul (by omega) (by omega)
  have hcount : (S w (fromIterator lines)).length ≤ (w + 2) * (lines.length + 2) := by
    show (S w (loadLine 0 lines [] 0)).length ≤ _
    rw [hS]
    have := restCells_length_le w lines 0 []
    refine Nat.le_trans this ?_
    rw [Nat.mul_comm (w + 2)]
    exact Nat.mul_le_mul (by omega) (by omega)
  unfold edgeCellsOfRuns
  simp only []
  rw [cellsGo_spec hfuel _ (fromIterator lines) inv hcount]
  show S w (loadLine 0 lines [] 0) = _
  rw [hS]

/-- (B) the scan iterator yields exactly the mixed 2×2 cells, with the correct corner bits, in scanline order — for EVERY bitmap -/
theorem scan_spec (w : Nat) (rows : List (List Bool)) (hrows : ∀ r ∈ rows, r.length = w) :
    edgeCells w rows = mixedCells w rows := by
  have gl : ∀ l ∈ rows.map roundedRuns, Good w 0 l := by
    intro l hl
    obtain ⟨r, hr, rfl⟩ := List.mem_map.1 hl
    exact roundedRuns_good r (Nat.le_of_eq (hrows r hr))
  unfold edgeCells
  rw [scan_runs_spec w _ gl, mixedCells_eq]
  have := restCells_eq w rows rows 0 (List.drop_zero)
  rw [show prevRow rows 0 = [] from rfl, roundedRuns_nil] at this
  rw [this, List.range_eq_range']

example : edgeCellsOfRuns 3 [[(0, 1), (2, 3)]] = restCells 3 0 [] [[(0, 1), (2, 3)]] ∧
    (edgeCellsOfRuns 3 [[(0, 1), (2, 3)]]).length = 8 := by decide

end C17Scan
