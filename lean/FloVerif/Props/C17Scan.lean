/-
C17 (scan part)  The scan-line edge iterator yields exactly the mixed 2×2 cells.

Property theorem only; the proof is in `Lemmas/Scan.lean`.  `edgeCells` is the hand model of
`InterceptScanEdgeIterator` (`Model/Contour.lean`) run on the rounded intercepts of a bitmap, with the
concrete fuel `4*(w+4)*(rows.length+4)` per `next` call and the concrete cell budget `(w+2)*(rows.length+2)`;
`mixedCells` lists, in scanline order, every 2×2 cell that has both inside and outside samples, with its
corner bits packed by the generated `Gen.cell_from_corners`.
-/
import FloVerif.Lemmas.Scan

namespace C17Scan
open Prelude Gen Model.Contour ScanLemmas

/-- (B) the scan iterator yields exactly the mixed 2×2 cells, with the correct corner bits, in scanline order — for EVERY bitmap -/
theorem scan_spec (w : Nat) (rows : List (List Bool)) (hrows : ∀ r ∈ rows, r.length = w) :
    edgeCells w rows = mixedCells w rows := by
  have gl : ∀ l ∈ rows.map roundedRuns, Good w 0 l := by
    intro l hl
    obtain ⟨r, hr, rfl⟩ := List.mem_map.1 hl
    exact roundedRuns_good r (Nat.le_of_eq (hrows r hr))
  obtain ⟨inv, hS, _, _⟩ :=
    loadLine_spec w rows.length (rows.map roundedRuns) [] 0 0 trivial gl (by rw [List.length_map])
  have hfuel : (rows.length + 2) * (3 * w + 3) ≤ 4 * (w + 4) * (rows.length + 4) := by
    rw [Nat.mul_comm (4 * (w + 4))]
    exact Nat.mul_le_mul (by omega) (by omega)
  have hcount : (S w (fromIterator (rows.map roundedRuns))).length ≤ (w + 2) * (rows.length + 2) := by
    show (S w (loadLine 0 (rows.map roundedRuns) [] 0)).length ≤ _
    rw [hS]
    have := restCells_length_le w (rows.map roundedRuns) 0 []
    rw [List.length_map] at this
    refine Nat.le_trans this ?_
    rw [Nat.mul_comm (w + 2)]
    exact Nat.mul_le_mul (by omega) (by omega)
  unfold edgeCells
  simp only []
  rw [cellsGo_spec hfuel _ (fromIterator (rows.map roundedRuns)) inv hcount]
  show S w (loadLine 0 (rows.map roundedRuns) [] 0) = _
  rw [hS, mixedCells_eq]
  have := restCells_eq w rows rows 0 (List.drop_zero)
  rw [show prevRow rows 0 = [] from rfl, roundedRuns_nil] at this
  rw [this, List.range_eq_range']

end C17Scan
