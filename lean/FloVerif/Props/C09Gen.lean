/-
C09 (the Bézier form, generated)  `distance_in_bezier_form` is no longer a hand model.

`Gen.gen_distance_in_bezier_form` is regenerated from nearest_point_bezier_root_finder.rs on every check (new translator form: a
compound assignment to an indexed element of a local list, `curve[(i+j) as usize].1 += …`; the outer `for k in 0..=5` is unrolled,
the inner `for i in lower..=upper` is a fold).  It is EQUAL to the literal hand model `Model.Nearest.distance_in_bezier_form` that
the theorems of `Props/C09.lean` (quintic identity, global minimum) were written for - so those are theorems about the generated
code - and the driver compares the implementation's six control points with the generated function bit for bit.
-/
import FloVerif.Lemmas.Nearest

set_option linter.unusedSectionVars false
namespace C09Gen
open Prelude Gen Model.Nearest

variable {K : Type} [Field K] [LinearOrder K] [IsStrictOrderedRing K] [Inhabited K]
local instance : FAbs K := ⟨fun a => |a|⟩
variable [FSqrt K] [FConsts K]

/-- the generated function, loops evaluated: the same six points, the same operations in the same order -/
theorem gen_dbf_explicit (w1 w2 w3 w4 p : V2 K) :
    gen_distance_in_bezier_form w1 w2 w3 w4 p =
      [{ x := 0.0 / 5.0, y := 0.0 + dot ((w2 - w1) * (3.0 : K)) (w1 - p) * 1.0 },
       { x := 1.0 / 5.0, y := 0.0 + dot ((w3 - w2) * (3.0 : K)) (w1 - p) * 0.4 + dot ((w2 - w1) * (3.0 : K)) (w2 - p) * 0.6 },
       { x := 2.0 / 5.0, y := 0.0 + dot ((w4 - w3) * (3.0 : K)) (w1 - p) * 0.1 + dot ((w3 - w2) * (3.0 : K)) (w2 - p) * 0.6 +
            dot ((w2 - w1) * (3.0 : K)) (w3 - p) * 0.3 },
       { x := 3.0 / 5.0, y := 0.0 + dot ((w4 - w3) * (3.0 : K)) (w2 - p) * 0.3 + dot ((w3 - w2) * (3.0 : K)) (w3 - p) * 0.6 +
            dot ((w2 - w1) * (3.0 : K)) (w4 - p) * 0.1 },
       { x := 4.0 / 5.0, y := 0.0 + dot ((w4 - w3) * (3.0 : K)) (w3 - p) * 0.6 + dot ((w3 - w2) * (3.0 : K)) (w4 - p) * 0.4 },
       { x := 5.0 / 5.0, y := 0.0 + dot ((w4 - w3) * (3.0 : K)) (w4 - p) * 1.0 }] := by
  simp [gen_distance_in_bezier_form, foldlT, List.range', listGet, fmax, fmin]

/-- THE GENERATED FUNCTION IS THE HAND MODEL, for every curve and point -/
theorem gen_eq_model (w1 w2 w3 w4 p : V2 K) :
    gen_distance_in_bezier_form w1 w2 w3 w4 p = distance_in_bezier_form w1 w2 w3 w4 p := by
  rw [gen_dbf_explicit, C09L.dbf_explicit]

end C09Gen
