/-
C11  Derived two-operand path operations agree with the basic ones — the decision logic.

`path_cut` / `path_full_intersect` run the classification machine of C01 with the intersect and the subtract
predicate (after `reset_edge_kinds`); `path_add_chain` runs it with the chain predicate; `path_combine` is a
recursion over the expression tree.  The predicates are the generated `Gen.pred_*` (theorems in Props/C01.lean);
the machine and `path_combine` are hand models (`Model.RayCast`), the machine tied to the code by the H2 traces of
both classification passes.
-/
import FloVerif.Props.C01

namespace C11
open Prelude Gen Model.RayCast

variable {PathT : Type}

mutual
/-- denotation of an expression tree at one probe point, given membership `mem` of the leaves:
    Add = ⋃, Subtract [a, b, …] = a ∖ b ∖ …, Intersect = ⋂, empty operand lists = ∅ -/
def denote (mem nz : List PathT → Bool) : Combine PathT → Bool
  | .path p => mem p
  | .removeInterior p => nz p
  | .add ops => (denoteList mem nz ops).any id
  | .subtract ops => match denoteList mem nz ops with
    | [] => false
    | a :: rest => a && rest.all (fun b => !b)
  | .intersect ops => match denoteList mem nz ops with
    | [] => false
    | a :: rest => a && rest.all id
def denoteList (mem nz : List PathT → Bool) : List (Combine PathT) → List Bool
  | [] => []
  | c :: cs => denote mem nz c :: denoteList mem nz cs
end

/-- the membership contract of the operations `path_combine` is built from (C01, C12 for one probe point) -/
structure Contract (o : Ops PathT) (mem nz : List PathT → Bool) : Prop where
  empty : mem [] = false
  removeInterior : ∀ p, mem (o.removeInterior p) = nz p
  addChain : ∀ ls, mem (o.addChain ls) = ls.any mem
  sub : ∀ a b, mem (o.sub a b) = (mem a && !mem b)
  intersect : ∀ a b, mem (o.intersect a b) = (mem a && mem b)

private theorem foldl_sub (o : Ops PathT) (mem nz : List PathT → Bool) (h : Contract o mem nz) (r : List PathT) (rest : List (List PathT)) :
    mem (rest.foldl o.sub r) = (mem r && (rest.map mem).all (fun b => !b)) := by
  induction rest generalizing r with
  | nil => simp
  | cons x xs ih => simp only [List.foldl_cons, ih, h.sub, List.map_cons, List.all_cons, Bool.and_assoc]

private theorem foldl_intersect (o : Ops PathT) (mem nz : List PathT → Bool) (h : Contract o mem nz) (r : List PathT) (rest : List (List PathT)) :
    mem (rest.foldl o.intersect r) = (mem r && (rest.map mem).all id) := by
  induction rest generalizing r with
  | nil => simp
  | cons x xs ih => simp only [List.foldl_cons, ih, h.intersect, List.map_cons, List.all_cons, id, Bool.and_assoc]

mutual
/-- COMBINE DENOTES: for every expression tree, membership in `path_combine e` is the denotation of `e` -/
theorem combine_denotes (o : Ops PathT) (mem nz : List PathT → Bool) (h : Contract o mem nz) :
    ∀ e : Combine PathT, mem (combine o e) = denote mem nz e
  | .path p => by simp [combine, denote]
  | .removeInterior p => by simp [combine, denote, h.removeInterior]
  | .add ops => by
    simp only [combine, denote, h.addChain]
    rw [← combineList_denotes o mem nz h ops]
    simp [List.any_map]
  | .subtract ops => by
    simp only [combine, denote]
    rw [← combineList_denotes o mem nz h ops]
    cases hc : combineList o ops with
    | nil => simp [h.empty]
    | cons r rest => simp [foldl_sub o mem nz h]
  | .intersect ops => by
    simp only [combine, denote]
    rw [← combineList_denotes o mem nz h ops]
    cases hc : combineList o ops with
    | nil => simp [h.empty]
    | cons r rest => simp [foldl_intersect o mem nz h]
theorem combineList_denotes (o : Ops PathT) (mem nz : List PathT → Bool) (h : Contract o mem nz) :
    ∀ es : List (Combine PathT), (combineList o es).map mem = denoteList mem nz es
  | [] => by simp [combineList, denoteList]
  | c :: cs => by simp [combineList, denoteList, combine_denotes o mem nz h c, combineList_denotes o mem nz h cs]
end

/-- cut and full-intersect: the two classification passes use the intersect and the subtract predicate, so by
    `C01.pred_spec` the interior piece is A ∩ B and the exterior piece A ∖ B (B ∖ A on the swapped graph) -/
theorem cut_predicates (a b : Int) :
    pred_intersect [a, b] = (decide (a % 2 = 1) && decide (b % 2 = 1)) ∧
    pred_sub [a, b] = (decide (a % 2 = 1) && !decide (b % 2 = 1)) ∧
    pred_sub [b, a] = (decide (b % 2 = 1) && !decide (a % 2 = 1)) :=
  ⟨(C01.pred_spec a b).2.2.1, (C01.pred_spec a b).2.1, (C01.pred_spec b a).2.1⟩

/-- chain: with one label per operand the any-odd predicate is the union; by `C01.membership_telescopes` the
    result's boundary is crossed an odd number of times iff the probe is in some operand -/
theorem chain_spec (cs : List Int) : pred_chain cs = cs.any (fun c => decide (c % 2 = 1)) := C01.pred_chain_spec cs

/-! Non-vacuity: (A + B) − C at a probe inside A only is inside. -/
example : denote (PathT := Nat) (fun p => p == [1]) (fun _ => false)
    (.subtract [.add [.path [1], .path [2]], .path [3]]) = true := by decide

end C11
