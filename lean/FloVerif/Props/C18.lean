/-
C18  The sweep-line broad phase reports every pair of overlapping bounding boxes exactly once.

Property theorems only.  `Gen.bounds_overlaps` is regenerated from `BoundingBox::overlaps` on every check;
`Model.Sweep` is the hand model of `sweep_self` / `sweep_against` (checked against the implementation by the
driver).  `K` is any linear order (ℚ contains every finite f64).  The helper development is in
`FloVerif/Lemmas/Sweep.lean`.
-/
import FloVerif.Lemmas.Sweep
import Mathlib.Data.Nat.Basic

set_option linter.unusedSectionVars false
namespace C18
open Prelude Gen Model Model.Sweep

variable {K : Type} [LinearOrder K]

/-- mathematical specification: the closed x-intervals and the closed y-intervals of the two boxes intersect -/
def OverlapsSpec (a b : Bounds2 K) : Prop :=
  (∃ x, a.min_.x ≤ x ∧ x ≤ a.max_.x ∧ b.min_.x ≤ x ∧ x ≤ b.max_.x) ∧
  (∃ y, a.min_.y ≤ y ∧ y ≤ a.max_.y ∧ b.min_.y ≤ y ∧ y ≤ b.max_.y)

def WellFormed (a : Bounds2 K) : Prop := a.min_.x ≤ a.max_.x ∧ a.min_.y ≤ a.max_.y

/-- two closed intervals with `lo ≤ hi` intersect iff each starts before the other ends -/
private theorem interval_meet {a0 a1 b0 b1 : K} (ha : a0 ≤ a1) (hb : b0 ≤ b1) :
    (∃ x, a0 ≤ x ∧ x ≤ a1 ∧ b0 ≤ x ∧ x ≤ b1) ↔ (a0 ≤ b1 ∧ b0 ≤ a1) := by
  constructor
  · rintro ⟨x, h1, h2, h3, h4⟩
    exact ⟨le_trans h1 h4, le_trans h3 h2⟩
  · rintro ⟨h1, h2⟩
    rcases le_total a0 b0 with h | h
    · exact ⟨b0, h, h2, le_refl _, hb⟩
    · exact ⟨a0, le_refl _, ha, h, h1⟩

theorem overlaps_spec (a b : Bounds2 K) (ha : WellFormed a) (hb : WellFormed b) :
    bounds_overlaps a b = true ↔ OverlapsSpec a b := by
  rw [Lemmas.Sweep.overlaps_iff, OverlapsSpec, interval_meet ha.1 hb.1, interval_meet ha.2 hb.2]

example : bounds_overlaps (K := Nat) ⟨⟨0, 0⟩, ⟨2, 2⟩⟩ ⟨⟨2, 1⟩, ⟨3, 3⟩⟩ = true ∧
    OverlapsSpec (K := Nat) ⟨⟨0, 0⟩, ⟨2, 2⟩⟩ ⟨⟨2, 1⟩, ⟨3, 3⟩⟩ ∧
    ¬ OverlapsSpec (K := Nat) ⟨⟨0, 0⟩, ⟨2, 2⟩⟩ ⟨⟨3, 1⟩, ⟨4, 3⟩⟩ := by
  refine ⟨by decide, (overlaps_spec _ _ (by unfold WellFormed; decide) (by unfold WellFormed; decide)).1 (by decide), ?_⟩
  rw [← overlaps_spec _ _ (by unfold WellFormed; decide) (by unfold WellFormed; decide)]
  decide

/-- every pair (i < j in list order) of overlapping items, exactly once -/
def allPairs : List (Item K) → List (Item K × Item K)
  | [] => []
  | x :: rest => (rest.filter (fun y => bounds_overlaps x.b y.b)).map (fun y => (x, y)) ++ allPairs rest

/-- every (source, target) pair of overlapping items, exactly once -/
def crossPairs (src tgt : List (Item K)) : List (Item K × Item K) :=
  tgt.flatMap (fun t => (src.filter (fun s => bounds_overlaps s.b t.b)).map (fun s => (s, t)))

private theorem allPairs_eq (xs : List (Item K)) : allPairs xs = Lemmas.Sweep.selfPairs xs := by
  induction xs with
  | nil => rfl
  | cons x rest ih => simp only [allPairs, Lemmas.Sweep.selfPairs, ih]

private theorem crossPairs_eq (src tgt : List (Item K)) : crossPairs src tgt = Lemmas.Sweep.cross src tgt := rfl

/-- sweep_self over items sorted by minimum x returns every overlapping unordered pair exactly once -/
theorem sweepSelf_perm (xs : List (Item K)) (hs : xs.Pairwise (fun a b => minx a ≤ minx b)) :
    (sweepSelf xs).Perm (allPairs xs) := by
  have h := Lemmas.Sweep.sweepSelfGo_perm [] xs hs
  rw [Lemmas.Sweep.cross_nil_src, List.nil_append] at h
  rw [allPairs_eq]
  exact h

/-- three boxes sorted by minimum x: 0 and 1 overlap, 1 and 2 overlap, 0 and 2 do not -/
private def exSelf : List (Item Nat) :=
  [⟨0, ⟨⟨0, 0⟩, ⟨2, 2⟩⟩⟩, ⟨1, ⟨⟨1, 1⟩, ⟨4, 4⟩⟩⟩, ⟨2, ⟨⟨3, 0⟩, ⟨5, 5⟩⟩⟩]

example : (sweepSelf exSelf).Perm (allPairs exSelf) ∧
    (sweepSelf exSelf).map (fun p => (p.1.id, p.2.id)) = [(0, 1), (1, 2)] :=
  ⟨sweepSelf_perm exSelf (by decide), by decide⟩

/-- sweep_against returns every overlapping (source, target) pair exactly once; both inputs sorted by minimum x -/
theorem sweepAgainst_perm (src tgt : List (Item K))
    (hs : src.Pairwise (fun a b => minx a ≤ minx b)) (ht : tgt.Pairwise (fun a b => minx a ≤ minx b)) :
    (sweepAgainst src tgt).Perm (crossPairs src tgt) := by
  rw [crossPairs_eq]
  have h := Lemmas.Sweep.sweepAgainstGo_perm none [] src tgt hs ht (fun _ hl => nomatch hl)
  rw [List.nil_append] at h
  exact h

/-- two targets sorted by minimum x against `exSelf`: target 10 meets sources 0 and 1, target 11 meets 1 and 2 -/
private def exTgt : List (Item Nat) :=
  [⟨10, ⟨⟨2, 2⟩, ⟨2, 3⟩⟩⟩, ⟨11, ⟨⟨4, 0⟩, ⟨9, 9⟩⟩⟩]

example : (sweepAgainst exSelf exTgt).Perm (crossPairs exSelf exTgt) ∧
    (sweepAgainst exSelf exTgt).map (fun p => (p.1.id, p.2.id)) = [(0, 10), (1, 10), (1, 11), (2, 11)] :=
  ⟨sweepAgainst_perm exSelf exTgt (by decide) (by decide), by decide⟩

end C18
