/-
C05  Evaluation, subdivision, sections and reversal describe the same curve.

Property theorems only.  Every definition named here lives in `Gen/` and is regenerated from the Rust
sources on every check, so these proofs are re-checked against what the code says now.
`K` is any field of characteristic 0 (ℚ contains every finite f64); points are proved at `P = K`
(exactly `impl Coordinate for f64`) and lifted to 2-D / 3-D component-wise.
-/
import FloVerif.Gen.Section
import Mathlib.Tactic.Ring
import Mathlib.Tactic.NormNum.OfScientific
import Mathlib.Tactic.FieldSimp
import Mathlib.Tactic.Linarith
import Mathlib.Algebra.Order.Field.Basic

set_option linter.unusedSectionVars false
namespace C05
open Prelude Gen

variable {K : Type} [Field K] [LinearOrder K] [IsStrictOrderedRing K] [Inhabited K] [FAbs K]

/-- `point_at_pos` is the Bernstein basis function of the four points -/
theorem point_at_pos_eq_basis (w1 w2 w3 w4 t : K) :
    curve_point_at_pos w1 w2 w3 w4 t = basis t w1 w2 w3 w4 := by
  simp only [curve_point_at_pos]

/-- the basis function equals de Casteljau evaluation -/
theorem basis_eq_de_casteljau4 (t w1 w2 w3 w4 : K) :
    basis t w1 w2 w3 w4 = de_casteljau4 t w1 w2 w3 w4 := by
  simp only [basis, de_casteljau4, de_casteljau3, de_casteljau2]
  norm_num
  ring

/-- exactly the start point at t = 0 (no tolerance) -/
theorem basis_zero (w1 w2 w3 w4 : K) : basis (0.0 : K) w1 w2 w3 w4 = w1 := by
  simp only [basis]; norm_num

/-- exactly the end point at t = 1 (no tolerance) -/
theorem basis_one (w1 w2 w3 w4 : K) : basis (1.0 : K) w1 w2 w3 w4 = w4 := by
  simp only [basis]; norm_num

/-- `subdivide(t)`: the left curve is `s ↦ curve(s·t)` -/
theorem subdivide_left (t s w1 w2 w3 w4 : K) :
    let l := (curve_subdivide w1 w2 w3 w4 t).t0
    basis s l.t0 l.t1 l.t2 l.t3 = basis (s * t) w1 w2 w3 w4 := by
  simp only [curve_subdivide, subdivide4, de_casteljau2, basis]
  norm_num
  ring

/-- `subdivide(t)`: the right curve is `s ↦ curve(t + s·(1−t))` -/
theorem subdivide_right (t s w1 w2 w3 w4 : K) :
    let r := (curve_subdivide w1 w2 w3 w4 t).t1
    basis s r.t0 r.t1 r.t2 r.t3 = basis (t + s * (1 - t)) w1 w2 w3 w4 := by
  simp only [curve_subdivide, subdivide4, de_casteljau2, basis]
  norm_num
  ring

/-- the two halves share the split point, which is the curve point at `t`, and keep the outer ends -/
theorem subdivide_shared_point (t w1 w2 w3 w4 : K) :
    let d := curve_subdivide w1 w2 w3 w4 t
    d.t0.t3 = d.t1.t0 ∧ d.t0.t3 = basis t w1 w2 w3 w4 ∧ d.t0.t0 = w1 ∧ d.t1.t3 = w4 := by
  simp only [curve_subdivide, subdivide4, de_casteljau2, basis]
  norm_num
  ring

/-- a section `[a,b]` evaluates to `curve(a + s·(b−a))` -/
theorem section_point (a b s w1 w2 w3 w4 : K) :
    section_point_at_pos w1 w2 w3 w4 (section_new a b) s = basis (a + s * (b - a)) w1 w2 w3 w4 := by
  simp only [section_point_at_pos, section_new, section_t_for_t, curve_point_at_pos]
  congr 1
  ring

/-- the end points of a section are the curve points at `a` and `b` -/
theorem section_ends (a b w1 w2 w3 w4 : K) :
    section_start_point w1 w2 w3 w4 (section_new a b) = basis a w1 w2 w3 w4 ∧
    section_end_point w1 w2 w3 w4 (section_new a b) = basis b w1 w2 w3 w4 := by
  simp only [section_start_point, section_end_point, section_new, section_t_for_t, curve_point_at_pos]
  constructor <;> congr 1 <;> norm_num

/-- `original_curve_t_values` returns `(a, b)` -/
theorem section_original_t (a b : K) :
    section_original_curve_t_values (section_new a b) = T2.mk a b := by
  simp only [section_original_curve_t_values, section_new]
  congr 1
  ring

/-- a nested subsection `[c,d]` of `[a,b]` is the section `[a + c(b−a), a + d(b−a)]` of the original curve -/
theorem subsection_point (a b c d s w1 w2 w3 w4 : K) :
    section_point_at_pos w1 w2 w3 w4 (section_subsection (section_new a b) c d) s
      = basis (a + (c + s * (d - c)) * (b - a)) w1 w2 w3 w4 := by
  simp only [section_point_at_pos, section_subsection, section_new, section_t_for_t, curve_point_at_pos]
  congr 1
  ring

/-- `section_t_for_original_t` inverts `t_for_t` on a non-empty section -/
theorem section_t_roundtrip (a b t : K) (h : b ≠ a) :
    section_t_for_original_t (section_new a b) (section_t_for_t (section_new a b) t) = t := by
  simp only [section_t_for_original_t, section_new, section_t_for_t]
  have : b - a ≠ 0 := sub_ne_zero.2 h
  field_simp
  ring

/-- the control points of a section define the same cubic as the section: for every `s`, the curve
    (start, cp1, cp2, end) of the section evaluates to `curve(a + s·(b−a))`, for all `0 ≤ a ≤ b ≤ 1`
    including `a = b` and `a = 1` (where the code takes its `t_c >= 1.0` branch instead of dividing by `1 − a`;
    the only section with `a = 1` and `a ≤ b ≤ 1` is `[1,1]`). -/
theorem section_control_points_same_cubic (a b s w1 w2 w3 w4 : K) (ha : a ≤ 1) (hb : a = 1 → b = 1) :
    let sec := section_new a b
    let cps := section_control_points w1 w2 w3 w4 sec
    basis s (section_start_point w1 w2 w3 w4 sec) cps.t0 cps.t1 (section_end_point w1 w2 w3 w4 sec)
      = basis (a + s * (b - a)) w1 w2 w3 w4 := by
  have h10 : (1.0 : K) = 1 := by norm_num
  rcases lt_or_eq_of_le ha with hlt | rfl
  · have h1 : (1 : K) - a ≠ 0 := fun e => (ne_of_lt hlt) (sub_eq_zero.1 e).symm
    have hge : ¬ (a ≥ (1.0 : K)) := by rw [h10]; exact not_le.2 hlt
    simp only [section_control_points, section_start_point, section_end_point, section_new, section_t_for_t,
      curve_point_at_pos, de_casteljau2, basis, hge, decide_false, Bool.false_eq_true, if_false]
    norm_num
    field_simp
    ring
  · have hb1 : b = 1 := hb rfl
    subst hb1
    have hge : ((1 : K) ≥ (1.0 : K)) := by rw [h10]
    simp only [section_control_points, section_start_point, section_end_point, section_new, section_t_for_t,
      curve_point_at_pos, de_casteljau2, basis, hge, decide_true, if_true]
    norm_num
    ring

/-- reversing a curve traverses the same points backwards -/
theorem reverse_point (s w1 w2 w3 w4 : K) :
    let r := curve_reverse w1 w2 w3 w4
    basis s r.t0 r.t1 r.t2 r.t3 = basis (1 - s) w1 w2 w3 w4 := by
  simp only [curve_reverse, basis]
  norm_num
  ring

/-- reversing twice is the identity (this one holds for any point type) -/
theorem reverse_reverse {P : Type} (w1 w2 w3 w4 : P) :
    let r := curve_reverse w1 w2 w3 w4
    curve_reverse r.t0 r.t1 r.t2 r.t3 = T4.mk w1 w2 w3 w4 := by
  simp only [curve_reverse]

/-! Lifting to 2-D and 3-D: every kernel acts component-wise. -/

theorem basis_V2 (t : K) (a b c d : V2 K) :
    basis t a b c d = V2.mk (basis t a.x b.x c.x d.x) (basis t a.y b.y c.y d.y) := by
  rfl

theorem basis_V3 (t : K) (a b c d : V3 K) :
    basis t a b c d = V3.mk (basis t a.x b.x c.x d.x) (basis t a.y b.y c.y d.y) (basis t a.z b.z c.z d.z) := by
  rfl

theorem de_casteljau4_V2 (t : K) (a b c d : V2 K) :
    de_casteljau4 t a b c d = V2.mk (de_casteljau4 t a.x b.x c.x d.x) (de_casteljau4 t a.y b.y c.y d.y) := by
  rfl

theorem subdivide_V2 (t : K) (a b c d : V2 K) :
    let r := curve_subdivide a b c d t
    let rx := curve_subdivide a.x b.x c.x d.x t
    let ry := curve_subdivide a.y b.y c.y d.y t
    r.t0.t0 = ⟨rx.t0.t0, ry.t0.t0⟩ ∧ r.t0.t1 = ⟨rx.t0.t1, ry.t0.t1⟩ ∧ r.t0.t2 = ⟨rx.t0.t2, ry.t0.t2⟩ ∧ r.t0.t3 = ⟨rx.t0.t3, ry.t0.t3⟩ ∧
    r.t1.t0 = ⟨rx.t1.t0, ry.t1.t0⟩ ∧ r.t1.t1 = ⟨rx.t1.t1, ry.t1.t1⟩ ∧ r.t1.t2 = ⟨rx.t1.t2, ry.t1.t2⟩ ∧ r.t1.t3 = ⟨rx.t1.t3, ry.t1.t3⟩ := by
  refine ⟨rfl, rfl, rfl, rfl, rfl, rfl, rfl, rfl⟩

theorem section_control_points_V2 (a b c d : V2 K) (sec : SectionT K) :
    let r := section_control_points a b c d sec
    let rx := section_control_points a.x b.x c.x d.x sec
    let ry := section_control_points a.y b.y c.y d.y sec
    r.t0 = ⟨rx.t0, ry.t0⟩ ∧ r.t1 = ⟨rx.t1, ry.t1⟩ := by
  simp only [section_control_points]
  split <;> exact ⟨rfl, rfl⟩

/-- 2-D corollary of `basis_eq_de_casteljau4` -/
theorem basis_eq_de_casteljau4_V2 (t : K) (a b c d : V2 K) : basis t a b c d = de_casteljau4 t a b c d := by
  rw [basis_V2, de_casteljau4_V2, basis_eq_de_casteljau4, basis_eq_de_casteljau4]

/-- 2-D corollary of `subdivide_left` -/
theorem subdivide_left_V2 (t s : K) (a b c d : V2 K) :
    let l := (curve_subdivide a b c d t).t0
    basis s l.t0 l.t1 l.t2 l.t3 = basis (s * t) a b c d := by
  intro l
  rw [basis_V2, basis_V2]
  have hx := subdivide_left t s a.x b.x c.x d.x
  have hy := subdivide_left t s a.y b.y c.y d.y
  simp only at hx hy
  rw [← hx, ← hy]
  rfl

/-! Non-vacuity: the hypotheses are met by concrete curves. -/
example : basis (0.5 : ℚ) 0 1 3 2 = de_casteljau4 (0.5 : ℚ) 0 1 3 2 := basis_eq_de_casteljau4 _ _ _ _ _
example : ((1 : ℚ) / 4) ≠ 1 := by norm_num

end C05
