/-
C04 (line_clip_to_bounds)  The clipped line is the maximal sub-segment inside the box.

`Model.Clip.lineClipToBounds` is the literal hand model of `line_clip_to_bounds` (src/line/intersection.rs, Liang-Barsky: the loop
over the four edges with its early `return None` as a fold); it is tied to the code by the exhaustive grid and the random
correspondence of C04.  Proved here, for every line and box over any ordered field:

* `clip_some_spec`: if a segment is returned it is `(P(t1), P(t2))` with `0 ≤ t1 ≤ t2 ≤ 1`, and for EVERY `t` in [0,1] the point
  `P(t) = p + t (q - p)` of the line lies in the box exactly when `t1 ≤ t ≤ t2`: the returned segment is inside the box and nothing
  of the line outside it is;
* `clip_none_spec`: if `None` is returned no point of the line (`0 ≤ t ≤ 1`) lies in the box.
-/
import FloVerif.Model.Clip
import FloVerif.Gen.Lines
import Mathlib.Tactic.Ring
import Mathlib.Tactic.NormNum.OfScientific
import Mathlib.Tactic.FieldSimp
import Mathlib.Tactic.Linarith
import Mathlib.Algebra.Order.Field.Basic

set_option linter.unusedSectionVars false
namespace C04Clip
open Prelude Model.Clip

variable {K : Type} [Field K] [LinearOrder K] [IsStrictOrderedRing K]

theorem lit0 : (0.0 : K) = 0 := by norm_num
theorem lit1 : (1.0 : K) = 1 := by norm_num

theorem fmin_eq_min (a b : K) : fmin a b = min a b := by
  simp only [fmin, beq_self_eq_true, if_true]
  rcases lt_or_ge b a with h | h
  · rw [if_pos h, min_eq_right (le_of_lt h)]
  · rw [if_neg (not_lt.2 h), min_eq_left h]

theorem fmax_eq_max (a b : K) : fmax a b = max a b := by
  simp only [fmax, beq_self_eq_true, if_true]
  rcases lt_or_ge a b with h | h
  · rw [if_pos h, max_eq_right (le_of_lt h)]
  · rw [if_neg (not_lt.2 h), max_eq_left h]

/-- the constraints handled so far: `delta * t ≤ edge` for every pair -/
def Sat (cs : List (K × K)) (t : K) : Prop := ∀ c ∈ cs, c.1 * t ≤ c.2

/-- what a state of the edge loop means: `none` - no parameter in [0,1] satisfies the constraints seen so far; `some (t1, t2)` -
    `0 ≤ t1`, `t2 ≤ 1`, and the parameters in [0,1] that satisfy them are exactly those with `t1 ≤ t ≤ t2` -/
def Means (cs : List (K × K)) : Option (K × K) → Prop
  | none => ∀ t, 0 ≤ t → t ≤ 1 → ¬ Sat cs t
  | some (t1, t2) => 0 ≤ t1 ∧ t2 ≤ 1 ∧ ∀ t, (t1 ≤ t ∧ t ≤ t2) ↔ (0 ≤ t ∧ t ≤ 1 ∧ Sat cs t)

theorem sat_snoc (cs : List (K × K)) (c : K × K) (t : K) : Sat (cs ++ [c]) t ↔ Sat cs t ∧ c.1 * t ≤ c.2 := by
  simp only [Sat, List.mem_append, List.mem_singleton]
  constructor
  · intro h; exact ⟨fun x hx => h x (Or.inl hx), h c (Or.inr rfl)⟩
  · rintro ⟨h1, h2⟩ x (hx | rfl)
    · exact h1 x hx
    · exact h2

/-- ONE ITERATION OF THE EDGE LOOP keeps the meaning of the state -/
theorem clipStep_means (cs : List (K × K)) (st : Option (K × K)) (c : K × K) (h : Means cs st) :
    Means (cs ++ [c]) (clipStep st c) := by
  obtain ⟨d, e⟩ := c
  cases st with
  | none =>
    simp only [clipStep, Means] at h ⊢
    intro t h0 h1 hs
    exact h t h0 h1 ((sat_snoc cs _ t).1 hs).1
  | some s =>
    obtain ⟨t1, t2⟩ := s
    obtain ⟨h01, h21, hiff⟩ := h
    simp only [clipStep, lit0, beq_iff_eq]
    by_cases hd0 : d = 0
    · subst hd0
      simp only [if_true]
      by_cases he : e < 0
      · simp only [he, if_true, Means]
        intro t _ _ hs
        have := ((sat_snoc cs _ t).1 hs).2
        simp only [zero_mul] at this
        exact absurd this (not_le.2 he)
      · simp only [he, if_false, Means]
        refine ⟨h01, h21, fun t => ?_⟩
        rw [hiff t, sat_snoc]
        simp only [zero_mul]
        constructor
        · rintro ⟨a, b, c⟩; exact ⟨a, b, c, not_lt.1 he⟩
        · rintro ⟨a, b, c, _⟩; exact ⟨a, b, c⟩
    · simp only [hd0, if_false]
      by_cases hneg : d < 0
      · -- the constraint is `t ≥ e / d`
        have hcon : ∀ t : K, d * t ≤ e ↔ e / d ≤ t := by
          intro t
          rw [div_le_iff_of_neg hneg, mul_comm]
        by_cases hlt : t1 < e / d
        · simp only [hneg, hlt, and_self, if_true, Means]
          refine ⟨le_trans h01 hlt.le, h21, fun t => ?_⟩
          rw [sat_snoc, hcon t]
          constructor
          · rintro ⟨a, b⟩
            obtain ⟨x, y, z⟩ := (hiff t).1 ⟨le_trans hlt.le a, b⟩
            exact ⟨x, y, z, a⟩
          · rintro ⟨a, b, c, dd⟩
            exact ⟨dd, ((hiff t).2 ⟨a, b, c⟩).2⟩
        · have hpos : ¬ d > 0 := not_lt.2 hneg.le
          simp only [hneg, hlt, and_false, if_false, hpos, false_and, Means]
          refine ⟨h01, h21, fun t => ?_⟩
          rw [sat_snoc, hcon t]
          constructor
          · rintro ⟨a, b⟩
            obtain ⟨x, y, z⟩ := (hiff t).1 ⟨a, b⟩
            exact ⟨x, y, z, le_trans (not_lt.1 hlt) a⟩
          · rintro ⟨a, b, c, _⟩
            exact (hiff t).2 ⟨a, b, c⟩
      · have hpos : d > 0 := lt_of_le_of_ne (not_lt.1 hneg) (Ne.symm hd0)
        have hcon : ∀ t : K, d * t ≤ e ↔ t ≤ e / d := by
          intro t
          rw [le_div_iff₀ hpos, mul_comm]
        simp only [hneg, false_and, if_false, hpos, true_and]
        by_cases hgt : t2 > e / d
        · simp only [hgt, if_true, Means]
          refine ⟨h01, le_trans hgt.le h21, fun t => ?_⟩
          rw [sat_snoc, hcon t]
          constructor
          · rintro ⟨a, b⟩
            obtain ⟨x, y, z⟩ := (hiff t).1 ⟨a, le_trans b hgt.le⟩
            exact ⟨x, y, z, b⟩
          · rintro ⟨a, b, c, dd⟩
            exact ⟨((hiff t).2 ⟨a, b, c⟩).1, dd⟩
        · simp only [hgt, if_false, Means]
          refine ⟨h01, h21, fun t => ?_⟩
          rw [sat_snoc, hcon t]
          constructor
          · rintro ⟨a, b⟩
            obtain ⟨x, y, z⟩ := (hiff t).1 ⟨a, b⟩
            exact ⟨x, y, z, le_trans b (not_lt.1 hgt)⟩
          · rintro ⟨a, b, c, _⟩
            exact (hiff t).2 ⟨a, b, c⟩

/-- the whole loop: after all the constraints the state means what `Means` says -/
theorem foldl_means : ∀ (todo done : List (K × K)) (st : Option (K × K)), Means done st →
    Means (done ++ todo) (todo.foldl clipStep st)
  | [], done, st, h => by simpa using h
  | c :: cs, done, st, h => by
    have := foldl_means cs (done ++ [c]) (clipStep st c) (clipStep_means done st c h)
    simpa [List.append_assoc] using this

/-- the point of the line at parameter `t` -/
def along (line : T2 (V2 K) (V2 K)) (t : K) : V2 K :=
  ⟨line.t0.x + t * (line.t1.x - line.t0.x), line.t0.y + t * (line.t1.y - line.t0.y)⟩

/-- the box spanned by the two corner points, whatever their order -/
def InBox (bounds : T2 (V2 K) (V2 K)) (p : V2 K) : Prop :=
  min bounds.t0.x bounds.t1.x ≤ p.x ∧ p.x ≤ max bounds.t0.x bounds.t1.x ∧
  min bounds.t0.y bounds.t1.y ≤ p.y ∧ p.y ≤ max bounds.t0.y bounds.t1.y

/-- the four constraints of the code say "the point at `t` is in the box" -/
theorem sat_iff_inBox (line bounds : T2 (V2 K) (V2 K)) (t : K) :
    Sat [(-(line.t1.x - line.t0.x), line.t0.x - min bounds.t0.x bounds.t1.x),
         (line.t1.x - line.t0.x, max bounds.t0.x bounds.t1.x - line.t0.x),
         (-(line.t1.y - line.t0.y), line.t0.y - min bounds.t0.y bounds.t1.y),
         (line.t1.y - line.t0.y, max bounds.t0.y bounds.t1.y - line.t0.y)] t ↔ InBox bounds (along line t) := by
  simp only [Sat, List.mem_cons, List.not_mem_nil, or_false, forall_eq_or_imp, forall_eq, InBox, along]
  constructor
  · rintro ⟨a, b, c, d⟩; refine ⟨?_, ?_, ?_, ?_⟩ <;> linarith
  · rintro ⟨a, b, c, d⟩; refine ⟨?_, ?_, ?_, ?_⟩ <;> linarith

/-- the state after the loop, for the constraints of the code -/
theorem loop_means (line bounds : T2 (V2 K) (V2 K)) :
    Means [(-(line.t1.x - line.t0.x), line.t0.x - min bounds.t0.x bounds.t1.x),
           (line.t1.x - line.t0.x, max bounds.t0.x bounds.t1.x - line.t0.x),
           (-(line.t1.y - line.t0.y), line.t0.y - min bounds.t0.y bounds.t1.y),
           (line.t1.y - line.t0.y, max bounds.t0.y bounds.t1.y - line.t0.y)]
      ([(-(line.t1.x - line.t0.x), line.t0.x - min bounds.t0.x bounds.t1.x),
        (line.t1.x - line.t0.x, max bounds.t0.x bounds.t1.x - line.t0.x),
        (-(line.t1.y - line.t0.y), line.t0.y - min bounds.t0.y bounds.t1.y),
        (line.t1.y - line.t0.y, max bounds.t0.y bounds.t1.y - line.t0.y)].foldl clipStep (some ((0 : K), (1 : K)))) := by
  have h0 : Means ([] : List (K × K)) (some ((0 : K), (1 : K))) := by
    refine ⟨le_refl 0, le_refl 1, fun t => ?_⟩
    simp [Sat]
  have := foldl_means [(-(line.t1.x - line.t0.x), line.t0.x - min bounds.t0.x bounds.t1.x),
           (line.t1.x - line.t0.x, max bounds.t0.x bounds.t1.x - line.t0.x),
           (-(line.t1.y - line.t0.y), line.t0.y - min bounds.t0.y bounds.t1.y),
           (line.t1.y - line.t0.y, max bounds.t0.y bounds.t1.y - line.t0.y)] [] _ h0
  rwa [List.nil_append] at this

/-- `line_clip_to_bounds` RETURNS THE MAXIMAL SUB-SEGMENT INSIDE THE BOX: a returned segment is `(P(t1), P(t2))` with
    `0 ≤ t1 ≤ t2 ≤ 1`, and a point `P(t)`, `0 ≤ t ≤ 1`, of the line is in the box exactly when `t1 ≤ t ≤ t2` -/
theorem clip_some_spec (line bounds : T2 (V2 K) (V2 K)) (seg : T2 (V2 K) (V2 K))
    (h : lineClipToBounds line bounds = some seg) :
    ∃ t1 t2 : K, 0 ≤ t1 ∧ t1 ≤ t2 ∧ t2 ≤ 1 ∧ seg = T2.mk (along line t1) (along line t2) ∧
      ∀ t, 0 ≤ t → t ≤ 1 → (InBox bounds (along line t) ↔ t1 ≤ t ∧ t ≤ t2) := by
  have hm := loop_means line bounds
  simp only [lineClipToBounds, fmin_eq_min, fmax_eq_max, lit0, lit1] at h
  generalize [(-(line.t1.x - line.t0.x), line.t0.x - min bounds.t0.x bounds.t1.x),
        (line.t1.x - line.t0.x, max bounds.t0.x bounds.t1.x - line.t0.x),
        (-(line.t1.y - line.t0.y), line.t0.y - min bounds.t0.y bounds.t1.y),
        (line.t1.y - line.t0.y, max bounds.t0.y bounds.t1.y - line.t0.y)].foldl clipStep (some ((0 : K), (1 : K))) = st at h hm
  cases st with
  | none => simp at h
  | some s =>
    obtain ⟨t1, t2⟩ := s
    obtain ⟨h01, h21, hiff⟩ := hm
    simp only at h
    split at h
    · simp at h
    · rename_i hc
      push Not at hc
      simp only [Option.some.injEq] at h
      refine ⟨t1, t2, h01, hc.1, h21, ?_, fun t ht0 ht1 => ?_⟩
      · rw [← h]; rfl
      · rw [← sat_iff_inBox, hiff t]
        constructor
        · intro hs; exact ⟨ht0, ht1, hs⟩
        · rintro ⟨_, _, hs⟩; exact hs

/-- `None` MEANS THE LINE MISSES THE BOX: no point `P(t)`, `0 ≤ t ≤ 1`, of the line lies in the box -/
theorem clip_none_spec (line bounds : T2 (V2 K) (V2 K)) (h : lineClipToBounds line bounds = none) :
    ∀ t, 0 ≤ t → t ≤ 1 → ¬ InBox bounds (along line t) := by
  have hm := loop_means line bounds
  simp only [lineClipToBounds, fmin_eq_min, fmax_eq_max, lit0, lit1] at h
  generalize [(-(line.t1.x - line.t0.x), line.t0.x - min bounds.t0.x bounds.t1.x),
        (line.t1.x - line.t0.x, max bounds.t0.x bounds.t1.x - line.t0.x),
        (-(line.t1.y - line.t0.y), line.t0.y - min bounds.t0.y bounds.t1.y),
        (line.t1.y - line.t0.y, max bounds.t0.y bounds.t1.y - line.t0.y)].foldl clipStep (some ((0 : K), (1 : K))) = st at h hm
  intro t ht0 ht1 hin
  rw [← sat_iff_inBox] at hin
  cases st with
  | none => exact hm t ht0 ht1 hin
  | some s =>
    obtain ⟨t1, t2⟩ := s
    obtain ⟨h01, h21, hiff⟩ := hm
    simp only at h
    split at h
    · rename_i hc
      obtain ⟨a, b⟩ := (hiff t).2 ⟨ht0, ht1, hin⟩
      rcases hc with hc | hc | hc
      · exact absurd (le_trans a b) (not_le.2 hc)
      · exact absurd (le_trans (le_trans a b) h21) (not_le.2 hc)
      · exact absurd (le_trans h01 (le_trans a b)) (not_le.2 hc)
    · simp at h

/-- non-vacuity: the diagonal of the square (0,0)-(4,4) clipped to the box (1,1)-(2,3) is the segment (1,1)-(2,2) -/
example : lineClipToBounds (K := ℚ) ⟨⟨0, 0⟩, ⟨4, 4⟩⟩ ⟨⟨1, 1⟩, ⟨2, 3⟩⟩ = some ⟨⟨1, 1⟩, ⟨2, 2⟩⟩ := by
  simp [lineClipToBounds, clipStep, fmin, fmax]
  norm_num

/-! ### the generated function

Since session 4 `line_clip_to_bounds` is also GENERATED from the Rust source (`Gen.line_clip_to_bounds`; the `for` over the four
edges with its early `return None` is a `foldlRet`).  It is equal to the hand model, for every line and box, so the two theorems
above are theorems about the generated code and the driver compares the implementation with the generated function. -/

/-- the generated loop and the hand model's loop agree step by step -/
theorem foldlRet_eq_foldl (l : List (T2 K K)) (t1 t2 : K) :
    foldlRet l (T2.mk t1 t2) (fun st_5 it_5 =>
      (if (it_5.t0 == (0.0 : K)) then
        (if (decide (it_5.t1 < (0.0 : K))) then (Sum.inr (none : Option (T2 (V2 K) (V2 K)))) else (Sum.inl (T2.mk st_5.t0 st_5.t1)))
      else
        (if ((decide (it_5.t0 < (0.0 : K))) && (decide (st_5.t0 < (it_5.t1 / it_5.t0)))) then (Sum.inl (T2.mk (it_5.t1 / it_5.t0) st_5.t1))
        else (if ((decide (it_5.t0 > (0.0 : K))) && (decide (st_5.t1 > (it_5.t1 / it_5.t0)))) then (Sum.inl (T2.mk st_5.t0 (it_5.t1 / it_5.t0)))
        else (Sum.inl (T2.mk st_5.t0 st_5.t1)))))) =
    match (l.map (fun d => (d.t0, d.t1))).foldl clipStep (some (t1, t2)) with
    | none => Sum.inr none
    | some s => Sum.inl (T2.mk s.1 s.2) := by
  induction l generalizing t1 t2 with
  | nil => simp [foldlRet]
  | cons d l ih =>
    have hnone : ∀ m : List (K × K), m.foldl clipStep none = none := by
      intro m; induction m with
      | nil => rfl
      | cons x xs ihx => simpa [clipStep] using ihx
    simp only [foldlRet, List.map_cons, List.foldl_cons]
    by_cases hd : (d.t0 == (0.0 : K)) = true
    · by_cases he : d.t1 < (0.0 : K)
      · simp [clipStep, hd, he, hnone]
      · simp only [clipStep, hd, he, if_true, if_false, decide_false, Bool.false_eq_true]
        exact ih t1 t2
    · simp only [hd, if_false, Bool.false_eq_true]
      by_cases h1 : d.t0 < (0.0 : K) ∧ t1 < d.t1 / d.t0
      · simp only [clipStep, hd, if_false, Bool.false_eq_true, h1, and_self, decide_true, Bool.and_self, if_true]
        exact ih _ _
      · have h1' : ((decide (d.t0 < (0.0 : K))) && (decide (t1 < d.t1 / d.t0))) = false := by
          simpa using h1
        by_cases h2 : d.t0 > (0.0 : K) ∧ t2 > d.t1 / d.t0
        · simp only [clipStep, hd, if_false, Bool.false_eq_true, h1, h1', h2, and_self, decide_true, Bool.and_self, if_true]
          exact ih _ _
        · have h2' : ((decide (d.t0 > (0.0 : K))) && (decide (t2 > d.t1 / d.t0))) = false := by
            simpa using h2
          simp only [clipStep, hd, if_false, Bool.false_eq_true, h1, h1', h2, h2']
          exact ih _ _

/-- THE GENERATED `line_clip_to_bounds` IS THE HAND MODEL, for every line and box -/
theorem generated_eq_model (line bounds : T2 (V2 K) (V2 K)) :
    Gen.line_clip_to_bounds line bounds = lineClipToBounds line bounds := by
  unfold Gen.line_clip_to_bounds lineClipToBounds
  dsimp only
  rw [foldlRet_eq_foldl]
  simp only [List.zipWith_cons_cons, List.zipWith_nil_right, List.map_cons, List.map_nil]
  cases [(-(line.t1.x - line.t0.x), line.t0.x - fmin bounds.t0.x bounds.t1.x),
        (line.t1.x - line.t0.x, fmax bounds.t0.x bounds.t1.x - line.t0.x),
        (-(line.t1.y - line.t0.y), line.t0.y - fmin bounds.t0.y bounds.t1.y),
        (line.t1.y - line.t0.y, fmax bounds.t0.y bounds.t1.y - line.t0.y)].foldl clipStep (some ((0.0 : K), (1.0 : K))) with
  | none => rfl
  | some s =>
    obtain ⟨a, b⟩ := s
    simp only
    by_cases hc : a > b ∨ a > (1.0 : K) ∨ b < (0.0 : K)
    · have hc' : ((decide (a > b) || decide (a > (1.0 : K))) || decide (b < (0.0 : K))) = true := by
        rcases hc with h | h | h <;> simp [h]
      rw [if_pos hc', if_pos hc]
    · have hc' : ¬ (((decide (a > b) || decide (a > (1.0 : K))) || decide (b < (0.0 : K))) = true) := by
        simp only [Bool.or_eq_true, decide_eq_true_eq]
        tauto
      rw [if_neg hc', if_neg hc]

/-- `clip_some_spec` for the generated code -/
theorem generated_clip_some_spec (line bounds : T2 (V2 K) (V2 K)) (seg : T2 (V2 K) (V2 K))
    (h : Gen.line_clip_to_bounds line bounds = some seg) :
    ∃ t1 t2 : K, 0 ≤ t1 ∧ t1 ≤ t2 ∧ t2 ≤ 1 ∧ seg = T2.mk (along line t1) (along line t2) ∧
      ∀ t, 0 ≤ t → t ≤ 1 → (InBox bounds (along line t) ↔ t1 ≤ t ∧ t ≤ t2) :=
  clip_some_spec line bounds seg (by rw [← generated_eq_model]; exact h)

/-- `clip_none_spec` for the generated code -/
theorem generated_clip_none_spec (line bounds : T2 (V2 K) (V2 K)) (h : Gen.line_clip_to_bounds line bounds = none) :
    ∀ t, 0 ≤ t → t ≤ 1 → ¬ InBox bounds (along line t) :=
  clip_none_spec line bounds (by rw [← generated_eq_model]; exact h)

end C04Clip
