/-
C16  Scan conversion of a path matches point membership.

Everything between the root solver and the returned ranges is regenerated from the Rust sources on every check
(`Gen/PathContour.lean`): `raycast_intercepts_on_line` (ray_cast_contour.rs), the closures of
`PathContour::intercepts_on_line` / `intercepts_on_column` (`row_intercepts`, `column_intercepts`),
`remove_duplicate_intercepts` with `curves_are_neighbors`, `control_polygon_length`, `points_are_same_side_horiz`
and the `CurveSection` control points, and `solve_basis_for_t` (the external root finders of crate `roots` are
parameters).  `Model.PathContour.interceptsOnLine` and `interceptsOnColumn` only pass the closure to `raycast_intercepts_on_line`.

What is proved, for ALL inputs (any number of curves, any solver answers, any scan position, any width):

* the returned ranges are inside `[0, width]`, non-empty, ascending and disjoint (rows and columns) - unconditionally;
* EVEN-ODD at the level of the hit list: `x` is in a returned range iff `0 ≤ x < width`, the number of KEPT hits at or
  left of `x` is odd, and `x` is left of the last kept hit when their number is odd (`tuples()` drops it);
* `remove_duplicate_intercepts`: the generated loop (fuel `len + 1`) never runs out of fuel and equals a fuel-free
  recursion; its result is a sub-list of its input (sorted stays sorted), every removal was licensed by the duplicate
  condition on the list as it was at that moment, and a list without any pair satisfying the condition is returned
  unchanged; `curves_are_neighbors` is characterised;
* the column closure is the row closure of the transposed curve table WITHOUT duplicate removal and WITHOUT the `t = 0`
  hits; it equals the transposed row query when these two differences do not matter, and differs otherwise (witness);
* `solve_basis_for_t`: which parameters are returned, that they are roots of the curve's polynomial (cubic branch, sound
  finder), that no root in `[0,1]` is missed except within 1e-6 of an exact end hit (complete finder), and that the
  quadratic branch returns parameters with residual below 1e-8;
* `row_hits_are_the_crossings`: on a scanline through no curve end point the gathered hits are exactly the crossings
  `(i, t, x_i(t))`, `0 < t < 1`, `y_i(t) = y`, each once (cubic branch, exact duplicate-free finder, sound bounding boxes);
  with `intercepts_on_line_generic` this is the even-odd crossing rule for generic scanlines.

What is NOT proved (searched on the real code only): that the kept hits are exactly one per geometric crossing of the
boundary - the very thing duplicate removal is there to achieve.  Recorded as theorems about the code as it is:

* `closing_joint_not_neighbors` / `subpath_boundary_neighbors` / `closing_joint_witness`: the neighbour test works on the flat
  curve index, so the joint that closes a sub-path is recognised only when the sub-path is the whole table, and the last
  curve of one sub-path counts as neighbour of the first curve of the next.  Two diamonds scanned through their start
  vertices: the first diamond's interior is reported outside and the gap between the diamonds inside.
* `column_differs_from_transposed_row`: a column through a vertex that is an extremum in x (plus another shape on the same
  column) gets an odd hit count; the transposed row query is right.

Number model: any linearly ordered field (no NaN, no signed zero, no rounding); `f64::sqrt` and `f64::signum` are ARBITRARY
functions; `total_cmp` is `≤`; Rust's `sort_unstable_by` is modelled by a stable insertion sort and the statements about the
closures are also given for an arbitrary sorted arrangement of the hits.
-/
import FloVerif.Lemmas.PathContour

set_option linter.unusedSectionVars false
set_option linter.unusedVariables false
namespace C16
open Prelude Gen Model.PathContour PathContourLemmas

variable {K : Type} [Field K] [LinearOrder K] [IsStrictOrderedRing K] [Inhabited K] [FSqrt K] [FSignum K]

/-! ## instances for the concrete examples (exact rationals; `sqrt` is never needed on a straight edge's end points) -/

local instance : FSqrt ℚ := ⟨id⟩
local instance : FSignum ℚ := ⟨fun x => if x < 0 then -1 else 1⟩

/-- exact solver for the straight edges of the examples (control points at 1/3 and 2/3: the coordinate is linear in `t`) -/
def lineSolve (w1 _w2 _w3 w4 p : ℚ) : List ℚ :=
  if w1 = w4 then [] else if 0 ≤ (p - w1) / (w4 - w1) ∧ (p - w1) / (w4 - w1) ≤ 1 then [(p - w1) / (w4 - w1)] else []

/-- curve table of a square standing on a corner: centre `(cx, cy)`, half diagonal `r`, started at its left vertex -/
def diamond (cx cy r : ℚ) : List (CurveRow ℚ) :=
  [lineRow (cx - r) cy cx (cy + r) (1/3), lineRow cx (cy + r) (cx + r) cy (1/3),
   lineRow (cx + r) cy cx (cy - r) (1/3), lineRow cx (cy - r) (cx - r) cy (1/3)]

/-! ## 1. the clip stage `raycast_intercepts_on_line` (any closure, any scale factor) -/

/-- CLIP, MEMBERSHIP: for every closure `f`, position `y`, scale and width, `x` lies in a returned range iff it lies in a
    range the closure returned for `y·scale` and `0 ≤ x < width` -/
theorem clip_membership (f : K → List (RangeT K)) (y s : K) (w : Nat) (x : K) :
    inRanges x (raycast_intercepts_on_line f y s w) ↔ inRanges x (f (y * s)) ∧ 0 ≤ x ∧ x < (w : K) := by
  rw [raycast_eq]
  simp only [inRanges, List.mem_filter, List.mem_map, decide_eq_true_eq, Bool.and_eq_true]
  constructor
  · rintro ⟨r', ⟨⟨r, ⟨hr, _⟩, rfl⟩, _⟩, hx⟩
    have := (inR_clipR (w : K) x r).1 hx
    exact ⟨⟨r, hr, this.1⟩, this.2⟩
  · rintro ⟨⟨r, hr, hx⟩, h0, hw⟩
    have hx' := (inR_clipR (w : K) x r).2 ⟨hx, h0, hw⟩
    refine ⟨clipR (w : K) r, ⟨⟨r, ⟨hr, ?_, ?_⟩, rfl⟩, ?_⟩, hx'⟩
    · exact le_of_lt (lt_of_le_of_lt h0 hx.2)
    · exact lt_of_le_of_lt hx.1 hw
    · exact lt_of_le_of_lt hx'.1 hx'.2

/-- CLIP, SHAPE: every returned range is non-empty and inside `[0, width]` -/
theorem clip_ranges_inside (f : K → List (RangeT K)) (y s : K) (w : Nat) :
    ∀ r ∈ raycast_intercepts_on_line f y s w, 0 ≤ r.start ∧ r.start < r.end_ ∧ r.end_ ≤ (w : K) := by
  rw [raycast_eq]
  intro r' hr'
  simp only [List.mem_filter, List.mem_map, decide_eq_true_eq] at hr'
  obtain ⟨⟨r, _, rfl⟩, hne⟩ := hr'
  exact ⟨clipR_start_nonneg _ r, hne, clipR_end_le_w _ r⟩

/-- CLIP, ORDER: if the closure returns its ranges in ascending order without overlap (each ends at or before the start of
    every later one - the contract stated at `RayCastContour::new`), so does the result, and the starts are strictly ascending -/
theorem clip_keeps_order (f : K → List (RangeT K)) (y s : K) (w : Nat) (h : Ordered (f (y * s))) :
    (raycast_intercepts_on_line f y s w).Pairwise (fun a b => a.end_ ≤ b.start ∧ a.start < b.start) := by
  have hin := clip_ranges_inside f y s w
  have hord : Ordered (raycast_intercepts_on_line f y s w) := by
    rw [raycast_eq]
    refine List.Pairwise.filter _ (List.pairwise_map.2 ?_)
    refine (List.Pairwise.filter _ h).imp ?_
    intro a b hab
    exact le_trans (clipR_end_le _ a) (le_trans hab (clipR_start_le _ b))
  have : ∀ (l : List (RangeT K)), (∀ r ∈ l, r.start < r.end_) → Ordered l →
      l.Pairwise (fun a b => a.end_ ≤ b.start ∧ a.start < b.start) := by
    intro l hl ho
    induction l with
    | nil => exact List.Pairwise.nil
    | cons a l ih =>
      have ho' := List.pairwise_cons.1 ho
      refine List.pairwise_cons.2 ⟨fun b hb => ⟨ho'.1 b hb, lt_of_lt_of_le (hl a (by simp)) (ho'.1 b hb)⟩, ?_⟩
      exact ih (fun r hr => hl r (by simp [hr])) ho'.2
  exact this _ (fun r hr => (hin r hr).2.1) hord

/-- non-vacuity: a range reaching below 0, an empty one, one reaching beyond the width, one beyond the width altogether -/
example : raycast_intercepts_on_line (K := ℚ) (fun _ => [⟨-3, 2⟩, ⟨2, 2⟩, ⟨5, 12⟩, ⟨20, 30⟩]) 7 1 10 = [⟨0, 2⟩, ⟨5, 10⟩] := by
  decide +kernel

/-- the order hypothesis of `clip_keeps_order` is needed: an unordered closure result stays unordered -/
example : raycast_intercepts_on_line (K := ℚ) (fun _ => [⟨5, 8⟩, ⟨1, 6⟩]) 0 1 10 = [⟨5, 8⟩, ⟨1, 6⟩] := by decide +kernel

/-! ## 2. pairing a sorted hit list (`tuples()`) -/

/-- EVEN-ODD RULE for a sorted list of crossing positions of ANY length: `x` lies in one of the ranges `tuples()` forms iff
    the number of crossings at or left of `x` is odd and, when the number of crossings is odd (the last one is dropped by
    `tuples()`), `x` is left of that last crossing -/
theorem pairs_even_odd (x : K) (l : List K) (hs : l.Pairwise (· ≤ ·)) :
    inRanges x (pairRanges l) ↔ countLe x l % 2 = 1 ∧ (l.length % 2 = 0 ∨ ∀ z ∈ l.getLast?, x < z) :=
  pairs_parity x l hs

/-- the ranges formed from a sorted list are in ascending order, do not overlap and none is inverted -/
theorem pairs_ordered (l : List K) (hs : l.Pairwise (· ≤ ·)) :
    Ordered (pairRanges l) ∧ ∀ r ∈ pairRanges l, r.start ≤ r.end_ :=
  ⟨pairRanges_ordered l hs, pairRanges_nonneg l hs⟩

example : pairRanges ([1, 3, 4, 9, 11] : List ℚ) = [⟨1, 3⟩, ⟨4, 9⟩] := by decide +kernel
/-- five crossings: right of the fourth the parity is odd again but the fifth crossing was dropped -/
example : ¬ inRanges (10 : ℚ) (pairRanges [1, 3, 4, 9, 11]) ∧ countLe (10 : ℚ) [1, 3, 4, 9, 11] % 2 = 0 := by
  constructor
  · rw [pairs_even_odd 10 _ (by decide +kernel)]; decide +kernel
  · decide +kernel

/-! ## 3. remove_duplicate_intercepts -/

/-- `curves_are_neighbors`: consecutive indices, or the first and the last index of the whole curve table (symmetric) -/
theorem neighbors_spec (n i j : Nat) :
    curves_are_neighbors n i j = true ↔ i + 1 = j ∨ j + 1 = i ∨ (i = 0 ∧ j = n - 1) ∨ (j = 0 ∧ i = n - 1) := by
  simp only [curves_are_neighbors]
  split_ifs with h1 h2 h3 <;> first | (simp_all; done) | (simp_all; omega)

/-- the joint that closes a sub-path (its first curve `o` and its last curve `o + k - 1`, `k ≥ 3` curves) is recognised as a
    joint only if the sub-path is the whole curve table -/
theorem closing_joint_not_neighbors (n o k : Nat) (hk : 3 ≤ k) (hn : o + k ≤ n) :
    curves_are_neighbors n o (o + k - 1) = true ↔ (o = 0 ∧ k = n) := by
  rw [neighbors_spec]; omega

/-- the last curve of one sub-path and the first curve of the next one always count as neighbours -/
theorem subpath_boundary_neighbors (n o k : Nat) (hk : 1 ≤ k) :
    curves_are_neighbors n (o + k - 1) (o + k) = true := by
  rw [neighbors_spec]; omega

/-- THE LOOP: for every curve table and every list of hits the generated `remove_duplicate_intercepts` (an `iterFuel` with
    fuel `len + 1`) never exhausts its fuel: it is the fuel-free recursion "at `idx`: remove `idx` if `dupPair` holds between
    it and its cyclic successor (and look at `idx` again), otherwise advance; stop at the end" -/
theorem remove_duplicates_eq (curves : List (CurveRow K)) (l : List (InterceptT K)) :
    remove_duplicate_intercepts curves l = dedupe (removeAt curves) l 0 :=
  rdi_eq_dedupe curves l

/-- the result is a sub-list of the input: order kept, nothing invented; hence a list sorted by x stays sorted -/
theorem remove_duplicates_sublist (curves : List (CurveRow K)) (l : List (InterceptT K)) :
    (remove_duplicate_intercepts curves l).Sublist l ∧ (SortedX l → SortedX (remove_duplicate_intercepts curves l)) :=
  ⟨rdi_sublist curves l, fun h => h.sublist (rdi_sublist curves l)⟩

/-- every removal is licensed: the result is reached from the input by removing, one at a time, a hit `l'[idx]` for which the
    duplicate condition `dupPair` held against its cyclic successor in the list `l'` as it was at that moment:
    neighbouring curve indices, x positions within 1e-6, control polygon between the hits and the joint at most 1e-6 long
    (0 for an exact `t = 1`/`t = 0` pair) and y-tangents of equal sign (or zero) -/
theorem remove_duplicates_licensed (curves : List (CurveRow K)) (l : List (InterceptT K)) :
    Removals (removeAt curves) l (remove_duplicate_intercepts curves l) := by
  rw [rdi_eq_dedupe]; exact dedupe_removals _ _ _

/-- if no two hits of the scanline (a hit paired with itself included) satisfy the duplicate condition, nothing is removed -/
theorem remove_duplicates_untouched (curves : List (CurveRow K)) (l : List (InterceptT K))
    (h : ∀ a ∈ l, ∀ b ∈ l, dupPair curves a b = false) : remove_duplicate_intercepts curves l = l :=
  rdi_untouched curves l h

/-- non-vacuity (one diamond scanned through its left and right vertices): each joint is hit twice (`t = 1` on one curve,
    `t = 0` on the next) and one hit of each pair is removed, the first and last curve being neighbours here -/
example : remove_duplicate_intercepts (diamond 10 10 10)
    [⟨3, 1, 0⟩, ⟨0, 0, 0⟩, ⟨1, 1, 20⟩, ⟨2, 0, 20⟩] = [⟨0, 0, 0⟩, ⟨2, 0, 20⟩] := by decide +kernel

/-- a vertex where the boundary turns back (top of the diamond: tangents of opposite sign) keeps both hits -/
example : remove_duplicate_intercepts (diamond 10 10 10) [⟨0, 1, 10⟩, ⟨1, 0, 10⟩] = [⟨0, 1, 10⟩, ⟨1, 0, 10⟩] := by
  decide +kernel

/-! ## 4. rows: `PathContour::intercepts_on_line` -/

/-- what the row closure makes of its hits once they are sorted: duplicates removed, positions paired -/
def rowOf (curves : List (CurveRow K)) (s : List (InterceptT K)) : List (RangeT K) :=
  pairRanges ((remove_duplicate_intercepts curves s).map (·.x_pos))

/-- THE ROW CLOSURE, for every solver and curve table: gather the hits curve by curve (`rowRaw`: bounding-box test, solver
    parameters, `x = curve_x(t)`), sort them by x, and apply `rowOf`; the sorted list is a sorted permutation of the hits -/
theorem row_closure_eq (solve : K → K → K → K → K → List K) (curves : List (CurveRow K)) (y : K) :
    row_intercepts solve curves y = rowOf curves (listSortBy leX (rowRaw solve curves y)) ∧
    (listSortBy leX (rowRaw solve curves y)).Perm (rowRaw solve curves y) ∧
    SortedX (listSortBy leX (rowRaw solve curves y)) :=
  ⟨row_intercepts_eq solve curves y, listSortBy_perm _ _, sortedX_sort _⟩

/-- ROWS, SHAPE OF THE RESULT, for ANY sorted arrangement `s` of the hits (whatever order the unstable sort leaves equal
    positions in), any curve table, scale and width: the ranges are inside `[0, width]`, non-empty, in strictly ascending order
    and disjoint - whatever duplicate removal decides -/
theorem row_ranges_wellformed (curves : List (CurveRow K)) (s : List (InterceptT K)) (hs : SortedX s) (y sc : K) (w : Nat) :
    (∀ r ∈ raycast_intercepts_on_line (fun _ => rowOf curves s) y sc w, 0 ≤ r.start ∧ r.start < r.end_ ∧ r.end_ ≤ (w : K)) ∧
    (raycast_intercepts_on_line (fun _ => rowOf curves s) y sc w).Pairwise (fun a b => a.end_ ≤ b.start ∧ a.start < b.start) :=
  ⟨clip_ranges_inside _ y sc w,
   clip_keeps_order _ y sc w (pairRanges_ordered _ (hs.sublist (rdi_sublist curves s)).map)⟩

/-- ROWS, EVEN-ODD MEMBERSHIP, for ANY sorted arrangement `s` of the hits: `x` is in a returned range iff `0 ≤ x < width`,
    the number of hits KEPT by `remove_duplicate_intercepts` at or left of `x` is odd, and - when an odd number of hits is
    kept - `x` is left of the last kept hit -/
theorem row_membership (curves : List (CurveRow K)) (s : List (InterceptT K)) (hs : SortedX s) (y sc : K) (w : Nat) (x : K) :
    inRanges x (raycast_intercepts_on_line (fun _ => rowOf curves s) y sc w) ↔
      (0 ≤ x ∧ x < (w : K)) ∧
      countLe x ((remove_duplicate_intercepts curves s).map (·.x_pos)) % 2 = 1 ∧
      ((remove_duplicate_intercepts curves s).length % 2 = 0 ∨
        ∀ z ∈ ((remove_duplicate_intercepts curves s).map (·.x_pos)).getLast?, x < z) := by
  rw [clip_membership, rowOf, pairs_parity x _ (hs.sublist (rdi_sublist curves s)).map, List.length_map]
  tauto

/-- `intercepts_on_line`, SHAPE, unconditionally: for every solver (whatever it answers), curve table, width and `y` the
    returned ranges are inside `[0, width]`, non-empty, strictly ascending and disjoint -/
theorem intercepts_on_line_wellformed (solve : K → K → K → K → K → List K) (curves : List (CurveRow K)) (w : Nat) (y : K) :
    (∀ r ∈ interceptsOnLine solve curves w y, 0 ≤ r.start ∧ r.start < r.end_ ∧ r.end_ ≤ (w : K)) ∧
    (interceptsOnLine solve curves w y).Pairwise (fun a b => a.end_ ≤ b.start ∧ a.start < b.start) := by
  have h := row_ranges_wellformed curves _ (sortedX_sort (rowRaw solve curves (y * 1))) y 1 w
  simp only [raycast_intercepts_on_line] at h
  simp only [interceptsOnLine, raycast_intercepts_on_line, lit1, row_intercepts_eq]
  exact h

/-- `intercepts_on_line`, EVEN-ODD MEMBERSHIP: with `kept` the hits of the scanline after sorting and duplicate removal,
    `x` is in a returned range iff `0 ≤ x < width`, an odd number of kept hits lies at or left of `x`, and `x` is left of the
    last kept hit if their number is odd -/
theorem intercepts_on_line_membership (solve : K → K → K → K → K → List K) (curves : List (CurveRow K)) (w : Nat) (y x : K) :
    let kept := remove_duplicate_intercepts curves (listSortBy leX (rowRaw solve curves y))
    inRanges x (interceptsOnLine solve curves w y) ↔
      (0 ≤ x ∧ x < (w : K)) ∧ countLe x (kept.map (·.x_pos)) % 2 = 1 ∧
      (kept.length % 2 = 0 ∨ ∀ z ∈ (kept.map (·.x_pos)).getLast?, x < z) := by
  intro kept
  have h := row_membership curves _ (sortedX_sort (rowRaw solve curves y)) y 1 w x
  have e : interceptsOnLine solve curves w y =
      raycast_intercepts_on_line (fun _ => rowOf curves (listSortBy leX (rowRaw solve curves y))) y 1 w := by
    simp only [interceptsOnLine, raycast_intercepts_on_line, lit1, row_intercepts_eq, mul_one, rowOf]
  rw [e]; exact h

/-- GENERIC SCANLINES: if no two hits satisfy the duplicate condition and their number is even, `x` is in a returned range iff
    `0 ≤ x < width` and the number of solver hits at or left of `x` is odd -/
theorem intercepts_on_line_generic (solve : K → K → K → K → K → List K) (curves : List (CurveRow K)) (w : Nat) (y x : K)
    (hdup : ∀ a ∈ rowRaw solve curves y, ∀ b ∈ rowRaw solve curves y, dupPair curves a b = false)
    (heven : (rowRaw solve curves y).length % 2 = 0) :
    inRanges x (interceptsOnLine solve curves w y) ↔
      (0 ≤ x ∧ x < (w : K)) ∧ countLe x ((rowRaw solve curves y).map (·.x_pos)) % 2 = 1 := by
  have hp := listSortBy_perm (leX (K := K)) (rowRaw solve curves y)
  have hun : remove_duplicate_intercepts curves (listSortBy leX (rowRaw solve curves y)) = listSortBy leX (rowRaw solve curves y) :=
    rdi_untouched curves _ (fun a ha b hb => hdup a (hp.subset ha) b (hp.subset hb))
  have h := intercepts_on_line_membership solve curves w y x
  simp only [hun] at h
  rw [h, countLe_perm (hp.map _), hp.length_eq]
  simp [heven]

/-- non-vacuity: one diamond (vertices (0,10), (10,20), (20,10), (10,0)), a generic row and the row through two vertices -/
example : interceptsOnLine lineSolve (diamond 10 10 10) 100 5 = [⟨5, 15⟩] := by decide +kernel
example : interceptsOnLine lineSolve (diamond 10 10 10) 100 10 = [⟨0, 20⟩] := by decide +kernel
/-- clipping to a width of 12 -/
example : interceptsOnLine lineSolve (diamond 10 10 10) 12 10 = [⟨0, 12⟩] := by decide +kernel

/-- FINDING (closing joint of a sub-path): two diamonds side by side - (0,10),(10,20),(20,10),(10,0) and
    (30,10),(40,20),(50,10),(40,0) - scanned at `y = 10` through their start vertices.  By the even-odd rule the inside is
    `[0,20) ∪ [30,50)`.  The joint at (0,10) closes the first sub-path: its curves have indices 0 and 3 of 8 and are not
    neighbours, both hits are kept; likewise at (30,10).  The model - and the real `PathContour` (correspondence run, fixed
    scene 2) - answers `[20,30) ∪ [30,50)`: the point (5,10) inside the first diamond is reported outside and the point
    (25,10) between the diamonds inside.  The first diamond alone is scanned correctly. -/
theorem closing_joint_witness :
    interceptsOnLine lineSolve (diamond 10 10 10 ++ diamond 40 10 10) 100 10 = [⟨20, 30⟩, ⟨30, 50⟩] ∧
    interceptsOnLine lineSolve (diamond 10 10 10) 100 10 = [⟨0, 20⟩] ∧
    ¬ inRanges 5 (interceptsOnLine lineSolve (diamond 10 10 10 ++ diamond 40 10 10) 100 10) ∧
    inRanges 25 (interceptsOnLine lineSolve (diamond 10 10 10 ++ diamond 40 10 10) 100 10) := by
  have h1 : interceptsOnLine lineSolve (diamond 10 10 10 ++ diamond 40 10 10) 100 10 = [⟨20, 30⟩, ⟨30, 50⟩] := by decide +kernel
  refine ⟨h1, by decide +kernel, ?_, ?_⟩
  · rw [h1]; simp only [inRanges, InR, List.mem_cons, List.not_mem_nil, or_false, exists_eq_or_imp, exists_eq_left]; norm_num
  · rw [h1]; simp only [inRanges, InR, List.mem_cons, List.not_mem_nil, or_false, exists_eq_or_imp, exists_eq_left]; norm_num

/-! ## 5. columns: `PathContour::intercepts_on_column` -/

/-- THE COLUMN CLOSURE, for every solver and curve table: the positions `curve_y(t)` of the solver parameters `t > 0` of
    every curve whose bounding box contains `x`, sorted and paired - no duplicate removal -/
theorem column_closure_eq (solve : K → K → K → K → K → List K) (curves : List (CurveRow K)) (x : K) :
    column_intercepts solve curves x = pairRanges (listSortBy (fun a b => ftotalLe a b) (curves.flatMap (colHits solve x))) :=
  column_intercepts_eq solve curves x

/-- `intercepts_on_column`, SHAPE, unconditionally: inside `[0, height]`, non-empty, strictly ascending, disjoint -/
theorem intercepts_on_column_wellformed (solve : K → K → K → K → K → List K) (curves : List (CurveRow K)) (h : Nat) (x : K) :
    (∀ r ∈ interceptsOnColumn solve curves h x, 0 ≤ r.start ∧ r.start < r.end_ ∧ r.end_ ≤ (h : K)) ∧
    (interceptsOnColumn solve curves h x).Pairwise (fun a b => a.end_ ≤ b.start ∧ a.start < b.start) := by
  refine ⟨clip_ranges_inside _ x _ h, clip_keeps_order _ x _ h ?_⟩
  rw [column_intercepts_eq]
  exact pairRanges_ordered _ (sortedK_sort _)

/-- `intercepts_on_column`, EVEN-ODD MEMBERSHIP on the column's hits (all of them: nothing is removed): `y` is in a returned
    range iff `0 ≤ y < height`, an odd number of hits lies at or below `y`, and `y` is below the topmost hit if their number is odd -/
theorem intercepts_on_column_membership (solve : K → K → K → K → K → List K) (curves : List (CurveRow K)) (h : Nat) (x y : K) :
    let hits := listSortBy (fun a b => ftotalLe a b) (curves.flatMap (colHits solve x))
    inRanges y (interceptsOnColumn solve curves h x) ↔
      (0 ≤ y ∧ y < (h : K)) ∧ countLe y hits % 2 = 1 ∧ (hits.length % 2 = 0 ∨ ∀ z ∈ hits.getLast?, y < z) := by
  intro hits
  simp only [interceptsOnColumn]
  rw [clip_membership, lit1, mul_one, column_intercepts_eq, pairs_parity y _ (sortedK_sort _)]
  tauto

/-- COLUMN = ROW OF THE TRANSPOSED PATHS, UP TO TWO DIFFERENCES, for every solver, curve table and position: the column
    closure is what the row closure computes on the transposed curve table if `remove_duplicate_intercepts` is skipped and
    hits with `t = 0` are dropped before sorting -/
theorem column_is_transposed_row_without_dedupe (solve : K → K → K → K → K → List K) (curves : List (CurveRow K)) (x : K) :
    column_intercepts solve curves x =
      pairRanges (listSortBy (fun a b => ftotalLe a b)
        (((rowRaw solve (transpose curves) x).filter (fun h => decide (h.t > (0.0 : K)))).map (·.x_pos))) := by
  rw [column_intercepts_eq, colRaw_eq_rowRaw_transpose]

/-- where the two differences do not matter - no hit of the transposed row has `t ≤ 0` and no two of them satisfy the
    duplicate condition - `intercepts_on_column` IS `intercepts_on_line` of the transposed paths -/
theorem column_eq_transposed_row (solve : K → K → K → K → K → List K) (curves : List (CurveRow K)) (n : Nat) (x : K)
    (ht : ∀ h ∈ rowRaw solve (transpose curves) x, (0 : K) < h.t)
    (hdup : ∀ a ∈ rowRaw solve (transpose curves) x, ∀ b ∈ rowRaw solve (transpose curves) x,
      dupPair (transpose curves) a b = false) :
    interceptsOnColumn solve curves n x = interceptsOnLine solve (transpose curves) n x := by
  have hp := listSortBy_perm (leX (K := K)) (rowRaw solve (transpose curves) x)
  have hun := rdi_untouched (transpose curves) _ (fun a ha b hb => hdup a (hp.subset ha) b (hp.subset hb))
  have hfil : (rowRaw solve (transpose curves) x).filter (fun h => decide (h.t > (0.0 : K))) = rowRaw solve (transpose curves) x := by
    rw [List.filter_eq_self]; intro h hh; simpa [lit0] using ht h hh
  have hrow := row_intercepts_eq solve (transpose curves)
  have hcol := column_is_transposed_row_without_dedupe solve curves
  simp only [interceptsOnColumn, interceptsOnLine, raycast_intercepts_on_line, lit1, mul_one]
  rw [hcol, hrow, hfil, hun, map_listSortBy (·.x_pos) leX (fun a b => ftotalLe a b) (fun a b => rfl)]

/-- FINDING (columns differ from the transposed rows): diamond (0,10),(10,20),(20,10),(10,0) plus a second diamond
    (-5,40),(10,55),(25,40),(10,25); the column `x = 0` passes through the first diamond's left vertex (an extremum in x: the
    boundary touches the column) and through the second diamond between y = 35 and y = 45.  `intercepts_on_column` keeps
    one hit at the vertex (the `t = 0` hit of the other curve is dropped) and answers `[10,35)` - wrong by the even-odd rule,
    which gives `[35,45)`; `intercepts_on_line` of the transposed paths answers `[35,45)`.  Same on the real code
    (correspondence run, fixed scene 3). -/
theorem column_differs_from_transposed_row :
    interceptsOnColumn lineSolve (diamond 10 10 10 ++ diamond 10 40 15) 100 0 = [⟨10, 35⟩] ∧
    interceptsOnLine lineSolve (transpose (diamond 10 10 10 ++ diamond 10 40 15)) 100 0 = [⟨35, 45⟩] := by
  constructor <;> decide +kernel

/-- non-vacuity of `column_eq_transposed_row`: a generic column of the same scene -/
example : interceptsOnColumn lineSolve (diamond 10 10 10 ++ diamond 10 40 15) 100 5 = [⟨5, 15⟩, ⟨30, 50⟩] ∧
    interceptsOnLine lineSolve (transpose (diamond 10 10 10 ++ diamond 10 40 15)) 100 5 = [⟨5, 15⟩, ⟨30, 50⟩] := by
  constructor <;> decide +kernel

/-! ## 6. solve_basis_for_t -/

/-- WHICH PARAMETERS `solve_basis_for_t` RETURNS, for every pair of root finders: with `S` the answer of the finder the code
    selects (the quadratic one iff `|a| < 1e-8`) for the coefficients `a, b, c, d` it computes, `r` is returned iff it is 0 and
    `w1 = p`, or 1 and `w4 = p`, or a member of `S` strictly inside (0,1) that is more than 1e-6 away from an end of the curve
    lying exactly on `p` -/
theorem solve_basis_mem (fq : K → K → K → List K) (fc : K → K → K → K → List K) (w1 w2 w3 w4 p r : K) :
    let d := w1 - p
    let c := 3 * (w2 - w1)
    let b := 3 * (w3 - w2) - c
    let a := w4 - w1 - c - b
    let S := if |a| < 0.00000001 then fq b c d else fc a b c d
    r ∈ solve_basis_for_t fq fc w1 w2 w3 w4 p ↔
      (r = 0 ∧ w1 = p) ∨ (r = 1 ∧ w4 = p) ∨
      (r ∈ S ∧ 0 < r ∧ r < 1 ∧ (w1 = p → 1e-6 < r) ∧ (w4 = p → r < 1 - 1e-6)) := by
  intro d c b a S
  have e3 : (3.0 : K) = 3 := by norm_num
  have hS : S = if |a| < 0.00000001 then fq b c d else fc a b c d := rfl
  have hz : r = 0 → r < 1 - 1e-6 := by rintro rfl; norm_num
  simp only [solve_basis_for_t, fabs_eq, lit0, lit1, e3, decide_eq_true_eq, beq_iff_eq, gt_iff_lt]
  rw [← hS]
  by_cases h1 : w1 = p <;> by_cases h4 : w4 = p <;>
    simp only [h1, h4, if_true, if_false, List.mem_append, List.mem_filter,
      decide_eq_true_eq, Bool.and_eq_true, List.mem_cons, List.insertIdx_zero] <;>
    constructor <;> intro h <;> tauto

/-- the polynomial the finders are asked about is the curve's coordinate minus `p` -/
theorem solve_basis_polynomial (w1 w2 w3 w4 p t : K) :
    let d := w1 - p
    let c := 3 * (w2 - w1)
    let b := 3 * (w3 - w2) - c
    let a := w4 - w1 - c - b
    a * t ^ 3 + b * t ^ 2 + c * t + d = basis t w1 w2 w3 w4 - p := by
  simp only [basis, lit1]
  have e3 : (3.0 : K) = 3 := by norm_num
  rw [e3]; ring

/-- every returned parameter is in `[0, 1]` -/
theorem solve_basis_in_unit (fq : K → K → K → List K) (fc : K → K → K → K → List K) (w1 w2 w3 w4 p r : K)
    (h : r ∈ solve_basis_for_t fq fc w1 w2 w3 w4 p) : 0 ≤ r ∧ r ≤ 1 := by
  rcases (solve_basis_mem fq fc w1 w2 w3 w4 p r).1 h with ⟨rfl, _⟩ | ⟨rfl, _⟩ | ⟨_, h0, h1, _⟩
  · exact ⟨le_refl _, zero_le_one⟩
  · exact ⟨zero_le_one, le_refl _⟩
  · exact ⟨le_of_lt h0, le_of_lt h1⟩

/-- SOUNDNESS on the cubic branch: if the cubic finder returns only roots of the polynomial it is given and the leading
    coefficient is at least 1e-8 in size, every returned parameter is a point where the curve's coordinate equals `p` -/
theorem solve_basis_sound (fq : K → K → K → List K) (fc : K → K → K → K → List K) (w1 w2 w3 w4 p r : K)
    (hfc : ∀ a b c d x, x ∈ fc a b c d → a * x ^ 3 + b * x ^ 2 + c * x + d = 0)
    (ha : ¬ |w4 - w1 - 3 * (w2 - w1) - (3 * (w3 - w2) - 3 * (w2 - w1))| < 0.00000001)
    (h : r ∈ solve_basis_for_t fq fc w1 w2 w3 w4 p) : basis r w1 w2 w3 w4 = p := by
  rcases (solve_basis_mem fq fc w1 w2 w3 w4 p r).1 h with ⟨rfl, h1⟩ | ⟨rfl, h4⟩ | ⟨hS, _⟩
  · rw [← h1]; simp only [basis, lit1, lit3]; ring
  · rw [← h4]; simp only [basis, lit1, lit3]; ring
  · simp only [if_neg ha] at hS
    have := hfc _ _ _ _ r hS
    have hpoly := solve_basis_polynomial w1 w2 w3 w4 p r
    simp only at hpoly
    rw [this] at hpoly
    exact (sub_eq_zero.1 hpoly.symm)

/-- COMPLETENESS on the cubic branch: if the cubic finder returns every root of a polynomial with non-zero leading
    coefficient and the leading coefficient is at least 1e-8 in size, every `t ∈ [0,1]` where the curve's coordinate equals `p`
    is returned - except parameters within 1e-6 of an end of the curve that lies exactly on `p` (they are merged into the end) -/
theorem solve_basis_complete (fq : K → K → K → List K) (fc : K → K → K → K → List K) (w1 w2 w3 w4 p t : K)
    (hfc : ∀ a b c d x, a ≠ 0 → a * x ^ 3 + b * x ^ 2 + c * x + d = 0 → x ∈ fc a b c d)
    (ha : ¬ |w4 - w1 - 3 * (w2 - w1) - (3 * (w3 - w2) - 3 * (w2 - w1))| < 0.00000001)
    (h0 : 0 ≤ t) (h1 : t ≤ 1) (ht : basis t w1 w2 w3 w4 = p) :
    t ∈ solve_basis_for_t fq fc w1 w2 w3 w4 p ∨ (w1 = p ∧ 0 < t ∧ t ≤ 1e-6) ∨ (w4 = p ∧ 1 - 1e-6 ≤ t ∧ t < 1) := by
  have hpoly := solve_basis_polynomial w1 w2 w3 w4 p t
  simp only at hpoly
  rw [ht, sub_self] at hpoly
  have hane : w4 - w1 - 3 * (w2 - w1) - (3 * (w3 - w2) - 3 * (w2 - w1)) ≠ 0 := by
    intro h; apply ha; rw [h, abs_zero]; norm_num
  have hm := solve_basis_mem fq fc w1 w2 w3 w4 p t
  simp only [if_neg ha] at hm
  rw [hm]
  rcases eq_or_lt_of_le h0 with rfl | h0'
  · left; left; refine ⟨rfl, ?_⟩
    rw [← ht]; simp only [basis, lit1, lit3]; ring
  rcases eq_or_lt_of_le h1 with rfl | h1'
  · left; right; left; refine ⟨rfl, ?_⟩
    rw [← ht]; simp only [basis, lit1, lit3]; ring
  by_cases hA : w1 = p ∧ t ≤ 1e-6
  · right; left; exact ⟨hA.1, h0', hA.2⟩
  by_cases hB : w4 = p ∧ 1 - 1e-6 ≤ t
  · right; right; exact ⟨hB.1, hB.2, h1'⟩
  left; right; right
  refine ⟨hfc _ _ _ _ t hane hpoly, h0', h1', ?_, ?_⟩
  · intro h; exact not_le.1 (fun hle => hA ⟨h, hle⟩)
  · intro h; exact not_le.1 (fun hle => hB ⟨h, hle⟩)

/-- THE QUADRATIC BRANCH IS AN APPROXIMATION: for `|a| < 1e-8` the cubic term is dropped; if the quadratic finder returns only
    roots of `b t² + c t + d`, a returned parameter strictly inside (0,1) misses `p` by less than 1e-8 (and need not hit it) -/
theorem solve_basis_quadratic_residual (fq : K → K → K → List K) (fc : K → K → K → K → List K) (w1 w2 w3 w4 p r : K)
    (hfq : ∀ b c d x, x ∈ fq b c d → b * x ^ 2 + c * x + d = 0)
    (ha : |w4 - w1 - 3 * (w2 - w1) - (3 * (w3 - w2) - 3 * (w2 - w1))| < 0.00000001)
    (h : r ∈ solve_basis_for_t fq fc w1 w2 w3 w4 p) (hr0 : 0 < r) (hr1 : r < 1) :
    |basis r w1 w2 w3 w4 - p| < 0.00000001 := by
  have hpoly := solve_basis_polynomial w1 w2 w3 w4 p r
  rcases (solve_basis_mem fq fc w1 w2 w3 w4 p r).1 h with ⟨rfl, _⟩ | ⟨rfl, _⟩ | ⟨hS, _⟩
  · exact absurd hr0 (lt_irrefl _)
  · exact absurd hr1 (lt_irrefl _)
  · simp only [if_pos ha] at hS
    have hq := hfq _ _ _ r hS
    simp only at hpoly
    rw [← hpoly]
    have : (w4 - w1 - 3 * (w2 - w1) - (3 * (w3 - w2) - 3 * (w2 - w1))) * r ^ 3 + (3 * (w3 - w2) - 3 * (w2 - w1)) * r ^ 2 +
        3 * (w2 - w1) * r + (w1 - p) = (w4 - w1 - 3 * (w2 - w1) - (3 * (w3 - w2) - 3 * (w2 - w1))) * r ^ 3 := by
      linear_combination hq
    rw [this, abs_mul]
    have hr3 : |r ^ 3| ≤ 1 := by
      rw [abs_of_pos (by positivity)]
      exact pow_le_one₀ (le_of_lt hr0) (le_of_lt hr1)
    calc |w4 - w1 - 3 * (w2 - w1) - (3 * (w3 - w2) - 3 * (w2 - w1))| * |r ^ 3|
        ≤ |w4 - w1 - 3 * (w2 - w1) - (3 * (w3 - w2) - 3 * (w2 - w1))| * 1 := by
          exact mul_le_mul_of_nonneg_left hr3 (abs_nonneg _)
      _ < 0.00000001 := by rw [mul_one]; exact ha

/-- non-vacuity: the straight coordinate 0, 1, 2, 3 (a = b = 0: quadratic branch) with an exact linear finder; `p = 3/2` gives
    `t = 1/2`, `p = 3` gives the end `t = 1` -/
example : solve_basis_for_t (K := ℚ) (fun _ c d => [-d / c]) (fun _ _ _ _ => []) 0 1 2 3 (3/2) = [1/2] := by decide +kernel
example : solve_basis_for_t (K := ℚ) (fun _ c d => [-d / c]) (fun _ _ _ _ => []) 0 1 2 3 3 = [1] := by decide +kernel

/-! ## 7. generic scanlines: the hits are exactly the crossings -/

/-- the leading coefficient `solve_basis_for_t` computes from the control values `w` -/
def leadCoeff (w : T4 K K K K) : K := w.t3 - w.t0 - 3 * (w.t1 - w.t0) - (3 * (w.t2 - w.t1) - 3 * (w.t1 - w.t0))

/-- THE HITS OF A SCANLINE ARE EXACTLY ITS CROSSINGS, each once - relative to the contract of the external cubic finder
    (returns exactly the real roots, each once) - for every curve table whose y polynomials take the cubic branch
    (`|a| ≥ 1e-8`), whose bounding boxes contain their curves in y, and every `y` that is not the y of a curve end point:
    the list gathered by the row closure has no repetition and contains `⟨i, t, x⟩` iff curve `i` exists, `0 < t < 1`,
    `curve_y_i(t) = y` and `x = curve_x_i(t)`.  Together with `intercepts_on_line_membership` / `_generic` this is the
    even-odd crossing rule for generic scanlines; what it does not cover is precisely the property's hard part (scanlines
    through vertices and tangent points, where `remove_duplicate_intercepts` has to repair the count) -/
theorem row_hits_are_the_crossings (fq : K → K → K → List K) (fc : K → K → K → K → List K) (curves : List (CurveRow K)) (y : K)
    (hsound : ∀ a b c d x, x ∈ fc a b c d → a * x ^ 3 + b * x ^ 2 + c * x + d = 0)
    (hcomplete : ∀ a b c d x, a ≠ 0 → a * x ^ 3 + b * x ^ 2 + c * x + d = 0 → x ∈ fc a b c d)
    (hnodup : ∀ a b c d, (fc a b c d).Nodup)
    (hcubic : ∀ c ∈ curves, ¬ |leadCoeff c.t1| < 0.00000001)
    (hbox : ∀ c ∈ curves, ∀ t, 0 ≤ t → t ≤ 1 →
      c.t2.t0.y ≤ basis t c.t1.t0 c.t1.t1 c.t1.t2 c.t1.t3 ∧ basis t c.t1.t0 c.t1.t1 c.t1.t2 c.t1.t3 ≤ c.t2.t1.y)
    (hends : ∀ c ∈ curves, c.t1.t0 ≠ y ∧ c.t1.t3 ≠ y) :
    (rowRaw (solve_basis_for_t fq fc) curves y).Nodup ∧
    ∀ h : InterceptT K, h ∈ rowRaw (solve_basis_for_t fq fc) curves y ↔
      ∃ c, curves[h.curve_idx]? = some c ∧ 0 < h.t ∧ h.t < 1 ∧ basis h.t c.t1.t0 c.t1.t1 c.t1.t2 c.t1.t3 = y ∧
        h.x_pos = basis h.t c.t0.t0 c.t0.t1 c.t0.t2 c.t0.t3 := by
  have hpt : ∀ (w1 w2 w3 w4 t : K), curve_point_at_pos w1 w2 w3 w4 t = basis t w1 w2 w3 w4 := fun _ _ _ _ _ => rfl
  -- membership of a parameter in the solver's answer for one curve
  have hsolve : ∀ c ∈ curves, ∀ t, t ∈ solve_basis_for_t fq fc c.t1.t0 c.t1.t1 c.t1.t2 c.t1.t3 y ↔
      0 < t ∧ t < 1 ∧ basis t c.t1.t0 c.t1.t1 c.t1.t2 c.t1.t3 = y := by
    intro c hc t
    have hm := solve_basis_mem fq fc c.t1.t0 c.t1.t1 c.t1.t2 c.t1.t3 y t
    have hp := solve_basis_polynomial c.t1.t0 c.t1.t1 c.t1.t2 c.t1.t3 y t
    have hcub := hcubic c hc
    simp only [leadCoeff] at hcub
    simp only [if_neg hcub] at hm
    simp only at hp
    have hane : c.t1.t3 - c.t1.t0 - 3 * (c.t1.t1 - c.t1.t0) - (3 * (c.t1.t2 - c.t1.t1) - 3 * (c.t1.t1 - c.t1.t0)) ≠ 0 := by
      intro h; apply hcub; rw [h, abs_zero]; norm_num
    rw [hm]
    constructor
    · rintro (⟨_, h1⟩ | ⟨_, h4⟩ | ⟨hS, h0, h1, _⟩)
      · exact absurd h1 (hends c hc).1
      · exact absurd h4 (hends c hc).2
      · refine ⟨h0, h1, ?_⟩
        have := hsound _ _ _ _ t hS
        rw [this] at hp
        exact sub_eq_zero.1 hp.symm
    · rintro ⟨h0, h1, hb⟩
      right; right
      rw [hb, sub_self] at hp
      exact ⟨hcomplete _ _ _ _ t hane hp, h0, h1, fun h => absurd h (hends c hc).1, fun h => absurd h (hends c hc).2⟩
  constructor
  · -- no repetition
    simp only [rowRaw]
    rw [List.nodup_flatMap]
    constructor
    · intro it hit
      have hc : it.t1 ∈ curves := List.mem_of_getElem? ((mem_listEnum curves it).1 hit)
      simp only [rowHits]
      split_ifs
      · exact List.nodup_nil
      · refine List.Nodup.map ?_ (List.Nodup.filter _ ?_)
        · intro a b hab
          exact congrArg InterceptT.t hab
        · have hcub := hcubic _ hc
          have h1 := (hends _ hc).1
          have h4 := (hends _ hc).2
          simp only [leadCoeff] at hcub
          simp only [solve_basis_for_t, fabs_eq, lit3, beq_iff_eq, h1, h4, if_false, decide_eq_true_eq]
          split_ifs with hq
          · exact absurd hq hcub
          · exact (hnodup _ _ _ _).filter _
    · refine (pairwise_listEnumFrom 0 curves).imp ?_
      intro p q hpq
      simp only [Function.onFun]
      intro hh hp hq
      have e1 := ((mem_rowHits _ _ _ _ _).1 hp).2.1
      have e2 := ((mem_rowHits _ _ _ _ _).1 hq).2.1
      omega
  · intro h
    simp only [rowRaw, List.mem_flatMap]
    constructor
    · rintro ⟨it, hit, hh⟩
      have hget := (mem_listEnum curves it).1 hit
      have hc : it.t1 ∈ curves := List.mem_of_getElem? hget
      obtain ⟨_, hidx, ht, _, hx⟩ := (mem_rowHits _ _ _ _ _).1 hh
      obtain ⟨h0, h1, hb⟩ := (hsolve _ hc h.t).1 ht
      exact ⟨it.t1, by rw [hidx]; exact hget, h0, h1, hb, by rw [hx, hpt]⟩
    · rintro ⟨c, hget, h0, h1, hb, hx⟩
      have hc : c ∈ curves := List.mem_of_getElem? hget
      refine ⟨T2.mk h.curve_idx c, (mem_listEnum curves _).2 hget, (mem_rowHits _ _ _ _ _).2 ⟨?_, rfl, ?_, Or.inl (le_of_lt h0), ?_⟩⟩
      · have := hbox c hc h.t (le_of_lt h0) (le_of_lt h1)
        rw [hb] at this
        simp only [gt_iff_lt, not_or, not_lt]
        exact this
      · exact (hsolve c hc h.t).2 ⟨h0, h1, hb⟩
      · rw [hx, hpt]

/-- non-vacuity of the description: the row `y = 5` of the diamond hits curve 2 at `t = 1/2`, `x = 15` and curve 3 at `t = 1/2`,
    `x = 5` (curves 0 and 1 lie above `y = 10`: bounding-box test) - computed by the generated gather with the exact line solver -/
example : rowRaw lineSolve (diamond 10 10 10) 5 = [⟨2, 1/2, 15⟩, ⟨3, 1/2, 5⟩] := by decide +kernel

end C16
