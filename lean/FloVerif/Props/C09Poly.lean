/-
C09 (power basis to Bézier form)  `polynomial_to_bezier`, generated from roots/polynomial_to_bezier.rs.

`find_bezier_roots` finds the zeros of a polynomial given in Bézier form; `polynomial_to_bezier` is the library's conversion from the
coefficient form `c[0] + c[1]·x + … ` (Schneider's in-place triangle: new translator form `v[i] = e` on a local list inside nested
`for` loops whose inner range depends on the outer variable).  Proved here for the degrees the library and its tests use it at
(N = 6, the degree-5 case of the nearest-point solver, and N = 4, 3, 2): the control polygon returned has abscissae `k/(N−1)` and the
Bézier curve it defines IS the polynomial - `de_casteljau_n t (polynomial_to_bezier c) = (t, Σ c_i t^i)` for every `t`.  Run at `Float`
the generated function reproduces the real one bit for bit (driver op `poly`).
-/
import FloVerif.Lemmas.Nearest

set_option linter.unusedSectionVars false
namespace C09Poly
open Prelude Gen C09L

variable {K : Type} [Field K] [LinearOrder K] [IsStrictOrderedRing K] [Inhabited K]
local instance : FAbs K := ⟨fun a => |a|⟩
local instance : OfInt K := ⟨fun n => (n : K)⟩
variable [FSqrt K] [FSignum K]

/-- the control polygon for six coefficients (loops evaluated) -/
theorem quintic_control_polygon (c0 c1 c2 c3 c4 c5 : K) :
    (polynomial_to_bezier [c0, c1, c2, c3, c4, c5]).map (·.x) = [0, 1 / 5, 2 / 5, 3 / 5, 4 / 5, 1] ∧
    (polynomial_to_bezier [c0, c1, c2, c3, c4, c5]).length = 6 := by
  constructor <;>
  · simp [polynomial_to_bezier, foldlT, List.range', listGet, List.set, ofInt, OfInt.ofInt, List.zipIdx]
    try norm_num

/-- **THE BÉZIER FORM IS THE POLYNOMIAL** (degree 5): for all coefficients and every `t`, evaluating the returned control polygon with
    the generated `de_casteljau_n` gives the point `(t, c0 + c1 t + c2 t² + c3 t³ + c4 t⁴ + c5 t⁵)` -/
theorem quintic_bezier_is_polynomial (c0 c1 c2 c3 c4 c5 t : K) :
    de_casteljau_n t (polynomial_to_bezier [c0, c1, c2, c3, c4, c5]) =
      V2.mk t (c0 + c1 * t + c2 * t ^ 2 + c3 * t ^ 3 + c4 * t ^ 4 + c5 * t ^ 5) := by
  have h1 : (1.0 : K) = 1 := by norm_num
  apply v2_ext <;>
  · simp [polynomial_to_bezier, de_casteljau_n, iterFuel, foldlT, List.range', listGet, List.set, ofInt, OfInt.ofInt, List.zipIdx, h1]
    norm_num
    ring

/-- the same for four coefficients (a cubic) -/
theorem cubic_bezier_is_polynomial (c0 c1 c2 c3 t : K) :
    de_casteljau_n t (polynomial_to_bezier [c0, c1, c2, c3]) = V2.mk t (c0 + c1 * t + c2 * t ^ 2 + c3 * t ^ 3) := by
  have h1 : (1.0 : K) = 1 := by norm_num
  apply v2_ext <;>
  · simp [polynomial_to_bezier, de_casteljau_n, iterFuel, foldlT, List.range', listGet, List.set, ofInt, OfInt.ofInt, List.zipIdx, h1]
    norm_num
    ring

/-- and for three (a parabola) -/
theorem quadratic_bezier_is_polynomial (c0 c1 c2 t : K) :
    de_casteljau_n t (polynomial_to_bezier [c0, c1, c2]) = V2.mk t (c0 + c1 * t + c2 * t ^ 2) := by
  have h1 : (1.0 : K) = 1 := by norm_num
  apply v2_ext <;>
  · simp [polynomial_to_bezier, de_casteljau_n, iterFuel, foldlT, List.range', listGet, List.set, ofInt, OfInt.ofInt, List.zipIdx, h1]
    norm_num
    ring

local instance : FSqrt ℚ := ⟨fun x => x⟩
local instance : FSignum ℚ := ⟨fun x => if x < 0 then -1 else 1⟩
local instance : FAbs ℚ := ⟨fun a => |a|⟩
local instance : OfInt ℚ := ⟨fun n => (n : ℚ)⟩

/-- non-vacuity / the library's own test polynomial (x-0.5)(x-0.4)(x-0.3)(x-0.2)(x-0.1): its Bézier form vanishes at 0.3 -/
example : (de_casteljau_n (3 / 10 : ℚ) (polynomial_to_bezier [-(12 / 10000 : ℚ), 274 / 10000, -(225 / 1000), 85 / 100, -(15 / 10), 1])).y = 0 := by
  rw [quintic_bezier_is_polynomial]; norm_num

end C09Poly
