/-
C06 (path level)  The bounding boxes of a path are the union of the boxes of its curves.

`Gen.path_bounding_box` / `Gen.path_fast_bounding_box` are regenerated from src/bezier/path/bounds.rs on every check
(`path_to_curves(path).map(box).reduce(union).unwrap_or_else(origin box)`), in the 1-D instance used throughout C06: a
curve is its four control values, a box is `(min, max)`.  `union_bounds` skips a box with `min = max` (it counts as
empty), so containment is stated for boxes of positive width, exactly as the code behaves.
-/
import FloVerif.Props.C06

set_option linter.unusedSectionVars false
namespace C06Path
open Prelude Gen C06

-- the very instances `Props/C06.lean` states its theorems with (they are local there)
attribute [local instance] C06.instFSqrtReal

/-- the fold of `reduce`: the union never shrinks - every box of positive width that went in is inside the result, and the result
    is one of the boxes or a box of positive width -/
theorem foldl_union_contains (l : List (T2 ℝ ℝ)) (acc : T2 ℝ ℝ) (hacc : acc.t0 ≤ acc.t1) (hl : ∀ b ∈ l, b.t0 ≤ b.t1) :
    (l.foldl (fun first second => union_bounds first second) acc).t0 ≤ (l.foldl (fun first second => union_bounds first second) acc).t1 ∧
      (acc.t0 < acc.t1 → (l.foldl (fun first second => union_bounds first second) acc).t0 ≤ acc.t0 ∧
        acc.t1 ≤ (l.foldl (fun first second => union_bounds first second) acc).t1) ∧
      (∀ b ∈ l, b.t0 < b.t1 → (l.foldl (fun first second => union_bounds first second) acc).t0 ≤ b.t0 ∧
        b.t1 ≤ (l.foldl (fun first second => union_bounds first second) acc).t1) := by
  induction l generalizing acc with
  | nil => simp [hacc]
  | cons x xs ih =>
    have hx : x.t0 ≤ x.t1 := hl x List.mem_cons_self
    have hxs : ∀ b ∈ xs, b.t0 ≤ b.t1 := fun b hb => hl b (List.mem_cons_of_mem _ hb)
    simp only [List.foldl_cons]
    have hu := union_bounds_spec acc x
    by_cases ha : acc.t0 = acc.t1
    · -- the accumulator is empty: the union is x
      rw [if_pos ha] at hu
      rw [hu]
      obtain ⟨h1, h2, h3⟩ := ih x hx hxs
      refine ⟨h1, fun h => absurd ha (ne_of_lt h), ?_⟩
      intro b hb hpos
      rcases List.mem_cons.1 hb with rfl | hb
      · exact h2 hpos
      · exact h3 b hb hpos
    · rw [if_neg ha] at hu
      have hapos : acc.t0 < acc.t1 := lt_of_le_of_ne hacc ha
      by_cases hxe : x.t0 = x.t1
      · rw [if_pos hxe] at hu
        rw [hu]
        obtain ⟨h1, h2, h3⟩ := ih acc hacc hxs
        refine ⟨h1, h2, ?_⟩
        intro b hb hpos
        rcases List.mem_cons.1 hb with rfl | hb
        · exact absurd hxe (ne_of_lt hpos)
        · exact h3 b hb hpos
      · rw [if_neg hxe] at hu
        rw [hu]
        have hpos' : (T2.mk (min acc.t0 x.t0) (max acc.t1 x.t1)).t0 < (T2.mk (min acc.t0 x.t0) (max acc.t1 x.t1)).t1 :=
          lt_of_le_of_lt (min_le_left _ _) (lt_of_lt_of_le hapos (le_max_left _ _))
        obtain ⟨h1, h2, h3⟩ := ih (T2.mk (min acc.t0 x.t0) (max acc.t1 x.t1)) hpos'.le hxs
        obtain ⟨h2a, h2b⟩ := h2 hpos'
        refine ⟨h1, fun _ => ⟨le_trans h2a (min_le_left _ _), le_trans (le_max_left _ _) h2b⟩, ?_⟩
        intro b hb hpos
        rcases List.mem_cons.1 hb with rfl | hb
        · exact ⟨le_trans h2a (min_le_right _ _), le_trans (le_max_right _ _) h2b⟩
        · exact h3 b hb hpos

/-- the generated functions are `reduce` over the list of per-curve boxes; the box of a path without curves is the origin box -/
theorem path_bounding_box_eq (curves : List (T4 ℝ ℝ ℝ ℝ)) :
    path_bounding_box curves =
      match curves.map (fun c => bounding_box4 c.t0 c.t1 c.t2 c.t3) with
      | [] => T2.mk 0 0
      | b :: bs => bs.foldl (fun first second => union_bounds first second) b := by
  simp only [path_bounding_box, listReduce]
  cases curves.map (fun c => bounding_box4 c.t0 c.t1 c.t2 c.t3) <;> simp <;> norm_num

theorem path_fast_bounding_box_eq (curves : List (T4 ℝ ℝ ℝ ℝ)) :
    path_fast_bounding_box curves =
      match curves.map (fun c => fast_bounding_box c.t0 c.t1 c.t2 c.t3) with
      | [] => T2.mk 0 0
      | b :: bs => bs.foldl (fun first second => union_bounds first second) b := by
  simp only [path_fast_bounding_box, listReduce]
  cases curves.map (fun c => fast_bounding_box c.t0 c.t1 c.t2 c.t3) <;> simp <;> norm_num

/-- THE PATH BOX CONTAINS EVERY CURVE OF THE PATH: for every curve of the path whose own box has positive width (a curve that moves
    in this coordinate) and every `t` in [0,1], the curve point lies in `path_bounding_box`. -/
theorem path_bounding_box_contains (curves : List (T4 ℝ ℝ ℝ ℝ)) (c : T4 ℝ ℝ ℝ ℝ) (hc : c ∈ curves)
    (hpos : (bounding_box4 c.t0 c.t1 c.t2 c.t3).t0 < (bounding_box4 c.t0 c.t1 c.t2 c.t3).t1) (t : ℝ) (h0 : 0 ≤ t) (h1 : t ≤ 1) :
    (path_bounding_box curves).t0 ≤ de_casteljau4 t c.t0 c.t1 c.t2 c.t3 ∧
    de_casteljau4 t c.t0 c.t1 c.t2 c.t3 ≤ (path_bounding_box curves).t1 := by
  have hord : ∀ c : T4 ℝ ℝ ℝ ℝ, (bounding_box4 c.t0 c.t1 c.t2 c.t3).t0 ≤ (bounding_box4 c.t0 c.t1 c.t2 c.t3).t1 := fun c =>
    le_trans (bounding_box_contains c.t0 c.t1 c.t2 c.t3 0 (le_refl 0) zero_le_one).1 (bounding_box_contains c.t0 c.t1 c.t2 c.t3 0 (le_refl 0) zero_le_one).2
  obtain ⟨lo, hi⟩ := bounding_box_contains c.t0 c.t1 c.t2 c.t3 t h0 h1
  rw [path_bounding_box_eq]
  cases curves with
  | nil => simp at hc
  | cons x xs =>
    simp only [List.map_cons]
    have hall : ∀ y ∈ List.map (fun c : T4 ℝ ℝ ℝ ℝ => bounding_box4 c.t0 c.t1 c.t2 c.t3) xs, y.t0 ≤ y.t1 := by
      intro y hy; obtain ⟨z, _, rfl⟩ := List.mem_map.1 hy; exact hord z
    obtain ⟨_, h2, h3⟩ := foldl_union_contains (List.map (fun c : T4 ℝ ℝ ℝ ℝ => bounding_box4 c.t0 c.t1 c.t2 c.t3) xs) (bounding_box4 x.t0 x.t1 x.t2 x.t3) (hord x) hall
    rcases List.mem_cons.1 hc with rfl | hc
    · obtain ⟨a, b⟩ := h2 hpos
      exact ⟨le_trans a lo, le_trans hi b⟩
    · have : bounding_box4 c.t0 c.t1 c.t2 c.t3 ∈ List.map (fun c : T4 ℝ ℝ ℝ ℝ => bounding_box4 c.t0 c.t1 c.t2 c.t3) xs := List.mem_map.2 ⟨c, hc, rfl⟩
      obtain ⟨a, b⟩ := h3 _ this hpos
      exact ⟨le_trans a lo, le_trans hi b⟩

/-- THE FAST PATH BOX CONTAINS THE PATH BOX'S CURVES TOO: the same for `path_fast_bounding_box` (which is the union of the curves'
    control-polygon boxes) -/
theorem path_fast_bounding_box_contains (curves : List (T4 ℝ ℝ ℝ ℝ)) (c : T4 ℝ ℝ ℝ ℝ) (hc : c ∈ curves)
    (hpos : (fast_bounding_box c.t0 c.t1 c.t2 c.t3).t0 < (fast_bounding_box c.t0 c.t1 c.t2 c.t3).t1) (t : ℝ) (h0 : 0 ≤ t) (h1 : t ≤ 1) :
    (path_fast_bounding_box curves).t0 ≤ de_casteljau4 t c.t0 c.t1 c.t2 c.t3 ∧
    de_casteljau4 t c.t0 c.t1 c.t2 c.t3 ≤ (path_fast_bounding_box curves).t1 := by
  have hord : ∀ c : T4 ℝ ℝ ℝ ℝ, (fast_bounding_box c.t0 c.t1 c.t2 c.t3).t0 ≤ (fast_bounding_box c.t0 c.t1 c.t2 c.t3).t1 := fun c =>
    le_trans (fast_contains_curve c.t0 c.t1 c.t2 c.t3 0 (le_refl 0) zero_le_one).1 (fast_contains_curve c.t0 c.t1 c.t2 c.t3 0 (le_refl 0) zero_le_one).2
  obtain ⟨lo, hi⟩ := fast_contains_curve c.t0 c.t1 c.t2 c.t3 t h0 h1
  rw [path_fast_bounding_box_eq]
  cases curves with
  | nil => simp at hc
  | cons x xs =>
    simp only [List.map_cons]
    have hall : ∀ y ∈ List.map (fun c : T4 ℝ ℝ ℝ ℝ => fast_bounding_box c.t0 c.t1 c.t2 c.t3) xs, y.t0 ≤ y.t1 := by
      intro y hy; obtain ⟨z, _, rfl⟩ := List.mem_map.1 hy; exact hord z
    obtain ⟨_, h2, h3⟩ := foldl_union_contains (List.map (fun c : T4 ℝ ℝ ℝ ℝ => fast_bounding_box c.t0 c.t1 c.t2 c.t3) xs) (fast_bounding_box x.t0 x.t1 x.t2 x.t3) (hord x) hall
    rcases List.mem_cons.1 hc with rfl | hc
    · obtain ⟨a, b⟩ := h2 hpos
      exact ⟨le_trans a lo, le_trans hi b⟩
    · have : fast_bounding_box c.t0 c.t1 c.t2 c.t3 ∈ List.map (fun c : T4 ℝ ℝ ℝ ℝ => fast_bounding_box c.t0 c.t1 c.t2 c.t3) xs := List.mem_map.2 ⟨c, hc, rfl⟩
      obtain ⟨a, b⟩ := h3 _ this hpos
      exact ⟨le_trans a lo, le_trans hi b⟩

/-- non-vacuity: two curves 0,1,2,3 and 3,5,4,6: the path box is [0,6] -/
example : path_fast_bounding_box [T4.mk (0:ℝ) 1 2 3, T4.mk 3 5 4 6] = T2.mk 0 6 := by
  rw [path_fast_bounding_box_eq]
  simp only [List.map_cons, List.map_nil, List.foldl_cons, List.foldl_nil, union_bounds_spec, fast_bounding_box_spec]
  norm_num

end C06Path
