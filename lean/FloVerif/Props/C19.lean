/-
C19  Arc length is bracketed by chord and control polygon.

`Gen.chord_length`, `Gen.control_polygon_length`, `Gen.subdivide4`, `Gen.curve_reverse` are regenerated from
length.rs / subdivide.rs / curve.rs; `Model.Length` is the hand model of the `section_length` loop (Float mirror
checked against the implementation).  Theorems over any real normed space (1-D, 2-D, 3-D alike).
-/
import FloVerif.Model.Length
import Mathlib.Analysis.Normed.Module.Basic
import Mathlib.Tactic.Ring
import Mathlib.Tactic.NormNum.OfScientific
import Mathlib.Tactic.Linarith
import Mathlib.Tactic.Module

set_option linter.unusedSectionVars false
namespace C19
open Prelude Gen Model.Length

variable {E : Type} [NormedAddCommGroup E] [NormedSpace ℝ E]

private theorem norm_smul_nonneg (k : ℝ) (v : E) (hk : 0 ≤ k) : ‖k • v‖ = k * ‖v‖ := by
  rw [norm_smul, Real.norm_eq_abs, abs_of_nonneg hk]

/-- a point of the normed space, as the code's `Coordinate`: `+`, `-` and `p * k` (scalar multiplication) -/
structure Pt (E : Type) where
  v : E

instance : Add (Pt E) := ⟨fun a b => ⟨a.v + b.v⟩⟩
instance : Sub (Pt E) := ⟨fun a b => ⟨a.v - b.v⟩⟩
instance : HMul (Pt E) ℝ (Pt E) := ⟨fun a k => ⟨k • a.v⟩⟩

/-- `distance_to` -/
noncomputable def dist (a b : Pt E) : ℝ := ‖a.v - b.v‖

@[simp] theorem add_v (a b : Pt E) : (a + b).v = a.v + b.v := rfl
@[simp] theorem sub_v (a b : Pt E) : (a - b).v = a.v - b.v := rfl
@[simp] theorem mul_v (a : Pt E) (k : ℝ) : (a * k).v = k • a.v := rfl

/-- chord ≤ control polygon (triangle inequality) -/
theorem chord_le_polygon (c : T4 (Pt E) (Pt E) (Pt E) (Pt E)) :
    chord_length dist c.t0 c.t1 c.t2 c.t3 ≤ control_polygon_length dist c.t0 c.t1 c.t2 c.t3 := by
  simp only [chord_length, control_polygon_length, dist]
  have : c.t0.v - c.t3.v = (c.t0.v - c.t1.v) + (c.t1.v - c.t2.v) + (c.t2.v - c.t3.v) := by abel
  rw [this]
  exact norm_add₃_le

/-- every accepted piece's estimate lies between its chord and its control polygon -/
theorem piece_bracket (c : T4 (Pt E) (Pt E) (Pt E) (Pt E)) :
    chord_length dist c.t0 c.t1 c.t2 c.t3 ≤ estimate dist c ∧ estimate dist c ≤ control_polygon_length dist c.t0 c.t1 c.t2 c.t3 := by
  have h := chord_le_polygon c
  simp only [estimate]
  have h2 : (2.0 : ℝ) = 2 := by norm_num
  have h4 : (4.0 : ℝ) = 4 := by norm_num
  rw [h2, h4]
  constructor <;> linarith

/-- splitting at 1/2 never lengthens the control polygon and never shortens the sum of the chords -/
theorem halves_shrink (c : T4 (Pt E) (Pt E) (Pt E) (Pt E)) :
    let h := subdivide4 (0.5 : ℝ) c.t0 c.t1 c.t2 c.t3
    control_polygon_length dist h.t0.t0 h.t0.t1 h.t0.t2 h.t0.t3 + control_polygon_length dist h.t1.t0 h.t1.t1 h.t1.t2 h.t1.t3
      ≤ control_polygon_length dist c.t0 c.t1 c.t2 c.t3 ∧
    chord_length dist c.t0 c.t1 c.t2 c.t3
      ≤ chord_length dist h.t0.t0 h.t0.t1 h.t0.t2 h.t0.t3 + chord_length dist h.t1.t0 h.t1.t1 h.t1.t2 h.t1.t3 := by
  obtain ⟨⟨w1⟩, ⟨w2⟩, ⟨w3⟩, ⟨w4⟩⟩ := c
  have hh : (0.5 : ℝ) = 1/2 := by norm_num
  have h1 : (1.0 : ℝ) = 1 := by norm_num
  simp only [subdivide4, de_casteljau2, control_polygon_length, chord_length, dist, hh, h1, add_v, sub_v, mul_v]
  set a := w1 - w2 with ha
  set b := w2 - w3 with hb
  set cc := w3 - w4 with hc
  constructor
  · have e1 : w1 - (((1:ℝ) - 1/2) • w1 + (1/2:ℝ) • w2) = (1/2:ℝ) • a := by simp only [ha]; module
    have e2 : ((1:ℝ) - 1/2) • w1 + (1/2:ℝ) • w2 -
        (((1:ℝ) - 1/2) • (((1:ℝ) - 1/2) • w1 + (1/2:ℝ) • w2) + (1/2:ℝ) • (((1:ℝ) - 1/2) • w2 + (1/2:ℝ) • w3))
        = (1/4:ℝ) • a + (1/4:ℝ) • b := by simp only [ha, hb]; module
    have e3 : ((1:ℝ) - 1/2) • (((1:ℝ) - 1/2) • w1 + (1/2:ℝ) • w2) + (1/2:ℝ) • (((1:ℝ) - 1/2) • w2 + (1/2:ℝ) • w3) -
        (((1:ℝ) - 1/2) • (((1:ℝ) - 1/2) • (((1:ℝ) - 1/2) • w1 + (1/2:ℝ) • w2) + (1/2:ℝ) • (((1:ℝ) - 1/2) • w2 + (1/2:ℝ) • w3)) +
          (1/2:ℝ) • (((1:ℝ) - 1/2) • (((1:ℝ) - 1/2) • w2 + (1/2:ℝ) • w3) + (1/2:ℝ) • (((1:ℝ) - 1/2) • w3 + (1/2:ℝ) • w4)))
        = (1/8:ℝ) • a + (1/4:ℝ) • b + (1/8:ℝ) • cc := by simp only [ha, hb, hc]; module
    have e4 : ((1:ℝ) - 1/2) • (((1:ℝ) - 1/2) • (((1:ℝ) - 1/2) • w1 + (1/2:ℝ) • w2) + (1/2:ℝ) • (((1:ℝ) - 1/2) • w2 + (1/2:ℝ) • w3)) +
          (1/2:ℝ) • (((1:ℝ) - 1/2) • (((1:ℝ) - 1/2) • w2 + (1/2:ℝ) • w3) + (1/2:ℝ) • (((1:ℝ) - 1/2) • w3 + (1/2:ℝ) • w4)) -
        (((1:ℝ) - 1/2) • (((1:ℝ) - 1/2) • w2 + (1/2:ℝ) • w3) + (1/2:ℝ) • (((1:ℝ) - 1/2) • w3 + (1/2:ℝ) • w4))
        = (1/8:ℝ) • a + (1/4:ℝ) • b + (1/8:ℝ) • cc := by simp only [ha, hb, hc]; module
    have e5 : ((1:ℝ) - 1/2) • (((1:ℝ) - 1/2) • w2 + (1/2:ℝ) • w3) + (1/2:ℝ) • (((1:ℝ) - 1/2) • w3 + (1/2:ℝ) • w4) -
        (((1:ℝ) - 1/2) • w3 + (1/2:ℝ) • w4) = (1/4:ℝ) • b + (1/4:ℝ) • cc := by simp only [hb, hc]; module
    have e6 : ((1:ℝ) - 1/2) • w3 + (1/2:ℝ) • w4 - w4 = (1/2:ℝ) • cc := by simp only [hc]; module
    rw [e1, e2, e3, e4, e5, e6]
    have hn := @norm_smul_nonneg E _ _
    have n1 : ‖(1/2:ℝ) • a‖ = 1/2 * ‖a‖ := hn (1/2) a (by norm_num)
    have n6 : ‖(1/2:ℝ) • cc‖ = 1/2 * ‖cc‖ := hn (1/2) cc (by norm_num)
    have n2 : ‖(1/4:ℝ) • a + (1/4:ℝ) • b‖ ≤ 1/4 * ‖a‖ + 1/4 * ‖b‖ := by
      refine (norm_add_le _ _).trans ?_; rw [hn (1/4) a (by norm_num), hn (1/4) b (by norm_num)]
    have n5 : ‖(1/4:ℝ) • b + (1/4:ℝ) • cc‖ ≤ 1/4 * ‖b‖ + 1/4 * ‖cc‖ := by
      refine (norm_add_le _ _).trans ?_; rw [hn (1/4) b (by norm_num), hn (1/4) cc (by norm_num)]
    have n3 : ‖(1/8:ℝ) • a + (1/4:ℝ) • b + (1/8:ℝ) • cc‖ ≤ 1/8 * ‖a‖ + 1/4 * ‖b‖ + 1/8 * ‖cc‖ := by
      refine norm_add₃_le.trans ?_
      rw [hn (1/8) a (by norm_num), hn (1/4) b (by norm_num), hn (1/8) cc (by norm_num)]
    linarith [norm_nonneg a, norm_nonneg b, norm_nonneg cc]
  · exact norm_sub_le_norm_sub_add_norm_sub _ _ _

/-- LENGTH BRACKET: for every curve, tolerance and recursion depth the model's length lies between the chord and
    the control polygon of the curve -/
theorem length_bracket (n : Nat) (c : T4 (Pt E) (Pt E) (Pt E) (Pt E)) (e : ℝ) :
    chord_length dist c.t0 c.t1 c.t2 c.t3 ≤ lengthGo dist n c e ∧ lengthGo dist n c e ≤ control_polygon_length dist c.t0 c.t1 c.t2 c.t3 := by
  induction n generalizing c e with
  | zero => simpa [lengthGo] using piece_bracket c
  | succ k ih =>
    simp only [lengthGo]
    split
    · exact piece_bracket c
    · have hs := halves_shrink c
      simp only at hs
      have hl := ih (subdivide4 (0.5 : ℝ) c.t0 c.t1 c.t2 c.t3).t0 (e / 2.0)
      have hr := ih (subdivide4 (0.5 : ℝ) c.t0 c.t1 c.t2 c.t3).t1 (e / 2.0)
      constructor <;> linarith [hs.1, hs.2, hl.1, hl.2, hr.1, hr.2]

theorem curve_length_bracket (c : T4 (Pt E) (Pt E) (Pt E) (Pt E)) (e : ℝ) :
    chord_length dist c.t0 c.t1 c.t2 c.t3 ≤ curveLength dist c e ∧ curveLength dist c e ≤ control_polygon_length dist c.t0 c.t1 c.t2 c.t3 :=
  length_bracket 64 c e

/-- reversing a curve leaves chord, control polygon and (in exact arithmetic) every level of the recursion unchanged -/
theorem reverse_invariants (c : T4 (Pt E) (Pt E) (Pt E) (Pt E)) :
    let r := curve_reverse c.t0 c.t1 c.t2 c.t3
    chord_length dist r.t0 r.t1 r.t2 r.t3 = chord_length dist c.t0 c.t1 c.t2 c.t3 ∧
    control_polygon_length dist r.t0 r.t1 r.t2 r.t3 = control_polygon_length dist c.t0 c.t1 c.t2 c.t3 := by
  simp only [curve_reverse, chord_length, control_polygon_length, dist]
  constructor
  · exact norm_sub_rev _ _
  · rw [norm_sub_rev c.t3.v c.t2.v, norm_sub_rev c.t2.v c.t1.v, norm_sub_rev c.t1.v c.t0.v]; ring

end C19
