/-
C19  Arc length is bracketed by chord and control polygon.

Everything here is about definitions REGENERATED from the Rust source on every run: `Gen.section_length` /
`Gen.curve_length` (length.rs, the whole `while let Some((section, max_error)) = waiting.pop()` stack loop),
`Gen.section_new / section_subsection / section_start_point / section_control_points / section_end_point` (section.rs),
`Gen.chord_length`, `Gen.control_polygon_length`, `Gen.subdivide4`, `Gen.curve_reverse`.  No hand model.
The loop is an `iterFuel` over the state `(total_length, waiting)`; `LengthL.lengthStep` is its body and
`LengthL.section_length_eq` (proved by `rfl` against the generated text) says that `section_length` is the total
of that loop.  The theorems hold FOR EVERY FUEL, for every tolerance, for points of any real normed space
(1-D, 2-D, 3-D alike), in exact real arithmetic.
-/
import FloVerif.Lemmas.Length

set_option linter.unusedSectionVars false
set_option linter.unusedSimpArgs false
namespace C19
open Prelude Gen LengthL

variable {E : Type} [NormedAddCommGroup E] [NormedSpace ℝ E]

/-! ### one piece -/

/-- chord ≤ control polygon (triangle inequality), for any four points -/
theorem chord_le_polygon (c : T4 (Pt E) (Pt E) (Pt E) (Pt E)) :
    chord_length pdist c.t0 c.t1 c.t2 c.t3 ≤ control_polygon_length pdist c.t0 c.t1 c.t2 c.t3 := by
  simp only [chord_length, control_polygon_length, pdist]
  have : c.t0.v - c.t3.v = (c.t0.v - c.t1.v) + (c.t1.v - c.t2.v) + (c.t2.v - c.t3.v) := by abel
  rw [this]
  exact norm_add₃_le

/-- ACCEPTED PIECE: the value `(2·chord + 2·polygon)/4` that the generated loop adds for an accepted section
    (`step_concat`: that is exactly what one accepting iteration adds) lies between the chord and the control polygon
    of that section - for EVERY section, valid or not -/
theorem piece_bracket (w1 w2 w3 w4 : Pt E) (s : SectionT ℝ) :
    chordOf pdist w1 w2 w3 w4 s ≤ estimateOf pdist w1 w2 w3 w4 s ∧
    estimateOf pdist w1 w2 w3 w4 s ≤ polyOf pdist w1 w2 w3 w4 s := by
  have h := chord_le_polygon (secPts w1 w2 w3 w4 s)
  simp only [estimateOf, lit20, lit40]
  change chordOf pdist w1 w2 w3 w4 s ≤ polyOf pdist w1 w2 w3 w4 s at h
  constructor <;> linarith

/-- non-vacuity: for the 1-D cubic 0, 3, −3, 0 the bracket is `[0, 12]`, the accepted estimate is 6 -/
example : chordOf pdist (⟨0⟩ : Pt ℝ) ⟨3⟩ ⟨-3⟩ ⟨0⟩ (section_new (0.0 : ℝ) (1.0 : ℝ)) = 0 ∧
    estimateOf pdist (⟨0⟩ : Pt ℝ) ⟨3⟩ ⟨-3⟩ ⟨0⟩ (section_new (0.0 : ℝ) (1.0 : ℝ)) = 6 ∧
    polyOf pdist (⟨0⟩ : Pt ℝ) ⟨3⟩ ⟨-3⟩ ⟨0⟩ (section_new (0.0 : ℝ) (1.0 : ℝ)) = 12 := by
  simp only [estimateOf, polyOf_whole, chordOf_whole, ex_poly, ex_chord]; norm_num

/-- splitting four points at 1/2 with the generated `subdivide4` never lengthens the control polygon and never
    shortens the sum of the chords -/
theorem halves_shrink (c : T4 (Pt E) (Pt E) (Pt E) (Pt E)) :
    let h := subdivide4 (0.5 : ℝ) c.t0 c.t1 c.t2 c.t3
    control_polygon_length pdist h.t0.t0 h.t0.t1 h.t0.t2 h.t0.t3 + control_polygon_length pdist h.t1.t0 h.t1.t1 h.t1.t2 h.t1.t3
      ≤ control_polygon_length pdist c.t0 c.t1 c.t2 c.t3 ∧
    chord_length pdist c.t0 c.t1 c.t2 c.t3
      ≤ chord_length pdist h.t0.t0 h.t0.t1 h.t0.t2 h.t0.t3 + chord_length pdist h.t1.t0 h.t1.t1 h.t1.t2 h.t1.t3 := by
  obtain ⟨⟨w1⟩, ⟨w2⟩, ⟨w3⟩, ⟨w4⟩⟩ := c
  have hh : (0.5 : ℝ) = 1/2 := by norm_num
  have h1 : (1.0 : ℝ) = 1 := by norm_num
  simp only [subdivide4, de_casteljau2, control_polygon_length, chord_length, pdist, hh, h1, add_v, sub_v, mul_v]
  set a := w1 - w2 with ha
  set b := w2 - w3 with hb
  set cc := w3 - w4 with hc
  have hn : ∀ (k : ℝ) (v : E), 0 ≤ k → ‖k • v‖ = k * ‖v‖ := fun k v hk => by
    rw [norm_smul, Real.norm_eq_abs, abs_of_nonneg hk]
  constructor
  · have e1 : w1 - (((1:ℝ) - 1/2) • w1 + (1/2:ℝ) • w2) = (1/2:ℝ) • a := by simp only [ha]; module
    have e2 : ((1:ℝ) - 1/2) • w1 + (1/2:ℝ) • w2 -
        (((1:ℝ) - 1/2) • (((1:ℝ) - 1/2) • w1 + (1/2:ℝ) • w2) + (1/2:ℝ) • (((1:ℝ) - 1/2) • w2 + (1/2:ℝ) • w3))
        = (1/4:ℝ) • a + (1/4:ℝ) • b := by simp only [ha, hb]; module
    have e3 : ((1:ℝ) - 1/2) • (((1:ℝ) - 1/2) • w1 + (1/2:ℝ) • w2) + (1/2:ℝ) • (((1:ℝ) - 1/2) • w2 + (1/2:ℝ) • w3) -
        (((1:ℝ) - 1/2) • (((1:ℝ) - 1/2) • (((1:ℝ) - 1/2) • w1 + (1/2:ℝ) • w2) + (1/2:ℝ) • (((1:ℝ) - 1/2) • w2 + (1/2:ℝ) • w3)) +
          (1/2:ℝ) • (((1:ℝ) - 1/2) • (((1:ℝ) - 1/2) • w2 + (1/2:ℝ) • w3) + (1/2:ℝ) • (((1:ℝ) - 1/2) • w3 + (1/2:ℝ) • w4)))
        = (1/8:ℝ) • a + (1/4:ℝ) • b + (1/8:ℝ) • cc := by simp only [ha, hb, hc]; module
    have e4 : ((1:ℝ) - 1/2) • (((1:ℝ) - 1/2) • (((1:ℝ) - 1/2) • w1 + (1/2:ℝ) • w2) + (1/2:ℝ) • (((1:ℝ) - 1/2) • w2 + (1/2:ℝ) • w3)) +
          (1/2:ℝ) • (((1:ℝ) - 1/2) • (((1:ℝ) - 1/2) • w2 + (1/2:ℝ) • w3) + (1/2:ℝ) • (((1:ℝ) - 1/2) • w3 + (1/2:ℝ) • w4)) -
        (((1:ℝ) - 1/2) • (((1:ℝ) - 1/2) • w2 + (1/2:ℝ) • w3) + (1/2:ℝ) • (((1:ℝ) - 1/2) • w3 + (1/2:ℝ) • w4))
        = (1/8:ℝ) • a + (1/4:ℝ) • b + (1/8:ℝ) • cc := by simp only [ha, hb, hc]; module
    have e5 : ((1:ℝ) - 1/2) • (((1:ℝ) - 1/2) • w2 + (1/2:ℝ) • w3) + (1/2:ℝ) • (((1:ℝ) - 1/2) • w3 + (1/2:ℝ) • w4) -
        (((1:ℝ) - 1/2) • w3 + (1/2:ℝ) • w4) = (1/4:ℝ) • b + (1/4:ℝ) • cc := by simp only [hb, hc]; module
    have e6 : ((1:ℝ) - 1/2) • w3 + (1/2:ℝ) • w4 - w4 = (1/2:ℝ) • cc := by simp only [hc]; module
    rw [e1, e2, e3, e4, e5, e6]
    have n1 : ‖(1/2:ℝ) • a‖ = 1/2 * ‖a‖ := hn (1/2) a (by norm_num)
    have n6 : ‖(1/2:ℝ) • cc‖ = 1/2 * ‖cc‖ := hn (1/2) cc (by norm_num)
    have n2 : ‖(1/4:ℝ) • a + (1/4:ℝ) • b‖ ≤ 1/4 * ‖a‖ + 1/4 * ‖b‖ := by
      refine (norm_add_le _ _).trans ?_; rw [hn (1/4) a (by norm_num), hn (1/4) b (by norm_num)]
    have n5 : ‖(1/4:ℝ) • b + (1/4:ℝ) • cc‖ ≤ 1/4 * ‖b‖ + 1/4 * ‖cc‖ := by
      refine (norm_add_le _ _).trans ?_; rw [hn (1/4) b (by norm_num), hn (1/4) cc (by norm_num)]
    have n3 : ‖(1/8:ℝ) • a + (1/4:ℝ) • b + (1/8:ℝ) • cc‖ ≤ 1/8 * ‖a‖ + 1/4 * ‖b‖ + 1/8 * ‖cc‖ := by
      refine norm_add₃_le.trans ?_
      rw [hn (1/8) a (by norm_num), hn (1/4) b (by norm_num), hn (1/8) cc (by norm_num)]
    linarith [norm_nonneg a, norm_nonneg b, norm_nonneg cc]
  · exact norm_sub_le_norm_sub_add_norm_sub _ _ _

/-- SPLIT PIECE, as the loop does it: for every valid section (`t_c < 1`, `0 ≤ t_m`, `t_c + t_m ≤ 1`) the two
    sections `subsection(0, 0.5)`, `subsection(0.5, 1)` pushed by the loop have control polygons summing to at most the
    section's polygon and chords summing to at least its chord (their points are the de Casteljau halves of the
    section's points, `secPts_halves`; then `halves_shrink`) -/
theorem section_halves_shrink (w1 w2 w3 w4 : Pt E) (s : SectionT ℝ) (h : Valid s) :
    polyOf pdist w1 w2 w3 w4 (section_subsection s (0.0 : ℝ) (0.5 : ℝ)) +
      polyOf pdist w1 w2 w3 w4 (section_subsection s (0.5 : ℝ) (1.0 : ℝ)) ≤ polyOf pdist w1 w2 w3 w4 s ∧
    chordOf pdist w1 w2 w3 w4 s ≤ chordOf pdist w1 w2 w3 w4 (section_subsection s (0.0 : ℝ) (0.5 : ℝ)) +
      chordOf pdist w1 w2 w3 w4 (section_subsection s (0.5 : ℝ) (1.0 : ℝ)) := by
  have hs := halves_shrink (secPts w1 w2 w3 w4 s)
  obtain ⟨hl, hr⟩ := secPts_halves w1 w2 w3 w4 s h
  simp only at hs hl hr
  rw [← hl, ← hr] at hs
  exact hs

/-- non-vacuity: the section `[0,1]` that `curve_length` starts with is valid, and so are its halves, and the loop does
    split it for the curve 0, 3, −3, 0 at tolerance 1 (`(12 − 0)² = 144 ≥ 1`) -/
example : Valid (section_new (0.0 : ℝ) (1.0 : ℝ)) ∧
    Valid (section_subsection (section_new (0.0 : ℝ) (1.0 : ℝ)) (0.5 : ℝ) (1.0 : ℝ)) ∧
    ¬ Accept pdist (⟨0⟩ : Pt ℝ) ⟨3⟩ ⟨-3⟩ ⟨0⟩ (section_new (0.0 : ℝ) (1.0 : ℝ)) 1 := by
  refine ⟨valid_whole, valid_right valid_whole, ?_⟩
  simp only [Accept, polyOf_whole, chordOf_whole, ex_poly, ex_chord]; norm_num

/-! ### the loop invariant

`LengthL.Inv w s0 st` (Lemmas/Length.lean): every waiting section is valid, `U = total + Σ_waiting polygon ≤ polygon(s0)`,
`L = total + Σ_waiting chord ≥ chord(s0)`, `total ≥ 0`. -/

/-- EVERY ITERATION PRESERVES THE INVARIANT (accepted piece: `piece_bracket`; split piece: `section_halves_shrink`;
    empty stack: the state is returned unchanged) -/
theorem step_preserves (w1 w2 w3 w4 : Pt E) (s0 : SectionT ℝ) (st r : St) (h : Inv w1 w2 w3 w4 s0 st)
    (hr : lengthStep pdist w1 w2 w3 w4 st = Sum.inl r ∨ lengthStep pdist w1 w2 w3 w4 st = Sum.inr r) :
    Inv w1 w2 w3 w4 s0 r := by
  obtain ⟨total, waiting⟩ := st
  rcases List.eq_nil_or_concat waiting with rfl | ⟨rest, ⟨s, e⟩, rfl⟩
  · rw [step_nil] at hr
    rcases hr with hr | hr
    · exact absurd hr (by simp)
    · rw [← Sum.inr.inj hr]; exact h
  · rw [List.concat_eq_append] at h hr
    classical
    rw [step_concat] at hr
    obtain ⟨hv, hU, hL, h0⟩ := h
    simp only [sumPoly, sumChord, List.map_append, List.sum_append, List.map_cons, List.map_nil, List.sum_cons,
      List.sum_nil, add_zero] at hU hL
    have hvs : Valid s := hv ⟨s, e⟩ (by simp)
    have hvr : ∀ x ∈ rest, Valid x.t0 := fun x hx => hv x (by simp [hx])
    by_cases hacc : Accept pdist w1 w2 w3 w4 s e
    · -- accepted
      simp only [if_pos hacc, reduceCtorEq, or_false, Sum.inl.injEq] at hr
      subst hr
      obtain ⟨hb1, hb2⟩ := piece_bracket w1 w2 w3 w4 s
      refine ⟨hvr, ?_, ?_, ?_⟩
      · simp only [sumPoly]; linarith
      · simp only [sumChord]; linarith
      · simp only at h0 ⊢; linarith [chordOf_nonneg w1 w2 w3 w4 s]
    · -- split
      simp only [if_neg hacc, reduceCtorEq, or_false, Sum.inl.injEq] at hr
      subst hr
      obtain ⟨hs1, hs2⟩ := section_halves_shrink w1 w2 w3 w4 s hvs
      refine ⟨?_, ?_, ?_, h0⟩
      · intro x hx
        simp only [List.mem_append, List.mem_singleton] at hx
        rcases hx with (hx | rfl) | rfl
        · exact hvr x hx
        · exact valid_left hvs
        · exact valid_right hvs
      · simp only [sumPoly, List.map_append, List.sum_append, List.map_cons, List.map_nil, List.sum_cons,
          List.sum_nil, add_zero]; linarith
      · simp only [sumChord, List.map_append, List.sum_append, List.map_cons, List.map_nil, List.sum_cons,
          List.sum_nil, add_zero]; linarith

/-- LOOP INVARIANT of the generated loop: for every valid start section, every tolerance and EVERY FUEL, the state
    in which the loop ends - whichever way it ends - satisfies the invariant (by `iterFuel_invariant`) -/
theorem loop_invariant (fuel : Nat) (w1 w2 w3 w4 : Pt E) (s0 : SectionT ℝ) (e : ℝ) (h : Valid s0) :
    Inv w1 w2 w3 w4 s0 (lengthLoop fuel pdist w1 w2 w3 w4 s0 e) := by
  refine iterFuel_invariant (Inv w1 w2 w3 w4 s0) (Inv w1 w2 w3 w4 s0) _ _
    (fun st r hs hr => step_preserves w1 w2 w3 w4 s0 st r hs (Or.inl hr))
    (fun st r hs hr => step_preserves w1 w2 w3 w4 s0 st r hs (Or.inr hr)) (fun _ hs => hs) fuel _ ?_
  refine ⟨?_, ?_, ?_, ?_⟩
  · intro x hx; simp only [List.mem_singleton] at hx; subst hx; exact h
  · simp [sumPoly, lit00]
  · simp [sumChord, lit00]
  · simp [lit00]

/-! ### consequences for `section_length` and `curve_length` -/

/-- UPPER BOUND, EVEN OUT OF FUEL: for every valid section, tolerance and fuel,
    `0 ≤ section_length ≤ control polygon of the section` -/
theorem section_length_le_polygon (fuel : Nat) (w1 w2 w3 w4 : Pt E) (s : SectionT ℝ) (e : ℝ) (h : Valid s) :
    0 ≤ section_length fuel pdist w1 w2 w3 w4 s e ∧
    section_length fuel pdist w1 w2 w3 w4 s e ≤ polyOf pdist w1 w2 w3 w4 s := by
  rw [section_length_eq]
  obtain ⟨_, hU, _, h0⟩ := loop_invariant fuel w1 w2 w3 w4 s e h
  exact ⟨h0, by linarith [sumPoly_nonneg w1 w2 w3 w4 (lengthLoop fuel pdist w1 w2 w3 w4 s e).t1]⟩

/-- BRACKET WHEN THE STACK WAS EMPTIED: if the loop ended with an empty stack (i.e. not because the fuel ran out)
    then `chord ≤ section_length ≤ polygon` -/
theorem section_length_bracket (fuel : Nat) (w1 w2 w3 w4 : Pt E) (s : SectionT ℝ) (e : ℝ) (h : Valid s)
    (hdone : (lengthLoop fuel pdist w1 w2 w3 w4 s e).t1 = []) :
    chordOf pdist w1 w2 w3 w4 s ≤ section_length fuel pdist w1 w2 w3 w4 s e ∧
    section_length fuel pdist w1 w2 w3 w4 s e ≤ polyOf pdist w1 w2 w3 w4 s := by
  refine ⟨?_, (section_length_le_polygon fuel w1 w2 w3 w4 s e h).2⟩
  rw [section_length_eq]
  obtain ⟨_, _, hL, _⟩ := loop_invariant fuel w1 w2 w3 w4 s e h
  rw [hdone] at hL
  simpa [sumChord] using hL

/-- `curve_length` NEVER EXCEEDS THE CONTROL POLYGON: for every curve, every tolerance and every fuel (also when the
    fuel ran out) `0 ≤ curve_length ≤ control_polygon_length` -/
theorem curve_length_le_polygon (fuel : Nat) (w1 w2 w3 w4 : Pt E) (e : ℝ) :
    0 ≤ curve_length fuel pdist w1 w2 w3 w4 e ∧
    curve_length fuel pdist w1 w2 w3 w4 e ≤ control_polygon_length pdist w1 w2 w3 w4 := by
  have h := section_length_le_polygon fuel w1 w2 w3 w4 _ e valid_whole
  rw [polyOf_whole] at h
  exact h

/-- LENGTH BRACKET: if the loop of `curve_length` ended because its stack was empty then
    `chord_length ≤ curve_length ≤ control_polygon_length` -/
theorem curve_length_bracket (fuel : Nat) (w1 w2 w3 w4 : Pt E) (e : ℝ)
    (hdone : (lengthLoop fuel pdist w1 w2 w3 w4 (section_new (0.0 : ℝ) (1.0 : ℝ)) e).t1 = []) :
    chord_length pdist w1 w2 w3 w4 ≤ curve_length fuel pdist w1 w2 w3 w4 e ∧
    curve_length fuel pdist w1 w2 w3 w4 e ≤ control_polygon_length pdist w1 w2 w3 w4 := by
  have h := section_length_bracket fuel w1 w2 w3 w4 _ e valid_whole hdone
  rw [polyOf_whole, chordOf_whole] at h
  exact h

/-- non-vacuity of `hdone`, and the value: at tolerance 1000 the curve 0, 3, −3, 0 is accepted at once; the loop ends
    with an empty stack and `curve_length = 6 ∈ [0, 12]` -/
example : curve_length 5 pdist (⟨0⟩ : Pt ℝ) ⟨3⟩ ⟨-3⟩ ⟨0⟩ 1000 = 6 ∧
    (lengthLoop 5 pdist (⟨0⟩ : Pt ℝ) ⟨3⟩ ⟨-3⟩ ⟨0⟩ (section_new (0.0 : ℝ) (1.0 : ℝ)) 1000).t1 = [] := by
  have hacc : Accept pdist (⟨0⟩ : Pt ℝ) ⟨3⟩ ⟨-3⟩ ⟨0⟩ (section_new (0.0 : ℝ) (1.0 : ℝ)) 1000 := by
    left; simp only [polyOf_whole, chordOf_whole, ex_poly, ex_chord]; norm_num
  have hrun : lengthLoop 5 pdist (⟨0⟩ : Pt ℝ) ⟨3⟩ ⟨-3⟩ ⟨0⟩ (section_new (0.0 : ℝ) (1.0 : ℝ)) 1000 = T2.mk 6 [] := by
    classical
    show iterFuel (4 + 1) _ _ (T2.mk (0.0 : ℝ) ([] ++ [_])) = _
    rw [iterFuel_succ_inl _ _ 4 _ _ (by rw [step_concat, if_pos hacc]), iterFuel_nil]
    simp only [estimateOf, polyOf_whole, chordOf_whole, ex_poly, ex_chord]
    norm_num
  constructor
  · show section_length 5 _ _ _ _ _ _ _ = 6
    rw [section_length_eq, hrun]
  · rw [hrun]

/-- the hypothesis `hdone` of the lower bound cannot be dropped: with fuel 0 the loop returns 0, below the chord 3 of
    the straight curve 0, 1, 2, 3 (the upper bound `curve_length_le_polygon` still holds) -/
example (e : ℝ) : curve_length 0 pdist (⟨0⟩ : Pt ℝ) ⟨1⟩ ⟨2⟩ ⟨3⟩ e = 0 ∧
    chord_length pdist (⟨0⟩ : Pt ℝ) ⟨1⟩ ⟨2⟩ ⟨3⟩ = 3 := by
  constructor
  · show section_length 0 _ _ _ _ _ _ _ = 0
    rw [section_length_eq]; simp [lengthLoop, iterFuel, lit00]
  · simp only [chord_length, pdist, Real.norm_eq_abs]; norm_num

/-! ### termination, work and depth (any point type, any distance function: only the tolerances matter) -/

section work
variable {P : Type} [Add P] [Sub P] [HMul P ℝ P]

/-- A STATED FUEL SUFFICES: if `max_error ≤ MIN_ERROR · 2^D` (i.e. `D ≥ log2(max_error / 1e-12)`) then `2^(D+1) − 1`
    iterations empty the stack: with at least that much fuel the generated loop ends because `waiting.pop()` returned
    `None`, never because the fuel ran out. (Potential: `work(waiting) = Σ (2^(lvl e + 1) − 1)` strictly decreases in
    every iteration, `step_work`, and is `2^(lvl max_error + 1) − 1 ≤ 2^(D+1) − 1` at the start.) For a non-positive
    tolerance `D = 0`: one iteration. -/
theorem fuel_suffices (fuel D : Nat) (dist : P → P → ℝ) (w1 w2 w3 w4 : P) (s : SectionT ℝ) (e : ℝ)
    (hD : e ≤ (1e-12 : ℝ) * 2 ^ D) (hf : 2 ^ (D + 1) - 1 ≤ fuel) :
    (lengthLoop fuel dist w1 w2 w3 w4 s e).t1 = [] := by
  refine iterFuel_measure (fun _ => True) (fun st : St => work st.t1) (fun r : St => r.t1 = []) _ _
    (fun st st' _ h => ⟨trivial, step_work dist w1 w2 w3 w4 st st' h⟩)
    (fun st r _ h => by obtain ⟨h1, h2⟩ := step_exit dist w1 w2 w3 w4 st r h; rw [h1]; exact h2)
    (fun st _ h => work_eq_zero h) fuel _ trivial ?_
  rw [work_single]
  have h1 : lvl e ≤ D := lvl_le hD
  have h2 : 2 ^ (lvl e + 1) ≤ 2 ^ (D + 1) := Nat.pow_le_pow_right (by norm_num) (by omega)
  simp only
  omega

/-- WORK BOUND: the loop performs at most `2^(D+1) − 1` iterations - any larger fuel gives the very same final state
    (total and empty stack), so the result of `section_length` does not depend on the fuel beyond that number -/
theorem fuel_independent (fuel D : Nat) (dist : P → P → ℝ) (w1 w2 w3 w4 : P) (s : SectionT ℝ) (e : ℝ)
    (hD : e ≤ (1e-12 : ℝ) * 2 ^ D) (hf : 2 ^ (D + 1) - 1 ≤ fuel) :
    lengthLoop fuel dist w1 w2 w3 w4 s e = lengthLoop (2 ^ (D + 1) - 1) dist w1 w2 w3 w4 s e ∧
    section_length fuel dist w1 w2 w3 w4 s e = section_length (2 ^ (D + 1) - 1) dist w1 w2 w3 w4 s e := by
  have hN := fuel_suffices (2 ^ (D + 1) - 1) D dist w1 w2 w3 w4 s e hD le_rfl
  have hst : lengthStep dist w1 w2 w3 w4 (lengthLoop (2 ^ (D + 1) - 1) dist w1 w2 w3 w4 s e)
      = Sum.inr (lengthLoop (2 ^ (D + 1) - 1) dist w1 w2 w3 w4 s e) := by
    generalize lengthLoop (2 ^ (D + 1) - 1) dist w1 w2 w3 w4 s e = st at hN
    obtain ⟨t, l⟩ := st
    simp only at hN; subst hN
    exact step_nil dist w1 w2 w3 w4 t
  have h := iterFuel_stable (lengthStep dist w1 w2 w3 w4) (2 ^ (D + 1) - 1) _ hst (fuel - (2 ^ (D + 1) - 1))
  have e1 : 2 ^ (D + 1) - 1 + (fuel - (2 ^ (D + 1) - 1)) = fuel := by omega
  rw [e1] at h
  have h' : lengthLoop fuel dist w1 w2 w3 w4 s e = lengthLoop (2 ^ (D + 1) - 1) dist w1 w2 w3 w4 s e := h
  exact ⟨h', by rw [section_length_eq, section_length_eq, h']⟩

/-- DEPTH BOUND: at every moment (= for every fuel) every piece on the stack is at some depth `d ≤ D`: its tolerance
    is exactly `max_error / 2^d` and its parameter width exactly `t_m / 2^d`. So the recursion never goes deeper than
    `D = ⌈log2(max_error / 1e-12)⌉` levels, whatever the curve and the distance function do. -/
theorem depth_bound (fuel D : Nat) (dist : P → P → ℝ) (w1 w2 w3 w4 : P) (s : SectionT ℝ) (e : ℝ)
    (hD : e ≤ (1e-12 : ℝ) * 2 ^ D) :
    ∀ x ∈ (lengthLoop fuel dist w1 w2 w3 w4 s e).t1,
      ∃ d : Nat, d ≤ D ∧ x.t1 = e / 2 ^ d ∧ x.t0.t_m = s.t_m / 2 ^ d := by
  let I : St → Prop := fun st => ∀ x ∈ st.t1, ∃ d : Nat, d ≤ D ∧ x.t1 = e / 2 ^ d ∧ x.t0.t_m = s.t_m / 2 ^ d
  refine iterFuel_invariant I I _ _ ?_ ?_ (fun _ hs => hs) fuel _ ?_
  · intro st st' hI hst
    obtain ⟨total, waiting⟩ := st
    rcases List.eq_nil_or_concat waiting with rfl | ⟨rest, ⟨s1, e1⟩, rfl⟩
    · rw [step_nil] at hst; exact absurd hst (by simp)
    · rw [List.concat_eq_append] at hI hst
      classical
      rw [step_concat] at hst
      have hrest : ∀ x ∈ rest, ∃ d : Nat, d ≤ D ∧ x.t1 = e / 2 ^ d ∧ x.t0.t_m = s.t_m / 2 ^ d :=
        fun x hx => hI x (by simp [hx])
      by_cases hacc : Accept dist w1 w2 w3 w4 s1 e1
      · simp only [if_pos hacc, Sum.inl.injEq] at hst
        subst hst
        exact hrest
      · simp only [if_neg hacc, Sum.inl.injEq] at hst
        subst hst
        obtain ⟨d, hd, he1, hm1⟩ := hI ⟨s1, e1⟩ (by simp)
        simp only at he1 hm1
        have hne : ¬ e1 ≤ (1e-12 : ℝ) := fun hle => hacc (Or.inr hle)
        have hpos : (0 : ℝ) < 2 ^ d := by positivity
        have hdD : d < D := by
          by_contra hge
          have hdd : d = D := by omega
          subst hdd
          apply hne
          rw [he1, div_le_iff₀ hpos]
          exact hD
        have hchild : ∀ t : SectionT ℝ, t.t_m = s1.t_m / 2 →
            ∃ d' : Nat, d' ≤ D ∧ e1 / (2.0 : ℝ) = e / 2 ^ d' ∧ t.t_m = s.t_m / 2 ^ d' := by
          intro t ht
          refine ⟨d + 1, hdD, ?_, ?_⟩
          · rw [he1, lit20, pow_succ]; field_simp
          · rw [ht, hm1, pow_succ]; field_simp
        intro x hx
        simp only [List.mem_append, List.mem_singleton] at hx
        rcases hx with (hx | rfl) | rfl
        · exact hrest x hx
        · exact hchild _ (by rw [sub_left_eq])
        · exact hchild _ (by rw [sub_right_eq])
  · intro st r hI hst
    obtain ⟨h1, _⟩ := step_exit dist w1 w2 w3 w4 st r hst
    rw [h1]; exact hI
  · intro x hx
    simp only [List.mem_singleton] at hx
    subst hx
    exact ⟨0, Nat.zero_le _, by simp, by simp⟩

/-- STACK BOUND: at every moment (= for every fuel) the stack holds at most `D + 1` pieces (`e ≤ 1e-12 · 2^D`): the
    piece at height `i` has tolerance at most `e / 2^i`, and a piece that is split has tolerance above `1e-12`. So the
    `Vec` never grows beyond 35 / 28 / 15 entries for `e = 1e-2 / 1e-4 / 1e-8`, whatever the curve. -/
theorem stack_bound (fuel D : Nat) (dist : P → P → ℝ) (w1 w2 w3 w4 : P) (s : SectionT ℝ) (e : ℝ)
    (hD : e ≤ (1e-12 : ℝ) * 2 ^ D) :
    (lengthLoop fuel dist w1 w2 w3 w4 s e).t1.length ≤ D + 1 := by
  let I : St → Prop := fun st => TolOK e 0 st.t1 ∧ st.t1.length ≤ D + 1
  refine (iterFuel_invariant I I _ _ ?_ ?_ (fun _ hs => hs) fuel _ ?_).2
  · intro st st' hI hst
    obtain ⟨total, waiting⟩ := st
    rcases List.eq_nil_or_concat waiting with rfl | ⟨rest, ⟨s1, e1⟩, rfl⟩
    · rw [step_nil] at hst; exact absurd hst (by simp)
    · rw [List.concat_eq_append] at hI hst
      classical
      rw [step_concat] at hst
      obtain ⟨hT, hlen⟩ := hI
      simp only [tolOK_append, TolOK, Nat.zero_add, and_true, List.length_append, List.length_cons,
        List.length_nil] at hT hlen
      obtain ⟨hTr, hTe⟩ := hT
      by_cases hacc : Accept dist w1 w2 w3 w4 s1 e1
      · simp only [if_pos hacc, Sum.inl.injEq] at hst
        subst hst
        exact ⟨hTr, by simp only; omega⟩
      · simp only [if_neg hacc, Sum.inl.injEq] at hst
        subst hst
        have hne : (1e-12 : ℝ) < e1 := not_le.1 (fun hle => hacc (Or.inr hle))
        have hpos : (0 : ℝ) < 2 ^ rest.length := by positivity
        have hmin : (0 : ℝ) < 1e-12 := by norm_num
        -- the split piece sits at height `rest.length < D`
        have hk : rest.length < D := by
          by_contra hge
          have hle : (2 : ℝ) ^ D ≤ 2 ^ rest.length := pow_le_pow_right₀ (by norm_num) (by omega)
          have h1 : e1 * 2 ^ rest.length ≤ e := (le_div_iff₀ hpos).1 hTe
          nlinarith
        refine ⟨?_, ?_⟩
        · simp only [tolOK_append, TolOK, Nat.zero_add, and_true, List.length_append, List.length_cons,
            List.length_nil, lit20]
          refine ⟨⟨hTr, ?_⟩, ?_⟩
          · linarith
          · rw [pow_succ, ← div_div]; linarith
        · simp only [List.length_append, List.length_cons, List.length_nil]; omega
  · intro st r hI hst
    obtain ⟨h1, _⟩ := step_exit dist w1 w2 w3 w4 st r hst
    rw [h1]; exact hI
  · exact ⟨by simp [TolOK], by simp⟩

/-- THE STACK LOOP IS THE RECURSION (any point type, any distance function): with `e ≤ 1e-12 · 2^D` and fuel
    `≥ 2^(D+1) − 1` the generated `section_length` returns exactly the recursive sum `recLen D s e` - accept the piece
    and take `(2·chord + 2·polygon)/4`, or add the two halves at half the tolerance (Graphics Gems V IV.7). The former
    hand model of the loop is now a theorem about the generated loop (`loop_runs_rec`: a piece on top of the stack is
    consumed in at most `2^(n+1) − 1` iterations, leaves the rest of the stack untouched and adds exactly its
    recursive sum). -/
theorem loop_is_recursion (fuel D : Nat) (dist : P → P → ℝ) (w1 w2 w3 w4 : P) (s : SectionT ℝ) (e : ℝ)
    (hD : e ≤ (1e-12 : ℝ) * 2 ^ D) (hf : 2 ^ (D + 1) - 1 ≤ fuel) :
    section_length fuel dist w1 w2 w3 w4 s e = recLen dist w1 w2 w3 w4 D s e :=
  section_length_eq_rec fuel D dist w1 w2 w3 w4 s e hD hf

end work

/-- BRACKET WITH A STATED FUEL: for every curve and every tolerance `e ≤ 1e-12 · 2^D`, any fuel `≥ 2^(D+1) − 1` gives
    `chord_length ≤ curve_length ≤ control_polygon_length` (and the same value as any other such fuel) -/
theorem curve_length_bracket_of_fuel (fuel D : Nat) (w1 w2 w3 w4 : Pt E) (e : ℝ)
    (hD : e ≤ (1e-12 : ℝ) * 2 ^ D) (hf : 2 ^ (D + 1) - 1 ≤ fuel) :
    chord_length pdist w1 w2 w3 w4 ≤ curve_length fuel pdist w1 w2 w3 w4 e ∧
    curve_length fuel pdist w1 w2 w3 w4 e ≤ control_polygon_length pdist w1 w2 w3 w4 :=
  curve_length_bracket fuel w1 w2 w3 w4 e (fuel_suffices fuel D pdist w1 w2 w3 w4 _ e hD hf)

/-- the tolerances of the property: `1e-2`, `1e-4`, `1e-8` are below `1e-12 · 2^34`, `2^27`, `2^14`: depth at most
    34 / 27 / 14, at most 35 / 28 / 15 stack entries and at most `2^35 − 1` / `2^28 − 1` / `2^15 − 1` iterations -/
example : (1e-2 : ℝ) ≤ 1e-12 * 2 ^ 34 ∧ (1e-4 : ℝ) ≤ 1e-12 * 2 ^ 27 ∧ (1e-8 : ℝ) ≤ 1e-12 * 2 ^ 14 := by
  norm_num

/-- reversing a curve leaves its chord and its control polygon unchanged -/
theorem reverse_invariants (c : T4 (Pt E) (Pt E) (Pt E) (Pt E)) :
    let r := curve_reverse c.t0 c.t1 c.t2 c.t3
    chord_length pdist r.t0 r.t1 r.t2 r.t3 = chord_length pdist c.t0 c.t1 c.t2 c.t3 ∧
    control_polygon_length pdist r.t0 r.t1 r.t2 r.t3 = control_polygon_length pdist c.t0 c.t1 c.t2 c.t3 := by
  simp only [curve_reverse, chord_length, control_polygon_length, pdist]
  constructor
  · exact norm_sub_rev _ _
  · rw [norm_sub_rev c.t3.v c.t2.v, norm_sub_rev c.t2.v c.t1.v, norm_sub_rev c.t1.v c.t0.v]; ring

/-- REVERSAL INVARIANCE OF THE LENGTH (exact arithmetic): with fuel `≥ 2^(D+1) − 1` (`e ≤ 1e-12 · 2^D`)
    `curve_length` of the reversed curve equals `curve_length` of the curve: every section of the reversed curve is the
    mirrored section of the curve with the same chord and polygon, so the same pieces are accepted and the two halves
    just swap (`recLen_reverse`); the loop computes that recursion (`loop_is_recursion`). -/
theorem curve_length_reverse (fuel D : Nat) (w1 w2 w3 w4 : Pt E) (e : ℝ)
    (hD : e ≤ (1e-12 : ℝ) * 2 ^ D) (hf : 2 ^ (D + 1) - 1 ≤ fuel) :
    let r := curve_reverse w1 w2 w3 w4
    curve_length fuel pdist r.t0 r.t1 r.t2 r.t3 e = curve_length fuel pdist w1 w2 w3 w4 e := by
  simp only [curve_reverse, curve_length]
  rw [loop_is_recursion fuel D pdist w4 w3 w2 w1 _ e hD hf, loop_is_recursion fuel D pdist w1 w2 w3 w4 _ e hD hf,
    recLen_reverse w1 w2 w3 w4 D _ e inner_whole, mirror_whole]

end C19
