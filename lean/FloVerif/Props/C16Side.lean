/-
C16 (the same-side test)  Which two hits at a joint count as ONE crossing.

`Gen.points_are_same_side_horiz` is regenerated from path_contour.rs on every check.  `remove_duplicate_intercepts` drops the second of
two neighbouring hits at a joint when this test answers `true` (`C16.remove_duplicates_licensed`).  What the test has to mean
geometrically: the boundary runs through the row in the same vertical direction before and after the joint, i.e. the derivative of
the FIRST curve's y polynomial at the FIRST hit's parameter and the derivative of the SECOND curve's y polynomial at the SECOND hit's
parameter have the same sign (or one of them vanishes).  The specification below is written in terms of the polynomial derivative
`yDeriv`, not of the code's helper functions, so evaluating a tangent at the wrong hit's parameter or on the wrong curve breaks it.
-/
import FloVerif.Props.C16

set_option linter.unusedSectionVars false
namespace C16Side
open Prelude Gen

variable {K : Type} [Field K] [LinearOrder K] [IsStrictOrderedRing K] [Inhabited K] [FSqrt K] [FSignum K]

/-- the derivative of the cubic with Bernstein coefficients `c` at `t` -/
def yDeriv (c : T4 K K K K) (t : K) : K :=
  3 * (c.t1 - c.t0) * (1 - t) ^ 2 + 6 * (c.t2 - c.t1) * t * (1 - t) + 3 * (c.t3 - c.t2) * t ^ 2

/-- `yDeriv` IS the derivative: the cubic's value at `t + h` is its value at `t` plus `h * yDeriv c t` plus terms of order `h²` -/
theorem yDeriv_is_derivative (c : T4 K K K K) (t h : K) :
    de_casteljau4 (t + h) c.t0 c.t1 c.t2 c.t3 =
      de_casteljau4 t c.t0 c.t1 c.t2 c.t3 + h * yDeriv c t +
        h ^ 2 * (3 * (c.t2 - 2 * c.t1 + c.t0) * (1 - t) + 3 * (c.t3 - 2 * c.t2 + c.t1) * t + h * (c.t3 - 3 * c.t2 + 3 * c.t1 - c.t0)) := by
  have h1 : (1.0 : K) = 1 := by norm_num
  simp only [de_casteljau4, de_casteljau3, de_casteljau2, yDeriv, h1]
  ring

/-- THE SAME-SIDE TEST COMPARES THE RIGHT TANGENTS: for every curve table and every two hits, the generated test answers `true`
    exactly when the y-derivative of the first hit's curve AT THE FIRST HIT'S PARAMETER and the y-derivative of the second hit's curve
    AT THE SECOND HIT'S PARAMETER have the same `signum`, or one of the two derivatives is zero -/
theorem same_side_spec (curves : List (T3 (T4 K K K K) (T4 K K K K) (T2 (V2 K) (V2 K)))) (prev next : InterceptT K) :
    points_are_same_side_horiz curves prev next = true ↔
      (fsignum (yDeriv (listGet curves prev.curve_idx).t1 prev.t) = (fsignum (yDeriv (listGet curves next.curve_idx).t1 next.t) : K) ∨
        yDeriv (listGet curves prev.curve_idx).t1 prev.t = 0 ∨ yDeriv (listGet curves next.curve_idx).t1 next.t = 0) := by
  have h0 : (0.0 : K) = 0 := by norm_num
  have h1 : (1.0 : K) = 1 := by norm_num
  have h3 : (3.0 : K) = 3 := by norm_num
  have hd : ∀ (c : T4 K K K K) (t : K),
      de_casteljau3 t (derivative4_1d c.t0 c.t1 c.t2 c.t3).t0 (derivative4_1d c.t0 c.t1 c.t2 c.t3).t1
        (derivative4_1d c.t0 c.t1 c.t2 c.t3).t2 = yDeriv c t := by
    intro c t
    simp only [de_casteljau3, de_casteljau2, derivative4_1d, yDeriv, h1, h3]
    ring
  simp only [points_are_same_side_horiz, hd, h0, Bool.or_eq_true, beq_iff_eq, or_assoc]

/-- non-vacuity: the rising line 0,1,2,3 and the falling line 3,2,1,0 are on different sides; two rising ones on the same side -/
example : let tbl : List (T3 (T4 ℚ ℚ ℚ ℚ) (T4 ℚ ℚ ℚ ℚ) (T2 (V2 ℚ) (V2 ℚ))) :=
      [T3.mk (T4.mk 0 1 2 3) (T4.mk 0 1 2 3) (T2.mk ⟨0, 0⟩ ⟨3, 3⟩), T3.mk (T4.mk 3 4 5 6) (T4.mk 3 2 1 0) (T2.mk ⟨3, 0⟩ ⟨6, 3⟩)]
    yDeriv (listGet tbl 0).t1 (1 : ℚ) = 3 ∧ yDeriv (listGet tbl 1).t1 (0 : ℚ) = -3 := by
  simp [yDeriv, listGet]
  norm_num

end C16Side
