import FloVerif.Gen.Ray
/-!
Hand-written model of the parts of `ray_collisions` (src/bezier/path/ray.rs) that are outside the translator's
subset: the bookkeeping loop of `crossing_and_collinear_collisions` (ray.rs:317-396), the stateful closure of
`filter_collisions_near_vertices` (ray.rs:555-637), the composition of the iterator pipeline and the final
`sort_by` (ray.rs:702-777).  Everything these call - the side test, the collinearity test, `crossing_edges`, the
collinear-section filters, the start/end/glancing tests, the tangent filter, the intersection flags, the sort
comparator, and the `RayPath` implementation of `GraphPath` - is GENERATED (`Gen.Ray`), not written here.

`curve_intersects_ray` (C04) is a parameter `cir`: `cir e` stands for `curve_intersects_ray(&path.get_edge(e), ray)`.
Mathlib-free, executable: the driver runs it at `Float` against the real `GraphPath::ray_collisions`.
-/
namespace Model.Ray
open Prelude Gen

variable {K : Type} [Add K] [Sub K] [Mul K] [Div K] [Neg K] [LT K] [LE K] [DecidableLT K] [DecidableLE K] [BEq K]
  [OfScientific K] [Inhabited K] [FAbs K] [FSqrt K] [FConsts K] [OfInt K] [FSignum K]

/-- the four control points of a `GraphEdge` through its `BezierCurve` implementation (generated accessors) -/
def curveOf (e : GraphEdgeM K) : Curve4 K :=
  T4.mk (ge_start_point e) (ge_control_points e).t0 (ge_control_points e).t1 (ge_end_point e)

/-- `impl RayPath for &GraphPath` (graph_path/ray_collision.rs:55-126): every method is the generated one -/
def rayPathOf (g : GraphPathM K) : RayPathI K where
  num_points := gp_num_points g
  num_edges := gp_num_edges g
  reverse_edges_for_point := gp_reverse_edges_for_point g
  edges_for_point := gp_edges_for_point g
  get_edge := fun e => curveOf (gp_get_edge g e)
  get_next_edge := fun e => let r := gp_get_next_edge g e; T2.mk r.t0 (curveOf r.t1)
  point_position := gp_point_position g
  edge_start_point_idx := gp_edge_start_point_idx g
  edge_end_point_idx := gp_edge_end_point_idx g
  edge_following_edge_idx := gp_edge_following_edge_idx g

/-- the edge references in the order of the two nested `for` loops of ray.rs:331-333 -/
def allEdgeRefs (path : RayPathI K) : List EdgeRef :=
  (List.range path.num_points).flatMap fun point_idx =>
    (List.range (path.num_edges point_idx)).map fun edge_idx => { start_idx := point_idx, edge_idx := edge_idx, reverse := false }

/-- the mutable state of the loop of `crossing_and_collinear_collisions` -/
structure CCState (K : Type) where
  raw : List (Hit K)
  section_with_point : Option (List (Option Nat))
  collinear_sections : List (List Nat)

/-- one edge of the loop (ray.rs:333-377) -/
def ccStep (path : RayPathI K) (ray_coeffs : T3 K K K) (cir : EdgeRef → List (T3 K K (V2 K))) (st : CCState K) (edge_ref : EdgeRef) :
    CCState K :=
  let edge := path.get_edge edge_ref
  match ray_can_intersect edge ray_coeffs with
  | .CrossesRay =>
    { st with raw := st.raw ++ (cir edge_ref).map fun h => T4.mk edge_ref h.t0 h.t1 h.t2 }
  | .Collinear =>
    -- `section_with_point.get_or_insert_with(|| vec![None; path.num_points()])`
    let swp := st.section_with_point.getD (List.replicate path.num_points none)
    let start_idx := path.edge_start_point_idx edge_ref
    let end_idx := path.edge_end_point_idx edge_ref
    match listGet swp start_idx with
    | some start_section =>
      match listGet swp end_idx with
      | some _ => { st with section_with_point := some swp }
      | none => { st with section_with_point := some swp, collinear_sections := st.collinear_sections.modify start_section (· ++ [end_idx]) }
    | none =>
      match listGet swp end_idx with
      | some end_section =>
        { st with section_with_point := some swp, collinear_sections := st.collinear_sections.modify end_section (· ++ [start_idx]) }
      | none =>
        let new_section := st.collinear_sections.length
        { st with section_with_point := some ((swp.set start_idx (some new_section)).set end_idx (some new_section)),
                  collinear_sections := st.collinear_sections ++ [[start_idx, end_idx]] }
  | .WrongSide => st

/-- `crossing_and_collinear_collisions` (ray.rs:317-396): `(raw_collisions, collinear_collisions)` -/
def crossing_and_collinear_collisions (path : RayPathI K) (ray : T2 (V2 K) (V2 K)) (cir : EdgeRef → List (T3 K K (V2 K))) :
    T2 (List (Hit K)) (List (Hit K)) :=
  let ray_coeffs := line_coefficients_2d ray
  let st := (allEdgeRefs path).foldl (ccStep path ray_coeffs cir) { raw := [], section_with_point := none, collinear_sections := [] }
  let collinear := st.collinear_sections.flatMap fun collinear_edge_points =>
    (crossing_edges path ray_coeffs collinear_edge_points).map fun crossing_edge =>
      let point := path.edge_start_point_idx crossing_edge
      let point := path.point_position point
      let line_t := line_pos_for_point ray point
      T4.mk crossing_edge (0.0 : K) line_t point
  T2.mk st.raw collinear

/-- one item of the `filter_map` of `filter_collisions_near_vertices` (ray.rs:563-636).  `visited` is `visited_start`
    (allocated eagerly; `None` entries are empty lists).  The `expect` of ray.rs:575 is a panic site: the model takes the
    collision's own edge instead (never reached on graphs whose `connected_from` lists are consistent). -/
def nearVertexStep (path : RayPathI K) (coeffs : T3 K K K) (cir : EdgeRef → List (T3 K K (V2 K)))
    (visited : List (List Nat)) (h : Hit K) : List (List Nat) × Option (Hit K) :=
  let edge := h.t0
  let curve_t := h.t1
  let line_t := h.t2
  let position := h.t3
  let is_at_start := collision_is_at_start path edge curve_t position
  let is_at_end := !is_at_start && collision_is_at_end path edge curve_t position
  if is_at_start || is_at_end then
    let pf : EdgeRef × EdgeRef :=
      if is_at_start then
        let previous_edge := ((path.reverse_edges_for_point edge.start_idx).map EdgeRef.reversed).find?
          fun previous_edge => path.edge_following_edge_idx previous_edge == edge.edge_idx
        (previous_edge.getD edge, edge)
      else
        (edge, (path.get_next_edge edge).t0)
    let preceding_edge := pf.1
    let following_edge := pf.2
    if edges_are_glancing path coeffs preceding_edge following_edge then
      let both_glancing :=
        if is_at_start then
          (cir preceding_edge).any fun c => collision_is_at_end path preceding_edge c.t0 c.t2
        else
          (cir following_edge).any fun c => collision_is_at_start path following_edge c.t0 c.t2
      if both_glancing then (visited, none) else (visited, some h)
    else
      let was_visited := (listGet visited following_edge.start_idx).contains following_edge.edge_idx
      let visited := if !was_visited then visited.modify following_edge.start_idx (· ++ [following_edge.edge_idx]) else visited
      if !was_visited then (visited, some (T4.mk following_edge (0.0 : K) line_t position)) else (visited, none)
  else
    (visited, some h)

/-- the `filter_map` with its captured state, in iteration order -/
def nearVertexLoop (path : RayPathI K) (coeffs : T3 K K K) (cir : EdgeRef → List (T3 K K (V2 K))) :
    List (List Nat) → List (Hit K) → List (Hit K)
  | _, [] => []
  | visited, h :: rest =>
    let r := nearVertexStep path coeffs cir visited h
    match r.2 with
    | some h' => h' :: nearVertexLoop path coeffs cir r.1 rest
    | none => nearVertexLoop path coeffs cir r.1 rest

/-- `filter_collisions_near_vertices` (ray.rs:555-637) -/
def filter_collisions_near_vertices (path : RayPathI K) (ray : T2 (V2 K) (V2 K)) (cir : EdgeRef → List (T3 K K (V2 K)))
    (collisions : List (Hit K)) : List (Hit K) :=
  nearVertexLoop path (line_coefficients_2d ray) cir (List.replicate path.num_points []) collisions

/-- the iterator pipeline of `ray_collisions` up to `collect` (ray.rs:707-726) -/
def ray_collisions_unsorted (path : RayPathI K) (ray : T2 (V2 K) (V2 K)) (cir : EdgeRef → List (T3 K K (V2 K))) :
    List (Collision K) :=
  let cc := crossing_and_collinear_collisions path ray cir
  let crossing_collisions := cc.t0
  let collinear_collisions := cc.t1
  let crossing_collisions := remove_collisions_before_or_after_collinear_section path ray crossing_collisions
  let collisions := collinear_collisions ++ crossing_collisions
  let collisions := collisions.map (move_collinear_collision_to_end path (line_coefficients_2d ray))
  let collisions := filter_collisions_near_vertices path ray cir collisions
  let collisions := remove_tangent_collisions path ray collisions
  flag_collisions_at_intersections path collisions

/-- stable insertion: `x` goes in front of the first element it does not compare `Greater` to -/
def insertBy {α : Type} (cmp : α → α → Ordering) (x : α) : List α → List α
  | [] => [x]
  | y :: ys => if cmp x y != .gt then x :: y :: ys else y :: insertBy cmp x ys

/-- a stable sort by a comparator (Rust's `sort_by` is stable; for a comparator that is a total preorder on the elements
    every stable sort returns this list) -/
def sortBy {α : Type} (cmp : α → α → Ordering) (l : List α) : List α := l.foldr (insertBy cmp) []

/-- `ray_collisions` (ray.rs:702-777) -/
def ray_collisions (path : RayPathI K) (ray : T2 (V2 K) (V2 K)) (cir : EdgeRef → List (T3 K K (V2 K))) : List (Collision K) :=
  let ray_direction := ray.t1 - ray.t0
  sortBy (collision_order path ray_direction) (ray_collisions_unsorted path ray cir)

/-- the directed edges of the graph as pairs (start point index, end point index), in the order of `allEdgeRefs` -/
def edgeList (path : RayPathI K) : List (Nat × Nat) :=
  (allEdgeRefs path).map fun e => (path.edge_start_point_idx e, path.edge_end_point_idx e)

/-- executable test that a directed multigraph is balanced: every vertex that occurs is the start of as many edges as it is the end
    of (sound: `C14.balanced_checker_sound`) -/
def balancedB (edges : List (Nat × Nat)) : Bool :=
  (edges.map Prod.fst ++ edges.map Prod.snd).all fun v => (edges.map Prod.fst).count v == (edges.map Prod.snd).count v

end Model.Ray
