import FloVerif.Gen.PathContour
/-!
Glue around the generated scan-conversion kernels of `Gen/PathContour.lean` (Mathlib-free, executable).

The generated pieces are: `raycast_intercepts_on_line` (ray_cast_contour.rs), the two closures of
`PathContour::intercepts_on_line` / `intercepts_on_column` (`row_intercepts`, `column_intercepts`),
`remove_duplicate_intercepts` with everything it calls, and `solve_basis_for_t`.  What is written by hand here is only
how the public functions pass their closure to `raycast_intercepts_on_line` (the closures contain `return`, which the
translator does not accept in expression position), and the transposition of a curve table.

A `PathContour` is its `curves` vector: per curve the x control values, the y control values and the bounding box
(`Vec<(Curve<f64>, Curve<f64>, Bounds<Coord2>)>`), plus `size`.
-/
namespace Model.PathContour
open Prelude Gen

variable {K : Type} [Add K] [Sub K] [Mul K] [Div K] [Neg K] [LT K] [LE K] [DecidableLT K] [DecidableLE K] [BEq K]
  [OfScientific K] [Inhabited K] [FAbs K] [FSqrt K] [FSignum K] [FTotalLe K] [OfInt K]

/-- one entry of `PathContour::curves` -/
abbrev CurveRow (K : Type) := T3 (T4 K K K K) (T4 K K K K) (T2 (V2 K) (V2 K))

/-- `PathContour::intercepts_on_line(y)` (path_contour.rs:213-251): the row closure run through
    `raycast_intercepts_on_line(.., y, 1.0, self.size.width())` -/
def interceptsOnLine (solve : K → K → K → K → K → List K) (curves : List (CurveRow K)) (width : Nat) (y : K) : List (RangeT K) :=
  raycast_intercepts_on_line (row_intercepts solve curves) y (1.0 : K) width

/-- `PathContour::intercepts_on_column(x)` (path_contour.rs:256-282): the column closure run through
    `raycast_intercepts_on_line(.., x, 1.0, self.size.height())` -/
def interceptsOnColumn (solve : K → K → K → K → K → List K) (curves : List (CurveRow K)) (height : Nat) (x : K) : List (RangeT K) :=
  raycast_intercepts_on_line (column_intercepts solve curves) x (1.0 : K) height

/-- the curve table of the transposed paths (x and y exchanged, bounding boxes too) -/
def transpose (curves : List (CurveRow K)) : List (CurveRow K) :=
  curves.map fun c => T3.mk c.t1 c.t0 (T2.mk (V2.mk c.t2.t0.y c.t2.t0.x) (V2.mk c.t2.t1.y c.t2.t1.x))

/-- a straight edge from `(x0, y0)` to `(x1, y1)` with its bounding box; control points at `third` and `2·third` of the way
    (with `third = 1/3` both coordinates are linear in `t`; used by the concrete examples of `Props/C16.lean`) -/
def lineRow (x0 y0 x1 y1 : K) (third : K) : CurveRow K :=
  T3.mk (T4.mk x0 (x0 + (x1 - x0) * third) (x0 + (x1 - x0) * (third + third)) x1)
        (T4.mk y0 (y0 + (y1 - y0) * third) (y0 + (y1 - y0) * (third + third)) y1)
        (T2.mk (V2.mk (if x0 < x1 then x0 else x1) (if y0 < y1 then y0 else y1))
               (V2.mk (if x0 < x1 then x1 else x0) (if y0 < y1 then y1 else y0)))

end Model.PathContour
