/-!
Hand-written model of `Space1D` (src/geo/space1.rs): `from_data` with its `remaining` stack transcribed
literally, and the query functions.  `combined` is kept reversed (head = last pushed); `rem` has the top of
the Rust stack at its head (= the piece with the smallest position).  Mathlib-free, over any ordered type.
-/
namespace Model.Space1D

variable {α : Type} [LT α] [LE α] [DecidableLT α] [DecidableLE α] [BEq α]

/-- a piece of the divided space: `[s, e)` and the handles of the items covering it -/
structure Piece (α : Type) where
  s : α
  e : α
  hs : List Nat
deriving Repr, BEq

/-- push a finished piece (space1.rs:80-88): merged into the last piece when both start at the same position -/
def pushCombined (combinedRev : List (Piece α)) (top : Piece α) : List (Piece α) :=
  match combinedRev with
  | last :: more => if last.s == top.s then { last with hs := last.hs ++ top.hs } :: more else top :: last :: more
  | [] => [top]

/-- the pop loop (space1.rs:74-93) -/
def popLoop (start : α) : List (Piece α) → List (Piece α) → List (Piece α) × List (Piece α)
  | combinedRev, [] => (combinedRev, [])
  | combinedRev, top :: rest =>
    if top.e > start then (combinedRev, top :: rest) else popLoop start (pushCombined combinedRev top) rest

/-- the drain loop (space1.rs:99-133): returns the pieces cut off in front (ascending), the new remaining
    list (ascending) and what is left of the new range's start -/
def drain (h : Nat) (rs re : α) : List (Piece α) → List (Piece α) × List (Piece α) × α
  | [] => ([], [], rs)
  | a :: rest =>
    let cut := decide (a.e > rs) && decide (a.s < rs)
    let cuts : List (Piece α) := if cut then [{ s := a.s, e := rs, hs := a.hs }] else []
    let a' : Piece α := if cut then { a with s := rs } else a
    if rs == re then
      let r := drain h rs re rest
      (cuts ++ r.1, a' :: r.2.1, r.2.2)
    else if a'.e ≤ re then
      let r := drain h a'.e re rest
      (cuts ++ r.1, { a' with hs := a'.hs ++ [h] } :: r.2.1, r.2.2)
    else
      let r := drain h re re rest
      (cuts ++ r.1, { s := rs, e := re, hs := a'.hs ++ [h] } :: { a' with s := re } :: r.2.1, r.2.2)

structure St (α : Type) where
  combinedRev : List (Piece α)
  rem : List (Piece α)

/-- one iteration of the main loop for the range `[rs, re)` with handle `h` -/
def step (st : St α) (r : (α × α) × Nat) : St α :=
  let rs := r.1.1
  let re := r.1.2
  let h := r.2
  let p := popLoop rs st.combinedRev st.rem
  let d := drain h rs re p.2
  let newRem := if d.2.2 != re then d.2.1 ++ [{ s := d.2.2, e := re, hs := [h] }] else d.2.1
  { combinedRev := d.1.reverse ++ p.1, rem := newRem }

/-- `sort_by(|a, b| a.start.total_cmp(&b.start))`: stable -/
def sortByStart (l : List ((α × α) × Nat)) : List ((α × α) × Nat) :=
  l.mergeSort (fun a b => decide (a.1.1 ≤ b.1.1))

def fromData (data : List (α × α)) : List (Piece α) :=
  let st := (sortByStart data.zipIdx).foldl step { combinedRev := [], rem := [] }
  st.combinedRev.reverse ++ st.rem

/-! queries -/

/-- `search`: `Ok idx` (some region contains the point) is `Sum.inl`, `Err idx` is `Sum.inr`.
    The binary search on the start positions is modelled by its specification on a list with strictly
    increasing starts: the index of the region starting at `x`, else the number of regions starting before `x`. -/
def search (sp : List (Piece α)) (x : α) : Sum Nat Nat :=
  match sp.findIdx? (fun p => p.s == x) with
  | some i => .inl i
  | none =>
    let idx := (sp.takeWhile (fun p => decide (p.s < x))).length
    if idx == 0 then .inr 0 else
    match sp[idx - 1]? with
    | some p => if p.e > x then .inl (idx - 1) else .inr idx
    | none => .inr idx

def dataAtPoint (sp : List (Piece α)) (x : α) : List Nat :=
  match search sp x with
  | .inl i => match sp[i]? with | some p => p.hs | none => []
  | .inr _ => []

def startIdx (sp : List (Piece α)) (x : α) : Nat :=
  match search sp x with | .inl i => i | .inr i => i

def regionsInRange (sp : List (Piece α)) (rs re : α) : List (Piece α) :=
  (sp.drop (startIdx sp rs)).takeWhile (fun p => decide (p.s < re))

/-- first-occurrence de-duplication (the bit set of `data_in_region`) -/
def dedup : List Nat → List Nat → List Nat
  | _, [] => []
  | seen, h :: t => if seen.contains h then dedup seen t else h :: dedup (h :: seen) t

def dataInRegion (sp : List (Piece α)) (rs re : α) : List Nat :=
  dedup [] ((regionsInRange sp rs re).flatMap (·.hs))

end Model.Space1D
