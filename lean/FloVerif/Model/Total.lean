import FloVerif.Gen.Walk
/-!
Hand-written models for C20 of code outside the translator's subset (Mathlib-free, executable).

* `varyUpdate`: `VaryingWalkIterator::next` (src/bezier/walk.rs:275-300, with the clamp of repair b75d9d0) up to its call of
  `self.even_iterator.next()`: the assignments to the nested fields `self.even_iterator.distance` and
  `self.even_iterator.last_increment` are what the translator cannot express.  Literal transcription.
* `rootsLoop`: the control skeleton of `find_bezier_roots` (src/bezier/roots/find_roots.rs:121-163, with the depth cap of
  repair 24cd67f): the stack loop with everything numeric (`count_x_axis_crossings`, `flat_enough`, `find_x_intercept`,
  the mid point, `subdivide_n`) as parameters.
-/
namespace Model.Total
open Prelude

section vary
variable {K : Type} [Mul K] [Div K] [LT K] [DecidableLT K] [OfScientific K]

/-- the new `(distance, last_increment)` of the even iterator; `next` is what `distance_iterator.next()` returned
    (`none`: the distance iterator is exhausted or absent - nothing changes) -/
def varyUpdate (next : Option K) (distance last_increment : K) : T2 K K :=
  match next with
  | some distance' =>
    -- Too small or negative values are clamped, as they are for the initial distance in walk_curve_evenly
    let distance' := if distance' < (1e-10 : K) then (1e-10 : K) else distance'
    -- Update the distance in the 'even' iterator
    let ratio := distance' / distance
    T2.mk distance' (last_increment * ratio)
  | none => T2.mk distance last_increment

end vary

section roots
variable {S K : Type}

/-- `find_bezier_roots`: `sections` is the stack (top = last), `roots` the result so far.  One loop iteration per fuel unit;
    `inr` when the stack is empty (`return roots`). -/
def rootsStep (maxDepth : Nat) (crossings : S → Nat) (flat : S → Bool) (intercept mid : S → K) (split : S → S × S)
    (st : List (S × Nat) × List K) : Sum (List (S × Nat) × List K) (List K) :=
  match st.1.getLast? with
  | none => .inr st.2
  | some (section_, depth) =>
    let sections := st.1.dropLast
    let num_crossings := crossings section_
    if num_crossings == 0 then .inl (sections, st.2)
    else if num_crossings == 1 && flat section_ then .inl (sections, st.2 ++ [intercept section_])
    else if depth ≥ maxDepth then .inl (sections, st.2 ++ [mid section_])
    else
      let lr := split section_
      .inl (sections ++ [(lr.2, depth + 1)] ++ [(lr.1, depth + 1)], st.2)

/-- the loop with fuel; `none` = fuel exhausted before the stack was empty -/
def rootsLoop (maxDepth : Nat) (crossings : S → Nat) (flat : S → Bool) (intercept mid : S → K) (split : S → S × S)
    (fuel : Nat) (points : S) : Option (List K) :=
  iterFuel fuel (fun st => match rootsStep maxDepth crossings flat intercept mid split st with
      | .inl s => .inl s | .inr r => .inr (some r)) (fun _ => none) ([(points, 0)], [])

end roots

end Model.Total
