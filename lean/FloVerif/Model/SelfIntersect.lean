import FloVerif.Gen.SelfIntersect
/-!
The knot of `find_intersection_point_in_loop` (self_intersection.rs): the generated body calls itself through its first parameter;
here that parameter is the function itself with one unit of fuel less.  Out of fuel the answer is the parameter `on_fuel` (the
driver prints it as a diff; the theorems keep it as a case of its own).  `on_loop_loop` stands for the `unimplemented!` of the
(Loop, Loop) arm, `clip_` for `curve_intersects_curve_clip` run on the two halves as curves of their own.
-/
namespace Model.SelfIntersect
open Prelude Gen

variable {K : Type} [Add K] [Sub K] [Mul K] [Div K] [Neg K] [LT K] [LE K] [DecidableLT K] [DecidableLE K] [BEq K] [OfScientific K] [Inhabited K] [FAbs K] [FSqrt K] [OfInt K] [FConsts K]

def findInLoop (clip_ : SectionT K → SectionT K → K → List (T2 K K)) (on_loop_loop on_fuel : Option (T2 K K)) (w1 w2 w3 w4 : V2 K) :
    Nat → SectionT K → K → Option (T2 K K)
  | 0, _, _ => on_fuel
  | n + 1, s, accuracy =>
    find_intersection_point_in_loop (findInLoop clip_ on_loop_loop on_fuel w1 w2 w3 w4 n) clip_ on_loop_loop w1 w2 w3 w4 s accuracy

def findSelfIntersection (clip_ : SectionT K → SectionT K → K → List (T2 K K)) (on_loop_loop on_fuel : Option (T2 K K)) (fuel : Nat)
    (w1 w2 w3 w4 : V2 K) (accuracy : K) : Option (T2 K K) :=
  find_self_intersection_point (findInLoop clip_ on_loop_loop on_fuel w1 w2 w3 w4 fuel) w1 w2 w3 w4 accuracy

end Model.SelfIntersect
