import FloVerif.Prelude.Num
/-!
Hand-written model of `line_clip_to_bounds` (src/line/intersection.rs:86-154, Liang–Barsky): the loop over the
four edges with its early `return None` is a fold over `Option (t1, t2)`.
-/
namespace Model.Clip
open Prelude

variable {K : Type} [Add K] [Sub K] [Mul K] [Div K] [Neg K] [LT K] [DecidableLT K] [BEq K] [OfScientific K]

/-- one iteration of the edge loop; `none` = the function has returned `None` -/
def clipStep (st : Option (K × K)) (de : K × K) : Option (K × K) :=
  match st with
  | none => none
  | some (t1, t2) =>
    let delta := de.1
    let edge := de.2
    if delta == (0.0 : K) then
      (if edge < (0.0 : K) then none else some (t1, t2))
    else
      let t := edge / delta
      if delta < (0.0 : K) ∧ t1 < t then some (t, t2)
      else if delta > (0.0 : K) ∧ t2 > t then some (t1, t)
      else some (t1, t2)

def lineClipToBounds (line : T2 (V2 K) (V2 K)) (bounds : T2 (V2 K) (V2 K)) : Option (T2 (V2 K) (V2 K)) :=
  let x1 := line.t0.x
  let y1 := line.t0.y
  let dx := line.t1.x - x1
  let dy := line.t1.y - y1
  let xmin := fmin bounds.t0.x bounds.t1.x
  let ymin := fmin bounds.t0.y bounds.t1.y
  let xmax := fmax bounds.t0.x bounds.t1.x
  let ymax := fmax bounds.t0.y bounds.t1.y
  match [(-dx, x1 - xmin), (dx, xmax - x1), (-dy, y1 - ymin), (dy, ymax - y1)].foldl clipStep (some ((0.0 : K), (1.0 : K))) with
  | none => none
  | some (t1, t2) =>
    if t1 > t2 ∨ t1 > (1.0 : K) ∨ t2 < (0.0 : K) then none
    else some (T2.mk ⟨x1 + t1 * dx, y1 + t1 * dy⟩ ⟨x1 + t2 * dx, y1 + t2 * dy⟩)

end Model.Clip
