import FloVerif.Gen.Nearest
import FloVerif.Gen.Roots
/-!
Hand model of the part of the nearest-point query that is outside the translator's subset
(src/bezier/roots/nearest_point_bezier_root_finder.rs:17-68 `distance_in_bezier_form`: iterator chains over
`SmallVec`s and the in-place update `curve[(i+j)].1 += …`), written statement by statement, and the composition
of the generated pieces into the functions the library exports.

`Gen.Z` (the `Z` table of the same Rust function) is the translated constant: a change of the table in the
Rust source changes this model, its Float mirror and the theorems about it.
-/
namespace Model.Nearest
open Prelude Gen

variable {K : Type} [Add K] [Sub K] [Mul K] [Div K] [Neg K] [LT K] [LE K] [DecidableLT K] [DecidableLE K] [BEq K]
  [OfScientific K] [Inhabited K] [FAbs K]

/-- `v[i].1 += d` -/
def addY (curve : List (V2 K)) (i : Nat) (d : K) : List (V2 K) :=
  curve.modify i (fun c => V2.mk c.x (c.y + d))

/-- `distance_in_bezier_form(curve, point)`: the six control points of the degree-5 Bézier curve
    `(t, (C(t) − point)·C'(t))` -/
def distance_in_bezier_form (w1 w2 w3 w4 point : V2 K) : List (V2 K) :=
  -- let curve_points = [start_point, cp1, cp2, end_point];
  let curve_points := [w1, w2, w3, w4]
  -- let control_point_to_point = curve_points.iter().map(|control_point| *control_point - point)
  let control_point_to_point := curve_points.map (fun control_point => control_point - point)
  -- let control_point_to_next = curve_points.iter().tuple_windows().map(|(cp1, cp2)| (*cp2-*cp1) * 3.0)   (`Prelude.windows2`)
  let control_point_to_next := (windows2 curve_points).map (fun w => (((w.t1 - w.t0) : V2 K) * (3.0 : K) : V2 K))
  -- let cp_dot_products = control_point_to_next.map(|to_next_cp| control_point_to_point.map(|to_point| to_next_cp.dot(to_point)))
  let cp_dot_products := control_point_to_next.map (fun to_next_cp =>
    control_point_to_point.map (fun to_point => dot to_next_cp to_point))
  -- let mut curve = [Coord2(0.0/5.0, 0.0), Coord2(1.0/5.0, 0.0), …, Coord2(5.0/5.0, 0.0)];
  let curve := [V2.mk ((0.0 : K) / (5.0 : K)) (0.0 : K), V2.mk ((1.0 : K) / (5.0 : K)) (0.0 : K),
    V2.mk ((2.0 : K) / (5.0 : K)) (0.0 : K), V2.mk ((3.0 : K) / (5.0 : K)) (0.0 : K),
    V2.mk ((4.0 : K) / (5.0 : K)) (0.0 : K), V2.mk ((5.0 : K) / (5.0 : K)) (0.0 : K)]
  -- for k in 0..=5i32 { let lower = 0.max(k-2); let upper = k.min(3); for i in lower..=upper { let j = k - i; … } }
  foldlT (List.range' 0 6) curve (fun curve k =>
    let lower := k - 2          -- `0.max(k-2)` (truncated subtraction)
    let upper := min k 3
    foldlT (List.range' lower ((upper + 1) - lower)) curve (fun curve i =>
      let j := k - i
      -- curve[(i+j) as usize].1 += cp_dot_products[j][i] * Z[j][i];
      addY curve (i + j) (listGet (listGet cp_dot_products j) i * listGet (listGet (Z : List (List K)) j) i)))

variable [FSqrt K] [FSignum K] [OfInt K] [FConsts K]

/-- `BezierCurve2D::nearest_t` = `nearest_point_on_curve` = `nearest_point_on_curve_bezier_root_finder`, with the
    private Bézier-form construction (this model) and the generated `find_bezier_roots::<_, 6>` plugged in -/
def nearest_t (w1 w2 w3 w4 point : V2 K) : K :=
  nearest_point_on_curve_bezier_root_finder distance_in_bezier_form (find_bezier_roots 6) w1 w2 w3 w4 point

/-- `path_closest_point` over the curves of a path (`path.to_curves()`), with `nearest_t` as above -/
def path_closest (curves : List (T4 (V2 K) (V2 K) (V2 K) (V2 K))) (point : V2 K) : T4 Nat K K (V2 K) :=
  path_closest_point (fun c p => nearest_t c.t0 c.t1 c.t2 c.t3 p) curves point

/-- the same with the GENERATED Bézier form (`Gen.gen_distance_in_bezier_form`, equal to the hand model above for every input:
    `C09Gen.gen_eq_model`): what the driver runs against the implementation -/
def nearest_t_gen (w1 w2 w3 w4 point : V2 K) : K :=
  nearest_point_on_curve_bezier_root_finder gen_distance_in_bezier_form (find_bezier_roots 6) w1 w2 w3 w4 point

def path_closest_gen (curves : List (T4 (V2 K) (V2 K) (V2 K) (V2 K))) (point : V2 K) : T4 Nat K K (V2 K) :=
  path_closest_point (fun c p => nearest_t_gen c.t0 c.t1 c.t2 c.t3 p) curves point

end Model.Nearest
