import FloVerif.Gen.PathArith
/-!
Hand-written model of the classification machine inside `set_edge_kinds_by_ray_casting`
(src/bezier/path/arithmetic/ray_cast.rs:115-225): what happens to the crossing counters and which edges are
marked exterior / interior for the groups of collisions met along ONE ray.  The inside-predicates are the
generated `Gen.pred_*`.  Geometry (where the ray goes, which collisions it finds, how they are grouped) is
input: the model replays the groups the real code recorded through hook H2.
-/
namespace Model.RayCast
open Prelude Gen

/-- one collision of the ray as the loop sees it -/
structure Hit where
  startIdx : Nat
  edgeIdx : Nat
  label : Nat
  side : Int              -- `ray_direction.dot(&normal).signum() as i32`
  isIntersection : Bool
  nearEnd : Bool          -- `curve_t < 0.01 || curve_t > 0.99`
deriving Repr, BEq

/-- `while path_crossings.len() <= label { push(0) }` then `+= 1 / -= 1` according to the sign of `side` -/
def bump (cs : List Int) (h : Hit) : List Int :=
  let cs := cs ++ List.replicate (h.label + 1 - cs.length) 0
  if h.side < 0 then cs.modify h.label (· - 1)
  else if h.side > 0 then cs.modify h.label (· + 1)
  else cs

/-- stable insertion sort by a key relation (Rust's `sort_by` is stable) -/
def insertBy (le : Hit → Hit → Bool) (x : Hit) : List Hit → List Hit
  | [] => [x]
  | y :: ys => if le x y then x :: y :: ys else y :: insertBy le x ys
def sortBy (le : Hit → Hit → Bool) (l : List Hit) : List Hit := l.foldr (insertBy le) []

/-- the re-ordering of an overlapping group (ray_cast.rs:146-167) -/
def orderGroup (isInside : List Int → Bool) (cs : List Int) (group : List Hit) : List Hit :=
  if group.length ≤ 1 then group
  else if !isInside [listGet cs 0, 0] then sortBy (fun a b => decide (a.edgeIdx ≥ b.edgeIdx)) group
  else sortBy (fun a b => decide (a.edgeIdx ≤ b.edgeIdx)) group

/-- an edge kind assignment: (start_idx, edge_idx, exterior?) -/
abbrev SetEvent := Nat × Nat × Bool

/-- one group: new counters and the `set_edge_kind_connected` calls in order (ray_cast.rs:169-222) -/
def processGroup (isInside : List Int → Bool) (cs : List Int) (group : List Hit) : List Int × List SetEvent :=
  let ordered := orderGroup isInside cs group
  let was := isInside cs
  let cs' := ordered.foldl bump cs
  let now := isInside cs'
  let toSet := ordered.filter (fun h => !h.isIntersection && !h.nearEnd)
  let events : List SetEvent :=
    if was != now then
      match toSet with
      | [] => []
      | first :: rest => (first.startIdx, first.edgeIdx, true) :: rest.map (fun h => (h.startIdx, h.edgeIdx, false))
    else toSet.map (fun h => (h.startIdx, h.edgeIdx, false))
  (cs', events)

/-- one ray: counters start at `[0, 0]` -/
def castRay (isInside : List Int → Bool) (groups : List (List Hit)) : List Int × List SetEvent :=
  groups.foldl (fun st g => let r := processGroup isInside st.1 g; (r.1, st.2 ++ r.2)) ([0, 0], [])

/-! path_combine (chain.rs) as structural recursion over the expression tree, with the binary operations as parameters -/

inductive Combine (PathT : Type) where
  | path (p : List PathT)
  | removeInterior (p : List PathT)
  | add (ops : List (Combine PathT))
  | subtract (ops : List (Combine PathT))
  | intersect (ops : List (Combine PathT))

structure Ops (PathT : Type) where
  removeInterior : List PathT → List PathT
  addChain : List (List PathT) → List PathT
  sub : List PathT → List PathT → List PathT
  intersect : List PathT → List PathT → List PathT

mutual
def combine {PathT : Type} (o : Ops PathT) : Combine PathT → List PathT
  | .path p => p
  | .removeInterior p => o.removeInterior p
  | .add ops => o.addChain (combineList o ops)
  | .subtract ops => match combineList o ops with
    | [] => []
    | r :: rest => rest.foldl o.sub r
  | .intersect ops => match combineList o ops with
    | [] => []
    | r :: rest => rest.foldl o.intersect r
def combineList {PathT : Type} (o : Ops PathT) : List (Combine PathT) → List (List PathT)
  | [] => []
  | c :: cs => combine o c :: combineList o cs
end

end Model.RayCast
