import FloVerif.Gen.Contour
/-!
Hand-written model of the sampled-contour tracing pipeline (src/bezier/vectorize):
`BoolSampledContour::intercepts_on_line` / `U8SampledContour::intercepts_on_line` (run-length encoding),
`SampledContour::rounded_intercepts_on_line` (`roundFrac`: ceiling of fractional intercepts, `as usize`, dropping of
empty ranges) / `merge_overlapping_intercepts` (`mergeRuns`), the `InterceptScanEdgeIterator` state machine and
`trace_contours_from_edges` (association list in place of the `HashMap`).
The cell table, the corner-bit packing and the edge numbering are the generated `Gen.cell_connected_edges`,
`Gen.cell_from_corners`, `Gen.edge_at_coordinates`.
-/
namespace Model.Contour
open Prelude Gen

/-- a filled run `[start, end)` of a scanline -/
abbrev Run := Nat × Nat

/-- `BoolSampledContour::intercepts_on_line`: the loop over x with `inside : Option<usize>` -/
def rowRunsGo : Nat → Option Nat → List Bool → List Run
  | _, none, [] => []
  | x, some s, [] => [(s, x)]
  | x, none, true :: r => rowRunsGo (x + 1) (some x) r
  | x, some s, false :: r => (s, x) :: rowRunsGo (x + 1) none r
  | x, ins, _ :: r => rowRunsGo (x + 1) ins r

def rowRuns (row : List Bool) : List Run := rowRunsGo 0 none row

/-- the rows that `BoolSampledContour::intercepts_on_line` reads out of the flat sample vector: sample (x, y) is
    `self.1[idx]` with `idx` as computed by `point_is_inside` (generated: `Gen.bool_point_index`) -/
def boolRows (w h : Nat) (v : List Bool) : List (List Bool) :=
  (List.range h).map fun y => (List.range w).map fun x => v.getD (bool_point_index w h x y) false

/-- the same for `U8SampledContour`: `self.1[idx] != 0` with the generated `Gen.u8_point_index` -/
def u8Rows (w h : Nat) (v : List Nat) : List (List Bool) :=
  (List.range h).map fun y => (List.range w).map fun x => v.getD (u8_point_index w h x y) 0 != 0

/-- `merge_overlapping_intercepts` -/
def mergeRuns : List Run → List Run
  | a :: b :: rest => if a.2 ≥ b.1 then mergeRuns ((a.1, b.2) :: rest) else a :: mergeRuns (b :: rest)
  | l => l
termination_by l => l.length

/-- `rounded_intercepts_on_line` for a bitmap row (the bounds are integers already, `ceil` is the identity) -/
def roundedRuns (row : List Bool) : List Run :=
  let rs := (rowRuns row).filter (fun r => r.1 != r.2)
  if rs.length ≤ 1 then rs else mergeRuns rs

/-- a fractional intercept `start..end` of a scanline (`Range<f64>`; every finite binary64 number is a rational) -/
abbrev FRange := Rat × Rat

/-- `x.ceil() as usize` for a finite `x`: Rust's float-to-integer `as` saturates, so a negative ceiling becomes 0
    (`Int.toNat`).  The saturation at `usize::MAX` is not modelled: intercepts are assumed to be below 2^64. -/
def ceilUsize (q : Rat) : Nat := q.ceil.toNat

/-- the first half of `rounded_intercepts_on_line`: `.map(|i| i.start.ceil() as usize .. i.end.ceil() as usize)
    .filter(|i| i.start != i.end)` -/
def ceilRuns (l : List FRange) : List Run :=
  (l.map fun r => (ceilUsize r.1, ceilUsize r.2)).filter (fun r => r.1 != r.2)

/-- `SampledContour::rounded_intercepts_on_line` (the default method every contour type uses) applied to the ranges
    that `intercepts_on_line` returned: ceilings, empty ranges dropped, then `merge_overlapping_intercepts` when more
    than one range is left -/
def roundFrac (l : List FRange) : List Run :=
  let rs := ceilRuns l
  if rs.length ≤ 1 then rs else mergeRuns rs

/-- the meaning of a list of intercepts (`contour_point_is_inside`): sample `x` is inside iff `start ≤ x < end` for
    one of the ranges -/
def covers (l : List FRange) (x : Nat) : Bool := l.any fun r => decide (r.1 ≤ (x : Rat)) && decide ((x : Rat) < r.2)

/-- the row of `w` samples that a list of intercepts stands for -/
def sampleRow (w : Nat) (l : List FRange) : List Bool := (List.range w).map (covers l)

/-- state of `InterceptScanEdgeIterator` -/
structure It where
  lines : List (List Run)
  finished : Bool
  ypos : Nat
  prev : List Run
  cur : List Run
  prevPos : Nat
  curPos : Nat
  xpos : Nat
deriving Repr

def firstX (prev cur : List Run) : Option Nat :=
  let x : Option Nat := match prev with | p :: _ => some p.1 | [] => none
  match cur with
  | c :: _ => (match x with | some v => some (min v c.1) | none => some c.1)
  | [] => x

/-- `load_line(ypos)`; `oldY` is the `ypos` field kept when nothing more is found -/
def loadLine (oldY : Nat) : List (List Run) → List Run → Nat → It
  | [], cur, ypos =>
    match firstX cur [] with
    | some x => { lines := [], finished := true, ypos := ypos, prev := cur, cur := [], prevPos := 0, curPos := 0, xpos := x }
    | none => { lines := [], finished := true, ypos := oldY, prev := cur, cur := [], prevPos := 0, curPos := 0, xpos := 0 }
  | line :: rest, cur, ypos =>
    match firstX cur line with
    | some x => { lines := rest, finished := false, ypos := ypos, prev := cur, cur := line, prevPos := 0, curPos := 0, xpos := x }
    | none => loadLine oldY rest line (ypos + 1)

def fromIterator (lines : List (List Run)) : It := loadLine 0 lines [] 0

def omap {β} (o : Option Run) (d : β) (f : Run → β) : β := match o with | some r => f r | none => d

/-- `next()`; the outer and inner loops are one recursion with fuel -/
def next : Nat → It → Option (((Nat × Nat) × Nat) × It)
  | 0, _ => none
  | fuel + 1, it =>
    if it.finished && it.prev.isEmpty then none else
    let xpos := it.xpos
    let upper := it.prev[it.prevPos]?
    if omap upper false (fun u => decide (xpos > u.2)) then next fuel { it with prevPos := it.prevPos + 1 } else
    let lower := it.cur[it.curPos]?
    if omap lower false (fun l => decide (xpos > l.2)) then next fuel { it with curPos := it.curPos + 1 } else
    if upper.isNone && lower.isNone then next fuel (loadLine it.ypos it.lines it.cur (it.ypos + 1)) else
    if omap upper true (fun u => decide (xpos < u.1)) && omap lower true (fun l => decide (xpos < l.1)) then
      let nx := match upper, lower with
        | some u, some l => min u.1 l.1
        | some u, none => u.1
        | none, some l => l.1
        | none, none => xpos
      next fuel { it with xpos := nx }
    else if omap upper false (fun u => decide (xpos > u.1) && decide (xpos < u.2)) &&
            omap lower false (fun l => decide (xpos > l.1) && decide (xpos < l.2)) then
      let nx := match upper, lower with
        | some u, some l => min u.2 l.2
        | _, _ => xpos
      next fuel { it with xpos := nx }
    else
      let tl := omap upper false (fun u => decide (xpos > u.1) && decide (xpos ≤ u.2))
      let tr := omap upper false (fun u => decide (xpos ≥ u.1) && decide (xpos < u.2))
      let bl := omap lower false (fun l => decide (xpos > l.1) && decide (xpos ≤ l.2))
      let br := omap lower false (fun l => decide (xpos ≥ l.1) && decide (xpos < l.2))
      some (((xpos, it.ypos), cell_from_corners tl tr bl br), { it with xpos := xpos + 1 })

/-- all cells the iterator yields (`fuel` bounds the steps of each `next`, `n` the number of cells) -/
def cellsGo (fuel : Nat) : Nat → It → List ((Nat × Nat) × Nat)
  | 0, _ => []
  | n + 1, it => match next fuel it with
    | none => []
    | some (c, it') => c :: cellsGo fuel n it'

/-- `edge_cell_iterator().collect()` for a contour of width `w` whose lines have the rounded intercepts `lines`
    (what `ContourInterceptsIterator` hands to the scan) -/
def edgeCellsOfRuns (w : Nat) (lines : List (List Run)) : List ((Nat × Nat) × Nat) :=
  let fuel := 4 * (w + 4) * (lines.length + 4)
  cellsGo fuel ((w + 2) * (lines.length + 2)) (fromIterator lines)

/-- the edge cells of a bitmap given as rows -/
def edgeCells (w : Nat) (rows : List (List Bool)) : List ((Nat × Nat) × Nat) :=
  edgeCellsOfRuns w (rows.map roundedRuns)

/-- the edge cells of a contour given by the fractional intercepts of its lines -/
def edgeCellsFrac (w : Nat) (lines : List (List FRange)) : List ((Nat × Nat) × Nat) :=
  edgeCellsOfRuns w (lines.map roundFrac)

/-! tracing -/

abbrev Graph := List (Nat × List Nat)

/-- `edge_graph.entry(a).or_insert_with(..).push(b)` -/
def graphInsert : Graph → Nat → Nat → Graph
  | [], a, b => [(a, [b])]
  | (k, vs) :: g, a, b => if k == a then (k, vs ++ [b]) :: g else (k, vs) :: graphInsert g a b

def graphRemove : Graph → Nat → Option (List Nat × Graph)
  | [], _ => none
  | (k, vs) :: g, a => if k == a then some (vs, g) else
    match graphRemove g a with
    | some (r, g') => some (r, (k, vs) :: g')
    | none => none

def buildGraph (w : Nat) (cells : List ((Nat × Nat) × Nat)) : Graph :=
  cells.foldl (fun g c =>
    (cell_connected_edges c.2).foldl (fun g p =>
      let a := edge_at_coordinates p.1 w c.1.1 c.1.2
      let b := edge_at_coordinates p.2 w c.1.1 c.1.2
      graphInsert (graphInsert g a b) b a) g) []

/-- the `while current_edge != first_edge` loop; `none` = the Rust code would panic (`unwrap`, index) -/
def followLoop : Nat → Graph → Nat → Nat → Nat → List Nat → Option (List Nat × Graph)
  | 0, _, _, _, _, _ => none
  | fuel + 1, g, first, prev, cur, acc =>
    if cur == first then some (acc, g) else
    match graphRemove g cur with
    | none => none
    | some (following, g') =>
      match following with
      | f0 :: rest =>
        if f0 != prev then followLoop fuel g' first cur f0 (acc ++ [cur])
        else match rest with
          | f1 :: _ => followLoop fuel g' first cur f1 (acc ++ [cur])
          | [] => none
      | [] => none

/-- `trace_contours_from_edges`: the hash map's "any" first key is modelled by the first key of the list -/
def traceLoops : Nat → Graph → Option (List (List Nat))
  | 0, _ => none
  | fuel + 1, g =>
    match g with
    | [] => some []
    | (first, following) :: g' =>
      match following with
      | [] => none
      | nxt :: _ =>
        match followLoop (g.length + 1) g' first first nxt [first] with
        | none => none
        | some (lp, g'') =>
          match traceLoops fuel g'' with
          | none => none
          | some more => some ((lp ++ [first]) :: more)

def traceContours (w : Nat) (rows : List (List Bool)) : Option (List (List Nat)) :=
  let g := buildGraph w (edgeCells w rows)
  traceLoops (g.length + 1) g

/-- `trace_contours_from_samples` for a contour given by the fractional intercepts of its lines -/
def traceContoursFrac (w : Nat) (lines : List (List FRange)) : Option (List (List Nat)) :=
  let g := buildGraph w (edgeCellsFrac w lines)
  traceLoops (g.length + 1) g

/-! specification side: what the scan and the trace must produce, straight from the bitmap -/

/-- `corner rows x y` is the sample at (x−1, y−1); anything outside the bitmap is not inside.
    The cell at position (x, y) has corners tl = corner x y, tr = corner (x+1) y, bl = corner x (y+1), br = corner (x+1) (y+1). -/
def corner (rows : List (List Bool)) (x y : Nat) : Bool :=
  if x == 0 || y == 0 then false else ((rows.getD (y - 1) []).getD (x - 1) false)

/-- the 2×2 cells containing both inside and outside samples, in scanline order, with their corner bits -/
def mixedCells (w : Nat) (rows : List (List Bool)) : List ((Nat × Nat) × Nat) :=
  (List.range (rows.length + 1)).flatMap fun (y : Nat) =>
    (List.range (w + 1)).filterMap fun (x : Nat) =>
      let tl := corner rows x y
      let tr := corner rows (x + 1) y
      let bl := corner rows x (y + 1)
      let br := corner rows (x + 1) (y + 1)
      if (tl || tr || bl || br) && !(tl && tr && bl && br) then some ((x, y), cell_from_corners tl tr bl br) else none

/-- ids of the edges between an inside and an outside sample (horizontal neighbours: odd ids, vertical: even) -/
def boundaryEdges (w : Nat) (rows : List (List Bool)) : List Nat :=
  (List.range (rows.length + 1)).flatMap fun (y : Nat) =>
    (List.range (w + 1)).flatMap fun (x : Nat) =>
      let tl := corner rows x y
      let tr := corner rows (x + 1) y
      let bl := corner rows x (y + 1)
      (if tl != tr then [edge_at_coordinates edge_top w x y] else []) ++
      (if tl != bl then [edge_at_coordinates edge_left w x y] else [])

end Model.Contour
