/-!
Hand-written combinatorial model of `GraphPath` (src/bezier/path/graph_path/mod.rs, path_collision.rs) and of the
structural operations of the collision stage.  Indices only: positions and control points are left out (they never
influence an index), every geometric decision of the Rust code is an explicit input of the model:

* `fromPath`   : which path sections the `continue` filter skipped, and whether the last point closes onto the start;
* `splitStage` : the list of collisions `find_collisions` returned (edge refs and the two `t` values);
* `combine`    : whether the sweep found any nearby pair, and the pairs for which `!moved || point_is_near(..)` held;
* `removeAllVeryShort` : the edges for which the geometric part of `edge_is_very_short` held (in removal order).

`SmallVec`/`Vec` are lists, in-place mutation is `List.modify`, an out-of-range index (a panic in Rust) leaves the
graph unchanged.  The model is executable (the driver replays it against traces of the real code).
-/
namespace Model.Graph

/-- `GraphPathEdge` without its control points: `end_idx`, `following_edge_idx`, `label`, `kind` (0..3) -/
structure Edge where
  endIdx : Nat
  fol : Nat
  label : Nat
  kind : Nat
deriving DecidableEq, Repr, Inhabited

/-- `GraphPathPoint` without its position: `forward_edges`, `connected_from` -/
structure Point where
  edges : List Edge := []
  conn : List Nat := []
deriving DecidableEq, Repr, Inhabited

/-- a point without edges: `GraphPathPoint::new(pos, smallvec![], smallvec![])` -/
def Point.empty : Point := { edges := [], conn := [] }

/-- `GraphPath::points` -/
abbrev Graph := List Point

/-- `self.points[p].forward_edges` -/
def edgesAt (g : Graph) (p : Nat) : List Edge := match g[p]? with | some pt => pt.edges | none => []
/-- `self.points[p].connected_from` -/
def connAt (g : Graph) (p : Nat) : List Nat := match g[p]? with | some pt => pt.conn | none => []
/-- `self.points[p].forward_edges[e]` -/
def edgeAt (g : Graph) (p e : Nat) : Option Edge := (edgesAt g p)[e]?

/-- in-place update of the edge list of point `p` -/
def updEdges (g : Graph) (p : Nat) (f : List Edge → List Edge) : Graph := g.modify p fun pt => { pt with edges := f pt.edges }
/-- in-place update of the `connected_from` list of point `p` -/
def updConn (g : Graph) (p : Nat) (f : List Nat → List Nat) : Graph := g.modify p fun pt => { pt with conn := f pt.conn }
/-- `self.points[p].forward_edges.push(ed)` -/
def pushEdge (g : Graph) (p : Nat) (ed : Edge) : Graph := updEdges g p (· ++ [ed])
/-- in-place update of edge `e` of point `p` -/
def updEdge (g : Graph) (p e : Nat) (f : Edge → Edge) : Graph := updEdges g p (·.modify e f)

/-- every edge of the graph, in `all_edges` order -/
def allEdges (g : Graph) : List Edge := g.flatMap (·.edges)

/-- insertion into an ascending list -/
def insertNat (a : Nat) : List Nat → List Nat
  | [] => [a]
  | b :: l => if a ≤ b then a :: b :: l else b :: insertNat a l

/-- `sort_unstable` on indices (the result of sorting numbers does not depend on the algorithm; insertion sort so that
the definition reduces in proofs by evaluation) -/
def sortNat (l : List Nat) : List Nat := l.foldr insertNat []

/-- `Vec::dedup`: removes consecutive repeated elements -/
def dedupAdj : List Nat → List Nat
  | [] => []
  | [a] => [a]
  | a :: b :: r => if a = b then dedupAdj (b :: r) else a :: dedupAdj (b :: r)

/-! ### recalculate_reverse_connections (mod.rs:264) -/

def recalc (g : Graph) : Graph :=
  -- Reset the list of connections to be empty
  let cleared : Graph := g.map fun pt => { pt with conn := [] }
  -- Add a reverse connection for every edge
  let pushed := (List.range g.length).foldl (fun acc p =>
      (edgesAt g p).foldl (fun acc ed => updConn acc ed.endIdx (· ++ [p])) acc) cleared
  -- Sort and deduplicate them
  pushed.map fun pt => { pt with conn := dedupAdj (sortNat pt.conn) }

/-! ### from_clockwise_path (mod.rs:179) -/

/-- state of the loop over `path.points()`: the points, `last_point_idx`, `next_point_idx` -/
structure FromPathState where
  points : Graph
  last : Nat
  next : Nat

/-- one iteration; `skip` = the `continue` of the "too close to the last point" filter -/
def fromPathStep (label : Nat) (st : FromPathState) (skip : Bool) : FromPathState :=
  if skip then st else
  let points := st.points ++ [Point.empty]
  let points := pushEdge points st.last { endIdx := st.next, fol := 0, label := label, kind := 0 }
  { points := points, last := st.last + 1, next := st.next + 1 }

/-- `from_clockwise_path`: `skips` has one entry per section of the path, `closed` = the last kept point is within
`CLOSE_DISTANCE` of the start point. (`from_anticlockwise_path` is the same on the reversed path.) -/
def fromPath (label : Nat) (skips : List Bool) (closed : Bool) : Graph :=
  let st := skips.foldl (fromPathStep label) { points := [Point.empty], last := 0, next := 1 }
  let points :=
    if st.last > 0 then
      if closed then
        -- Remove the last point, change the edge to point back to the start
        let points := st.points.dropLast
        updEdge points (st.last - 1) 0 fun e => { e with endIdx := 0 }
      else
        pushEdge st.points st.last { endIdx := 0, fol := 0, label := label, kind := 0 }
    else
      st.points.dropLast
  recalc points

/-! ### merge (mod.rs:379) -/

def offsetPoint (offset : Nat) (pt : Point) : Point :=
  { edges := pt.edges.map fun e => { e with endIdx := e.endIdx + offset }, conn := pt.conn.map (· + offset) }

def merge (g h : Graph) : Graph := g ++ h.map (offsetPoint g.length)

/-! ### reverse_edges_for_point (mod.rs:353), as (start_idx, edge_idx) -/

def reverseEdges (g : Graph) (p : Nat) : List (Nat × Nat) :=
  (connAt g p).flatMap fun c =>
    ((edgesAt g c).zipIdx.filter fun x => x.1.endIdx == p).map fun x => (c, x.2)

/-! ### collisions (path_collision.rs) -/

section Collisions
variable {K : Type} [LT K] [LE K] [DecidableLT K] [DecidableLE K] [OfNat K 0] [OfNat K 1]

/-- `t_is_zero` -/
def tIsZero (t : K) : Bool := decide (t ≤ 0)
/-- `t_is_one` -/
def tIsOne (t : K) : Bool := decide (t ≥ 1)

/-- `struct Collision` -/
structure Collision (K : Type) where
  p1 : Nat
  e1 : Nat
  t1 : K
  p2 : Nat
  e2 : Nat
  t2 : K

/-- the filter of `find_collisions` (path_collision.rs:178): hits at the end of either edge and hits at the start of both are dropped -/
def keepHit (t1 t2 : K) : Bool := !(tIsOne t1 || tIsOne t2 || (tIsZero t1 && tIsZero t2))

/-- the test `find_self_collisions` applies to a self-intersection `(t1, t2)` of one edge (path_collision.rs:138) -/
def keepSelfHit (t1 t2 : K) : Bool := !(decide (t1 ≤ 0) && decide (t2 ≥ 1)) && !(decide (t1 ≥ 1) && decide (t2 ≤ 0))

/-- the `.map` after the filter (path_collision.rs:187): a collision at the end of an edge moves to the start of the following edge -/
def moveToFollowing (g : Graph) (c : Collision K) : Collision K :=
  let c := if tIsOne c.t1 then
      match edgeAt g c.p1 c.e1 with
      | some ed => { c with p1 := ed.endIdx, e1 := ed.fol, t1 := 0 }
      | none => c
    else c
  if tIsOne c.t2 then
    match edgeAt g c.p2 c.e2 with
    | some ed => { c with p2 := ed.endIdx, e2 := ed.fol, t2 := 0 }
    | none => c
  else c

/-- what `find_collisions` does with the hits `curve_intersects_curve_clip` + `remove_and_round_close_collisions` report for one pair of edges -/
def selectHits (g : Graph) (src tgt : Nat × Nat) (hits : List (K × K)) : List (Collision K) :=
  ((hits.filter fun h => keepHit h.1 h.2).map fun h =>
      ({ p1 := src.1, e1 := src.2, t1 := h.1, p2 := tgt.1, e2 := tgt.2, t2 := h.2 } : Collision K)).map (moveToFollowing g)

/-- `create_collision_points` (path_collision.rs:212): the point every collision ends at; new (edge-less) points are appended -/
def createCollisionPoints (g : Graph) (cs : List (Collision K)) : Graph × List (Collision K × Nat) :=
  cs.foldl (fun (st : Graph × List (Collision K × Nat)) c =>
    if tIsZero c.t1 then (st.1, st.2 ++ [(c, c.p1)])
    else if tIsZero c.t2 then (st.1, st.2 ++ [(c, c.p2)])
    else (st.1 ++ [Point.empty], st.2 ++ [(c, st.1.length)])) (g, [])

/-- the table of `organize_collisions_by_edge`: per point `None` or one list of `(t, end point)` per edge -/
abbrev HitTable (K : Type) := List (Option (List (List (K × Nat))))

/-- `points[p].get_or_insert_with(|| smallvec![smallvec![]; forward_edges.len()])[e].push(hit)` -/
def pushHit (g : Graph) (tbl : HitTable K) (p e : Nat) (hit : K × Nat) : HitTable K :=
  tbl.modify p fun o =>
    let row := match o with | some row => row | none => List.replicate (edgesAt g p).length []
    some (row.modify e (· ++ [hit]))

/-- `organize_collisions_by_edge` (path_collision.rs:253) -/
def organize (g : Graph) (cps : List (Collision K × Nat)) : HitTable K :=
  cps.foldl (fun tbl cq =>
    let tbl := pushHit g tbl cq.1.p1 cq.1.e1 (cq.1.t1, cq.2)
    pushHit g tbl cq.1.p2 cq.1.e2 (cq.1.t2, cq.2)) (List.replicate g.length none)

/-- insertion of a hit that came before all hits of the list: it goes before every hit that is not strictly smaller -/
def insertHit (x : K × Nat) : List (K × Nat) → List (K × Nat)
  | [] => [x]
  | y :: l => if y.1 < x.1 then y :: insertHit x l else x :: y :: l

/-- `collisions.sort_by(..)` on the `t` value: a stable sort (hits with equal `t` keep their order; the result of a
stable sort by a total preorder does not depend on the algorithm) -/
def sortHits (hits : List (K × Nat)) : List (K × Nat) := hits.foldr insertHit []

/-- state of the loops that divide one edge: the graph, `previous_edge`, `last_point_idx` -/
structure SplitState where
  g : Graph
  prev : Nat × Nat
  last : Nat

/-- one iteration of "Deal with the rest of the collisions" (path_collision.rs:369) -/
def splitStep (label kind : Nat) (st : SplitState) (q : Nat) : SplitState :=
  -- Point the previous edge at the new edge we're adding
  let newEdgeIdx := (edgesAt st.g st.last).length
  let g := updEdge st.g st.prev.1 st.prev.2 fun e => { e with fol := newEdgeIdx }
  -- Add the new edge to the previous point
  let g := pushEdge g st.last { endIdx := q, fol := 0, label := label, kind := kind }
  { g := g, prev := (st.last, newEdgeIdx), last := q }

/-- the edge-dividing loops for edge `e` of point `p` (path_collision.rs:328-415), `qs` = the end points of the
collisions on this edge in `t` order, those at `t = 0` removed -/
def splitEdgeS (g : Graph) (p e : Nat) (qs : List Nat) : Graph :=
  match edgeAt g p e, qs with
  | none, _ => g
  | some _, [] => g
  | some ed, q :: rest =>
    let finalPoint := ed.endIdx
    let finalFol := ed.fol
    -- First collision is special as we need to edit the existing edge instead of adding a new one
    let followingEdgeIdx := (edgesAt g q).length
    let g := updEdge g p e fun x => { x with endIdx := q, fol := followingEdgeIdx }
    let st := rest.foldl (splitStep ed.label ed.kind) { g := g, prev := (p, e), last := q }
    -- there was at least one collision: add the final edge
    let newEdgeIdx := (edgesAt st.g st.last).length
    let g := updEdge st.g st.prev.1 st.prev.2 fun x => { x with fol := newEdgeIdx }
    pushEdge g st.last { endIdx := finalPoint, fol := finalFol, label := ed.label, kind := ed.kind }

/-- sort by `t`, skip the collisions at `t = 0`, divide -/
def splitEdge (g : Graph) (p e : Nat) (hits : List (K × Nat)) : Graph :=
  splitEdgeS g p e (((sortHits hits).filter fun h => !tIsZero h.1).map (·.2))

/-- "Actually divide the edges by collision" (path_collision.rs:304): rows in point order, edges in index order -/
def splitAll (g : Graph) (tbl : HitTable K) : Graph :=
  tbl.zipIdx.foldl (fun g rp =>
    match rp.1 with
    | none => g
    | some row => row.zipIdx.foldl (fun g he => if he.1.isEmpty then g else splitEdge g rp.2 he.2 he.1) g) g

/-- `detect_collisions` from `create_collision_points` up to (excluding) `recalculate_reverse_connections` -/
def splitStage (g : Graph) (cs : List (Collision K)) : Graph :=
  let r := createCollisionPoints g cs
  splitAll r.1 (organize r.1 r.2)

end Collisions

/-! ### combine_overlapping_points (path_collision.rs:520), index part -/

/-- `remapped_points`: target index and `new position is Some` -/
abbrev RemapTable := List (Nat × Bool)

def tblIdx (tbl : RemapTable) (i : Nat) : Nat := match tbl[i]? with | some x => x.1 | none => i

/-- the loop over the nearby pairs for which `!moved || point_is_near(..)` held -/
def buildTable (n : Nat) (accepted : List (Nat × Nat)) : RemapTable :=
  accepted.foldl (fun tbl ab =>
    let remapIdx := min (tblIdx tbl ab.1) (tblIdx tbl ab.2)
    (tbl.set ab.1 (remapIdx, true)).set ab.2 (remapIdx, true)) ((List.range n).map fun i => (i, false))

/-- "Trace the new index to its final point" (path_collision.rs:595); `fuel` bounds the chain -/
def traceRoot (orig : Nat) : Nat → RemapTable → Nat → RemapTable × Nat
  | 0, tbl, newIdx => (tbl, newIdx)
  | fuel + 1, tbl, newIdx =>
    let nextIdx := tblIdx tbl newIdx
    if nextIdx = newIdx then (tbl, newIdx)
    else traceRoot orig fuel (tbl.modify orig fun x => (nextIdx, x.2)) nextIdx

/-- state of the first remapping loop: table, graph, `following_edge_idx_offset` -/
structure MoveState where
  tbl : RemapTable
  g : Graph
  offs : List Nat

/-- one iteration of "Remap every point and the edges" (path_collision.rs:586) -/
def moveStep (st : MoveState) (orig : Nat) : MoveState :=
  match st.tbl[orig]? with
  | some (newIdx, true) =>
    -- If this is the target point, then don't move any edges
    if newIdx = orig then st else
    let r := traceRoot orig st.tbl.length st.tbl newIdx
    -- Move the edges into the new index (mem::take leaves empty lists behind)
    let forwardEdges := edgesAt st.g orig
    let connectedFrom := connAt st.g orig
    let g := updConn (updEdges st.g orig fun _ => []) orig fun _ => []
    let offs := st.offs.set orig (edgesAt g r.2).length
    let g := updEdges g r.2 (· ++ forwardEdges)
    let g := updConn g r.2 (· ++ connectedFrom)
    { tbl := r.1, g := g, offs := offs }
  | _ => st

/-- one point of "Remap the target points" (path_collision.rs:620) -/
def retargetPoint (tbl : RemapTable) (offs : List Nat) (pt : Point) : Point :=
  let edges := pt.edges.map fun e =>
    let newEnd := tblIdx tbl e.endIdx
    if newEnd ≠ e.endIdx then { e with endIdx := newEnd, fol := e.fol + offs.getD e.endIdx 0 } else e
  let conn := pt.conn.map (tblIdx tbl)
  let remapped := conn != pt.conn
  -- If we introduced duplicates, remove them
  { edges := edges, conn := if remapped || pt.conn.length > 1 then dedupAdj (sortNat conn) else conn }

/-- `combine_overlapping_points`: `any` = the sweep found a nearby pair, `accepted` = the pairs that were remapped -/
def combine (g : Graph) (any : Bool) (accepted : List (Nat × Nat)) : Graph :=
  if !any then g else
  let tbl := buildTable g.length accepted
  let st := (List.range g.length).foldl moveStep { tbl := tbl, g := g, offs := List.replicate g.length 0 }
  st.g.map (retargetPoint st.tbl st.offs)

/-! ### remove_edge / remove_all_very_short_edges (mod.rs:436, 516) -/

/-- the search for the preceding edge: connected points in list order, their edges in index order -/
def findPrev (g : Graph) (s e : Nat) : Option (Nat × Nat) :=
  (connAt g s).findSome? fun c =>
    ((edgesAt g c).zipIdx.find? fun x => x.1.endIdx == s && x.1.fol == e).map fun x => (c, x.2)

/-- "Update the following edge if it was affected by the deletion" -/
def adjustFol (s e : Nat) (ed : Edge) : Edge :=
  if ed.endIdx = s ∧ ed.fol > e then { ed with fol := ed.fol - 1 } else ed

/-- `remove_edge`. `none`: the edge does not exist (a panic) or no preceding edge is found (the Rust function then
returns without removing anything, and `remove_all_very_short_edges` never advances) -/
def removeEdge (g : Graph) (s e : Nat) : Option Graph :=
  match edgeAt g s e with
  | none => none
  | some ed =>
    let nextPointIdx := ed.endIdx
    let nextEdgeIdx := ed.fol
    match findPrev g s e with
    | none => none
    | some prev =>
      -- Reconnect the previous edge to the next edge
      let g := updEdge g prev.1 prev.2 fun x => { x with endIdx := nextPointIdx, fol := nextEdgeIdx }
      -- Remove the old edge from the list
      let g := updEdges g s (·.eraseIdx e)
      -- For all the connected points, update the following edge refs
      let g := updConn g s fun c => dedupAdj (sortNat c)
      let r := (connAt g s).foldl (fun (st : Graph × Bool) c =>
          (updEdges st.1 c (·.map (adjustFol s e)), st.2 || (edgesAt st.1 c).any (·.endIdx == s))) (g, false)
      -- If the two points are not still connected, remove the previous point from the connected list
      some (if !r.2 then updConn r.1 s (·.filter (· != s)) else r.1)

/-- the `while edge_idx < len` loop for point `p`; `k` = iterations left (= len - edge_idx, every iteration either
advances `edge_idx` or removes one edge of `p`); `dec` = the edges whose geometric "all control points are close" test
holds, in the order the loop meets them -/
def removeShortAt (p : Nat) : Nat → Graph → Nat → List (Nat × Nat) → Option (Graph × List (Nat × Nat))
  | 0, g, _, dec => some (g, dec)
  | k + 1, g, e, dec =>
    match edgeAt g p e with
    | none => some (g, dec)
    | some ed =>
      -- edge_is_very_short: starts and ends at the same point, and all four points are close
      if ed.endIdx = p ∧ dec.head? = some (p, e) then
        match removeEdge g p e with
        | none => none
        | some g' => removeShortAt p k g' e dec.tail
      else removeShortAt p k g (e + 1) dec

/-- `remove_all_very_short_edges` -/
def removeAllVeryShort (g : Graph) (dec : List (Nat × Nat)) : Option (Graph × List (Nat × Nat)) :=
  (List.range g.length).foldlM (fun (st : Graph × List (Nat × Nat)) p =>
    removeShortAt p (edgesAt st.1 p).length st.1 0 st.2) (g, dec)

/-! ### decidable well-formedness checks (proved sound and complete in Props/C03.lean; run on the real graph by the driver) -/

/-- number of edges that end at point `p` and name edge `f` of `p` as their following edge -/
def slotCount (g : Graph) (p f : Nat) : Nat := (allEdges g).countP fun e => e.endIdx == p && e.fol == f

/-- every edge ends at an existing point and names an existing following edge there, and every edge of every point is the
following edge of exactly one edge -/
def folWfCheck (g : Graph) : Bool :=
  ((allEdges g).all fun e => decide (e.endIdx < g.length) && decide (e.fol < (edgesAt g e.endIdx).length)) &&
  (List.range g.length).all fun p => (List.range (edgesAt g p).length).all fun f => slotCount g p f == 1

def nodupCheck : List Nat → Bool
  | [] => true
  | a :: r => !r.contains a && nodupCheck r

/-- `connected_from` lists existing points, nothing twice, and every point that has an edge to this one -/
def connOkCheck (g : Graph) : Bool :=
  (List.range g.length).all fun p =>
    ((connAt g p).all fun c => decide (c < g.length)) && nodupCheck (connAt g p) &&
    ((edgesAt g p).all fun e => (connAt g e.endIdx).contains p)

/-- every entry of `connected_from` really has an edge to this point -/
def connExactCheck (g : Graph) : Bool :=
  (List.range g.length).all fun p => (connAt g p).all fun c => (edgesAt g c).any fun e => e.endIdx == p

def wfCheck (g : Graph) : Bool := folWfCheck g && connOkCheck g

/-- in-degree (edges of the whole graph that end at `p`) and out-degree -/
def inDegree (g : Graph) (p : Nat) : Nat := (allEdges g).countP fun e => e.endIdx == p
def outDegree (g : Graph) (p : Nat) : Nat := (edgesAt g p).length

/-! ### detect_collisions / collide as a whole -/

section Whole
variable {K : Type} [LT K] [LE K] [DecidableLT K] [DecidableLE K] [OfNat K 0] [OfNat K 1]

/-- `detect_collisions` (path_collision.rs:283) given its geometric decisions -/
def detectCollisions (g : Graph) (cs : List (Collision K)) (any : Bool) (accepted : List (Nat × Nat))
    (dec : List (Nat × Nat)) : Option Graph :=
  if cs.isEmpty then
    (removeAllVeryShort (combine g any accepted) dec).map (·.1)
  else
    (removeAllVeryShort (combine (recalc (splitStage g cs)) any accepted) dec).map (·.1)

/-- `collide` (mod.rs:568) -/
def collide (g h : Graph) (cs : List (Collision K)) (any : Bool) (accepted : List (Nat × Nat))
    (dec : List (Nat × Nat)) : Option Graph :=
  detectCollisions (merge g h) cs any accepted dec

end Whole

end Model.Graph
