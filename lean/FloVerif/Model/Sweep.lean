import FloVerif.Gen.Bounds
/-!
Hand-written model of `sweep_self` / `sweep_against` (src/geo/sweep.rs) as explicit state machines.
`by_max_x` is modelled as a list whose head is the *last* element of the Rust vector (the top of the stack).
The position chosen by the binary-search insertion is modelled by `insertByMax`; the theorems do not depend on it.
The overlap test is the generated `Gen.bounds_overlaps`.
-/
namespace Model.Sweep
open Prelude Gen

variable {K : Type} [LT K] [DecidableLT K]

/-- an item with its bounding box and identity -/
structure Item (K : Type) where
  id : Nat
  b : Bounds2 K

def minx (i : Item K) : K := i.b.min_.x
def maxx (i : Item K) : K := i.b.max_.x

/-- `while let Some(..) = by_max_x.last() { if max_x >= min_x { break } pop }` -/
def popLoop (m : K) : List (Item K) → List (Item K)
  | [] => []
  | top :: rest => if maxx top < m then popLoop m rest else top :: rest

/-- insertion by binary search on max x (vector sorted by descending max x; head = smallest) -/
def insertByMax (x : Item K) : List (Item K) → List (Item K)
  | [] => [x]
  | top :: rest => if maxx top < maxx x then top :: insertByMax x rest else x :: top :: rest

/-- the pairs pushed for one new item: `for (bounds, item) in by_max_x.iter() { if overlaps … }` (vector order = reverse of the stack) -/
def hits (active : List (Item K)) (x : Item K) : List (Item K × Item K) :=
  ((active.reverse).filter (fun e => bounds_overlaps e.b x.b)).map (fun e => (e, x))

/-- `sweep_self`: pairs in the order the iterator yields them (the pending list is popped from its end) -/
def sweepSelfGo : List (Item K) → List (Item K) → List (Item K × Item K)
  | _, [] => []
  | active, x :: rest =>
    let active' := popLoop (minx x) active
    (hits active' x).reverse ++ sweepSelfGo (insertByMax x active') rest

def sweepSelf (xs : List (Item K)) : List (Item K × Item K) := sweepSelfGo [] xs

/-- the inner source-reading loop of `sweep_against`; `lastMin = none` stands for the initial `f64::MIN` -/
def readSrc (tgtMax : K) : Nat → Option K → List (Item K) → List (Item K) → Option K × List (Item K) × List (Item K)
  | 0, lastMin, active, rest => (lastMin, active, rest)
  | fuel + 1, lastMin, active, rest =>
    let stop := match lastMin with | some l => decide (l > tgtMax) | none => false
    if stop then (lastMin, active, rest) else
    match rest with
    | [] => (lastMin, active, [])
    | s :: rest' => readSrc tgtMax fuel (some (minx s)) (insertByMax s active) rest'

def sweepAgainstGo : Option K → List (Item K) → List (Item K) → List (Item K) → List (Item K × Item K)
  | _, _, _, [] => []
  | lastMin, active, rest, t :: tgts =>
    let active1 := popLoop (minx t) active
    let (lastMin', active2, rest') := readSrc (maxx t) (rest.length + 1) lastMin active1 rest
    (hits active2 t).reverse ++ sweepAgainstGo lastMin' active2 rest' tgts

def sweepAgainst (src tgt : List (Item K)) : List (Item K × Item K) := sweepAgainstGo none [] src tgt

end Model.Sweep
