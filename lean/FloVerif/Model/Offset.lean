import FloVerif.Gen.Offset
/-!
Hand-written part of the model of `offset_scaling` (src/bezier/offset_scaling.rs).  Mathlib-free, total, executable.

Everything numeric is GENERATED (`Gen/Offset.lean`): the section list and the loop over sections (`Gen.offset_scaling`), the
whole body of the private recursive function `subdivide_offset` (`Gen.subdivide_offset_body`, offset_scaling.rs:110-205, with
its recursive calls going through the parameter `recurse`), the two leaf constructors `Gen.offset_by_scaling` /
`Gen.offset_by_moving`, normals, unit vectors, `ray_intersects_ray`, `characterize_cubic_bezier`, `find_extremities`.

What is written by hand is only the knot: Rust's `subdivide_offset` calls itself; Lean needs a measure.  The Rust recursion
terminates because every recursive call sits under `depth < MAX_DEPTH` (`MAX_DEPTH = 5`) and passes `depth + 1`.  The model
takes fuel and returns `[]` when it runs out; `C10.subdivideOffset_fuel` shows that fuel `MAX_DEPTH + 1 − depth` is never
exhausted (the result does not depend on additional fuel), which is the fuel `offsetScaling` hands out.

A curve is the 4-tuple of its control points; a `CurveSection` is its `(t_c, t_m)` pair (`Prelude.SectionT`) next to the control
points `w1 … w4` of the curve it refers to.
-/
namespace Model.Offset
open Prelude Gen

variable {K : Type} [Add K] [Sub K] [Mul K] [Div K] [Neg K] [LT K] [LE K] [DecidableLT K] [DecidableLE K] [BEq K]
  [OfScientific K] [Inhabited K] [FAbs K] [FSqrt K] [OfInt K] [FConsts K]

/-- a cubic as its control points -/
abbrev Cubic (K : Type) := T4 (V2 K) (V2 K) (V2 K) (V2 K)

/-- `subdivide_offset(curve_section, initial_offset, final_offset, depth)` with fuel -/
def subdivideOffset (w1 w2 w3 w4 : V2 K) : Nat → SectionT K → K → K → Nat → List (Cubic K)
  | 0, _, _, _, _ => []
  | fuel + 1, curve, initial_offset, final_offset, depth =>
    subdivide_offset_body (subdivideOffset w1 w2 w3 w4 fuel) w1 w2 w3 w4 curve initial_offset final_offset depth

/-- `MAX_DEPTH` of offset_scaling.rs:116 (the generated body carries its own copy as a `let`) -/
def maxDepth : Nat := 5

/-- `offset_scaling(curve, initial_offset, final_offset)`: the generated function around the recursion above, each call with
    the fuel that is always enough -/
def offsetScaling (features_for_curve : K → CurveFeatures K) (w1 w2 w3 w4 : V2 K) (initial_offset final_offset : K) :
    List (Cubic K) :=
  offset_scaling features_for_curve
    (fun section_ o1 o2 depth => subdivideOffset w1 w2 w3 w4 (maxDepth + 1 - depth) section_ o1 o2 depth)
    initial_offset final_offset

end Model.Offset
