import FloVerif.Gen.Length
/-!
Hand-written model of `section_length` (src/bezier/length.rs:32-66, Graphics Gems V IV.7): the explicit stack
is a recursion with fuel; the halving tolerance and the `MIN_ERROR = 1e-12` floor bound the depth.  A piece is
split at t = 1/2 with the generated `Gen.subdivide4` (in exact arithmetic the control points of
`section.subsection(0, 0.5)` / `(0.5, 1)` are exactly these, see Props/C05); chord and control-polygon lengths are
the generated `Gen.chord_length`, `Gen.control_polygon_length`.
-/
namespace Model.Length
open Prelude Gen

variable {K P : Type} [Add K] [Sub K] [Mul K] [Div K] [Neg K] [LT K] [LE K] [DecidableLT K] [DecidableLE K] [BEq K]
  [OfScientific K] [Inhabited K] [Add P] [Sub P] [HMul P K P]

/-- `(2·chord + 2·polygon)/4` -/
def estimate (dist : P → P → K) (c : T4 P P P P) : K :=
  ((2.0 : K) * chord_length dist c.t0 c.t1 c.t2 c.t3 + (2.0 : K) * control_polygon_length dist c.t0 c.t1 c.t2 c.t3) / (4.0 : K)

/-- `error < max_error || max_error <= MIN_ERROR` with `error = (polygon − chord)²` -/
def accept (dist : P → P → K) (c : T4 P P P P) (e : K) : Bool :=
  let d := control_polygon_length dist c.t0 c.t1 c.t2 c.t3 - chord_length dist c.t0 c.t1 c.t2 c.t3
  decide (d * d < e) || decide (e ≤ (1e-12 : K))

def lengthGo (dist : P → P → K) : Nat → T4 P P P P → K → K
  | 0, c, _ => estimate dist c
  | n + 1, c, e =>
    if accept dist c e then estimate dist c
    else
      let h := subdivide4 (0.5 : K) c.t0 c.t1 c.t2 c.t3
      lengthGo dist n h.t0 (e / (2.0 : K)) + lengthGo dist n h.t1 (e / (2.0 : K))

/-- `curve_length(curve, max_error)`; 64 halvings take any tolerance below 1e-12 -/
def curveLength (dist : P → P → K) (c : T4 P P P P) (e : K) : K := lengthGo dist 64 c e

end Model.Length
