import FloVerif.Prelude.Num
import FloVerif.Gen.CurveClip
/-!
Hand-written part of the model of `curve_intersects_curve_clip` (src/bezier/intersection/curve_curve_clip.rs).

Everything that computes is generated: `Gen.curve_intersects_curve_clip_inner` is the translation of the WHOLE body of
`curve_intersects_curve_clip_inner` (the two zero-length tests, the clipping loop with its seven `return`s, the split
branch) in open-recursive form, `Gen.curve_intersects_curve_clip` that of the public wrapper (overlap shortcut on the whole
curves, then the inner function): the two calls of the function to itself are calls of the parameter `rec_`.
This file only ties the knot: `clipInner d` is the function with recursion depth at most `d` (`d = 0`: the empty list - in
Rust this would be unbounded recursion, i.e. a stack overflow).  Nothing else is hand-written.

The two pieces of the Rust function that are outside the translator's subset are parameters of the model (oracles):
* `ovl`   = `overlapping_region(&curve1, &curve2)`, called once by the wrapper  (uses the `roots` crate through `t_for_point`)
* `lin12` = `intersections_with_linear_section(&curve1, &curve2, accuracy)`   (curve1 is the linear one)
* `lin21` = `intersections_with_linear_section(&curve2, &curve1, accuracy)`   (curve2 is the linear one)
  (both use `curve_intersects_ray` / `solve_curve_for_t_along_axis`, i.e. the `roots` crate).
-/
namespace Model.CurveClip
open Prelude

/-- everything that stays fixed during one call of `curve_intersects_curve_clip`: the two oracles, the control points of the
    two (whole) curves, the accuracy and its square -/
structure Ctx (K : Type) where
  ovl : SectionT K → SectionT K → Option (T2 (T2 K K) (T2 K K))
  lin12 : SectionT K → SectionT K → K → List (T2 K K)
  lin21 : SectionT K → SectionT K → K → List (T2 K K)
  a1 : V2 K
  a2 : V2 K
  a3 : V2 K
  a4 : V2 K
  b1 : V2 K
  b2 : V2 K
  b3 : V2 K
  b4 : V2 K

variable {K : Type} [Add K] [Sub K] [Mul K] [Div K] [Neg K] [LT K] [LE K] [DecidableLT K] [DecidableLE K] [BEq K]
  [OfScientific K] [Inhabited K] [FAbs K] [FSqrt K] [FConsts K]

/-- `curve_intersects_curve_clip_inner` with recursion depth at most `d` -/
def clipInner (cx : Ctx K) : Nat → SectionT K → SectionT K → K → K → List (T2 K K)
  | 0 => fun _ _ _ _ => []
  | d + 1 => Gen.curve_intersects_curve_clip_inner (clipInner cx d) cx.lin12 cx.lin21
      cx.a1 cx.a2 cx.a3 cx.a4 cx.b1 cx.b2 cx.b3 cx.b4

/-- `curve_intersects_curve_clip` with recursion depth at most `d` -/
def clipTop (cx : Ctx K) (d : Nat) (accuracy : K) : List (T2 K K) :=
  Gen.curve_intersects_curve_clip (clipInner cx d) cx.ovl accuracy

end Model.CurveClip
