import FloVerif.Prelude.Num
/-!
Hand-written model of the RECURSION SKELETON of `fit_curve_cubic` (src/bezier/fit.rs:171-222).  Mathlib-free, total,
executable.

Everything numeric is a parameter:

* `fitLine p q`          – `fit_line(&points[0], &points[1])` (fit.rs:227-234; translated as `Gen.fit_line`)
* `tryFit ps st et e`    – everything from `chords_for_points` (fit.rs:177) to the final `(error, split_pos)` after the
                           improvement iterations (fit.rs:205): the candidate curve, its error and the split position
* `tangentBetween a b c` – `tangent_between` (fit.rs:375-380)
* `negate t`             – `center_tangent * -1.0` (fit.rs:216)

What is kept literally is the control flow: the `points.len() <= 2` base case, the `error <= max_error` test (with
this orientation, so an unordered (NaN) error goes to the split branch as in Rust), the two overlapping slices
`points[0..split_pos+1]` and `points[split_pos..points.len()]` (they share `points[split_pos]`), the tangents that
are handed down, and the order in which the two results are concatenated.

The Rust function is recursive without a measure the compiler knows about; the model takes fuel and returns `[]` when
it runs out.  `C08.fitCubic_chain` shows that `fuel = points.length` is never exhausted when the split position is
interior (both slices are strictly shorter).  Indexing is `Prelude.listGet` (Rust panics out of range, the model
returns `default`); `split_pos-1` is `usize` subtraction (Rust panics on underflow in debug builds and indexes out of
range in release builds; the model truncates at 0) – the theorems never index out of range.
-/
namespace Model.Fit
open Prelude

variable {K P C : Type} [LE K] [DecidableLE K] [Inhabited P]

/-- `fit_curve_cubic(points, start_tangent, end_tangent, max_error)` with fuel -/
def fitCubic (fitLine : P → P → List C) (tryFit : List P → P → P → K → (C × K × Nat))
    (tangentBetween : P → P → P → P) (negate : P → P) :
    Nat → List P → P → P → K → List C
  | 0, _, _, _, _ => []
  | fuel + 1, points, start_tangent, end_tangent, max_error =>
    if points.length ≤ 2 then
      -- 2 points is a line (less than 2 points is an error here)
      fitLine (listGet points 0) (listGet points 1)
    else
      let r := tryFit points start_tangent end_tangent max_error
      let curve := r.1
      let error := r.2.1
      let split_pos := r.2.2
      if error ≤ max_error then
        -- We've generated a curve within the error bounds
        [curve]
      else
        -- If error still too large, split the points and create two curves
        let center_tangent := tangentBetween (listGet points (split_pos - 1)) (listGet points split_pos) (listGet points (split_pos + 1))
        let lhs := fitCubic fitLine tryFit tangentBetween negate fuel (listSlice points 0 (split_pos + 1)) start_tangent center_tangent max_error
        let rhs := fitCubic fitLine tryFit tangentBetween negate fuel (listSlice points split_pos points.length) (negate center_tangent) end_tangent max_error
        lhs ++ rhs

/-- the fuel that is always enough (see `C08.fitCubic_chain`) -/
def fitCubicAuto (fitLine : P → P → List C) (tryFit : List P → P → P → K → (C × K × Nat))
    (tangentBetween : P → P → P → P) (negate : P → P) (points : List P) (st et : P) (e : K) : List C :=
  fitCubic fitLine tryFit tangentBetween negate points.length points st et e

end Model.Fit
