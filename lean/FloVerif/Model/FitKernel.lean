import FloVerif.Gen.FitKernel
/-!
The WHOLE fitter, generated: `fit_curve` (block loop) over `fit_curve_cubic` (generated body) over the generated least-squares
kernel (`chords_for_points`, `generate_bezier`, `reparameterize`, `max_error_for_curve`, `tangent_between`, `fit_line`,
`start_tangent`, `end_tangent`).  The only hand-written part is the knot: the two self-calls of `fit_curve_cubic` are tied with a
depth (`C08Kernel.fitCubicGen_eq_cubicKnot`; `C08Term.cubicKnot_chain` shows depth `points.length` is never used up).
-/
namespace Model.FitKernel
open Prelude Gen

variable {K : Type} [Add K] [Sub K] [Mul K] [Div K] [Neg K] [LT K] [LE K] [DecidableLT K] [DecidableLE K] [BEq K]
  [OfScientific K] [Inhabited K] [FAbs K] [FSqrt K] [FConsts K] [OfInt K] [FSignum K]

abbrev Cub (K : Type) := T4 (V2 K) (V2 K) (V2 K) (V2 K)

/-- `fit_curve_cubic` with every helper generated; self-calls have depth `n` -/
def fitCubicGen : Nat → List (V2 K) → V2 K → V2 K → K → List (Cub K)
  | 0 => fun _ _ _ _ => []
  | n + 1 => fun points st et e =>
    fit_curve_cubic_body (K := K) (P := V2 K) (C := Cub K) (fitCubicGen n) chords_for_points generate_bezier reparameterize max_error_for_curve tangent_between
      (fun p => p * (-(1.0 : K))) (fit_line (K := K)) points st et e

/-- `fit_curve::<Curve<Coord2>>` -/
def fitCurveGen (points : List (V2 K)) (max_error : K) : Option (List (Cub K)) :=
  fit_curve (K := K) (P := V2 K) (C := Cub K) (fun ps st et e => fitCubicGen (ps.length + 1) ps st et e) fit_start_tangent fit_end_tangent points max_error

/-- `fit_curve_loop::<Curve<Coord2>>` -/
def fitCurveLoopGen (points : List (V2 K)) (max_error : K) : Option (List (Cub K)) :=
  fit_curve_loop (K := K) (P := V2 K) (C := Cub K) (fun ps st et e => fitCubicGen (ps.length + 1) ps st et e)
    fit_start_tangent fit_end_tangent points max_error

end Model.FitKernel
