import FloVerif.Gen.Basis
/-!
The geometric half of the edge-dividing loops of `detect_collisions` (path_collision.rs:328-415): the curves of the
edges that replace an edge divided at the parameters `ts` (sorted, those at `t = 0` removed).  The subdivision itself is
`Gen.curve_subdivide`, regenerated from `BezierCurve::subdivide` on every check; this file only adds the loop with its
re-parameterisation `t2 = (t - (1 - remaining_t)) / remaining_t`.
-/
namespace Model.GraphSplit
open Prelude Gen

variable {K P : Type} [Add K] [Sub K] [Mul K] [Div K] [OfScientific K] [Add P] [HMul P K P]

/-- "Deal with the rest of the collisions": `rem` = `remaining_edge`, then the final edge -/
def splitRest (rem : T4 P P P P) (remaining_t : K) : List K → List (T4 P P P P)
  | [] => [rem]
  | t :: ts =>
    let t2 := (t - ((1.0 : K) - remaining_t)) / remaining_t
    let d := curve_subdivide rem.t0 rem.t1 rem.t2 rem.t3 t2
    d.t0 :: splitRest d.t1 ((1.0 : K) - t) ts

/-- the curves replacing the curve `w`: the first collision subdivides at `t` itself -/
def splitCurve (w : T4 P P P P) : List K → List (T4 P P P P)
  | [] => [w]
  | t :: ts =>
    let d := curve_subdivide w.t0 w.t1 w.t2 w.t3 t
    d.t0 :: splitRest d.t1 ((1.0 : K) - t) ts

end Model.GraphSplit
