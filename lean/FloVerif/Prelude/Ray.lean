import FloVerif.Prelude.Num
/-!
Types shared by the generated (`Gen.Ray`) and hand-written (`Model.Ray`) parts of the ray-casting model
(src/bezier/path/ray.rs, src/bezier/path/graph_path/ray_collision.rs).  Mathlib-free.
-/
namespace Prelude

instance {A B} [Inhabited A] [Inhabited B] : Inhabited (T2 A B) := ⟨⟨default, default⟩⟩
instance {A B C D} [Inhabited A] [Inhabited B] [Inhabited C] [Inhabited D] : Inhabited (T4 A B C D) := ⟨⟨default, default, default, default⟩⟩

/-- `GraphEdgeRef` (graph_path/mod.rs) -/
structure EdgeRef where
  start_idx : Nat
  edge_idx : Nat
  reverse : Bool
deriving Repr, BEq, DecidableEq, Inhabited

/-- `GraphEdgeRef::reversed` (graph_path/edge_ref.rs) -/
def EdgeRef.reversed (e : EdgeRef) : EdgeRef := { e with reverse := !e.reverse }

/-- `enum RayCanIntersect` (ray.rs) -/
inductive RayCanIntersect where
  | WrongSide
  | Collinear
  | CrossesRay
deriving Repr, BEq, DecidableEq, Inhabited

/-- `enum GraphRayCollision` (graph_path/ray_collision.rs) -/
inductive GraphRayCollision where
  | SingleEdge (e : EdgeRef)
  | Intersection (e : EdgeRef)
deriving Repr, BEq, DecidableEq, Inhabited

/-- `GraphRayCollision::edge` -/
def GraphRayCollision.edge : GraphRayCollision → EdgeRef
  | .SingleEdge e => e
  | .Intersection e => e

/-- the four control points of an edge, as `BezierCurve` exposes them (`start_point`, `control_points`, `end_point`) -/
abbrev Curve4 (K : Type) := T4 (V2 K) (V2 K) (V2 K) (V2 K)

/-- one collision as it travels through the iterator pipeline of `ray_collisions`: `(edge, curve_t, line_t, position)` -/
abbrev Hit (K : Type) := T4 EdgeRef K K (V2 K)

/-- one collision of the result: `(GraphRayCollision, curve_t, line_t, position)` -/
abbrev Collision (K : Type) := T4 GraphRayCollision K K (V2 K)

/-- `trait RayPath` (ray.rs:17-71) as a record of its methods -/
structure RayPathI (K : Type) where
  num_points : Nat
  num_edges : Nat → Nat
  reverse_edges_for_point : Nat → List EdgeRef
  edges_for_point : Nat → List EdgeRef
  get_edge : EdgeRef → Curve4 K
  get_next_edge : EdgeRef → T2 EdgeRef (Curve4 K)
  point_position : Nat → V2 K
  edge_start_point_idx : EdgeRef → Nat
  edge_end_point_idx : EdgeRef → Nat
  edge_following_edge_idx : EdgeRef → Nat

/-- `GraphPathEdge` (graph_path/mod.rs) without label, kind and the bounding-box cache -/
structure GraphPathEdgeM (K : Type) where
  cp1 : V2 K
  cp2 : V2 K
  end_idx : Nat
  following_edge_idx : Nat
deriving Repr, BEq

/-- `GraphPathPoint` -/
structure GraphPathPointM (K : Type) where
  position : V2 K
  forward_edges : List (GraphPathEdgeM K)
  connected_from : List Nat
deriving Repr, BEq

/-- `GraphPath` (`next_path_index` plays no role in ray casting) -/
structure GraphPathM (K : Type) where
  points : List (GraphPathPointM K)
deriving Repr, BEq

/-- `GraphEdge`: a graph and a reference to one of its edges -/
structure GraphEdgeM (K : Type) where
  graph : GraphPathM K
  edge : EdgeRef

instance {K} [Inhabited K] : Inhabited (GraphPathEdgeM K) := ⟨⟨default, default, 0, 0⟩⟩
instance {K} [Inhabited K] : Inhabited (GraphPathPointM K) := ⟨⟨default, [], []⟩⟩

/-- `f64::partial_cmp`: `None` when a NaN is involved -/
def fpartialCmp {K} [LT K] [DecidableLT K] [BEq K] (a b : K) : Option Ordering :=
  if a < b then some .lt else if a == b then some .eq else if b < a then some .gt else none

end Prelude

/-- Rust's names of the constructors of `std::cmp::Ordering`, usable in patterns -/
@[match_pattern] abbrev Ordering.Less : Ordering := .lt
@[match_pattern] abbrev Ordering.Equal : Ordering := .eq
@[match_pattern] abbrev Ordering.Greater : Ordering := .gt
