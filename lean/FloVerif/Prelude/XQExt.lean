import FloVerif.Prelude.XQ
/-!
Additions to `XQ` used by C20 ("finite in, finite out"): the finiteness predicate and the value of a finite number,
`f64::sqrt` for an arbitrary rational square-root function, and the `f64` constants.  Mathlib-free (links into the driver).

`XQ` computes exactly what binary64 computes except that nothing is ever rounded, so nothing overflows or underflows:
a finite `XQ` result from finite operands that is non-finite in binary64 can only be an overflow, and a non-finite `XQ`
result (x/0, 0/0, ∞−∞, 0·∞, sqrt of a negative number) is non-finite in binary64 as well whenever the operands agree.
-/
namespace Prelude
namespace XQ

/-- the rational value of a finite number (both zeros are 0); 0 for ±∞ and NaN -/
def val (a : XQ) : Rat := a.toRat?.getD 0

/-- "is a finite number" (not ±∞, not NaN) as a proposition -/
def Fin (a : XQ) : Prop := a.isFinite = true

instance (a : XQ) : Decidable (Fin a) := inferInstanceAs (Decidable (a.isFinite = true))

/-- `f64::sqrt` on top of a square-root function `s` on the non-negative rationals (IEEE: sqrt(−0) = −0, sqrt of a
    negative number or of −∞ is NaN, sqrt(+∞) = +∞).  The theorems only use `0 ≤ s q` and `s q = 0 ↔ q = 0` for `0 ≤ q`,
    which hold for the exact square root and for the correctly rounded one. -/
def sqrtWith (s : Rat → Rat) : XQ → XQ
  | fin q => if q < 0 then nan else fin (s q)
  | nzero => nzero
  | pinf => pinf
  | ninf => nan
  | nan => nan

/-- `f64::MAX`, `f64::MIN`, `f64::INFINITY`, `f64::NEG_INFINITY`, `f64::EPSILON` -/
instance : FConsts XQ :=
  ⟨fin (((2 ^ 1024 - 2 ^ 971 : Nat) : Int) : Rat), fin (-(((2 ^ 1024 - 2 ^ 971 : Nat) : Int) : Rat)), pinf, ninf,
   fin (1 / (((2 ^ 52 : Nat) : Int) : Rat))⟩

end XQ

/-- 2-D point all of whose coordinates are finite -/
def V2.Fin (p : V2 XQ) : Prop := XQ.Fin p.x ∧ XQ.Fin p.y

end Prelude
