import FloVerif.Prelude.Num
/-!
`XQ`: IEEE-shaped exact numbers — finite rationals, signed zero, infinities, NaN — with the IEEE-754 rules for
signed zeros, division by zero, ∞−∞ and unordered NaN comparisons, but **no rounding**.

This is the executable number type of the correspondence check.  It exists because Lean's `x / 0 = 0`
would make several statements true for the wrong reason (parallel lines, `t_m/(1−t_c)` at `t_c = 1`, …).
-/
namespace Prelude

inductive XQ where
  | fin (q : Rat)      -- `fin 0` is +0
  | nzero              -- −0
  | pinf | ninf | nan
deriving Repr, DecidableEq, Inhabited

namespace XQ
def isZero : XQ → Bool | fin q => q == 0 | nzero => true | _ => false
def isNaN : XQ → Bool | nan => true | _ => false
def isFinite : XQ → Bool | fin _ => true | nzero => true | _ => false
def signNeg : XQ → Bool | fin q => q < 0 | nzero => true | ninf => true | _ => false
def mkZero (neg : Bool) : XQ := if neg then nzero else fin 0
def mkInf (neg : Bool) : XQ := if neg then ninf else pinf
def toRat? : XQ → Option Rat | fin q => some q | nzero => some 0 | _ => none

def neg : XQ → XQ
  | fin q => if q == 0 then nzero else fin (-q)
  | nzero => fin 0 | pinf => ninf | ninf => pinf | nan => nan

def add (a b : XQ) : XQ :=
  match a, b with
  | nan, _ | _, nan => nan
  | pinf, ninf | ninf, pinf => nan
  | pinf, _ | _, pinf => pinf
  | ninf, _ | _, ninf => ninf
  | nzero, nzero => nzero
  | a, b => fin ((a.toRat?.getD 0) + (b.toRat?.getD 0))   -- an exact zero sum of opposite signs is +0

def mul (a b : XQ) : XQ :=
  match a, b with
  | nan, _ | _, nan => nan
  | a, b =>
    let s := a.signNeg != b.signNeg
    match a.toRat?, b.toRat? with
    | some x, some y => if x * y == 0 then mkZero s else fin (x * y)
    | none, some y => if y == 0 then nan else mkInf s
    | some x, none => if x == 0 then nan else mkInf s
    | none, none => mkInf s

def div (a b : XQ) : XQ :=
  match a, b with
  | nan, _ | _, nan => nan
  | a, b =>
    let s := a.signNeg != b.signNeg
    match a.toRat?, b.toRat? with
    | some x, some y =>
      if y == 0 then (if x == 0 then nan else mkInf s) else (if x == 0 then mkZero s else fin (x / y))
    | none, some _ => mkInf s
    | some _, none => mkZero s
    | none, none => nan

/-- IEEE ordered comparison (false if either side is NaN; −0 = +0) -/
def lt (a b : XQ) : Bool :=
  match a, b with
  | nan, _ | _, nan => false
  | pinf, _ => false | _, ninf => false
  | ninf, _ => true | _, pinf => true
  | a, b => (a.toRat?.getD 0) < (b.toRat?.getD 0)
def le (a b : XQ) : Bool :=
  match a, b with
  | nan, _ | _, nan => false
  | ninf, _ => true | _, pinf => true
  | pinf, _ => false | _, ninf => false
  | a, b => (a.toRat?.getD 0) ≤ (b.toRat?.getD 0)
/-- IEEE `==` (NaN ≠ NaN, −0 == +0) -/
def feq (a b : XQ) : Bool :=
  match a, b with
  | nan, _ | _, nan => false
  | pinf, pinf => true | ninf, ninf => true
  | a, b => match a.toRat?, b.toRat? with
    | some x, some y => x == y
    | _, _ => false

instance : Add XQ := ⟨add⟩
instance : Neg XQ := ⟨neg⟩
instance : Sub XQ := ⟨fun a b => add a (neg b)⟩
instance : Mul XQ := ⟨mul⟩
instance : Div XQ := ⟨div⟩
instance : LT XQ := ⟨fun a b => lt a b = true⟩
instance : LE XQ := ⟨fun a b => le a b = true⟩
instance : DecidableLT XQ := fun a b => inferInstanceAs (Decidable (lt a b = true))
instance : DecidableLE XQ := fun a b => inferInstanceAs (Decidable (le a b = true))
instance : BEq XQ := ⟨feq⟩
instance : OfScientific XQ := ⟨fun m s e => fin (OfScientific.ofScientific m s e)⟩
instance : OfNat XQ n := ⟨fin (n : Rat)⟩
instance : FAbs XQ := ⟨fun a => match a with
  | fin q => fin (if q < 0 then -q else q) | nzero => fin 0 | ninf => pinf | x => x⟩
instance : FSignum XQ := ⟨fun a => match a with
  | nan => nan | a => if a.signNeg then fin (-1) else fin 1⟩
instance : FToI32 XQ := ⟨fun a => match a with
  | fin q => truncI32 q | nzero => 0 | pinf => 2147483647 | ninf => -2147483648 | nan => 0⟩
instance : OfInt XQ := ⟨fun n => fin (n : Rat)⟩

def ofRat (q : Rat) : XQ := fin q

/-- canonical text: rationals as `num/den`, specials by name -/
def toStr : XQ → String
  | fin q => s!"{q.num}/{q.den}"
  | nzero => "-0"
  | pinf => "inf" | ninf => "-inf" | nan => "nan"
end XQ
end Prelude
