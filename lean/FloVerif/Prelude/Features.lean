import FloVerif.Prelude.Num
/-!
The enums of src/bezier/characteristics.rs (`CurveCategory`, `CurveFeatures`, the private `InflectionPoints`) as inductives
with the same constructor names, so that the translated `match`es of `Gen/Offset.lean` read like the Rust source (translator option `enums`).
Mathlib-free.
-/
namespace Prelude

/-- `CurveCategory` (characteristics.rs:19-43) -/
inductive CurveCategory where
  | Point | Linear | Arch | SingleInflectionPoint | DoubleInflectionPoint | Parabolic | Cusp | Loop
deriving Repr, BEq, DecidableEq, Inhabited

/-- `CurveFeatures` (characteristics.rs:48-72) -/
inductive CurveFeatures (K : Type) where
  | Point | Linear | Arch
  | SingleInflectionPoint (t : K)
  | DoubleInflectionPoint (t1 t2 : K)
  | Parabolic | Cusp
  | Loop (t1 t2 : K)
deriving Repr, BEq, DecidableEq, Inhabited

/-- `InflectionPoints` (characteristics.rs:244-248, private) -/
inductive InflectionPoints (K : Type) where
  | Zero
  | One (t : K)
  | Two (t1 t2 : K)
deriving Repr, BEq, DecidableEq, Inhabited

end Prelude
