/-!
Number classes, tuples and vectors shared by the generated (`Gen`) and hand-written (`Model`) parts.
Mathlib-free: everything here links into the native driver.

Rust tuples are translated to the structures `T2 … T6` (fields `t0 …`), so that `x.0` becomes `x.t0`
whatever the arity is.
-/
namespace Prelude

structure T2 (A B : Type) where
  t0 : A
  t1 : B
deriving Repr, BEq, DecidableEq

structure T3 (A B C : Type) where
  t0 : A
  t1 : B
  t2 : C
deriving Repr, BEq, DecidableEq

structure T4 (A B C D : Type) where
  t0 : A
  t1 : B
  t2 : C
  t3 : D
deriving Repr, BEq, DecidableEq

structure T5 (A B C D E : Type) where
  t0 : A
  t1 : B
  t2 : C
  t3 : D
  t4 : E
deriving Repr, BEq, DecidableEq

structure T6 (A B C D E F : Type) where
  t0 : A
  t1 : B
  t2 : C
  t3 : D
  t4 : E
  t5 : F
deriving Repr, BEq, DecidableEq

/-- 2-D point (`Coord2`) -/
structure V2 (K : Type) where
  x : K
  y : K
deriving Repr, BEq, DecidableEq

/-- 3-D point (`Coord3`) -/
structure V3 (K : Type) where
  x : K
  y : K
  z : K
deriving Repr, BEq, DecidableEq

instance {A B} [Inhabited A] [Inhabited B] : Inhabited (T2 A B) := ⟨⟨default, default⟩⟩
instance {A B C} [Inhabited A] [Inhabited B] [Inhabited C] : Inhabited (T3 A B C) := ⟨⟨default, default, default⟩⟩
instance {A B C D} [Inhabited A] [Inhabited B] [Inhabited C] [Inhabited D] : Inhabited (T4 A B C D) :=
  ⟨⟨default, default, default, default⟩⟩
instance {K} [Inhabited K] : Inhabited (V2 K) := ⟨⟨default, default⟩⟩
instance {K} [Inhabited K] : Inhabited (V3 K) := ⟨⟨default, default, default⟩⟩
instance {K} [Add K] : Add (V2 K) := ⟨fun a b => ⟨a.x + b.x, a.y + b.y⟩⟩
instance {K} [Sub K] : Sub (V2 K) := ⟨fun a b => ⟨a.x - b.x, a.y - b.y⟩⟩
instance {K} [Mul K] : HMul (V2 K) K (V2 K) := ⟨fun a k => ⟨a.x * k, a.y * k⟩⟩
instance {K} [Add K] : Add (V3 K) := ⟨fun a b => ⟨a.x + b.x, a.y + b.y, a.z + b.z⟩⟩
instance {K} [Sub K] : Sub (V3 K) := ⟨fun a b => ⟨a.x - b.x, a.y - b.y, a.z - b.z⟩⟩
instance {K} [Mul K] : HMul (V3 K) K (V3 K) := ⟨fun a k => ⟨a.x * k, a.y * k, a.z * k⟩⟩

/-- the numeric state of a `CurveSection` (`t_c`, `t_m`); the curve it refers to is passed separately -/
structure SectionT (K : Type) where
  t_c : K
  t_m : K
deriving Repr, BEq, DecidableEq

/-- `Bounds<Coord2>` -/
structure Bounds2 (K : Type) where
  min_ : V2 K
  max_ : V2 K
deriving Repr, BEq, DecidableEq

/-- `Coordinate::get` on a 2-D point -/
def getc {K : Type} (p : V2 K) (i : Nat) : K := if i == 0 then p.x else p.y

/-- the numeric state of a `FatLine` -/
structure FatLineT (K : Type) where
  d_min : K
  d_max : K
  coeff : T3 K K K
deriving Repr, BEq

/-- the numeric state of an `EvenWalkIterator` (the curve is passed separately) -/
structure EvenWalkT (K : Type) where
  derivative : T3 (V2 K) (V2 K) (V2 K)
  last_t : K
  last_point : V2 K
  last_increment : K
  distance : K
  max_error : K

/-- `ClipResult` of curve_curve_clip.rs -/
inductive ClipResult (K : Type) where
  | None
  | Some (r : T2 K K)
  | SecondCurveIsLinear
deriving Repr, BEq

/-- `f64::MAX`, `f64::MIN`, `f64::INFINITY`, `f64::NEG_INFINITY`, `f64::EPSILON` -/
class FConsts (K : Type) where
  fmaxval : K
  fminval : K
  finf : K
  fneginf : K
  feps : K
export FConsts (fmaxval fminval finf fneginf feps)

/-- `f64::abs` -/
class FAbs (K : Type) where fabs : K → K
export FAbs (fabs)
/-- `f64::sqrt` -/
class FSqrt (K : Type) where fsqrt : K → K
export FSqrt (fsqrt)
/-- `f64::signum` (IEEE: the sign of a zero counts) -/
class FSignum (K : Type) where fsignum : K → K
export FSignum (fsignum)
/-- `n as f64` -/
class OfInt (K : Type) where ofInt : Int → K
export OfInt (ofInt)
/-- `x as i32` for an `f64` (truncates towards zero, saturates, NaN gives 0) -/
class FToI32 (K : Type) where toInt_i32 : K → Int
export FToI32 (toInt_i32)
/-- dot product of points -/
class Dot (P : Type) (K : outParam Type) where dot : P → P → K
export Dot (dot)

instance : FAbs Float := ⟨Float.abs⟩
instance : FSqrt Float := ⟨Float.sqrt⟩
instance : FSignum Float := ⟨fun a => if a.isNaN then a else if a.toBits >>> 63 == 1 then -1.0 else 1.0⟩
instance : OfInt Float := ⟨Float.ofInt⟩
instance : FConsts Float := ⟨Float.ofBits 0x7fefffffffffffff, Float.ofBits 0xffefffffffffffff, Float.ofBits 0x7ff0000000000000, Float.ofBits 0xfff0000000000000, Float.ofBits 0x3cb0000000000000⟩
instance : FToI32 Float := ⟨fun a => (Float.toInt32 a).toInt⟩
/-- truncation towards zero, saturated to the range of `i32` -/
def truncI32 (x : Rat) : Int :=
  let z := if x < 0 then x.ceil else x.floor
  if z < -2147483648 then -2147483648 else if z > 2147483647 then 2147483647 else z
instance : FToI32 Rat := ⟨truncI32⟩
instance : FAbs Rat := ⟨fun x => if x < 0 then -x else x⟩
instance : FSignum Rat := ⟨fun x => if x < 0 then -1 else 1⟩
instance : OfInt Rat := ⟨fun n => (n : Rat)⟩

/-- the loop in `Coordinate::dot` starts from 0.0 -/
instance {K} [Add K] [Mul K] [OfScientific K] : Dot (V2 K) K := ⟨fun a b => ((0.0 : K) + a.x * b.x) + a.y * b.y⟩
instance {K} [Add K] [Mul K] [OfScientific K] : Dot (V3 K) K := ⟨fun a b => (((0.0 : K) + a.x * b.x) + a.y * b.y) + a.z * b.z⟩

/-- `f64::min`: the other argument if one is NaN -/
def fmin {K} [LT K] [DecidableLT K] [BEq K] (a b : K) : K := if b < a then b else if a == a then a else b
/-- `f64::max` -/
def fmax {K} [LT K] [DecidableLT K] [BEq K] (a b : K) : K := if a < b then b else if a == a then a else b

/-- `for x in l { … }` as a left fold (list and initial state first, which helps elaboration) -/
def foldlT {α β : Type} (l : List α) (init : β) (f : β → α → β) : β := List.foldl f init l

/-- `for x in l { … }` whose body can `return` from the enclosing function: `f` returns `inl s'` to go on with the next element
    and `inr r` to leave the function with `r`; the result is `inl` of the final state if the loop ran to its end -/
def foldlRet {α β ρ : Type} : List α → β → (β → α → Sum β ρ) → Sum β ρ
  | [], s, _ => Sum.inl s
  | x :: xs, s, f =>
    match f s x with
    | Sum.inl s' => foldlRet xs s' f
    | Sum.inr r => Sum.inr r

/-- `for x in l { … }` whose body can `break`: `f` returns `inl s'` to go on with the next element and `inr s'` to
    leave the loop -/
def foldlBrk {α β : Type} : List α → β → (β → α → Sum β β) → β
  | [], s, _ => s
  | x :: xs, s, f =>
    match f s x with
    | .inl s' => foldlBrk xs s' f
    | .inr s' => s'

/-- how a loop body ends when it does not simply run into the next iteration -/
inductive LoopExit (σ ρ : Type) where
  | brk (s : σ)      -- `break` (or fuel exhausted)
  | ret (v : ρ)      -- `return v` from inside the loop

/-- `loop { … }` / `while …` with fuel: `step` returns `inl s'` to continue with the new state, `inr r` to leave the loop -/
def iterFuel {σ ρ : Type} : Nat → (σ → Sum σ ρ) → (σ → ρ) → σ → ρ
  | 0, _, fin, s => fin s
  | n + 1, step, fin, s =>
    match step s with
    | .inl s' => iterFuel n step fin s'
    | .inr r => r

/-- `&v[lo..hi]` -/
def listSlice {α} (l : List α) (lo hi : Nat) : List α := (l.drop lo).take (hi - lo)

/-- `v[i]` (Rust panics out of range; the model returns a default, and the properties never index out of range) -/
def listGet {α} [Inhabited α] (l : List α) (i : Nat) : α := l[i]!

/-- `Vec::dedup_by(|a, b| same a b)`: an element is dropped when `same` holds of it (first argument) and the last element kept (second) -/
def listDedupByGo {α} (same : α → α → Bool) : α → List α → List α
  | last, [] => [last]
  | last, x :: xs => if same x last then listDedupByGo same last xs else last :: listDedupByGo same x xs
def listDedupBy {α} (l : List α) (same : α → α → Bool) : List α :=
  match l with
  | [] => []
  | x :: xs => listDedupByGo same x xs

/-- `Iterator::reduce` -/
def listReduce {α} (l : List α) (f : α → α → α) : Option α :=
  match l with
  | [] => none
  | x :: xs => some (xs.foldl f x)

/-- `itertools::tuple_windows` for pairs: consecutive overlapping pairs -/
def windows2 {α} : List α → List (T2 α α)
  | a :: b :: rest => T2.mk a b :: windows2 (b :: rest)
  | _ => []


/-- `a & b` on crossing counts -/
def bitand (a b : Int) : Int :=
  -- two's complement `a & b` for a non-negative mask `b` (the only use in the code is `& 1`)
  if b < 0 then 0 else
    let n := b.toNat.log2 + 1
    Int.ofNat ((a.emod (2 ^ n : Nat)).toNat &&& b.toNat)

/-! ### scan conversion (path_contour.rs, ray_cast_contour.rs) -/


/-- `std::ops::Range<f64>` (`start..end`) -/
structure RangeT (K : Type) where
  start : K
  end_ : K
deriving Repr, BEq, DecidableEq

/-- `ContourIntercept` of path_contour.rs: one hit of a scanline on curve number `curve_idx` at parameter `t` -/
structure InterceptT (K : Type) where
  curve_idx : Nat
  t : K
  x_pos : K
deriving Repr, BEq, DecidableEq

instance {K} [Inhabited K] : Inhabited (RangeT K) := ⟨⟨default, default⟩⟩
instance {K} [Inhabited K] : Inhabited (InterceptT K) := ⟨⟨0, default, default⟩⟩

/-- `a.total_cmp(&b) != Greater`: the total order of `f64::total_cmp` (−0 before +0, NaNs at the ends) -/
class FTotalLe (K : Type) where ftotalLe : K → K → Bool
export FTotalLe (ftotalLe)

/-- key of `f64::total_cmp`: the bits as a sign-magnitude integer made monotone -/
def totalKey (a : Float) : UInt64 :=
  let b := a.toBits
  if b >>> 63 == 1 then ~~~ b else b ||| 0x8000000000000000
instance : FTotalLe Float := ⟨fun a b => totalKey a ≤ totalKey b⟩
instance : FTotalLe Rat := ⟨fun a b => decide (a ≤ b)⟩

/-- `Itertools::tuples()` for pairs: consecutive disjoint pairs, a trailing single element is dropped -/
def listPairs {α : Type} : List α → List (T2 α α)
  | a :: b :: rest => T2.mk a b :: listPairs rest
  | _ => []

/-- `Iterator::enumerate()` -/
def listEnumFrom {α : Type} : Nat → List α → List (T2 Nat α)
  | _, [] => []
  | n, a :: rest => T2.mk n a :: listEnumFrom (n + 1) rest
def listEnum {α : Type} (l : List α) : List (T2 Nat α) := listEnumFrom 0 l

/-- insertion of one element into a sorted list, after every element that is not greater (stable) -/
def insertSorted {α : Type} (le : α → α → Bool) (x : α) : List α → List α
  | [] => [x]
  | y :: ys => if le y x then y :: insertSorted le x ys else x :: y :: ys

/-- `sort_by` / `sort_unstable_by` with `le a b = (cmp(a, b) != Greater)`: a stable insertion sort. (Rust's unstable sort is this
    very insertion sort up to 20 elements; beyond that the order among equal keys is unspecified.) -/
def listSortBy {α : Type} (le : α → α → Bool) (l : List α) : List α := l.foldl (fun acc x => insertSorted le x acc) []

end Prelude
