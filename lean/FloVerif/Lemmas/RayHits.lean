/-
Helper lemmas for C14: how many hits C04's model of `curve_intersects_ray` reports on one edge (exact solver, end points
away from the line), and the parity of that number over ℝ.
-/
import FloVerif.Props.C04
import FloVerif.Lemmas.RayPoly
import FloVerif.Lemmas.FatLine
import FloVerif.Model.Ray

set_option linter.unusedSectionVars false
set_option linter.unusedVariables false
namespace RayHits
open Prelude Gen C04

section General
variable {K : Type} [Field K] [LinearOrder K] [IsStrictOrderedRing K] [Inhabited K] [FSqrt K]

local instance : FAbs K := ⟨fun a => |a|⟩

/-- neither end point of the edge is within the snapping distance of the line, measured as `curve_intersects_ray` measures it
    (curve_line.rs:83-108) -/
def NoSnap (w1 w4 : V2 K) (l : T2 (V2 K) (V2 K)) : Prop :=
  ¬ |w1.x * (lineA l / fsqrt (lineA l * lineA l + lineB l * lineB l)) + w1.y * (lineB l / fsqrt (lineA l * lineA l + lineB l * lineB l))
      + lineC l / fsqrt (lineA l * lineA l + lineB l * lineB l)| < (SMALL_DISTANCE : K) ∧
  ¬ |w4.x * (lineA l / fsqrt (lineA l * lineA l + lineB l * lineB l)) + w4.y * (lineB l / fsqrt (lineA l * lineA l + lineB l * lineB l))
      + lineC l / fsqrt (lineA l * lineA l + lineB l * lineB l)| < (SMALL_DISTANCE : K)

theorem snap_id (w1 w4 : V2 K) (l : T2 (V2 K) (V2 K)) (h : NoSnap w1 w4 l) (t : K) : snap w1 w4 l t = t := by
  unfold snap
  simp only [h.1, h.2, if_false]
  split_ifs <;> rfl

/-- an exact root yields a hit exactly when it lies in [0,1] -/
theorem hitOf_isSome (w1 w2 w3 w4 : V2 K) (l : T2 (V2 K) (V2 K)) (h : NoSnap w1 w4 l) (r : K)
    (hr : polyEval (distPoly w1 w2 w3 w4 l) r = 0) :
    (hitOf w1 w2 w3 w4 l r).isSome = decide (0 ≤ r ∧ r ≤ 1) := by
  unfold hitOf
  simp only [polish_of_root _ r hr, snap_id w1 w4 l h]
  by_cases hc : 0 ≤ r ∧ r ≤ 1
  · have hw : (-0.1 : K) < r ∧ r < 1.1 := ⟨lt_of_lt_of_le (by norm_num) hc.1, lt_of_le_of_lt hc.2 (by norm_num)⟩
    simp [hc, hw]
  · by_cases hw : (-0.1 : K) < r ∧ r < 1.1
    · simp [hc, hw]
    · simp [hc, hw]

theorem length_filterMap_eq_countP {α β : Type} (f : α → Option β) : ∀ l : List α,
    (l.filterMap f).length = l.countP fun a => (f a).isSome
  | [] => rfl
  | a :: l => by
    rw [List.filterMap_cons, List.countP_cons]
    cases h : f a with
    | none => simp [length_filterMap_eq_countP f l]
    | some b => simp [length_filterMap_eq_countP f l]

/-- with an exact solver and both end points away from the line, the number of hits on an edge is the number of the solver's
    roots in [0,1] -/
theorem hits_length (solve : T4 K K K K → List K) (w1 w2 w3 w4 : V2 K) (l : T2 (V2 K) (V2 K))
    (hne : lineA l ≠ 0 ∨ lineB l ≠ 0) (h : NoSnap w1 w4 l)
    (hroots : ∀ r ∈ solve (distPoly w1 w2 w3 w4 l), polyEval (distPoly w1 w2 w3 w4 l) r = 0) :
    (curve_intersects_ray solve w1 w2 w3 w4 l).length =
      (solve (distPoly w1 w2 w3 w4 l)).countP fun r => decide (0 ≤ r ∧ r ≤ 1) := by
  rw [cir_unfold, if_neg (by rintro ⟨ha, hb⟩; rcases hne with h | h <;> contradiction), length_filterMap_eq_countP]
  apply List.countP_congr
  intro r hr
  rw [hitOf_isSome w1 w2 w3 w4 l h r (hroots r hr)]

/-- with an exact solver and both end points away from the line, the parameter of every hit is one of the solver's roots in [0,1] -/
theorem hit_t_eq_root (solve : T4 K K K K → List K) (w1 w2 w3 w4 : V2 K) (l : T2 (V2 K) (V2 K)) (h : NoSnap w1 w4 l)
    (hroots : ∀ r ∈ solve (distPoly w1 w2 w3 w4 l), polyEval (distPoly w1 w2 w3 w4 l) r = 0)
    (x : T3 K K (V2 K)) (hx : x ∈ curve_intersects_ray solve w1 w2 w3 w4 l) :
    x.t0 ∈ solve (distPoly w1 w2 w3 w4 l) ∧ 0 ≤ x.t0 ∧ x.t0 ≤ 1 := by
  obtain ⟨_, r, hr, ht, h0, h1, _⟩ := hit_sound solve w1 w2 w3 w4 l x hx
  rw [polish_of_root _ r (hroots r hr), snap_id w1 w4 l h] at ht
  rw [ht]
  exact ⟨hr, by rw [← ht]; exact h0, by rw [← ht]; exact h1⟩

/-- the values of the distance cubic at the ends of the parameter range are the distances of the end points -/
theorem poly_at_ends (w1 w2 w3 w4 : V2 K) (l : T2 (V2 K) (V2 K)) :
    polyEval (distPoly w1 w2 w3 w4 l) 0 = lineDist l w1 ∧ polyEval (distPoly w1 w2 w3 w4 l) 1 = lineDist l w4 := by
  constructor <;> rw [poly_is_signed_distance] <;>
    simp only [lineDist, FatLineLemmas.dc4_x, FatLineLemmas.dc4_y, FatLineLemmas.dc4_bernstein] <;> ring

end General

section Real
open Polynomial
variable [FSqrt ℝ]

local instance : FAbs ℝ := ⟨fun a => |a|⟩

/-- the coefficient quadruple as a Mathlib polynomial -/
noncomputable def toPoly (p : T4 ℝ ℝ ℝ ℝ) : ℝ[X] := C p.t0 * X ^ 3 + C p.t1 * X ^ 2 + C p.t2 * X + C p.t3

theorem eval_toPoly (p : T4 ℝ ℝ ℝ ℝ) (t : ℝ) : (toPoly p).eval t = polyEval p t := by
  simp [toPoly, polyEval]

/-- **per-edge parity.**  For an exact solver (its result lists every real root of the distance cubic once and nothing else), an
    edge whose end points are off the line (so far that nothing is snapped) and a line that is nowhere tangent to the edge
    (the cubic has only simple roots), `curve_intersects_ray` reports an odd number of hits exactly when the end points of the edge
    lie strictly on opposite sides of the line. -/
theorem edge_parity (solve : T4 ℝ ℝ ℝ ℝ → List ℝ) (w1 w2 w3 w4 : V2 ℝ) (l : T2 (V2 ℝ) (V2 ℝ))
    (hne : lineA l ≠ 0 ∨ lineB l ≠ 0) (hsnap : NoSnap w1 w4 l)
    (hsolve : ∀ r, r ∈ solve (distPoly w1 w2 w3 w4 l) ↔ polyEval (distPoly w1 w2 w3 w4 l) r = 0)
    (hnodup : (solve (distPoly w1 w2 w3 w4 l)).Nodup)
    (hsimple : (toPoly (distPoly w1 w2 w3 w4 l)).roots.Nodup)
    (h1 : lineDist l w1 ≠ 0) (h4 : lineDist l w4 ≠ 0) :
    (curve_intersects_ray solve w1 w2 w3 w4 l).length % 2 = 1 ↔ lineDist l w1 * lineDist l w4 < 0 := by
  set P := distPoly w1 w2 w3 w4 l with hP
  obtain ⟨e0, e1⟩ := poly_at_ends w1 w2 w3 w4 l
  rw [← hP] at e0 e1
  have hp0 : (toPoly P).eval 0 ≠ 0 := by rw [eval_toPoly, e0]; exact h1
  have hp1 : (toPoly P).eval 1 ≠ 0 := by rw [eval_toPoly, e1]; exact h4
  have hne0 : toPoly P ≠ 0 := fun e => hp0 (by rw [e]; simp)
  rw [hits_length solve w1 w2 w3 w4 l hne hsnap (fun r hr => (hsolve r).1 hr), ← e0, ← e1, ← eval_toPoly, ← eval_toPoly,
    ← RayPoly.roots_parity (toPoly P) hp0 hp1]
  -- the solver's list and the root multiset are the same multiset
  have hms : ((solve P : List ℝ) : Multiset ℝ) = (toPoly P).roots := by
    rw [Multiset.Nodup.ext (Multiset.coe_nodup.2 hnodup) hsimple]
    intro a
    rw [Multiset.mem_coe, hsolve a, mem_roots hne0, IsRoot, eval_toPoly]
  have hcount : (solve P).countP (fun r => decide (0 ≤ r ∧ r ≤ 1)) = Multiset.card (RayPoly.innerRoots (toPoly P)) := by
    unfold RayPoly.innerRoots
    rw [← hms, Multiset.filter_coe, Multiset.coe_card, List.countP_eq_length_filter]
    congr 1
    apply List.filter_congr
    intro r hr
    have hroot : polyEval P r = 0 := (hsolve r).1 hr
    have hr0 : r ≠ 0 := fun e => h1 (by rw [← e0]; subst e; exact hroot)
    have hr1 : r ≠ 1 := fun e => h4 (by rw [← e1]; subst e; exact hroot)
    simp only [decide_eq_decide]
    constructor
    · rintro ⟨a, b⟩; exact ⟨lt_of_le_of_ne a (Ne.symm hr0), lt_of_le_of_ne b hr1⟩
    · rintro ⟨a, b⟩; exact ⟨le_of_lt a, le_of_lt b⟩
  rw [hcount]

/-- the hits of edge `e` as C04's generated `curve_intersects_ray` computes them with the solver `solve` -/
noncomputable def cirOf (solve : T4 ℝ ℝ ℝ ℝ → List ℝ) (path : RayPathI ℝ) (ray : T2 (V2 ℝ) (V2 ℝ)) (e : EdgeRef) : List (T3 ℝ ℝ (V2 ℝ)) :=
  curve_intersects_ray solve (path.get_edge e).t0 (path.get_edge e).t1 (path.get_edge e).t2 (path.get_edge e).t3 ray

end Real
end RayHits
